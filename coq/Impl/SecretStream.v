(* Model of src/classic/crypto_secretstream_xchacha20poly1305.rs and the pull /
   push wrappers of src/dryocstream.rs.  State = (k : 32 bytes, nonce : 12
   bytes = 4-byte LE counter || 8-byte inonce).  Generic in the ChaCha20 key
   stream, HChaCha20 and the one-time authenticator. *)
From Dryoc Require Export Lib.Outcome Spec.ChaCha20 Impl.Poly1305.
Open Scope Z_scope.

Module SecretStreamImpl.

Definition ABYTES : nat := 17.
Definition COUNTERBYTES : nat := 4.
Definition INONCEBYTES : nat := 8.
Definition TAG_REKEY : Z := 2.
Definition MESSAGEBYTES_MAX : Z := 274877906816.  (* 64 * (2^32 - 2), via min() in constants.rs *)

(* utils::increment_bytes *)
Fixpoint increment_aux (carry : Z) (l : bytes) : bytes :=
  match l with
  | [] => []
  | b :: r => let c := carry + b in Z.land c 0xff :: increment_aux (Z.shiftr c 8) r
  end.
Definition increment_bytes (l : bytes) : bytes := increment_aux 1 l.

(* utils::pad16 *)
Definition pad16 (n : nat) : nat := Z.to_nat (Z.land (0x10 - Z.of_nat (n mod 16)) 0xf).

Record state := mk_state { st_k : bytes; st_nonce : bytes }.

Definition state_counter (nonce : bytes) : bytes := firstn COUNTERBYTES nonce.
Definition state_inonce (nonce : bytes) : bytes := slice nonce COUNTERBYTES (INONCEBYTES + COUNTERBYTES).
Definition set_counter (nonce c : bytes) : bytes := c ++ skipn COUNTERBYTES nonce.
Definition set_inonce (nonce i : bytes) : bytes :=
  firstn COUNTERBYTES nonce ++ i ++ skipn (INONCEBYTES + COUNTERBYTES) nonce.
Definition counter_reset (nonce : bytes) : bytes := set_counter nonce [1; 0; 0; 0].

Section Generic.
(* key, 12-byte nonce, starting block counter, length -> key stream *)
Variable stream : bytes -> bytes -> Z -> nat -> bytes.
Variable hchacha : bytes -> bytes -> bytes.            (* key, 16-byte input *)
Variable onetimeauth : bytes -> bytes -> bytes.

(* init_push with the header drawn by the caller / init_pull *)
Definition init (header key : bytes) : state :=
  let k := hchacha key (firstn 16 header) in
  mk_state k (set_inonce (counter_reset (zeros 12)) (slice header 16 24)).

Definition rekey (s : state) : state :=
  let new_state := st_k s ++ state_inonce (st_nonce s) in
  let new_state := xor_into new_state (stream (st_k s) (st_nonce s) 0 40) in
  mk_state (firstn 32 new_state)
           (counter_reset (set_inonce (st_nonce s) (skipn 32 new_state))).

Definition size_data (adlen mlen : nat) : bytes :=
  le_bytes 8 (Z.of_nat adlen) ++ le_bytes 8 (Z.of_nat (64 + mlen)).

Definition buffer_mac_pad (mlen : nat) : nat := Z.to_nat (Z.land (0x10 - 64 + Z.of_nat mlen) 0xf).

(* the byte string handed to Poly1305 (as the concatenation of the updates) *)
Definition mac_input (ad block c : bytes) : bytes :=
  ad ++ zeros (pad16 (length ad)) ++ block ++ c ++ zeros (buffer_mac_pad (length c)) ++
  size_data (length ad) (length c).

Definition after_message (s : state) (mac : bytes) (tag : Z) : state :=
  let nonce := set_inonce (st_nonce s) (xor_into (state_inonce (st_nonce s)) mac) in
  let nonce := set_counter nonce (increment_bytes (state_counter nonce)) in
  let s' := mk_state (st_k s) nonce in
  if (Z.land tag TAG_REKEY =? TAG_REKEY) || bytes_eqb (state_counter nonce) (zeros COUNTERBYTES)
  then rekey s' else s'.

(* push(state, ciphertext (buffer of clen bytes), message, ad, tag) *)
Definition push (s : state) (clen : nat) (message ad : bytes) (tag : Z) : outcome bytes * state :=
  if negb (clen =? length message + ABYTES)%nat then (Err, s)
  else if MESSAGEBYTES_MAX <? Z.of_nat (length message) then (Err, s)
  else
    let mac_key := stream (st_k s) (st_nonce s) 0 32 in
    let block := xor_into (tag :: zeros 63) (stream (st_k s) (st_nonce s) 1 64) in
    let c := xor_into message (stream (st_k s) (st_nonce s) 2 (length message)) in
    let mac := onetimeauth mac_key (mac_input ad block c) in
    (Ok (nthz block 0 :: c ++ mac), after_message s mac tag).

(* pull(state, message (buffer), tag (variable), ciphertext, ad):
   outcome (message length), state, message buffer, tag variable afterwards.
   Nothing is written to the caller's buffer or tag before the authenticator
   has been verified (fix: commit in /repo). *)
Definition pull (s : state) (mbuf : bytes) (tagvar : Z) (ciphertext ad : bytes)
  : outcome nat * state * bytes * Z :=
  if (length ciphertext <? ABYTES)%nat then (Err, s, mbuf, tagvar)
  else
    let mlen := (length ciphertext - ABYTES)%nat in
    if (length mbuf <? mlen)%nat then (Err, s, mbuf, tagvar)
    else if MESSAGEBYTES_MAX <? Z.of_nat (length ciphertext) then (Err, s, mbuf, tagvar)
    else
      let mac_key := stream (st_k s) (st_nonce s) 0 32 in
      let c0 := nthz ciphertext 0 in
      let block := xor_into (c0 :: zeros 63) (stream (st_k s) (st_nonce s) 1 64) in
      let tag := nthz block 0 in
      let block := c0 :: skipn 1 block in
      let c := slice ciphertext 1 (1 + mlen) in
      let mac := onetimeauth mac_key (mac_input ad block c) in
      if negb (bytes_eqb (skipn (1 + mlen) ciphertext) mac) then (Err, s, mbuf, tagvar)
      else
        let m := xor_into c (stream (st_k s) (st_nonce s) 2 mlen) in
        (Ok mlen, after_message s mac tag, m ++ skipn mlen mbuf, tag).

(* DryocStream::<Pull>::pull: allocates the message, maps the tag byte *)
Definition obj_pull (s : state) (ciphertext ad : bytes) : outcome (bytes * Z) * state :=
  if (length ciphertext <? ABYTES)%nat then (Err, s)
  else
    match pull s (zeros (length ciphertext - ABYTES)) 0 ciphertext ad with
    | (Ok _, s', m, tag) => (Ok (m, tag), s')
    | (Err, s', _, _) => (Err, s')
    | (Panic, s', _, _) => (Panic, s')
    end.

End Generic.

Definition chacha (k nonce : bytes) (ctr : Z) (len : nat) : bytes := ChaCha20Spec.chacha20_stream k nonce ctr len.

Definition init_c := init ChaCha20Spec.hchacha20.
Definition rekey_c := rekey chacha.
Definition push_c := push chacha Poly1305Impl.mac.
Definition pull_c := pull chacha Poly1305Impl.mac.
Definition obj_pull_c := obj_pull chacha Poly1305Impl.mac.

End SecretStreamImpl.
