(* Model of src/argon2.rs (Argon2i / Argon2id, version 0x13), src/classic/crypto_pwhash.rs
   (crypto_pwhash: validation and cost conversion) and PwHash::{hash_with_salt, verify}
   (src/pwhash.rs), mirroring the control flow: flat block memory indexed by
   lane * lane_length + offset, fill_segment's curr / prev offsets, index_alpha with the
   u32 / u64 wrapping arithmetic written out, generate_addresses, fill_block with the
   sixteen explicit index lists of blake2_round_nomsg.  Indexing a Vec out of range would
   panic in Rust; here [nth] totalises it, and Refine/Argon2.v proves every index in range. *)
From Dryoc Require Export Lib.Outcome Impl.Blake2b.
Open Scope Z_scope.

Module Argon2Impl.
Import Blake2bImpl.

Definition VERSION : Z := 0x13.
Definition BLOCK_SIZE : nat := 1024.
Definition QWORDS : nat := 128.
Definition ADDRESSES_IN_BLOCK : Z := 128.
Definition PREHASH_DIGEST_LENGTH : nat := 64.
Definition SYNC_POINTS : Z := 4.
Definition MIN_OUTLEN : Z := 16.
Definition MAX_U32 : Z := 0xFFFFFFFF.
Definition MIN_SALT_LENGTH : Z := 8.
Definition MAX_LANES : Z := 0xFFFFFF.
Definition MIN_MEMORY : Z := 8.
Definition MAX_MEMORY : Z := 0xFFFFFFFF.     (* min(0xFFFFFFFF, 1 << 32) on 64-bit *)

Definition sub32 (a b : Z) : Z := w32 (a - b).
Definition mul32 (a b : Z) : Z := w32 (a * b).

Definition block := list Z.
Definition zero_block : block := repeat 0 QWORDS.

(* fn fblamka(x, y): x + y + 2 * lo32(x) * lo32(y), wrapping *)
Definition fblamka (x y : Z) : Z :=
  let xy := Z.land x mask32 * Z.land y mask32 in
  add64 (add64 x y) (mul64 2 xy).

(* block.v[x] = fblamka(block.v[x], block.v[y]);  block.v[x] = rotr64(block.v[x] ^ block.v[y], r) *)
Definition mixa (b : block) (x y : nat) : block := upd b x (fblamka (nthz b x) (nthz b y)).
Definition mixr (b : block) (x y : nat) (r : Z) : block := upd b x (rotr64 (Z.lxor (nthz b x) (nthz b y)) r).

Definition g (b : block) (a bb c d : nat) : block :=
  let b := mixa b a bb in
  let b := mixr b d a 32 in
  let b := mixa b c d in
  let b := mixr b bb c 24 in
  let b := mixa b a bb in
  let b := mixr b d a 16 in
  let b := mixa b c d in
  mixr b bb c 63.

(* fn blake2_round_nomsg(block, v0..v15) *)
Definition blake2_round_nomsg (b : block) (v : list nat) : block :=
  let i (k : nat) : nat := nth k v O in
  let b := g b (i 0%nat) (i 4%nat) (i 8%nat) (i 12%nat) in
  let b := g b (i 1%nat) (i 5%nat) (i 9%nat) (i 13%nat) in
  let b := g b (i 2%nat) (i 6%nat) (i 10%nat) (i 14%nat) in
  let b := g b (i 3%nat) (i 7%nat) (i 11%nat) (i 15%nat) in
  let b := g b (i 0%nat) (i 5%nat) (i 10%nat) (i 15%nat) in
  let b := g b (i 1%nat) (i 6%nat) (i 11%nat) (i 12%nat) in
  let b := g b (i 2%nat) (i 7%nat) (i 8%nat) (i 13%nat) in
  g b (i 3%nat) (i 4%nat) (i 9%nat) (i 14%nat).

Definition row_indices (i : nat) : list nat := map (fun k => 16 * i + k)%nat (seq 0 16).
Definition col_indices (i : nat) : list nat :=
  flat_map (fun k => [2 * i + 16 * k; 2 * i + 16 * k + 1])%nat (seq 0 8).

Definition xor_block (dst src : block) : block :=
  map (fun p : Z * Z => Z.lxor (fst p) (snd p)) (combine dst src).

(* fn fill_block(prev, ref, next, with_xor) -> the new next block *)
Definition fill_block (prev_block ref_block next_block : block) (with_xor : bool) : block :=
  let block_r := xor_block ref_block prev_block in
  let block_tmp := if with_xor then xor_block block_r next_block else block_r in
  let block_r := fold_left (fun b i => blake2_round_nomsg b (row_indices i)) (seq 0 8) block_r in
  let block_r := fold_left (fun b i => blake2_round_nomsg b (col_indices i)) (seq 0 8) block_r in
  xor_block block_tmp block_r.

Definition load_block (input : bytes) : block := le_words 8 input.
Definition store_block (b : block) : bytes := flat_map (le_bytes 8) b.

Record inst := mk_inst {
  memory : list block; pseudo_rands : list Z;
  passes : Z; memory_blocks : Z; segment_length : Z; lane_length : Z; lanes : Z; ty : Z }.

Definition set_memory (I : inst) (m : list block) : inst :=
  mk_inst m (pseudo_rands I) (passes I) (memory_blocks I) (segment_length I) (lane_length I) (lanes I) (ty I).
Definition set_rands (I : inst) (r : list Z) : inst :=
  mk_inst (memory I) r (passes I) (memory_blocks I) (segment_length I) (lane_length I) (lanes I) (ty I).

Fixpoint upd_block (m : list block) (i : nat) (b : block) : list block :=
  match m, i with
  | [], _ => []
  | _ :: r, O => b :: r
  | x :: r, S i' => x :: upd_block r i' b
  end.
Definition mem_at (I : inst) (i : Z) : block := nth (Z.to_nat i) (memory I) zero_block.

(* fn index_alpha(instance, position, pseudo_rand: u32, same_lane) -> u32, wrapping as the
   release build does (the debug build would panic where these wrap: Refine/Argon2.v
   proves they never do) *)
Definition reference_area_size (seg lane_len pass slice index : Z) (same_lane : bool) : Z :=
  if pass =? 0 then
    if slice =? 0 then sub32 index 1
    else if same_lane then sub32 (add32 (mul32 slice seg) index) 1
    else if index =? 0 then sub32 (mul32 slice seg) 1
    else mul32 slice seg
  else if same_lane then sub32 (add32 (sub32 lane_len seg) index) 1
  else if index =? 0 then sub32 (sub32 lane_len seg) 1
  else sub32 lane_len seg.

Definition index_alpha (seg lane_len pass slice index pseudo_rand : Z) (same_lane : bool) : Z :=
  let ras := reference_area_size seg lane_len pass slice index same_lane in
  let rp := w32 (Z.shiftr (mul64 pseudo_rand pseudo_rand) 32) in
  let rp := sub32 (sub32 ras 1) (w32 (Z.shiftr (mul64 ras rp) 32)) in
  let start := if negb (pass =? 0) then
                 if slice =? SYNC_POINTS - 1 then 0 else mul32 (slice + 1) seg
               else 0 in
  (add32 start rp) mod lane_len.

(* fn generate_addresses: the segment's pseudo_rands *)
Fixpoint gen_addr (n : nat) (i : Z) (input addr : block) (acc : list Z) : list Z :=
  match n with
  | O => acc
  | S n' =>
    let '(input, addr) :=
      if i mod ADDRESSES_IN_BLOCK =? 0 then
        let input' := upd input 6 (add64 (nthz input 6) 1) in
        let tmp := fill_block zero_block input' zero_block true in
        (input', fill_block zero_block tmp zero_block true)
      else (input, addr) in
    gen_addr n' (i + 1) input addr (acc ++ [nthz addr (Z.to_nat (i mod ADDRESSES_IN_BLOCK))])
  end.

Definition generate_addresses (I : inst) (pass lane slice : Z) : inst :=
  let input := [pass; lane; slice; memory_blocks I; passes I; ty I] ++ repeat 0 (QWORDS - 6) in
  set_rands I (gen_addr (Z.to_nat (segment_length I)) 0 input zero_block []).

(* the loop of fill_segment *)
Fixpoint seg_loop (n : nat) (I : inst) (pass lane slice : Z) (dia : bool) (i curr prev : Z) : inst :=
  match n with
  | O => I
  | S n' =>
    let prev := if curr mod lane_length I =? 1 then curr - 1 else prev in
    let pseudo_rand := if dia then nthz (pseudo_rands I) (Z.to_nat i) else nthz (mem_at I prev) 0 in
    let ref_lane := if (pass =? 0) && (slice =? 0) then lane else Z.shiftr pseudo_rand 32 mod lanes I in
    let ref_index := index_alpha (segment_length I) (lane_length I) pass slice i (Z.land pseudo_rand mask32) (ref_lane =? lane) in
    let nb := fill_block (mem_at I prev) (mem_at I (lane_length I * ref_lane + ref_index)) (mem_at I curr) (negb (pass =? 0)) in
    seg_loop n' (set_memory I (upd_block (memory I) (Z.to_nat curr) nb)) pass lane slice dia (i + 1) (curr + 1) (prev + 1)
  end.

Definition fill_segment (I : inst) (pass lane slice : Z) : inst :=
  let dia := negb ((ty I =? 2) && (negb (pass =? 0) || (SYNC_POINTS / 2 <=? slice))) in
  let I := if dia then generate_addresses I pass lane slice else I in
  let starting_index := if (pass =? 0) && (slice =? 0) then 2 else 0 in
  let curr := lane * lane_length I + slice * segment_length I + starting_index in
  let prev := if curr mod lane_length I =? 0 then curr + lane_length I - 1 else curr - 1 in
  seg_loop (Z.to_nat (segment_length I - starting_index)) I pass lane slice dia starting_index curr prev.

Definition fill_memory_blocks (I : inst) (pass : Z) : inst :=
  fold_left (fun I s => fold_left (fun I l => fill_segment I pass (Z.of_nat l) (Z.of_nat s)) (seq 0 (Z.to_nat (lanes I))) I)
            (seq 0 4) I.

(* the bytes absorbed by argon2_initial_hash, in order (one State::update each) *)
Definition h0_updates (lanes outlen m_cost t_cost ty : Z) (pwd salt : bytes) (secret ad : option bytes) : list bytes :=
  let opt o := match o with Some s => [le_bytes 4 (Z.of_nat (length s))] ++ (if (length s =? 0)%nat then [] else [s])
                           | None => [le_bytes 4 0] end in
  [le_bytes 4 lanes; le_bytes 4 outlen; le_bytes 4 m_cost; le_bytes 4 t_cost; le_bytes 4 VERSION; le_bytes 4 ty;
   le_bytes 4 (Z.of_nat (length pwd))] ++ (if (length pwd =? 0)%nat then [] else [pwd]) ++
  [le_bytes 4 (Z.of_nat (length salt))] ++ (if (length salt =? 0)%nat then [] else [salt]) ++ opt secret ++ opt ad.

Definition initial_hash (lanes outlen m_cost t_cost ty : Z) (pwd salt : bytes) (secret ad : option bytes) : outcome bytes :=
  let* s := init_c (Z.of_nat PREHASH_DIGEST_LENGTH) None None None in
  let s := fold_left update_c (h0_updates lanes outlen m_cost t_cost ty pwd salt secret ad) s in
  let* d := finalize_c s PREHASH_DIGEST_LENGTH in
  Ok (d ++ zeros 8).

(* fn argon2_fill_first_blocks *)
Fixpoint first_blocks (ls : list nat) (blockhash : bytes) (I : inst) : outcome inst :=
  match ls with
  | [] => Ok I
  | l :: rest =>
    let h := firstn PREHASH_DIGEST_LENGTH blockhash in
    let* b0 := longhash_c BLOCK_SIZE (h ++ [0; 0; 0; 0] ++ le_bytes 4 (Z.of_nat l)) in
    let I := set_memory I (upd_block (memory I) (Z.to_nat (Z.of_nat l * lane_length I)) (load_block b0)) in
    let* b1 := longhash_c BLOCK_SIZE (h ++ [1; 0; 0; 0] ++ le_bytes 4 (Z.of_nat l)) in
    let I := set_memory I (upd_block (memory I) (Z.to_nat (Z.of_nat l * lane_length I + 1)) (load_block b1)) in
    first_blocks rest blockhash I
  end.

Definition finalize (I : inst) (outlen : nat) : outcome bytes :=
  let bh := mem_at I (lane_length I - 1) in
  let bh := fold_left (fun b l => xor_block b (mem_at I (Z.of_nat l * lane_length I + (lane_length I - 1))))
                      (seq 1 (Z.to_nat (lanes I) - 1)) bh in
  longhash_c outlen (store_block bh).

Definition in_range (lo hi v : Z) : bool := (lo <=? v) && (v <=? hi).

(* Argon2Context::new: the validate! chain *)
Definition context_ok (outlen : nat) (pwd salt : bytes) (secret ad : option bytes) (t_cost m_cost parallelism : Z) : bool :=
  in_range MIN_OUTLEN MAX_U32 (Z.of_nat outlen) && in_range 0 MAX_U32 (Z.of_nat (length pwd)) &&
  in_range MIN_SALT_LENGTH MAX_U32 (Z.of_nat (length salt)) &&
  (match secret with Some s => in_range 0 MAX_U32 (Z.of_nat (length s)) | None => true end) &&
  (match ad with Some s => in_range 0 MAX_U32 (Z.of_nat (length s)) | None => true end) &&
  in_range 1 MAX_LANES parallelism && in_range MIN_MEMORY MAX_MEMORY m_cost && in_range 1 MAX_U32 t_cost.

(* memory_blocks and segment_length as argon2_hash computes them (u32) *)
Definition norm_memory (m_cost parallelism : Z) : Z * Z :=
  let mb := if m_cost <? mul32 (mul32 2 SYNC_POINTS) parallelism then mul32 (mul32 2 SYNC_POINTS) parallelism else m_cost in
  let seg := mb / mul32 parallelism SYNC_POINTS in
  (mul32 seg (mul32 parallelism SYNC_POINTS), seg).

(* pub(crate) fn argon2_hash(t_cost, m_cost, parallelism, password, salt, secret, ad, output, type_) *)
Definition argon2_hash (t_cost m_cost parallelism : Z) (pwd salt : bytes) (secret ad : option bytes) (outlen : nat) (ty : Z)
  : outcome bytes :=
  if mul32 parallelism SYNC_POINTS =? 0 then Panic            (* division by zero; not reachable: parallelism = 1 at every call site *)
  else
    let '(mb, seg) := norm_memory m_cost parallelism in
    if negb (context_ok outlen pwd salt secret ad t_cost m_cost parallelism) then Err
    else
      let I := mk_inst (repeat zero_block (Z.to_nat mb)) (repeat 0 (Z.to_nat seg)) t_cost mb seg (mul32 seg SYNC_POINTS) parallelism ty in
      let* bh := initial_hash parallelism (w32 (Z.of_nat outlen)) m_cost t_cost ty pwd salt secret ad in
      let* I := first_blocks (seq 0 (Z.to_nat parallelism)) bh I in
      let I := fold_left fill_memory_blocks (map Z.of_nat (seq 0 (Z.to_nat t_cost))) I in
      finalize I outlen.

(* ---- src/classic/crypto_pwhash.rs *)
Definition OPSLIMIT_MIN : Z := 1.
Definition OPSLIMIT_MAX : Z := 4294967295.
Definition MEMLIMIT_MIN : Z := 8192.
Definition MEMLIMIT_MAX : Z := 4398046510080.

(* fn convert_costs(opslimit: u64, memlimit: usize) -> (u32, u32): `as u32` truncates *)
Definition convert_costs (opslimit memlimit : Z) : Z * Z := (w32 opslimit, w32 (memlimit / 1024)).

(* pub fn crypto_pwhash(output, password, salt, opslimit, memlimit, algorithm); alg 1 = Argon2i13, 2 = Argon2id13 *)
Definition crypto_pwhash (outlen : nat) (pwd salt : bytes) (opslimit memlimit alg : Z) : outcome bytes :=
  if negb (in_range OPSLIMIT_MIN OPSLIMIT_MAX opslimit) then Err
  else if negb (in_range MEMLIMIT_MIN MEMLIMIT_MAX memlimit) then Err
  else let '(t, m) := convert_costs opslimit memlimit in
       argon2_hash t m 1 pwd salt None None outlen alg.

(* ---- src/pwhash.rs: PwHash::hash_with_salt / verify *)
Definition hash_with_salt (pwd salt : bytes) (hash_length : nat) (opslimit memlimit alg : Z) : outcome bytes :=
  crypto_pwhash hash_length pwd salt opslimit memlimit alg.

(* verify: the declared length (a number of the record: anything up to 2^64 - 1 once deserialised, hence Z) is first compared
   with the length of the stored hash; only then is a buffer of that length made and filled *)
Definition verify (stored salt : bytes) (hash_length : Z) (opslimit memlimit alg : Z) (pwd : bytes) : outcome unit :=
  if negb (Z.of_nat (length stored) =? hash_length) then Err
  else
    let* computed := hash_with_salt pwd salt (Z.to_nat hash_length) opslimit memlimit alg in
    if bytes_eqb stored computed then Ok tt else Err.

End Argon2Impl.
