(* Model of src/protected.rs: page-aligned allocator, mlock / mprotect wrappers
   (with the length argument the code passes), type state x recorded state,
   transitions, clone, resize, drop -- over an ASSUMED model of the operating
   system (OsModel below): mprotect / mlock / munlock act on the whole pages
   covering [start, start + len); len = 0 is a no-op; a fresh allocation is
   read-write and unlocked; Linux refuses to lock a no-access mapping; the k-th
   and later mlock calls may be refused (schedule).  The OS model is validated
   against /proc/self/maps, VmLck and fault probes by the correspondence check. *)
From Dryoc Require Export Lib.Outcome.
Open Scope Z_scope.

Module ProtectedImpl.

Definition PAGE : nat := 4096.
Definition pages (len : nat) : nat := ((len + PAGE - 1) / PAGE)%nat.

(* page rights: 0 none, 1 read, 3 read-write *)
Definition P_NONE : Z := 0.  Definition P_R : Z := 1.  Definition P_RW : Z := 3.

(* ---- OsModel: one allocation = its data pages (the guard pages are fixed no-access) *)
Record region := mk_region {
  r_len : nat;              (* bytes in use (Vec len) *)
  r_cap : nat;              (* bytes allocated (Vec capacity) *)
  r_prot : list Z;          (* rights of each data page *)
  r_lock : list bool;       (* locked flag of each data page *)
  r_data : bytes;           (* contents of the r_cap bytes *)
  r_pm : Z;                 (* recorded ProtectMode: 0 rw, 1 ro, 2 noaccess *)
  r_lm : bool               (* recorded LockMode *)
}.

Definition set_prefix {A} (k : nat) (v : A) (l : list A) : list A :=
  repeat v (Nat.min k (length l)) ++ skipn k l.

(* _page_round(size) / pagesize: always at least one page more than size / pagesize *)
Definition alloc_pages (cap : nat) : nat := (cap / PAGE + 1)%nat.

(* PageAlignedAllocator::allocate(cap): all data pages read-write, nothing locked *)
Definition os_alloc (cap len : nat) (data : bytes) : region :=
  mk_region len cap (repeat P_RW (alloc_pages cap)) (repeat false (alloc_pages cap)) data 0 false.

Definition os_mprotect (r : region) (len : nat) (perm : Z) : region :=
  if (len =? 0)%nat then r
  else mk_region (r_len r) (r_cap r) (set_prefix (pages len) perm (r_prot r)) (r_lock r) (r_data r) (r_pm r) (r_lm r).

Definition any_none (l : list Z) : bool := existsb (fun p => p =? P_NONE) l.

(* mlock: refused by the schedule, or by Linux when a page in range is no-access
   (the partial lock is rolled back by the wrapper) *)
Definition os_mlock (r : region) (len : nat) (refuse : bool) : outcome region :=
  if (len =? 0)%nat then Ok r
  else if refuse then Err
  else if any_none (firstn (pages len) (r_prot r)) then Err
  else Ok (mk_region (r_len r) (r_cap r) (r_prot r) (set_prefix (pages len) true (r_lock r)) (r_data r) (r_pm r) (r_lm r)).

Definition os_munlock (r : region) (len : nat) : region :=
  if (len =? 0)%nat then r
  else mk_region (r_len r) (r_cap r) (r_prot r) (set_prefix (pages len) false (r_lock r)) (r_data r) (r_pm r) (r_lm r).

Definition set_pm (r : region) (pm : Z) : region := mk_region (r_len r) (r_cap r) (r_prot r) (r_lock r) (r_data r) pm (r_lm r).
Definition set_lm (r : region) (lm : bool) : region := mk_region (r_len r) (r_cap r) (r_prot r) (r_lock r) (r_data r) (r_pm r) lm.

Definition perm_of (pm : Z) : Z := if pm =? 0 then P_RW else if pm =? 1 then P_R else P_NONE.

(* ---- the crate's wrappers: the length passed is the length of as_slice() *)
Definition mprotect_to (r : region) (pm : Z) : region := set_pm (os_mprotect r (r_len r) (perm_of pm)) pm.

(* world: the region under test, its live clones, release events (size, holds a
   non-zero byte), number of mlock calls made so far, first refused call (0 = never) *)
Record world := mk_world {
  w_main : region; w_clones : list region; w_rel : list (nat * bool); w_calls : nat; w_refuse_from : nat
}.

Definition refused (w : world) : bool := negb (w_refuse_from w =? 0)%nat && (w_refuse_from w <=? S (w_calls w))%nat.

Definition nonzero (l : bytes) : bool := existsb (fun b => negb (b =? 0)) l.

(* PageAlignedAllocator::deallocate: make writable, wipe the whole allocation, release *)
Definition release (r : region) : nat * bool := (r_cap r, nonzero (zeros (r_cap r))).

(* Drop for Protected + Drop of the container *)
Definition drop_region (r : region) : (nat * bool) * region :=
  if (r_len r =? 0)%nat then (release r, r)
  else
    let r1 := if r_pm r =? 0 then r else os_mprotect r (r_len r) P_RW in
    let r2 := mk_region (r_len r1) (r_cap r1) (r_prot r1) (r_lock r1) (zeros (r_len r1) ++ skipn (r_len r1) (r_data r1)) (r_pm r1) (r_lm r1) in
    let r3 := if r_lm r2 then os_munlock r2 (r_len r2) else r2 in
    (release r3, r3).

Definition vec_first_cap (len : nat) : nat := if (len =? 0)%nat then O else Nat.max len 8.

(* a locked region of new_len bytes holding a prefix of old data ("swaparoo" of Locked::resize, and Clone for Locked) *)
Definition fresh_locked (w : world) (new_len : nat) (src : bytes) : outcome (region * world) :=
  let cap := vec_first_cap new_len in
  let r := os_alloc cap new_len (zeros cap) in
  let calls := if (new_len =? 0)%nat then w_calls w else S (w_calls w) in
  match os_mlock r new_len (if (new_len =? 0)%nat then false else refused w) with
  | Ok r' =>
      let n := Nat.min new_len (length src) in
      let r'' := mk_region new_len cap (r_prot r') (r_lock r') (firstn n src ++ skipn n (r_data r')) 0 true in
      Ok (r'', mk_world (w_main w) (w_clones w) (w_rel w) calls (w_refuse_from w))
  | Err => Err
  | Panic => Panic
  end.

Inductive op := OLock | OUnlock | ORo | ORw | ONa | OClone | OGrow | OShrink | OFill.

Definition op_of_code (c : Z) : op :=
  if c =? 0 then OLock else if c =? 1 then OUnlock else if c =? 2 then ORo else if c =? 3 then ORw
  else if c =? 4 then ONa else if c =? 5 then OClone else if c =? 6 then OGrow else if c =? 7 then OShrink else OFill.

(* HeapBytes::from_slice_into_locked(src) with |src| = len, all bytes = secret *)
Definition create (len : nat) (secret : Z) (refuse_from : nat) : outcome world :=
  let cap := vec_first_cap len in
  let r := os_alloc cap len (zeros cap) in
  let w0 := mk_world r [] [] O refuse_from in
  match os_mlock r len (if (len =? 0)%nat then false else refused w0) with
  | Ok r' =>
      Ok (mk_world (mk_region len cap (r_prot r') (r_lock r') (repeat secret len ++ skipn len (r_data r')) 0 true)
                   [] [] (if (len =? 0)%nat then O else 1%nat) refuse_from)
  | Err => Err          (* unlocked.mlock()? : reported as an error (fix: commit in /repo) *)
  | Panic => Panic
  end.

(* one operation; Err = the transition reported an OS error (the consumed region is dropped),
   Panic = an expect() fired (only the non-Result operations resize / clone can) *)
Definition step (w : world) (o : op) : outcome world :=
  let r := w_main w in
  let with_main r' := mk_world r' (w_clones w) (w_rel w) (w_calls w) (w_refuse_from w) in
  match o with
  | OLock =>
      let calls := if (r_len r =? 0)%nat then w_calls w else S (w_calls w) in
      match os_mlock r (r_len r) (if (r_len r =? 0)%nat then false else refused w) with
      | Ok r' => Ok (mk_world (set_lm r' true) (w_clones w) (w_rel w) calls (w_refuse_from w))
      | _ => Err
      end
  | OUnlock => Ok (with_main (set_lm (os_munlock r (r_len r)) false))
  | ORo => Ok (with_main (mprotect_to r 1))
  | ORw => Ok (with_main (mprotect_to r 0))
  | ONa => Ok (with_main (mprotect_to r 2))
  | OFill => Ok (with_main (mk_region (r_len r) (r_cap r) (r_prot r) (r_lock r) (repeat 90 (r_len r) ++ skipn (r_len r) (r_data r)) (r_pm r) (r_lm r)))
  | OClone =>
      if r_lm r then
        match fresh_locked w (r_len r) (firstn (r_len r) (r_data r)) with
        | Ok (c, w') => let c' := if r_pm r =? 1 then mprotect_to c 1 else c in
                        Ok (mk_world (w_main w') (w_clones w' ++ [c']) (w_rel w') (w_calls w') (w_refuse_from w'))
        | _ => Panic
        end
      else
        let c := os_alloc (r_len r) (r_len r) (firstn (r_len r) (r_data r)) in
        let c' := if r_pm r =? 1 then mprotect_to c 1 else c in
        Ok (mk_world r (w_clones w ++ [c']) (w_rel w) (w_calls w) (w_refuse_from w))
  | OGrow | OShrink =>
      let new_len := match o with OGrow => (r_len r + PAGE + 1)%nat | _ => (r_len r / 2)%nat end in
      if r_lm r then
        match fresh_locked w new_len (firstn (r_len r) (r_data r)) with
        | Ok (n, w') => let '(ev, _) := drop_region r in
                        Ok (mk_world n (w_clones w') (w_rel w' ++ [ev]) (w_calls w') (w_refuse_from w'))
        | _ => Panic
        end
      else if (new_len <=? r_cap r)%nat then
        Ok (with_main (mk_region new_len (r_cap r) (r_prot r) (r_lock r)
                         (firstn (Nat.min new_len (r_len r)) (r_data r) ++ zeros (new_len - r_len r) ++ skipn new_len (r_data r)) (r_pm r) (r_lm r)))
      else
        let cap := Nat.max (Nat.max (2 * r_cap r) new_len) 8 in
        let n := os_alloc cap new_len (firstn (r_len r) (r_data r) ++ zeros (cap - r_len r)) in
        Ok (mk_world n (w_clones w) (w_rel w ++ [release r]) (w_calls w) (w_refuse_from w))
  end.

Fixpoint run (w : world) (ops : list op) : list (outcome world) :=
  match ops with
  | [] => []
  | o :: rest => match step w o with
                 | Ok w' => Ok w' :: run w' rest
                 | Err => [Err]
                 | Panic => [Panic]
                 end
  end.

Definition last_ok (w0 : world) (l : list (outcome world)) : world :=
  fold_left (fun acc x => match x with Ok w => w | _ => acc end) l w0.

(* everything dropped at the end: the main region (unless a failed transition consumed it) and the clones *)
Definition drop_all (w : world) : list (nat * bool) * list region :=
  let evs := map drop_region (w_main w :: w_clones w) in
  (w_rel w ++ map fst evs, map snd evs).

Definition locked_pages (r : region) : nat := length (filter (fun b => b) (r_lock r)).
Definition total_locked (w : world) : nat := fold_right (fun r a => (locked_pages r + a)%nat) O (w_main w :: w_clones w).

Definition page_perm (r : region) (byte : nat) : Z := nth (byte / PAGE) (r_prot r) 255.

(* what the harness observes after a step *)
Definition observe (w : world) : Z * Z * Z * Z * Z :=
  let r := w_main w in
  if (r_len r =? 0)%nat then (255, 255, 255, Z.of_nat (total_locked w), 0)
  else (page_perm r 0, page_perm r (r_len r - 1), 0, Z.of_nat (total_locked w), Z.of_nat (r_len r)).

(* the rights of the first data page of every non-empty clone alive *)
Definition observe_clones (w : world) : list Z :=
  map (fun c => page_perm c 0) (filter (fun c => negb (r_len c =? 0)%nat) (w_clones w)).

End ProtectedImpl.
