(* C20: which operations the safe API offers in which type state.  [resolves]
   reads the impl table regenerated from src/protected.rs on every run
   (Gen/ImplTable.v): a row applies when its trait matches, its mode parameters
   are generic or equal, and a generic container parameter's bounds are all
   implemented by the container.  [permitted] is the table the property states.
   The Rust trait solver and borrow checker themselves are not modelled: that
   [resolves] predicts the compiler is checked by compiling one program per cell. *)
From Dryoc Require Export Lib.Outcome Gen.ImplTable.
Open Scope Z_scope.

Module TypeState.

Definition has_trait (c t : Z) : bool :=
  existsb (fun p : Z * list Z => (fst p =? c) && existsb (fun x => x =? t) (snd p)) container_traits.

Definition row_matches (c pm lm t : Z) (row : Z * Z * Z * Z * list Z) : bool :=
  let '(rt, rc, rpm, rlm, bnds) := row in
  (rt =? t) && ((rpm =? 9) || (rpm =? pm)) && ((rlm =? 9) || (rlm =? lm)) &&
  (if rc =? 0 then forallb (has_trait c) bnds else rc =? c).

Definition resolves (c pm lm t : Z) : bool := existsb (row_matches c pm lm t) impl_rows.

(* operations of the property's table *)
Inductive op := ReadView | MutView | ArrayView | IndexView | Resize | CloneOp | LockOp | UnlockOp | ToRO | ToRW | ToNA
              | MutArrayView | DerefMutView | AsRefView | AsMutView | AsRefArrayView | AsMutArrayView.
Definition all_ops : list op := [ReadView; MutView; ArrayView; IndexView; Resize; CloneOp; LockOp; UnlockOp; ToRO; ToRW; ToNA;
                                 MutArrayView; DerefMutView; AsRefView; AsMutView; AsRefArrayView; AsMutArrayView].

Definition trait_of (o : op) : Z :=
  match o with
  | ReadView => T_Bytes | MutView => T_MutBytes | ArrayView => T_ByteArray | IndexView => T_Deref
  | Resize => T_ResizableBytes | CloneOp => T_Clone | LockOp => T_Lock | UnlockOp => T_Unlock
  | ToRO => T_ProtectReadOnly | ToRW => T_ProtectReadWrite | ToNA => T_ProtectNoAccess
  | MutArrayView => T_MutByteArray | DerefMutView => T_DerefMut | AsRefView => T_AsRef | AsMutView => T_AsMut
  | AsRefArrayView => T_AsRefArray | AsMutArrayView => T_AsMutArray
  end.

Definition op_code (o : op) : Z :=
  match o with ReadView => 0 | MutView => 1 | ArrayView => 2 | IndexView => 3 | Resize => 4 | CloneOp => 5
             | LockOp => 6 | UnlockOp => 7 | ToRO => 8 | ToRW => 9 | ToNA => 10
             | MutArrayView => 11 | DerefMutView => 12 | AsRefView => 13 | AsMutView => 14 | AsRefArrayView => 15 | AsMutArrayView => 16 end.
Definition op_of_code (z : Z) : op :=
  nth (Z.to_nat z) all_ops ReadView.

(* container 1 = HeapBytes (resizable), 2 = HeapByteArray<N>; pm 0 rw 1 ro 2 noaccess; lm 0 unlocked 1 locked *)
Definition permitted (c pm lm : Z) (o : op) : bool :=
  match o with
  | ReadView | IndexView => negb (pm =? 2)            (* no byte view of a no-access region *)
  | MutView => pm =? 0                                (* no mutable view of a read-only / no-access region *)
  | ArrayView => (c =? 2) && negb (pm =? 2)
  | Resize => (c =? 1) && (pm =? 0)
  | CloneOp => negb (pm =? 2) && ((lm =? 0) || (c =? 1))
  | LockOp => lm =? 0
  | UnlockOp => true
  | ToRO | ToRW => true
  | ToNA => lm =? 0                                   (* no no-access transition on a locked region *)
  | MutArrayView | AsMutArrayView => (c =? 2) && (pm =? 0)
  | DerefMutView | AsMutView => pm =? 0
  | AsRefView => negb (pm =? 2)
  | AsRefArrayView => false                           (* the crate offers no AsRef<[u8; N]> on a protected region *)
  end.

Definition cells : list (Z * Z * Z) :=
  flat_map (fun c => flat_map (fun pm => map (fun lm => (c, pm, lm)) [0; 1]) [0; 1; 2]) [1; 2].

Definition table_agrees : bool :=
  forallb (fun cell : Z * Z * Z => let '(c, pm, lm) := cell in
             forallb (fun o => Bool.eqb (resolves c pm lm (trait_of o)) (permitted c pm lm o)) all_ops) cells.

(* closed world: EVERY impl row for a Protected<..> type, whatever its trait, respects the state:
   a trait that hands out or needs write access only on read-write regions, one that hands out
   read access never on no-access regions, lock only on unlocked, no-access only on unlocked;
   a row whose trait is in none of the classes makes this false, so a new trait has to be classified *)
Definition write_traits : list Z := [T_MutBytes; T_MutByteArray; T_DerefMut; T_AsMut; T_AsMutArray; T_IndexMut; T_ResizableBytes; T_NewBytes; T_NewByteArray; T_Default].
Definition read_traits : list Z := [T_Bytes; T_ByteArray; T_Deref; T_AsRef; T_AsRefArray; T_Index; T_Clone; T_PartialEq; T_Eq; T_Debug; T_Serialize].
Definition neutral_traits : list Z := [T_Unlock; T_ProtectReadOnly; T_ProtectReadWrite; T_Zeroize; T_Drop; T_ZeroizeOnDrop].
Definition mem (t : Z) (l : list Z) : bool := existsb (fun x => x =? t) l.
Definition row_sound (row : Z * Z * Z * Z * list Z) : bool :=
  let '(rt, rc, rpm, rlm, bnds) := row in
  if mem rt write_traits then rpm =? 0
  else if mem rt read_traits then (rpm =? 0) || (rpm =? 1)
  else if rt =? T_Lock then rlm =? 0
  else if rt =? T_ProtectNoAccess then rlm =? 0
  else mem rt neutral_traits.
Definition rows_sound : bool := forallb row_sound impl_rows.

(* every transition consumes the region (self by value): use after a transition cannot compile *)
Definition transitions_consume : bool := forallb (fun p : Z * bool => snd p) transition_by_value.

(* every transition returns the state its name says: lock / unlock keep the protection parameter and set the lock
   state; the three protection transitions set the protection and keep the lock parameter.  "Keeps" = the result
   type names the same parameter (or the same concrete mode) as the source type in that position. *)
Definition target_ok (r : Z * Z * Z * Z * Z) : bool :=
  let '(t, spm, slm, tpm, tlm) := r in
  if t =? T_Lock then (tpm =? spm) && (tlm =? 1)
  else if t =? T_Unlock then (tpm =? spm) && (tlm =? 0)
  else if t =? T_ProtectReadOnly then (tpm =? 1) && (tlm =? slm)
  else if t =? T_ProtectReadWrite then (tpm =? 0) && (tlm =? slm)
  else if t =? T_ProtectNoAccess then (tpm =? 2) && (tlm =? slm)
  else false.
Definition transitions_target_ok : bool :=
  forallb target_ok transition_targets &&
  forallb (fun t => existsb (fun r : Z * Z * Z * Z * Z => let '(t', _, _, _, _) := r in t' =? t) transition_targets)
          [T_Lock; T_Unlock; T_ProtectReadOnly; T_ProtectReadWrite; T_ProtectNoAccess].

(* streams: push methods only exist on DryocStream<Push>, pull methods only on DryocStream<Pull> *)
Definition stream_ok : bool :=
  forallb (fun p : Z * Z =>
    let '(mode, m) := p in
    if (m =? SM_push) || (m =? SM_push_to_vec) || (m =? SM_init_push) then mode =? 0
    else if (m =? SM_pull) || (m =? SM_pull_to_vec) || (m =? SM_init_pull) then mode =? 1
    else true) stream_methods.

End TypeState.
