(* Model of src/blake2b/blake2b_soft.rs: State {h, t, f, last_node, buf},
   init / update / finalize / hash / longhash, mirroring the control flow. *)
From Dryoc Require Export Lib.Outcome Spec.Blake2b.
Open Scope Z_scope.

Module Blake2bImpl.

Definition BLOCKBYTES : nat := 128.
Definition OUTBYTES : nat := 64.
Definition HALFOUTBYTES : nat := 32.
Definition KEYBYTES : nat := 64.

(* const SIGMA: [[usize; 16]; 12] *)
Definition SIGMA : list (list nat) :=
  [[0; 1; 2; 3; 4; 5; 6; 7; 8; 9; 10; 11; 12; 13; 14; 15];
   [14; 10; 4; 8; 9; 15; 13; 6; 1; 12; 0; 2; 11; 7; 5; 3];
   [11; 8; 12; 0; 5; 2; 15; 13; 10; 14; 3; 6; 7; 1; 9; 4];
   [7; 9; 3; 1; 13; 12; 11; 14; 2; 6; 5; 10; 4; 0; 15; 8];
   [9; 0; 5; 7; 2; 4; 10; 15; 14; 1; 11; 12; 6; 8; 3; 13];
   [2; 12; 6; 10; 0; 11; 8; 3; 4; 13; 7; 5; 15; 14; 1; 9];
   [12; 5; 1; 15; 14; 13; 4; 10; 0; 7; 6; 3; 9; 2; 8; 11];
   [13; 11; 7; 14; 12; 1; 3; 9; 5; 0; 15; 4; 8; 6; 2; 10];
   [6; 15; 14; 9; 11; 3; 0; 8; 12; 2; 13; 7; 1; 4; 10; 5];
   [10; 2; 8; 4; 7; 6; 1; 5; 15; 11; 9; 14; 3; 12; 13; 0];
   [0; 1; 2; 3; 4; 5; 6; 7; 8; 9; 10; 11; 12; 13; 14; 15];
   [14; 10; 4; 8; 9; 15; 13; 6; 1; 12; 0; 2; 11; 7; 5; 3]]%nat.

Definition IV : list Z :=
  [0x6a09e667f3bcc908; 0xbb67ae8584caa73b; 0x3c6ef372fe94f82b; 0xa54ff53a5f1d36f1;
   0x510e527fade682d1; 0x9b05688c2b3e6c1f; 0x1f83d9abfb41bd6b; 0x5be0cd19137e2179].

Definition sig (r i : nat) : nat := nth i (nth r SIGMA []) O.

(* the closure g: tv[a] = tv[a].wrapping_add(tv[b].wrapping_add(tm[..])) ... *)
Definition g (tm tv : list Z) (r i a b c d : nat) : list Z :=
  let tv := upd tv a (add64 (nthz tv a) (add64 (nthz tv b) (nthz tm (sig r (2 * i))))) in
  let tv := upd tv d (rotr64 (Z.lxor (nthz tv d) (nthz tv a)) 32) in
  let tv := upd tv c (add64 (nthz tv c) (nthz tv d)) in
  let tv := upd tv b (rotr64 (Z.lxor (nthz tv b) (nthz tv c)) 24) in
  let tv := upd tv a (add64 (nthz tv a) (add64 (nthz tv b) (nthz tm (sig r (2 * i + 1))))) in
  let tv := upd tv d (rotr64 (Z.lxor (nthz tv d) (nthz tv a)) 16) in
  let tv := upd tv c (add64 (nthz tv c) (nthz tv d)) in
  let tv := upd tv b (rotr64 (Z.lxor (nthz tv b) (nthz tv c)) 63) in
  tv.

Definition round (tm tv : list Z) (r : nat) : list Z :=
  let tv := g tm tv r 0 0 4 8 12 in
  let tv := g tm tv r 1 1 5 9 13 in
  let tv := g tm tv r 2 2 6 10 14 in
  let tv := g tm tv r 3 3 7 11 15 in
  let tv := g tm tv r 4 0 5 10 15 in
  let tv := g tm tv r 5 1 6 11 12 in
  let tv := g tm tv r 6 2 7 8 13 in
  let tv := g tm tv r 7 3 4 9 14 in
  tv.

(* fn compress(sh, st, sf, block) *)
Definition compress (sh : list Z) (st sf : Z * Z) (block : bytes) : list Z :=
  let tm := map (fun i => le_val (slice block (i * 8) (i * 8 + 8))) (seq 0 16) in
  let tv := sh ++ firstn 4 IV ++
            [Z.lxor (fst st) (nthz IV 4); Z.lxor (snd st) (nthz IV 5);
             Z.lxor (fst sf) (nthz IV 6); Z.lxor (snd sf) (nthz IV 7)] in
  let tv := fold_left (round tm) (seq 0 12) tv in
  map (fun i => Z.lxor (Z.lxor (nthz sh i) (nthz tv i)) (nthz tv (i + 8))) (seq 0 8).

(* fn increment_counter(t, inc): u128 add; the checked += cannot overflow for
   inputs < 2^128 bytes and is modelled as wrapping *)
Definition increment_counter (t : Z * Z) (inc : nat) : Z * Z :=
  let c := Z.lor (Z.shiftl (snd t) 64) (fst t) in
  let c := w128 (c + Z.of_nat inc) in
  (w64 c, w64 (Z.shiftr c 64)).

Record state := mk_state {
  st_h : list Z;
  st_t : Z * Z;
  st_f : Z * Z;
  st_last_node : Z;
  st_buf : bytes
}.

(* Params laid out by #[repr(packed)] field order *)
Definition params_bytes (digest_length key_length : Z) (salt personal : bytes) : bytes :=
  [digest_length; key_length; 1; 1] ++ zeros 4 ++ zeros 8 ++ [0; 0] ++ zeros 14 ++ salt ++ personal.

Definition init_param (pslice : bytes) : state :=
  let h := map (fun i => Z.lxor (nthz IV i) (le_val (slice pslice (8 * i) (8 * i + 8)))) (seq 0 8) in
  mk_state h (0, 0) (0, 0) 0 [].

Section Generic.
(* the buffering code is generic in the compression function so that the
   refinement proofs do not depend on its internals *)
Variable cmp : list Z -> Z * Z -> Z * Z -> bytes -> list Z.

(* for chunk in data.chunks_exact(BLOCKBYTES) { increment_counter; compress } *)
Fixpoint blocks_fold (fuel : nat) (h : list Z) (t f : Z * Z) (data : bytes) : list Z * (Z * Z) :=
  match fuel with
  | O => (h, t)
  | S fuel' =>
    if (BLOCKBYTES <=? length data)%nat
    then let t' := increment_counter t BLOCKBYTES in
         blocks_fold fuel' (cmp h t' f (firstn BLOCKBYTES data)) t' f (skipn BLOCKBYTES data)
    else (h, t)
  end.

Definition update (s : state) (input : bytes) : state :=
  if (length input =? 0)%nat then s
  else
    let buf := st_buf s in
    if (length input + length buf <=? BLOCKBYTES)%nat
    then mk_state (st_h s) (st_t s) (st_f s) (st_last_node s) (buf ++ input)
    else
      let start := if negb (length buf =? 0)%nat && (length buf <? BLOCKBYTES)%nat
                   then (BLOCKBYTES - length buf)%nat else O in
      let buf1 := buf ++ firstn start input in
      let remaining := (length input - start)%nat in
      let end_ := if (BLOCKBYTES <? remaining)%nat && (remaining mod BLOCKBYTES =? 0)%nat
                  then (length input - BLOCKBYTES)%nat
                  else if (BLOCKBYTES <? remaining)%nat
                       then (length input - remaining mod BLOCKBYTES)%nat
                       else start in
      let '(h1, t1) := blocks_fold (S (length buf1)) (st_h s) (st_t s) (st_f s) buf1 in
      let mid := slice input start end_ in
      let '(h2, t2) := blocks_fold (S (length mid)) h1 t1 (st_f s) mid in
      mk_state h2 t2 (st_f s) (st_last_node s) (skipn end_ input).

Definition is_lastblock (s : state) : bool := negb (fst (st_f s) =? 0).

Definition set_lastblock_f (s : state) : Z * Z :=
  (mask64, if st_last_node s =? 0 then snd (st_f s) else mask64).

Definition h_bytes (h : list Z) : bytes := flat_map (le_bytes 8) h.

(* finalize(self, output) with output.len() = outlen *)
Definition finalize (s : state) (outlen : nat) : outcome bytes :=
  if (outlen =? 0)%nat || (OUTBYTES <? outlen)%nat then Err
  else if is_lastblock s then Err
  else
    let buf := st_buf s in
    let h :=
      if (BLOCKBYTES <? length buf)%nat then
        let t1 := increment_counter (st_t s) BLOCKBYTES in
        let h1 := cmp (st_h s) t1 (st_f s) (firstn BLOCKBYTES buf) in
        let t2 := increment_counter t1 (length buf - BLOCKBYTES) in
        let f2 := set_lastblock_f s in
        let buf2 := buf ++ zeros (2 * BLOCKBYTES - length buf) in
        cmp h1 t2 f2 (skipn BLOCKBYTES buf2)
      else
        let t1 := increment_counter (st_t s) (length buf) in
        let f1 := set_lastblock_f s in
        let buf1 := buf ++ zeros (BLOCKBYTES - length buf) in
        cmp (st_h s) t1 f1 buf1 in
    Ok (firstn outlen (h_bytes h)).

(* State::init(outlen: u8, key: Option<&[u8]>, salt, personal);
   outlen arrives already truncated to u8 by the callers *)
Definition init (outlen : Z) (key : option bytes) (salt personal : option bytes) : outcome state :=
  if (outlen =? 0) || (Z.of_nat OUTBYTES <? outlen) then Err
  else
    let key_length := match key with Some k => Z.land (Z.of_nat (length k)) mask8 | None => 0 end in
    if Z.of_nat KEYBYTES <? key_length then Err
    else
      let salt := match salt with Some s => s | None => zeros 16 end in
      let personal := match personal with Some p => p | None => zeros 16 end in
      let s := init_param (params_bytes outlen key_length salt personal) in
      match key with
      | Some k =>
        (* block[..key.len()].copy_from_slice(key) panics when key.len() > 128 *)
        if (BLOCKBYTES <? length k)%nat then Panic
        else Ok (update s (k ++ zeros (BLOCKBYTES - length k)))
      | None => Ok s
      end.

(* pub fn hash(output, input, key) *)
Definition hash (outlen : nat) (input : bytes) (key : option bytes) : outcome bytes :=
  if (OUTBYTES <? outlen)%nat then Err
  else
    let* s := init (Z.land (Z.of_nat outlen) mask8) key None None in
    finalize (update s input) outlen.

(* the loop of longhash: chunk_count times hash(out_buffer, in_buffer) *)
Fixpoint longhash_loop (n : nat) (in_buffer : bytes) (acc : bytes) : outcome (bytes * bytes) :=
  match n with
  | O => Ok (acc, in_buffer)
  | S n' =>
    let* out_buffer := hash OUTBYTES in_buffer None in
    longhash_loop n' out_buffer (acc ++ firstn HALFOUTBYTES out_buffer)
  end.

(* pub fn longhash(output, input): Argon2's H' *)
Definition longhash (outlen : nat) (input : bytes) : outcome bytes :=
  if (outlen <=? 4)%nat then Panic
  else if (4294967295 <=? Z.of_nat outlen) then Panic
  else
    let outlen_bytes := le_bytes 4 (Z.of_nat outlen) in
    let* s := init (Z.of_nat (Nat.min outlen OUTBYTES)) None None None in
    let s := update (update s outlen_bytes) input in
    if (outlen <=? OUTBYTES)%nat then finalize s outlen
    else
      let* first := finalize s OUTBYTES in
      let outlen' := (outlen - HALFOUTBYTES)%nat in
      let chunk_count := if (outlen' mod HALFOUTBYTES =? 0)%nat
                         then (outlen' / HALFOUTBYTES - 2)%nat
                         else (outlen' / HALFOUTBYTES - 1)%nat in
      let end_ := (chunk_count * HALFOUTBYTES)%nat in
      let* (mid, in_buffer) := longhash_loop chunk_count first [] in
      let* last := hash (outlen - HALFOUTBYTES - end_) in_buffer None in
      Ok (firstn HALFOUTBYTES first ++ mid ++ last).

End Generic.

Definition update_c := update compress.
Definition finalize_c := finalize compress.
Definition init_c := init compress.
Definition hash_c := hash compress.
Definition longhash_c := longhash compress.

End Blake2bImpl.
