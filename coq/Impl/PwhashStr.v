(* Model of the password-hash string code: pwhash_to_string,
   Pwhash::parse_encoded_pwhash, crypto_pwhash_str_needs_rehash, convert_costs,
   PwHash::{from_string, to_string}.  Strings are byte lists (UTF-8).
   External pieces modelled from their documentation: base64 0.21
   GeneralPurpose(STANDARD, NO_PAD) -- no padding accepted, canonical trailing
   bits required -- and u32::from_str (optional '+', decimal digits, overflow
   is an error). *)
From Dryoc Require Export Lib.Outcome.
Open Scope Z_scope.

Module PwhashStr.

(* ---------------------------------------------------------------- base64 *)
Definition b64_char (v : Z) : Z :=
  if v <? 26 then 65 + v else if v <? 52 then 97 + (v - 26) else if v <? 62 then 48 + (v - 52)
  else if v =? 62 then 43 else 47.

Definition b64_val (c : Z) : option Z :=
  if (65 <=? c) && (c <=? 90) then Some (c - 65)
  else if (97 <=? c) && (c <=? 122) then Some (c - 97 + 26)
  else if (48 <=? c) && (c <=? 57) then Some (c - 48 + 52)
  else if c =? 43 then Some 62 else if c =? 47 then Some 63 else None.

Fixpoint b64_encode (l : bytes) : bytes :=
  match l with
  | a :: b :: c :: rest =>
      b64_char (a / 4) :: b64_char ((a mod 4) * 16 + b / 16) :: b64_char ((b mod 16) * 4 + c / 64) :: b64_char (c mod 64)
      :: b64_encode rest
  | [a; b] => [b64_char (a / 4); b64_char ((a mod 4) * 16 + b / 16); b64_char ((b mod 16) * 4)]
  | [a] => [b64_char (a / 4); b64_char ((a mod 4) * 16)]
  | [] => []
  end.

Fixpoint b64_decode (l : bytes) : option bytes :=
  match l with
  | c0 :: c1 :: c2 :: c3 :: rest =>
      match b64_val c0, b64_val c1, b64_val c2, b64_val c3, b64_decode rest with
      | Some v0, Some v1, Some v2, Some v3, Some r =>
          Some (v0 * 4 + v1 / 16 :: (v1 mod 16) * 16 + v2 / 4 :: (v2 mod 4) * 64 + v3 :: r)
      | _, _, _, _, _ => None
      end
  | [c0; c1; c2] =>
      match b64_val c0, b64_val c1, b64_val c2 with
      | Some v0, Some v1, Some v2 =>
          if v2 mod 4 =? 0 then Some [v0 * 4 + v1 / 16; (v1 mod 16) * 16 + v2 / 4] else None
      | _, _, _ => None
      end
  | [c0; c1] =>
      match b64_val c0, b64_val c1 with
      | Some v0, Some v1 => if v1 mod 16 =? 0 then Some [v0 * 4 + v1 / 16] else None
      | _, _ => None
      end
  | [_] => None
  | [] => Some []
  end.

(* --------------------------------------------------------------- decimal *)
Fixpoint dec_digits (fuel : nat) (n : Z) (acc : bytes) : bytes :=
  match fuel with
  | O => acc
  | S f => let acc := (48 + n mod 10) :: acc in
           if n / 10 =? 0 then acc else dec_digits f (n / 10) acc
  end.
(* Display for u32 *)
Definition print_u32 (n : Z) : bytes := dec_digits 10 n [].

Fixpoint parse_digits (l : bytes) (acc : Z) : option Z :=
  match l with
  | [] => Some acc
  | c :: r => if (48 <=? c) && (c <=? 57)
              then let acc := acc * 10 + (c - 48) in
                   if 4294967295 <? acc then None else parse_digits r acc
              else None
  end.
(* <u32 as FromStr>::from_str *)
Definition parse_u32 (l : bytes) : option Z :=
  match l with
  | [] => None
  | c :: r => if c =? 43 then match r with [] => None | _ => parse_digits r 0 end   (* leading '+' *)
              else parse_digits l 0
  end.

(* ------------------------------------------------------- string helpers *)
Fixpoint split_aux (c : Z) (l cur : bytes) : list bytes :=
  match l with
  | [] => [rev cur]
  | x :: r => if x =? c then rev cur :: split_aux c r [] else split_aux c r (x :: cur)
  end.
(* str::split(char): always yields at least one piece *)
Definition split (c : Z) (l : bytes) : list bytes := split_aux c l [].

Fixpoint starts_with (l pre : bytes) : bool :=
  match pre, l with
  | [], _ => true
  | p :: pr, x :: r => (x =? p) && starts_with r pr
  | _ :: _, [] => false
  end.
Definition strip_prefix (l pre : bytes) : option bytes :=
  if starts_with l pre then Some (skipn (length pre) l) else None.
Fixpoint contains (l pat : bytes) : bool :=
  starts_with l pat || match l with [] => false | _ :: r => contains r pat end.

Definition s_argon2 : bytes := [97; 114; 103; 111; 110; 50].              (* "argon2" *)
Definition s_argon2i : bytes := [97; 114; 103; 111; 110; 50; 105].         (* "argon2i" *)
Definition s_argon2id : bytes := [97; 114; 103; 111; 110; 50; 105; 100].   (* "argon2id" *)
Definition s_v : bytes := [118; 61].  Definition s_m : bytes := [109; 61].
Definition s_t : bytes := [116; 61].  Definition s_p : bytes := [112; 61].
Definition DOLLAR : Z := 36.  Definition COMMA : Z := 44.

(* algorithm: 1 = Argon2i13, 2 = Argon2id13 *)
Record pwhash := mk_pwhash {
  pw_hash : option bytes; pw_salt : option bytes; pw_type : option Z;
  pw_t : option Z; pw_m : option Z; pw_p : option Z; pw_v : option Z
}.
Definition pw_empty := mk_pwhash None None None None None None None.

Definition set_param (acc : outcome pwhash) (p : bytes) : outcome pwhash :=
  let* w := acc in
  match strip_prefix p s_m with
  | Some x => match parse_u32 x with Some n => Ok (mk_pwhash (pw_hash w) (pw_salt w) (pw_type w) (pw_t w) (Some n) (pw_p w) (pw_v w)) | None => Err end
  | None =>
    match strip_prefix p s_t with
    | Some x => match parse_u32 x with Some n => Ok (mk_pwhash (pw_hash w) (pw_salt w) (pw_type w) (Some n) (pw_m w) (pw_p w) (pw_v w)) | None => Err end
    | None =>
      match strip_prefix p s_p with
      | Some x => match parse_u32 x with Some n => Ok (mk_pwhash (pw_hash w) (pw_salt w) (pw_type w) (pw_t w) (pw_m w) (Some n) (pw_v w)) | None => Err end
      | None => Ok w
      end
    end
  end.

(* one iteration of `for s in hashed_password.split('$')`; the algorithm name is
   only looked for while no algorithm has been seen (fix: commit in /repo) *)
Definition parse_segment (acc : outcome pwhash) (s : bytes) : outcome pwhash :=
  let* w := acc in
  if (length s =? 0)%nat then Ok w
  else if starts_with s s_argon2 && match pw_type w with None => true | Some _ => false end then
    if bytes_eqb s s_argon2i then Ok (mk_pwhash (pw_hash w) (pw_salt w) (Some 1) (pw_t w) (pw_m w) (pw_p w) (pw_v w))
    else if bytes_eqb s s_argon2id then Ok (mk_pwhash (pw_hash w) (pw_salt w) (Some 2) (pw_t w) (pw_m w) (pw_p w) (pw_v w))
    else Err
  else match strip_prefix s s_v with
  | Some x => match parse_u32 x with
              | Some n => Ok (mk_pwhash (pw_hash w) (pw_salt w) (pw_type w) (pw_t w) (pw_m w) (pw_p w) (Some n))
              | None => Err end
  | None =>
    if contains s s_m && contains s s_t && contains s s_p then fold_left set_param (split COMMA s) (Ok w)
    else match pw_salt w with
    | None => Ok (mk_pwhash (pw_hash w) (b64_decode s) (pw_type w) (pw_t w) (pw_m w) (pw_p w) (pw_v w))
    | Some _ =>
      match pw_hash w with
      | None => Ok (mk_pwhash (b64_decode s) (pw_salt w) (pw_type w) (pw_t w) (pw_m w) (pw_p w) (pw_v w))
      | Some _ => Ok w
      end
    end
  end.

Definition nonempty (o : option bytes) : bool := match o with Some (_ :: _) => true | _ => false end.

(* Pwhash::parse_encoded_pwhash *)
Definition parse (s : bytes) : outcome pwhash :=
  let* w := fold_left parse_segment (split DOLLAR s) (Ok pw_empty) in
  if negb (match pw_v w with Some 19 => true | _ => false end) then Err
  else if negb (match pw_p w with Some 1 => true | _ => false end) then Err
  else if negb (nonempty (pw_hash w)) then Err
  else if negb (nonempty (pw_salt w)) then Err
  else match pw_type w, pw_m w, pw_t w with
       | Some _, Some _, Some _ => Ok w
       | _, _, _ => Err
       end.

(* pwhash_to_string(algorithm, t_cost, m_cost, salt, hash) *)
Definition to_string (alg t m : Z) (salt hash : bytes) : bytes :=
  [DOLLAR] ++ (if alg =? 1 then s_argon2i else s_argon2id) ++ [DOLLAR] ++ s_v ++ print_u32 19 ++
  [DOLLAR] ++ s_m ++ print_u32 m ++ [COMMA] ++ s_t ++ print_u32 t ++ [COMMA] ++ s_p ++ [49] ++
  [DOLLAR] ++ b64_encode salt ++ [DOLLAR] ++ b64_encode hash.

(* convert_costs(opslimit: u64, memlimit: usize) -> (opslimit as u32, (memlimit / 1024) as u32) *)
Definition convert_costs (opslimit memlimit : Z) : Z * Z := (w32 opslimit, w32 (memlimit / 1024)).

(* crypto_pwhash_str_needs_rehash *)
Definition needs_rehash (s : bytes) (opslimit memlimit : Z) : outcome bool :=
  let* w := parse s in
  let '(t, m) := convert_costs opslimit memlimit in
  match pw_t w, pw_m w with
  | Some pt, Some pm => Ok (negb (t =? pt) || negb (m =? pm))
  | _, _ => Panic
  end.

(* PwHash::from_string: (hash, salt, algorithm, hash_length, memlimit, opslimit, salt_length) *)
Definition from_string (s : bytes) : outcome (bytes * bytes * Z * Z * Z * Z * Z) :=
  let* w := parse s in
  match pw_hash w, pw_salt w, pw_type w, pw_t w, pw_m w with
  | Some h, Some sl, Some a, Some t, Some m =>
      Ok (h, sl, a, Z.of_nat (length h), 1024 * m, t, Z.of_nat (length sl))
  | _, _, _, _, _ => Panic
  end.

(* PwHash::from_string followed by PwHash::to_string *)
Definition reencode (s : bytes) : outcome bytes :=
  let* r := from_string s in
  let '(h, sl, a, _, memlimit, opslimit, _) := r in
  let '(t, m) := convert_costs opslimit memlimit in
  Ok (to_string a t m sl h).

End PwhashStr.
