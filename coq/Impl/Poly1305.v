(* Model of src/poly1305/poly1305_soft.rs (44/44/42-bit limbs, own buffering).
   Checked Rust operators (+, *, +=) are modelled as exact integer operations;
   Refine/Poly1305.v proves that under the limb invariant none of them exceeds
   its type (so debug builds do not panic and release builds do not wrap).
   wrapping_add / wrapping_sub / `as u64` / shifts wrap explicitly. *)
From Dryoc Require Export Lib.Outcome.
Open Scope Z_scope.

Module Poly1305Impl.

Definition BLOCK_SIZE : nat := 16.
Definition m44 : Z := 0xfffffffffff.
Definition m42 : Z := 0x3ffffffffff.

Definition load_u64_le (b : bytes) : Z := le_val (firstn 8 b).
Definition shl64 (x n : Z) : Z := w64 (Z.shiftl x n).
Definition wadd64 (a b : Z) : Z := w64 (a + b).
Definition wsub64 (a b : Z) : Z := w64 (a - b).
Definition not64 (a : Z) : Z := Z.lxor a mask64.

Record state := mk_state {
  st_r : Z * Z * Z;
  st_h : Z * Z * Z;
  st_pad : Z * Z;
  st_buffer : bytes
}.

(* Poly1305::new(key) *)
Definition new (key : bytes) : state :=
  let t0 := load_u64_le (slice key 0 8) in
  let t1 := load_u64_le (slice key 8 16) in
  let r0 := Z.land t0 0xffc0fffffff in
  let r1 := Z.land (Z.lor (Z.shiftr t0 44) (shl64 t1 20)) 0xfffffc0ffff in
  let r2 := Z.land (Z.shiftr t1 24) 0x00ffffffc0f in
  mk_state (r0, r1, r2) (0, 0, 0)
           (load_u64_le (slice key 16 24), load_u64_le (slice key 24 32)) [].

(* body of `for m in input.chunks(BLOCK_SIZE)` in blocks() *)
Definition block_step (hibit : Z) (r : Z * Z * Z) (h : Z * Z * Z) (m : bytes) : Z * Z * Z :=
  let '(r0, r1, r2) := r in
  let '(h0, h1, h2) := h in
  let s1 := r1 * 20 in
  let s2 := r2 * 20 in
  let t0 := load_u64_le (firstn 8 m) in
  let t1 := load_u64_le (skipn 8 m) in
  let h0 := wadd64 h0 (Z.land t0 m44) in
  let h1 := wadd64 h1 (Z.land (Z.lor (Z.shiftr t0 44) (shl64 t1 20)) m44) in
  let h2 := wadd64 h2 (Z.lor (Z.land (Z.shiftr t1 24) m42) hibit) in
  let d0 := h0 * r0 + h1 * s2 + h2 * s1 in
  let d1 := h0 * r1 + h1 * r0 + h2 * s2 in
  let d2 := h0 * r2 + h1 * r1 + h2 * r0 in
  let c := w64 (Z.shiftr d0 44) in
  let h0 := Z.land (w64 d0) m44 in
  let d1 := d1 + c in
  let c := w64 (Z.shiftr d1 44) in
  let h1 := Z.land (w64 d1) m44 in
  let d2 := d2 + c in
  let c := w64 (Z.shiftr d2 42) in
  let h2 := Z.land (w64 d2) m42 in
  let h0 := h0 + c * 5 in
  let c := Z.shiftr h0 44 in
  let h0 := Z.land h0 m44 in
  let h1 := h1 + c in
  (h0, h1, h2).

Definition blocks (s : state) (input : bytes) (partial : bool) : state :=
  let hibit := if partial then 0 else Z.shiftl 1 40 in
  mk_state (st_r s) (fold_left (block_step hibit (st_r s)) (chunks BLOCK_SIZE input) (st_h s))
           (st_pad s) (st_buffer s).

Definition update (s : state) (input : bytes) : state :=
  let buf := st_buffer s in
  let process_rest (s : state) (m : bytes) : state :=
    let full_blocks_end := (length m - length m mod BLOCK_SIZE)%nat in
    let s := blocks s (firstn full_blocks_end m) false in
    if (full_blocks_end <? length m)%nat
    then mk_state (st_r s) (st_h s) (st_pad s) (st_buffer s ++ skipn full_blocks_end m)
    else s in
  if negb (length buf =? 0)%nat then
    let input_block_end := Nat.min (BLOCK_SIZE - length buf) (length input) in
    let buf := buf ++ firstn input_block_end input in
    if (length buf <? BLOCK_SIZE)%nat
    then mk_state (st_r s) (st_h s) (st_pad s) buf
    else
      let s := blocks (mk_state (st_r s) (st_h s) (st_pad s) buf) buf false in
      let s := mk_state (st_r s) (st_h s) (st_pad s) [] in
      process_rest s (skipn input_block_end input)
  else process_rest s input.

(* the carry / conditional subtraction / pad section of finalize *)
Definition finish_words (h : Z * Z * Z) (pad : Z * Z) : Z * Z :=
  let '(h0, h1, h2) := h in
  let c := Z.shiftr h1 44 in
  let h1 := Z.land h1 m44 in
  let h2 := h2 + c in
  let c := Z.shiftr h2 42 in
  let h2 := Z.land h2 m42 in
  let h0 := h0 + c * 5 in
  let c := Z.shiftr h0 44 in
  let h0 := Z.land h0 m44 in
  let h1 := h1 + c in
  let c := Z.shiftr h1 44 in
  let h1 := Z.land h1 m44 in
  let h2 := h2 + c in
  let c := Z.shiftr h2 42 in
  let h2 := Z.land h2 m42 in
  let h0 := h0 + c * 5 in
  let c := Z.shiftr h0 44 in
  let h0 := Z.land h0 m44 in
  let h1 := h1 + c in
  let g0 := wadd64 h0 5 in
  let c := Z.shiftr g0 44 in
  let g0 := Z.land g0 m44 in
  let g1 := wadd64 h1 c in
  let c := Z.shiftr g1 44 in
  let g1 := Z.land g1 m44 in
  let g2 := wsub64 (wadd64 h2 c) (Z.shiftl 1 42) in
  let mask := wsub64 (Z.shiftr g2 63) 1 in
  let g0 := Z.land g0 mask in
  let g1 := Z.land g1 mask in
  let g2 := Z.land g2 mask in
  let mask := not64 mask in
  let h0 := Z.lor (Z.land h0 mask) g0 in
  let h1 := Z.lor (Z.land h1 mask) g1 in
  let h2 := Z.lor (Z.land h2 mask) g2 in
  let t0 := fst pad in
  let t1 := snd pad in
  let h0 := wadd64 h0 (Z.land t0 m44) in
  let c := Z.shiftr h0 44 in
  let h0 := Z.land h0 m44 in
  let h1 := wadd64 h1 (wadd64 (Z.land (Z.lor (Z.shiftr t0 44) (shl64 t1 20)) m44) c) in
  let c := Z.shiftr h1 44 in
  let h1 := Z.land h1 m44 in
  let h2 := wadd64 h2 (wadd64 (Z.land (Z.shiftr t1 24) m42) c) in
  let h2 := Z.land h2 m42 in
  let h0 := Z.lor h0 (shl64 h1 44) in
  let h1 := Z.lor (Z.shiftr h1 20) (shl64 h2 24) in
  (h0, h1).

Definition finish (h : Z * Z * Z) (pad : Z * Z) : bytes :=
  let '(h0, h1) := finish_words h pad in le_bytes 8 h0 ++ le_bytes 8 h1.

Definition finalize (s : state) : bytes :=
  let s :=
    if negb (length (st_buffer s) =? 0)%nat then
      let buf := st_buffer s ++ [1] in
      let buf := if negb (length buf mod BLOCK_SIZE =? 0)%nat
                 then buf ++ zeros (BLOCK_SIZE - length buf mod BLOCK_SIZE) else buf in
      blocks (mk_state (st_r s) (st_h s) (st_pad s) buf) buf true
    else s in
  finish (st_h s) (st_pad s).

(* one-shot use as in crypto_onetimeauth / secretbox: new, update, finalize *)
Definition mac (key msg : bytes) : bytes := finalize (update (new key) msg).

End Poly1305Impl.
