(* Interpreters for the kernels translated from src/classic/crypto_core.rs and src/siphash24.rs
   (Gen/Kernels.v, regenerated on every run): HSalsa20, HChaCha20 and the SipHash round. *)
From Dryoc Require Export Lib.Word Spec.Salsa20 Impl.KernelIR Gen.Kernels.
Open Scope Z_scope.

Module CoresImpl.
Import KernelIR Salsa20Spec.

(* the sixteen words x0 .. x15 after initialisation: constants, load_u32_le(&key[4j..4j+4]),
   load_u32_le(&input[4j..4j+4]) *)
Definition init_words (layout : list (nat * nat)) (k n : bytes) : list Z :=
  map (fun p : nat * nat =>
         match fst p with
         | O => nthz core_constants (snd p)
         | S O => nthz (le_words 4 k) (snd p)
         | _ => nthz (le_words 4 n) (snd p)
         end) layout.

(* xA ^= salsa20_rotl32(xB, xC, R)  with  salsa20_rotl32(x, y, rot) = x.wrapping_add(y).rotate_left(rot) *)
Definition salsa_step (x : list Z) (s : nat * nat * nat * Z) : list Z :=
  let '(a, b, c, r) := s in upd x a (Z.lxor (nthz x a) (rotl32 (add32 (nthz x b) (nthz x c)) r)).

Definition hsalsa20_body (x : list Z) : list Z := fold_left salsa_step hsalsa20_steps x.

Definition hsalsa20 (k n : bytes) : bytes :=
  let z := iter hsalsa20_iters hsalsa20_body (init_words hsalsa20_layout k n) in
  words_bytes (map (nthz z) hsalsa20_out).

(* chacha20_round(p, q, r, R):  p = p.wrapping_add(q);  r = (r ^ p).rotate_left(R)  (through &mut) *)
Definition chacha_round (x : list Z) (p q r : nat) (rot : Z) : list Z :=
  let x := upd x p (add32 (nthz x p) (nthz x q)) in
  upd x r (rotl32 (Z.lxor (nthz x r) (nthz x p)) rot).

Definition chacha_qr (x : list Z) (c : nat * nat * nat * nat) : list Z :=
  let '(a, b, cc, d) := c in
  let pos := [a; b; cc; d] in
  fold_left (fun x (s : nat * nat * nat * Z) =>
               let '(p, q, r, rot) := s in chacha_round x (nth p pos O) (nth q pos O) (nth r pos O) rot)
            chacha_quarterround x.

Definition hchacha20_body (x : list Z) : list Z := fold_left chacha_qr hchacha20_calls x.

Definition hchacha20 (k n : bytes) : bytes :=
  let z := iter hchacha20_iters hchacha20_body (init_words hchacha20_layout k n) in
  words_bytes (map (nthz z) hchacha20_out).

(* the SipHash round closure *)
Definition sip_exec (v : list Z) (o : sip_op) : list Z :=
  match o with
  | SAdd a b => upd v a (add64 (nthz v a) (nthz v b))
  | SRot a n => upd v a (rotl64 (nthz v a) n)
  | SXor a b => upd v a (Z.lxor (nthz v a) (nthz v b))
  end.
Definition sip_round (v : list Z) : list Z := fold_left sip_exec sip_round_ops v.

End CoresImpl.
