(* Model of the crate's use of randomness (src/rng.rs and every caller): the
   generator is a byte stream with a cursor; each randomised operation consumes
   the next n bytes and returns a function of exactly those bytes.  That the
   operating system's generator yields unrelated bytes on every call is the
   recorded assumption; the model states which bytes each operation uses. *)
From Dryoc Require Export Lib.Outcome Impl.Scalarmult.
Open Scope Z_scope.

Module RngImpl.

Definition draw (stream : bytes) (c n : nat) : bytes := firstn n (skipn c stream).

(* what an operation returns, as a function of its draw *)
Inductive kind :=
| Ident        (* keys, nonces, byte arrays, stream headers, salts, seeds: the draw itself *)
| X25519Pair.  (* box / kx key pairs, sealed-box ephemeral key: secret = draw, public = X25519 base *)

Definition output (k : kind) (d : bytes) : bytes :=
  match k with
  | Ident => d
  | X25519Pair => ScalarmultImpl.scalarmult_base d ++ d
  end.

(* a randomised entry point = (kind, number of bytes drawn) *)
Definition op := (kind * nat)%type.

Fixpoint run (stream : bytes) (c : nat) (ops : list op) : list bytes * nat :=
  match ops with
  | [] => ([], c)
  | (k, n) :: r => let '(outs, c') := run stream (c + n) r in (output k (draw stream c n) :: outs, c')
  end.

(* the intervals [start, start + n) consumed by a sequence of operations *)
Fixpoint intervals (c : nat) (ops : list op) : list (nat * nat) :=
  match ops with
  | [] => []
  | (_, n) :: r => (c, n) :: intervals (c + n) r
  end.

End RngImpl.
