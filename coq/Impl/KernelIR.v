(* Constructors used by the generated kernel tables (Gen/Kernels.v). *)
From Coq Require Export ZArith List.
Export ListNotations.

Module KernelIR.
Inductive sip_op := SAdd (a b : nat) | SRot (a : nat) (n : Z) | SXor (a b : nat).
End KernelIR.
