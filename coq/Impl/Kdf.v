(* Model of src/classic/crypto_kdf.rs::crypto_kdf_derive_from_key *)
From Dryoc Require Export Impl.Blake2b.
Open Scope Z_scope.

Module KdfImpl.
Import Blake2bImpl.

Definition BYTES_MIN : nat := 16.
Definition BYTES_MAX : nat := 64.
Definition CONTEXTBYTES : nat := 8.
Definition KEYBYTES : nat := 32.

(* subkey.len() = sublen; context is 8 bytes, main_key 32 bytes (array types) *)
Definition derive_from_key (sublen : nat) (subkey_id : Z) (context main_key : bytes) : outcome bytes :=
  if (sublen <? BYTES_MIN)%nat || (BYTES_MAX <? sublen)%nat then Err
  else
    let ctx_padded := context ++ zeros (16 - CONTEXTBYTES) in
    let salt := le_bytes 8 subkey_id ++ zeros 8 in
    let* s := init_c (Z.land (Z.of_nat sublen) mask8) (Some main_key) (Some salt) (Some ctx_padded) in
    finalize_c s sublen.

End KdfImpl.
