(* Model of src/scalarmult_curve25519.rs, crypto_core::crypto_scalarmult{,_base},
   crypto_box beforenm and src/classic/crypto_kx.rs.  curve25519-dalek's
   clamped Montgomery multiplication is modelled by the RFC 7748 ladder
   (external crate: tied by correspondence only). *)
From Dryoc Require Export Lib.Outcome Spec.X25519 Spec.Salsa20 Impl.Hashes.
Open Scope Z_scope.

Module ScalarmultImpl.

(* fn clamp(n): s[0] &= 248; s[31] &= 127; s[31] |= 64 *)
Definition clamp (n : bytes) : bytes :=
  let s := upd n 0 (Z.land (nthz n 0) 248) in
  let s := upd s 31 (Z.land (nthz s 31) 127) in
  upd s 31 (Z.lor (nthz s 31) 64).

(* crypto_scalarmult_curve25519(q, n, p) = MontgomeryPoint(p).mul_clamped(n)
   (fix: commit in /repo; before it the clamped scalar was reduced mod the group order) *)
Definition scalarmult (n p : bytes) : bytes :=
  le_bytes 32 (X25519Spec.ladder (le_val (clamp n)) (X25519Spec.decode_u p)).

(* crypto_scalarmult_curve25519_base: basepoint table times (clamped scalar mod l), to Montgomery *)
Definition scalarmult_base (n : bytes) : bytes := scalarmult n X25519Spec.base_point.

(* crypto_box_beforenm = HSalsa20(X25519(sk, pk), 0^16) *)
Definition beforenm (pk sk : bytes) : bytes := Salsa20Spec.hsalsa20 (scalarmult sk pk) (zeros 16).

Definition all_zero (l : bytes) : bool := forallb (fun b => b =? 0) l.

(* fn crypto_kx(x1, x2, client_pk, server_pk, shared_secret) *)
Definition kx (client_pk server_pk shared : bytes) : outcome (bytes * bytes) :=
  let* keys := HashesImpl.generichash_chunks 64 None [shared; client_pk; server_pk] 64 in
  Ok (firstn 32 keys, skipn 32 keys).

(* (rx, tx) *)
Definition client_session_keys (client_pk client_sk server_pk : bytes) : outcome (bytes * bytes) :=
  let shared := scalarmult client_sk server_pk in
  if all_zero shared then Err else kx client_pk server_pk shared.

Definition server_session_keys (server_pk server_sk client_pk : bytes) : outcome (bytes * bytes) :=
  let shared := scalarmult server_sk client_pk in
  if all_zero shared then Err
  else let* (tx, rx) := kx client_pk server_pk shared in Ok (rx, tx).

End ScalarmultImpl.
