(* Semantics of the translated SIMD compression function (Gen/SimdKernel.v, regenerated from
   src/blake2b/blake2b_simd.rs on every run) and the compress function built from it.
   Simd<u64, 4> is a list of four 64-bit lanes; +, ^, >>, << are lane-wise with u64 wrap;
   rotru64 (v >> n) | (v << 64 - n) is the lane-wise rotation. *)
From Dryoc Require Export Impl.Blake2b Impl.SimdIR Gen.SimdKernel.
Open Scope Z_scope.

Module Blake2bSimd.
Import SimdIR.

Definition vec := list Z.
Record vst := mk_vst { va : vec; vb : vec; vc : vec; vd : vec; t0 : vec; t1 : vec; b0 : vec }.

Definition swz1 (x : vec) (idx : list nat) : vec := map (fun i => nthz x i) idx.
Definition swz2 (x y : vec) (idx : list nat) : vec :=
  map (fun i => if (i <? 4)%nat then nthz x i else nthz y (i - 4)) idx.
Definition vmap2 (f : Z -> Z -> Z) (a b : vec) : vec := map (fun p : Z * Z => f (fst p) (snd p)) (combine a b).
Definition vadd := vmap2 add64.
Definition vxor := vmap2 Z.lxor.
Definition vrot (v : vec) (n : Z) : vec := map (fun x => rotr64 x n) v.

(* m[k]: two consecutive message words, repeated as the loadm macro's pattern says *)
Definition rd (tm : list Z) (s : vst) (r : reg) : vec :=
  match r with
  | M k => map (nthz tm) (nth k simd_loadm [])
  | T0 => t0 s | T1 => t1 s | B0 => b0 s
  end.
Definition wr (s : vst) (r : reg) (v : vec) : vst :=
  match r with
  | T0 => mk_vst (va s) (vb s) (vc s) (vd s) v (t1 s) (b0 s)
  | T1 => mk_vst (va s) (vb s) (vc s) (vd s) (t0 s) v (b0 s)
  | B0 => mk_vst (va s) (vb s) (vc s) (vd s) (t0 s) (t1 s) v
  | M _ => s
  end.

(* fn g1 / g2: a = a + b + m; d = rot(d ^ a, r1); c += d; b = rot(b ^ c, r2) *)
Definition gstep (rot : Z * Z) (s : vst) : vst :=
  let a := vadd (vadd (va s) (vb s)) (b0 s) in
  let d := vrot (vxor (vd s) a) (fst rot) in
  let c := vadd (vc s) d in
  let b := vrot (vxor (vb s) c) (snd rot) in
  mk_vst a b c d (t0 s) (t1 s) (b0 s).

Definition perm (p : list nat * list nat * list nat) (s : vst) : vst :=
  let '(pa, pd, pc) := p in
  mk_vst (swz1 (va s) pa) (vb s) (swz1 (vc s) pc) (swz1 (vd s) pd) (t0 s) (t1 s) (b0 s).

Definition exec (tm : list Z) (s : vst) (i : instr) : vst :=
  match i with
  | Swz2 d x y idx => wr s d (swz2 (rd tm s x) (rd tm s y) idx)
  | Swz1 d x idx => wr s d (swz1 (rd tm s x) idx)
  | G1 => gstep simd_g1_rot s
  | G2 => gstep simd_g2_rot s
  | Permute => perm simd_permute s
  | Unpermute => perm simd_unpermute s
  end.

Definition run_round (tm : list Z) (s : vst) (prog : list instr) : vst := fold_left (exec tm) prog s.

Definition rows (s : vst) : list Z := va s ++ vb s ++ vc s ++ vd s.

(* fn compress(a, b, st, sf, block): the chaining value is a ++ b *)
Definition compress (sh : list Z) (st sf : Z * Z) (block : bytes) : list Z :=
  let tm := map (fun i => le_val (slice block (i * 8) (i * 8 + 8))) (seq 0 16) in
  let a := firstn 4 sh in
  let b := firstn 4 (skipn 4 sh) in
  let c := firstn 4 simd_IV in
  let d := vxor (skipn 4 simd_IV) [fst st; snd st; fst sf; snd sf] in
  let s := fold_left (run_round tm) simd_rounds (mk_vst a b c d [] [] []) in
  vxor (vxor (va s) (vc s)) a ++ vxor (vxor (vb s) (vd s)) b.

End Blake2bSimd.
