(* Model of crypto_pwhash_str (with the salt it draws from the generator as a parameter) and
   crypto_pwhash_str_verify (src/classic/crypto_pwhash.rs): the string layer of Impl/PwhashStr.v
   around the Argon2 of Impl/Argon2.v. *)
From Dryoc Require Export Impl.Argon2 Impl.PwhashStr.
Open Scope Z_scope.

Module PwhashVerify.
Import Argon2Impl PwhashStr.

Definition STR_HASHBYTES : nat := 32.

(* crypto_pwhash_str(password, opslimit, memlimit) with the 16 random salt bytes *)
Definition str (pw salt : bytes) (opslimit memlimit : Z) : outcome bytes :=
  if negb (in_range OPSLIMIT_MIN OPSLIMIT_MAX opslimit) then Err
  else if negb (in_range MEMLIMIT_MIN MEMLIMIT_MAX memlimit) then Err
  else
    let '(t, m) := Argon2Impl.convert_costs opslimit memlimit in
    let* h := argon2_hash t m 1 pw salt None None STR_HASHBYTES 2 in
    Ok (to_string 2 t m salt h).

(* crypto_pwhash_str_verify(hashed_password, password): a 32-byte Argon2 output compared with
   the stored hash (of whatever length the string carries) *)
Definition str_verify (s pw : bytes) : outcome unit :=
  let* w := parse s in
  match pw_t w, pw_m w, pw_p w, pw_salt w, pw_type w, pw_hash w with
  | Some t, Some m, Some p, Some salt, Some ty, Some stored =>
      let* h := argon2_hash t m p pw salt None None STR_HASHBYTES ty in
      if bytes_eqb h stored then Ok tt else Err
  | _, _, _, _, _, _ => Panic
  end.

End PwhashVerify.
