(* Model of src/classic/crypto_secretbox{,_impl}.rs.  Caller buffers are
   explicit: every function takes the buffer contents before the call and
   returns the contents after it (also on Err).  Generic in the key stream and
   the one-time authenticator; instantiated with XSalsa20 and the Poly1305
   implementation model at the end. *)
From Dryoc Require Export Lib.Outcome Spec.Salsa20 Impl.Poly1305.
Open Scope Z_scope.

Module SecretBoxImpl.

Definition MACBYTES : nat := 16.

Section Generic.
Variable stream : bytes -> bytes -> nat -> bytes.   (* key, nonce, length -> key stream prefix *)
Variable onetimeauth : bytes -> bytes -> bytes.      (* 32-byte key, message -> 16-byte tag *)

(* crypto_secretbox_detached_inplace(data, mac, nonce, key): new data, mac *)
Definition detached_inplace (data nonce key : bytes) : bytes * bytes :=
  let ks := stream key nonce (32 + length data) in
  let c := xor_into data (skipn 32 ks) in
  (c, onetimeauth (firstn 32 ks) c).

(* crypto_secretbox_open_detached_inplace: verdict and the buffer afterwards.
   The key stream is applied only after the authenticator has been verified
   (fix: commit in /repo; before it the buffer was decrypted unconditionally). *)
Definition open_detached_inplace (data mac nonce key : bytes) : outcome unit * bytes :=
  let ks := stream key nonce (32 + length data) in
  let computed := onetimeauth (firstn 32 ks) data in
  if bytes_eqb mac computed then (Ok tt, xor_into data (skipn 32 ks)) else (Err, data).

(* crypto_secretbox_detached(ciphertext, mac, message, nonce, key) *)
Definition detached (cbuf message nonce key : bytes) : outcome (bytes * bytes) :=
  if (length cbuf <? length message)%nat then Panic   (* ciphertext[..message.len()] *)
  else Ok (detached_inplace (message ++ skipn (length message) cbuf) nonce key).

(* crypto_secretbox_open_detached(message, mac, ciphertext, nonce, key): only message[..ciphertext.len()] is used
   (fix: commit in /repo; before it the whole message buffer was authenticated and decrypted, so the bytes of a longer
   buffer took part in the authenticator); on Err the copied ciphertext is wiped from the caller's buffer *)
Definition open_detached (mbuf mac ciphertext nonce key : bytes) : outcome unit * bytes :=
  let c_len := length ciphertext in
  if (length mbuf <? c_len)%nat then (Err, mbuf)        (* a message buffer shorter than the ciphertext: an error (fix: commit in /repo; it used to panic on the slice) *)
  else
    match open_detached_inplace ciphertext mac nonce key with
    | (Ok _, b) => (Ok tt, b ++ skipn c_len mbuf)
    | (_, _) => (Err, zeros c_len ++ skipn c_len mbuf)
    end.

(* crypto_secretbox_easy(ciphertext, message, nonce, key) *)
Definition easy (cbuf message nonce key : bytes) : outcome bytes :=
  if (length cbuf <? MACBYTES)%nat then Panic          (* &mut ciphertext[MACBYTES..] *)
  else
    let* (c, mac) := detached (skipn MACBYTES cbuf) message nonce key in
    Ok (mac ++ c).

(* crypto_secretbox_open_easy(message, ciphertext, nonce, key) *)
Definition open_easy (mbuf ciphertext nonce key : bytes) : outcome unit * bytes :=
  if (length ciphertext <? MACBYTES)%nat then (Err, mbuf)
  else open_detached mbuf (firstn MACBYTES ciphertext) (skipn MACBYTES ciphertext) nonce key.

(* crypto_secretbox_easy_inplace(data, nonce, key): data holds the message
   followed by 16 spare bytes *)
Definition easy_inplace (data nonce key : bytes) : outcome bytes :=
  if (length data <? MACBYTES)%nat then Panic          (* rotate_right(16) *)
  else
    let n := (length data - MACBYTES)%nat in
    let rotated := skipn n data ++ firstn n data in
    let '(c, mac) := detached_inplace (skipn MACBYTES rotated) nonce key in
    Ok (mac ++ c).

(* crypto_secretbox_open_easy_inplace(ciphertext, nonce, key) *)
Definition open_easy_inplace (cbuf nonce key : bytes) : outcome unit * bytes :=
  if (length cbuf <? MACBYTES)%nat then (Err, cbuf)
  else
    let mac := firstn MACBYTES cbuf in
    match open_detached_inplace (skipn MACBYTES cbuf) mac nonce key with
    | (Ok _, d) => (Ok tt, d ++ mac)                   (* rotate_left(16) *)
    | (_, d) => (Err, mac ++ d)
    end.

End Generic.

Definition xsalsa20 (key nonce : bytes) (len : nat) : bytes := Salsa20Spec.xsalsa20_stream key nonce len.

Definition detached_inplace_c := detached_inplace xsalsa20 Poly1305Impl.mac.
Definition open_detached_inplace_c := open_detached_inplace xsalsa20 Poly1305Impl.mac.
Definition detached_c := detached xsalsa20 Poly1305Impl.mac.
Definition open_detached_c := open_detached xsalsa20 Poly1305Impl.mac.
Definition easy_c := easy xsalsa20 Poly1305Impl.mac.
Definition open_easy_c := open_easy xsalsa20 Poly1305Impl.mac.
Definition easy_inplace_c := easy_inplace xsalsa20 Poly1305Impl.mac.
Definition open_easy_inplace_c := open_easy_inplace xsalsa20 Poly1305Impl.mac.

End SecretBoxImpl.
