(* Model of src/classic/crypto_sign_ed25519.rs and crypto_sign.rs: key pairs from
   seeds, pure and pre-hashed signing, strict verification, combined mode,
   Ed25519 -> X25519 conversion.  curve25519-dalek's point and scalar
   arithmetic is modelled with the RFC 8032 formulas of Spec/Ed25519.v
   (external crate: tied by correspondence only); its decompression is
   modelled as it behaves (y reduced mod p, sign of x = 0 ignored). *)
From Dryoc Require Export Lib.Outcome Spec.Ed25519 Impl.Scalarmult Impl.Hashes.
Open Scope Z_scope.

Module SignImpl.
Import X25519Spec Ed25519Spec.

Definition of_option {A} (o : option A) : outcome A := match o with Some a => Ok a | None => Err end.

(* CompressedEdwardsY::decompress as implemented by curve25519-dalek *)
Definition dalek_decompress (s : bytes) : option point :=
  let v := le_val s in
  let y := (v mod 2 ^ 255) mod p in
  let sign := (v / 2 ^ 255) mod 2 in
  obnd (sqrt_ratio (fsub (fmul y y) 1) (fadd (fmul d (fmul y y)) 1))
       (fun x => let x := if x mod 2 =? sign then x else fsub 0 x in Some (x, y, 1, fmul x y)).

(* clamp_hash: first 32 bytes of the hash, clamped, as an integer *)
Definition clamp_hash_bytes (h : bytes) : bytes := X25519Spec.clamp (firstn 32 h).

(* crypto_sign_ed25519_seed_keypair: (pk, sk = seed || pk) *)
Definition seed_keypair (seed : bytes) : bytes * bytes :=
  let a := le_val (clamp_hash_bytes (Sha512Spec.sha512 seed)) in
  let pk := encode (pmul (a mod L) B) in
  (pk, seed ++ pk).

(* crypto_sign_ed25519_detached_impl(signature, message, secret_key, prehashed) *)
Definition sign_detached (ph : bool) (message sk : bytes) : bytes :=
  let az := Sha512Spec.sha512 (firstn 32 sk) in
  let nonce := Sha512Spec.sha512 (dom2 ph ++ skipn 32 az ++ message) in
  let pkb := skipn 32 sk in
  let r := le_val nonce mod L in
  let big_r := encode (pmul r B) in
  let hram := Sha512Spec.sha512 (dom2 ph ++ big_r ++ pkb ++ message) in
  let k := le_val hram mod L in
  let a := le_val (clamp_hash_bytes az) mod L in
  big_r ++ le_bytes 32 ((k * a + r) mod L).

(* crypto_sign_ed25519_verify_detached_impl; S must be canonical (fix: commit in /repo) *)
Definition verify_detached (ph : bool) (sig message pk : bytes) : outcome unit :=
  let S := le_val (skipn 32 sig) in
  if L <=? S then Err
  else
    of_option (obnd (dalek_decompress (firstn 32 sig)) (fun R =>
             if small_order R then None else
             obnd (dalek_decompress pk) (fun A =>
             if small_order A then None else
               let k := le_val (Sha512Spec.sha512 (dom2 ph ++ firstn 32 sig ++ pk ++ message)) mod L in
               let '(ax, ay, az, at_) := A in
               let negA := (fsub 0 ax, ay, az, fsub 0 at_) in
               if peq (padd (pmul k negA) (pmul S B)) R then Some tt else None))).

(* crypto_sign(signed_message (buffer of smlen bytes), message, sk) *)
Definition sign_combined (smlen : nat) (message sk : bytes) : outcome bytes :=
  if negb (smlen =? length message + 64)%nat then Err
  else Ok (sign_detached false message sk ++ message).

(* crypto_sign_open(message (buffer of mlen bytes), signed_message, pk) *)
Definition sign_open (mlen : nat) (sm pk : bytes) : outcome bytes :=
  if (length sm <? 64)%nat then Err
  else if negb (mlen =? length sm - 64)%nat then Err
  else let* _ := verify_detached false (firstn 64 sm) (skipn 64 sm) pk in Ok (skipn 64 sm).

(* incremental (pre-hashed) interface: init, update*, final_create / final_verify *)
Definition sign_ph (chunks : list bytes) (sk : bytes) : bytes :=
  sign_detached true (Sha512Spec.sha512 (concat chunks)) sk.
Definition verify_ph (chunks : list bytes) (sig pk : bytes) : outcome unit :=
  verify_detached true sig (Sha512Spec.sha512 (concat chunks)) pk.

(* crypto_sign_ed25519_pk_to_curve25519 / sk_to_curve25519 *)
Definition pk_to_curve25519 (pk : bytes) : outcome bytes :=
  of_option (obnd (dalek_decompress pk) (fun P => let '(_, ya) := affine P in
             Some (le_bytes 32 (fmul (fadd 1 ya) (finv (fsub 1 ya)))))).
Definition sk_to_curve25519 (sk : bytes) : bytes := clamp_hash_bytes (Sha512Spec.sha512 (firstn 32 sk)).

(* crypto_box_seed_keypair: sk = SHA-512(seed)[0..32], pk = X25519 base *)
Definition box_seed_keypair (seed : bytes) : bytes * bytes :=
  let sk := firstn 32 (Sha512Spec.sha512 seed) in (ScalarmultImpl.scalarmult_base sk, sk).
(* crypto_kx_seed_keypair: sk = BLAKE2b-256(seed) *)
Definition kx_seed_keypair (seed : bytes) : outcome (bytes * bytes) :=
  let* sk := HashesImpl.generichash 32 seed None in Ok (ScalarmultImpl.scalarmult_base sk, sk).

End SignImpl.
