(* Model of the byte encodings (to_bytes / from_bytes of boxes and signed
   messages, TryFrom<&[u8]> for fixed arrays) and of the serde visitor of
   StackByteArray<N> (src/bytes_serde.rs).  serde_json and bincode are external:
   the recorded assumption is that serde_json hands a JSON array to visit_seq
   element by element and bincode hands a length-prefixed byte string to
   visit_bytes (validated by correspondence against the real crates). *)
From Dryoc Require Export Lib.Outcome.
Open Scope Z_scope.

Module SerdeImpl.

(* visit_bytes: exact length or error *)
Definition visit_bytes (N : nat) (v : bytes) : outcome bytes :=
  if negb (length v =? N)%nat then Err else Ok v.

(* visit_seq: elements are stored while idx < LENGTH; an element beyond that,
   or fewer than LENGTH elements, is an error (fix: commit in /repo; before it
   short sequences were zero-padded and the first extra element was dropped) *)
Fixpoint visit_seq_loop (N : nat) (elems arr : bytes) (idx : nat) : outcome (bytes * nat) :=
  match elems with
  | [] => Ok (arr, idx)
  | e :: r => if (idx <? N)%nat then visit_seq_loop N r (upd arr idx e) (S idx) else Err
  end.
Definition visit_seq (N : nat) (elems : bytes) : outcome bytes :=
  let* (arr, idx) := visit_seq_loop N elems (zeros N) O in
  if negb (idx =? N)%nat then Err else Ok arr.

(* the resizable heap containers (HeapBytes, LockedBytes; nightly): the buffer is pre-sized from the
   deserialiser's size hint (serde_json: none = 0, bincode: the exact count), grown by one when
   idx >= len, and cut to the elements read (fix: commits in /repo; before them the default hint
   was 1, growth happened only when idx > len -- an index panic -- and nothing was cut).
   Locked<HeapByteArray<N>> now runs the same loop as StackByteArray<N>: [visit_seq]. *)
Fixpoint heap_visit_seq_loop (elems arr : bytes) (idx : nat) : bytes * nat :=
  match elems with
  | [] => (arr, idx)
  | e :: r =>
    let arr := if (length arr <=? idx)%nat then arr ++ zeros (idx + 1 - length arr) else arr in
    heap_visit_seq_loop r (upd arr idx e) (S idx)
  end.
Definition resize (arr : bytes) (n : nat) : bytes := firstn n arr ++ zeros (n - length arr).
Definition heap_visit_seq (hint : nat) (elems : bytes) : outcome bytes :=
  let '(arr, idx) := heap_visit_seq_loop elems (zeros hint) O in Ok (resize arr idx).

(* visit_bytes of the heap containers: HeapBytes::from(v) / from_slice_into_locked(v) *)
Definition heap_visit_bytes (v : bytes) : outcome bytes := Ok v.

(* impl TryFrom<&[u8]> for StackByteArray<N> *)
Definition try_from (N : nat) (s : bytes) : outcome bytes := if (length s =? N)%nat then Ok s else Err.

(* DryocSecretBox / DryocBox / SignedMessage: (tag, data[, epk]) <-> bytes *)
Definition secretbox_to_bytes (tag data : bytes) : bytes := tag ++ data.
Definition secretbox_from_bytes (b : bytes) : outcome (bytes * bytes) :=
  if (length b <? 16)%nat then Err
  else let* tag := try_from 16 (firstn 16 b) in Ok (tag, skipn 16 b).

Definition box_to_bytes (epk : option bytes) (tag data : bytes) : bytes :=
  match epk with Some e => e ++ tag ++ data | None => tag ++ data end.
Definition box_from_bytes (b : bytes) : outcome (option bytes * bytes * bytes) :=
  if (length b <? 16)%nat then Err
  else let* tag := try_from 16 (firstn 16 b) in Ok (None, tag, skipn 16 b).
Definition box_from_sealed_bytes (b : bytes) : outcome (option bytes * bytes * bytes) :=
  if (length b <? 48)%nat then Err
  else
    let seal := firstn 48 b in
    let* epk := try_from 32 (firstn 32 seal) in
    let* tag := try_from 16 (skipn 32 seal) in
    Ok (Some epk, tag, skipn 48 b).

Definition signed_to_bytes (sig msg : bytes) : bytes := sig ++ msg.
Definition signed_from_bytes (b : bytes) : outcome (bytes * bytes) :=
  if (length b <? 64)%nat then Err
  else let* sig := try_from 64 (firstn 64 b) in Ok (sig, skipn 64 b).

End SerdeImpl.
