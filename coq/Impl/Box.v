(* Model of src/classic/crypto_box.rs: the public-key forms are the secret-key forms under the
   precomputed key HSalsa20(X25519(sk, pk), 0^16); sealed boxes prepend an ephemeral public key
   and derive the nonce from BLAKE2b-24(epk || recipient pk).  Caller buffers explicit, as in
   Impl/SecretBox.v.  The ephemeral secret key is what crypto_box_keypair draws from the
   generator (C11): a parameter here. *)
From Dryoc Require Export Impl.SecretBox Impl.Scalarmult.
Open Scope Z_scope.

Module BoxImpl.
Import SecretBoxImpl ScalarmultImpl HashesImpl.

Definition MACBYTES : nat := 16.
Definition PUBLICKEYBYTES : nat := 32.
Definition SEALBYTES : nat := 48.

(* crypto_box_detached: key = beforenm; crypto_secretbox_detached *)
Definition detached (cbuf message nonce pk sk : bytes) : outcome (bytes * bytes) :=
  detached_c cbuf message nonce (beforenm pk sk).

(* crypto_box_easy(ciphertext, message, nonce, recipient_pk, sender_sk) *)
Definition easy (cbuf message nonce pk sk : bytes) : outcome bytes :=
  if (length cbuf <? MACBYTES)%nat then Err
  else
    let* (c, mac) := detached (skipn MACBYTES cbuf) message nonce pk sk in
    Ok (mac ++ c).

(* crypto_box_easy_inplace(data, ...): data holds the message followed by 16 spare bytes *)
Definition easy_inplace (data nonce pk sk : bytes) : outcome bytes :=
  if (length data <? MACBYTES)%nat then Err
  else
    let n := (length data - MACBYTES)%nat in
    let rotated := skipn n data ++ firstn n data in
    let '(c, mac) := detached_inplace_c (skipn MACBYTES rotated) nonce (beforenm pk sk) in
    Ok (mac ++ c).

(* crypto_box_open_easy(message, ciphertext, nonce, sender_pk, recipient_sk) *)
Definition open_easy (mbuf ciphertext nonce pk sk : bytes) : outcome unit * bytes :=
  if (length ciphertext <? MACBYTES)%nat then (Err, mbuf)
  else open_detached_c mbuf (firstn MACBYTES ciphertext) (skipn MACBYTES ciphertext) nonce (beforenm pk sk).

(* crypto_box_open_easy_inplace(data, ...) *)
Definition open_easy_inplace (cbuf nonce pk sk : bytes) : outcome unit * bytes :=
  if (length cbuf <? MACBYTES)%nat then (Err, cbuf)
  else
    let mac := firstn MACBYTES cbuf in
    match open_detached_inplace_c (skipn MACBYTES cbuf) mac nonce (beforenm pk sk) with
    | (Ok _, d) => (Ok tt, d ++ mac)
    | (_, d) => (Err, mac ++ d)
    end.

(* crypto_box_seal_nonce: generichash(24) over epk then rpk; the two expects cannot fire *)
Definition seal_nonce (epk rpk : bytes) : outcome bytes :=
  match generichash_chunks 24 None [epk; rpk] 24 with Ok n => Ok n | _ => Panic end.

(* crypto_box_seal(ciphertext, message, recipient_pk) with the drawn ephemeral secret key *)
Definition seal (cbuf message rpk esk : bytes) : outcome bytes :=
  if (length cbuf <? length message + SEALBYTES)%nat then Err
  else
    let epk := scalarmult_base esk in
    let* nonce := seal_nonce epk rpk in
    let* boxed := easy (skipn PUBLICKEYBYTES cbuf) message nonce rpk esk in
    Ok (epk ++ boxed).

(* crypto_box_seal_open(message, ciphertext, recipient_pk, recipient_sk) *)
Definition seal_open (mbuf ciphertext rpk rsk : bytes) : outcome unit * bytes :=
  if (length ciphertext <? SEALBYTES)%nat then (Err, mbuf)
  else if negb (length mbuf =? length ciphertext - SEALBYTES)%nat then (Err, mbuf)
  else
    let epk := firstn PUBLICKEYBYTES ciphertext in
    match seal_nonce epk rpk with
    | Ok nonce => open_easy mbuf (skipn PUBLICKEYBYTES ciphertext) nonce epk rsk
    | Err => (Err, mbuf)
    | Panic => (Panic, mbuf)
    end.

End BoxImpl.
