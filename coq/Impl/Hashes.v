(* Models of the thin wrappers: crypto_generichash (validation + BLAKE2b),
   crypto_onetimeauth (+ verify), crypto_auth (HMAC-SHA-512-256 over the external
   sha2 crate, + verify), crypto_shorthash, crypto_hash, cores, increment. *)
From Dryoc Require Export Impl.Blake2b Impl.Poly1305 Impl.SecretStream Spec.Sha512 Spec.SipHash Spec.Salsa20 Spec.ChaCha20.
Open Scope Z_scope.

Module HashesImpl.
Import Blake2bImpl.

(* crypto_generichash_blake2b_validate_{outlen,key} *)
Definition validate_outlen (outlen : nat) : bool := (16 <=? outlen)%nat && (outlen <=? 64)%nat.
Definition validate_key (key : option bytes) : bool :=
  match key with Some k => (16 <=? length k)%nat && (length k <=? 64)%nat | None => true end.

(* crypto_generichash(output, input, key) with output.len() = outlen *)
Definition generichash (outlen : nat) (input : bytes) (key : option bytes) : outcome bytes :=
  if negb (validate_outlen outlen) then Err
  else if negb (validate_key key) then Err
  else hash_c outlen input key.

(* crypto_generichash_init(key, outlen); update*; final(state, output) with
   output.len() = finlen *)
Definition generichash_chunks (outlen : nat) (key : option bytes) (chunks : list bytes) (finlen : nat) : outcome bytes :=
  if negb (validate_outlen outlen) then Err
  else if negb (validate_key key) then Err
  else
    let* s := init_c (Z.land (Z.of_nat outlen) mask8) key None None in
    finalize_c (fold_left update_c chunks s) finlen.

Definition onetimeauth (key msg : bytes) : bytes := Poly1305Impl.mac key msg.
Definition onetimeauth_chunks (key : bytes) (chunks : list bytes) : bytes :=
  Poly1305Impl.finalize (fold_left Poly1305Impl.update chunks (Poly1305Impl.new key)).
Definition onetimeauth_verify (mac msg key : bytes) : outcome unit :=
  if bytes_eqb mac (onetimeauth key msg) then Ok tt else Err.

(* HMAC over the external SHA-512: init absorbs key^ipad, updates absorb the
   message pieces, final hashes key^opad || inner.  The hasher is modelled by
   its specification applied to the concatenation (validated by correspondence). *)
Definition auth (key msg : bytes) : bytes := Sha512Spec.hmac_sha512_256 key msg.
Definition auth_chunks (key : bytes) (chunks : list bytes) : bytes := auth key (concat chunks).
Definition auth_verify (mac msg key : bytes) : outcome unit :=
  if bytes_eqb mac (auth key msg) then Ok tt else Err.

Definition hash_sha512 (msg : bytes) : bytes := Sha512Spec.sha512 msg.
Definition shorthash (key msg : bytes) : bytes := SipHashSpec.siphash24 key msg.
Definition hsalsa20 (key input : bytes) : bytes := Salsa20Spec.hsalsa20 key input.
Definition hchacha20 (key input : bytes) : bytes := ChaCha20Spec.hchacha20 key input.
Definition increment (l : bytes) : bytes := SecretStreamImpl.increment_bytes l.

End HashesImpl.
