(* Models of the thin wrappers: crypto_generichash (validation + BLAKE2b),
   crypto_onetimeauth (+ verify), crypto_auth (HMAC-SHA-512-256 over the external
   sha2 crate, + verify), crypto_shorthash, crypto_hash, cores, increment. *)
From Dryoc Require Export Impl.Blake2b Impl.Poly1305 Impl.SecretStream Spec.Sha512 Spec.SipHash Spec.Salsa20 Spec.ChaCha20.
Open Scope Z_scope.

Module HashesImpl.
Import Blake2bImpl.

(* crypto_generichash_blake2b_validate_{outlen,key} *)
Definition validate_outlen (outlen : nat) : bool := (16 <=? outlen)%nat && (outlen <=? 64)%nat.
Definition validate_key (key : option bytes) : bool :=
  match key with Some k => (16 <=? length k)%nat && (length k <=? 64)%nat | None => true end.

(* crypto_generichash(output, input, key) with output.len() = outlen *)
Definition generichash (outlen : nat) (input : bytes) (key : option bytes) : outcome bytes :=
  if negb (validate_outlen outlen) then Err
  else if negb (validate_key key) then Err
  else hash_c outlen input key.

(* crypto_generichash_init(key, outlen); update*; final(state, output) with
   output.len() = finlen *)
Definition generichash_chunks (outlen : nat) (key : option bytes) (chunks : list bytes) (finlen : nat) : outcome bytes :=
  if negb (validate_outlen outlen) then Err
  else if negb (validate_key key) then Err
  else
    let* s := init_c (Z.land (Z.of_nat outlen) mask8) key None None in
    finalize_c (fold_left update_c chunks s) finlen.

Definition onetimeauth (key msg : bytes) : bytes := Poly1305Impl.mac key msg.
Definition onetimeauth_chunks (key : bytes) (chunks : list bytes) : bytes :=
  Poly1305Impl.finalize (fold_left Poly1305Impl.update chunks (Poly1305Impl.new key)).
Definition onetimeauth_verify (mac msg key : bytes) : outcome unit :=
  if bytes_eqb mac (onetimeauth key msg) then Ok tt else Err.

(* crypto_auth (HMAC-SHA-512-256) as src/classic/crypto_auth.rs builds it over the external SHA-512 hasher: the two
   contexts are modelled by the bytes they have absorbed (the hasher's finalize = its specification of the absorbed bytes;
   that update is "append" is validated by correspondence, see Refine/Hashes.v: external_hasher).
   fn init: pad = [0x36; 128]; pad[i] ^= key[i]; ictx.update(pad); pad.fill(0x5c); pad[i] ^= key[i]; octx.update(pad)
   (a key longer than 128 bytes is hashed first -- not reachable through the public API, whose key is [u8; 32]). *)
Record hmac_state := mk_hmac { ictx : bytes; octx : bytes }.
Definition pad_with (fill : Z) (key : bytes) : bytes :=
  map (fun p : Z * Z => Z.lxor (fst p) (snd p)) (combine (repeat fill (length key)) key) ++ repeat fill (128 - length key).
Definition auth_init (key : bytes) : hmac_state :=
  let key := if (128 <? length key)%nat then Sha512Spec.sha512 key else key in
  mk_hmac (pad_with 0x36 key) (pad_with 0x5c key).
Definition auth_update (st : hmac_state) (input : bytes) : hmac_state := mk_hmac (ictx st ++ input) (octx st).
Definition auth_final (st : hmac_state) : bytes :=
  let ihash := Sha512Spec.sha512 (ictx st) in
  firstn 32 (Sha512Spec.sha512 (octx st ++ ihash)).
Definition auth (key msg : bytes) : bytes := auth_final (auth_update (auth_init key) msg).
Definition auth_chunks (key : bytes) (chunks : list bytes) : bytes := auth_final (fold_left auth_update chunks (auth_init key)).
Definition auth_verify (mac msg key : bytes) : outcome unit :=
  if bytes_eqb mac (auth key msg) then Ok tt else Err.

Definition hash_sha512 (msg : bytes) : bytes := Sha512Spec.sha512 msg.
Definition shorthash (key msg : bytes) : bytes := SipHashSpec.siphash24 key msg.
Definition hsalsa20 (key input : bytes) : bytes := Salsa20Spec.hsalsa20 key input.
Definition hchacha20 (key input : bytes) : bytes := ChaCha20Spec.hchacha20 key input.
Definition increment (l : bytes) : bytes := SecretStreamImpl.increment_bytes l.

End HashesImpl.
