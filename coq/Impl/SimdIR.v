(* The small vector language into which bin/vsimd.py translates the body of the portable-SIMD
   BLAKE2b compression function (src/blake2b/blake2b_simd.rs): four-lane registers m[0..7] (the
   message, loaded once), t0, t1, b0 and the four state rows a, b, c, d. *)
From Coq Require Export List.
Export ListNotations.

Module SimdIR.
Inductive reg := M (k : nat) | T0 | T1 | B0.
Inductive instr :=
  | Swz2 (dst a b : reg) (idx : list nat)      (* dst = simd_swizzle!(a, b, idx): lanes 0..3 of a, 4..7 of b *)
  | Swz1 (dst a : reg) (idx : list nat)        (* dst = simd_swizzle!(a, idx) *)
  | G1 | G2 | Permute | Unpermute.
End SimdIR.
