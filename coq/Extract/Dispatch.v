(* Entry point of the extracted driver: one operation name and a list of
   argument tokens in, an outcome and result tokens out.  All calls into the
   models are made here, in Gallina; the hand-written OCaml only tokenises. *)
From Coq Require Import String Ascii.
From Dryoc Require Import Lib.Outcome Impl.Blake2b Impl.Kdf Impl.Argon2 Impl.PwhashVerify Impl.Cores Impl.Poly1305 Impl.Hashes Impl.SecretBox Impl.Box Impl.SecretStream Impl.Scalarmult Impl.PwhashStr Impl.Serde Impl.Rng Impl.Sign Impl.Protected Impl.TypeState.
Open Scope Z_scope.

Inductive tok :=
| TB (b : bytes)
| TI (z : Z)
| TN
| TL (l : list tok).

Definition out1 (o : outcome bytes) : outcome (list tok) := omap (fun b => [TB b]) o.
Definition outu (o : outcome unit) : outcome (list tok) := omap (fun _ => []) o.

Definition tok_bytes (t : tok) : bytes := match t with TB b => b | _ => [] end.
Definition tok_chunks (t : tok) : list bytes := match t with TL l => map tok_bytes l | _ => [] end.
Definition tok_key (t : tok) : option bytes := match t with TB b => Some b | _ => None end.

(* class code of an outcome as a token: 0 ok, 1 err, 2 panic *)
Definition class_tok {A} (o : outcome A) : tok :=
  TI (match o with Ok _ => 0 | Err => 1 | Panic => 2 end).

(* secret stream histories: steps
     [ i0 xM xAD iTAG ]  push on the push state      -> [ class xC xK xNONCE ]
     [ i1 ]              rekey the push state        -> [ xK xNONCE ]
     [ i2 xC xAD xMBUF iTAGVAR ] classic pull        -> [ class iLEN xMBUF iTAGVAR xK xNONCE ]
     [ i3 ]              rekey the pull state        -> [ xK xNONCE ]
     [ i4 xC xAD ]       object-API pull             -> [ class xM iTAG xK xNONCE ] *)
Import SecretStreamImpl.
Definition st_toks (s : state) : list tok := [TB (st_k s); TB (st_nonce s)].
Fixpoint stream_steps (steps : list tok) (sp sl : state) : list tok :=
  match steps with
  | [] => []
  | TL [TI 0; TB m; TB ad; TI tag] :: rest =>
      let '(o, sp') := push_c sp (length m + ABYTES) m ad tag in
      TL (class_tok o :: TB (match o with Ok c => c | _ => [] end) :: st_toks sp') :: stream_steps rest sp' sl
  | TL [TI 1] :: rest => let sp' := rekey_c sp in TL (st_toks sp') :: stream_steps rest sp' sl
  | TL [TI 2; TB c; TB ad; TB mbuf; TI tagvar] :: rest =>
      let '(o, sl', mbuf', tagvar') := pull_c sl mbuf tagvar c ad in
      TL (class_tok o :: TI (match o with Ok n => Z.of_nat n | _ => 0 end) :: TB mbuf' :: TI tagvar' :: st_toks sl')
        :: stream_steps rest sp sl'
  | TL [TI 3] :: rest => let sl' := rekey_c sl in TL (st_toks sl') :: stream_steps rest sp sl'
  | TL [TI 4; TB c; TB ad] :: rest =>
      let '(o, sl') := obj_pull_c sl c ad in
      TL (class_tok o :: TB (match o with Ok (m, _) => m | _ => [] end)
                      :: TI (match o with Ok (_, t) => t | _ => 0 end) :: st_toks sl') :: stream_steps rest sp sl'
  | _ :: rest => TL [TI (-1)] :: stream_steps rest sp sl
  end.

(* result of an opening function that returns the caller buffer *)
Definition out_open (r : outcome unit * bytes) : outcome (list tok) :=
  Ok [class_tok (fst r); TB (snd r)].

Definition dispatch (op : string) (args : list tok) : option (outcome (list tok)) :=
  if String.eqb op "kdf.derive" then
    match args with
    | [TI len; TB id; TB ctx; TB key] =>
        Some (out1 (KdfImpl.derive_from_key (Z.to_nat len) (le_val id) ctx key))
    | _ => None
    end
  else if String.eqb op "blake2b.hash" then
    match args with
    | [TI len; TB input; TN] => Some (out1 (Blake2bImpl.hash_c (Z.to_nat len) input None))
    | [TI len; TB input; TB key] => Some (out1 (Blake2bImpl.hash_c (Z.to_nat len) input (Some key)))
    | _ => None
    end
  else if String.eqb op "generichash.hash" then
    match args with
    | [TI len; TB input; k] => Some (out1 (HashesImpl.generichash (Z.to_nat len) input (tok_key k)))
    | _ => None
    end
  else if String.eqb op "generichash.chunks" then
    match args with
    | [TI len; k; cs; TI fin] => Some (out1 (HashesImpl.generichash_chunks (Z.to_nat len) (tok_key k) (tok_chunks cs) (Z.to_nat fin)))
    | _ => None
    end
  else if String.eqb op "blake2b.longhash" then
    match args with
    | [TI len; TB input] => Some (out1 (Blake2bImpl.longhash_c (Z.to_nat len) input))
    | _ => None
    end
  else if String.eqb op "onetimeauth.mac" then
    match args with [TB key; TB msg] => Some (Ok [TB (HashesImpl.onetimeauth key msg)]) | _ => None end
  else if String.eqb op "onetimeauth.chunks" then
    match args with [TB key; cs] => Some (Ok [TB (HashesImpl.onetimeauth_chunks key (tok_chunks cs))]) | _ => None end
  else if String.eqb op "onetimeauth.verify" then
    match args with [TB mac; TB msg; TB key] => Some (outu (HashesImpl.onetimeauth_verify mac msg key)) | _ => None end
  else if String.eqb op "auth.mac" then
    match args with [TB key; TB msg] => Some (Ok [TB (HashesImpl.auth key msg)]) | _ => None end
  else if String.eqb op "auth.chunks" then
    match args with [TB key; cs] => Some (Ok [TB (HashesImpl.auth_chunks key (tok_chunks cs))]) | _ => None end
  else if String.eqb op "auth.verify" then
    match args with [TB mac; TB msg; TB key] => Some (outu (HashesImpl.auth_verify mac msg key)) | _ => None end
  else if String.eqb op "hash.sha512" then
    match args with [TB msg] => Some (Ok [TB (HashesImpl.hash_sha512 msg)]) | _ => None end
  else if String.eqb op "hash.sha512_chunks" then
    match args with [cs] => Some (Ok [TB (HashesImpl.hash_sha512 (concat (tok_chunks cs)))]) | _ => None end
  else if String.eqb op "shorthash.hash" then
    match args with [TB key; TB msg] => Some (Ok [TB (HashesImpl.shorthash key msg)]) | _ => None end
  else if String.eqb op "core.hsalsa20" then
    match args with [TB key; TB input] => Some (Ok [TB (CoresImpl.hsalsa20 key input)]) | _ => None end
  else if String.eqb op "core.hchacha20" then
    match args with [TB key; TB input] => Some (Ok [TB (CoresImpl.hchacha20 key input)]) | _ => None end
  else if String.eqb op "utils.increment" then
    match args with [TB l] => Some (Ok [TB (HashesImpl.increment l)]) | _ => None end
  else if String.eqb op "secretbox.easy" then
    match args with [TB cbuf; TB m; TB n; TB k] => Some (out1 (SecretBoxImpl.easy_c cbuf m n k)) | _ => None end
  else if String.eqb op "secretbox.detached" then
    match args with
    | [TB cbuf; TB m; TB n; TB k] => Some (omap (fun p => [TB (fst p); TB (snd p)]) (SecretBoxImpl.detached_c cbuf m n k))
    | _ => None end
  else if String.eqb op "secretbox.easy_inplace" then
    match args with [TB d; TB n; TB k] => Some (out1 (SecretBoxImpl.easy_inplace_c d n k)) | _ => None end
  else if String.eqb op "secretbox.open_easy" then
    match args with [TB mbuf; TB c; TB n; TB k] => Some (out_open (SecretBoxImpl.open_easy_c mbuf c n k)) | _ => None end
  else if String.eqb op "secretbox.open_detached" then
    match args with [TB mbuf; TB mac; TB c; TB n; TB k] => Some (out_open (SecretBoxImpl.open_detached_c mbuf mac c n k)) | _ => None end
  else if String.eqb op "secretbox.open_easy_inplace" then
    match args with [TB c; TB n; TB k] => Some (out_open (SecretBoxImpl.open_easy_inplace_c c n k)) | _ => None end
  else if String.eqb op "secretbox.open_detached_inplace" then
    match args with [TB d; TB mac; TB n; TB k] => Some (out_open (SecretBoxImpl.open_detached_inplace_c d mac n k)) | _ => None end
  else if String.eqb op "box.easy" then
    match args with [TB cbuf; TB m; TB n; TB pk; TB sk] => Some (out1 (BoxImpl.easy cbuf m n pk sk)) | _ => None end
  else if String.eqb op "box.open_easy" then
    match args with [TB mbuf; TB c; TB n; TB pk; TB sk] => Some (out_open (BoxImpl.open_easy mbuf c n pk sk)) | _ => None end
  else if String.eqb op "box.seal" then
    match args with [TB cbuf; TB m; TB rpk; TB esk] => Some (out1 (BoxImpl.seal cbuf m rpk esk)) | _ => None end
  else if String.eqb op "box.seal_open" then
    match args with [TB mbuf; TB c; TB rpk; TB rsk] => Some (out_open (BoxImpl.seal_open mbuf c rpk rsk)) | _ => None end
  else if String.eqb op "stream.history" then
    match args with
    | [TB kp; TB np; TB kl; TB nl; TL steps] =>
        Some (Ok (stream_steps steps (mk_state kp np) (mk_state kl nl)))
    | _ => None end
  else if String.eqb op "scalarmult.mult" then
    match args with [TB n; TB p] => Some (Ok [TB (ScalarmultImpl.scalarmult n p)]) | _ => None end
  else if String.eqb op "scalarmult.base" then
    match args with [TB n] => Some (Ok [TB (ScalarmultImpl.scalarmult_base n)]) | _ => None end
  else if String.eqb op "box.beforenm" then
    match args with [TB pk; TB sk] => Some (Ok [TB (ScalarmultImpl.beforenm pk sk)]) | _ => None end
  else if String.eqb op "kx.client" then
    match args with
    | [TB cpk; TB csk; TB spk] => Some (omap (fun p => [TB (fst p); TB (snd p)]) (ScalarmultImpl.client_session_keys cpk csk spk))
    | _ => None end
  else if String.eqb op "kx.server" then
    match args with
    | [TB spk; TB ssk; TB cpk] => Some (omap (fun p => [TB (fst p); TB (snd p)]) (ScalarmultImpl.server_session_keys spk ssk cpk))
    | _ => None end
  else if String.eqb op "pwhash.hash" then
    match args with
    | [TI outlen; TB pw; TB salt; TB ops; TB mem; TI alg] =>
        Some (omap (fun h => [TB h]) (Argon2Impl.crypto_pwhash (Z.to_nat outlen) pw salt (le_val ops) (le_val mem) alg))
    | _ => None end
  else if String.eqb op "pwhash.str" then
    match args with
    | [TB pw; TB salt; TB ops; TB mem] => Some (out1 (PwhashVerify.str pw salt (le_val ops) (le_val mem)))
    | _ => None end
  else if String.eqb op "pwhash.str_verify" then
    match args with
    | [TB s; TB pw] => Some (omap (fun _ : unit => []) (PwhashVerify.str_verify s pw))
    | _ => None end
  else if String.eqb op "pwhash.verify" then
    match args with
    | [TB stored; TB salt; TI hl; TB ops; TB mem; TI alg; TB pw] =>
        Some (omap (fun _ : unit => []) (Argon2Impl.verify stored salt hl (le_val ops) (le_val mem) alg pw))
    | _ => None end
  else if String.eqb op "pwhash.from_string" then
    match args with
    | [TB str] => Some (omap (fun r => let '(h, sl, a, hl, mem, ops, sll) := r in [TB h; TB sl; TI a; TI hl; TB (le_bytes 8 mem); TB (le_bytes 8 ops); TI sll]) (PwhashStr.from_string str))
    | _ => None end
  else if String.eqb op "pwhash.reencode" then
    match args with [TB str] => Some (out1 (PwhashStr.reencode str)) | _ => None end
  else if String.eqb op "pwhash.needs_rehash" then
    match args with
    | [TB str; TB ops; TB mem] => Some (omap (fun b : bool => [TI (if b then 1 else 0)]) (PwhashStr.needs_rehash str (le_val ops) (le_val mem)))
    | _ => None end
  else if String.eqb op "pwhash.to_string" then
    match args with
    | [TI alg; TB ops; TB mem; TB salt; TB hash] =>
        let '(t, m) := PwhashStr.convert_costs (le_val ops) (le_val mem) in Some (Ok [TB (PwhashStr.to_string alg t m salt hash)])
    | _ => None end
  else if String.eqb op "serde.visit_seq" then
    match args with [TI n; TB elems] => Some (out1 (SerdeImpl.visit_seq (Z.to_nat n) elems)) | _ => None end
  else if String.eqb op "serde.visit_bytes" then
    match args with [TI n; TB v] => Some (out1 (SerdeImpl.visit_bytes (Z.to_nat n) v)) | _ => None end
  else if String.eqb op "serde.heap_visit_seq" then
    match args with [TI hint; TB elems] => Some (out1 (SerdeImpl.heap_visit_seq (Z.to_nat hint) elems)) | _ => None end
  else if String.eqb op "serde.heap_visit_bytes" then
    match args with [TB v] => Some (out1 (SerdeImpl.heap_visit_bytes v)) | _ => None end
  else if String.eqb op "bytes.secretbox.from_bytes" then
    match args with [TB v] => Some (omap (fun p => [TB (fst p); TB (snd p)]) (SerdeImpl.secretbox_from_bytes v)) | _ => None end
  else if String.eqb op "bytes.box.from_bytes" then
    match args with [TB v] => Some (omap (fun p => let '(e, t, d) := p in [match e with Some x => TB x | None => TN end; TB t; TB d]) (SerdeImpl.box_from_bytes v)) | _ => None end
  else if String.eqb op "bytes.box.from_sealed_bytes" then
    match args with [TB v] => Some (omap (fun p => let '(e, t, d) := p in [match e with Some x => TB x | None => TN end; TB t; TB d]) (SerdeImpl.box_from_sealed_bytes v)) | _ => None end
  else if String.eqb op "bytes.signed.from_bytes" then
    match args with [TB v] => Some (omap (fun p => [TB (fst p); TB (snd p)]) (SerdeImpl.signed_from_bytes v)) | _ => None end
  else if String.eqb op "rng.history" then
    match args with
    | [TB stream; TI c; TL ops] =>
        let ops' := map (fun t => match t with TL [TI k; TI n] => ((if k =? 0 then RngImpl.Ident else RngImpl.X25519Pair), Z.to_nat n) | _ => (RngImpl.Ident, O) end) ops in
        let '(outs, c') := RngImpl.run stream (Z.to_nat c) ops' in
        Some (Ok [TL (map TB outs); TI (Z.of_nat c')])
    | _ => None end
  else if String.eqb op "sign.seed_keypair" then
    match args with [TB seed] => let '(pk, sk) := SignImpl.seed_keypair seed in Some (Ok [TB pk; TB sk]) | _ => None end
  else if String.eqb op "sign.detached" then
    match args with [TI ph; TB m; TB sk] => Some (Ok [TB (SignImpl.sign_detached (negb (ph =? 0)) m sk)]) | _ => None end
  else if String.eqb op "sign.verify_detached" then
    match args with [TI ph; TB sig; TB m; TB pk] => Some (outu (SignImpl.verify_detached (negb (ph =? 0)) sig m pk)) | _ => None end
  else if String.eqb op "sign.combined" then
    match args with [TI smlen; TB m; TB sk] => Some (out1 (SignImpl.sign_combined (Z.to_nat smlen) m sk)) | _ => None end
  else if String.eqb op "sign.open" then
    match args with [TI mlen; TB sm; TB pk] => Some (out1 (SignImpl.sign_open (Z.to_nat mlen) sm pk)) | _ => None end
  else if String.eqb op "sign.ph" then
    match args with [cs; TB sk] => Some (Ok [TB (SignImpl.sign_ph (tok_chunks cs) sk)]) | _ => None end
  else if String.eqb op "sign.verify_ph" then
    match args with [cs; TB sig; TB pk] => Some (outu (SignImpl.verify_ph (tok_chunks cs) sig pk)) | _ => None end
  else if String.eqb op "sign.pk_to_curve25519" then
    match args with [TB pk] => Some (out1 (SignImpl.pk_to_curve25519 pk)) | _ => None end
  else if String.eqb op "sign.sk_to_curve25519" then
    match args with [TB sk] => Some (Ok [TB (SignImpl.sk_to_curve25519 sk)]) | _ => None end
  else if String.eqb op "box.seed_keypair" then
    match args with [TB seed] => let '(pk, sk) := SignImpl.box_seed_keypair seed in Some (Ok [TB pk; TB sk]) | _ => None end
  else if String.eqb op "kx.seed_keypair" then
    match args with [TB seed] => Some (omap (fun p => [TB (fst p); TB (snd p)]) (SignImpl.kx_seed_keypair seed)) | _ => None end
  else if String.eqb op "protected.history" then
    match args with
    | [TI len; TL ops] =>
        let ops' := map (fun t => match t with TI c => ProtectedImpl.op_of_code c | _ => ProtectedImpl.OFill end) ops in
        match ProtectedImpl.create (Z.to_nat len) 195 O with
        | Ok w0 =>
            let steps := ProtectedImpl.run w0 ops' in
            let obs w := let '(a, b, c, d, e) := ProtectedImpl.observe w in TL [TI a; TI b; TI c; TI d; TI e; TL (map TI (ProtectedImpl.observe_clones w))] in
            let wl := ProtectedImpl.last_ok w0 steps in
            let '(_, regs) := ProtectedImpl.drop_all wl in
            let final := fold_right (fun r a => (ProtectedImpl.locked_pages r + a)%nat) O regs in
            Some (Ok [TL (obs w0 :: map (fun x => match x with Ok w => obs w | _ => TL [] end) steps); TI (Z.of_nat final)])
        | _ => Some Err
        end
    | _ => None end
  else if String.eqb op "protected.releases" then
    match args with
    | [TI len; TL ops] =>
        let ops' := map (fun t => match t with TI c => ProtectedImpl.op_of_code c | _ => ProtectedImpl.OFill end) ops in
        match ProtectedImpl.create (Z.to_nat len) 195 O with
        | Ok w0 =>
            let wl := ProtectedImpl.last_ok w0 (ProtectedImpl.run w0 ops') in
            let '(evs, _) := ProtectedImpl.drop_all wl in
            let evs := filter (fun e : nat * bool => negb (fst e =? 0)%nat) evs in
            Some (Ok [TL (map (fun e : nat * bool => TL [TI (Z.of_nat (fst e)); TI (if snd e then 1 else 0)]) evs)])
        | _ => Some Err
        end
    | _ => None end
  else if String.eqb op "protected.refusal" then
    match args with
    | [TI len; TL ops; TI k] =>
        let ops' := map (fun t => match t with TI c => ProtectedImpl.op_of_code c | _ => ProtectedImpl.OFill end) ops in
        match ProtectedImpl.create (Z.to_nat len) 195 (Z.to_nat k) with
        | Ok w0 => Some (Ok [TL (TI 0 :: map (fun x => class_tok x) (ProtectedImpl.run w0 ops'))])
        | Err => Some (Ok [TL [TI 1]])
        | Panic => Some (Ok [TL [TI 2]])
        end
    | _ => None end
  else if String.eqb op "typestate.cell" then
    match args with
    | [TI c; TI pm; TI lm; TI o] => Some (Ok [TI (if TypeState.resolves c pm lm (TypeState.trait_of (TypeState.op_of_code o)) then 1 else 0)])
    | _ => None end
  else if String.eqb op "typestate.stream" then
    match args with
    | [TI mode; TI m] =>
        let meth := if m =? 0 then SM_push_to_vec else if m =? 1 then SM_pull_to_vec else SM_rekey in
        Some (Ok [TI (if existsb (fun p : Z * Z => ((fst p =? mode) || (fst p =? 9)) && (snd p =? meth)) stream_methods then 1 else 0)])
    | _ => None end
  else if String.eqb op "stream.init" then
    match args with
    | [TB header; TB key] => Some (Ok (st_toks (init_c header key)))
    | _ => None end
  else None.
