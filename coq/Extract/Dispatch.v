(* Entry point of the extracted driver: one operation name and a list of
   argument tokens in, an outcome and result tokens out.  All calls into the
   models are made here, in Gallina; the hand-written OCaml only tokenises. *)
From Coq Require Import String Ascii.
From Dryoc Require Import Lib.Outcome Impl.Blake2b Impl.Kdf.
Open Scope Z_scope.

Inductive tok :=
| TB (b : bytes)
| TI (z : Z)
| TN
| TL (l : list tok).

Definition out1 (o : outcome bytes) : outcome (list tok) := omap (fun b => [TB b]) o.

Definition run (op : string) (args : list tok) : option (outcome (list tok)) :=
  if String.eqb op "kdf.derive" then
    match args with
    | [TI len; TB id; TB ctx; TB key] =>
        Some (out1 (KdfImpl.derive_from_key (Z.to_nat len) (le_val id) ctx key))
    | _ => None
    end
  else if String.eqb op "blake2b.hash" then
    match args with
    | [TI len; TB input; TN] => Some (out1 (Blake2bImpl.hash_c (Z.to_nat len) input None))
    | [TI len; TB input; TB key] => Some (out1 (Blake2bImpl.hash_c (Z.to_nat len) input (Some key)))
    | _ => None
    end
  else None.
