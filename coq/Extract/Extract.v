From Coq Require Import Extraction ExtrOcamlBasic.
From Dryoc Require Import Extract.Dispatch.
Extraction Language OCaml.
Extraction "model.ml" Dispatch.dispatch.
