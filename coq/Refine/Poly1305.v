(* src/poly1305/poly1305_soft.rs (44/44/42-bit limbs, own buffering) computes RFC 8439 Poly1305:
   every block step is the RFC's ((acc + n) * r) mod p on the limb value, no checked operation
   exceeds its type, any chunking of the input gives the same state, and finalize produces the
   canonical residue plus s mod 2^128. *)
From Coq Require Import ZifyNat ZifyBool.
From Dryoc Require Import Spec.Poly1305 Impl.Poly1305.
Import Poly1305Impl.
Open Scope Z_scope.
Ltac Zify.zify_post_hook ::= Z.div_mod_to_equations.

Definition P : Z := Poly1305Spec.p.

Definition val (h : Z * Z * Z) : Z := let '(h0, h1, h2) := h in h0 + 2 ^ 44 * h1 + 2 ^ 88 * h2.

(* r after clamping: limb bounds *)
Definition rinv (r : Z * Z * Z) : Prop :=
  let '(r0, r1, r2) := r in 0 <= r0 < 2 ^ 44 /\ 0 <= r1 < 2 ^ 44 /\ 0 <= r2 < 2 ^ 40.
(* h between blocks *)
Definition hinv (h : Z * Z * Z) : Prop :=
  let '(h0, h1, h2) := h in 0 <= h0 < 2 ^ 44 /\ 0 <= h1 < 2 ^ 44 + 2 ^ 10 /\ 0 <= h2 < 2 ^ 42.

Lemma land_m44 x : Z.land x m44 = x mod 2 ^ 44.
Proof. change m44 with (Z.ones 44). apply Z.land_ones. lia. Qed.
Lemma land_m42 x : Z.land x m42 = x mod 2 ^ 42.
Proof. change m42 with (Z.ones 42). apply Z.land_ones. lia. Qed.
Lemma shr x n : 0 <= n -> Z.shiftr x n = x / 2 ^ n.
Proof. apply Z.shiftr_div_pow2. Qed.

(* the arithmetic of one block on already loaded limbs (m0, m1, m2) *)
Definition core (r h m : Z * Z * Z) : Z * Z * Z :=
  let '(r0, r1, r2) := r in let '(h0, h1, h2) := h in let '(m0, m1, m2) := m in
  let s1 := r1 * 20 in let s2 := r2 * 20 in
  let h0 := h0 + m0 in let h1 := h1 + m1 in let h2 := h2 + m2 in
  let d0 := h0 * r0 + h1 * s2 + h2 * s1 in
  let d1 := h0 * r1 + h1 * r0 + h2 * s2 in
  let d2 := h0 * r2 + h1 * r1 + h2 * r0 in
  let c := d0 / 2 ^ 44 in let h0 := d0 mod 2 ^ 44 in
  let d1 := d1 + c in
  let c := d1 / 2 ^ 44 in let h1 := d1 mod 2 ^ 44 in
  let d2 := d2 + c in
  let c := d2 / 2 ^ 42 in let h2 := d2 mod 2 ^ 42 in
  let h0 := h0 + c * 5 in
  let c := h0 / 2 ^ 44 in let h0 := h0 mod 2 ^ 44 in
  (h0, h1 + c, h2).

Lemma mul_bound a b A B : 0 <= a < A -> 0 <= b < B -> 0 <= a * b < A * B.
Proof. intros Ha Hb. split; nia. Qed.

(* the congruence and the bounds, with the nine limb products abstracted *)
Lemma core_spec r h m :
  rinv r -> hinv h ->
  (let '(m0, m1, m2) := m in 0 <= m0 < 2 ^ 44 /\ 0 <= m1 < 2 ^ 44 /\ 0 <= m2 < 2 ^ 41) ->
  hinv (core r h m) /\
  val (core r h m) mod P = ((val h + val m) * val r) mod P /\
  (* no intermediate exceeds its Rust type: the u128 sums stay below 2^92, so every carry fits u64
     with room for the final c * 5 *)
  (let '(r0, r1, r2) := r in let '(h0, h1, h2) := h in let '(m0, m1, m2) := m in
   let a0 := h0 + m0 in let a1 := h1 + m1 in let a2 := h2 + m2 in
   a0 < 2 ^ 64 /\ a1 < 2 ^ 64 /\ a2 < 2 ^ 64 /\
   a0 * r0 + a1 * (r2 * 20) + a2 * (r1 * 20) < 2 ^ 92 /\
   a0 * r1 + a1 * r0 + a2 * (r2 * 20) < 2 ^ 91 /\
   a0 * r2 + a1 * r1 + a2 * r0 < 2 ^ 90).
Proof.
  destruct r as [[r0 r1] r2], h as [[h0 h1] h2], m as [[m0 m1] m2].
  intros (Hr0 & Hr1 & Hr2) (Hh0 & Hh1 & Hh2) (Hm0 & Hm1 & Hm2).
  unfold core, hinv, val, P, Poly1305Spec.p.
  set (a0 := h0 + m0). set (a1 := h1 + m1). set (a2 := h2 + m2).
  assert (Ha0 : 0 <= a0 < 2 ^ 45) by (subst a0; lia).
  assert (Ha1 : 0 <= a1 < 2 ^ 45 + 2 ^ 10) by (subst a1; lia).
  assert (Ha2 : 0 <= a2 < 2 ^ 43) by (subst a2; lia).
  pose proof (mul_bound a0 r0 _ _ Ha0 Hr0) as B00. pose proof (mul_bound a0 r1 _ _ Ha0 Hr1) as B01.
  pose proof (mul_bound a0 r2 _ _ Ha0 Hr2) as B02. pose proof (mul_bound a1 r0 _ _ Ha1 Hr0) as B10.
  pose proof (mul_bound a1 r1 _ _ Ha1 Hr1) as B11. pose proof (mul_bound a1 r2 _ _ Ha1 Hr2) as B12.
  pose proof (mul_bound a2 r0 _ _ Ha2 Hr0) as B20. pose proof (mul_bound a2 r1 _ _ Ha2 Hr1) as B21.
  pose proof (mul_bound a2 r2 _ _ Ha2 Hr2) as B22.
  replace (a1 * (r2 * 20)) with (20 * (a1 * r2)) by ring. replace (a2 * (r1 * 20)) with (20 * (a2 * r1)) by ring.
  replace (a2 * (r2 * 20)) with (20 * (a2 * r2)) by ring.
  assert (Hval : (a0 + 2 ^ 44 * a1 + 2 ^ 88 * a2) * (r0 + 2 ^ 44 * r1 + 2 ^ 88 * r2) =
                 a0 * r0 + 2 ^ 44 * (a0 * r1) + 2 ^ 88 * (a0 * r2) + 2 ^ 44 * (a1 * r0) + 2 ^ 88 * (a1 * r1) + 2 ^ 132 * (a1 * r2)
                 + 2 ^ 88 * (a2 * r0) + 2 ^ 132 * (a2 * r1) + 2 ^ 176 * (a2 * r2)) by ring.
  replace (h0 + 2 ^ 44 * h1 + 2 ^ 88 * h2 + (m0 + 2 ^ 44 * m1 + 2 ^ 88 * m2)) with (a0 + 2 ^ 44 * a1 + 2 ^ 88 * a2) by (subst a0 a1 a2; ring).
  rewrite Hval. clear Hval.
  generalize dependent (a0 * r0). generalize dependent (a0 * r1). generalize dependent (a0 * r2).
  generalize dependent (a1 * r0). generalize dependent (a1 * r1). generalize dependent (a1 * r2).
  generalize dependent (a2 * r0). generalize dependent (a2 * r1). generalize dependent (a2 * r2).
  intros p22 B22 p21 B21 p20 B20 p12 B12 p11 B11 p10 B10 p02 B02 p01 B01 p00 B00.
  cbv zeta.
  repeat split; try lia.
Qed.

(* ------------------------------------------------------------------ loading a block *)

Definition t0_of (m : bytes) : Z := le_val (firstn 8 m).
Definition t1_of (m : bytes) : Z := le_val (firstn 8 (skipn 8 m)).
Definition limbs (hibit : Z) (m : bytes) : Z * Z * Z :=
  (t0_of m mod 2 ^ 44, t0_of m / 2 ^ 44 + (t1_of m mod 2 ^ 24) * 2 ^ 20, t1_of m / 2 ^ 24 + hibit).

Lemma le_val_app a b : le_val (a ++ b) = le_val a + 256 ^ Z.of_nat (length a) * le_val b.
Proof.
  induction a as [|x a IH]; cbn [app le_val length]; [lia|].
  rewrite IH, Nat2Z.inj_succ, Z.pow_succ_r by lia. ring.
Qed.

Lemma word_bounds m : wf_bytes m -> 0 <= t0_of m < 2 ^ 64 /\ 0 <= t1_of m < 2 ^ 64.
Proof.
  intros Hm. unfold t0_of, t1_of. split.
  - pose proof (le_val_bound (firstn 8 m) (wf_firstn _ _ Hm)) as H. rewrite firstn_length in H.
    assert (256 ^ Z.of_nat (Nat.min 8 (length m)) <= 2 ^ 64); [|lia].
    change 256 with (2 ^ 8). rewrite <- Z.pow_mul_r by lia. apply Z.pow_le_mono_r; lia.
  - pose proof (le_val_bound (firstn 8 (skipn 8 m)) (wf_firstn _ _ (wf_skipn _ _ Hm))) as H. rewrite firstn_length in H.
    assert (256 ^ Z.of_nat (Nat.min 8 (length (skipn 8 m))) <= 2 ^ 64); [|lia].
    change 256 with (2 ^ 8). rewrite <- Z.pow_mul_r by lia. apply Z.pow_le_mono_r; lia.
Qed.

Lemma block_value m : length m = 16%nat -> le_val m = t0_of m + 2 ^ 64 * t1_of m.
Proof.
  intros Hl. unfold t0_of, t1_of.
  rewrite <- (firstn_skipn 8 m) at 1. rewrite le_val_app, firstn_length, Hl.
  replace (firstn 8 (skipn 8 m)) with (skipn 8 m) by (symmetry; apply firstn_all2; rewrite skipn_length; lia).
  reflexivity.
Qed.

Lemma limbs_spec hibit m : length m = 16%nat -> wf_bytes m -> (hibit = 0 \/ hibit = 2 ^ 40) ->
  let '(m0, m1, m2) := limbs hibit m in
  0 <= m0 < 2 ^ 44 /\ 0 <= m1 < 2 ^ 44 /\ 0 <= m2 < 2 ^ 41 /\
  val (limbs hibit m) = le_val m + 2 ^ 88 * hibit.
Proof.
  intros Hl Hm Hh. destruct (word_bounds m Hm) as [H0 H1]. rewrite (block_value m Hl).
  unfold limbs, val. lia.
Qed.

Lemma shl64_spec x n : 0 <= n -> shl64 x n = (x * 2 ^ n) mod 2 ^ 64.
Proof. intros Hn. unfold shl64. rewrite w64_mod, Z.shiftl_mul_pow2 by exact Hn. reflexivity. Qed.

Lemma lor_add_low a b n : 0 <= n -> 0 <= a < 2 ^ n -> 0 <= b -> b mod 2 ^ n = 0 -> Z.lor a b = a + b.
Proof.
  intros Hn Ha Hb Hmod. assert (Hb' : b = Z.shiftl (b / 2 ^ n) n).
  { rewrite Z.shiftl_mul_pow2 by lia. pose proof (Z.pow_pos_nonneg 2 n). lia. }
  rewrite Hb' at 1. rewrite lor_shiftl_add by lia. rewrite Z.shiftl_mul_pow2 in Hb' by lia. lia.
Qed.

(* the Rust block body = the arithmetic core on the loaded limbs *)
Lemma block_step_core hibit r h m :
  rinv r -> hinv h -> length m = 16%nat -> wf_bytes m -> (hibit = 0 \/ hibit = Z.shiftl 1 40) ->
  block_step hibit r h m = core r h (limbs (if hibit =? 0 then 0 else 2 ^ 40) m).
Proof.
  intros Hr Hh Hl Hm Hhib.
  assert (Hhib' : hibit = 0 \/ hibit = 2 ^ 40) by (destruct Hhib; [left|right]; assumption).
  replace (if hibit =? 0 then 0 else 2 ^ 40) with hibit by (destruct Hhib' as [-> | ->]; reflexivity).
  pose proof (limbs_spec hibit m Hl Hm Hhib') as HL.
  pose proof (core_spec r h (limbs hibit m) Hr Hh) as HC.
  destruct (word_bounds m Hm) as [H0 H1].
  unfold limbs in *. set (T0 := t0_of m) in *. set (T1 := t1_of m) in *.
  destruct r as [[r0 r1] r2], h as [[h0 h1] h2].
  destruct Hr as (Hr0 & Hr1 & Hr2). destruct Hh as (Hh0 & Hh1 & Hh2).
  destruct HL as (Hm0 & Hm1 & Hm2 & _).
  specialize (HC (conj Hm0 (conj Hm1 Hm2))). destruct HC as (_ & _ & Hov).
  unfold block_step, core.
  replace (load_u64_le (firstn 8 m)) with T0 by (unfold load_u64_le, T0, t0_of; now rewrite firstn_firstn).
  replace (load_u64_le (skipn 8 m)) with T1 by reflexivity.
  (* the three loaded limbs *)
  assert (E0 : wadd64 h0 (Z.land T0 m44) = h0 + T0 mod 2 ^ 44).
  { unfold wadd64. rewrite land_m44, w64_mod by lia. apply Z.mod_small. lia. }
  assert (E1 : wadd64 h1 (Z.land (Z.lor (Z.shiftr T0 44) (shl64 T1 20)) m44) = h1 + (T0 / 2 ^ 44 + T1 mod 2 ^ 24 * 2 ^ 20)).
  { rewrite shr, shl64_spec by lia.
    rewrite (lor_add_low (T0 / 2 ^ 44) ((T1 * 2 ^ 20) mod 2 ^ 64) 20) by lia.
    unfold wadd64. rewrite land_m44, w64_mod by lia. lia. }
  assert (E2 : wadd64 h2 (Z.lor (Z.land (Z.shiftr T1 24) m42) hibit) = h2 + (T1 / 2 ^ 24 + hibit)).
  { rewrite shr, land_m42 by lia. rewrite (Z.mod_small (T1 / 2 ^ 24)) by lia.
    assert (Z.lor (T1 / 2 ^ 24) hibit = T1 / 2 ^ 24 + hibit) as ->.
    { destruct Hhib' as [-> | ->]; [now rewrite Z.lor_0_r, Z.add_0_r|]. apply (lor_add_low _ _ 40); lia. }
    unfold wadd64. rewrite w64_mod. apply Z.mod_small. destruct Hhib' as [-> | ->]; lia. }
  rewrite E0, E1, E2. clear E0 E1 E2.
  set (a0 := h0 + T0 mod 2 ^ 44) in *. set (a1 := h1 + (T0 / 2 ^ 44 + T1 mod 2 ^ 24 * 2 ^ 20)) in *.
  set (a2 := h2 + (T1 / 2 ^ 24 + hibit)) in *.
  cbv zeta in Hov. destruct Hov as (_ & _ & _ & Hd0 & Hd1 & Hd2).
  assert (Ha0 : 0 <= a0) by (subst a0; lia). assert (Ha1 : 0 <= a1) by (subst a1; lia). assert (Ha2 : 0 <= a2) by (subst a2; lia).
  assert (P00 : 0 <= a0 * r0) by nia. assert (P01 : 0 <= a0 * r1) by nia. assert (P02 : 0 <= a0 * r2) by nia.
  assert (P10 : 0 <= a1 * r0) by nia. assert (P11 : 0 <= a1 * r1) by nia. assert (P12 : 0 <= a1 * r2) by nia.
  assert (P20 : 0 <= a2 * r0) by nia. assert (P21 : 0 <= a2 * r1) by nia. assert (P22 : 0 <= a2 * r2) by nia.
  replace (a1 * (r2 * 20)) with (20 * (a1 * r2)) in * by ring. replace (a2 * (r1 * 20)) with (20 * (a2 * r1)) in * by ring.
  replace (a2 * (r2 * 20)) with (20 * (a2 * r2)) in * by ring.
  clearbody a0 a1 a2.
  remember (a0 * r0) as p00. remember (a0 * r1) as p01. remember (a0 * r2) as p02.
  remember (a1 * r0) as p10. remember (a1 * r1) as p11. remember (a1 * r2) as p12.
  remember (a2 * r0) as p20. remember (a2 * r1) as p21. remember (a2 * r2) as p22.
  clear Heqp00 Heqp01 Heqp02 Heqp10 Heqp11 Heqp12 Heqp20 Heqp21 Heqp22.
  cbv zeta. rewrite !shr by lia. rewrite !land_m44, !land_m42, !w64_mod.
  remember (p00 + 20 * p12 + 20 * p21) as X0 eqn:EX0.
  assert (HX0 : 0 <= X0 < 2 ^ 92) by lia.
  rewrite (Z.mod_small (X0 / 2 ^ 44) (2 ^ 64)) by lia.
  remember (p01 + p10 + 20 * p22 + X0 / 2 ^ 44) as X1 eqn:EX1.
  assert (HX1 : 0 <= X1 < 2 ^ 92) by lia.
  rewrite (Z.mod_small (X1 / 2 ^ 44) (2 ^ 64)) by lia.
  remember (p02 + p11 + p20 + X1 / 2 ^ 44) as X2 eqn:EX2.
  assert (HX2 : 0 <= X2 < 2 ^ 91) by lia.
  rewrite (Z.mod_small (X2 / 2 ^ 42) (2 ^ 64)) by lia.
  clear EX0 EX1 EX2.
  assert (M44 : forall x, (x mod 2 ^ 64) mod 2 ^ 44 = x mod 2 ^ 44) by (intros; lia).
  assert (M42 : forall x, (x mod 2 ^ 64) mod 2 ^ 42 = x mod 2 ^ 42) by (intros; lia).
  rewrite !M44, !M42. reflexivity.
Qed.

(* ------------------------------------------------------------------ blocks: accumulator *)

Definition HB : Z := Z.shiftl 1 40.

Lemma acc_mod a n r : ((a mod P + n) * r) mod P = ((a + n) * r) mod P.
Proof.
  rewrite (Z.mul_mod (a mod P + n)), (Z.mul_mod (a + n)) by (unfold P, Poly1305Spec.p; lia).
  rewrite Z.add_mod_idemp_l by (unfold P, Poly1305Spec.p; lia). reflexivity.
Qed.

(* one full block: the limb value follows RFC 8439's accumulator *)
Lemma full_block_acc r h m : rinv r -> hinv h -> length m = 16%nat -> wf_bytes m ->
  hinv (block_step HB r h m) /\
  val (block_step HB r h m) mod P = Poly1305Spec.acc_step (val r) (val h mod P) m.
Proof.
  intros Hr Hh Hl Hm.
  rewrite (block_step_core HB r h m Hr Hh Hl Hm (or_intror eq_refl)). change (HB =? 0) with false. cbv iota.
  pose proof (limbs_spec (2 ^ 40) m Hl Hm (or_intror eq_refl)) as HL.
  destruct (limbs (2 ^ 40) m) as [[m0 m1] m2] eqn:E.
  destruct HL as (Hm0 & Hm1 & Hm2 & Hv).
  destruct (core_spec r h (m0, m1, m2) Hr Hh (conj Hm0 (conj Hm1 Hm2))) as (Hi & Hc & _).
  split; [exact Hi|]. rewrite Hc, Hv. unfold Poly1305Spec.acc_step, Poly1305Spec.block_num.
  rewrite Hl. fold P. rewrite acc_mod. reflexivity.
Qed.

(* the final partial block: buffer || 01 || 00.., no high bit *)
Lemma last_block_acc r h buf : rinv r -> hinv h -> (length buf < 16)%nat -> wf_bytes buf ->
  let m := (buf ++ [1]) ++ zeros (16 - length (buf ++ [1])) in
  hinv (block_step 0 r h m) /\
  val (block_step 0 r h m) mod P = Poly1305Spec.acc_step (val r) (val h mod P) buf.
Proof.
  intros Hr Hh Hl Hb m.
  assert (Hlm : length m = 16%nat) by (subst m; rewrite !app_length, zeros_length; cbn [length]; lia).
  assert (Hwm : wf_bytes m).
  { subst m. apply wf_bytes_app. split; [apply wf_bytes_app; split; [exact Hb|]|apply wf_zeros]. repeat constructor; unfold is_byte; lia. }
  rewrite (block_step_core 0 r h m Hr Hh Hlm Hwm (or_introl eq_refl)). change (0 =? 0) with true. cbv iota.
  pose proof (limbs_spec 0 m Hlm Hwm (or_introl eq_refl)) as HL.
  destruct (limbs 0 m) as [[m0 m1] m2] eqn:E.
  destruct HL as (Hm0 & Hm1 & Hm2 & Hv).
  destruct (core_spec r h (m0, m1, m2) Hr Hh (conj Hm0 (conj Hm1 Hm2))) as (Hi & Hc & _).
  split; [exact Hi|]. rewrite Hc, Hv. unfold Poly1305Spec.acc_step, Poly1305Spec.block_num. fold P.
  rewrite acc_mod. f_equal. f_equal.
  assert (Hz : forall k, le_val (zeros k) = 0) by (induction k; cbn [zeros repeat le_val] in *; [reflexivity|unfold zeros in IHk; lia]).
  subst m. rewrite !le_val_app, Hz. cbn [le_val length].
  change 256 with (2 ^ 8). rewrite <- Z.pow_mul_r by lia. lia.
Qed.

Lemma chunks_cons (l : bytes) : (16 <= length l)%nat -> (length l mod 16 = 0)%nat ->
  chunks 16 l = firstn 16 l :: chunks 16 (skipn 16 l).
Proof.
  intros Hl Hm. unfold chunks. rewrite skipn_length.
  replace ((length l + 16 - 1) / 16)%nat with (S ((length l - 16 + 16 - 1) / 16)) by lia.
  reflexivity.
Qed.

Lemma chunks_nil : chunks 16 [] = [].
Proof. reflexivity. Qed.

(* any whole number of blocks *)
Lemma blocks_acc r (n : nat) : forall h input, rinv r -> hinv h -> length input = (16 * n)%nat -> wf_bytes input ->
  hinv (fold_left (block_step HB r) (chunks 16 input) h) /\
  val (fold_left (block_step HB r) (chunks 16 input) h) mod P =
  fold_left (Poly1305Spec.acc_step (val r)) (chunks 16 input) (val h mod P).
Proof.
  induction n as [|n IH]; intros h input Hr Hh Hl Hw.
  - destruct input; [|discriminate]. rewrite chunks_nil. cbn [fold_left]. auto.
  - rewrite chunks_cons by lia. cbn [fold_left].
    destruct (full_block_acc r h (firstn 16 input) Hr Hh) as [Hi Hc]; [rewrite firstn_length; lia|now apply wf_firstn|].
    rewrite <- Hc. apply IH; [exact Hr|exact Hi|rewrite skipn_length; lia|now apply wf_skipn].
Qed.

(* ------------------------------------------------------------------ finalize: carry, reduce, add s *)

Lemma wadd64_spec a b : wadd64 a b = (a + b) mod 2 ^ 64.
Proof. unfold wadd64. apply w64_mod. Qed.
Lemma wsub64_spec a b : wsub64 a b = (a - b) mod 2 ^ 64.
Proof. unfold wsub64. apply w64_mod. Qed.

Lemma mask_select (mask h g : Z) : 0 <= h < 2 ^ 64 -> 0 <= g < 2 ^ 64 -> (mask = 0 \/ mask = 2 ^ 64 - 1) ->
  Z.lor (Z.land h (not64 mask)) (Z.land g mask) = if mask =? 0 then h else g.
Proof.
  intros Hh Hg [-> | ->]; unfold not64.
  - change (Z.lxor 0 mask64) with (Z.ones 64). rewrite Z.land_0_r, Z.lor_0_r, Z.land_ones by lia. change (0 =? 0) with true. cbv iota. apply Z.mod_small. lia.
  - change (Z.lxor (2 ^ 64 - 1) mask64) with 0. change (2 ^ 64 - 1) with (Z.ones 64).
    rewrite Z.land_0_r, Z.lor_0_l, Z.land_ones by lia. change (Z.ones 64 =? 0) with false. cbv iota. apply Z.mod_small. lia.
Qed.

(* two carry rounds leave a nearly canonical value congruent to the input *)
Definition carry2 (h : Z * Z * Z) : Z * Z * Z :=
  let '(h0, h1, h2) := h in
  let c := h1 / 2 ^ 44 in let h1 := h1 mod 2 ^ 44 in let h2 := h2 + c in
  let c := h2 / 2 ^ 42 in let h2 := h2 mod 2 ^ 42 in let h0 := h0 + c * 5 in
  let c := h0 / 2 ^ 44 in let h0 := h0 mod 2 ^ 44 in let h1 := h1 + c in
  let c := h1 / 2 ^ 44 in let h1 := h1 mod 2 ^ 44 in let h2 := h2 + c in
  let c := h2 / 2 ^ 42 in let h2 := h2 mod 2 ^ 42 in let h0 := h0 + c * 5 in
  let c := h0 / 2 ^ 44 in let h0 := h0 mod 2 ^ 44 in let h1 := h1 + c in
  (h0, h1, h2).

Lemma carry2_spec h : hinv h ->
  let '(k0, k1, k2) := carry2 h in
  0 <= k0 < 2 ^ 44 /\ 0 <= k1 <= 2 ^ 44 /\ 0 <= k2 < 2 ^ 42 /\
  val (carry2 h) mod P = val h mod P /\ val (carry2 h) < 2 * P.
Proof.
  destruct h as [[h0 h1] h2]. intros (H0 & H1 & H2). unfold carry2, val, P, Poly1305Spec.p. cbv zeta.
  repeat split; try lia.
Qed.

Lemma finish_words_spec h t0 t1 : hinv h -> 0 <= t0 < 2 ^ 64 -> 0 <= t1 < 2 ^ 64 ->
  let '(w0, w1) := finish_words h (t0, t1) in
  0 <= w0 < 2 ^ 64 /\ 0 <= w1 < 2 ^ 64 /\
  w0 + 2 ^ 64 * w1 = (val h mod P + (t0 + 2 ^ 64 * t1)) mod 2 ^ 128.
Proof.
  intros Hh Ht0 Ht1. pose proof (carry2_spec h Hh) as HK.
  destruct h as [[h0 h1] h2]. unfold finish_words. cbv zeta. cbn [fst snd].
  rewrite !shr by lia. rewrite !land_m44, !land_m42, !wadd64_spec, !wsub64_spec. rewrite !shl64_spec by lia.
  change (Z.shiftl 1 42) with (2 ^ 42).
  (* the carried limbs *)
  unfold carry2 in HK. cbv beta iota zeta in HK.
  match type of HK with (0 <= ?e0 < _) /\ (0 <= ?e1 <= _) /\ (0 <= ?e2 < _) /\ _ =>
    remember e0 as k0 eqn:E0; remember e1 as k1 eqn:E1; remember e2 as k2 eqn:E2 end.
  destruct HK as (Hk0 & Hk1 & Hk2 & Hcong & Hlt).
  unfold val in Hcong, Hlt |- *. rewrite <- Hcong. clear Hcong E0 E1 E2 Hh.
  set (V := k0 + 2 ^ 44 * k1 + 2 ^ 88 * k2) in *.
  (* g = k + 5, carried *)
  rewrite (Z.mod_small (k0 + 5) (2 ^ 64)) by lia.
  remember ((k0 + 5) / 2 ^ 44) as c7 eqn:Ec7.
  assert (Hc7 : 0 <= c7 <= 1) by lia.
  rewrite (Z.mod_small (k1 + c7) (2 ^ 64)) by lia.
  remember ((k1 + c7) / 2 ^ 44) as c8 eqn:Ec8.
  assert (Hc8 : 0 <= c8 <= 1) by lia.
  rewrite (Z.mod_small (k2 + c8) (2 ^ 64)) by lia.
  remember ((k0 + 5) mod 2 ^ 44) as g0 eqn:Eg0. remember ((k1 + c7) mod 2 ^ 44) as g1 eqn:Eg1.
  assert (HV5 : V + 5 = g0 + 2 ^ 44 * g1 + 2 ^ 88 * (k2 + c8)) by (subst V; lia).
  remember ((k2 + c8 - 2 ^ 42) mod 2 ^ 64) as g2 eqn:Eg2.
  remember ((g2 / 2 ^ 63 - 1) mod 2 ^ 64) as mask eqn:Emask.
  assert (Hg0 : 0 <= g0 < 2 ^ 44) by lia. assert (Hg1 : 0 <= g1 < 2 ^ 44) by lia.
  assert (Hg2 : 0 <= g2 < 2 ^ 64) by lia.
  assert (Hmask : (mask = 0 /\ k2 + c8 < 2 ^ 42) \/ (mask = 2 ^ 64 - 1 /\ 2 ^ 42 <= k2 + c8 /\ g2 = k2 + c8 - 2 ^ 42)).
  { destruct (Z.lt_ge_cases (k2 + c8) (2 ^ 42)); [left|right]; lia. }
  clear Ec7 Ec8 Eg0 Eg1 Eg2 Emask.
  assert (Hm01 : mask = 0 \/ mask = 2 ^ 64 - 1) by (destruct Hmask as [[-> _] | [-> _]]; auto).
  rewrite !(Z.lor_comm (Z.land _ (not64 mask))).
  rewrite (Z.lor_comm (Z.land g0 mask)), (Z.lor_comm (Z.land g1 mask)), (Z.lor_comm (Z.land g2 mask)).
  rewrite (mask_select mask k0 g0), (mask_select mask k1 g1), (mask_select mask k2 g2) by lia.
  (* the selected limbs: the canonical residue *)
  remember (if mask =? 0 then k0 else g0) as s0 eqn:Es0.
  remember (if mask =? 0 then k1 else g1) as s1 eqn:Es1.
  remember (if mask =? 0 then k2 else g2) as s2 eqn:Es2.
  assert (HS : 0 <= s0 < 2 ^ 44 /\ 0 <= s1 <= 2 ^ 44 /\ 0 <= s2 < 2 ^ 42 /\ s0 + 2 ^ 44 * s1 + 2 ^ 88 * s2 = V mod P).
  { unfold P, Poly1305Spec.p in *. destruct Hmask as [[-> Hlt42] | [-> [Hge Hg2e]]].
    - change (0 =? 0) with true in *. subst s0 s1 s2. repeat split; try lia.
      all: try (symmetry; apply Z.mod_small; subst V; lia).
    - change (2 ^ 64 - 1 =? 0) with false in *. subst s0 s1 s2. repeat split; try lia.
      all: try (symmetry; apply (Z.mod_unique V (2 ^ 130 - 5) 1); lia). }
  destruct HS as (Hs0 & Hs1 & Hs2 & HSv). rewrite <- HSv. clear Es0 Es1 Es2 HSv Hmask Hm01 HV5 Hlt.
  clear dependent V. clear dependent mask. clear g0 g1 g2 Hg0 Hg1 Hg2 c7 c8 Hc7 Hc8 k0 k1 k2 Hk0 Hk1 Hk2.
  (* add the pad and pack *)
  rewrite (lor_add_low (t0 / 2 ^ 44) ((t1 * 2 ^ 20) mod 2 ^ 64) 20) by lia.
  remember (t0 mod 2 ^ 44) as p0. remember ((t0 / 2 ^ 44 + (t1 * 2 ^ 20) mod 2 ^ 64) mod 2 ^ 44) as p1.
  remember ((t1 / 2 ^ 24) mod 2 ^ 42) as p2.
  assert (Hp : 0 <= p0 < 2 ^ 44 /\ 0 <= p1 < 2 ^ 44 /\ 0 <= p2 < 2 ^ 40 /\ p0 + 2 ^ 44 * p1 + 2 ^ 88 * p2 = t0 + 2 ^ 64 * t1) by lia.
  destruct Hp as (Hp0 & Hp1 & Hp2 & Hpv). rewrite <- Hpv. clear Heqp0 Heqp1 Heqp2 Hpv.
  rewrite (Z.mod_small (s0 + p0) (2 ^ 64)) by lia.
  remember ((s0 + p0) / 2 ^ 44) as d0. assert (Hd0 : 0 <= d0 <= 1) by lia.
  rewrite (Z.mod_small (p1 + d0) (2 ^ 64)) by lia. rewrite (Z.mod_small (s1 + (p1 + d0)) (2 ^ 64)) by lia.
  remember ((s1 + (p1 + d0)) / 2 ^ 44) as d1. assert (Hd1 : 0 <= d1 <= 2) by lia.
  rewrite (Z.mod_small (p2 + d1) (2 ^ 64)) by lia. rewrite (Z.mod_small (s2 + (p2 + d1)) (2 ^ 64)) by lia.
  remember ((s0 + p0) mod 2 ^ 44) as f0. remember ((s1 + (p1 + d0)) mod 2 ^ 44) as f1.
  remember ((s2 + (p2 + d1)) mod 2 ^ 42) as f2.
  rewrite (lor_add_low f0 ((f1 * 2 ^ 44) mod 2 ^ 64) 44) by lia.
  rewrite (lor_add_low (f1 / 2 ^ 20) ((f2 * 2 ^ 24) mod 2 ^ 64) 24) by lia.
  repeat split; lia.
Qed.

(* ------------------------------------------------------------------ the key: clamped r, pad s *)

Lemma land_bound x m n : 0 <= n -> 0 <= m < 2 ^ n -> 0 <= Z.land x m < 2 ^ n.
Proof.
  intros Hn Hm. assert (E : m = Z.land m (Z.ones n)) by (rewrite Z.land_ones by lia; symmetry; apply Z.mod_small; lia).
  rewrite E, Z.land_assoc, Z.land_ones by lia. apply Z.mod_pos_bound. lia.
Qed.

Lemma land_low x m n : 0 <= n -> 0 <= m < 2 ^ n -> Z.land x m = Z.land (x mod 2 ^ n) m.
Proof.
  intros Hn Hm. assert (E : m = Z.land (Z.ones n) m) by (rewrite Z.land_comm, Z.land_ones by lia; symmetry; apply Z.mod_small; lia).
  rewrite E at 1. rewrite Z.land_assoc, Z.land_ones by lia. reflexivity.
Qed.

(* land works limb by limb *)
Lemma land_concat a b c d n : 0 <= n -> 0 <= a < 2 ^ n -> 0 <= c < 2 ^ n -> 0 <= b -> 0 <= d ->
  Z.land (a + b * 2 ^ n) (c + d * 2 ^ n) = Z.land a c + Z.land b d * 2 ^ n.
Proof.
  intros Hn Ha Hc Hb Hd.
  rewrite <- !lor_shiftl_add by (try apply land_bound; lia).
  rewrite Z.land_lor_distr_l, !Z.land_lor_distr_r.
  rewrite (land_shiftl_low a d n) by lia. rewrite (Z.land_comm (Z.shiftl b n) c), (land_shiftl_low c b n) by lia.
  rewrite <- Z.shiftl_land. rewrite Z.lor_0_r, Z.lor_0_l. reflexivity.
Qed.

Definition M0 : Z := 0xffc0fffffff.
Definition M1 : Z := 0xfffffc0ffff.
Definition M2 : Z := 0x00ffffffc0f.

Lemma clamp_limbs : Poly1305Spec.clamp_mask = M0 + (M1 + M2 * 2 ^ 44) * 2 ^ 44.
Proof. reflexivity. Qed.

Lemma new_spec key : length key = 32%nat -> wf_bytes key ->
  let s := new key in
  rinv (st_r s) /\ val (st_r s) = Poly1305Spec.key_r key /\ st_h s = (0, 0, 0) /\ st_buffer s = [] /\
  0 <= fst (st_pad s) < 2 ^ 64 /\ 0 <= snd (st_pad s) < 2 ^ 64 /\
  fst (st_pad s) + 2 ^ 64 * snd (st_pad s) = Poly1305Spec.key_s key.
Proof.
  intros Hl Hw. unfold new. cbv zeta. cbn [st_r st_h st_buffer st_pad fst snd].
  unfold load_u64_le, slice. cbn [Nat.sub]. change (skipn 0 key) with key.
  rewrite !firstn_firstn. cbn [Nat.min].
  set (T0 := le_val (firstn 8 key)). set (T1 := le_val (firstn 8 (skipn 8 key))).
  set (S0 := le_val (firstn 8 (skipn 16 key))). set (S1 := le_val (firstn 8 (skipn 24 key))).
  assert (B : forall k, 0 <= le_val (firstn 8 (skipn k key)) < 2 ^ 64).
  { intros k. pose proof (le_val_bound (firstn 8 (skipn k key)) (wf_firstn _ _ (wf_skipn _ _ Hw))) as H. rewrite firstn_length in H.
    assert (256 ^ Z.of_nat (Nat.min 8 (length (skipn k key))) <= 2 ^ 64); [|lia].
    change 256 with (2 ^ 8). rewrite <- Z.pow_mul_r by lia. apply Z.pow_le_mono_r; lia. }
  assert (HT0 : 0 <= T0 < 2 ^ 64) by apply (B 0%nat). assert (HT1 : 0 <= T1 < 2 ^ 64) by apply (B 8%nat).
  assert (HS0 : 0 <= S0 < 2 ^ 64) by apply (B 16%nat). assert (HS1 : 0 <= S1 < 2 ^ 64) by apply (B 24%nat).
  assert (Hkr : le_val (firstn 16 key) = T0 + 2 ^ 64 * T1).
  { pose proof (block_value (firstn 16 key)) as H. unfold t0_of, t1_of in H.
    rewrite firstn_firstn in H. cbn [Nat.min] in H.
    replace (firstn 8 (skipn 8 (firstn 16 key))) with (firstn 8 (skipn 8 key)) in H.
    - apply H. rewrite firstn_length. lia.
    - rewrite <- (firstn_skipn 16 key) at 1. rewrite skipn_app, firstn_app.
      rewrite firstn_length, skipn_length, firstn_length. replace (8 - Nat.min 16 (length key))%nat with 0%nat by lia.
      replace (8 - (Nat.min 16 (length key) - 8))%nat with 0%nat by lia. cbn [skipn firstn]. now rewrite app_nil_r. }
  assert (Hks : le_val (firstn 16 (skipn 16 key)) = S0 + 2 ^ 64 * S1).
  { pose proof (block_value (firstn 16 (skipn 16 key))) as H. unfold t0_of, t1_of in H.
    rewrite firstn_firstn in H. cbn [Nat.min] in H.
    replace (firstn 8 (skipn 8 (firstn 16 (skipn 16 key)))) with (firstn 8 (skipn 24 key)) in H.
    - apply H. rewrite firstn_length, skipn_length. lia.
    - replace (firstn 16 (skipn 16 key)) with (skipn 16 key) by (symmetry; apply firstn_all2; rewrite skipn_length; lia).
      now rewrite skipn_skipn. }
  unfold Poly1305Spec.key_r, Poly1305Spec.key_s. rewrite Hkr, Hks. clear Hkr Hks B.
  rewrite !shr, shl64_spec by lia.
  rewrite (lor_add_low (T0 / 2 ^ 44) ((T1 * 2 ^ 20) mod 2 ^ 64) 20) by lia.
  (* limbs of T0 + 2^64 T1 *)
  set (x0 := T0 mod 2 ^ 44). set (x1 := T0 / 2 ^ 44 + (T1 mod 2 ^ 24) * 2 ^ 20). set (x2 := T1 / 2 ^ 24).
  assert (Hx : T0 + 2 ^ 64 * T1 = x0 + (x1 + x2 * 2 ^ 44) * 2 ^ 44) by (subst x0 x1 x2; lia).
  assert (Hx0 : 0 <= x0 < 2 ^ 44) by (subst x0; lia). assert (Hx1 : 0 <= x1 < 2 ^ 44) by (subst x1; lia).
  assert (Hx2 : 0 <= x2 < 2 ^ 40) by (subst x2; lia).
  change 0xffc0fffffff with M0. change 0xfffffc0ffff with M1. change 0x00ffffffc0f with M2.
  rewrite (land_low T0 M0 44) by (unfold M0; lia). fold x0.
  rewrite (land_low (T0 / 2 ^ 44 + (T1 * 2 ^ 20) mod 2 ^ 64) M1 44) by (unfold M1; lia).
  replace ((T0 / 2 ^ 44 + (T1 * 2 ^ 20) mod 2 ^ 64) mod 2 ^ 44) with x1 by (subst x1; lia).
  fold x2.
  pose proof (land_bound x0 M0 44 ltac:(lia) ltac:(unfold M0; lia)) as B0.
  pose proof (land_bound x1 M1 44 ltac:(lia) ltac:(unfold M1; lia)) as B1.
  pose proof (land_bound x2 M2 40 ltac:(lia) ltac:(unfold M2; lia)) as B2.
  repeat split; try lia.
  unfold val. rewrite Hx, clamp_limbs.
  rewrite (land_concat x0 (x1 + x2 * 2 ^ 44) M0 (M1 + M2 * 2 ^ 44) 44) by (unfold M0, M1, M2; lia).
  rewrite (land_concat x1 x2 M1 M2 44) by (unfold M1, M2; lia). lia.
Qed.

(* ------------------------------------------------------------------ buffering: the absorbed view *)

Lemma chunks_step (l : bytes) : l <> [] -> chunks 16 l = firstn 16 l :: chunks 16 (skipn 16 l).
Proof.
  intros Hl. unfold chunks. rewrite skipn_length.
  assert (0 < length l)%nat by (destruct l; [contradiction|cbn [length]; lia]).
  replace ((length l + 16 - 1) / 16)%nat with (S ((length l - 16 + 16 - 1) / 16)) by lia.
  reflexivity.
Qed.

Lemma chunks_app (n : nat) : forall x y, length x = (16 * n)%nat -> chunks 16 (x ++ y) = chunks 16 x ++ chunks 16 y.
Proof.
  induction n as [|n IH]; intros x y Hx.
  - destruct x; [reflexivity|discriminate].
  - assert (Hx0 : x <> []) by (intros ->; discriminate).
    rewrite (chunks_step (x ++ y)) by (destruct x; [contradiction|discriminate]).
    rewrite (chunks_step x Hx0).
    rewrite firstn_app, skipn_app. replace (16 - length x)%nat with 0%nat by lia.
    rewrite firstn_O, skipn_O, app_nil_r, <- app_comm_cons. f_equal.
    apply IH. rewrite skipn_length. lia.
Qed.

Lemma chunks_short (l : bytes) : l <> [] -> (length l <= 16)%nat -> chunks 16 l = [l].
Proof.
  intros H0 Hl. rewrite chunks_step by exact H0.
  rewrite firstn_all2 by exact Hl. rewrite skipn_all2 by exact Hl. reflexivity.
Qed.

Definition fb (bs : bytes) : nat := (length bs - length bs mod 16)%nat.
Definition hfold (r : Z * Z * Z) (bs : bytes) : Z * Z * Z :=
  fold_left (block_step HB r) (chunks 16 (firstn (fb bs) bs)) (0, 0, 0).
Definition absorbed (r : Z * Z * Z) (pad : Z * Z) (bs : bytes) : state :=
  mk_state r (hfold r bs) pad (skipn (fb bs) bs).

Lemma fb_le bs : (fb bs <= length bs)%nat. Proof. unfold fb. lia. Qed.
Lemma fb_mult bs : exists n, fb bs = (16 * n)%nat. Proof. exists (length bs / 16)%nat. unfold fb. lia. Qed.
Lemma rest_length bs : length (skipn (fb bs) bs) = (length bs mod 16)%nat.
Proof. rewrite skipn_length. unfold fb. lia. Qed.

Lemma blocks_state r h pad buf input :
  blocks (mk_state r h pad buf) input false = mk_state r (fold_left (block_step HB r) (chunks 16 input) h) pad buf.
Proof. reflexivity. Qed.

(* the state when the absorbed bytes end on a block boundary, extended by more input *)
Lemma process_rest_aligned r pad x input : (length x mod 16 = 0)%nat ->
  (let m := input in
   let full_blocks_end := (length m - length m mod 16)%nat in
   let s := blocks (mk_state r (hfold r x) pad []) (firstn full_blocks_end m) false in
   if (full_blocks_end <? length m)%nat
   then mk_state (st_r s) (st_h s) (st_pad s) (st_buffer s ++ skipn full_blocks_end m)
   else s) = absorbed r pad (x ++ input).
Proof.
  intros Hx. cbv zeta. unfold blocks. cbn [st_r st_h st_pad st_buffer app]. change (Z.shiftl 1 40) with HB.
  set (fe := (length input - length input mod 16)%nat).
  assert (Hfbx : fb x = length x) by (unfold fb; lia).
  assert (Hfb : fb (x ++ input) = (length x + fe)%nat) by (unfold fb, fe; rewrite app_length; lia).
  assert (Hh : hfold r (x ++ input) = fold_left (block_step HB r) (chunks 16 (firstn fe input)) (hfold r x)).
  { unfold hfold. rewrite Hfb, Hfbx, firstn_all.
    rewrite firstn_app. replace (length x + fe - length x)%nat with fe by lia.
    rewrite (firstn_all2 (n := length x + fe) x) by lia.
    destruct (fb_mult x) as [n Hn]. rewrite (chunks_app n) by lia. now rewrite fold_left_app. }
  assert (Hb : skipn (fb (x ++ input)) (x ++ input) = skipn fe input).
  { rewrite Hfb, skipn_app. rewrite (skipn_all2 (n := length x + fe) x) by lia.
    replace (length x + fe - length x)%nat with fe by lia. reflexivity. }
  unfold absorbed. rewrite Hh, Hb.
  destruct (Nat.ltb_spec fe (length input)); [reflexivity|].
  rewrite (skipn_all2 (n := fe) input) by lia. reflexivity.
Qed.

Theorem poly_update_absorbed r pad bs input : update (absorbed r pad bs) input = absorbed r pad (bs ++ input).
Proof.
  unfold update. cbv zeta.
  change (st_buffer (absorbed r pad bs)) with (skipn (fb bs) bs).
  pose proof (rest_length bs) as Hrest. set (buf := skipn (fb bs) bs) in *.
  destruct (Nat.eqb_spec (length buf) 0) as [Hb0|Hb0]; cbn [negb].
  - (* empty buffer: the absorbed bytes end on a block boundary *)
    assert (Hx : (length bs mod 16 = 0)%nat) by lia.
    pose proof (process_rest_aligned r pad bs input Hx) as H. cbv zeta in H. rewrite <- H.
    unfold absorbed. fold buf. destruct buf; [reflexivity|discriminate].
  - set (e := Nat.min (BLOCK_SIZE - length buf) (length input)).
    change BLOCK_SIZE with 16%nat in *.
    destruct (Nat.ltb_spec (length (buf ++ firstn e input)) 16) as [Hlt|Hge].
    + (* still short of a block *)
      rewrite app_length, firstn_length in Hlt.
      assert (He : e = length input) by (subst e; lia).
      rewrite He, firstn_all. unfold absorbed. cbn [st_r st_h st_pad].
      assert (Hfb : fb (bs ++ input) = fb bs) by (unfold fb; rewrite app_length; lia).
      unfold hfold. rewrite Hfb. rewrite firstn_app, skipn_app.
      replace (fb bs - length bs)%nat with 0%nat by (pose proof (fb_le bs); lia).
      rewrite firstn_O, skipn_O, app_nil_r. reflexivity.
    + (* the buffer fills up: one block, then the rest from a block boundary *)
      rewrite app_length, firstn_length in Hge.
      assert (He : e = (16 - length buf)%nat) by (subst e; lia).
      set (x := bs ++ firstn e input).
      assert (Hx : (length x mod 16 = 0)%nat) by (subst x; rewrite app_length, firstn_length; lia).
      pose proof (process_rest_aligned r pad x (skipn e input) Hx) as H. cbv zeta in H.
      assert (Hxi : x ++ skipn e input = bs ++ input) by (subst x; now rewrite <- app_assoc, firstn_skipn).
      rewrite Hxi in H. rewrite <- H. clear H.
      (* the intermediate state is the absorbed view of x *)
      assert (Hhx : fold_left (block_step HB r) (chunks 16 (buf ++ firstn e input)) (hfold r bs) = hfold r x).
      { unfold hfold at 2. assert (Hfbx : fb x = length x) by (unfold fb; lia). rewrite Hfbx, firstn_all.
        subst x. rewrite <- (firstn_skipn (fb bs) bs) at 2. fold buf. rewrite <- app_assoc.
        destruct (fb_mult bs) as [n Hn].
        rewrite (chunks_app n (firstn (fb bs) bs)) by (rewrite firstn_length; pose proof (fb_le bs); lia).
        now rewrite fold_left_app. }
      change (st_h (absorbed r pad bs)) with (hfold r bs). change (st_r (absorbed r pad bs)) with r.
      change (st_pad (absorbed r pad bs)) with pad.
      rewrite !blocks_state. cbn [st_r st_h st_pad st_buffer].
      rewrite Hhx. reflexivity.
Qed.

Lemma fold_left_cons' {A B} (f : A -> B -> A) x l a : fold_left f (x :: l) a = fold_left f l (f a x).
Proof. reflexivity. Qed.

(* C08 for Poly1305: any chunking of the message gives the same state *)
Theorem poly_update_chunks r pad (cs : list bytes) bs :
  fold_left update cs (absorbed r pad bs) = absorbed r pad (bs ++ concat cs).
Proof.
  revert bs; induction cs as [|c cs IH]; intros bs.
  - cbn [concat]. now rewrite app_nil_r.
  - rewrite fold_left_cons', poly_update_absorbed, IH. cbn [concat]. now rewrite app_assoc.
Qed.

(* ------------------------------------------------------------------ the MAC *)

Lemma le_bytes_add n x y : le_bytes n (x + 256 ^ Z.of_nat n * y) = le_bytes n x.
Proof.
  revert x; induction n as [|n IH]; intros x; [reflexivity|].
  cbn [le_bytes]. rewrite Nat2Z.inj_succ, Z.pow_succ_r by lia.
  replace (x + 256 * 256 ^ Z.of_nat n * y) with (x + (256 ^ Z.of_nat n * y) * 256) by ring.
  rewrite Z_mod_plus_full, Z.div_add by lia. now rewrite IH.
Qed.

Lemma le_bytes_app a b x : le_bytes (a + b) x = le_bytes a x ++ le_bytes b (x / 256 ^ Z.of_nat a).
Proof.
  revert x; induction a as [|a IH]; intros x.
  - cbn [Nat.add le_bytes app]. now rewrite Z.div_1_r.
  - cbn [Nat.add le_bytes app]. rewrite IH. f_equal. f_equal.
    rewrite Nat2Z.inj_succ, Z.pow_succ_r by lia. rewrite Z.div_div by lia. reflexivity.
Qed.

Lemma le_bytes_words w0 w1 : 0 <= w0 < 2 ^ 64 -> le_bytes 8 w0 ++ le_bytes 8 w1 = le_bytes 16 (w0 + 2 ^ 64 * w1).
Proof.
  intros H0. change 16%nat with (8 + 8)%nat. rewrite le_bytes_app.
  change (256 ^ Z.of_nat 8) with (2 ^ 64). f_equal.
  - change (2 ^ 64) with (256 ^ Z.of_nat 8). now rewrite le_bytes_add.
  - f_equal. rewrite Z.mul_comm, Z.div_add by lia. rewrite Z.div_small by lia. reflexivity.
Qed.

Lemma finish_spec h pad : hinv h -> 0 <= fst pad < 2 ^ 64 -> 0 <= snd pad < 2 ^ 64 ->
  finish h pad = le_bytes 16 ((val h mod P + (fst pad + 2 ^ 64 * snd pad)) mod 2 ^ 128).
Proof.
  intros Hh H0 H1. destruct pad as [t0 t1]. cbn [fst snd] in *. unfold finish.
  pose proof (finish_words_spec h t0 t1 Hh H0 H1) as H.
  destruct (finish_words h (t0, t1)) as [w0 w1]. destruct H as (Hw0 & Hw1 & Hv).
  rewrite <- Hv. now apply le_bytes_words.
Qed.

Lemma hinv0 : hinv (0, 0, 0).
Proof. unfold hinv. lia. Qed.

(* the bytes absorbed so far determine the accumulator of RFC 8439 over their whole blocks *)
Lemma hfold_acc r bs : rinv r -> wf_bytes bs ->
  hinv (hfold r bs) /\
  val (hfold r bs) mod P = fold_left (Poly1305Spec.acc_step (val r)) (chunks 16 (firstn (fb bs) bs)) 0.
Proof.
  intros Hr Hw. destruct (fb_mult bs) as [n Hn].
  destruct (blocks_acc r n (0, 0, 0) (firstn (fb bs) bs) Hr hinv0) as [Hi Hc];
    [rewrite firstn_length; pose proof (fb_le bs); lia|now apply wf_firstn|].
  split; [exact Hi|]. exact Hc.
Qed.

Theorem finalize_absorbed r pad bs : rinv r -> wf_bytes bs -> 0 <= fst pad < 2 ^ 64 -> 0 <= snd pad < 2 ^ 64 ->
  finalize (absorbed r pad bs) =
  le_bytes 16 ((fold_left (Poly1305Spec.acc_step (val r)) (chunks 16 bs) 0 + (fst pad + 2 ^ 64 * snd pad)) mod 2 ^ 128).
Proof.
  intros Hr Hw Hp0 Hp1. destruct (hfold_acc r bs Hr Hw) as [Hi Hc].
  pose proof (rest_length bs) as Hrest. destruct (fb_mult bs) as [n Hn].
  assert (Hsplit : chunks 16 bs = chunks 16 (firstn (fb bs) bs) ++ chunks 16 (skipn (fb bs) bs)).
  { rewrite <- (firstn_skipn (fb bs) bs) at 1. apply (chunks_app n). rewrite firstn_length. pose proof (fb_le bs). lia. }
  unfold finalize. change (st_buffer (absorbed r pad bs)) with (skipn (fb bs) bs).
  set (rest := skipn (fb bs) bs) in *.
  destruct (Nat.eqb_spec (length rest) 0) as [E0|E0]; cbn [negb].
  - (* no partial block *)
    assert (rest = []) as Hnil by (destruct rest; [reflexivity|discriminate]).
    rewrite Hnil, chunks_nil, app_nil_r in Hsplit. rewrite Hsplit, <- Hc.
    change (st_h (absorbed r pad bs)) with (hfold r bs). change (st_pad (absorbed r pad bs)) with pad.
    now apply finish_spec.
  - (* one partial block: rest || 01 || 00.. with the high bit off *)
    assert (Hlen : (length rest < 16)%nat) by lia.
    assert (Hwr : wf_bytes rest) by (subst rest; now apply wf_skipn).
    pose proof (last_block_acc r (hfold r bs) rest Hr Hi Hlen Hwr) as HL. cbv zeta in HL.
    set (m := (rest ++ [1]) ++ zeros (16 - length (rest ++ [1]))) in *.
    set (b1 := rest ++ [1]) in *.
    assert (Hm : (if negb (length b1 mod BLOCK_SIZE =? 0)%nat
                  then b1 ++ zeros (BLOCK_SIZE - length b1 mod BLOCK_SIZE) else b1) = m).
    { change BLOCK_SIZE with 16%nat. subst m b1. rewrite app_length. cbn [length].
      destruct (Nat.eqb_spec ((length rest + 1) mod 16) 0) as [Em|Em]; cbn [negb].
      - replace (16 - (length rest + 1))%nat with 0%nat by lia. cbn [zeros repeat]. now rewrite app_nil_r.
      - replace ((length rest + 1) mod 16)%nat with (length rest + 1)%nat by lia. reflexivity. }
    rewrite Hm. clear Hm.
    assert (Hml : length m = 16%nat) by (subst m b1; rewrite !app_length, zeros_length; cbn [length]; lia).
    unfold blocks. cbn [st_r st_h st_pad st_buffer].
    change (st_h (absorbed r pad bs)) with (hfold r bs). change (st_r (absorbed r pad bs)) with r.
    change (st_pad (absorbed r pad bs)) with pad.
    change BLOCK_SIZE with 16%nat. rewrite (chunks_short m) by (try lia; intros E; rewrite E in Hml; discriminate). cbn [fold_left].
    destruct HL as [HLi HLc].
    rewrite finish_spec by assumption. rewrite HLc, Hc.
    rewrite Hsplit, fold_left_app, (chunks_short rest) by (try lia; intros ->; apply E0; reflexivity).
    reflexivity.
Qed.

(* crypto_onetimeauth / the MAC inside secretbox and secretstream = RFC 8439 Poly1305, for every key and message *)
Theorem mac_is_rfc key msg : length key = 32%nat -> wf_bytes key -> wf_bytes msg ->
  mac key msg = Poly1305Spec.poly1305 key msg.
Proof.
  intros Hl Hk Hm. destruct (new_spec key Hl Hk) as (Hr & Hv & Hh & Hb & Hp0 & Hp1 & Hs).
  unfold mac.
  assert (Hnew : new key = absorbed (st_r (new key)) (st_pad (new key)) []).
  { unfold absorbed, hfold. change (fb []) with 0%nat. cbn [firstn skipn]. rewrite chunks_nil. cbn [fold_left].
    rewrite <- Hh, <- Hb. destruct (new key); reflexivity. }
  rewrite Hnew, poly_update_absorbed. cbn [app].
  rewrite finalize_absorbed by assumption.
  unfold Poly1305Spec.poly1305. rewrite Hv, Hs. reflexivity.
Qed.

(* incremental use with any chunking = the one-shot MAC *)
Theorem mac_chunks key (cs : list bytes) : length key = 32%nat -> wf_bytes key -> wf_bytes (concat cs) ->
  finalize (fold_left update cs (new key)) = Poly1305Spec.poly1305 key (concat cs).
Proof.
  intros Hl Hk Hm. rewrite <- (mac_is_rfc key (concat cs) Hl Hk Hm). unfold mac.
  destruct (new_spec key Hl Hk) as (_ & _ & Hh & Hb & _).
  assert (Hnew : new key = absorbed (st_r (new key)) (st_pad (new key)) []).
  { unfold absorbed, hfold. change (fb []) with 0%nat. cbn [firstn skipn]. rewrite chunks_nil. cbn [fold_left].
    rewrite <- Hh, <- Hb. destruct (new key); reflexivity. }
  rewrite Hnew, poly_update_chunks, poly_update_absorbed. reflexivity.
Qed.
