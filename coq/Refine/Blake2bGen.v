(* The closures of blake2b_soft.rs::compress as read from the source on this run (Gen/Kernels.v:
   the eight statements of g, the eight g calls of round, the twelve round calls) are the ones the
   model runs (and Refine/Blake2b.v proves that model equal to RFC 7693's F). *)
From Dryoc Require Import Impl.Blake2b Gen.Kernels.
Import Blake2bImpl.
Open Scope Z_scope.

Definition bstep (tm : list Z) (r i : nat) (pos : list nat) (tv : list Z) (s : nat * nat * nat * Z) : list Z :=
  let '(kind, x, y, p) := s in
  let X := nth x pos O in let Y := nth y pos O in
  match kind with
  | O => upd tv X (add64 (nthz tv X) (add64 (nthz tv Y) (nthz tm (sig r (2 * i + Z.to_nat p)))))
  | S O => upd tv X (rotr64 (Z.lxor (nthz tv X) (nthz tv Y)) p)
  | _ => upd tv X (add64 (nthz tv X) (nthz tv Y))
  end.

Definition g_gen (tm tv : list Z) (r i a b c d : nat) : list Z :=
  fold_left (bstep tm r i [a; b; c; d]) blake2b_g_ops tv.

Lemma g_gen_is_g tm tv r i a b c d : g_gen tm tv r i a b c d = g tm tv r i a b c d.
Proof.
  unfold g_gen, g, blake2b_g_ops. cbn [fold_left bstep nth Z.to_nat Pos.to_nat Pos.iter_op Nat.add].
  rewrite !Nat.add_0_r. reflexivity.
Qed.

Lemma fold_cons {A B} (f : A -> B -> A) x l a : fold_left f (x :: l) a = fold_left f l (f a x).
Proof. reflexivity. Qed.
Lemma fold_nil {A B} (f : A -> B -> A) a : fold_left f [] a = a.
Proof. reflexivity. Qed.

Definition round_gen (tm tv : list Z) (r : nat) : list Z :=
  fold_left (fun tv (c : nat * nat * nat * nat * nat) => let '(i, a, b, cc, d) := c in g_gen tm tv r i a b cc d)
            blake2b_round_calls tv.

Lemma fold_calls_ext tm r (calls : list (nat * nat * nat * nat * nat)) : forall tv,
  fold_left (fun tv (c : nat * nat * nat * nat * nat) => let '(i, a, b, cc, d) := c in g_gen tm tv r i a b cc d) calls tv =
  fold_left (fun tv (c : nat * nat * nat * nat * nat) => let '(i, a, b, cc, d) := c in g tm tv r i a b cc d) calls tv.
Proof.
  induction calls as [|[[[[i a] b] cc] d] calls IH]; intros tv; [reflexivity|].
  rewrite !fold_cons. rewrite IH. f_equal. apply g_gen_is_g.
Qed.

Local Opaque g.
Lemma round_gen_is_round tm tv r : round_gen tm tv r = round tm tv r.
Proof.
  unfold round_gen. rewrite fold_calls_ext. unfold blake2b_round_calls. rewrite !fold_cons, fold_nil.
  unfold round. cbv beta iota zeta. reflexivity.
Qed.
Local Transparent g.

Local Opaque round round_gen.
Lemma rounds_tie : blake2b_rounds = seq 0 12.
Proof. reflexivity. Qed.

Lemma fold_rounds_ext tm (l : list nat) : forall tv, fold_left (round_gen tm) l tv = fold_left (round tm) l tv.
Proof.
  induction l as [|x l IH]; intros tv; [rewrite !fold_nil; reflexivity|].
  rewrite !fold_cons, IH, round_gen_is_round. reflexivity.
Qed.

(* compress with the translated closures = the model's compress *)
Theorem compress_gen sh st sf block :
  (let tm := map (fun i => le_val (slice block (i * 8) (i * 8 + 8))) (seq 0 16) in
   let tv := sh ++ firstn 4 IV ++
             [Z.lxor (fst st) (nthz IV 4); Z.lxor (snd st) (nthz IV 5); Z.lxor (fst sf) (nthz IV 6); Z.lxor (snd sf) (nthz IV 7)] in
   let tv := fold_left (round_gen tm) blake2b_rounds tv in
   map (fun i => Z.lxor (Z.lxor (nthz sh i) (nthz tv i)) (nthz tv (i + 8))) (seq 0 8)) = compress sh st sf block.
Proof.
  unfold compress. cbv zeta. rewrite rounds_tie.
  rewrite fold_rounds_ext. reflexivity.
Qed.
