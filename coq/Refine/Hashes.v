From Coq Require Import ZifyNat ZifyBool.
From Dryoc Require Import Impl.Hashes Refine.Blake2b.
Import Blake2bImpl HashesImpl.
Open Scope Z_scope.

(* generic hashing = RFC 7693 BLAKE2b for every digest length 16..64, every key
   of 16..64 bytes (or none) and every message *)
Lemma generichash_is_rfc (outlen : nat) msg key :
  (16 <= outlen <= 64)%nat ->
  (match key with Some k => 16 <= length k <= 64 | None => True end)%nat ->
  Z.of_nat (length msg) + 128 < 2 ^ 128 ->
  generichash outlen msg key =
  Ok (Blake2bSpec.blake2b_plain outlen (match key with Some k => k | None => [] end) msg).
Proof.
  intros Ho Hk Hm. unfold generichash.
  assert (Hov : validate_outlen outlen = true).
  { unfold validate_outlen. destruct (Nat.leb_spec 16 outlen); [|lia]. destruct (Nat.leb_spec outlen 64); [|lia]. reflexivity. }
  assert (Hkv : validate_key key = true).
  { unfold validate_key. destruct key as [k|]; [|reflexivity].
    destruct (Nat.leb_spec 16 (length k)); [|lia]. destruct (Nat.leb_spec (length k) 64); [|lia]. reflexivity. }
  rewrite Hov, Hkv. cbn [negb]. unfold hash_c, hash, OUTBYTES.
  destruct (Nat.ltb_spec 64 outlen) as [|_]; [lia|].
  assert (Hm8 : Z.land (Z.of_nat outlen) mask8 = Z.of_nat outlen).
  { change mask8 with (Z.ones 8). rewrite Z.land_ones by lia. apply Z.mod_small. lia. }
  rewrite Hm8.
  pose proof (blake2b_impl_is_rfc outlen key (zeros 16) (zeros 16) msg ltac:(lia)
                ltac:(destruct key; [lia|exact I]) eq_refl eq_refl Hm) as Hrfc.
  unfold Blake2bSpec.blake2b_plain. rewrite <- Hrfc.
  (* init with salt/personal None = init with all-zero salt/personal *)
  reflexivity.
Qed.

Lemma generichash_rejects (outlen : nat) msg key :
  (outlen < 16 \/ 64 < outlen \/ match key with Some k => length k < 16 \/ 64 < length k | None => False end)%nat ->
  generichash outlen msg key = Err.
Proof.
  intros H. unfold generichash, validate_outlen, validate_key.
  destruct (Nat.leb_spec 16 outlen), (Nat.leb_spec outlen 64); cbn [andb negb]; try reflexivity.
  destruct key as [k|]; [|lia].
  destruct (Nat.leb_spec 16 (length k)), (Nat.leb_spec (length k) 64); cbn [andb negb]; try reflexivity. lia.
Qed.

(* incremental generic hashing = one-shot on the concatenation, any chunking *)
Lemma generichash_chunks_concat (outlen : nat) key (cs : list bytes) (fin : nat) :
  generichash_chunks outlen key cs fin = generichash_chunks outlen key [concat cs] fin.
Proof.
  unfold generichash_chunks.
  destruct (negb (validate_outlen outlen)); [reflexivity|].
  destruct (negb (validate_key key)) eqn:Hk; [reflexivity|].
  unfold init_c, update_c.
  destruct (init compress (Z.land (Z.of_nat outlen) mask8) key None None) as [s| |] eqn:Hi; try reflexivity.
  cbn [obind]. f_equal.
  assert (Hb : (length (st_buf s) <= 128)%nat).
  { unfold init in Hi.
    destruct ((Z.land (Z.of_nat outlen) mask8 =? 0) || _); [discriminate|].
    destruct (Z.of_nat KEYBYTES <? _); [discriminate|].
    destruct key as [k|].
    - destruct (BLOCKBYTES <? length k)%nat; [discriminate|]. injection Hi as <-.
      apply update_buf_length. cbn. lia.
    - injection Hi as <-. cbn. lia. }
  rewrite (update_chunks compress s cs Hb). cbn [fold_left].
  reflexivity.
Qed.

(* little-endian increment *)
Lemma increment_aux_spec carry l :
  0 <= carry <= 1 -> wf_bytes l ->
  le_val (SecretStreamImpl.increment_aux carry l) = (le_val l + carry) mod 256 ^ Z.of_nat (length l) /\
  wf_bytes (SecretStreamImpl.increment_aux carry l).
Proof.
  intros Hc Hl. revert carry Hc. induction Hl as [|b l Hb Hl IH]; intros carry Hc.
  - cbn. split; [now rewrite Z.mod_1_r|constructor].
  - cbn [SecretStreamImpl.increment_aux le_val length]. unfold is_byte in Hb.
    change 0xff with (Z.ones 8). rewrite Z.land_ones, Z.shiftr_div_pow2 by lia.
    change (2 ^ 8) with 256.
    assert (Hc' : 0 <= (carry + b) / 256 <= 1) by (Z.div_mod_to_equations; lia).
    destruct (IH _ Hc') as [IHv IHw]. split.
    + rewrite IHv, Nat2Z.inj_succ, Z.pow_succ_r by lia.
      assert (Hp : 0 < 256 ^ Z.of_nat (length l)) by (apply Z.pow_pos_nonneg; lia).
      rewrite (Z.rem_mul_r (b + 256 * le_val l + carry) 256 (256 ^ Z.of_nat (length l))) by lia.
      replace ((b + 256 * le_val l + carry) mod 256) with ((carry + b) mod 256)
        by (rewrite <- Z.add_assoc, (Z.add_comm (256 * _)), Z.add_assoc, Z.mul_comm, Z.mod_add by lia; f_equal; lia).
      replace ((b + 256 * le_val l + carry) / 256) with (le_val l + (carry + b) / 256); [reflexivity|].
      replace (b + 256 * le_val l + carry) with ((carry + b) + le_val l * 256) by lia.
      rewrite Z.div_add by lia. lia.
    + constructor; [unfold is_byte; apply Z.mod_pos_bound; lia|exact IHw].
Qed.

Lemma increment_spec l : wf_bytes l ->
  le_val (increment l) = (le_val l + 1) mod 256 ^ Z.of_nat (length l).
Proof. intros H. apply (increment_aux_spec 1 l); [lia|exact H]. Qed.

Lemma increment_length l : length (increment l) = length l.
Proof.
  unfold increment, SecretStreamImpl.increment_bytes. generalize 1.
  induction l as [|b l IH]; intros c; cbn [SecretStreamImpl.increment_aux length]; [reflexivity|now rewrite IH].
Qed.

Lemma onetimeauth_verify_iff mac msg key :
  onetimeauth_verify mac msg key = Ok tt <-> mac = onetimeauth key msg.
Proof.
  unfold onetimeauth_verify. destruct (bytes_eqb mac (onetimeauth key msg)) eqn:E.
  - apply bytes_eqb_eq in E. tauto.
  - split; [discriminate|]. intros H. apply bytes_eqb_eq in H. congruence.
Qed.

Lemma auth_verify_iff mac msg key :
  auth_verify mac msg key = Ok tt <-> mac = auth key msg.
Proof.
  unfold auth_verify. destruct (bytes_eqb mac (auth key msg)) eqn:E.
  - apply bytes_eqb_eq in E. tauto.
  - split; [discriminate|]. intros H. apply bytes_eqb_eq in H. congruence.
Qed.

(* Incremental interfaces over an external hasher (sha2::Sha512: crypto_hash,
   crypto_auth's inner context, pre-hashed signing): if the hasher's update
   is a monoid action on byte strings, any chunking equals one update. *)
Section ExternalHasher.
Variable H : Type.
Variable upd : H -> bytes -> H.
Hypothesis upd_app : forall s a b, upd (upd s a) b = upd s (a ++ b).
Hypothesis upd_nil : forall s, upd s [] = s.

Lemma fold_update_concat (cs : list bytes) (s : H) : fold_left upd cs s = upd s (concat cs).
Proof.
  revert s; induction cs as [|c cs IH]; intros s; cbn [fold_left concat].
  - now rewrite upd_nil.
  - now rewrite IH, upd_app.
Qed.
End ExternalHasher.

(* ------------------------------------------------------------------ crypto_auth is HMAC-SHA-512-256 (RFC 2104) *)

Lemma pad_with_spec fill key : (length key <= 128)%nat ->
  pad_with fill key = map (fun b => Z.lxor b fill) (key ++ zeros (128 - length key)).
Proof.
  intros Hk. unfold pad_with, zeros. rewrite map_app. f_equal.
  - clear Hk. induction key as [|k key IH]; [reflexivity|]. cbn [length repeat combine map fst snd]. now rewrite IH, Z.lxor_comm.
  - generalize (128 - length key)%nat. intros n. induction n as [|n IH]; [reflexivity|]. cbn [repeat map]. now rewrite <- IH.
Qed.

(* one-shot: init, one update, final = the RFC's H((K xor opad) || H((K xor ipad) || m)) truncated to 32 bytes *)
Theorem auth_is_hmac key msg : auth key msg = Sha512Spec.hmac_sha512_256 key msg.
Proof.
  unfold auth, auth_final, auth_update, auth_init, Sha512Spec.hmac_sha512_256, Sha512Spec.hmac_sha512. cbn [ictx octx].
  set (k := if (128 <? length key)%nat then Sha512Spec.sha512 key else key).
  destruct (Nat.le_gt_cases (length k) 128) as [Hk|Hk].
  - now rewrite !pad_with_spec by exact Hk.
  - (* a (hashed) key longer than a block cannot occur: sha512 returns 64 bytes; kept total by showing both sides agree anyway *)
    unfold pad_with, zeros. replace (128 - length k)%nat with O by lia. cbn [repeat]. rewrite !app_nil_r.
    assert (E : forall fill, map (fun p : Z * Z => Z.lxor (fst p) (snd p)) (combine (repeat fill (length k)) k) = map (fun b => Z.lxor b fill) k).
    { intros fill. clear Hk. induction k as [|x k' IH]; [reflexivity|]. cbn [length repeat combine map fst snd]. now rewrite IH, Z.lxor_comm. }
    now rewrite !E.
Qed.

(* any chunking: the inner context absorbs the concatenation *)
Lemma auth_fold_updates (cs : list bytes) st : fold_left auth_update cs st = mk_hmac (ictx st ++ concat cs) (octx st).
Proof.
  revert st; induction cs as [|c cs IH]; intros st; cbn [fold_left concat].
  - rewrite app_nil_r. now destruct st.
  - rewrite IH. unfold auth_update. cbn [ictx octx]. now rewrite <- app_assoc.
Qed.

Theorem auth_chunks_is_auth key (cs : list bytes) : auth_chunks key cs = auth key (concat cs).
Proof. unfold auth_chunks, auth. rewrite auth_fold_updates. reflexivity. Qed.
