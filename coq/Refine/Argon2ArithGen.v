(* index_alpha and fblamka as translated from src/argon2.rs on this run (Gen/Argon2Arith.v) are the
   functions the model runs (Impl/Argon2.v), for all arguments. *)
From Dryoc Require Import Impl.Argon2 Gen.Argon2Arith.
Import Argon2Impl.
Open Scope Z_scope.

Lemma w32_mod x : w32 x = x mod 2 ^ 32.
Proof. unfold w32. change mask32 with (Z.ones 32). now rewrite Z.land_ones by lia. Qed.

Lemma mul32_add32_l a b c : mul32 (add32 a b) c = mul32 (a + b) c.
Proof. unfold mul32, add32. rewrite !w32_mod. now rewrite Z.mul_mod_idemp_l by lia. Qed.

Theorem gen_index_alpha_is_model seg lane_len pass slice index pseudo_rand same_lane :
  gen_index_alpha seg lane_len pass slice index pseudo_rand same_lane =
  index_alpha seg lane_len pass slice index pseudo_rand same_lane.
Proof.
  unfold gen_index_alpha, index_alpha, reference_area_size. cbv zeta.
  change (sub32 4 1) with 3. change (SYNC_POINTS - 1) with 3.
  rewrite mul32_add32_l. reflexivity.
Qed.

Lemma land32_range x : 0 <= Z.land x 4294967295 < 2 ^ 32.
Proof. change 4294967295 with (Z.ones 32). rewrite Z.land_ones by lia. apply Z.mod_pos_bound. lia. Qed.

Lemma mul64_small a b : 0 <= a * b < 2 ^ 64 -> mul64 a b = a * b.
Proof. intros H. unfold mul64, w64. change mask64 with (Z.ones 64). rewrite Z.land_ones by lia. now apply Z.mod_small. Qed.

Theorem gen_fblamka_is_model x y : gen_fblamka x y = fblamka x y.
Proof.
  unfold gen_fblamka, fblamka. cbv zeta. change mask32 with 4294967295.
  pose proof (land32_range x) as Hx. pose proof (land32_range y) as Hy.
  set (a := Z.land x 4294967295) in *. set (b := Z.land y 4294967295) in *.
  rewrite (mul64_small a b); [reflexivity|].
  change (2 ^ 32) with 4294967296 in *. change (2 ^ 64) with 18446744073709551616. nia.
Qed.
