From Coq Require Import ZifyNat ZifyBool.
From Dryoc Require Import Spec.Argon2 Impl.Argon2 Refine.Blake2b.
Import Blake2bImpl Argon2Impl.
Open Scope Z_scope.
Ltac Zify.zify_post_hook ::= Z.div_mod_to_equations.

(* ------------------------------------------------------------------ index arithmetic *)

Lemma w32_small x : 0 <= x < 2 ^ 32 -> w32 x = x.
Proof. intros H. rewrite w32_mod. apply Z.mod_small. exact H. Qed.
Lemma w64_small x : 0 <= x < 2 ^ 64 -> w64 x = x.
Proof. intros H. rewrite w64_mod. apply Z.mod_small. exact H. Qed.

Ltac w32s := repeat match goal with |- context [w32 ?x] => rewrite (w32_small x) by lia end.

Definition position_ok (seg pass slice index : Z) (same_lane : bool) : Prop :=
  2 <= seg /\ 7 * seg <= 2 ^ 32 /\ 0 <= pass /\ 0 <= slice <= 3 /\ 0 <= index < seg /\
  (pass = 0 -> slice = 0 -> 2 <= index /\ same_lane = true).

(* the u32 computation of the reference area size never wraps, equals RFC 9106's |W|, and is >= 1 *)
Lemma reference_area_size_spec seg pass slice index same_lane :
  position_ok seg pass slice index same_lane ->
  reference_area_size seg (4 * seg) pass slice index same_lane = Argon2Spec.area seg pass slice index same_lane /\
  1 <= Argon2Spec.area seg pass slice index same_lane <= 4 * seg - 2.
Proof.
  intros (Hseg & Hmax & Hpass & Hslice & Hindex & Hfirst).
  unfold reference_area_size, Argon2Spec.area, sub32, add32, mul32.
  assert (Hs : slice = 0 \/ slice = 1 \/ slice = 2 \/ slice = 3) by lia.
  destruct (Z.eqb_spec pass 0) as [Hp|Hp].
  - destruct Hs as [-> | [-> | [-> | ->]]]; cbn [Z.eqb].
    + destruct (Hfirst Hp eq_refl) as [Hi ->]. w32s. lia.
    + destruct same_lane; [|destruct (Z.eqb_spec index 0)]; w32s; lia.
    + destruct same_lane; [|destruct (Z.eqb_spec index 0)]; w32s; lia.
    + destruct same_lane; [|destruct (Z.eqb_spec index 0)]; w32s; lia.
  - destruct same_lane; [|destruct (Z.eqb_spec index 0)]; w32s; lia.
Qed.

Lemma shiftr32 x : Z.shiftr x 32 = x / 2 ^ 32.
Proof. apply Z.shiftr_div_pow2. lia. Qed.

Lemma mul_div_lt W x : 0 <= W -> 0 <= x < 2 ^ 32 -> 0 <= W * x / 2 ^ 32 /\ (1 <= W -> W * x / 2 ^ 32 <= W - 1).
Proof.
  intros HW Hx. split.
  - apply Z.div_pos; nia.
  - intros H1. assert (W * x / 2 ^ 32 < W); [|lia]. apply Z.div_lt_upper_bound; nia.
Qed.

(* index_alpha (u32 / u64, wrapping) = the RFC's mapping (unbounded integers) at every position the
   filling loop visits, for every 32-bit J1, when the lane has at most 2^32 / 7 * 4 blocks *)
Theorem index_alpha_spec seg pass slice index J1 same_lane :
  position_ok seg pass slice index same_lane -> 0 <= J1 < 2 ^ 32 ->
  index_alpha seg (4 * seg) pass slice index J1 same_lane = Argon2Spec.ref_pos seg pass slice index J1 same_lane.
Proof.
  intros Hpos HJ. pose proof Hpos as (Hseg & Hmax & Hpass & Hslice & Hindex & Hfirst).
  destruct (reference_area_size_spec _ _ _ _ _ Hpos) as [Hras HW].
  unfold index_alpha, Argon2Spec.ref_pos. rewrite Hras.
  set (W := Argon2Spec.area seg pass slice index same_lane) in *.
  unfold mul64, sub32, add32, mul32.
  assert (HJJ : 0 <= J1 * J1 < 2 ^ 64) by nia.
  rewrite (w64_small (J1 * J1)) by exact HJJ. rewrite !shiftr32.
  assert (Hx : 0 <= J1 * J1 / 2 ^ 32 < 2 ^ 32).
  { split; [apply Z.div_pos; lia|]. apply Z.div_lt_upper_bound; [lia|]. nia. }
  rewrite (w32_small (J1 * J1 / 2 ^ 32)) by exact Hx.
  set (x := J1 * J1 / 2 ^ 32) in *.
  assert (HWx : 0 <= W * x < 2 ^ 64) by nia.
  rewrite (w64_small (W * x)) by exact HWx.
  destruct (mul_div_lt W x ltac:(lia) Hx) as [Hy0 Hy1]. specialize (Hy1 ltac:(lia)).
  set (y := W * x / 2 ^ 32) in *.
  rewrite (w32_small y) by lia. rewrite (w32_small (W - 1)) by lia. rewrite (w32_small (W - 1 - y)) by lia.
  assert (Hstart : (if negb (pass =? 0) then if slice =? SYNC_POINTS - 1 then 0 else w32 ((slice + 1) * seg) else 0)
                   = (if (pass =? 0) || (slice =? 3) then 0 else (slice + 1) * seg)).
  { change (SYNC_POINTS - 1) with 3. destruct (pass =? 0); cbn [negb orb]; [reflexivity|].
    destruct (Z.eqb_spec slice 3); [reflexivity|]. apply w32_small. nia. }
  rewrite Hstart.
  assert (Hst : 0 <= (if (pass =? 0) || (slice =? 3) then 0 else (slice + 1) * seg) <= 3 * seg).
  { destruct ((pass =? 0) || (slice =? 3)) eqn:E; [lia|]. apply Bool.orb_false_iff in E as [_ E]. apply Z.eqb_neq in E. nia. }
  rewrite w32_small by lia. reflexivity.
Qed.

Lemma mod_two n a : 0 < n -> 0 <= a < 2 * n -> a mod n = if a <? n then a else a - n.
Proof.
  intros Hn Ha. destruct (Z.ltb_spec a n).
  - apply Z.mod_small. lia.
  - symmetry. apply (Z.mod_unique a n 1 (a - n)); lia.
Qed.

(* what the mapping guarantees about the block that is read *)
Theorem ref_pos_safe seg pass slice index J1 same_lane :
  position_ok seg pass slice index same_lane -> 0 <= J1 < 2 ^ 32 ->
  let r := Argon2Spec.ref_pos seg pass slice index J1 same_lane in
  let cur := slice * seg + index in
  0 <= r < 4 * seg /\
  (* first pass: only blocks already written in this pass -- of this lane strictly before the
     previous block, of another lane in an earlier slice *)
  (pass = 0 -> if same_lane then r <= cur - 2 else r < slice * seg) /\
  (* later passes: never the block being written, and in the same lane never the previous block;
     in another lane never a block of the current segment *)
  (pass <> 0 -> if same_lane then r <> cur /\ r <> (cur + 4 * seg - 1) mod (4 * seg)
                else ~ (slice * seg <= r < (slice + 1) * seg)).
Proof.
  intros Hpos HJ. pose proof Hpos as (Hseg & Hmax & Hpass & Hslice & Hindex & Hfirst).
  destruct (reference_area_size_spec _ _ _ _ _ Hpos) as [_ HW].
  cbv zeta. unfold Argon2Spec.ref_pos.
  assert (Hx : 0 <= J1 * J1 / 2 ^ 32 < 2 ^ 32).
  { split; [apply Z.div_pos; lia|]. apply Z.div_lt_upper_bound; [lia|]. nia. }
  set (W := Argon2Spec.area seg pass slice index same_lane) in *.
  destruct (mul_div_lt W (J1 * J1 / 2 ^ 32) ltac:(lia) Hx) as [Hy0 Hy1]. specialize (Hy1 ltac:(lia)).
  set (y := W * (J1 * J1 / 2 ^ 32) / 2 ^ 32) in *.
  assert (HWdef : W = (if pass =? 0 then slice * seg else 3 * seg) +
                      (if same_lane then index - 1 else if index =? 0 then -1 else 0)) by reflexivity.
  clearbody W y.
  assert (Hs : slice = 0 \/ slice = 1 \/ slice = 2 \/ slice = 3) by lia.
  split; [apply Z.mod_pos_bound; lia|].
  destruct (Z.eqb_spec pass 0) as [Hp|Hp]; cbn [orb] in *.
  - split; [intros _|intros C; contradiction].
    rewrite Z.add_0_l. rewrite Z.mod_small by (destruct same_lane; destruct (index =? 0); nia).
    destruct same_lane.
    + nia.
    + destruct (Z.eqb_spec index 0); nia.
  - split; [intros C; contradiction|intros _].
    assert (HW' : W = 3 * seg + (if same_lane then index - 1 else if index =? 0 then -1 else 0)).
    { rewrite HWdef. destruct (Z.eqb_spec pass 0); [contradiction|reflexivity]. }
    clear HWdef.
    destruct Hs as [-> | [-> | [-> | ->]]]; cbn [Z.eqb Pos.eqb Z.add Pos.add Pos.succ] in *;
      (rewrite (mod_two (4 * seg)) by (destruct same_lane; try destruct (Z.eqb_spec index 0); lia));
      destruct same_lane; try (rewrite (mod_two (4 * seg) (_ + 4 * seg - 1)) by lia);
      try (destruct (Z.eqb_spec index 0));
      repeat match goal with |- context [?a <? ?b] => destruct (Z.ltb_spec a b) end; lia.
Qed.

(* beyond 2^32 / 7 blocks per segment (more than 2.29 TiB of memory, which cannot be allocated)
   the u32 sum start_position + relative_position wraps, as it does in the reference C code *)
Remark index_alpha_wraps_beyond_bound :
  index_alpha (2 ^ 30 - 1) (4 * (2 ^ 30 - 1)) 1 2 (2 ^ 30 - 2) 0 true
  <> Argon2Spec.ref_pos (2 ^ 30 - 1) 1 2 (2 ^ 30 - 2) 0 true.
Proof. vm_compute. discriminate. Qed.

(* ------------------------------------------------------------------ memory normalisation *)

Theorem norm_memory_one_lane m : 8 <= m < 2 ^ 32 ->
  norm_memory m 1 = (4 * (m / 4), m / 4) /\ 2 <= m / 4 /\ 4 * (m / 4) <= m < 4 * (m / 4) + 4.
Proof.
  intros Hm. unfold norm_memory, mul32, SYNC_POINTS.
  change (w32 (w32 (2 * 4) * 1)) with 8. change (w32 (1 * 4)) with 4.
  destruct (Z.ltb_spec m 8); [lia|].
  rewrite w32_small by lia. split; [f_equal; lia|lia].
Qed.

(* ------------------------------------------------------------------ BLAKE2b pieces *)

Lemma land_mask8_small n : (n <= 64)%nat -> Z.land (Z.of_nat n) mask8 = Z.of_nat n.
Proof. intros H. change mask8 with (Z.ones 8). rewrite Z.land_ones by lia. apply Z.mod_small. lia. Qed.

(* one-shot BLAKE2b without key = RFC 7693, every digest length 1..64 *)
Lemma hash_c_is_H (n : nat) x : (1 <= n <= 64)%nat -> Z.of_nat (length x) + 128 < 2 ^ 128 ->
  hash_c n x None = Ok (Argon2Spec.H n x).
Proof.
  intros Hn Hx. unfold hash_c, hash, OUTBYTES.
  destruct (Nat.ltb_spec 64 n) as [|_]; [lia|].
  rewrite land_mask8_small by lia.
  pose proof (blake2b_impl_is_rfc n None (zeros 16) (zeros 16) x ltac:(lia) I eq_refl eq_refl Hx) as Hrfc.
  unfold Argon2Spec.H, Blake2bSpec.blake2b_plain. rewrite <- Hrfc. reflexivity.
Qed.

Lemma absorb_length fuel h t d : length h = 8%nat -> length (Blake2bSpec.absorb fuel h t d) = 8%nat.
Proof.
  revert h t d; induction fuel as [|fuel IH]; intros h t d Hh; cbn [Blake2bSpec.absorb]; [exact Hh|].
  destruct (length d <=? 128)%nat; [apply F_length|]. apply IH. apply F_length.
Qed.

Lemma flat_map_le_bytes_length (h : list Z) : length (flat_map (le_bytes 8) h) = (8 * length h)%nat.
Proof. induction h as [|x h IH]; [reflexivity|]. cbn [flat_map]. rewrite app_length, le_bytes_length, IH. cbn [length]. lia. Qed.

Lemma H_length n x : (n <= 64)%nat -> length (Argon2Spec.H n x) = n.
Proof.
  intros Hn. unfold Argon2Spec.H, Blake2bSpec.blake2b_plain, Blake2bSpec.blake2b, Blake2bSpec.digest_bytes.
  rewrite firstn_length, flat_map_le_bytes_length, absorb_length; [lia|]. reflexivity.
Qed.

Lemma init_none_buf n s : init_c n None None None = Ok s -> st_buf s = [].
Proof.
  unfold init_c, init. destruct ((n =? 0) || (Z.of_nat OUTBYTES <? n)); [discriminate|].
  destruct (Z.of_nat KEYBYTES <? 0); [discriminate|]. intros H. injection H as <-. reflexivity.
Qed.

(* ------------------------------------------------------------------ H' *)

Fixpoint chainW (n : nat) (v : bytes) : bytes :=
  match n with O => [] | S n' => firstn 32 (Argon2Spec.H 64 v) ++ chainW n' (Argon2Spec.H 64 v) end.
Fixpoint chainV (n : nat) (v : bytes) : bytes :=
  match n with O => v | S n' => chainV n' (Argon2Spec.H 64 v) end.

Lemma chainV_length n v : length v = 64%nat -> length (chainV n v) = 64%nat.
Proof. revert v; induction n as [|n IH]; intros v Hv; cbn [chainV]; [exact Hv|]. apply IH. apply H_length. lia. Qed.

Lemma longhash_loop_spec n v acc : length v = 64%nat ->
  longhash_loop compress n v acc = Ok (acc ++ chainW n v, chainV n v).
Proof.
  revert v acc; induction n as [|n IH]; intros v acc Hv; cbn [longhash_loop chainW chainV].
  - now rewrite app_nil_r.
  - change (hash compress OUTBYTES v None) with (hash_c 64 v None).
    rewrite hash_c_is_H by (rewrite ?Hv; lia). cbn [obind].
    change HALFOUTBYTES with 32%nat. rewrite IH by (apply H_length; lia). now rewrite <- app_assoc.
Qed.

Lemma Hout_chain n v last :
  Argon2Spec.Hout n v last = firstn 32 v ++ chainW n v ++ Argon2Spec.H last (chainV n v).
Proof.
  revert v; induction n as [|n IH]; intros v; cbn [Argon2Spec.Hout chainW chainV]; [reflexivity|].
  rewrite IH. now rewrite <- app_assoc.
Qed.

(* blake2b::longhash = RFC 9106's H' for every output length 5 .. 2^32 - 2 and every input *)
Theorem longhash_is_Hprime (T : nat) A :
  (4 < T)%nat -> Z.of_nat T < 4294967295 -> Z.of_nat (length A) + 132 < 2 ^ 128 ->
  longhash_c T A = Ok (Argon2Spec.Hprime T A).
Proof.
  intros HT Hmax HA. unfold longhash_c, longhash, Argon2Spec.Hprime.
  destruct (Nat.leb_spec T 4); [lia|].
  destruct (Z.leb_spec 4294967295 (Z.of_nat T)); [lia|].
  change OUTBYTES with 64%nat. change HALFOUTBYTES with 32%nat.
  assert (Hmsg : Z.of_nat (length (le_bytes 4 (Z.of_nat T) ++ A)) + 128 < 2 ^ 128).
  { rewrite app_length, le_bytes_length. lia. }
  destruct (Nat.leb_spec T 64) as [Hle|Hgt].
  - replace (Nat.min T 64) with T by lia.
    pose proof (blake2b_impl_is_rfc T None (zeros 16) (zeros 16) _ ltac:(lia) I eq_refl eq_refl Hmsg) as Hrfc.
    change (init_c (Z.of_nat T) None (Some (zeros 16)) (Some (zeros 16))) with (init compress (Z.of_nat T) None None None) in Hrfc.
    destruct (init compress (Z.of_nat T) None None None) as [s| |] eqn:E; cbn [obind] in *; try discriminate.
    rewrite (update_update compress) by (rewrite (init_none_buf _ _ E); cbn; lia).
    exact Hrfc.
  - replace (Nat.min T 64) with 64%nat by lia.
    pose proof (blake2b_impl_is_rfc 64 None (zeros 16) (zeros 16) _ ltac:(lia) I eq_refl eq_refl Hmsg) as Hrfc.
    change (init_c (Z.of_nat 64) None (Some (zeros 16)) (Some (zeros 16))) with (init compress (Z.of_nat 64) None None None) in Hrfc.
    destruct (init compress (Z.of_nat 64) None None None) as [s| |] eqn:E; cbn [obind] in *; try discriminate.
    rewrite (update_update compress) by (rewrite (init_none_buf _ _ E); cbn; lia).
    unfold finalize_c, update_c in Hrfc. rewrite Hrfc. cbn [obind].
    set (V1 := Argon2Spec.H 64 (le_bytes 4 (Z.of_nat T) ++ A)).
    change (Blake2bSpec.blake2b 64 [] (zeros 16) (zeros 16) (le_bytes 4 (Z.of_nat T) ++ A)) with V1.
    assert (HV1 : length V1 = 64%nat) by (apply H_length; lia).
    set (cc := if ((T - 32) mod 32 =? 0)%nat then ((T - 32) / 32 - 2)%nat else ((T - 32) / 32 - 1)%nat).
    assert (Hcc : cc = ((T + 31) / 32 - 2 - 1)%nat).
    { subst cc. destruct (Nat.eqb_spec ((T - 32) mod 32) 0); lia. }
    rewrite (longhash_loop_spec cc V1 [] HV1). cbn [obind app].
    assert (Hlast : (T - 32 - cc * 32 = T - 32 * ((T + 31) / 32 - 2))%nat) by lia.
    rewrite Hlast.
    change (hash compress) with hash_c.
    rewrite hash_c_is_H by (rewrite ?chainV_length by exact HV1; lia). cbn [obind].
    rewrite Hout_chain, <- Hcc. reflexivity.
Qed.

Lemma Hout_length k v last : length v = 64%nat -> (last <= 64)%nat ->
  length (Argon2Spec.Hout k v last) = (32 * (k + 1) + last)%nat.
Proof.
  revert v; induction k as [|k IH]; intros v Hv Hl; cbn [Argon2Spec.Hout]; rewrite app_length, firstn_length, Hv.
  - rewrite H_length by exact Hl. lia.
  - rewrite IH by (try apply H_length; lia). lia.
Qed.

Lemma Hprime_length T A : (1 <= T)%nat -> length (Argon2Spec.Hprime T A) = T.
Proof.
  intros HT. unfold Argon2Spec.Hprime. destruct (Nat.leb_spec T 64).
  - apply H_length. assumption.
  - rewrite Hout_length by (try apply H_length; lia). lia.
Qed.

(* ------------------------------------------------------------------ H0 *)

Definition opt_bytes (o : option bytes) : bytes := match o with Some s => s | None => [] end.

Lemma concat_len_prefixed (s : bytes) :
  concat ([le_bytes 4 (Z.of_nat (length s))] ++ (if (length s =? 0)%nat then [] else [s])) = le_bytes 4 (Z.of_nat (length s)) ++ s.
Proof.
  destruct (Nat.eqb_spec (length s) 0) as [E|E]; cbn [concat app]; rewrite ?app_nil_r; [|reflexivity].
  destruct s; [reflexivity|discriminate].
Qed.

Lemma h0_updates_concat lanes outlen m t ty pwd salt secret ad :
  concat (h0_updates lanes outlen m t ty pwd salt secret ad) =
  Argon2Spec.H0_input lanes outlen m t VERSION ty pwd salt (opt_bytes secret) (opt_bytes ad).
Proof.
  unfold h0_updates, Argon2Spec.H0_input.
  assert (Hopt : forall o, concat (match o with
                  | Some s => [le_bytes 4 (Z.of_nat (length s))] ++ (if (length s =? 0)%nat then [] else [s])
                  | None => [le_bytes 4 0] end) = le_bytes 4 (Z.of_nat (length (opt_bytes o))) ++ opt_bytes o).
  { intros [s|]; [apply concat_len_prefixed|reflexivity]. }
  rewrite !concat_app. rewrite !Hopt.
  destruct pwd as [|p0 pw], salt as [|s0 sl]; cbn [length Nat.eqb concat app]; rewrite ?app_nil_r, <- ?app_assoc; reflexivity.
Qed.

Definition lengths_ok (pwd salt : bytes) (secret ad : option bytes) : Prop :=
  Z.of_nat (length pwd) <= MAX_U32 /\ Z.of_nat (length salt) <= MAX_U32 /\
  Z.of_nat (length (opt_bytes secret)) <= MAX_U32 /\ Z.of_nat (length (opt_bytes ad)) <= MAX_U32.

(* the pre-hash absorbs exactly RFC 9106's H0 input, field by field, and is extended by 8 zero bytes *)
Theorem initial_hash_is_H0 lanes outlen m t ty pwd salt secret ad :
  lengths_ok pwd salt secret ad ->
  initial_hash lanes outlen m t ty pwd salt secret ad =
  Ok (Argon2Spec.H0 lanes outlen m t VERSION ty pwd salt (opt_bytes secret) (opt_bytes ad) ++ zeros 8).
Proof.
  intros (Hp & Hs & Hk & Hx). unfold initial_hash, Argon2Spec.H0. change PREHASH_DIGEST_LENGTH with 64%nat.
  set (msg := Argon2Spec.H0_input lanes outlen m t VERSION ty pwd salt (opt_bytes secret) (opt_bytes ad)).
  assert (Hmsg : Z.of_nat (length msg) + 128 < 2 ^ 128).
  { subst msg. unfold Argon2Spec.H0_input. rewrite !app_length, !le_bytes_length. unfold MAX_U32 in *. lia. }
  pose proof (blake2b_impl_is_rfc 64 None (zeros 16) (zeros 16) msg ltac:(lia) I eq_refl eq_refl Hmsg) as Hrfc.
  change (init_c (Z.of_nat 64) None (Some (zeros 16)) (Some (zeros 16))) with (init_c (Z.of_nat 64) None None None) in Hrfc.
  destruct (init_c (Z.of_nat 64) None None None) as [s| |] eqn:E; cbn [obind] in *; try discriminate.
  unfold update_c. rewrite (update_chunks compress) by (rewrite (init_none_buf _ _ E); cbn; lia).
  rewrite h0_updates_concat. fold msg. unfold update_c in Hrfc. rewrite Hrfc. reflexivity.
Qed.

(* ------------------------------------------------------------------ every block keeps 128 words *)

Definition blk (b : block) : Prop := length b = 128%nat.
Definition mem_ok (I : inst) : Prop := Forall blk (memory I).

Lemma xor_block_length a b : blk a -> blk b -> blk (xor_block a b).
Proof. unfold blk, xor_block. intros Ha Hb. rewrite map_length, combine_length. lia. Qed.

Lemma g_length b a bb c d : length (g b a bb c d) = length b.
Proof. unfold g, mixa, mixr. cbv zeta. rewrite !upd_length. reflexivity. Qed.

Lemma round_length b v : length (blake2_round_nomsg b v) = length b.
Proof. unfold blake2_round_nomsg. cbv zeta. rewrite !g_length. reflexivity. Qed.

Lemma fold_pres_length {A} (F : block -> A -> block) (l : list A) b :
  (forall b i, length (F b i) = length b) -> length (fold_left F l b) = length b.
Proof. intros HF. revert b; induction l as [|x l IH]; intros b; cbn [fold_left]; [reflexivity|]. rewrite IH. apply HF. Qed.

Lemma fill_block_length p r n x : blk p -> blk r -> blk n -> blk (fill_block p r n x).
Proof.
  intros Hp Hr Hn. unfold fill_block. apply xor_block_length.
  - destruct x; [apply xor_block_length; [apply xor_block_length|]|apply xor_block_length]; assumption.
  - unfold blk. rewrite !fold_pres_length by (intros; apply round_length). apply xor_block_length; assumption.
Qed.

Lemma zero_block_blk : blk zero_block.
Proof. reflexivity. Qed.

Lemma mem_at_blk I i : mem_ok I -> blk (mem_at I i).
Proof.
  intros H. unfold mem_at. destruct (Nat.lt_ge_cases (Z.to_nat i) (length (memory I))) as [Hlt|Hge].
  - unfold mem_ok in H. rewrite Forall_forall in H. apply H. now apply nth_In.
  - rewrite nth_overflow by exact Hge. apply zero_block_blk.
Qed.

Lemma upd_block_ok m i b : Forall blk m -> blk b -> Forall blk (upd_block m i b).
Proof.
  revert i; induction m as [|x m IH]; intros i Hm Hb; cbn [upd_block]; [constructor|].
  inversion Hm; subst. destruct i; constructor; auto.
Qed.

Lemma seg_loop_ok n I pass lane slice dia i curr prev :
  mem_ok I -> mem_ok (seg_loop n I pass lane slice dia i curr prev).
Proof.
  revert I i curr prev; induction n as [|n IH]; intros I i curr prev HI; cbn [seg_loop]; [exact HI|].
  apply IH. unfold mem_ok, set_memory. cbn [memory]. apply upd_block_ok; [exact HI|].
  apply fill_block_length; apply mem_at_blk; exact HI.
Qed.

Lemma fill_segment_ok I pass lane slice : mem_ok I -> mem_ok (fill_segment I pass lane slice).
Proof.
  intros HI. unfold fill_segment. apply seg_loop_ok.
  destruct (negb _); [|exact HI]. exact HI.
Qed.

Lemma fold_ok {A} (f : inst -> A -> inst) (l : list A) I :
  (forall I a, mem_ok I -> mem_ok (f I a)) -> mem_ok I -> mem_ok (fold_left f l I).
Proof. intros Hf. revert I; induction l as [|a l IH]; intros I HI; cbn [fold_left]; [exact HI|]. apply IH, Hf, HI. Qed.

Lemma fill_memory_blocks_ok I pass : mem_ok I -> mem_ok (fill_memory_blocks I pass).
Proof.
  intros HI. unfold fill_memory_blocks. apply fold_ok; [|exact HI].
  intros I' s HI'. apply fold_ok; [|exact HI']. intros I'' l HI''. now apply fill_segment_ok.
Qed.

Lemma chunks_n_length cnt n l : length (chunks_n cnt n l) = cnt.
Proof. revert l; induction cnt as [|c IH]; intros l; cbn [chunks_n length]; [reflexivity|]. now rewrite IH. Qed.

Lemma load_block_blk b : length b = 1024%nat -> blk (load_block b).
Proof. intros H. unfold blk, load_block, le_words, chunks. rewrite map_length, chunks_n_length, H. reflexivity. Qed.

Lemma first_blocks_ok ls bh I : mem_ok I ->
  exists I', first_blocks ls bh I = Ok I' /\ mem_ok I' /\ lanes I' = lanes I /\ lane_length I' = lane_length I.
Proof.
  revert I; induction ls as [|l ls IH]; intros I HI; cbn [first_blocks].
  - exists I. auto.
  - change PREHASH_DIGEST_LENGTH with 64%nat. change BLOCK_SIZE with 1024%nat.
    rewrite !longhash_is_Hprime by
      (try (rewrite !app_length, firstn_length, le_bytes_length; cbn [length]); lia).
    cbn [obind].
    match goal with |- exists I', first_blocks ls bh ?J = _ /\ _ => destruct (IH J) as (I' & H1 & H2 & H3 & H4) end.
    { unfold mem_ok, set_memory. cbn [memory]. apply upd_block_ok; [apply upd_block_ok; [exact HI|]|];
        apply load_block_blk; apply Hprime_length; lia. }
    exists I'. repeat split; assumption.
Qed.

Lemma store_block_length b : blk b -> length (store_block b) = 1024%nat.
Proof. intros H. unfold store_block. rewrite flat_map_le_bytes_length, H. reflexivity. Qed.

Lemma finalize_ok I outlen : mem_ok I -> (4 < outlen)%nat -> Z.of_nat outlen < 4294967295 ->
  exists h, finalize I outlen = Ok h /\ length h = outlen.
Proof.
  intros HI Ho Hm. unfold finalize.
  set (bh := fold_left _ _ _).
  assert (Hbh : blk bh).
  { subst bh. generalize (mem_at_blk I (lane_length I - 1) HI). generalize (mem_at I (lane_length I - 1)).
    induction (seq 1 (Z.to_nat (lanes I) - 1)) as [|l ls IH]; intros b Hb; cbn [fold_left]; [exact Hb|].
    apply IH. apply xor_block_length; [exact Hb|]. apply mem_at_blk, HI. }
  rewrite longhash_is_Hprime by (rewrite ?store_block_length by exact Hbh; lia).
  eexists. split; [reflexivity|]. apply Hprime_length. lia.
Qed.

Lemma repeat_Forall {A} (P : A -> Prop) x n : P x -> Forall P (repeat x n).
Proof. intros H. induction n; cbn [repeat]; constructor; auto. Qed.

Lemma in_range_spec lo hi v : in_range lo hi v = true <-> lo <= v <= hi.
Proof. unfold in_range. rewrite Bool.andb_true_iff, !Z.leb_le. tauto. Qed.

(* argon2_hash, one lane, no secret / associated data (every call site of the crate): when the
   context validates it returns exactly [outlen] bytes -- never Err, never a panic *)
Theorem argon2_hash_accepts t m pwd salt (outlen : nat) ty :
  context_ok outlen pwd salt None None t m 1 = true -> Z.of_nat outlen < 4294967295 ->
  exists h, argon2_hash t m 1 pwd salt None None outlen ty = Ok h /\ length h = outlen.
Proof.
  intros Hc Ho. unfold argon2_hash. change (mul32 1 SYNC_POINTS =? 0) with false. cbv iota.
  destruct (norm_memory m 1) as [mb seg]. rewrite Hc. cbn [negb].
  unfold context_ok in Hc. rewrite !Bool.andb_true_iff, !in_range_spec in Hc.
  destruct Hc as (((((((Hol & Hpw) & Hsl) & _) & _) & _) & Hm) & Ht).
  rewrite initial_hash_is_H0 by (unfold lengths_ok, opt_bytes, MAX_U32 in *; cbn [length]; lia).
  cbn [obind].
  set (I0 := mk_inst _ _ _ _ _ _ _ _).
  assert (HI0 : mem_ok I0) by (unfold mem_ok; subst I0; cbn [memory]; apply repeat_Forall, zero_block_blk).
  destruct (first_blocks_ok (seq 0 (Z.to_nat 1)) (Argon2Spec.H0 1 (w32 (Z.of_nat outlen)) m t VERSION ty pwd salt (opt_bytes None) (opt_bytes None) ++ zeros 8) I0 HI0)
    as (I1 & E1 & HI1 & _ & _).
  rewrite E1. cbn [obind].
  apply finalize_ok; [|unfold MIN_OUTLEN in Hol; lia|exact Ho].
  apply fold_ok; [|exact HI1]. intros I p HI. now apply fill_memory_blocks_ok.
Qed.

(* the output is a string of bytes *)
Lemma H_wf n x : wf_bytes (Argon2Spec.H n x).
Proof.
  unfold Argon2Spec.H, Blake2bSpec.blake2b_plain, Blake2bSpec.blake2b, Blake2bSpec.digest_bytes.
  apply wf_firstn. generalize (Blake2bSpec.absorb (S (length ([] ++ x))) (Blake2bSpec.h0 (Z.of_nat n) (Z.of_nat (length (@nil Z))) (zeros 16) (zeros 16)) 0 ([] ++ x)) as h. intros h.
  induction h as [|w h IH]; cbn [flat_map]; [constructor|]. apply wf_bytes_app. split; [apply le_bytes_wf|exact IH].
Qed.

Lemma Hout_wf k v last : wf_bytes v -> wf_bytes (Argon2Spec.Hout k v last).
Proof.
  revert v; induction k as [|k IH]; intros v Hv; cbn [Argon2Spec.Hout]; apply wf_bytes_app; split; try (now apply wf_firstn).
  - apply H_wf.
  - apply IH. apply H_wf.
Qed.

Lemma Hprime_wf T A : wf_bytes (Argon2Spec.Hprime T A).
Proof. unfold Argon2Spec.Hprime. destruct (T <=? 64)%nat; [apply H_wf|]. apply Hout_wf. apply H_wf. Qed.

Lemma finalize_ok_wf I outlen : mem_ok I -> (4 < outlen)%nat -> Z.of_nat outlen < 4294967295 ->
  exists h, finalize I outlen = Ok h /\ length h = outlen /\ wf_bytes h.
Proof.
  intros HI Ho Hm. unfold finalize.
  set (bh := fold_left _ _ _).
  assert (Hbh : blk bh).
  { subst bh. generalize (mem_at_blk I (lane_length I - 1) HI). generalize (mem_at I (lane_length I - 1)).
    induction (seq 1 (Z.to_nat (lanes I) - 1)) as [|l ls IH]; intros b Hb; cbn [fold_left]; [exact Hb|].
    apply IH. apply xor_block_length; [exact Hb|]. apply mem_at_blk, HI. }
  rewrite longhash_is_Hprime by (rewrite ?store_block_length by exact Hbh; lia).
  eexists. split; [reflexivity|]. split; [apply Hprime_length; lia|apply Hprime_wf].
Qed.

Theorem argon2_hash_accepts_wf t m pwd salt (outlen : nat) ty :
  context_ok outlen pwd salt None None t m 1 = true -> Z.of_nat outlen < 4294967295 ->
  exists h, argon2_hash t m 1 pwd salt None None outlen ty = Ok h /\ length h = outlen /\ wf_bytes h.
Proof.
  intros Hc Ho. unfold argon2_hash. change (mul32 1 SYNC_POINTS =? 0) with false. cbv iota.
  destruct (norm_memory m 1) as [mb seg]. rewrite Hc. cbn [negb].
  unfold context_ok in Hc. rewrite !Bool.andb_true_iff, !in_range_spec in Hc.
  destruct Hc as (((((((Hol & Hpw) & Hsl) & _) & _) & _) & Hm) & Ht).
  rewrite initial_hash_is_H0 by (unfold lengths_ok, opt_bytes, MAX_U32 in *; cbn [length]; lia).
  cbn [obind].
  set (I0 := mk_inst _ _ _ _ _ _ _ _).
  assert (HI0 : mem_ok I0) by (unfold mem_ok; subst I0; cbn [memory]; apply repeat_Forall, zero_block_blk).
  destruct (first_blocks_ok (seq 0 (Z.to_nat 1)) (Argon2Spec.H0 1 (w32 (Z.of_nat outlen)) m t VERSION ty pwd salt (opt_bytes None) (opt_bytes None) ++ zeros 8) I0 HI0)
    as (I1 & E1 & HI1 & _ & _).
  rewrite E1. cbn [obind].
  apply finalize_ok_wf; [|unfold MIN_OUTLEN in Hol; lia|exact Ho].
  apply fold_ok; [|exact HI1]. intros I p HI. now apply fill_memory_blocks_ok.
Qed.

Theorem argon2_hash_rejects t m pwd salt (outlen : nat) ty :
  context_ok outlen pwd salt None None t m 1 = false -> argon2_hash t m 1 pwd salt None None outlen ty = Err.
Proof.
  intros Hc. unfold argon2_hash. change (mul32 1 SYNC_POINTS =? 0) with false. cbv iota.
  destruct (norm_memory m 1) as [mb seg]. now rewrite Hc.
Qed.

Definition pwhash_params_ok (outlen : nat) (pwd salt : bytes) (opslimit memlimit : Z) : Prop :=
  OPSLIMIT_MIN <= opslimit <= OPSLIMIT_MAX /\ MEMLIMIT_MIN <= memlimit <= MEMLIMIT_MAX /\
  MIN_OUTLEN <= Z.of_nat outlen /\ MIN_SALT_LENGTH <= Z.of_nat (length salt).

(* crypto_pwhash accepts exactly the in-range parameter sets (for buffers whose lengths fit u32,
   and an output shorter than 2^32 - 1 bytes) and then fills the whole output *)
Theorem crypto_pwhash_accepts (outlen : nat) pwd salt opslimit memlimit alg :
  Z.of_nat outlen < 4294967295 -> Z.of_nat (length pwd) <= MAX_U32 -> Z.of_nat (length salt) <= MAX_U32 ->
  pwhash_params_ok outlen pwd salt opslimit memlimit ->
  exists h, crypto_pwhash outlen pwd salt opslimit memlimit alg = Ok h /\ length h = outlen.
Proof.
  intros Ho Hp Hs (Hops & Hmem & Hol & Hsl). unfold crypto_pwhash.
  rewrite (proj2 (in_range_spec _ _ _) Hops), (proj2 (in_range_spec _ _ _) Hmem). cbn [negb].
  unfold convert_costs. unfold OPSLIMIT_MIN, OPSLIMIT_MAX, MEMLIMIT_MIN, MEMLIMIT_MAX, MIN_OUTLEN, MIN_SALT_LENGTH, MAX_U32 in *.
  rewrite (w32_small opslimit) by lia. rewrite (w32_small (memlimit / 1024)) by lia.
  apply argon2_hash_accepts; [|exact Ho].
  unfold context_ok. rewrite !Bool.andb_true_iff, !in_range_spec.
  unfold MIN_OUTLEN, MIN_SALT_LENGTH, MAX_U32, MAX_LANES, MIN_MEMORY, MAX_MEMORY. repeat split; lia.
Qed.

Theorem crypto_pwhash_rejects (outlen : nat) pwd salt opslimit memlimit alg :
  ~ pwhash_params_ok outlen pwd salt opslimit memlimit ->
  crypto_pwhash outlen pwd salt opslimit memlimit alg = Err.
Proof.
  intros Hn. unfold crypto_pwhash.
  destruct (in_range OPSLIMIT_MIN OPSLIMIT_MAX opslimit) eqn:E1; [|reflexivity].
  destruct (in_range MEMLIMIT_MIN MEMLIMIT_MAX memlimit) eqn:E2; [|reflexivity].
  cbn [negb]. destruct (convert_costs opslimit memlimit) as [t m] eqn:Ec. apply argon2_hash_rejects.
  apply in_range_spec in E1, E2.
  destruct (context_ok outlen pwd salt None None t m 1) eqn:Hc; [|reflexivity]. exfalso. apply Hn.
  unfold context_ok in Hc. rewrite !Bool.andb_true_iff, !in_range_spec in Hc.
  destruct Hc as (((((((Hol & Hpw) & Hsl) & _) & _) & _) & Hm) & Ht).
  unfold pwhash_params_ok. repeat split; lia.
Qed.

(* PwHash::verify: Ok exactly when the record's declared length is the length of the hash it stores and re-hashing the offered
   password to that length gives the stored bytes; a record that declares another length is refused before anything is sized
   from the number it declares *)
Theorem verify_iff stored salt hl ops mem alg pwd :
  verify stored salt hl ops mem alg pwd = Ok tt <->
  (Z.of_nat (length stored) = hl /\ hash_with_salt pwd salt (length stored) ops mem alg = Ok stored).
Proof.
  unfold verify. destruct (Z.of_nat (length stored) =? hl) eqn:El; cbn [negb].
  - apply Z.eqb_eq in El. rewrite <- El, Nat2Z.id.
    destruct (hash_with_salt pwd salt (length stored) ops mem alg) as [c| |]; cbn [obind];
      [|split; [discriminate|intros [_ H]; discriminate]|split; [discriminate|intros [_ H]; discriminate]].
    destruct (bytes_eqb stored c) eqn:E.
    + apply bytes_eqb_eq in E. subst c. split; [intros _; split; reflexivity|reflexivity].
    + split; [discriminate|]. intros [_ H]. injection H as ->. rewrite (proj2 (bytes_eqb_eq _ _) eq_refl) in E. discriminate.
  - apply Z.eqb_neq in El. split; [discriminate|]. intros [H _]. contradiction.
Qed.

Theorem verify_length_mismatch stored salt hl ops mem alg pwd :
  Z.of_nat (length stored) <> hl -> verify stored salt hl ops mem alg pwd = Err.
Proof. intros H. unfold verify. apply Z.eqb_neq in H. rewrite H. reflexivity. Qed.
