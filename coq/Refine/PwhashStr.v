(* Password-hash strings: base64 and decimal round trips, and
   parse (to_string ...) = the fields that were encoded, for both algorithms,
   every salt and hash (non-empty), every cost below 2^32. *)
From Coq Require Import ZifyNat ZifyBool.
From Dryoc Require Import Impl.PwhashStr.
Import PwhashStr.
Open Scope Z_scope.
Ltac Zify.zify_post_hook ::= Z.div_mod_to_equations.

(* ------------------------------------------------------------------ base64 *)
Lemma b64_val_char v : 0 <= v < 64 -> b64_val (b64_char v) = Some v.
Proof.
  intros Hv.
  assert (H : forallb (fun x => match b64_val (b64_char x) with Some y => y =? x | None => false end)
                      (map Z.of_nat (seq 0 64)) = true) by (vm_compute; reflexivity).
  rewrite forallb_forall in H. specialize (H v).
  assert (Hin : In v (map Z.of_nat (seq 0 64))).
  { apply in_map_iff. exists (Z.to_nat v). split; [lia|]. apply in_seq. lia. }
  specialize (H Hin). destruct (b64_val (b64_char v)) as [y|]; [|discriminate].
  apply Z.eqb_eq in H. now subst.
Qed.

(* characters produced by the encoder: letters, digits, '+', '/' *)
Definition b64_alpha (c : Z) : Prop := c <> 61 /\ c <> 36 /\ c <> 44 /\ 43 <= c <= 122.

Lemma b64_char_alpha v : 0 <= v < 64 -> b64_alpha (b64_char v).
Proof.
  intros Hv. unfold b64_alpha, b64_char.
  destruct (Z.ltb_spec v 26); [lia|]. destruct (Z.ltb_spec v 52); [lia|].
  destruct (Z.ltb_spec v 62); [lia|]. destruct (Z.eqb_spec v 62); lia.
Qed.

Lemma triple_ind (P : bytes -> Prop) :
  P [] -> (forall a, P [a]) -> (forall a b, P [a; b]) ->
  (forall a b c r, P r -> P (a :: b :: c :: r)) -> forall l, P l.
Proof.
  intros H0 H1 H2 H3.
  assert (G : forall n l, (length l <= n)%nat -> P l).
  { induction n as [|n IH]; intros l Hl.
    - destruct l; [exact H0|cbn in Hl; lia].
    - destruct l as [|a [|b [|c r]]]; auto. apply H3. apply IH. cbn in Hl. lia. }
  intros l. apply (G (length l)). lia.
Qed.

Lemma b64_roundtrip l : wf_bytes l -> b64_decode (b64_encode l) = Some l.
Proof.
  induction l as [| a | a b | a b c r IH] using triple_ind; intros Hwf.
  - reflexivity.
  - inversion Hwf as [|? ? Ha _]; subst. unfold is_byte in Ha.
    cbn [b64_encode b64_decode]. rewrite !b64_val_char by lia.
    destruct (Z.eqb_spec (((a mod 4) * 16) mod 16) 0); [|lia]. do 2 f_equal. lia.
  - inversion Hwf as [|? ? Ha Hwf']; subst. inversion Hwf' as [|? ? Hb _]; subst. unfold is_byte in *.
    cbn [b64_encode b64_decode]. rewrite !b64_val_char by lia.
    destruct (Z.eqb_spec (((b mod 16) * 4) mod 4) 0); [|lia]. do 2 f_equal; [lia|]. f_equal. lia.
  - inversion Hwf as [|? ? Ha Hwf1]; subst. inversion Hwf1 as [|? ? Hb Hwf2]; subst.
    inversion Hwf2 as [|? ? Hc Hwf3]; subst. unfold is_byte in *.
    cbn [b64_encode b64_decode]. rewrite !b64_val_char by lia. rewrite (IH Hwf3).
    do 2 f_equal; [lia|]. f_equal; [lia|]. f_equal. lia.
Qed.

Lemma b64_encode_alpha l : wf_bytes l -> Forall b64_alpha (b64_encode l).
Proof.
  induction l as [| a | a b | a b c r IH] using triple_ind; intros Hwf; cbn [b64_encode].
  - constructor.
  - inversion Hwf as [|? ? Ha _]; subst. unfold is_byte in Ha.
    repeat constructor; apply b64_char_alpha; lia.
  - inversion Hwf as [|? ? Ha Hwf']; subst. inversion Hwf' as [|? ? Hb _]; subst. unfold is_byte in *.
    repeat constructor; apply b64_char_alpha; lia.
  - inversion Hwf as [|? ? Ha Hwf1]; subst. inversion Hwf1 as [|? ? Hb Hwf2]; subst.
    inversion Hwf2 as [|? ? Hc Hwf3]; subst. unfold is_byte in *.
    repeat (constructor; [apply b64_char_alpha; lia|]). now apply IH.
Qed.

Lemma b64_encode_nonempty l : l <> [] -> (2 <= length (b64_encode l))%nat.
Proof. destruct l as [|a [|b [|c r]]]; cbn; intros; try congruence; lia. Qed.

(* ----------------------------------------------------------------- decimal *)
Definition is_digit (c : Z) : Prop := 48 <= c <= 57.
Fixpoint dval (l : bytes) (acc : Z) : Z := match l with [] => acc | c :: r => dval r (acc * 10 + (c - 48)) end.

Lemma dval_mono l a : Forall is_digit l -> 0 <= a -> a <= dval l a.
Proof.
  revert a; induction l as [|c l IH]; intros a Hd Ha; cbn [dval]; [lia|].
  inversion Hd as [|? ? Hc Hd']; subst. unfold is_digit in Hc.
  specialize (IH (a * 10 + (c - 48)) Hd' ltac:(lia)). lia.
Qed.

Lemma parse_digits_dval l a :
  Forall is_digit l -> 0 <= a -> dval l a <= 4294967295 -> parse_digits l a = Some (dval l a).
Proof.
  revert a; induction l as [|c l IH]; intros a Hd Ha Hmax; cbn [parse_digits dval] in *; [reflexivity|].
  inversion Hd as [|? ? Hc Hd']; subst. unfold is_digit in Hc.
  destruct (Z.leb_spec 48 c); [|lia]. destruct (Z.leb_spec c 57); [|lia]. cbn [andb].
  pose proof (dval_mono l (a * 10 + (c - 48)) Hd' ltac:(lia)) as Hm.
  destruct (Z.ltb_spec 4294967295 (a * 10 + (c - 48))); [lia|].
  apply IH; [exact Hd'|lia|exact Hmax].
Qed.

Lemma dval_app l1 l2 a : dval (l1 ++ l2) a = dval l2 (dval l1 a).
Proof. revert a; induction l1 as [|c l1 IH]; intros a; cbn [app dval]; [reflexivity|apply IH]. Qed.

(* dec_digits writes the decimal digits of n in front of acc *)
Lemma dec_digits_spec fuel n acc :
  0 <= n < 10 ^ Z.of_nat fuel -> (0 < fuel)%nat ->
  exists ds, dec_digits fuel n acc = ds ++ acc /\ Forall is_digit ds /\ ds <> [] /\ dval ds 0 = n.
Proof.
  revert n acc; induction fuel as [|fuel IH]; intros n acc Hn Hf; [lia|].
  cbn [dec_digits].
  destruct (Z.eqb_spec (n / 10) 0) as [E|E].
  - exists [48 + n mod 10]. repeat split.
    + constructor; [unfold is_digit; lia|constructor].
    + discriminate.
    + cbn [dval]. lia.
  - assert (Hf' : (0 < fuel)%nat).
    { destruct fuel; [|lia]. cbn in Hn. lia. }
    assert (Hn' : 0 <= n / 10 < 10 ^ Z.of_nat fuel).
    { rewrite Nat2Z.inj_succ, Z.pow_succ_r in Hn by lia. split; [lia|]. apply Z.div_lt_upper_bound; lia. }
    destruct (IH (n / 10) ((48 + n mod 10) :: acc) Hn' Hf') as [ds [Hds [Hdig [Hne Hval]]]].
    exists (ds ++ [48 + n mod 10]). repeat split.
    + rewrite Hds, <- app_assoc. reflexivity.
    + apply Forall_app. split; [exact Hdig|]. constructor; [unfold is_digit; lia|constructor].
    + destruct ds; discriminate.
    + rewrite dval_app, Hval. cbn [dval]. lia.
Qed.

Lemma print_u32_spec n : 0 <= n < 2 ^ 32 ->
  Forall is_digit (print_u32 n) /\ print_u32 n <> [] /\ dval (print_u32 n) 0 = n.
Proof.
  intros Hn. unfold print_u32.
  destruct (dec_digits_spec 10 n [] ltac:(cbn; lia) ltac:(lia)) as [ds [Hds [Hdig [Hne Hval]]]].
  rewrite Hds, app_nil_r. auto.
Qed.

Lemma dec_roundtrip n : 0 <= n < 2 ^ 32 -> parse_u32 (print_u32 n) = Some n.
Proof.
  intros Hn. destruct (print_u32_spec n Hn) as [Hdig [Hne Hval]].
  unfold parse_u32. destruct (print_u32 n) as [|c r] eqn:E; [congruence|].
  assert (Hc : is_digit c) by (inversion Hdig; assumption). unfold is_digit in Hc.
  destruct (Z.eqb_spec c 43) as [->|Hc43]; [lia|].
  rewrite parse_digits_dval; [now rewrite Hval|exact Hdig|lia|lia].
Qed.

(* ------------------------------------------------------- string helpers *)
Lemma split_aux_notin c a cur : ~ In c a -> split_aux c a cur = [rev cur ++ a].
Proof.
  revert cur; induction a as [|x a IH]; intros cur Hn; cbn [split_aux].
  - now rewrite app_nil_r.
  - destruct (Z.eqb_spec x c) as [->|Hx]; [exfalso; apply Hn; now left|].
    rewrite IH by (intros H; apply Hn; now right). cbn [rev]. now rewrite <- app_assoc.
Qed.

Lemma split_aux_app c a rest cur :
  ~ In c a -> split_aux c (a ++ c :: rest) cur = (rev cur ++ a) :: split_aux c rest [].
Proof.
  revert cur; induction a as [|x a IH]; intros cur Hn; cbn [split_aux app].
  - rewrite Z.eqb_refl, app_nil_r. reflexivity.
  - destruct (Z.eqb_spec x c) as [->|Hx]; [exfalso; apply Hn; now left|].
    rewrite IH by (intros H; apply Hn; now right). cbn [rev]. now rewrite <- app_assoc.
Qed.

Lemma starts_with_app pre r : starts_with (pre ++ r) pre = true.
Proof. induction pre as [|p pre IH]; cbn [app starts_with]; [now destruct r|]. now rewrite Z.eqb_refl, IH. Qed.

Lemma strip_prefix_app pre r : strip_prefix (pre ++ r) pre = Some r.
Proof.
  unfold strip_prefix. rewrite starts_with_app. f_equal.
  rewrite skipn_app, skipn_all, Nat.sub_diag. reflexivity.
Qed.

Lemma contains_app a pat b : contains (a ++ pat ++ b) pat = true.
Proof.
  induction a as [|x a IH]; cbn [app].
  - destruct (pat ++ b) eqn:E; cbn [contains]; rewrite <- E, starts_with_app; reflexivity.
  - cbn [contains]. rewrite IH. apply orb_true_r.
Qed.

Lemma starts_with_no61 l x : ~ In 61 l -> starts_with l [x; 61] = false.
Proof.
  intros Hn. destruct l as [|a [|b r]]; cbn [starts_with]; try reflexivity; [apply andb_false_r|].
  destruct (Z.eqb_spec b 61) as [->|]; [exfalso; apply Hn; right; now left|].
  cbn [andb]. apply andb_false_r.
Qed.

Lemma contains_no61 l x : ~ In 61 l -> contains l [x; 61] = false.
Proof.
  induction l as [|a l IH]; intros Hn.
  - reflexivity.
  - cbn [contains]. rewrite (starts_with_no61 (a :: l) x Hn).
    rewrite IH by (intros H; apply Hn; now right). reflexivity.
Qed.

Lemma alpha_notin l c : Forall b64_alpha l -> (c = 61 \/ c = 36 \/ c = 44) -> ~ In c l.
Proof.
  intros Hf Hc Hin. rewrite Forall_forall in Hf. specialize (Hf c Hin). unfold b64_alpha in Hf. lia.
Qed.

Lemma digit_notin l c : Forall is_digit l -> (c < 48 \/ 57 < c) -> ~ In c l.
Proof.
  intros Hf Hc Hin. rewrite Forall_forall in Hf. specialize (Hf c Hin). unfold is_digit in Hf. lia.
Qed.

(* ---------------------------------------------------- parse of an encoding *)
Definition with_type (w : pwhash) a := mk_pwhash (pw_hash w) (pw_salt w) (Some a) (pw_t w) (pw_m w) (pw_p w) (pw_v w).

Lemma seg_params w dm dt m t :
  Forall is_digit dm -> Forall is_digit dt -> parse_u32 dm = Some m -> parse_u32 dt = Some t ->
  parse_segment (Ok w) (s_m ++ dm ++ [COMMA] ++ s_t ++ dt ++ [COMMA] ++ s_p ++ [49]) =
  Ok (mk_pwhash (pw_hash w) (pw_salt w) (pw_type w) (Some t) (Some m) (Some 1) (pw_v w)).
Proof.
  intros Hdm Hdt Hm Ht. unfold parse_segment. cbn [obind].
  set (seg := s_m ++ dm ++ [COMMA] ++ s_t ++ dt ++ [COMMA] ++ s_p ++ [49]).
  assert (Hlen : (length seg =? 0)%nat = false) by (unfold seg; cbn [app length s_m]; reflexivity).
  rewrite Hlen.
  assert (Hsw : starts_with seg s_argon2 = false) by (unfold seg; reflexivity).
  rewrite Hsw. cbn [andb].
  assert (Hsv : strip_prefix seg s_v = None) by (unfold seg; reflexivity).
  rewrite Hsv.
  assert (Hcm : contains seg s_m = true) by (unfold seg; apply (contains_app [] s_m)).
  assert (Hct : contains seg s_t = true).
  { unfold seg. replace (s_m ++ dm ++ [COMMA] ++ s_t ++ dt ++ [COMMA] ++ s_p ++ [49])
      with ((s_m ++ dm ++ [COMMA]) ++ s_t ++ (dt ++ [COMMA] ++ s_p ++ [49])) by (now rewrite <- !app_assoc).
    apply contains_app. }
  assert (Hcp : contains seg s_p = true).
  { unfold seg. replace (s_m ++ dm ++ [COMMA] ++ s_t ++ dt ++ [COMMA] ++ s_p ++ [49])
      with ((s_m ++ dm ++ [COMMA] ++ s_t ++ dt ++ [COMMA]) ++ s_p ++ [49]) by (now rewrite <- !app_assoc).
    apply contains_app. }
  rewrite Hcm, Hct, Hcp. cbn [andb].
  (* split on ',' *)
  assert (Hn1 : ~ In COMMA (s_m ++ dm)).
  { intros H. apply in_app_or in H as [H|H]; [cbn in H; unfold COMMA in H; lia|].
    revert H. apply digit_notin; [exact Hdm|unfold COMMA; lia]. }
  assert (Hn2 : ~ In COMMA (s_t ++ dt)).
  { intros H. apply in_app_or in H as [H|H]; [cbn in H; unfold COMMA in H; lia|].
    revert H. apply digit_notin; [exact Hdt|unfold COMMA; lia]. }
  assert (Hsplit : split COMMA seg = [s_m ++ dm; s_t ++ dt; s_p ++ [49]]).
  { unfold split, seg.
    replace (s_m ++ dm ++ [COMMA] ++ s_t ++ dt ++ [COMMA] ++ s_p ++ [49])
      with ((s_m ++ dm) ++ COMMA :: ((s_t ++ dt) ++ COMMA :: (s_p ++ [49]))) by (now rewrite <- !app_assoc).
    rewrite (split_aux_app COMMA _ _ [] Hn1). cbn [rev app].
    rewrite (split_aux_app COMMA _ _ [] Hn2). cbn [rev app].
    rewrite split_aux_notin by (cbn; unfold COMMA; lia). reflexivity. }
  rewrite Hsplit. cbn [fold_left]. unfold set_param at 3. cbn [obind].
  rewrite strip_prefix_app, Hm.
  unfold set_param at 2. cbn [obind pw_hash pw_salt pw_type pw_t pw_m pw_p pw_v].
  assert (E1 : strip_prefix (s_t ++ dt) s_m = None) by reflexivity.
  rewrite E1, strip_prefix_app, Ht.
  unfold set_param. cbn [obind pw_hash pw_salt pw_type pw_t pw_m pw_p pw_v].
  reflexivity.
Qed.

Lemma seg_b64_salt w enc :
  Forall b64_alpha enc -> (2 <= length enc)%nat -> pw_type w <> None -> pw_salt w = None ->
  parse_segment (Ok w) enc =
  Ok (mk_pwhash (pw_hash w) (b64_decode enc) (pw_type w) (pw_t w) (pw_m w) (pw_p w) (pw_v w)).
Proof.
  intros Ha Hl Hty Hs. unfold parse_segment. cbn [obind].
  destruct (Nat.eqb_spec (length enc) 0); [lia|].
  destruct (pw_type w) eqn:Et; [|congruence]. rewrite andb_false_r.
  assert (H61 : ~ In 61 enc) by (apply alpha_notin; [exact Ha|now left]).
  unfold strip_prefix. unfold s_v. rewrite (starts_with_no61 enc 118 H61).
  unfold s_m. rewrite (contains_no61 enc 109 H61). cbn [andb].
  rewrite Hs. reflexivity.
Qed.

Lemma seg_b64_hash w enc sl :
  Forall b64_alpha enc -> (2 <= length enc)%nat -> pw_type w <> None -> pw_salt w = Some sl -> pw_hash w = None ->
  parse_segment (Ok w) enc =
  Ok (mk_pwhash (b64_decode enc) (pw_salt w) (pw_type w) (pw_t w) (pw_m w) (pw_p w) (pw_v w)).
Proof.
  intros Ha Hl Hty Hs Hh. unfold parse_segment. cbn [obind].
  destruct (Nat.eqb_spec (length enc) 0); [lia|].
  destruct (pw_type w) eqn:Et; [|congruence]. rewrite andb_false_r.
  assert (H61 : ~ In 61 enc) by (apply alpha_notin; [exact Ha|now left]).
  unfold strip_prefix. unfold s_v. rewrite (starts_with_no61 enc 118 H61).
  unfold s_m. rewrite (contains_no61 enc 109 H61). cbn [andb].
  rewrite Hs, Hh. reflexivity.
Qed.

Definition alg_name (alg : Z) : bytes := if alg =? 1 then s_argon2i else s_argon2id.

Theorem parse_to_string alg t m salt hash :
  (alg = 1 \/ alg = 2) -> 0 <= t < 2 ^ 32 -> 0 <= m < 2 ^ 32 ->
  wf_bytes salt -> wf_bytes hash -> salt <> [] -> hash <> [] ->
  parse (to_string alg t m salt hash) =
  Ok (mk_pwhash (Some hash) (Some salt) (Some alg) (Some t) (Some m) (Some 1) (Some 19)).
Proof.
  intros Halg Ht Hm Hws Hwh Hsn Hhn.
  destruct (print_u32_spec m Hm) as [Hdm [_ _]]. destruct (print_u32_spec t Ht) as [Hdt [_ _]].
  pose proof (dec_roundtrip m Hm) as Hpm. pose proof (dec_roundtrip t Ht) as Hpt.
  pose proof (b64_encode_alpha salt Hws) as Has. pose proof (b64_encode_alpha hash Hwh) as Hah.
  pose proof (b64_encode_nonempty salt Hsn) as Hls. pose proof (b64_encode_nonempty hash Hhn) as Hlh.
  set (PARAMS := s_m ++ print_u32 m ++ [COMMA] ++ s_t ++ print_u32 t ++ [COMMA] ++ s_p ++ [49]).
  set (VSEG := s_v ++ print_u32 19).
  assert (Hsplit : split DOLLAR (to_string alg t m salt hash) =
                   [[]; alg_name alg; VSEG; PARAMS; b64_encode salt; b64_encode hash]).
  { assert (Hshape : to_string alg t m salt hash =
      [] ++ DOLLAR :: (alg_name alg ++ DOLLAR :: (VSEG ++ DOLLAR :: (PARAMS ++ DOLLAR :: (b64_encode salt ++ DOLLAR :: b64_encode hash))))).
    { unfold to_string, alg_name, VSEG, PARAMS. repeat first [rewrite <- app_assoc | progress cbn [app]]. reflexivity. }
    unfold split. rewrite Hshape.
    rewrite (split_aux_app DOLLAR [] _ []) by (intros []). cbn [rev app].
    rewrite (split_aux_app DOLLAR (alg_name alg) _ [])
      by (unfold alg_name; destruct (alg =? 1); cbn; unfold DOLLAR; lia). cbn [rev app].
    rewrite (split_aux_app DOLLAR VSEG _ []) by (unfold VSEG; intros H; vm_compute in H; lia). cbn [rev app].
    rewrite (split_aux_app DOLLAR PARAMS _ []).
    2:{ unfold PARAMS. intros H. repeat (apply in_app_or in H as [H|H]);
        try (cbn in H; unfold DOLLAR, COMMA in H; lia);
        revert H; (apply digit_notin; [assumption|unfold DOLLAR; lia]). }
    cbn [rev app].
    rewrite (split_aux_app DOLLAR (b64_encode salt) _ []) by (apply alpha_notin; [exact Has|right; now left]).
    cbn [rev app].
    rewrite split_aux_notin by (apply alpha_notin; [exact Hah|right; now left]). reflexivity. }
  unfold parse. rewrite Hsplit. cbn [fold_left].
  (* 1: empty segment, 2: algorithm *)
  assert (H1 : parse_segment (Ok pw_empty) [] = Ok pw_empty) by reflexivity. rewrite H1.
  assert (H2 : parse_segment (Ok pw_empty) (alg_name alg) = Ok (with_type pw_empty alg))
    by (destruct Halg as [-> | ->]; reflexivity). rewrite H2.
  (* 3: version *)
  assert (H3 : parse_segment (Ok (with_type pw_empty alg)) VSEG =
               Ok (mk_pwhash None None (Some alg) None None None (Some 19))) by reflexivity.
  rewrite H3.
  (* 4: parameters *)
  rewrite (seg_params _ _ _ m t Hdm Hdt Hpm Hpt). cbn [pw_hash pw_salt pw_type pw_t pw_m pw_p pw_v].
  (* 5: salt, 6: hash *)
  rewrite (seg_b64_salt _ _ Has Hls) by (cbn; congruence). cbn [pw_hash pw_salt pw_type pw_t pw_m pw_p pw_v].
  rewrite (b64_roundtrip salt Hws).
  rewrite (seg_b64_hash _ _ salt Hah Hlh) by (cbn; congruence). cbn [pw_hash pw_salt pw_type pw_t pw_m pw_p pw_v].
  rewrite (b64_roundtrip hash Hwh).
  cbn [obind pw_hash pw_salt pw_type pw_t pw_m pw_p pw_v negb nonempty].
  destruct salt; [congruence|]. destruct hash; [congruence|]. reflexivity.
Qed.

(* parse, then re-encode: the same string *)
Theorem reencode_to_string alg t m salt hash :
  (alg = 1 \/ alg = 2) -> 0 <= t < 2 ^ 32 -> 0 <= m < 2 ^ 32 ->
  wf_bytes salt -> wf_bytes hash -> salt <> [] -> hash <> [] ->
  reencode (to_string alg t m salt hash) = Ok (to_string alg t m salt hash).
Proof.
  intros Halg Ht Hm Hws Hwh Hsn Hhn. unfold reencode, from_string.
  rewrite (parse_to_string alg t m salt hash Halg Ht Hm Hws Hwh Hsn Hhn).
  cbn [obind pw_hash pw_salt pw_type pw_t pw_m pw_p pw_v]. unfold convert_costs.
  replace (1024 * m / 1024) with m by (rewrite Z.mul_comm, Z.div_mul; lia).
  rewrite !w32_mod, !Z.mod_small by lia. reflexivity.
Qed.

(* needs_rehash answers false exactly when both (converted) cost parameters match *)
Theorem needs_rehash_to_string alg t m salt hash opslimit memlimit :
  (alg = 1 \/ alg = 2) -> 0 <= t < 2 ^ 32 -> 0 <= m < 2 ^ 32 ->
  wf_bytes salt -> wf_bytes hash -> salt <> [] -> hash <> [] ->
  needs_rehash (to_string alg t m salt hash) opslimit memlimit =
  Ok (negb (w32 opslimit =? t) || negb (w32 (memlimit / 1024) =? m)).
Proof.
  intros Halg Ht Hm Hws Hwh Hsn Hhn. unfold needs_rehash.
  rewrite (parse_to_string alg t m salt hash Halg Ht Hm Hws Hwh Hsn Hhn).
  cbn [obind pw_t pw_m]. unfold convert_costs. reflexivity.
Qed.
