(* The arithmetic of src/poly1305/poly1305_soft.rs as translated on this run (Gen/Poly1305Gen.v:
   the block loop body of `blocks`, the carry / reduce / pad / pack section of `finalize`, the
   clamping of `new`) is, statement for statement, the model that Refine/Poly1305.v proves equal
   to RFC 8439. *)
From Dryoc Require Import Impl.Poly1305 Gen.Poly1305Gen.
Import Poly1305Impl.
Open Scope Z_scope.

Lemma gen_hibit_is_impl : gen_hibit = Z.shiftl 1 40.
Proof. reflexivity. Qed.

Lemma gen_block_step_is_impl hibit r0 r1 r2 h0 h1 h2 m :
  gen_block_step hibit r0 r1 r2 h0 h1 h2 (load_u64_le (firstn 8 m)) (load_u64_le (skipn 8 m)) =
  block_step hibit (r0, r1, r2) (h0, h1, h2) m.
Proof. reflexivity. Qed.

Lemma gen_finish_words_is_impl h0 h1 h2 t0 t1 :
  gen_finish_words h0 h1 h2 t0 t1 = finish_words (h0, h1, h2) (t0, t1).
Proof. reflexivity. Qed.

Lemma gen_clamp_is_impl key :
  gen_clamp (load_u64_le (slice key 0 8)) (load_u64_le (slice key 8 16)) = st_r (new key).
Proof. reflexivity. Qed.
