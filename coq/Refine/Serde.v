From Coq Require Import ZifyNat ZifyBool.
From Dryoc Require Import Impl.Serde.
Import SerdeImpl.
Open Scope Z_scope.

Lemma upd_app_zeros (pre : bytes) k e :
  upd (pre ++ zeros (S k)) (length pre) e = (pre ++ [e]) ++ zeros k.
Proof.
  induction pre as [|x pre IH]; cbn [app length upd zeros repeat]; [reflexivity|].
  f_equal. exact IH.
Qed.

Lemma visit_seq_loop_spec N elems pre :
  (length pre + length elems <= N)%nat ->
  visit_seq_loop N elems (pre ++ zeros (N - length pre)) (length pre) =
  Ok ((pre ++ elems) ++ zeros (N - length pre - length elems), (length pre + length elems)%nat).
Proof.
  revert pre; induction elems as [|e r IH]; intros pre Hl; cbn [visit_seq_loop length] in *.
  - rewrite app_nil_r, Nat.sub_0_r, Nat.add_0_r. reflexivity.
  - destruct (Nat.ltb_spec (length pre) N); [|lia].
    replace (N - length pre)%nat with (S (N - length pre - 1)) by lia.
    rewrite upd_app_zeros.
    replace (S (length pre)) with (length (pre ++ [e])) by (rewrite app_length; cbn [length]; lia).
    replace (N - length pre - 1)%nat with (N - length (pre ++ [e]))%nat by (rewrite app_length; cbn [length]; lia).
    rewrite IH by (rewrite app_length; cbn [length]; lia).
    rewrite app_length. cbn [length].
    replace ((pre ++ [e]) ++ r) with (pre ++ e :: r) by (rewrite <- app_assoc; reflexivity).
    match goal with |- Ok (?a ++ zeros ?x, ?i) = Ok (?a ++ zeros ?y, ?j) =>
      replace x with y by lia; replace i with j by lia; reflexivity end.
Qed.

Lemma visit_seq_loop_long N elems arr idx :
  (N < idx + length elems)%nat -> (idx <= N)%nat -> visit_seq_loop N elems arr idx = Err.
Proof.
  revert arr idx; induction elems as [|e r IH]; intros arr idx Hl Hi; cbn [visit_seq_loop length] in *; [lia|].
  destruct (Nat.ltb_spec idx N); [|reflexivity]. apply IH; lia.
Qed.

(* decoding a fixed-length value from a sequence with any other number of
   elements fails; with exactly N elements it returns them *)
Theorem visit_seq_spec N elems :
  visit_seq N elems = if (length elems =? N)%nat then Ok elems else Err.
Proof.
  unfold visit_seq. destruct (Nat.eqb_spec (length elems) N) as [E|E].
  - pose proof (visit_seq_loop_spec N elems [] ltac:(cbn; lia)) as H.
    cbn [app length Nat.add] in H. rewrite Nat.sub_0_r in H. rewrite H. cbn [obind].
    rewrite E, Nat.eqb_refl, Nat.sub_diag. cbn [negb zeros repeat]. now rewrite app_nil_r.
  - destruct (Nat.lt_ge_cases (length elems) N) as [Hlt|Hge].
    + pose proof (visit_seq_loop_spec N elems [] ltac:(cbn; lia)) as H.
      cbn [app length Nat.add] in H. rewrite Nat.sub_0_r in H. rewrite H. cbn [obind].
      destruct (Nat.eqb_spec (length elems) N); [lia|]. reflexivity.
    + rewrite visit_seq_loop_long by lia. reflexivity.
Qed.

Theorem visit_bytes_spec N v : visit_bytes N v = if (length v =? N)%nat then Ok v else Err.
Proof. unfold visit_bytes. destruct (length v =? N)%nat; reflexivity. Qed.

(* the heap deserialisers return exactly the elements they were given, whatever the size hint *)
Lemma heap_loop_spec elems : forall pre rest,
  heap_visit_seq_loop elems (pre ++ rest) (length pre) =
  ((pre ++ elems) ++ skipn (length elems) rest, (length pre + length elems)%nat).
Proof.
  induction elems as [|e r IH]; intros pre rest; cbn [heap_visit_seq_loop length skipn].
  - now rewrite app_nil_r, Nat.add_0_r.
  - destruct rest as [|x rest].
    + rewrite app_nil_r. destruct (Nat.leb_spec (length pre) (length pre)); [|lia].
      replace (length pre + 1 - length pre)%nat with 1%nat by lia.
      rewrite (upd_app_zeros pre 0 e). cbn [zeros repeat]. rewrite app_nil_r.
      replace (S (length pre)) with (length (pre ++ [e])) by (rewrite app_length; cbn [length]; lia).
      rewrite <- (app_nil_r (pre ++ [e])) at 1. rewrite IH. rewrite app_length. cbn [length].
      rewrite skipn_nil, <- (app_assoc pre [e] r). cbn [app]. f_equal. lia.
    + rewrite app_length. cbn [length]. destruct (Nat.leb_spec (length pre + S (length rest)) (length pre)); [lia|].
      assert (Hu : upd (pre ++ x :: rest) (length pre) e = (pre ++ [e]) ++ rest).
      { clear. induction pre as [|p pre IHp]; cbn [app length upd]; [reflexivity|]. now rewrite IHp. }
      rewrite Hu. replace (S (length pre)) with (length (pre ++ [e])) by (rewrite app_length; cbn [length]; lia).
      rewrite IH. rewrite app_length. cbn [length]. rewrite <- (app_assoc pre [e] r). cbn [app]. f_equal. lia.
Qed.

Theorem heap_visit_seq_spec hint elems : heap_visit_seq hint elems = Ok elems.
Proof.
  unfold heap_visit_seq. pose proof (heap_loop_spec elems [] (zeros hint)) as H. cbn [app length Nat.add] in H.
  rewrite H. unfold resize. f_equal.
  rewrite firstn_app, firstn_all, Nat.sub_diag, firstn_O, app_nil_r.
  rewrite app_length. replace (length elems - (length elems + length (skipn (length elems) (zeros hint))))%nat with 0%nat by lia.
  cbn [zeros repeat]. now rewrite app_nil_r.
Qed.

Theorem heap_visit_bytes_spec v : heap_visit_bytes v = Ok v.
Proof. reflexivity. Qed.

Lemma try_from_ok N s : length s = N -> try_from N s = Ok s.
Proof. intros H. unfold try_from. now rewrite H, Nat.eqb_refl. Qed.

Theorem secretbox_bytes_roundtrip tag data : length tag = 16%nat ->
  secretbox_from_bytes (secretbox_to_bytes tag data) = Ok (tag, data).
Proof.
  intros Ht. unfold secretbox_from_bytes, secretbox_to_bytes. rewrite app_length, Ht.
  destruct (Nat.ltb_spec (16 + length data) 16); [lia|].
  rewrite firstn_app, <- Ht, firstn_all, Nat.sub_diag, firstn_O, app_nil_r.
  rewrite try_from_ok by reflexivity. cbn [obind]. rewrite skipn_app, skipn_all, Nat.sub_diag. reflexivity.
Qed.

Theorem box_bytes_roundtrip tag data : length tag = 16%nat ->
  box_from_bytes (box_to_bytes None tag data) = Ok (None, tag, data).
Proof.
  intros Ht. unfold box_from_bytes, box_to_bytes. rewrite app_length, Ht.
  destruct (Nat.ltb_spec (16 + length data) 16); [lia|].
  rewrite firstn_app, <- Ht, firstn_all, Nat.sub_diag, firstn_O, app_nil_r.
  rewrite try_from_ok by reflexivity. cbn [obind]. rewrite skipn_app, skipn_all, Nat.sub_diag. reflexivity.
Qed.

Lemma firstn_app_exact {A} (a b : list A) n : n = length a -> firstn n (a ++ b) = a.
Proof. intros ->. rewrite firstn_app, firstn_all, Nat.sub_diag, firstn_O. apply app_nil_r. Qed.
Lemma skipn_app_exact {A} (a b : list A) n : n = length a -> skipn n (a ++ b) = b.
Proof. intros ->. rewrite skipn_app, skipn_all, Nat.sub_diag. reflexivity. Qed.

Theorem sealed_bytes_roundtrip epk tag data : length epk = 32%nat -> length tag = 16%nat ->
  box_from_sealed_bytes (box_to_bytes (Some epk) tag data) = Ok (Some epk, tag, data).
Proof.
  intros He Ht. unfold box_from_sealed_bytes, box_to_bytes. rewrite !app_length, He, Ht.
  destruct (Nat.ltb_spec (32 + (16 + length data)) 48); [lia|].
  replace (epk ++ tag ++ data) with ((epk ++ tag) ++ data) by (now rewrite app_assoc).
  rewrite (firstn_app_exact (epk ++ tag) data 48) by (rewrite app_length; lia).
  rewrite (skipn_app_exact (epk ++ tag) data 48) by (rewrite app_length; lia).
  rewrite (firstn_app_exact epk tag 32) by lia.
  rewrite (skipn_app_exact epk tag 32) by lia.
  rewrite !try_from_ok by assumption. reflexivity.
Qed.

Theorem signed_bytes_roundtrip sig msg : length sig = 64%nat ->
  signed_from_bytes (signed_to_bytes sig msg) = Ok (sig, msg).
Proof.
  intros Hs. unfold signed_from_bytes, signed_to_bytes. rewrite app_length, Hs.
  destruct (Nat.ltb_spec (64 + length msg) 64); [lia|].
  rewrite firstn_app, <- Hs, firstn_all, Nat.sub_diag, firstn_O, app_nil_r.
  rewrite try_from_ok by reflexivity. cbn [obind]. rewrite skipn_app, skipn_all, Nat.sub_diag. reflexivity.
Qed.

Theorem short_bytes_rejected b :
  ((length b < 16)%nat -> secretbox_from_bytes b = Err /\ box_from_bytes b = Err) /\
  ((length b < 48)%nat -> box_from_sealed_bytes b = Err) /\
  ((length b < 64)%nat -> signed_from_bytes b = Err).
Proof.
  unfold secretbox_from_bytes, box_from_bytes, box_from_sealed_bytes, signed_from_bytes.
  split; [|split]; intros Hb.
  - destruct (Nat.ltb_spec (length b) 16); [split; reflexivity|lia].
  - destruct (Nat.ltb_spec (length b) 48); [reflexivity|lia].
  - destruct (Nat.ltb_spec (length b) 64); [reflexivity|lia].
Qed.
