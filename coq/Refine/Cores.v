(* The translated kernels of crypto_core.rs and siphash24.rs are the specified functions:
   HSalsa20 ("Extending the Salsa20 nonce"), HChaCha20 (draft-irtf-cfrg-xchacha), the SipHash-2-4
   round and parameters. *)
From Coq Require Import ZifyNat ZifyBool.
From Dryoc Require Import Spec.Salsa20 Spec.ChaCha20 Spec.SipHash Impl.Cores.
Import CoresImpl.
Open Scope Z_scope.

Ltac sixteen x H :=
  do 16 (destruct x as [|? x]; [discriminate H|]); destruct x; [|discriminate H].

(* one pass of the Rust loop body = one Salsa20 double round *)
Lemma hsalsa20_body_is_doubleround x : length x = 16%nat -> hsalsa20_body x = Salsa20Spec.doubleround x.
Proof. intros H. sixteen x H. cbv - [add32 rotl32 Z.lxor]. reflexivity. Qed.

Lemma hchacha20_body_is_doubleround x : length x = 16%nat -> hchacha20_body x = ChaCha20Spec.doubleround x.
Proof. intros H. sixteen x H. cbv - [add32 rotl32 Z.lxor]. reflexivity. Qed.

Lemma salsa_qr_at_length x a b c d : length (Salsa20Spec.qr_at x a b c d) = length x.
Proof. unfold Salsa20Spec.qr_at. destruct (Salsa20Spec.qr _ _ _ _) as [[[z0 z1] z2] z3]. now rewrite !upd_length. Qed.
Lemma salsa_doubleround_length x : length (Salsa20Spec.doubleround x) = length x.
Proof. unfold Salsa20Spec.doubleround, Salsa20Spec.rowround, Salsa20Spec.columnround. cbv zeta. now rewrite !salsa_qr_at_length. Qed.
Lemma chacha_qr_at_length x a b c d : length (ChaCha20Spec.qr_at x a b c d) = length x.
Proof. unfold ChaCha20Spec.qr_at. destruct (ChaCha20Spec.qr _ _ _ _) as [[[z0 z1] z2] z3]. now rewrite !upd_length. Qed.
Lemma chacha_doubleround_length x : length (ChaCha20Spec.doubleround x) = length x.
Proof. unfold ChaCha20Spec.doubleround. cbv zeta. now rewrite !chacha_qr_at_length. Qed.

Lemma iter_ext (f g : list Z -> list Z) n x :
  (forall y, length y = 16%nat -> f y = g y) -> (forall y, length (g y) = length y) -> length x = 16%nat ->
  Salsa20Spec.iter n f x = Salsa20Spec.iter n g x.
Proof.
  intros Hfg Hlen. revert x; induction n as [|n IH]; intros x Hx; cbn [Salsa20Spec.iter]; [reflexivity|].
  rewrite Hfg by exact Hx. apply IH. now rewrite Hlen.
Qed.

(* crypto_core_hsalsa20 = HSalsa20, for every key and input *)
Theorem hsalsa20_is_spec k n : CoresImpl.hsalsa20 k n = Salsa20Spec.hsalsa20 k n.
Proof.
  unfold CoresImpl.hsalsa20, Salsa20Spec.hsalsa20.
  change hsalsa20_iters with 10%nat. change hsalsa20_out with [0; 5; 10; 15; 6; 7; 8; 9]%nat.
  assert (Hinit : init_words hsalsa20_layout k n = Salsa20Spec.init_state k n) by reflexivity.
  rewrite Hinit.
  rewrite (iter_ext hsalsa20_body Salsa20Spec.doubleround 10 _ hsalsa20_body_is_doubleround salsa_doubleround_length) by reflexivity.
  reflexivity.
Qed.

(* crypto_core_hchacha20 = HChaCha20, for every 32-byte key and 16-byte input *)
Theorem hchacha20_is_spec k n : length k = 32%nat -> length n = 16%nat ->
  CoresImpl.hchacha20 k n = ChaCha20Spec.hchacha20 k n.
Proof.
  intros Hk Hn. unfold CoresImpl.hchacha20, ChaCha20Spec.hchacha20.
  change hchacha20_iters with 10%nat. change hchacha20_out with [0; 1; 2; 3; 12; 13; 14; 15]%nat.
  assert (Hkw : length (le_words 4 k) = 8%nat) by (unfold le_words, chunks; rewrite map_length, Hk; reflexivity).
  assert (Hnw : length (le_words 4 n) = 4%nat) by (unfold le_words, chunks; rewrite map_length, Hn; reflexivity).
  assert (Hinit : init_words hchacha20_layout k n = Salsa20Spec.sigma ++ le_words 4 k ++ le_words 4 n).
  { unfold init_words, hchacha20_layout. cbn [map fst snd].
    destruct (le_words 4 k) as [|k0 [|k1 [|k2 [|k3 [|k4 [|k5 [|k6 [|k7 [|? ?]]]]]]]]]; try discriminate Hkw.
    destruct (le_words 4 n) as [|n0 [|n1 [|n2 [|n3 [|? ?]]]]]; try discriminate Hnw. reflexivity. }
  rewrite Hinit.
  rewrite (iter_ext hchacha20_body ChaCha20Spec.doubleround 10 _ hchacha20_body_is_doubleround chacha_doubleround_length)
    by (rewrite !app_length, Hkw, Hnw; reflexivity).
  reflexivity.
Qed.

(* the SipHash round closure and the parameters of siphash24 *)
Theorem sip_round_is_spec v0 v1 v2 v3 :
  sip_round [v0; v1; v2; v3] = let '(a, b, c, d) := SipHashSpec.sipround (v0, v1, v2, v3) in [a; b; c; d].
Proof. cbv - [add64 rotl64 Z.lxor]. reflexivity. Qed.

Theorem sip_parameters :
  sip_init = [0x736f6d6570736575; 0x646f72616e646f6d; 0x6c7967656e657261; 0x7465646279746573] /\
  sip_c_rounds = 2%nat /\ sip_d_rounds = 4%nat /\ sip_final_xor = 0xff.
Proof. repeat split; reflexivity. Qed.
