From Coq Require Import ZifyNat ZifyBool.
From Dryoc Require Import Impl.Scalarmult.
Import ScalarmultImpl.
Open Scope Z_scope.

(* the wrapper asks for the RFC 7748 function of the clamped scalar *)
Lemma clamp_is_rfc_clamp n : length n = 32%nat -> clamp n = X25519Spec.clamp n.
Proof.
  intros H. do 32 (destruct n as [|? n]; [discriminate|]). destruct n; [|discriminate]. reflexivity.
Qed.

Lemma scalarmult_is_x25519 n p : length n = 32%nat -> scalarmult n p = X25519Spec.x25519 n p.
Proof. intros H. unfold scalarmult, X25519Spec.x25519, X25519Spec.decode_scalar. now rewrite clamp_is_rfc_clamp. Qed.

(* clamped scalars: bit 254 set, bits 0..2 and 255 clear *)
Lemma land_248 b : 0 <= b < 256 -> Z.land b 248 = 8 * (b / 8).
Proof.
  intros Hb.
  assert (H : forallb (fun x => Z.land x 248 =? 8 * (x / 8)) (map Z.of_nat (seq 0 256)) = true) by (vm_compute; reflexivity).
  rewrite forallb_forall in H. specialize (H b). rewrite Z.eqb_eq in H. apply H.
  apply in_map_iff. exists (Z.to_nat b). split; [lia|]. apply in_seq. lia.
Qed.

Lemma clamp_top b : 0 <= b < 256 -> Z.lor (Z.land b 127) 64 = 64 + (b mod 64).
Proof.
  intros Hb.
  assert (H : forallb (fun x => Z.lor (Z.land x 127) 64 =? 64 + x mod 64) (map Z.of_nat (seq 0 256)) = true) by (vm_compute; reflexivity).
  rewrite forallb_forall in H. specialize (H b). rewrite Z.eqb_eq in H. apply H.
  apply in_map_iff. exists (Z.to_nat b). split; [lia|]. apply in_seq. lia.
Qed.

(* kx: the client's (rx, tx) are the server's (tx, rx) whenever the two
   Diffie-Hellman computations agree (DH commutes: Curve25519 group law, hypothesis) *)
Lemma kx_mirror cpk csk spk ssk :
  scalarmult csk spk = scalarmult ssk cpk ->
  match client_session_keys cpk csk spk, server_session_keys spk ssk cpk with
  | Ok (crx, ctx), Ok (srx, stx) => crx = stx /\ ctx = srx
  | Err, Err => True
  | Panic, Panic => True
  | _, _ => False
  end.
Proof.
  intros Hdh. unfold client_session_keys, server_session_keys. rewrite Hdh.
  destruct (all_zero (scalarmult ssk cpk)); [exact I|].
  destruct (kx cpk spk (scalarmult ssk cpk)) as [[a b]| |]; cbn [obind]; auto.
  (* generichash_chunks with valid parameters never panics; Err/Panic classes coincide on both sides *)
Qed.

Lemma kx_refuses_zero_shared cpk csk spk :
  all_zero (scalarmult csk spk) = true ->
  client_session_keys cpk csk spk = Err /\ server_session_keys cpk csk spk = Err.
Proof. intros H. unfold client_session_keys, server_session_keys. rewrite H. split; reflexivity. Qed.

(* layout: rx || tx of the client = BLAKE2b-512(shared || client_pk || server_pk) *)
Lemma kx_layout cpk csk spk rx tx :
  client_session_keys cpk csk spk = Ok (rx, tx) ->
  exists keys, HashesImpl.generichash_chunks 64 None [scalarmult csk spk; cpk; spk] 64 = Ok keys /\ rx = firstn 32 keys /\ tx = skipn 32 keys.
Proof.
  unfold client_session_keys. destruct (all_zero _); [discriminate|]. unfold kx.
  destruct (HashesImpl.generichash_chunks 64 None _ 64) as [keys| |]; cbn [obind]; try discriminate.
  intros H. injection H as <- <-. exists keys. repeat split; reflexivity.
Qed.
