(* The string made by crypto_pwhash_str describes the hash that was computed: it parses back to
   exactly the algorithm, costs, salt and hash used, and verifies with the same password. *)
From Coq Require Import ZifyNat ZifyBool.
From Dryoc Require Import Spec.Argon2 Impl.PwhashVerify Refine.Argon2 Refine.PwhashStr.
Import Argon2Impl PwhashStr PwhashVerify.
Open Scope Z_scope.

Definition str_params_ok (pw salt : bytes) (opslimit memlimit : Z) : Prop :=
  OPSLIMIT_MIN <= opslimit <= OPSLIMIT_MAX /\ MEMLIMIT_MIN <= memlimit <= MEMLIMIT_MAX /\
  Z.of_nat (length pw) <= MAX_U32 /\ length salt = 16%nat /\ wf_bytes salt.

Lemma str_context_ok pw salt opslimit memlimit :
  str_params_ok pw salt opslimit memlimit ->
  context_ok 32 pw salt None None opslimit (memlimit / 1024) 1 = true /\
  0 <= opslimit < 2 ^ 32 /\ 0 <= memlimit / 1024 < 2 ^ 32.
Proof.
  intros (Ho & Hm & Hp & Hs & _).
  unfold OPSLIMIT_MIN, OPSLIMIT_MAX, MEMLIMIT_MIN, MEMLIMIT_MAX, MAX_U32 in *.
  split; [|lia]. unfold context_ok. rewrite !Bool.andb_true_iff, !in_range_spec.
  unfold MIN_OUTLEN, MIN_SALT_LENGTH, MAX_U32, MAX_LANES, MIN_MEMORY, MAX_MEMORY. rewrite Hs. repeat split; lia.
Qed.

(* crypto_pwhash_str succeeds for in-range costs and its string parses back to what was used *)
Theorem str_is_self_describing pw salt opslimit memlimit :
  str_params_ok pw salt opslimit memlimit ->
  exists h, argon2_hash opslimit (memlimit / 1024) 1 pw salt None None 32 2 = Ok h /\ length h = 32%nat /\
    str pw salt opslimit memlimit = Ok (to_string 2 opslimit (memlimit / 1024) salt h) /\
    parse (to_string 2 opslimit (memlimit / 1024) salt h) =
      Ok (mk_pwhash (Some h) (Some salt) (Some 2) (Some opslimit) (Some (memlimit / 1024)) (Some 1) (Some 19)).
Proof.
  intros Hok. destruct (str_context_ok _ _ _ _ Hok) as (Hc & Ht & Hm).
  destruct Hok as (Ho & Hmem & Hp & Hs & Hws).
  destruct (argon2_hash_accepts_wf opslimit (memlimit / 1024) pw salt 32 2 Hc ltac:(lia)) as (h & E & Hl & Hw).
  exists h. split; [exact E|]. split; [exact Hl|]. split.
  - unfold str. rewrite (proj2 (in_range_spec _ _ _) Ho), (proj2 (in_range_spec _ _ _) Hmem). cbn [negb].
    unfold Argon2Impl.convert_costs. rewrite (w32_small opslimit), (w32_small (memlimit / 1024)) by lia.
    change STR_HASHBYTES with 32%nat. rewrite E. reflexivity.
  - apply parse_to_string; try assumption; try lia; try (right; reflexivity).
    + intros ->. discriminate.
    + intros ->. discriminate.
Qed.

(* ... and verifies with the password it was made from *)
Theorem str_verify_own pw salt opslimit memlimit :
  str_params_ok pw salt opslimit memlimit ->
  exists s, str pw salt opslimit memlimit = Ok s /\ str_verify s pw = Ok tt.
Proof.
  intros Hok. destruct (str_is_self_describing pw salt opslimit memlimit Hok) as (h & E & Hl & Es & Ep).
  eexists. split; [exact Es|].
  unfold str_verify. rewrite Ep. cbn [obind pw_t pw_m pw_p pw_salt pw_type pw_hash].
  change STR_HASHBYTES with 32%nat. rewrite E. cbn [obind].
  rewrite (proj2 (bytes_eqb_eq h h) eq_refl). reflexivity.
Qed.

(* verification is exactly "the 32-byte Argon2 output for the parsed parameters equals the stored hash" *)
Theorem str_verify_iff s pw w t m p salt ty stored :
  parse s = Ok w -> pw_t w = Some t -> pw_m w = Some m -> pw_p w = Some p -> pw_salt w = Some salt ->
  pw_type w = Some ty -> pw_hash w = Some stored ->
  (str_verify s pw = Ok tt <-> argon2_hash t m p pw salt None None 32 ty = Ok stored).
Proof.
  intros Ep Et Em Epp Es Ety Eh. unfold str_verify. rewrite Ep. cbn [obind]. rewrite Et, Em, Epp, Es, Ety, Eh.
  change STR_HASHBYTES with 32%nat.
  destruct (argon2_hash t m p pw salt None None 32 ty) as [h| |]; cbn [obind]; [|split; discriminate|split; discriminate].
  destruct (bytes_eqb h stored) eqn:E.
  - apply bytes_eqb_eq in E. subst. tauto.
  - split; [discriminate|]. intros H. injection H as ->. rewrite (proj2 (bytes_eqb_eq _ _) eq_refl) in E. discriminate.
Qed.
