(* src/argon2.rs indexes Vec<Block> with computed offsets (a panic if out of range).  The model
   totalises indexing with [nth]; this file runs the same loops with every index checked and
   proves that the check never fails: for every geometry argon2_hash can set up, every position
   and ANY memory contents (the reference index depends on the data), all reads and writes of
   fill_segment stay inside the allocated blocks, and the address table is long enough. *)
From Coq Require Import ZifyNat ZifyBool.
From Dryoc Require Import Spec.Argon2 Impl.Argon2 Refine.Argon2.
Import Argon2Impl.
Open Scope Z_scope.
Ltac Zify.zify_post_hook ::= Z.div_mod_to_equations.

Definition in_mem (I : inst) (i : Z) : bool := (0 <=? i) && (i <? Z.of_nat (length (memory I))).

Fixpoint seg_loop_chk (n : nat) (I : inst) (pass lane slice : Z) (dia : bool) (i curr prev : Z) : option inst :=
  match n with
  | O => Some I
  | S n' =>
    let prev := if curr mod lane_length I =? 1 then curr - 1 else prev in
    if negb (in_mem I prev && in_mem I curr && (if dia then (0 <=? i) && (i <? Z.of_nat (length (pseudo_rands I))) else true)) then None
    else
      let pseudo_rand := if dia then nthz (pseudo_rands I) (Z.to_nat i) else nthz (mem_at I prev) 0 in
      let ref_lane := if (pass =? 0) && (slice =? 0) then lane else Z.shiftr pseudo_rand 32 mod lanes I in
      let ref_index := index_alpha (segment_length I) (lane_length I) pass slice i (Z.land pseudo_rand mask32) (ref_lane =? lane) in
      let refi := lane_length I * ref_lane + ref_index in
      if negb (in_mem I refi) then None
      else
        let nb := fill_block (mem_at I prev) (mem_at I refi) (mem_at I curr) (negb (pass =? 0)) in
        seg_loop_chk n' (set_memory I (upd_block (memory I) (Z.to_nat curr) nb)) pass lane slice dia (i + 1) (curr + 1) (prev + 1)
  end.

(* the geometry argon2_hash sets up: 4 segments of seg >= 2 blocks per lane *)
Definition geom (I : inst) : Prop :=
  2 <= segment_length I /\ lane_length I = 4 * segment_length I /\ 1 <= lanes I /\
  Z.of_nat (length (memory I)) = lane_length I * lanes I.

Lemma upd_block_length m i b : length (upd_block m i b) = length m.
Proof. revert i; induction m as [|x m IH]; intros [|i]; cbn [upd_block length]; auto. Qed.

Lemma gen_addr_length n i input addr acc : length (gen_addr n i input addr acc) = (length acc + n)%nat.
Proof.
  revert i input addr acc; induction n as [|n IH]; intros i input addr acc; cbn [gen_addr]; [lia|].
  destruct (i mod ADDRESSES_IN_BLOCK =? 0); rewrite IH, app_length; cbn [length]; lia.
Qed.

Lemma index_alpha_range seg L pass slice index J same : 0 < L -> 0 <= index_alpha seg L pass slice index J same < L.
Proof. intros HL. unfold index_alpha. apply Z.mod_pos_bound. exact HL. Qed.

Lemma lane_range a n L : 0 <= a < n -> 0 < L -> 0 <= a * L /\ a * L + L <= L * n.
Proof. intros Ha HL. split; nia. Qed.

Lemma seg_loop_chk_ok n : forall I pass lane slice dia i curr prev,
  geom I -> 0 <= lane < lanes I -> 0 <= slice <= 3 -> 0 <= i ->
  i + Z.of_nat n = segment_length I ->
  curr = lane * lane_length I + slice * segment_length I + i ->
  (n = O \/ curr mod lane_length I = 1 \/ prev = (if curr mod lane_length I =? 0 then curr + lane_length I - 1 else curr - 1)) ->
  (dia = true -> Z.of_nat (length (pseudo_rands I)) = segment_length I) ->
  seg_loop_chk n I pass lane slice dia i curr prev = Some (seg_loop n I pass lane slice dia i curr prev).
Proof.
  induction n as [|n IH]; intros I pass lane slice dia i curr prev Hg Hlane Hslice Hi Hn Hcurr Hprev Hdia; [reflexivity|].
  cbn [seg_loop_chk seg_loop].
  destruct Hprev as [Hn0|Hprev]; [discriminate|].
  destruct Hg as (Hseg & HL & Hlanes & Hmem).
  set (L := lane_length I) in *. set (seg := segment_length I) in *.
  destruct (lane_range lane (lanes I) L Hlane ltac:(lia)) as [HlaneL HlaneU].
  assert (Hss : 0 <= slice * seg <= 3 * seg) by nia.
  assert (HcurrR : lane * L <= curr < lane * L + L) by lia.
  assert (Hmodc : curr mod L = curr - lane * L).
  { symmetry. apply (Z.mod_unique curr L lane (curr - lane * L)); lia. }
  set (prev' := if curr mod L =? 1 then curr - 1 else prev).
  assert (Hprev' : lane * L <= prev' < lane * L + L).
  { subst prev'. destruct (Z.eqb_spec (curr mod L) 1) as [E|E]; [lia|].
    destruct Hprev as [Hp|Hp]; [contradiction|]. rewrite Hp. destruct (Z.eqb_spec (curr mod L) 0); lia. }
  assert (Hin : forall x, lane * L <= x < lane * L + L -> in_mem I x = true).
  { intros x Hx. unfold in_mem. rewrite Hmem. fold L. destruct (Z.leb_spec 0 x); [|lia]. destruct (Z.ltb_spec x (L * lanes I)); [reflexivity|lia]. }
  rewrite (Hin prev' Hprev'), (Hin curr HcurrR). cbn [andb].
  assert (Hd : (if dia then (0 <=? i) && (i <? Z.of_nat (length (pseudo_rands I))) else true) = true).
  { destruct dia; [|reflexivity]. rewrite (Hdia eq_refl). fold seg. destruct (Z.leb_spec 0 i); [|lia]. destruct (Z.ltb_spec i seg); [reflexivity|lia]. }
  rewrite Hd. cbn [negb].
  set (pr := if dia then nthz (pseudo_rands I) (Z.to_nat i) else nthz (mem_at I prev') 0).
  set (ref_lane := if (pass =? 0) && (slice =? 0) then lane else Z.shiftr pr 32 mod lanes I).
  assert (Hrl : 0 <= ref_lane < lanes I).
  { subst ref_lane. destruct ((pass =? 0) && (slice =? 0)); [exact Hlane|]. apply Z.mod_pos_bound. lia. }
  set (ri := index_alpha seg L pass slice i (Z.land pr mask32) (ref_lane =? lane)).
  assert (Hri : 0 <= ri < L) by (apply index_alpha_range; lia).
  assert (Hrefi : in_mem I (L * ref_lane + ri) = true).
  { destruct (lane_range ref_lane (lanes I) L Hrl ltac:(lia)) as [HrL HrU]. rewrite (Z.mul_comm ref_lane L) in HrL, HrU.
    unfold in_mem. rewrite Hmem. fold L. destruct (Z.leb_spec 0 (L * ref_lane + ri)); [|lia].
    destruct (Z.ltb_spec (L * ref_lane + ri) (L * lanes I)); [reflexivity|lia]. }
  rewrite Hrefi. cbn [negb].
  apply IH.
  - unfold geom, set_memory. cbn [segment_length lane_length lanes memory]. rewrite upd_block_length. fold L seg. auto.
  - exact Hlane.
  - exact Hslice.
  - lia.
  - unfold set_memory. cbn [segment_length]. fold seg. lia.
  - unfold set_memory. cbn [lane_length segment_length]. fold L seg. lia.
  - unfold set_memory. cbn [lane_length]. fold L.
    destruct n as [|n']; [left; reflexivity|right].
    assert (Hmod1 : (curr + 1) mod L = curr + 1 - lane * L).
    { symmetry. apply (Z.mod_unique (curr + 1) L lane (curr + 1 - lane * L)); lia. }
    destruct (Z.eq_dec (curr - lane * L) 0) as [E0|E0]; [left; lia|right].
    rewrite Hmod1. destruct (Z.eqb_spec (curr + 1 - lane * L) 0); [lia|].
    subst prev'. destruct (Z.eqb_spec (curr mod L) 1) as [E|E]; [lia|].
    destruct Hprev as [Hp|Hp]; [contradiction|]. rewrite Hp. destruct (Z.eqb_spec (curr mod L) 0); lia.
  - intros Hd'. unfold set_memory. cbn [pseudo_rands segment_length]. exact (Hdia Hd').
Qed.

Definition fill_segment_chk (I : inst) (pass lane slice : Z) : option inst :=
  let dia := negb ((ty I =? 2) && (negb (pass =? 0) || (SYNC_POINTS / 2 <=? slice))) in
  let I := if dia then generate_addresses I pass lane slice else I in
  let starting_index := if (pass =? 0) && (slice =? 0) then 2 else 0 in
  let curr := lane * lane_length I + slice * segment_length I + starting_index in
  let prev := if curr mod lane_length I =? 0 then curr + lane_length I - 1 else curr - 1 in
  seg_loop_chk (Z.to_nat (segment_length I - starting_index)) I pass lane slice dia starting_index curr prev.

(* every index fill_segment computes is in range, whatever the memory holds *)
Theorem fill_segment_safe I pass lane slice :
  geom I -> 0 <= lane < lanes I -> 0 <= slice <= 3 ->
  fill_segment_chk I pass lane slice = Some (fill_segment I pass lane slice).
Proof.
  intros Hg Hlane Hslice. unfold fill_segment_chk, fill_segment. cbv zeta.
  set (dia := negb ((ty I =? 2) && (negb (pass =? 0) || (SYNC_POINTS / 2 <=? slice)))).
  set (I' := if dia then generate_addresses I pass lane slice else I).
  assert (Hg' : geom I') by (subst I'; destruct dia; [unfold generate_addresses, set_rands, geom in *; cbn [segment_length lane_length lanes memory]; exact Hg|exact Hg]).
  assert (Hlanes' : lanes I' = lanes I) by (subst I'; destruct dia; reflexivity).
  destruct Hg' as (Hseg & HL & Hl1 & Hmem).
  set (st := if (pass =? 0) && (slice =? 0) then 2 else 0).
  assert (Hst : 0 <= st <= 2) by (subst st; destruct ((pass =? 0) && (slice =? 0)); lia).
  apply seg_loop_chk_ok.
  - unfold geom. auto.
  - lia.
  - exact Hslice.
  - lia.
  - lia.
  - reflexivity.
  - right. right. reflexivity.
  - intros Hd. subst I'. rewrite Hd. unfold generate_addresses, set_rands. cbn [pseudo_rands segment_length].
    rewrite gen_addr_length. cbn [length]. destruct Hg as (Hs0 & _). lia.
Qed.

(* the geometry is kept by fill_segment, so it holds at every call of every pass *)
Lemma seg_loop_geom n : forall I pass lane slice dia i curr prev, geom I -> geom (seg_loop n I pass lane slice dia i curr prev).
Proof.
  induction n as [|n IH]; intros I pass lane slice dia i curr prev Hg; cbn [seg_loop]; [exact Hg|].
  apply IH. unfold geom, set_memory in *. cbn [segment_length lane_length lanes memory]. now rewrite upd_block_length.
Qed.

Lemma fill_segment_geom I pass lane slice : geom I -> geom (fill_segment I pass lane slice).
Proof.
  intros Hg. unfold fill_segment. apply seg_loop_geom. destruct (negb _); [|exact Hg].
  unfold generate_addresses, set_rands, geom in *. cbn [segment_length lane_length lanes memory]. exact Hg.
Qed.

(* argon2_hash's instance has that geometry for every accepted parameter set (one lane) *)
Theorem argon2_geometry t m ty : 8 <= m < 2 ^ 32 ->
  let '(mb, seg) := norm_memory m 1 in
  geom (mk_inst (repeat zero_block (Z.to_nat mb)) (repeat 0 (Z.to_nat seg)) t mb seg (mul32 seg SYNC_POINTS) 1 ty).
Proof.
  intros Hm. destruct (norm_memory_one_lane m Hm) as (E & Hseg & Hr). rewrite E.
  unfold geom. cbn [segment_length lane_length lanes memory]. rewrite repeat_length.
  unfold mul32, SYNC_POINTS. rewrite w32_small by lia. lia.
Qed.

(* ------------------------------------------------------------------ the indices are RFC 9106's *)

(* the (previous, reference lane, reference index, current) indices used by each iteration, in order *)
Fixpoint seg_loop_trace (n : nat) (I : inst) (pass lane slice : Z) (dia : bool) (i curr prev : Z) : list (Z * Z * Z * Z * Z) :=
  match n with
  | O => []
  | S n' =>
    let prev := if curr mod lane_length I =? 1 then curr - 1 else prev in
    let pseudo_rand := if dia then nthz (pseudo_rands I) (Z.to_nat i) else nthz (mem_at I prev) 0 in
    let ref_lane := if (pass =? 0) && (slice =? 0) then lane else Z.shiftr pseudo_rand 32 mod lanes I in
    let ref_index := index_alpha (segment_length I) (lane_length I) pass slice i (Z.land pseudo_rand mask32) (ref_lane =? lane) in
    let nb := fill_block (mem_at I prev) (mem_at I (lane_length I * ref_lane + ref_index)) (mem_at I curr) (negb (pass =? 0)) in
    (prev, ref_lane, ref_index, curr, Z.land pseudo_rand mask32) ::
    seg_loop_trace n' (set_memory I (upd_block (memory I) (Z.to_nat curr) nb)) pass lane slice dia (i + 1) (curr + 1) (prev + 1)
  end.

(* RFC 9106 3.4: at column j = slice * seg + i of lane l the new block is computed from B[l][(j - 1) mod q]
   and B[l'][z], where z is the mapping of J1 into the reference set (Argon2Spec.ref_pos) *)
Definition rfc_indices (I : inst) (pass lane slice i : Z) (e : Z * Z * Z * Z * Z) : Prop :=
  let '(prev, ref_lane, ref_index, curr, J1) := e in
  let q := lane_length I in
  let j := slice * segment_length I + i in
  curr = lane * q + j /\ prev = lane * q + (j - 1) mod q /\ 0 <= ref_lane < lanes I /\
  (pass = 0 -> slice = 0 -> ref_lane = lane) /\ 0 <= J1 < 2 ^ 32 /\
  ref_index = Argon2Spec.ref_pos (segment_length I) pass slice i J1 (ref_lane =? lane).

Lemma land_mask32_range x : 0 <= Z.land x mask32 < 2 ^ 32.
Proof. change mask32 with (Z.ones 32). rewrite Z.land_ones by lia. apply Z.mod_pos_bound. lia. Qed.

Lemma prev_step L lane curr prev j : 0 < L -> curr = lane * L + j -> 0 <= j -> j + 1 < L ->
  (curr mod L = 1 \/ prev = (if curr mod L =? 0 then curr + L - 1 else curr - 1)) ->
  (curr + 1) mod L = 1 \/
  (if curr mod L =? 1 then curr - 1 else prev) + 1 = (if (curr + 1) mod L =? 0 then curr + 1 + L - 1 else curr + 1 - 1).
Proof.
  intros HL Hc Hj Hj1 Hprev.
  assert (Hm : curr mod L = j) by (symmetry; apply (Z.mod_unique curr L lane j); lia).
  assert (Hm1 : (curr + 1) mod L = j + 1) by (symmetry; apply (Z.mod_unique (curr + 1) L lane (j + 1)); lia).
  rewrite Hm in *. rewrite Hm1. clear Hm Hm1.
  destruct (Z.eq_dec j 0) as [E0|E0]; [left; lia|right].
  destruct (Z.eqb_spec (j + 1) 0) as [E|E]; [lia|].
  destruct (Z.eqb_spec j 1) as [E1|E1]; [lia|].
  destruct Hprev as [Hp|Hp]; [contradiction|]. rewrite Hp. destruct (Z.eqb_spec j 0); lia.
Qed.

Lemma seg_loop_trace_rfc n : forall I pass lane slice dia i curr prev,
  geom I -> 7 * segment_length I <= 2 ^ 32 -> 0 <= pass -> 0 <= lane < lanes I -> 0 <= slice <= 3 -> 0 <= i ->
  (pass = 0 -> slice = 0 -> 2 <= i) ->
  i + Z.of_nat n = segment_length I ->
  curr = lane * lane_length I + slice * segment_length I + i ->
  (n = O \/ curr mod lane_length I = 1 \/ prev = (if curr mod lane_length I =? 0 then curr + lane_length I - 1 else curr - 1)) ->
  forall k e, nth_error (seg_loop_trace n I pass lane slice dia i curr prev) k = Some e ->
  rfc_indices I pass lane slice (i + Z.of_nat k) e.
Proof.
  induction n as [|n IH]; intros I pass lane slice dia i curr prev Hg Hmax Hpass Hlane Hslice Hi Hfirst Hn Hcurr Hprev k e Hk.
  - destruct k; discriminate.
  - cbn [seg_loop_trace] in Hk.
    destruct Hprev as [Hn0|Hprev]; [discriminate|].
    pose proof Hg as (Hseg & HL & Hlanes & Hmem).
    set (L := lane_length I) in *. set (seg := segment_length I) in *.
    destruct (lane_range lane (lanes I) L Hlane ltac:(lia)) as [HlaneL HlaneU].
    assert (Hss : 0 <= slice * seg <= 3 * seg) by nia.
    assert (Hmodc : curr mod L = curr - lane * L) by (symmetry; apply (Z.mod_unique curr L lane (curr - lane * L)); lia).
    set (prev' := if curr mod L =? 1 then curr - 1 else prev) in *.
    destruct k as [|k].
    + (* this iteration *)
      cbn [nth_error] in Hk. injection Hk as <-. rewrite Z.add_0_r.
      set (pr := if dia then nthz (pseudo_rands I) (Z.to_nat i) else nthz (mem_at I prev') 0).
      set (ref_lane := if (pass =? 0) && (slice =? 0) then lane else Z.shiftr pr 32 mod lanes I).
      unfold rfc_indices. fold L seg.
      assert (Hrl : 0 <= ref_lane < lanes I).
      { subst ref_lane. destruct ((pass =? 0) && (slice =? 0)); [exact Hlane|]. apply Z.mod_pos_bound. lia. }
      assert (HJ : 0 <= Z.land pr mask32 < 2 ^ 32) by apply land_mask32_range.
      split; [lia|]. split; [|split; [exact Hrl|split; [|split; [exact HJ|]]]].
      * (* previous block: (j - 1) mod q within the lane *)
        subst prev'. remember (slice * seg + i) as j eqn:Ej.
        assert (Hj : curr = lane * L + j) by lia.
        assert (HjR : 0 <= j < L) by lia.
        clear IH Hmem HlaneU Hmax Hfirst Hn Hss Hcurr Ej HJ Hrl. clearbody pr ref_lane.
        destruct (Z.eq_dec j 0) as [Hj0|Hj0].
        -- rewrite Hj0. replace ((0 - 1) mod L) with (L - 1) by (apply (Z.mod_unique (0 - 1) L (-1) (L - 1)); lia).
           destruct (Z.eqb_spec (curr mod L) 1) as [E|E]; [lia|].
           destruct Hprev as [Hp|Hp]; [lia|]. rewrite Hp. destruct (Z.eqb_spec (curr mod L) 0); lia.
        -- rewrite (Z.mod_small (j - 1) L) by lia.
           destruct (Z.eqb_spec (curr mod L) 1) as [E|E]; [lia|].
           destruct Hprev as [Hp|Hp]; [lia|]. rewrite Hp. destruct (Z.eqb_spec (curr mod L) 0); lia.
      * intros Hp0 Hs0. subst ref_lane. rewrite Hp0, Hs0. reflexivity.
      * (* the reference index is the RFC's mapping *)
        rewrite HL. apply index_alpha_spec; [|exact HJ].
        unfold position_ok. split; [exact Hseg|]. split; [exact Hmax|]. split; [exact Hpass|]. split; [exact Hslice|].
        split; [lia|]. intros Hp0 Hs0. split; [apply Hfirst; assumption|].
        subst ref_lane. rewrite Hp0, Hs0. cbn [Z.eqb andb]. apply Z.eqb_refl.
    + (* later iterations *)
      cbn [nth_error] in Hk.
      replace (i + Z.of_nat (S k)) with ((i + 1) + Z.of_nat k) by lia.
      match type of Hk with nth_error (seg_loop_trace n ?J _ _ _ _ _ _ _) _ = _ => set (I' := J) in * end.
      assert (Hs' : segment_length I' = seg) by reflexivity.
      assert (HL' : lane_length I' = L) by reflexivity.
      assert (Hla' : lanes I' = lanes I) by reflexivity.
      assert (Hg' : geom I').
      { unfold geom. rewrite Hs', HL', Hla'. subst I'. unfold set_memory. cbn [memory]. rewrite upd_block_length. auto. }
      assert (Hmax' : 7 * segment_length I' <= 2 ^ 32) by (rewrite Hs'; exact Hmax).
      assert (Hlane' : 0 <= lane < lanes I') by (rewrite Hla'; exact Hlane).
      assert (Hf' : pass = 0 -> slice = 0 -> 2 <= i + 1) by (intros Hp0 Hs0; specialize (Hfirst Hp0 Hs0); lia).
      assert (Hn' : i + 1 + Z.of_nat n = segment_length I') by (rewrite Hs'; lia).
      assert (Hc' : curr + 1 = lane * lane_length I' + slice * segment_length I' + (i + 1)) by (rewrite Hs', HL'; lia).
      assert (Hp' : n = O \/ (curr + 1) mod lane_length I' = 1 \/
                    prev' + 1 = (if (curr + 1) mod lane_length I' =? 0 then curr + 1 + lane_length I' - 1 else curr + 1 - 1)).
      { rewrite HL'. destruct n as [|n']; [left; reflexivity|right].
        subst prev'. apply (prev_step L lane curr prev (slice * seg + i)); [lia|lia|lia| |exact Hprev].
        clear IH Hk Hprev Hmem Hg Hg'. lia. }
      pose proof (IH I' pass lane slice dia (i + 1) (curr + 1) (prev' + 1) Hg' Hmax' Hpass Hlane' Hslice ltac:(lia) Hf' Hn' Hc' Hp' k e Hk) as R.
      unfold rfc_indices in *. rewrite Hs', HL', Hla' in R. exact R.
Qed.

(* what one iteration does to the memory, given its indices: B[curr] <- G(B[prev], B[ref]) (xor B[curr] after pass 0) *)
Definition apply_entry (L : Z) (with_xor : bool) (M : list block) (e : Z * Z * Z * Z * Z) : list block :=
  let '(prev, ref_lane, ref_index, curr, _) := e in
  upd_block M (Z.to_nat curr)
    (fill_block (nth (Z.to_nat prev) M zero_block) (nth (Z.to_nat (L * ref_lane + ref_index)) M zero_block)
                (nth (Z.to_nat curr) M zero_block) with_xor).

Lemma fold_entry_cons L x M e es : fold_left (apply_entry L x) (e :: es) M = fold_left (apply_entry L x) es (apply_entry L x M e).
Proof. reflexivity. Qed.

(* the loop is exactly its trace: the memory it leaves is the trace's steps applied in order *)
Lemma seg_loop_follows_trace n : forall I pass lane slice dia i curr prev,
  memory (seg_loop n I pass lane slice dia i curr prev) =
  fold_left (apply_entry (lane_length I) (negb (pass =? 0))) (seg_loop_trace n I pass lane slice dia i curr prev) (memory I).
Proof.
  induction n as [|n IH]; intros I pass lane slice dia i curr prev; [reflexivity|].
  cbn [seg_loop seg_loop_trace]. rewrite fold_entry_cons. rewrite IH. reflexivity.
Qed.
