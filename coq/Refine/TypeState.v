From Dryoc Require Import Impl.TypeState.
Import TypeState.
Open Scope Z_scope.

Lemma rows_sound_true : rows_sound = true.
Proof. vm_compute. reflexivity. Qed.

Lemma rows_sound_spec : forall rt rc rpm rlm bnds, In (rt, rc, rpm, rlm, bnds) impl_rows ->
  (mem rt write_traits = true -> rpm = 0) /\
  (mem rt read_traits = true -> rpm = 0 \/ rpm = 1) /\
  (rt = T_Lock \/ rt = T_ProtectNoAccess -> rlm = 0).
Proof.
  intros rt rc rpm rlm bnds Hin.
  pose proof rows_sound_true as H. unfold rows_sound in H. rewrite forallb_forall in H.
  specialize (H _ Hin). unfold row_sound in H.
  split; [|split].
  - intros Hw. rewrite Hw in H. now apply Z.eqb_eq in H.
  - intros Hr. destruct (mem rt write_traits) eqn:Ew.
    + left. now apply Z.eqb_eq in H.
    + rewrite Hr in H. apply Bool.orb_true_iff in H as [H|H]; apply Z.eqb_eq in H; auto.
  - intros [-> | ->].
    + change (mem T_Lock write_traits) with false in H. change (mem T_Lock read_traits) with false in H.
      change (T_Lock =? T_Lock) with true in H. cbn iota in H. now apply Z.eqb_eq in H.
    + change (mem T_ProtectNoAccess write_traits) with false in H. change (mem T_ProtectNoAccess read_traits) with false in H.
      change (T_ProtectNoAccess =? T_Lock) with false in H. change (T_ProtectNoAccess =? T_ProtectNoAccess) with true in H.
      cbn iota in H. now apply Z.eqb_eq in H.
Qed.
