(* Protected memory: for every region length and every sequence of operations the
   operating-system view (of the assumed OsModel) agrees with the recorded /
   type-level state; released regions are wiped; refused locks surface as Err
   from every Result-returning operation. *)
From Coq Require Import ZifyNat ZifyBool.
From Dryoc Require Import Impl.Protected.
Import ProtectedImpl.
Open Scope Z_scope.
Ltac Zify.zify_post_hook ::= Z.div_mod_to_equations.

Lemma set_prefix_length {A} k (v : A) l : length (set_prefix k v l) = length l.
Proof. unfold set_prefix. rewrite app_length, repeat_length, skipn_length. lia. Qed.

Lemma nth_repeat_lt {A} (v d : A) n i : (i < n)%nat -> nth i (repeat v n) d = v.
Proof. revert i; induction n as [|n IH]; intros [|i] H; cbn; try lia; auto. apply IH. lia. Qed.

Lemma nth_skipn' {A} (l : list A) k j d : nth j (skipn k l) d = nth (k + j) l d.
Proof. revert l; induction k as [|k IH]; intros l; [reflexivity|]. destruct l; [now destruct j|]. cbn [w_main w_clones w_rel r_len r_cap r_prot r_lock r_pm r_lm r_data]. apply IH. Qed.

Lemma nth_set_prefix {A} k (v d : A) l i : (k <= length l)%nat ->
  nth i (set_prefix k v l) d = if (i <? k)%nat then v else nth i l d.
Proof.
  intros Hk. unfold set_prefix. destruct (Nat.ltb_spec i k).
  - rewrite app_nth1 by (rewrite repeat_length; lia). apply nth_repeat_lt. lia.
  - rewrite app_nth2 by (rewrite repeat_length; lia).
    rewrite repeat_length, Nat.min_l by lia. rewrite nth_skipn'. f_equal. lia.
Qed.

Lemma pages_le_alloc len cap : (len <= cap)%nat -> (pages len <= alloc_pages cap)%nat.
Proof. unfold pages, alloc_pages, PAGE. intros. lia. Qed.

Lemma pages_mono a b : (a <= b)%nat -> (pages a <= pages b)%nat.
Proof. unfold pages, PAGE. intros. lia. Qed.

Lemma pages_0 : pages 0 = O. Proof. reflexivity. Qed.

(* the OS view of every page of an allocation, as the recorded state predicts it:
   pages holding data have the rights / lock of the type state, spare pages are
   as allocated (read-write, unlocked) *)
Definition Good (r : region) : Prop :=
  (r_len r <= r_cap r)%nat /\ length (r_prot r) = alloc_pages (r_cap r) /\ length (r_lock r) = alloc_pages (r_cap r) /\
  forall i, (i < alloc_pages (r_cap r))%nat ->
    nth i (r_prot r) 255 = (if (i <? pages (r_len r))%nat then perm_of (r_pm r) else P_RW) /\
    nth i (r_lock r) false = (if (i <? pages (r_len r))%nat then r_lm r else false).

(* the statement of the property for one region: every page holding data *)
Definition Agree (r : region) : Prop :=
  forall i, (i < pages (r_len r))%nat ->
    nth i (r_prot r) 255 = perm_of (r_pm r) /\ nth i (r_lock r) false = r_lm r.

Lemma good_agree r : Good r -> Agree r.
Proof.
  intros [Hlc [Hp [Hl Ha]]] i Hi. pose proof (pages_le_alloc _ _ Hlc).
  specialize (Ha i ltac:(lia)). destruct (Nat.ltb_spec i (pages (r_len r))); [exact Ha|lia].
Qed.

Lemma good_alloc cap len data : (len <= cap)%nat -> Good (os_alloc cap len data).
Proof.
  intros H. unfold Good, os_alloc. cbn [w_main w_clones w_rel r_len r_cap r_prot r_lock r_pm r_lm r_data]. rewrite !repeat_length. repeat split; auto.
  - rewrite nth_repeat_lt by lia. destruct (i <? pages len)%nat; reflexivity.
  - rewrite nth_repeat_lt by lia. destruct (i <? pages len)%nat; reflexivity.
Qed.

Lemma good_mprotect_to r pm : Good r -> Good (mprotect_to r pm).
Proof.
  intros [Hlc [Hp [Hl Ha]]]. unfold mprotect_to, os_mprotect.
  destruct (Nat.eqb_spec (r_len r) 0) as [E|E].
  - unfold Good, set_pm. cbn [w_main w_clones w_rel r_len r_cap r_prot r_lock r_pm r_lm r_data]. repeat split; auto; specialize (Ha i H); rewrite E, pages_0 in *; cbn in *; tauto.
  - pose proof (pages_le_alloc _ _ Hlc) as Hpg.
    unfold Good, set_pm. cbn [w_main w_clones w_rel r_len r_cap r_prot r_lock r_pm r_lm r_data]. rewrite set_prefix_length. repeat split; auto.
    + rewrite nth_set_prefix by lia. specialize (Ha i H). destruct (i <? pages (r_len r))%nat; tauto.
    + specialize (Ha i H). tauto.
Qed.

Lemma good_munlock r : Good r -> Good (set_lm (os_munlock r (r_len r)) false).
Proof.
  intros [Hlc [Hp [Hl Ha]]]. unfold os_munlock.
  destruct (Nat.eqb_spec (r_len r) 0) as [E|E].
  - unfold Good, set_lm. cbn [w_main w_clones w_rel r_len r_cap r_prot r_lock r_pm r_lm r_data]. repeat split; auto; specialize (Ha i H); rewrite E, pages_0 in *; cbn in *; tauto.
  - pose proof (pages_le_alloc _ _ Hlc) as Hpg.
    unfold Good, set_lm. cbn [w_main w_clones w_rel r_len r_cap r_prot r_lock r_pm r_lm r_data]. rewrite set_prefix_length. repeat split; auto.
    + specialize (Ha i H). tauto.
    + rewrite nth_set_prefix by lia. specialize (Ha i H). destruct (i <? pages (r_len r))%nat; tauto.
Qed.

Lemma good_mlock r refuse r' : Good r -> os_mlock r (r_len r) refuse = Ok r' -> Good (set_lm r' true).
Proof.
  intros [Hlc [Hp [Hl Ha]]] H. unfold os_mlock in H.
  destruct (Nat.eqb_spec (r_len r) 0) as [E|E].
  - injection H as <-. unfold Good, set_lm. cbn [w_main w_clones w_rel r_len r_cap r_prot r_lock r_pm r_lm r_data]. repeat split; auto; specialize (Ha i H); rewrite E, pages_0 in *; cbn in *; tauto.
  - destruct refuse; [discriminate|]. destruct (any_none _); [discriminate|]. injection H as <-.
    pose proof (pages_le_alloc _ _ Hlc) as Hpg.
    unfold Good, set_lm. cbn [w_main w_clones w_rel r_len r_cap r_prot r_lock r_pm r_lm r_data]. rewrite set_prefix_length. repeat split; auto.
    + specialize (Ha i H). tauto.
    + rewrite nth_set_prefix by lia. specialize (Ha i H). destruct (i <? pages (r_len r))%nat; tauto.
Qed.

Lemma mlock_keeps r len refuse r' : os_mlock r len refuse = Ok r' ->
  r_len r' = r_len r /\ r_cap r' = r_cap r /\ r_pm r' = r_pm r /\ r_prot r' = r_prot r.
Proof.
  unfold os_mlock. destruct (len =? 0)%nat; [intros H; injection H as <-; auto|].
  destruct refuse; [discriminate|]. destruct (any_none _); [discriminate|]. intros H; injection H as <-. auto.
Qed.

Lemma vec_first_cap_ge len : (len <= vec_first_cap len)%nat.
Proof. unfold vec_first_cap. destruct (Nat.eqb_spec len 0); lia. Qed.

Lemma good_fresh_locked w new_len src r w' :
  fresh_locked w new_len src = Ok (r, w') ->
  Good r /\ w_main w' = w_main w /\ w_clones w' = w_clones w /\ w_rel w' = w_rel w.
Proof.
  unfold fresh_locked. intros H.
  set (cap := vec_first_cap new_len) in *.
  pose proof (good_alloc cap new_len (zeros cap) (vec_first_cap_ge new_len)) as Hg.
  destruct (os_mlock (os_alloc cap new_len (zeros cap)) new_len _) as [r1| |] eqn:E; try discriminate.
  injection H as <- <-. cbn [w_main w_clones w_rel]. split; [|auto].
  pose proof (mlock_keeps _ _ _ _ E) as [K1 [K2 [K3 K4]]]. cbn [os_alloc r_len r_cap r_pm r_prot] in K1, K2, K3, K4.
  change new_len with (r_len (os_alloc cap new_len (zeros cap))) in E at 1.
  pose proof (good_mlock _ _ _ Hg E) as [Hlc [Hp [Hl Ha]]]. unfold set_lm in *. cbn [r_len r_cap r_prot r_lock r_pm r_lm] in *.
  unfold Good. cbn [w_main w_clones w_rel r_len r_cap r_prot r_lock r_pm r_lm r_data]. rewrite K1, K2, K3 in *. repeat split; auto; specialize (Ha i H); tauto.
Qed.

Definition Inv (w : world) : Prop := Good (w_main w) /\ Forall Good (w_clones w).

(* resize (and only resize) requires the read-write state, as the type system enforces *)
Definition legal (w : world) (o : op) : Prop :=
  match o with OGrow | OShrink => r_pm (w_main w) = 0 | _ => True end.

Theorem step_preserves w o w' : Inv w -> legal w o -> step w o = Ok w' -> Inv w'.
Proof.
  intros [Hm Hc] Hleg H. destruct o; cbn [step] in H.
  - destruct (os_mlock (w_main w) (r_len (w_main w)) _) as [r'| |] eqn:E; try discriminate.
    injection H as <-. split; [|exact Hc]. cbn [w_main]. eapply good_mlock; eauto.
  - injection H as <-. split; [|exact Hc]. cbn [w_main]. now apply good_munlock.
  - injection H as <-. split; [|exact Hc]. cbn [w_main]. now apply good_mprotect_to.
  - injection H as <-. split; [|exact Hc]. cbn [w_main]. now apply good_mprotect_to.
  - injection H as <-. split; [|exact Hc]. cbn [w_main]. now apply good_mprotect_to.
  - (* clone *)
    destruct (r_lm (w_main w)).
    + destruct (fresh_locked w _ _) as [[c w1]| |] eqn:E; try discriminate.
      apply good_fresh_locked in E as [Hg [E1 [E2 E3]]]. injection H as <-. cbn [w_main w_clones].
      rewrite E1, E2. split; [exact Hm|]. apply Forall_app. split; [exact Hc|]. constructor; [|constructor].
      destruct (r_pm (w_main w) =? 1); [now apply good_mprotect_to|exact Hg].
    + injection H as <-. cbn [w_main w_clones]. split; [exact Hm|]. apply Forall_app. split; [exact Hc|].
      constructor; [|constructor].
      assert (Hg : Good (os_alloc (r_len (w_main w)) (r_len (w_main w)) (firstn (r_len (w_main w)) (r_data (w_main w)))))
        by (apply good_alloc; lia).
      destruct (r_pm (w_main w) =? 1); [now apply good_mprotect_to|exact Hg].
  - (* grow *)
    cbn [legal] in Hleg. destruct (r_lm (w_main w)) eqn:Elm.
    + destruct (fresh_locked w _ _) as [[n w1]| |] eqn:E; try discriminate.
      apply good_fresh_locked in E as [Hg [E1 [E2 E3]]].
      destruct (drop_region (w_main w)) as [ev r0]. injection H as <-. cbn [w_main w_clones]. rewrite E2. split; assumption.
    + destruct (Nat.leb_spec (r_len (w_main w) + PAGE + 1) (r_cap (w_main w))) as [Hle|Hgt].
      * injection H as <-. cbn [w_main w_clones]. split; [|exact Hc].
        destruct Hm as [Hlc [Hp [Hl Ha]]]. unfold Good. cbn [w_main w_clones w_rel r_len r_cap r_prot r_lock r_pm r_lm r_data]. repeat split; auto.
        -- specialize (Ha i H). rewrite Hleg in *. change (perm_of 0) with P_RW in *.
           destruct Ha as [Ha _]. rewrite Ha. repeat match goal with |- context [if ?b then _ else _] => destruct b end; reflexivity.
        -- specialize (Ha i H). destruct Ha as [_ Ha]. rewrite Ha, Elm.
           repeat match goal with |- context [if ?b then _ else _] => destruct b end; reflexivity.
      * injection H as <-. cbn [w_main w_clones]. split; [|exact Hc]. apply good_alloc. lia.
  - (* shrink *)
    cbn [legal] in Hleg. destruct (r_lm (w_main w)) eqn:Elm.
    + destruct (fresh_locked w _ _) as [[n w1]| |] eqn:E; try discriminate.
      apply good_fresh_locked in E as [Hg [E1 [E2 E3]]].
      destruct (drop_region (w_main w)) as [ev r0]. injection H as <-. cbn [w_main w_clones]. rewrite E2. split; assumption.
    + destruct Hm as [Hlc [Hp [Hl Ha]]].
      destruct (Nat.leb_spec (r_len (w_main w) / 2) (r_cap (w_main w))) as [Hle|Hgt]; [|lia].
      injection H as <-. cbn [w_main w_clones]. split; [|exact Hc].
      unfold Good. cbn [w_main w_clones w_rel r_len r_cap r_prot r_lock r_pm r_lm r_data]. repeat split; auto.
      -- specialize (Ha i H). rewrite Hleg in *. change (perm_of 0) with P_RW in *.
         destruct Ha as [Ha _]. rewrite Ha. repeat match goal with |- context [if ?b then _ else _] => destruct b end; reflexivity.
      -- specialize (Ha i H). destruct Ha as [_ Ha]. rewrite Ha, Elm.
         repeat match goal with |- context [if ?b then _ else _] => destruct b end; reflexivity.
  - (* fill *)
    injection H as <-. cbn [w_main w_clones]. split; [|exact Hc]. exact Hm.
Qed.

Lemma create_good len secret k w : create len secret k = Ok w -> Inv w.
Proof.
  unfold create. set (cap := vec_first_cap len).
  pose proof (good_alloc cap len (zeros cap) (vec_first_cap_ge len)) as Hg.
  destruct (os_mlock (os_alloc cap len (zeros cap)) len _) as [r1| |] eqn:E; try discriminate.
  intros H; injection H as <-. split; [|constructor]. cbn [w_main].
  pose proof (mlock_keeps _ _ _ _ E) as [K1 [K2 [K3 K4]]]. cbn [os_alloc r_len r_cap r_pm r_prot] in K1, K2, K3, K4.
  change len with (r_len (os_alloc cap len (zeros cap))) in E at 1.
  pose proof (good_mlock _ _ _ Hg E) as [Hlc [Hp [Hl Ha]]]. unfold set_lm in *. cbn [r_len r_cap r_prot r_lock r_pm r_lm] in *.
  unfold Good. cbn [w_main w_clones w_rel r_len r_cap r_prot r_lock r_pm r_lm r_data]. rewrite K1, K2, K3 in *. repeat split; auto; specialize (Ha i H); tauto.
Qed.

(* legality along a sequence: every resize happens in the read-write state *)
Fixpoint legal_seq (w : world) (ops : list op) : Prop :=
  match ops with
  | [] => True
  | o :: rest => legal w o /\ match step w o with Ok w' => legal_seq w' rest | _ => True end
  end.

(* C14: every state reached by any legal operation sequence, from a region of any length *)
Theorem reachable_agree len secret k w0 ops :
  create len secret k = Ok w0 -> legal_seq w0 ops ->
  forall w, In (Ok w) (run w0 ops) -> Agree (w_main w) /\ Forall Agree (w_clones w).
Proof.
  intros Hc. pose proof (create_good _ _ _ _ Hc) as Hinv. clear Hc. revert w0 Hinv.
  induction ops as [|o rest IH]; intros w0 Hinv Hleg w Hin; cbn [run] in Hin; [contradiction|].
  cbn [legal_seq] in Hleg. destruct Hleg as [Hl Hrest].
  destruct (step w0 o) as [w1| |] eqn:E.
  - pose proof (step_preserves _ _ _ Hinv Hl E) as Hinv1.
    destruct Hin as [Heq|Hin].
    + injection Heq as <-. destruct Hinv1 as [Hm Hcl]. split; [now apply good_agree|].
      eapply Forall_impl; [|exact Hcl]. intros r. apply good_agree.
    + eapply IH; eauto.
  - destruct Hin as [Heq|[]]. discriminate.
  - destruct Hin as [Heq|[]]. discriminate.
Qed.

(* ---- C15: every release event carries an all-zero region *)
Lemma nonzero_zeros n : nonzero (zeros n) = false.
Proof. unfold nonzero, zeros. induction n; cbn; auto. Qed.

Lemma release_wiped r : snd (release r) = false.
Proof. unfold release. cbn [snd]. apply nonzero_zeros. Qed.

Lemma drop_region_wiped r : snd (fst (drop_region r)) = false.
Proof. unfold drop_region. destruct (r_len r =? 0)%nat; cbn [fst]; apply release_wiped. Qed.

Definition RelOk (w : world) : Prop := Forall (fun e => snd e = false) (w_rel w).

Lemma fresh_locked_rel w n src r w' : fresh_locked w n src = Ok (r, w') -> w_rel w' = w_rel w.
Proof. intros H. apply good_fresh_locked in H. tauto. Qed.

Theorem step_releases_wiped w o w' : RelOk w -> step w o = Ok w' -> RelOk w'.
Proof.
  unfold RelOk. intros Hr H. destruct o; cbn [step] in H.
  - destruct (os_mlock _ _ _); try discriminate. injection H as <-. exact Hr.
  - injection H as <-. exact Hr.
  - injection H as <-. exact Hr.
  - injection H as <-. exact Hr.
  - injection H as <-. exact Hr.
  - destruct (r_lm (w_main w)).
    + destruct (fresh_locked w _ _) as [[c w1]| |] eqn:E; try discriminate.
      apply fresh_locked_rel in E. injection H as <-. cbn [w_rel]. now rewrite E.
    + injection H as <-. exact Hr.
  - destruct (r_lm (w_main w)).
    + destruct (fresh_locked w _ _) as [[n w1]| |] eqn:E; try discriminate.
      apply fresh_locked_rel in E. pose proof (drop_region_wiped (w_main w)) as Hd.
      destruct (drop_region (w_main w)) as [ev r0]. injection H as <-. cbn [w_rel fst] in *.
      rewrite E. apply Forall_app. split; [exact Hr|]. constructor; [exact Hd|constructor].
    + destruct (_ <=? _)%nat; injection H as <-; cbn [w_rel]; [exact Hr|].
      apply Forall_app. split; [exact Hr|]. constructor; [apply release_wiped|constructor].
  - destruct (r_lm (w_main w)).
    + destruct (fresh_locked w _ _) as [[n w1]| |] eqn:E; try discriminate.
      apply fresh_locked_rel in E. pose proof (drop_region_wiped (w_main w)) as Hd.
      destruct (drop_region (w_main w)) as [ev r0]. injection H as <-. cbn [w_rel fst] in *.
      rewrite E. apply Forall_app. split; [exact Hr|]. constructor; [exact Hd|constructor].
    + destruct (_ <=? _)%nat; injection H as <-; cbn [w_rel]; [exact Hr|].
      apply Forall_app. split; [exact Hr|]. constructor; [apply release_wiped|constructor].
  - injection H as <-. exact Hr.
Qed.

Theorem drop_all_wiped w : RelOk w -> Forall (fun e => snd e = false) (fst (drop_all w)).
Proof.
  unfold RelOk, drop_all. intros Hr. cbn [fst]. apply Forall_app. split; [exact Hr|].
  rewrite map_map. apply Forall_forall. intros e Hin. apply in_map_iff in Hin as [r [<- _]]. apply drop_region_wiped.
Qed.

(* ---- C19: Result-returning operations never panic, whatever the refusal schedule *)
Definition result_returning (o : op) : bool :=
  match o with OLock | OUnlock | ORo | ORw | ONa => true | _ => false end.

Theorem result_ops_never_panic w o : result_returning o = true -> step w o <> Panic.
Proof.
  destruct o; cbn [result_returning step]; intros H; try discriminate.
  destruct (os_mlock _ _ _); discriminate.
Qed.

Theorem create_never_panics len secret k : create len secret k <> Panic.
Proof.
  unfold create. destruct (os_mlock _ len _) as [r| |] eqn:E; try discriminate.
  unfold os_mlock in E. destruct (len =? 0)%nat; [discriminate|].
  destruct (refused _); [discriminate|]. destruct (any_none _); discriminate.
Qed.

(* a refused lock is an error of the transition, and regions created earlier keep satisfying Good *)
Theorem refused_lock_is_err w : (r_len (w_main w) <> 0)%nat -> refused w = true -> step w OLock = Err.
Proof.
  intros Hl Hr. cbn [step]. unfold os_mlock.
  destruct (Nat.eqb_spec (r_len (w_main w)) 0); [contradiction|]. now rewrite Hr.
Qed.
