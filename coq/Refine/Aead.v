(* Secret box: round trips, agreement of the API forms, accept-iff-MAC, tag
   tampering, length checks, and "a failed open releases nothing" -- for every
   key stream generator and every one-time authenticator (so in particular
   for XSalsa20 and the Poly1305 implementation model), all lengths. *)
From Coq Require Import ZifyNat ZifyBool.
From Dryoc Require Import Spec.Poly1305 Impl.SecretBox Refine.Poly1305.
Import SecretBoxImpl.
Open Scope Z_scope.

Section SB.
Variable stream : bytes -> bytes -> nat -> bytes.
Variable ota : bytes -> bytes -> bytes.
Hypothesis stream_length : forall k n len, length (stream k n len) = len.
Hypothesis ota_length : forall k m, length (ota k m) = 16%nat.

Lemma ks_tail_length k n (d : bytes) : (length d <= length (skipn 32 (stream k n (32 + length d))))%nat.
Proof. rewrite skipn_length, stream_length. lia. Qed.

Lemma detached_inplace_lengths data n k :
  length (fst (detached_inplace stream ota data n k)) = length data /\
  length (snd (detached_inplace stream ota data n k)) = 16%nat.
Proof. unfold detached_inplace. cbn [fst snd]. split; [apply xor_into_length|apply ota_length]. Qed.

(* --- round trips and agreement of the forms ---------------------------- *)

Lemma open_detached_inplace_roundtrip data n k :
  open_detached_inplace stream ota (fst (detached_inplace stream ota data n k))
                        (snd (detached_inplace stream ota data n k)) n k = (Ok tt, data).
Proof.
  unfold detached_inplace, open_detached_inplace. cbn [fst snd].
  rewrite xor_into_length.
  set (ks := stream k n (32 + length data)).
  assert (E : bytes_eqb (ota (firstn 32 ks) (xor_into data (skipn 32 ks)))
                        (ota (firstn 32 ks) (xor_into data (skipn 32 ks))) = true)
    by (apply bytes_eqb_eq; reflexivity).
  rewrite E. f_equal. apply xor_into_involutive. apply ks_tail_length.
Qed.

(* easy = mac ++ ciphertext of the detached form *)
Lemma easy_is_mac_detached cbuf m n k :
  length cbuf = (length m + 16)%nat ->
  easy stream ota cbuf m n k =
  Ok (snd (detached_inplace stream ota m n k) ++ fst (detached_inplace stream ota m n k)).
Proof.
  intros Hc. unfold easy, MACBYTES.
  destruct (Nat.ltb_spec (length cbuf) 16) as [|_]; [lia|].
  unfold detached. rewrite skipn_length.
  destruct (Nat.ltb_spec (length cbuf - 16) (length m)) as [|_]; [lia|].
  replace (skipn (length m) (skipn 16 cbuf)) with (@nil Z)
    by (symmetry; apply skipn_all2; rewrite skipn_length; lia).
  rewrite app_nil_r. cbn [obind]. destruct (detached_inplace stream ota m n k). reflexivity.
Qed.

Lemma detached_is_detached_inplace cbuf m n k :
  length cbuf = length m ->
  detached stream ota cbuf m n k = Ok (detached_inplace stream ota m n k).
Proof.
  intros Hc. unfold detached. destruct (Nat.ltb_spec (length cbuf) (length m)) as [|_]; [lia|].
  rewrite skipn_all2 by lia. now rewrite app_nil_r.
Qed.

(* in-place form: message followed by 16 spare bytes -> the same box *)
Lemma easy_inplace_is_easy m pad n k :
  length pad = 16%nat ->
  easy_inplace stream ota (m ++ pad) n k =
  Ok (snd (detached_inplace stream ota m n k) ++ fst (detached_inplace stream ota m n k)).
Proof.
  intros Hp. unfold easy_inplace, MACBYTES. rewrite app_length, Hp.
  destruct (Nat.ltb_spec (length m + 16) 16) as [|_]; [lia|].
  replace (length m + 16 - 16)%nat with (length m) by lia.
  rewrite (skipn_app (length m) m pad), skipn_all, Nat.sub_diag.
  change (skipn 0 pad) with pad. change ([] ++ pad) with pad.
  rewrite (firstn_app (length m) m pad), firstn_all, Nat.sub_diag.
  change (firstn 0 pad) with (@nil Z). rewrite app_nil_r.
  rewrite (skipn_app 16 pad m), Hp, Nat.sub_diag, (skipn_all2 pad) by lia.
  change (skipn 0 m) with m. change ([] ++ m) with m.
  destruct (detached_inplace stream ota m n k). reflexivity.
Qed.

Lemma open_easy_roundtrip mbuf m n k :
  length mbuf = length m ->
  open_easy stream ota mbuf
    (snd (detached_inplace stream ota m n k) ++ fst (detached_inplace stream ota m n k)) n k = (Ok tt, m).
Proof.
  intros Hm. destruct (detached_inplace_lengths m n k) as [Hlc Hlm].
  pose proof (open_detached_inplace_roundtrip m n k) as Hrt.
  destruct (detached_inplace stream ota m n k) as [c mac]. cbn [fst snd] in *.
  unfold open_easy, MACBYTES. rewrite app_length, Hlm.
  destruct (Nat.ltb_spec (16 + length c) 16) as [|_]; [lia|].
  rewrite firstn_app, <- Hlm, firstn_all, Nat.sub_diag. cbn [firstn]. rewrite app_nil_r.
  rewrite skipn_app, skipn_all, Nat.sub_diag. cbn [skipn app].
  unfold open_detached. destruct (Nat.ltb_spec (length mbuf) (length c)) as [|_]; [lia|].
  rewrite Hrt. rewrite (skipn_all2 mbuf) by lia. rewrite app_nil_r. reflexivity.
Qed.

Lemma open_easy_inplace_roundtrip m n k :
  open_easy_inplace stream ota
    (snd (detached_inplace stream ota m n k) ++ fst (detached_inplace stream ota m n k)) n k
  = (Ok tt, m ++ snd (detached_inplace stream ota m n k)).
Proof.
  destruct (detached_inplace_lengths m n k) as [Hlc Hlm].
  pose proof (open_detached_inplace_roundtrip m n k) as Hrt.
  destruct (detached_inplace stream ota m n k) as [c mac]. cbn [fst snd] in *.
  unfold open_easy_inplace, MACBYTES. rewrite app_length, Hlm.
  destruct (Nat.ltb_spec (16 + length c) 16) as [|_]; [lia|].
  rewrite firstn_app, <- Hlm, firstn_all, Nat.sub_diag. cbn [firstn]. rewrite app_nil_r.
  rewrite skipn_app, skipn_all, Nat.sub_diag. cbn [skipn app].
  rewrite Hrt. reflexivity.
Qed.

(* --- C02: accept iff the authenticator is the computed one -------------- *)

Lemma open_accept_iff data mac n k :
  fst (open_detached_inplace stream ota data mac n k) = Ok tt <->
  mac = ota (firstn 32 (stream k n (32 + length data))) data.
Proof.
  unfold open_detached_inplace.
  destruct (bytes_eqb mac _) eqn:E; cbn [fst].
  - apply bytes_eqb_eq in E. tauto.
  - split; [discriminate|]. intros H. apply bytes_eqb_eq in H. congruence.
Qed.

Lemma tag_tamper_rejected m n k mac' :
  mac' <> snd (detached_inplace stream ota m n k) ->
  fst (open_detached_inplace stream ota (fst (detached_inplace stream ota m n k)) mac' n k) = Err.
Proof.
  intros Hne. unfold detached_inplace in *. cbn [fst snd] in *.
  unfold open_detached_inplace. rewrite xor_into_length.
  destruct (bytes_eqb mac' _) eqn:E; [|reflexivity].
  apply bytes_eqb_eq in E. contradiction.
Qed.

Lemma short_box_rejected mbuf c n k :
  (length c < 16)%nat ->
  fst (open_easy stream ota mbuf c n k) = Err /\ fst (open_easy_inplace stream ota c n k) = Err.
Proof.
  intros H. unfold open_easy, open_easy_inplace, MACBYTES.
  destruct (Nat.ltb_spec (length c) 16) as [_|]; [|lia]. now split.
Qed.

(* --- C17: after Err the caller's buffer holds nothing derived from the box *)

Lemma failed_open_detached_inplace data mac n k :
  fst (open_detached_inplace stream ota data mac n k) <> Ok tt ->
  open_detached_inplace stream ota data mac n k = (Err, data).
Proof.
  unfold open_detached_inplace. destruct (bytes_eqb mac _); cbn [fst]; [congruence|reflexivity].
Qed.

Lemma failed_open_detached mbuf mac c n k :
  fst (open_detached stream ota mbuf mac c n k) = Err ->
  snd (open_detached stream ota mbuf mac c n k) = mbuf \/
  snd (open_detached stream ota mbuf mac c n k) = zeros (length c) ++ skipn (length c) mbuf.
Proof.
  unfold open_detached. destruct (Nat.ltb_spec (length mbuf) (length c)) as [Hlt|Hge]; cbn [fst snd]; [now left|].
  destruct (open_detached_inplace stream ota c mac n k) as [[[]| |] b]; cbn [fst snd]; intros Hf; try discriminate; right; reflexivity.
Qed.

(* the verdict of open_detached depends on the authenticator, the ciphertext, the nonce and the key only -- not on what
   the caller's buffer holds (in particular not on bytes of a buffer longer than the ciphertext) *)
Lemma open_detached_verdict mbuf mac c n k : (length c <= length mbuf)%nat ->
  (fst (open_detached stream ota mbuf mac c n k) = Ok tt <-> mac = ota (firstn 32 (stream k n (32 + length c))) c).
Proof.
  intros Hl. unfold open_detached. destruct (Nat.ltb_spec (length mbuf) (length c)) as [|_]; [lia|].
  unfold open_detached_inplace. destruct (bytes_eqb mac _) eqn:E; cbn [fst].
  - apply bytes_eqb_eq in E. tauto.
  - split; [discriminate|]. intros H. apply bytes_eqb_eq in H. congruence.
Qed.

Lemma failed_open_easy mbuf c n k :
  fst (open_easy stream ota mbuf c n k) = Err ->
  snd (open_easy stream ota mbuf c n k) = mbuf \/
  snd (open_easy stream ota mbuf c n k) = zeros (length c - 16) ++ skipn (length c - 16) mbuf.
Proof.
  unfold open_easy, MACBYTES. destruct (Nat.ltb_spec (length c) 16) as [_|_]; cbn [fst snd]; [now left|].
  intros H. destruct (failed_open_detached _ _ _ _ _ H) as [E|E]; [now left|right]. rewrite E. now rewrite skipn_length.
Qed.

Lemma failed_open_easy_inplace cbuf n k :
  fst (open_easy_inplace stream ota cbuf n k) = Err ->
  snd (open_easy_inplace stream ota cbuf n k) = cbuf.
Proof.
  unfold open_easy_inplace, MACBYTES. destruct (Nat.ltb_spec (length cbuf) 16); cbn [fst snd]; [reflexivity|].
  destruct (open_detached_inplace stream ota (skipn 16 cbuf) (firstn 16 cbuf) n k) as [[[]| |] d] eqn:E; cbn [fst snd];
    try discriminate; intros _.
  - pose proof (failed_open_detached_inplace (skipn 16 cbuf) (firstn 16 cbuf) n k) as Hf.
    rewrite E in Hf. cbn [fst] in Hf. specialize (Hf ltac:(discriminate)). injection Hf as ->.
    apply firstn_skipn.
  - pose proof (failed_open_detached_inplace (skipn 16 cbuf) (firstn 16 cbuf) n k) as Hf.
    rewrite E in Hf. cbn [fst] in Hf. specialize (Hf ltac:(discriminate)). discriminate.
Qed.

(* --- C04: no open panics, whatever the sizes of the ciphertext and of the caller's buffer --- *)

Lemma open_easy_total mbuf c n k : fst (open_easy stream ota mbuf c n k) <> Panic.
Proof.
  unfold open_easy, MACBYTES. destruct (Nat.ltb_spec (length c) 16); cbn [fst]; [discriminate|].
  unfold open_detached. rewrite skipn_length.
  destruct (Nat.ltb_spec (length mbuf) (length c - 16)); cbn [fst]; [discriminate|].
  destruct (open_detached_inplace stream ota _ _ n k) as [[[]| |] b]; cbn [fst]; discriminate.
Qed.

Lemma open_easy_inplace_total cbuf n k : fst (open_easy_inplace stream ota cbuf n k) <> Panic.
Proof.
  unfold open_easy_inplace, MACBYTES. destruct (Nat.ltb_spec (length cbuf) 16); cbn [fst]; [discriminate|].
  destruct (open_detached_inplace stream ota _ _ n k) as [[[]| |] b]; cbn [fst]; discriminate.
Qed.

End SB.

(* ------------------------------------------------ instantiation: XSalsa20 *)

Import Salsa20Spec.

Lemma qr_at_length x a b c d : length (qr_at x a b c d) = length x.
Proof. unfold qr_at. destruct (qr _ _ _ _) as [[[z0 z1] z2] z3]. now rewrite !upd_length. Qed.

Lemma doubleround_length x : length (doubleround x) = length x.
Proof. unfold doubleround, rowround, columnround. now rewrite !qr_at_length. Qed.

Lemma iter_length {A} (f : A -> A) (len : A -> nat) n x :
  (forall y, len (f y) = len y) -> len (iter n f x) = len x.
Proof. intros Hf. revert x; induction n as [|n IH]; intros x; cbn [iter]; [reflexivity|]. now rewrite IH, Hf. Qed.

Lemma words_bytes_length ws : length (words_bytes ws) = (4 * length ws)%nat.
Proof.
  unfold words_bytes. induction ws as [|w ws IH]; cbn [flat_map length]; [reflexivity|].
  rewrite app_length, le_bytes_length, IH. lia.
Qed.

Lemma block_length k n8 ctr : length (block k n8 ctr) = 64%nat.
Proof.
  unfold block. rewrite words_bytes_length, map_length, combine_length.
  rewrite (iter_length doubleround (@length Z)) by apply doubleround_length.
  reflexivity.
Qed.

Lemma stream_blocks_length nb k n8 ctr : length (stream_blocks nb k n8 ctr) = (64 * nb)%nat.
Proof.
  revert ctr; induction nb as [|nb IH]; intros ctr; cbn [stream_blocks]; [reflexivity|].
  rewrite app_length, block_length, IH. lia.
Qed.

Lemma xsalsa20_length k n len : length (xsalsa20 k n len) = len.
Proof.
  unfold xsalsa20, xsalsa20_stream, salsa20_stream.
  rewrite firstn_length, stream_blocks_length.
  assert (len <= 64 * ((len + 63) / 64))%nat.
  { pose proof (Nat.div_mod (len + 63) 64 ltac:(lia)). pose proof (Nat.mod_upper_bound (len + 63) 64 ltac:(lia)). lia. }
  lia.
Qed.

Lemma poly1305_mac_length k m : length (Poly1305Impl.mac k m) = 16%nat.
Proof.
  unfold Poly1305Impl.mac, Poly1305Impl.finalize, Poly1305Impl.finish.
  destruct (Poly1305Impl.finish_words _ _) as [a b]. now rewrite app_length, !le_bytes_length.
Qed.

(* ---- the lemmas above at XSalsa20 + Poly1305 (what Properties/ cites) ---- *)
Ltac inst_sb L :=
  first [ exact (L xsalsa20 Poly1305Impl.mac xsalsa20_length poly1305_mac_length)
        | exact (L xsalsa20 Poly1305Impl.mac xsalsa20_length)
        | exact (L xsalsa20 Poly1305Impl.mac poly1305_mac_length)
        | exact (L xsalsa20 Poly1305Impl.mac) ].

Lemma sb_easy_is_mac_detached cbuf m n k :
  length cbuf = (length m + 16)%nat ->
  easy_c cbuf m n k = Ok (snd (detached_inplace_c m n k) ++ fst (detached_inplace_c m n k)).
Proof. revert cbuf m n k. inst_sb easy_is_mac_detached. Qed.
Lemma sb_easy_inplace_is_easy m pad n k :
  length pad = 16%nat ->
  easy_inplace_c (m ++ pad) n k = Ok (snd (detached_inplace_c m n k) ++ fst (detached_inplace_c m n k)).
Proof. revert m pad n k. inst_sb easy_inplace_is_easy. Qed.
Lemma sb_detached_is_detached_inplace cbuf m n k :
  length cbuf = length m -> detached_c cbuf m n k = Ok (detached_inplace_c m n k).
Proof. revert cbuf m n k. inst_sb detached_is_detached_inplace. Qed.
Lemma sb_open_easy_roundtrip mbuf m n k :
  length mbuf = length m ->
  open_easy_c mbuf (snd (detached_inplace_c m n k) ++ fst (detached_inplace_c m n k)) n k = (Ok tt, m).
Proof. revert mbuf m n k. inst_sb open_easy_roundtrip. Qed.
Lemma sb_open_easy_inplace_roundtrip m n k :
  open_easy_inplace_c (snd (detached_inplace_c m n k) ++ fst (detached_inplace_c m n k)) n k
  = (Ok tt, m ++ snd (detached_inplace_c m n k)).
Proof. revert m n k. inst_sb open_easy_inplace_roundtrip. Qed.
Lemma sb_open_detached_inplace_roundtrip m n k :
  open_detached_inplace_c (fst (detached_inplace_c m n k)) (snd (detached_inplace_c m n k)) n k = (Ok tt, m).
Proof. revert m n k. inst_sb open_detached_inplace_roundtrip. Qed.
Lemma sb_open_accept_iff data mac n k :
  fst (open_detached_inplace_c data mac n k) = Ok tt <->
  mac = Poly1305Impl.mac (firstn 32 (xsalsa20 k n (32 + length data))) data.
Proof. revert data mac n k. inst_sb open_accept_iff. Qed.
Lemma sb_tag_tamper_rejected m n k mac' :
  mac' <> snd (detached_inplace_c m n k) ->
  fst (open_detached_inplace_c (fst (detached_inplace_c m n k)) mac' n k) = Err.
Proof. revert m n k mac'. inst_sb tag_tamper_rejected. Qed.
Lemma sb_short_box_rejected mbuf c n k :
  (length c < 16)%nat -> fst (open_easy_c mbuf c n k) = Err /\ fst (open_easy_inplace_c c n k) = Err.
Proof. revert mbuf c n k. inst_sb short_box_rejected. Qed.
Lemma sb_failed_open_detached_inplace data mac n k :
  fst (open_detached_inplace_c data mac n k) <> Ok tt -> open_detached_inplace_c data mac n k = (Err, data).
Proof. revert data mac n k. inst_sb failed_open_detached_inplace. Qed.
Lemma sb_failed_open_detached mbuf mac c n k :
  fst (open_detached_c mbuf mac c n k) = Err ->
  snd (open_detached_c mbuf mac c n k) = mbuf \/
  snd (open_detached_c mbuf mac c n k) = zeros (length c) ++ skipn (length c) mbuf.
Proof. revert mbuf mac c n k. inst_sb failed_open_detached. Qed.
Lemma sb_open_detached_verdict mbuf mac c n k : (length c <= length mbuf)%nat ->
  (fst (open_detached_c mbuf mac c n k) = Ok tt <-> mac = Poly1305Impl.mac (firstn 32 (xsalsa20 k n (32 + length c))) c).
Proof. revert mbuf mac c n k. inst_sb open_detached_verdict. Qed.
Lemma sb_failed_open_easy mbuf c n k :
  fst (open_easy_c mbuf c n k) = Err ->
  snd (open_easy_c mbuf c n k) = mbuf \/
  snd (open_easy_c mbuf c n k) = zeros (length c - 16) ++ skipn (length c - 16) mbuf.
Proof. revert mbuf c n k. inst_sb failed_open_easy. Qed.
Lemma sb_failed_open_easy_inplace cbuf n k :
  fst (open_easy_inplace_c cbuf n k) = Err -> snd (open_easy_inplace_c cbuf n k) = cbuf.
Proof. revert cbuf n k. inst_sb failed_open_easy_inplace. Qed.
Lemma sb_open_easy_total mbuf c n k : fst (open_easy_c mbuf c n k) <> Panic.
Proof. revert mbuf c n k. inst_sb open_easy_total. Qed.
Lemma sb_open_easy_inplace_total cbuf n k : fst (open_easy_inplace_c cbuf n k) <> Panic.
Proof. revert cbuf n k. inst_sb open_easy_inplace_total. Qed.

(* ------------------------------------------------------------------ the NaCl construction *)

Lemma words_bytes_wf ws : wf_bytes (Salsa20Spec.words_bytes ws).
Proof.
  unfold Salsa20Spec.words_bytes. induction ws as [|w ws IH]; cbn [flat_map]; [constructor|].
  apply wf_bytes_app. split; [apply le_bytes_wf|exact IH].
Qed.

Lemma stream_blocks_wf nb k n8 ctr : wf_bytes (Salsa20Spec.stream_blocks nb k n8 ctr).
Proof.
  revert ctr; induction nb as [|nb IH]; intros ctr; cbn [Salsa20Spec.stream_blocks]; [constructor|].
  apply wf_bytes_app. split; [unfold Salsa20Spec.block; apply words_bytes_wf|apply IH].
Qed.

Lemma xsalsa20_wf k n len : wf_bytes (SecretBoxImpl.xsalsa20 k n len).
Proof.
  unfold SecretBoxImpl.xsalsa20, Salsa20Spec.xsalsa20_stream, Salsa20Spec.salsa20_stream.
  apply wf_firstn. apply stream_blocks_wf.
Qed.

(* crypto_secretbox as NaCl defines it: XSalsa20 key stream, first 32 bytes key the RFC 8439
   Poly1305 of the ciphertext, the rest encrypts *)
Definition nacl_secretbox (k n m : bytes) : bytes :=
  let ks := SecretBoxImpl.xsalsa20 k n (32 + length m) in
  let c := xor_into m (skipn 32 ks) in
  Poly1305Spec.poly1305 (firstn 32 ks) c ++ c.

Theorem secretbox_is_nacl cbuf m n k : wf_bytes m -> length cbuf = (length m + 16)%nat ->
  SecretBoxImpl.easy_c cbuf m n k = Ok (nacl_secretbox k n m).
Proof.
  intros Hm Hc. rewrite (sb_easy_is_mac_detached cbuf m n k Hc).
  unfold SecretBoxImpl.detached_inplace_c, SecretBoxImpl.detached_inplace, nacl_secretbox. cbn [fst snd].
  set (ks := SecretBoxImpl.xsalsa20 k n (32 + length m)).
  assert (Hks : wf_bytes ks) by apply xsalsa20_wf.
  assert (Hkl : length ks = (32 + length m)%nat) by apply xsalsa20_length.
  rewrite mac_is_rfc; [reflexivity| | |].
  - rewrite firstn_length, Hkl. lia.
  - now apply wf_firstn.
  - apply xor_into_wf; [exact Hm|now apply wf_skipn].
Qed.
