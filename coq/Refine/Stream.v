(* Secret stream: a rejected pull changes nothing; a pull fed the output of a
   push from the same state recovers message and tag and ends in the same
   state as the push (lockstep) -- for every key stream and authenticator,
   every message / associated data / tag byte, from every state. *)
From Coq Require Import ZifyNat ZifyBool.
From Dryoc Require Import Impl.SecretStream Refine.Aead.
Import SecretStreamImpl.
Open Scope Z_scope.

Section SS.
Variable stream : bytes -> bytes -> Z -> nat -> bytes.
Variable ota : bytes -> bytes -> bytes.
Hypothesis stream_length : forall k n ctr len, length k = 32%nat -> length n = 12%nat -> length (stream k n ctr len) = len.
Hypothesis ota_length : forall k m, length (ota k m) = 16%nat.

(* C03 / C17: a pull that does not succeed leaves state, buffer and tag alone *)
Lemma failed_pull_preserves s mbuf tagvar c ad :
  fst (fst (fst (pull stream ota s mbuf tagvar c ad))) <> Ok (length c - ABYTES)%nat ->
  pull stream ota s mbuf tagvar c ad = (Err, s, mbuf, tagvar).
Proof.
  unfold pull.
  destruct (length c <? ABYTES)%nat; [reflexivity|].
  destruct (length mbuf <? length c - ABYTES)%nat; [reflexivity|].
  destruct (MESSAGEBYTES_MAX <? Z.of_nat (length c)); [reflexivity|].
  destruct (negb (bytes_eqb _ _)); [reflexivity|].
  cbn [fst]. congruence.
Qed.

(* C04: the model of pull has no panic site once lengths are checked first *)
Lemma pull_never_panics s mbuf tagvar c ad :
  fst (fst (fst (pull stream ota s mbuf tagvar c ad))) <> Panic.
Proof.
  unfold pull.
  destruct (length c <? ABYTES)%nat; [cbn; discriminate|].
  destruct (length mbuf <? length c - ABYTES)%nat; [cbn; discriminate|].
  destruct (MESSAGEBYTES_MAX <? Z.of_nat (length c)); [cbn; discriminate|].
  destruct (negb (bytes_eqb _ _)); cbn; discriminate.
Qed.

Lemma obj_pull_never_panics s c ad : fst (obj_pull stream ota s c ad) <> Panic.
Proof.
  unfold obj_pull. destruct (length c <? ABYTES)%nat; [cbn; discriminate|].
  pose proof (pull_never_panics s (zeros (length c - ABYTES)) 0 c ad) as Hp.
  destruct (pull stream ota s _ 0 c ad) as [[[[n| |] s'] m] t]; cbn [fst] in *; try discriminate. congruence.
Qed.

Lemma short_ciphertext_rejected s mbuf tagvar c ad :
  (length c < 17)%nat -> pull stream ota s mbuf tagvar c ad = (Err, s, mbuf, tagvar).
Proof. intros H. unfold pull, ABYTES. destruct (Nat.ltb_spec (length c) 17); [reflexivity|lia]. Qed.

Lemma xor_into_zeros_l n (ks : bytes) : length ks = n -> xor_into (zeros n) ks = ks.
Proof.
  revert ks; induction n as [|n IH]; intros [|k ks] Hl; cbn in *; try discriminate; [reflexivity|].
  rewrite Z.lxor_0_l. f_equal. apply IH. lia.
Qed.

Lemma xor_head_zeros t (ks : bytes) :
  length ks = 64%nat ->
  xor_into (t :: zeros 63) ks = Z.lxor t (nthz ks 0) :: skipn 1 ks.
Proof.
  intros Hl. destruct ks as [|k0 ks]; [discriminate|]. cbn [xor_into nthz nth skipn]. f_equal.
  apply xor_into_zeros_l. cbn [length] in Hl. lia.
Qed.

(* C03 lockstep: pull of a push from the same state *)
Theorem push_pull_lockstep s m ad tag mbuf tagvar :
  length (st_k s) = 32%nat -> length (st_nonce s) = 12%nat ->
  Z.of_nat (length m) + 17 <= MESSAGEBYTES_MAX -> (length m <= length mbuf)%nat ->
  exists c, fst (push stream ota s (length m + ABYTES) m ad tag) = Ok c /\
    length c = (length m + 17)%nat /\
    pull stream ota s mbuf tagvar c ad =
      (Ok (length m), snd (push stream ota s (length m + ABYTES) m ad tag), m ++ skipn (length m) mbuf, tag).
Proof.
  intros Hk Hn Hmax Hbuf. unfold push.
  rewrite Nat.eqb_refl. cbn [negb].
  destruct (Z.ltb_spec MESSAGEBYTES_MAX (Z.of_nat (length m))) as [|_]; [lia|].
  set (mac_key := stream (st_k s) (st_nonce s) 0 32).
  set (ks1 := stream (st_k s) (st_nonce s) 1 64).
  set (ks2 := stream (st_k s) (st_nonce s) 2 (length m)).
  assert (Hks1 : length ks1 = 64%nat) by (apply stream_length; assumption).
  assert (Hks2 : length ks2 = length m) by (apply stream_length; assumption).
  rewrite (xor_head_zeros tag ks1 Hks1).
  set (c0 := Z.lxor tag (nthz ks1 0)).
  set (block := c0 :: skipn 1 ks1).
  set (cbody := xor_into m ks2).
  set (mac := ota mac_key (mac_input ad block cbody)).
  assert (Hcb : length cbody = length m) by apply xor_into_length.
  assert (Hmac : length mac = 16%nat) by apply ota_length.
  cbn [fst snd nthz nth].
  exists (c0 :: cbody ++ mac). split; [reflexivity|]. split; [cbn [length]; rewrite app_length; lia|].
  unfold pull, ABYTES. cbn [length]. rewrite app_length, Hcb, Hmac.
  destruct (Nat.ltb_spec (S (length m + 16)) 17) as [|_]; [lia|].
  replace (S (length m + 16) - 17)%nat with (length m) by lia.
  destruct (Nat.ltb_spec (length mbuf) (length m)) as [|_]; [lia|].
  destruct (Z.ltb_spec MESSAGEBYTES_MAX (Z.of_nat (S (length m + 16)))) as [|_]; [lia|].
  cbn [nthz nth]. fold mac_key ks1.
  rewrite (xor_head_zeros c0 ks1 Hks1). cbn [nthz nth skipn].
  assert (Htag : Z.lxor c0 (nthz ks1 0) = tag).
  { unfold c0. now rewrite Z.lxor_assoc, Z.lxor_nilpotent, Z.lxor_0_r. }
  rewrite Htag.
  change (match ks1 with [] => [] | _ :: l => l end) with (skipn 1 ks1).
  fold block.
  assert (Hslice : slice (c0 :: cbody ++ mac) 1 (1 + length m) = cbody).
  { unfold slice. cbn [skipn]. replace (1 + length m - 1)%nat with (length cbody) by lia.
    rewrite firstn_app, firstn_all, Nat.sub_diag. cbn [firstn]. apply app_nil_r. }
  rewrite Hslice.
  assert (Htail : skipn (1 + length m) (c0 :: cbody ++ mac) = mac).
  { cbn [Nat.add skipn]. rewrite <- Hcb, skipn_app, skipn_all, Nat.sub_diag. reflexivity. }
  rewrite Htail. fold mac.
  assert (E : bytes_eqb mac mac = true) by (apply bytes_eqb_eq; reflexivity).
  rewrite E. cbn [negb]. fold ks2.
  unfold cbody. rewrite xor_into_involutive by lia. reflexivity.
Qed.

End SS.

(* ------------------------------------------------ instantiation: ChaCha20 *)

Import ChaCha20Spec.

Lemma cqr_at_length x a b c d : length (ChaCha20Spec.qr_at x a b c d) = length x.
Proof. unfold ChaCha20Spec.qr_at. destruct (ChaCha20Spec.qr _ _ _ _) as [[[z0 z1] z2] z3]. now rewrite !upd_length. Qed.

Lemma cdoubleround_length x : length (ChaCha20Spec.doubleround x) = length x.
Proof. unfold ChaCha20Spec.doubleround. now rewrite !cqr_at_length. Qed.

Lemma cblock_length k ctr n12 : length k = 32%nat -> length n12 = 12%nat -> length (ChaCha20Spec.block k ctr n12) = 64%nat.
Proof.
  intros Hk Hn. unfold ChaCha20Spec.block.
  rewrite Refine.Aead.words_bytes_length, map_length, combine_length.
  rewrite (Refine.Aead.iter_length ChaCha20Spec.doubleround (@length Z)) by apply cdoubleround_length.
  unfold ChaCha20Spec.init_state. rewrite !app_length.
  unfold le_words, chunks. rewrite !map_length, !chunks_n_slices, !map_length, !seq_length, Hk, Hn. reflexivity.
Qed.

Lemma cstream_blocks_length nb k ctr n12 : length k = 32%nat -> length n12 = 12%nat ->
  length (ChaCha20Spec.stream_blocks nb k ctr n12) = (64 * nb)%nat.
Proof.
  intros Hk Hn. revert ctr; induction nb as [|nb IH]; intros ctr; cbn [ChaCha20Spec.stream_blocks]; [reflexivity|].
  rewrite app_length, cblock_length, IH by assumption. lia.
Qed.

Lemma chacha_length k n ctr len : length k = 32%nat -> length n = 12%nat -> length (chacha k n ctr len) = len.
Proof.
  intros Hk Hn. unfold chacha, ChaCha20Spec.chacha20_stream.
  rewrite firstn_length, cstream_blocks_length by assumption.
  assert (len <= 64 * ((len + 63) / 64))%nat.
  { pose proof (Nat.div_mod (len + 63) 64 ltac:(lia)). pose proof (Nat.mod_upper_bound (len + 63) 64 ltac:(lia)). lia. }
  lia.
Qed.

(* ---- the lemmas above at ChaCha20 + Poly1305 (what Properties/ cites) ---- *)
Ltac inst_ss L :=
  first [ exact (L chacha Poly1305Impl.mac chacha_length poly1305_mac_length)
        | exact (L chacha Poly1305Impl.mac chacha_length)
        | exact (L chacha Poly1305Impl.mac poly1305_mac_length)
        | exact (L chacha Poly1305Impl.mac) ].

Lemma ss_failed_pull_preserves s mbuf tagvar c ad :
  fst (fst (fst (pull_c s mbuf tagvar c ad))) <> Ok (length c - ABYTES)%nat ->
  pull_c s mbuf tagvar c ad = (Err, s, mbuf, tagvar).
Proof. revert s mbuf tagvar c ad. inst_ss failed_pull_preserves. Qed.
Lemma ss_pull_never_panics s mbuf tagvar c ad : fst (fst (fst (pull_c s mbuf tagvar c ad))) <> Panic.
Proof. revert s mbuf tagvar c ad. inst_ss pull_never_panics. Qed.
Lemma ss_obj_pull_never_panics s c ad : fst (obj_pull_c s c ad) <> Panic.
Proof. revert s c ad. inst_ss obj_pull_never_panics. Qed.
Lemma ss_short_ciphertext_rejected s mbuf tagvar c ad :
  (length c < 17)%nat -> pull_c s mbuf tagvar c ad = (Err, s, mbuf, tagvar).
Proof. revert s mbuf tagvar c ad. inst_ss short_ciphertext_rejected. Qed.
Lemma ss_push_pull_lockstep s m ad tag mbuf tagvar :
  length (st_k s) = 32%nat -> length (st_nonce s) = 12%nat ->
  Z.of_nat (length m) + 17 <= MESSAGEBYTES_MAX -> (length m <= length mbuf)%nat ->
  exists c, fst (push_c s (length m + ABYTES) m ad tag) = Ok c /\
    length c = (length m + 17)%nat /\
    pull_c s mbuf tagvar c ad =
      (Ok (length m), snd (push_c s (length m + ABYTES) m ad tag), m ++ skipn (length m) mbuf, tag).
Proof. revert s m ad tag mbuf tagvar. inst_ss push_pull_lockstep. Qed.
