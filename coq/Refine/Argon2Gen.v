(* The permutation inside Argon2's compression function, as read from src/argon2.rs on this run
   (Gen/Kernels.v: the statements of the g closure, the eight g calls of blake2_round_nomsg, the
   index expressions of the two loops of fill_block), is the one the model runs. *)
From Dryoc Require Import Impl.Argon2 Gen.Kernels.
Import Argon2Impl.
Open Scope Z_scope.

(* the g closure from its translated statement list *)
Definition g_gen (b : block) (a bb c d : nat) : block :=
  let pos := [a; bb; c; d] in
  fold_left (fun b (s : nat * nat * nat * Z) =>
               let '(kind, x, y, r) := s in
               match kind with
               | O => mixa b (nth x pos O) (nth y pos O)
               | _ => mixr b (nth x pos O) (nth y pos O) r
               end) argon2_g_ops b.

Lemma g_gen_is_g b a bb c d : g_gen b a bb c d = g b a bb c d.
Proof. reflexivity. Qed.

Definition round_gen (b : block) (v : list nat) : block :=
  fold_left (fun b (c : nat * nat * nat * nat) =>
               let '(p, q, r, s) := c in g_gen b (nth p v O) (nth q v O) (nth r v O) (nth s v O))
            argon2_g_calls b.

Lemma fold_cons {A B} (f : A -> B -> A) x l a : fold_left f (x :: l) a = fold_left f l (f a x).
Proof. reflexivity. Qed.
Lemma fold_nil {A B} (f : A -> B -> A) a : fold_left f [] a = a.
Proof. reflexivity. Qed.

Lemma fold_calls_ext (calls : list (nat * nat * nat * nat)) v : forall b,
  fold_left (fun b (c : nat * nat * nat * nat) => let '(p, q, r, s) := c in g_gen b (nth p v O) (nth q v O) (nth r v O) (nth s v O)) calls b =
  fold_left (fun b (c : nat * nat * nat * nat) => let '(p, q, r, s) := c in g b (nth p v O) (nth q v O) (nth r v O) (nth s v O)) calls b.
Proof.
  induction calls as [|[[[p q] r] s] calls IH]; intros b; [reflexivity|].
  rewrite !fold_cons. rewrite IH. f_equal.
Qed.

Local Opaque g.
Lemma round_gen_is_round b v : round_gen b v = blake2_round_nomsg b v.
Proof.
  unfold round_gen. rewrite fold_calls_ext. unfold argon2_g_calls. rewrite !fold_cons, fold_nil.
  unfold blake2_round_nomsg. cbv beta iota zeta. reflexivity.
Qed.
Local Transparent g.

Lemma row_indices_tie : argon2_row_indices = map row_indices (seq 0 8).
Proof. vm_compute. reflexivity. Qed.

Lemma col_indices_tie : argon2_col_indices = map col_indices (seq 0 8).
Proof. vm_compute. reflexivity. Qed.

(* fill_block with the translated tables = the model's fill_block *)
Theorem fill_block_gen (prev_block ref_block next_block : block) (with_xor : bool) :
  (let block_r := xor_block ref_block prev_block in
   let block_tmp := if with_xor then xor_block block_r next_block else block_r in
   let block_r := fold_left round_gen argon2_row_indices block_r in
   let block_r := fold_left round_gen argon2_col_indices block_r in
   xor_block block_tmp block_r) = fill_block prev_block ref_block next_block with_xor.
Proof.
  unfold fill_block. rewrite row_indices_tie, col_indices_tie. cbv zeta.
  assert (H : forall (f : nat -> list nat) l b,
             fold_left round_gen (map f l) b = fold_left (fun b i => blake2_round_nomsg b (f i)) l b).
  { intros f l. induction l as [|x l IH]; intros b; [reflexivity|]. rewrite map_cons, !fold_cons. rewrite IH, round_gen_is_round. reflexivity. }
  rewrite !H. reflexivity.
Qed.
