(* The public-key and sealed forms of crypto_box.rs in terms of the secret-key forms. *)
From Coq Require Import ZifyNat ZifyBool.
From Dryoc Require Import Impl.Box Refine.Aead Refine.Hashes.
Import SecretBoxImpl ScalarmultImpl BoxImpl.
Open Scope Z_scope.

Lemma firstn_app_len {A} (a b : list A) n : n = length a -> firstn n (a ++ b) = a.
Proof. intros ->. rewrite firstn_app, firstn_all, Nat.sub_diag, firstn_O. apply app_nil_r. Qed.
Lemma skipn_app_len {A} (a b : list A) n : n = length a -> skipn n (a ++ b) = b.
Proof. intros ->. rewrite skipn_app, skipn_all, Nat.sub_diag. reflexivity. Qed.

Definition sbox (m n k : bytes) : bytes :=
  snd (detached_inplace_c m n k) ++ fst (detached_inplace_c m n k).

(* every public-key form is the secret-key form under the precomputed key *)
Lemma box_easy_is_secretbox cbuf m n pk sk : length cbuf = (length m + 16)%nat ->
  easy cbuf m n pk sk = Ok (sbox m n (beforenm pk sk)).
Proof.
  intros Hl. unfold easy, BoxImpl.MACBYTES. destruct (Nat.ltb_spec (length cbuf) 16); [lia|].
  unfold detached. rewrite sb_detached_is_detached_inplace by (rewrite skipn_length; lia).
  cbn [obind]. unfold sbox. destruct (detached_inplace_c m n (beforenm pk sk)) as [c mac]. reflexivity.
Qed.

Lemma box_easy_inplace_is_secretbox m pad n pk sk : length pad = 16%nat ->
  easy_inplace (m ++ pad) n pk sk = Ok (sbox m n (beforenm pk sk)).
Proof.
  intros Hp. pose proof (sb_easy_inplace_is_easy m pad n (beforenm pk sk) Hp) as H.
  unfold easy_inplace_c, SecretBoxImpl.easy_inplace, SecretBoxImpl.MACBYTES in H.
  unfold easy_inplace, BoxImpl.MACBYTES.
  rewrite app_length, Hp in *. destruct (Nat.ltb_spec (length m + 16) 16); [lia|]. exact H.
Qed.

Lemma box_open_is_secretbox mbuf c n pk sk : open_easy mbuf c n pk sk = open_easy_c mbuf c n (beforenm pk sk).
Proof. reflexivity. Qed.

Lemma box_open_inplace_is_secretbox cbuf n pk sk :
  open_easy_inplace cbuf n pk sk = open_easy_inplace_c cbuf n (beforenm pk sk).
Proof. reflexivity. Qed.

(* round trip between two parties, given that their precomputed keys agree (X25519 commutes:
   the Montgomery group law, an assumption of C05) *)
Theorem box_roundtrip cbuf mbuf m n pkA skA pkB skB :
  beforenm pkB skA = beforenm pkA skB ->
  length cbuf = (length m + 16)%nat -> length mbuf = length m ->
  exists c, easy cbuf m n pkB skA = Ok c /\ open_easy mbuf c n pkA skB = (Ok tt, m) /\ length c = (length m + 16)%nat.
Proof.
  intros Hdh Hc Hm. exists (sbox m n (beforenm pkB skA)). split; [now apply box_easy_is_secretbox|].
  rewrite box_open_is_secretbox, <- Hdh. split; [now apply sb_open_easy_roundtrip|].
  unfold sbox, detached_inplace_c, detached_inplace. cbn [fst snd].
  rewrite app_length, poly1305_mac_length, xor_into_length. lia.
Qed.

(* the nonce derivation cannot fail: generichash_init(None, 24), two updates, final *)
Lemma update_keeps_f s x : Blake2bImpl.st_f (Blake2bImpl.update_c s x) = Blake2bImpl.st_f s.
Proof.
  unfold Blake2bImpl.update_c, Blake2bImpl.update.
  destruct (length x =? 0)%nat; [reflexivity|].
  destruct (length x + length (Blake2bImpl.st_buf s) <=? Blake2bImpl.BLOCKBYTES)%nat; [reflexivity|].
  cbv zeta. destruct (Blake2bImpl.blocks_fold _ _ _ _ _ _) as [h1 t1].
  destruct (Blake2bImpl.blocks_fold _ _ _ _ _ _) as [h2 t2]. reflexivity.
Qed.

Lemma seal_nonce_ok epk rpk : exists nonce, seal_nonce epk rpk = Ok nonce.
Proof.
  unfold seal_nonce, HashesImpl.generichash_chunks.
  change (negb (HashesImpl.validate_outlen 24)) with false. change (negb (HashesImpl.validate_key None)) with false. cbv iota.
  change (Blake2bImpl.init_c (Z.land (Z.of_nat 24) mask8) None None None)
    with (Ok (Blake2bImpl.init_param (Blake2bImpl.params_bytes 24 0 (zeros 16) (zeros 16)))).
  cbn [obind fold_left].
  set (s0 := Blake2bImpl.init_param _).
  set (s2 := Blake2bImpl.update_c (Blake2bImpl.update_c s0 epk) rpk).
  assert (Hf : Blake2bImpl.st_f s2 = (0, 0)) by (subst s2; rewrite !update_keeps_f; reflexivity).
  unfold Blake2bImpl.finalize_c, Blake2bImpl.finalize.
  change ((24 =? 0)%nat || (Blake2bImpl.OUTBYTES <? 24)%nat) with false. cbv iota.
  unfold Blake2bImpl.is_lastblock. rewrite Hf. cbn [fst Z.eqb negb]. eexists. reflexivity.
Qed.

(* sealed boxes: layout, nonce, and the round trip *)
Theorem seal_layout cbuf m rpk esk c :
  seal cbuf m rpk esk = Ok c ->
  exists nonce, seal_nonce (scalarmult_base esk) rpk = Ok nonce /\
    firstn 32 c = scalarmult_base esk /\
    easy (skipn 32 cbuf) m nonce rpk esk = Ok (skipn 32 c).
Proof.
  assert (Hl : length (scalarmult_base esk) = 32%nat) by (unfold scalarmult_base, scalarmult; apply le_bytes_length).
  unfold seal, BoxImpl.SEALBYTES, BoxImpl.PUBLICKEYBYTES.
  remember (scalarmult_base esk) as epk eqn:Eepk. clear Eepk.
  destruct (length cbuf <? length m + 48)%nat; [discriminate|].
  destruct (seal_nonce epk rpk) as [nonce| |]; cbn [obind]; try discriminate.
  destruct (easy (skipn 32 cbuf) m nonce rpk esk) as [boxed| |] eqn:Ee; cbn [obind]; try discriminate.
  intros H. assert (Hc : c = epk ++ boxed) by congruence. subst c. exists nonce. split; [reflexivity|].
  split.
  - apply firstn_app_len. now rewrite Hl.
  - rewrite skipn_app_len by now rewrite Hl. exact Ee.
Qed.

Theorem seal_roundtrip cbuf mbuf m rpk rsk esk :
  beforenm rpk esk = beforenm (scalarmult_base esk) rsk ->
  length cbuf = (length m + 48)%nat -> length mbuf = length m ->
  exists c, seal cbuf m rpk esk = Ok c /\ seal_open mbuf c rpk rsk = (Ok tt, m).
Proof.
  intros Hdh Hc Hm.
  assert (Hl : length (scalarmult_base esk) = 32%nat) by (unfold scalarmult_base, scalarmult; apply le_bytes_length).
  unfold seal, BoxImpl.SEALBYTES, BoxImpl.PUBLICKEYBYTES.
  remember (scalarmult_base esk) as epk eqn:Eepk. clear Eepk.
  destruct (Nat.ltb_spec (length cbuf) (length m + 48)); [lia|].
  destruct (seal_nonce_ok epk rpk) as [nonce En]. rewrite En.
  cbn [obind].
  destruct (box_roundtrip (skipn 32 cbuf) mbuf m nonce epk esk rpk rsk) as (c & Hc1 & Hc2 & Hc3);
    [exact Hdh|rewrite skipn_length; lia|exact Hm|].
  assert (Heasy : easy (skipn 32 cbuf) m nonce rpk esk = Ok c) by exact Hc1.
  rewrite Heasy. cbn [obind]. eexists. split; [reflexivity|].
  unfold seal_open, BoxImpl.SEALBYTES, BoxImpl.PUBLICKEYBYTES. rewrite app_length, Hl, Hc3.
  destruct (Nat.ltb_spec (32 + (length m + 16)) 48); [lia|].
  destruct (Nat.eqb_spec (length mbuf) (32 + (length m + 16) - 48)) as [_|Hne]; [|lia]. cbn [negb].
  rewrite firstn_app_len by now rewrite Hl. rewrite skipn_app_len by now rewrite Hl.
  rewrite En. exact Hc2.
Qed.

(* untrusted input: opening a box or a sealed box never panics *)
Theorem box_open_total mbuf c n pk sk : fst (open_easy mbuf c n pk sk) <> Panic.
Proof. rewrite box_open_is_secretbox. apply sb_open_easy_total. Qed.

Theorem box_open_inplace_total cbuf n pk sk : fst (open_easy_inplace cbuf n pk sk) <> Panic.
Proof. rewrite box_open_inplace_is_secretbox. apply sb_open_easy_inplace_total. Qed.

(* a failed public-key open leaves the caller's buffer as it was, or zeroed where the
   ciphertext had been copied *)
Theorem failed_box_open mbuf c n pk sk :
  fst (open_easy mbuf c n pk sk) = Err ->
  snd (open_easy mbuf c n pk sk) = mbuf \/
  snd (open_easy mbuf c n pk sk) = zeros (length c - 16) ++ skipn (length c - 16) mbuf.
Proof. rewrite box_open_is_secretbox. apply sb_failed_open_easy. Qed.

Theorem seal_open_total mbuf c rpk rsk : fst (seal_open mbuf c rpk rsk) <> Panic.
Proof.
  unfold seal_open, BoxImpl.SEALBYTES, BoxImpl.PUBLICKEYBYTES.
  destruct (Nat.ltb_spec (length c) 48); [cbn [fst]; discriminate|].
  destruct (Nat.eqb_spec (length mbuf) (length c - 48)) as [E|E]; cbn [negb]; [|cbn [fst]; discriminate].
  destruct (seal_nonce_ok (firstn 32 c) rpk) as [nonce En]. rewrite En.
  apply box_open_total.
Qed.

Theorem failed_seal_open mbuf c rpk rsk :
  fst (seal_open mbuf c rpk rsk) = Err ->
  snd (seal_open mbuf c rpk rsk) = mbuf \/
  snd (seal_open mbuf c rpk rsk) = zeros (length c - 48) ++ skipn (length c - 48) mbuf.
Proof.
  unfold seal_open, BoxImpl.SEALBYTES, BoxImpl.PUBLICKEYBYTES.
  destruct (Nat.ltb_spec (length c) 48); [left; reflexivity|].
  destruct (Nat.eqb_spec (length mbuf) (length c - 48)) as [E|E]; cbn [negb]; [|left; reflexivity].
  destruct (seal_nonce_ok (firstn 32 c) rpk) as [nonce En]. rewrite En. intros Hf.
  destruct (failed_box_open mbuf (skipn 32 c) nonce (firstn 32 c) rsk Hf) as [H1|H1]; [left; exact H1|right].
  rewrite H1, skipn_length. replace (length c - 32 - 16)%nat with (length c - 48)%nat by lia. reflexivity.
Qed.
