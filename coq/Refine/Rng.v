From Coq Require Import ZifyNat ZifyBool.
From Dryoc Require Import Impl.Rng.
Import RngImpl.
Open Scope Z_scope.

(* every operation's result is a function of its own interval of the stream *)
Lemma run_outputs stream c ops :
  fst (run stream c ops) =
  map (fun p => output (fst (fst p)) (draw stream (fst (snd p)) (snd (snd p)))) (combine ops (intervals c ops)).
Proof.
  revert c; induction ops as [|[k n] r IH]; intros c; cbn [run intervals combine map fst snd]; [reflexivity|].
  specialize (IH (c + n)%nat). destruct (run stream (c + n) r) as [outs c']. cbn [fst] in *. now rewrite IH.
Qed.

Lemma run_cursor stream c ops : snd (run stream c ops) = (c + fold_right (fun o a => snd o + a) 0 ops)%nat.
Proof.
  revert c; induction ops as [|[k n] r IH]; intros c; cbn [run fold_right snd]; [lia|].
  specialize (IH (c + n)%nat). destruct (run stream (c + n) r) as [outs c']. cbn [snd] in *. lia.
Qed.

(* intervals of a call sequence are consecutive, hence pairwise disjoint *)
Lemma intervals_start c ops : forall s n, In (s, n) (intervals c ops) -> (c <= s)%nat.
Proof.
  revert c; induction ops as [|[k m] r IH]; intros c s n Hin; cbn [intervals] in Hin; [contradiction|].
  destruct Hin as [E|Hin]; [injection E as <- <-; lia|]. specialize (IH _ _ _ Hin). lia.
Qed.

Definition disjoint (a b : nat * nat) : Prop := (fst a + snd a <= fst b \/ fst b + snd b <= fst a)%nat.

Lemma intervals_disjoint c ops : ForallOrdPairs disjoint (intervals c ops).
Proof.
  revert c; induction ops as [|[k n] r IH]; intros c; cbn [intervals]; constructor.
  - apply Forall_forall. intros [s m] Hin. left. cbn [fst snd]. apply (intervals_start _ _ _ _ Hin).
  - apply IH.
Qed.

(* identity-flow operations: distinct draws give distinct outputs, and a zero
   or constant output can only come from a zero or constant draw *)
Lemma ident_output_is_draw d : output Ident d = d.
Proof. reflexivity. Qed.

Lemma pair_secret_is_draw d : length d = 32%nat -> skipn 32 (output X25519Pair d) = d.
Proof.
  intros H. cbn [output]. rewrite skipn_app.
  assert (Hl : length (ScalarmultImpl.scalarmult_base d) = 32%nat) by (unfold ScalarmultImpl.scalarmult_base, ScalarmultImpl.scalarmult; apply le_bytes_length).
  rewrite skipn_all2 by lia. rewrite Hl. reflexivity.
Qed.
