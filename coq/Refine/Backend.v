(* Two BLAKE2b backends that differ only in the compression function give the same results for
   every operation, as soon as the two compression functions agree on 8-word chaining values --
   and the portable-SIMD one (translated from the source) does agree with the software one. *)
From Coq Require Import ZifyNat ZifyBool.
From Dryoc Require Import Impl.Blake2bSimd Refine.Blake2b Refine.Blake2bSimd.
Import Blake2bImpl.
Open Scope Z_scope.

Section Ext.
Variables cmp1 cmp2 : list Z -> Z * Z -> Z * Z -> bytes -> list Z.
Hypothesis Hc : forall h t f b, length h = 8%nat -> cmp1 h t f b = cmp2 h t f b.
Hypothesis Hl : forall h t f b, length (cmp2 h t f b) = 8%nat.

Lemma blocks_fold_ext fuel h t f data : length h = 8%nat ->
  blocks_fold cmp1 fuel h t f data = blocks_fold cmp2 fuel h t f data.
Proof.
  revert h t data; induction fuel as [|fuel IH]; intros h t data Hh; [reflexivity|].
  cbn [blocks_fold]. destruct (BLOCKBYTES <=? length data)%nat; [|reflexivity].
  rewrite Hc by exact Hh. apply IH. apply Hl.
Qed.

Lemma blocks_fold_len fuel h t f data : length h = 8%nat ->
  length (fst (blocks_fold cmp2 fuel h t f data)) = 8%nat.
Proof.
  revert h t data; induction fuel as [|fuel IH]; intros h t data Hh; [exact Hh|].
  cbn [blocks_fold]. destruct (BLOCKBYTES <=? length data)%nat; [|exact Hh]. apply IH. apply Hl.
Qed.

Lemma update_ext s x : length (st_h s) = 8%nat ->
  update cmp1 s x = update cmp2 s x /\ length (st_h (update cmp2 s x)) = 8%nat.
Proof.
  intros Hh. unfold update.
  destruct (length x =? 0)%nat; [auto|].
  destruct (length x + length (st_buf s) <=? BLOCKBYTES)%nat; [auto|].
  cbv zeta. rewrite blocks_fold_ext by exact Hh.
  match goal with |- context [blocks_fold cmp2 ?fu (st_h s) ?t ?f ?d] =>
    pose proof (blocks_fold_len fu (st_h s) t f d Hh) as Hlen1; destruct (blocks_fold cmp2 fu (st_h s) t f d) as [h1 t1] end.
  cbn [fst] in Hlen1. rewrite blocks_fold_ext by exact Hlen1.
  match goal with |- context [blocks_fold cmp2 ?fu h1 ?t ?f ?d] =>
    pose proof (blocks_fold_len fu h1 t f d Hlen1) as Hlen2; destruct (blocks_fold cmp2 fu h1 t f d) as [h2 t2] end.
  cbn [fst] in Hlen2. split; [reflexivity|exact Hlen2].
Qed.

Lemma fold_update_ext (cs : list bytes) s : length (st_h s) = 8%nat ->
  fold_left (update cmp1) cs s = fold_left (update cmp2) cs s /\ length (st_h (fold_left (update cmp2) cs s)) = 8%nat.
Proof.
  revert s; induction cs as [|c cs IH]; intros s Hh; [auto|].
  rewrite !fold_left_cons. destruct (update_ext s c Hh) as [E L]. rewrite E. apply IH, L.
Qed.

Lemma finalize_ext s n : length (st_h s) = 8%nat -> finalize cmp1 s n = finalize cmp2 s n.
Proof.
  intros Hh. unfold finalize.
  destruct ((n =? 0)%nat || (OUTBYTES <? n)%nat); [reflexivity|].
  destruct (is_lastblock s); [reflexivity|]. cbv zeta.
  destruct (BLOCKBYTES <? length (st_buf s))%nat.
  - rewrite (Hc (st_h s)) by exact Hh. rewrite Hc by apply Hl. reflexivity.
  - rewrite Hc by exact Hh. reflexivity.
Qed.

Lemma init_param_len p : length (st_h (init_param p)) = 8%nat.
Proof. unfold init_param. cbn [st_h]. now rewrite map_length, seq_length. Qed.

Lemma init_ext outlen key salt personal :
  init cmp1 outlen key salt personal = init cmp2 outlen key salt personal /\
  (forall s, init cmp2 outlen key salt personal = Ok s -> length (st_h s) = 8%nat).
Proof.
  unfold init. destruct ((outlen =? 0) || (Z.of_nat OUTBYTES <? outlen)); [split; [reflexivity|discriminate]|].
  destruct (Z.of_nat KEYBYTES <? _); [split; [reflexivity|discriminate]|].
  cbv zeta. destruct key as [k|].
  - destruct (BLOCKBYTES <? length k)%nat; [split; [reflexivity|discriminate]|].
    destruct (update_ext (init_param (params_bytes outlen (Z.land (Z.of_nat (length k)) mask8)
                 match salt with Some s => s | None => zeros 16 end match personal with Some p => p | None => zeros 16 end))
                (k ++ zeros (BLOCKBYTES - length k)) (init_param_len _)) as [E L].
    rewrite E. split; [reflexivity|]. intros s H. injection H as <-. exact L.
  - split; [reflexivity|]. intros s H. injection H as <-. apply init_param_len.
Qed.

Lemma hash_ext n x key : hash cmp1 n x key = hash cmp2 n x key.
Proof.
  unfold hash. destruct (OUTBYTES <? n)%nat; [reflexivity|].
  destruct (init_ext (Z.land (Z.of_nat n) mask8) key None None) as [E L]. rewrite E.
  destruct (init cmp2 (Z.land (Z.of_nat n) mask8) key None None) as [s| |]; cbn [obind]; try reflexivity.
  destruct (update_ext s x (L s eq_refl)) as [E2 L2]. rewrite E2. apply finalize_ext, L2.
Qed.

Lemma longhash_loop_ext n v acc : longhash_loop cmp1 n v acc = longhash_loop cmp2 n v acc.
Proof.
  revert v acc; induction n as [|n IH]; intros v acc; [reflexivity|]. cbn [longhash_loop].
  rewrite hash_ext. destruct (hash cmp2 OUTBYTES v None); cbn [obind]; try reflexivity. apply IH.
Qed.

Lemma longhash_ext n x : longhash cmp1 n x = longhash cmp2 n x.
Proof.
  unfold longhash. destruct (n <=? 4)%nat; [reflexivity|]. destruct (4294967295 <=? Z.of_nat n); [reflexivity|].
  cbv zeta. destruct (init_ext (Z.of_nat (Nat.min n OUTBYTES)) None None None) as [E L]. rewrite E.
  destruct (init cmp2 (Z.of_nat (Nat.min n OUTBYTES)) None None None) as [s| |]; cbn [obind]; try reflexivity.
  destruct (update_ext s (le_bytes 4 (Z.of_nat n)) (L s eq_refl)) as [E1 L1]. rewrite E1.
  destruct (update_ext _ x L1) as [E2 L2]. rewrite E2.
  destruct (n <=? OUTBYTES)%nat; [apply finalize_ext, L2|].
  rewrite (finalize_ext _ _ L2). destruct (finalize cmp2 _ OUTBYTES); cbn [obind]; try reflexivity.
  rewrite longhash_loop_ext. destruct (longhash_loop cmp2 _ _ _) as [[mid inb]| |]; cbn [obind]; try reflexivity.
  rewrite hash_ext. reflexivity.
Qed.
End Ext.

Lemma compress_len h t f b : length (compress h t f b) = 8%nat.
Proof. unfold compress. now rewrite map_length, seq_length. Qed.

(* every BLAKE2b operation gives the same result on the SIMD backend *)
Theorem simd_hash_eq n x key : hash Blake2bSimd.compress n x key = hash_c n x key.
Proof. apply hash_ext; [intros; now apply simd_compress_eq|apply compress_len]. Qed.

Theorem simd_longhash_eq n x : longhash Blake2bSimd.compress n x = longhash_c n x.
Proof. apply longhash_ext; [intros; now apply simd_compress_eq|apply compress_len]. Qed.

(* incremental use: init, any sequence of updates, finalize *)
Theorem simd_incremental_eq outlen key salt personal (cs : list bytes) n :
  (let* s := init Blake2bSimd.compress outlen key salt personal in finalize Blake2bSimd.compress (fold_left (update Blake2bSimd.compress) cs s) n) =
  (let* s := init_c outlen key salt personal in finalize_c (fold_left update_c cs s) n).
Proof.
  assert (Hc : forall h t f b, length h = 8%nat -> Blake2bSimd.compress h t f b = compress h t f b) by (intros; now apply simd_compress_eq).
  destruct (init_ext _ _ Hc compress_len outlen key salt personal) as [E L]. rewrite E. unfold init_c.
  destruct (init compress outlen key salt personal) as [s| |]; cbn [obind]; try reflexivity.
  destruct (fold_update_ext _ _ Hc compress_len cs s (L s eq_refl)) as [E2 L2]. rewrite E2.
  apply finalize_ext; [exact Hc|exact compress_len|exact L2].
Qed.
