(* Refinement: the buffering code of blake2b_soft.rs computes RFC 7693 BLAKE2b
   for every key / salt / personalisation / message, and feeding the message
   in pieces is the same as feeding it at once. *)
From Coq Require Import ZifyNat ZifyBool.
From Dryoc Require Import Impl.Blake2b.
Import Blake2bImpl.
Open Scope Z_scope.
Ltac Zify.zify_post_hook ::= Z.div_mod_to_equations.
Local Arguments Nat.mul : simpl never.

(* ------------------------------------------------------------------ counter *)

Definition tp (t : Z) : Z * Z := (t mod 2 ^ 64, (t / 2 ^ 64) mod 2 ^ 64).

Lemma increment_counter_tp t inc :
  0 <= t -> t + Z.of_nat inc < 2 ^ 128 -> increment_counter (tp t) inc = tp (t + Z.of_nat inc).
Proof.
  intros Ht Hb. unfold increment_counter, tp. cbn [fst snd].
  assert (H0 : 0 <= t mod 2 ^ 64 < 2 ^ 64) by (apply Z.mod_pos_bound; lia).
  rewrite Z.lor_comm, lor_shiftl_add by lia.
  assert (Ht128 : t < 2 ^ 128) by lia.
  replace (t mod 2 ^ 64 + (t / 2 ^ 64) mod 2 ^ 64 * 2 ^ 64) with t.
  2:{ rewrite (Z.mod_small (t / 2 ^ 64)).
      - rewrite (Z.div_mod t (2 ^ 64)) at 1 by lia. lia.
      - split; [apply Z.div_pos; lia|]. apply Z.div_lt_upper_bound; lia. }
  rewrite w128_mod, (Z.mod_small (t + Z.of_nat inc)) by lia.
  now rewrite !w64_mod, Z.shiftr_div_pow2 by lia.
Qed.

Lemma tp_0 : tp 0 = (0, 0).
Proof. reflexivity. Qed.

(* --------------------------------------------------------------- buffering *)

Section Buffering.
Variable cmp : list Z -> Z * Z -> Z * Z -> bytes -> list Z.

(* process exactly k blocks *)
Fixpoint bfn (k : nat) (h : list Z) (t f : Z * Z) (data : bytes) : list Z * (Z * Z) :=
  match k with
  | O => (h, t)
  | S k' => let t' := increment_counter t 128 in
            bfn k' (cmp h t' f (firstn 128 data)) t' f (skipn 128 data)
  end.

Lemma blocks_fold_bfn fuel h t f data :
  (length data / 128 < fuel)%nat ->
  blocks_fold cmp fuel h t f data = bfn (length data / 128) h t f data.
Proof.
  revert h t data; induction fuel as [|fuel IH]; intros h t data Hf; [lia|].
  cbn [blocks_fold]. unfold BLOCKBYTES.
  destruct (Nat.leb_spec 128 (length data)) as [Hle|Hlt].
  - replace (length data / 128)%nat with (S (length (skipn 128 data) / 128)) by (rewrite skipn_length; lia).
    cbn [bfn]. apply IH. rewrite skipn_length. lia.
  - replace (length data / 128)%nat with O by lia. reflexivity.
Qed.

Lemma bfn_app j k h t f data :
  bfn (j + k) h t f data = let '(h1, t1) := bfn j h t f data in bfn k h1 t1 f (skipn (128 * j) data).
Proof.
  revert h t data; induction j as [|j IH]; intros h t data.
  - cbn [bfn Nat.add]. now rewrite Nat.mul_0_r.
  - cbn [bfn Nat.add]. rewrite IH. destruct (bfn j _ _ _ _) as [h1 t1].
    rewrite skipn_skipn. do 2 f_equal. lia.
Qed.

Lemma bfn_firstn k h t f data : bfn k h t f (firstn (128 * k) data) = bfn k h t f data.
Proof.
  revert h t data; induction k as [|k IH]; intros h t data; [reflexivity|].
  cbn [bfn]. rewrite firstn_firstn, skipn_firstn_comm.
  replace (Nat.min 128 (128 * S k)) with 128%nat by lia.
  replace (128 * S k - 128)%nat with (128 * k)%nat by lia.
  apply IH.
Qed.

Lemma bfn_prefix k h t f a b : length a = (128 * k)%nat -> bfn k h t f (a ++ b) = bfn k h t f a.
Proof.
  intros Ha. rewrite <- (bfn_firstn k h t f (a ++ b)), <- (bfn_firstn k h t f a).
  rewrite firstn_app, Ha, Nat.sub_diag, firstn_O, app_nil_r. reflexivity.
Qed.

Definition nblk (d : bytes) : nat := ((length d - 1) / 128)%nat.

Definition absorbed (h : list Z) (t f : Z * Z) (d : bytes) : (list Z * (Z * Z)) * bytes :=
  (bfn (nblk d) h t f d, skipn (128 * nblk d) d).

Lemma absorbed_rest_length h t f d : (length (snd (absorbed h t f d)) <= 128)%nat.
Proof. unfold absorbed, nblk. cbn [snd]. rewrite skipn_length. lia. Qed.

Lemma update_absorbed h t f ln buf input :
  (length buf <= 128)%nat ->
  update cmp (mk_state h t f ln buf) input =
  let '((h', t'), r) := absorbed h t f (buf ++ input) in mk_state h' t' f ln r.
Proof.
  intros Hb. unfold update, absorbed. cbn [st_buf st_h st_t st_f st_last_node]. unfold BLOCKBYTES.
  destruct (Nat.eqb_spec (length input) 0) as [Hi0|Hi0].
  { destruct input; [|discriminate]. rewrite app_nil_r.
    replace (nblk buf) with O by (unfold nblk; lia). cbn [bfn]. now rewrite Nat.mul_0_r. }
  destruct (Nat.leb_spec (length input + length buf) 128) as [Hsm|Hbig].
  { replace (nblk (buf ++ input)) with O by (unfold nblk; rewrite app_length; lia).
    cbn [bfn]. now rewrite Nat.mul_0_r. }
  remember (length buf) as b eqn:Eb. remember (length input) as i eqn:Ei.
  set (start := if negb (b =? 0)%nat && (b <? 128)%nat then (128 - b)%nat else O).
  set (remaining := (i - start)%nat).
  set (end_ := if (128 <? remaining)%nat && (remaining mod 128 =? 0)%nat then (i - 128)%nat
               else if (128 <? remaining)%nat then (i - remaining mod 128)%nat else start).
  set (n := nblk (buf ++ input)).
  assert (Hn : n = ((b + i - 1) / 128)%nat) by (unfold n, nblk; rewrite app_length, <- Eb, <- Ei; reflexivity).
  assert (Hstart : (start <= i /\ (b + start = 0 \/ b + start = 128))%nat).
  { unfold start. destruct (Nat.eqb_spec b 0), (Nat.ltb_spec b 128); cbn [negb andb]; lia. }
  assert (Hend : (start <= end_ <= i /\ b + end_ = 128 * n /\ (end_ - start) mod 128 = 0)%nat).
  { unfold end_, remaining. subst n.
    destruct (Nat.ltb_spec 128 (i - start)), (Nat.eqb_spec ((i - start) mod 128) 0); cbn [andb]; lia. }
  destruct Hstart as [Hs1 Hs2]. destruct Hend as [[He1 He2] [He3 He4]].
  set (buf1 := buf ++ firstn start input).
  set (mid := slice input start end_).
  assert (Hl1 : length buf1 = (b + start)%nat).
  { unfold buf1. rewrite app_length, firstn_length. lia. }
  assert (Hlm : length mid = (end_ - start)%nat) by (unfold mid; apply slice_length; lia).
  set (j1 := ((b + start) / 128)%nat). set (j2 := ((end_ - start) / 128)%nat).
  assert (Hj1 : (b + start = 128 * j1)%nat) by (unfold j1; lia).
  assert (Hj2 : (end_ - start = 128 * j2)%nat) by (unfold j2; lia).
  assert (Hjn : n = (j1 + j2)%nat) by lia.
  rewrite (blocks_fold_bfn (S (length buf1))) by lia.
  rewrite Hl1. fold j1.
  destruct (bfn j1 h t f buf1) as [h1 t1] eqn:E1.
  rewrite (blocks_fold_bfn (S (length mid))) by lia.
  rewrite Hlm. fold j2.
  destruct (bfn j2 h1 t1 f mid) as [h2 t2] eqn:E2.
  (* the data consumed is the first 128 n bytes of buf ++ input *)
  assert (Hcat : buf1 ++ mid = firstn (128 * n) (buf ++ input)).
  { unfold buf1, mid. rewrite <- app_assoc, firstn_split_slice by lia.
    rewrite <- He3, Eb. now rewrite firstn_app_2. }
  assert (Hrest : skipn end_ input = skipn (128 * n) (buf ++ input)).
  { rewrite <- He3, skipn_app. rewrite (@skipn_all2 _ (b + end_) buf) by lia.
    cbn [app]. f_equal. lia. }
  rewrite <- (bfn_firstn n), <- Hcat, Hjn, bfn_app.
  rewrite (bfn_prefix j1 h t f buf1 mid) by lia. rewrite E1.
  rewrite skipn_app, (@skipn_all2 _ (128 * j1) buf1) by lia.
  rewrite Hl1, <- Hj1, Nat.sub_diag. cbn [skipn app].
  rewrite E2, Hrest, Hjn. reflexivity.
Qed.

(* absorbing d1, then appending d2 to what is left, is absorbing d1 ++ d2 *)
Lemma absorbed_app h t f d1 d2 :
  let '((h1, t1), r1) := absorbed h t f d1 in
  absorbed h1 t1 f (r1 ++ d2) = absorbed h t f (d1 ++ d2).
Proof.
  unfold absorbed. destruct (bfn (nblk d1) h t f d1) as [h1 t1] eqn:E1.
  set (n1 := nblk d1). set (r1 := skipn (128 * n1) d1).
  assert (Hr : r1 ++ d2 = skipn (128 * n1) (d1 ++ d2)).
  { unfold r1. rewrite skipn_app. f_equal.
    replace (128 * n1 - length d1)%nat with O by (unfold n1, nblk; lia). reflexivity. }
  assert (Hn : nblk (d1 ++ d2) = (n1 + nblk (r1 ++ d2))%nat).
  { unfold nblk, r1. rewrite !app_length, skipn_length. fold (nblk d1). fold n1. unfold n1, nblk. lia. }
  rewrite Hn, bfn_app.
  rewrite <- (bfn_firstn n1 h t f (d1 ++ d2)), firstn_app.
  replace (128 * n1 - length d1)%nat with O by (unfold n1, nblk; lia).
  rewrite firstn_O, app_nil_r, bfn_firstn. fold n1 in E1. rewrite E1.
  rewrite <- Hr. f_equal. rewrite Hr, skipn_skipn. f_equal. lia.
Qed.

(* C08 for BLAKE2b: two updates = one update of the concatenation *)
Theorem update_update s a b :
  (length (st_buf s) <= 128)%nat ->
  update cmp (update cmp s a) b = update cmp s (a ++ b).
Proof.
  destruct s as [h t f ln buf]. cbn [st_buf]. intros Hb.
  rewrite (update_absorbed h t f ln buf a Hb).
  pose proof (absorbed_app h t f (buf ++ a) b) as Happ.
  pose proof (absorbed_rest_length h t f (buf ++ a)) as Hlen.
  destruct (absorbed h t f (buf ++ a)) as [[h1 t1] r1]. cbn [snd] in Hlen.
  rewrite (update_absorbed h1 t1 f ln r1 b Hlen), Happ, <- app_assoc.
  now rewrite (update_absorbed h t f ln buf (a ++ b) Hb).
Qed.

Lemma update_buf_length s a : (length (st_buf s) <= 128)%nat -> (length (st_buf (update cmp s a)) <= 128)%nat.
Proof.
  destruct s as [h t f ln buf]. cbn [st_buf]. intros Hb.
  rewrite (update_absorbed h t f ln buf a Hb).
  pose proof (absorbed_rest_length h t f (buf ++ a)) as Hlen.
  destruct (absorbed h t f (buf ++ a)) as [[h1 t1] r1]. exact Hlen.
Qed.

Theorem update_chunks s (cs : list bytes) :
  (length (st_buf s) <= 128)%nat ->
  fold_left (update cmp) cs s = update cmp s (concat cs).
Proof.
  revert s; induction cs as [|c cs IH]; intros s Hb; cbn [fold_left concat].
  - destruct s as [h t f ln buf]. cbn [st_buf] in Hb. unfold update. cbn [length Nat.eqb]. reflexivity.
  - rewrite IH by (apply update_buf_length; exact Hb). now apply update_update.
Qed.

End Buffering.

(* ------------------------------------------------- implementation = RFC 7693 *)

Definition fpair (last : bool) : Z * Z := if last then (mask64, 0) else (0, 0).

Section Refines.
Variable cmp : list Z -> Z * Z -> Z * Z -> bytes -> list Z.
Hypothesis cmp_F : forall h t last block,
  length h = 8%nat -> length block = 128%nat -> 0 <= t < 2 ^ 128 ->
  cmp h (tp t) (fpair last) block = Blake2bSpec.F h block t last.

Lemma F_length h block t last : length (Blake2bSpec.F h block t last) = 8%nat.
Proof. unfold Blake2bSpec.F. now rewrite map_length, seq_length. Qed.

Lemma pad_block_length d : (length d <= 128)%nat -> length (Blake2bSpec.pad_block d) = 128%nat.
Proof. intros H. unfold Blake2bSpec.pad_block. rewrite app_length, zeros_length. lia. Qed.

Lemma absorb_bfn fuel h t data :
  length h = 8%nat -> 0 <= t -> t + Z.of_nat (length data) < 2 ^ 128 ->
  (nblk data < fuel)%nat ->
  Blake2bSpec.absorb fuel h t data =
    let '(hn, tn) := bfn cmp (nblk data) h (tp t) (0, 0) data in
    cmp hn (increment_counter tn (length data - 128 * nblk data)) (mask64, 0)
        (Blake2bSpec.pad_block (skipn (128 * nblk data) data)).
Proof.
  revert h t data; induction fuel as [|fuel IH]; intros h t data Hh Ht Hb Hf; [lia|].
  cbn [Blake2bSpec.absorb].
  destruct (Nat.leb_spec (length data) 128) as [Hle|Hgt].
  - replace (nblk data) with O by (unfold nblk; lia). cbn [bfn].
    rewrite Nat.mul_0_r, Nat.sub_0_r. cbn [skipn].
    rewrite increment_counter_tp by lia.
    change (mask64, 0) with (fpair true).
    rewrite cmp_F; [reflexivity|exact Hh|now apply pad_block_length|lia].
  - assert (Hn : nblk data = S (nblk (skipn 128 data))) by (unfold nblk; rewrite skipn_length; lia).
    rewrite Hn. cbn [bfn].
    rewrite increment_counter_tp by lia. change (0, 0) with (fpair false).
    rewrite cmp_F; [|exact Hh|rewrite firstn_length; lia|lia].
    change (Z.of_nat 128) with 128.
    rewrite IH; [|apply F_length|lia|rewrite skipn_length; lia|unfold nblk in *; rewrite skipn_length in *; lia].
    change (fpair false) with (0, 0).
    destruct (bfn cmp _ _ _ _ _) as [hn tn].
    rewrite skipn_length, skipn_skipn.
    replace (128 + 128 * nblk (skipn 128 data))%nat with (128 * S (nblk (skipn 128 data)))%nat by lia.
    replace (length data - 128 - 128 * nblk (skipn 128 data))%nat
      with (length data - 128 * S (nblk (skipn 128 data)))%nat by lia.
    reflexivity.
Qed.

Lemma init_param_h0 outlen keylen salt personal :
  length salt = 16%nat -> length personal = 16%nat ->
  init_param (params_bytes outlen keylen salt personal) =
  mk_state (Blake2bSpec.h0 outlen keylen salt personal) (0, 0) (0, 0) 0 [].
Proof.
  intros Hs Hp. unfold init_param, Blake2bSpec.h0. f_equal.
  change (params_bytes outlen keylen salt personal) with (Blake2bSpec.param_block outlen keylen salt personal).
  rewrite (le_words_slices 8 8) by
    (try lia; unfold Blake2bSpec.param_block; rewrite !app_length, !zeros_length, Hs, Hp; reflexivity).
  reflexivity.
Qed.

Definition key_data (key : option bytes) : bytes :=
  match key with Some k => Blake2bSpec.pad_block k | None => [] end.

(* state after init (+ key block) and any update = "absorbed (key block ++ msg)" *)
Lemma init_update_absorbed outlen key salt personal msg :
  0 < outlen <= 64 -> (match key with Some k => 1 <= length k <= 64 | None => True end)%nat ->
  length salt = 16%nat -> length personal = 16%nat ->
  let keylen := match key with Some k => Z.of_nat (length k) | None => 0 end in
  omap (fun s => update cmp s msg) (init cmp outlen key (Some salt) (Some personal)) =
  Ok (let '((h', t'), r) := absorbed cmp (Blake2bSpec.h0 outlen keylen salt personal) (0, 0) (0, 0) (key_data key ++ msg)
      in mk_state h' t' (0, 0) 0 r).
Proof.
  intros Ho Hk Hs Hp keylen. unfold init.
  destruct (Z.eqb_spec outlen 0) as [|_]; [lia|].
  unfold OUTBYTES, KEYBYTES. destruct (Z.ltb_spec (Z.of_nat 64) outlen) as [|_]; [lia|]. cbn [orb].
  destruct key as [k|].
  - assert (Hkl : Z.land (Z.of_nat (length k)) mask8 = Z.of_nat (length k)).
    { change mask8 with (Z.ones 8). rewrite Z.land_ones by lia. apply Z.mod_small. lia. }
    rewrite Hkl. destruct (Z.ltb_spec (Z.of_nat 64) (Z.of_nat (length k))) as [|_]; [lia|].
    unfold BLOCKBYTES. destruct (Nat.ltb_spec 128 (length k)) as [|_]; [lia|].
    cbn [omap]. f_equal. rewrite init_param_h0 by assumption.
    rewrite (update_absorbed cmp _ _ _ _ [] _) by (cbn; lia). cbn [app].
    pose proof (absorbed_app cmp (Blake2bSpec.h0 outlen (Z.of_nat (length k)) salt personal) (0,0) (0,0)
                  (k ++ zeros (128 - length k)) msg) as Happ.
    pose proof (absorbed_rest_length cmp (Blake2bSpec.h0 outlen (Z.of_nat (length k)) salt personal) (0,0) (0,0)
                  (k ++ zeros (128 - length k))) as Hlen.
    destruct (absorbed cmp _ _ _ (k ++ zeros (128 - length k))) as [[h1 t1] r1]. cbn [snd] in Hlen.
    rewrite (update_absorbed cmp h1 t1 (0,0) 0 r1 msg Hlen), Happ. reflexivity.
  - change (Z.of_nat 64 <? 0) with false. cbv iota.
    cbn [omap]. f_equal. rewrite init_param_h0 by assumption.
    rewrite (update_absorbed cmp _ _ _ _ [] _) by (cbn; lia). reflexivity.
Qed.

Theorem blake2b_refines (outlen : nat) key salt personal msg :
  (1 <= outlen <= 64)%nat ->
  (match key with Some k => 1 <= length k <= 64 | None => True end)%nat ->
  length salt = 16%nat -> length personal = 16%nat ->
  Z.of_nat (length msg) + 128 < 2 ^ 128 ->
  (let* s := init cmp (Z.of_nat outlen) key (Some salt) (Some personal) in
   finalize cmp (update cmp s msg) outlen)
  = Ok (Blake2bSpec.blake2b outlen (match key with Some k => k | None => [] end) salt personal msg).
Proof.
  intros Ho Hk Hs Hp Hlen.
  pose proof (init_update_absorbed (Z.of_nat outlen) key salt personal msg ltac:(lia) Hk Hs Hp) as Hinit.
  cbv zeta in Hinit.
  destruct (init cmp (Z.of_nat outlen) key (Some salt) (Some personal)) as [s| |]; cbv beta iota delta [omap] in Hinit; try discriminate.
  cbv beta iota delta [obind]. injection Hinit as Hst. rewrite Hst. clear Hst s.
  set (keylen := match key with Some k => Z.of_nat (length k) | None => 0 end).
  set (h0 := Blake2bSpec.h0 (Z.of_nat outlen) keylen salt personal).
  set (data := key_data key ++ msg).
  assert (Hdata : Z.of_nat (length data) < 2 ^ 128).
  { unfold data, key_data. rewrite app_length. destruct key as [k|]; [rewrite pad_block_length by lia|cbn [length]]; lia. }
  assert (Hh0 : length h0 = 8%nat).
  { unfold h0, Blake2bSpec.h0. rewrite map_length, combine_length.
    unfold le_words, chunks. rewrite map_length.
    assert (Hpl : length (Blake2bSpec.param_block (Z.of_nat outlen) keylen salt personal) = 64%nat)
      by (unfold Blake2bSpec.param_block; rewrite !app_length, !zeros_length, Hs, Hp; reflexivity).
    rewrite chunks_n_slices, map_length, seq_length, Hpl. reflexivity. }
  pose proof (absorb_bfn (S (length data)) h0 0 data Hh0 ltac:(lia) ltac:(lia)
                ltac:(unfold nblk; lia)) as Habs.
  change (tp 0) with (0, 0) in Habs.
  pose proof (absorbed_rest_length cmp h0 (0,0) (0,0) data) as Hrl.
  unfold absorbed in *. cbn [snd] in Hrl.
  destruct (bfn cmp (nblk data) h0 (0, 0) (0, 0) data) as [hn tn].
  remember (skipn (128 * nblk data) data) as rest eqn:Erest.
  remember (length data - 128 * nblk data)%nat as restlen eqn:Erl.
  assert (Hrlen : length rest = restlen) by (subst rest restlen; apply skipn_length).
  unfold finalize. cbn [st_buf st_h st_t st_f st_last_node].
  unfold OUTBYTES, BLOCKBYTES.
  destruct (Nat.eqb_spec outlen 0) as [|_]; [lia|].
  destruct (Nat.ltb_spec 64 outlen) as [|_]; [lia|]. cbn [orb].
  unfold is_lastblock. cbn [st_f fst negb Z.eqb].
  destruct (Nat.ltb_spec 128 (length rest)) as [|_]; [lia|].
  unfold set_lastblock_f. cbn [st_last_node st_f snd Z.eqb].
  f_equal. unfold Blake2bSpec.blake2b, Blake2bSpec.digest_bytes, h_bytes. cbv zeta.
  unfold h0, keylen, data, key_data in Habs.
  destruct key as [[|k0 k]|]; [cbn in Hk; lia| |]; cbv iota;
    try change (Z.of_nat (length (@nil Z))) with 0; rewrite Habs;
    unfold Blake2bSpec.pad_block; rewrite Hrlen; reflexivity.
Qed.

End Refines.

(* -------------------------------------------- compress (Rust) = F (RFC 7693) *)

Lemma add64_add64 a b c : add64 a (add64 b c) = w64 (a + b + c).
Proof.
  unfold add64. rewrite !w64_mod. rewrite Z.add_mod_idemp_r by lia. f_equal. lia.
Qed.

Lemma g_G tm tv r i a b c d :
  g tm tv r i a b c d =
  Blake2bSpec.G tv a b c d (nthz tm (sig r (2 * i))) (nthz tm (sig r (2 * i + 1))).
Proof.
  unfold g, Blake2bSpec.G. rewrite !add64_add64. unfold add64. reflexivity.
Qed.

Lemma round_round tm tv r : (r < 12)%nat -> round tm tv r = Blake2bSpec.round tm tv r.
Proof.
  intros Hr. unfold round, Blake2bSpec.round. rewrite !g_G.
  do 12 (destruct r as [|r]; [reflexivity|]). lia.
Qed.

Lemma compress_F h t last block :
  length h = 8%nat -> length block = 128%nat -> 0 <= t < 2 ^ 128 ->
  compress h (tp t) (fpair last) block = Blake2bSpec.F h block t last.
Proof.
  intros Hh Hb Ht. unfold compress, Blake2bSpec.F.
  rewrite (le_words_slices 8 16) by (try lia; rewrite Hb; reflexivity).
  set (tm := map (fun i => le_val (slice block (i * 8) (i * 8 + 8))) (seq 0 16)).
  do 8 (destruct h as [|? h]; [discriminate|]). destruct h; [|discriminate].
  assert (Hfold : forall v, fold_left (round tm) (seq 0 12) v = fold_left (Blake2bSpec.round tm) (seq 0 12) v).
  { intros v. cbn [seq fold_left]. rewrite !round_round by lia. reflexivity. }
  rewrite Hfold. clear Hfold.
  unfold tp, fpair. cbn [fst snd].
  f_equal. f_equal.
  destruct last; cbn [app firstn IV Blake2bSpec.IV upd nthz nth fst snd];
    rewrite ?Z.lxor_0_l; rewrite ?(Z.lxor_comm (t mod 2 ^ 64)), ?(Z.lxor_comm ((t / 2 ^ 64) mod 2 ^ 64)); reflexivity.
Qed.

Theorem blake2b_impl_is_rfc (outlen : nat) key salt personal msg :
  (1 <= outlen <= 64)%nat ->
  (match key with Some k => 1 <= length k <= 64 | None => True end)%nat ->
  length salt = 16%nat -> length personal = 16%nat ->
  Z.of_nat (length msg) + 128 < 2 ^ 128 ->
  (let* s := init_c (Z.of_nat outlen) key (Some salt) (Some personal) in
   finalize_c (update_c s msg) outlen)
  = Ok (Blake2bSpec.blake2b outlen (match key with Some k => k | None => [] end) salt personal msg).
Proof. apply blake2b_refines. exact compress_F. Qed.
