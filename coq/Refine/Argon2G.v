(* fill_block of src/argon2.rs is RFC 9106's compression function G (section 3.5) with the
   permutation P (3.6): the in-place rounds over sixteen index lists are P applied to the eight rows
   and then the eight columns of the 8 x 8 matrix of 16-byte registers. *)
From Dryoc Require Import Spec.Argon2 Impl.Argon2 Refine.Argon2.
Import Argon2Impl.
Open Scope Z_scope.

(* ------------------------------------------------------------------ lists *)

Lemma nthz_upd l : forall i v j, nthz (upd l i v) j = if (Nat.eqb j i && Nat.ltb i (length l))%bool then v else nthz l j.
Proof.
  unfold nthz. induction l as [|x l IH]; intros i v j.
  - cbn [upd length]. destruct i; rewrite Bool.andb_false_r; reflexivity.
  - destruct i as [|i]; destruct j as [|j]; cbn [upd nth length]; try reflexivity.
    rewrite IH. change (Nat.ltb (S i) (S (length l))) with (Nat.ltb i (length l)). reflexivity.
Qed.

Definition gather (v : list nat) (b : list Z) : list Z := map (nthz b) v.

Lemma gather_length v b : length (gather v b) = length v.
Proof. apply map_length. Qed.

Lemma nthz_gather v b k : (k < length v)%nat -> nthz (gather v b) k = nthz b (nth k v O).
Proof.
  unfold nthz, gather. intros Hk. rewrite (nth_indep _ 0 (nth O b 0)) by (rewrite map_length; exact Hk).
  change (nth O b 0) with ((fun i => nth i b 0) O). apply (map_nth (fun i => nth i b 0)).
Qed.

Fixpoint index_of (j : nat) (v : list nat) : option nat :=
  match v with
  | [] => None
  | x :: r => if Nat.eqb j x then Some O else option_map S (index_of j r)
  end.

Lemma index_of_some j v : forall k, index_of j v = Some k -> (k < length v)%nat /\ nth k v O = j.
Proof.
  induction v as [|x r IH]; intros k; cbn [index_of]; [discriminate|].
  destruct (Nat.eqb_spec j x) as [E|E].
  - intros [= <-]. cbn [length nth]. split; [lia|auto].
  - destruct (index_of j r) as [k'|]; cbn [option_map]; [|discriminate].
    intros [= <-]. destruct (IH k' eq_refl) as [H1 H2]. cbn [length nth]. split; [lia|exact H2].
Qed.

Lemma index_of_none j v : index_of j v = None -> ~ In j v.
Proof.
  induction v as [|x r IH]; cbn [index_of]; [auto|].
  destruct (Nat.eqb_spec j x) as [E|E]; [discriminate|].
  destruct (index_of j r); cbn [option_map]; [discriminate|].
  intros _ [H|H]; [congruence|]. now apply IH.
Qed.

Lemma nth_map_seq (f : nat -> Z) n j : (j < n)%nat -> nth j (map f (seq 0 n)) 0 = f j.
Proof.
  intros Hj. rewrite (nth_indep _ 0 (f O)) by (now rewrite map_length, seq_length).
  rewrite map_nth, seq_nth by exact Hj. reflexivity.
Qed.

(* apply f to the words at positions v, leave the others *)
Definition apply_at (v : list nat) (f : list Z -> list Z) (b : list Z) : list Z :=
  let out := f (gather v b) in
  map (fun j => match index_of j v with Some k => nthz out k | None => nthz b j end) (seq 0 (length b)).

(* ------------------------------------------------------------------ in-place = gather / compute / scatter *)

Section Relabel.
Variable v : list nat.
Variable b0 : list Z.
Hypothesis Hnd : NoDup v.
Hypothesis Hin : Forall (fun i => (i < length b0)%nat) v.

Record inv (b l : list Z) : Prop := {
  inv_len : length b = length b0;
  inv_gat : gather v b = l;
  inv_frame : forall j, ~ In j v -> nthz b j = nthz b0 j }.

Lemma inv_start : inv b0 (gather v b0).
Proof. split; auto. Qed.

Lemma nth_v_lt x : (x < length v)%nat -> (nth x v O < length b0)%nat.
Proof. intros Hx. rewrite Forall_forall in Hin. apply Hin. now apply nth_In. Qed.

Lemma inv_upd b l x val : inv b l -> (x < length v)%nat -> inv (upd b (nth x v O) val) (upd l x val).
Proof.
  intros [Hl Hg Hf] Hx. split.
  - now rewrite upd_length.
  - subst l. apply (nth_ext _ _ 0 0).
    + now rewrite upd_length, !gather_length.
    + intros k Hk. rewrite gather_length in Hk. fold (nthz (gather v (upd b (nth x v O) val)) k). fold (nthz (upd (gather v b) x val) k).
      rewrite nthz_gather by exact Hk. rewrite !nthz_upd. rewrite gather_length, Hl.
      pose proof (nth_v_lt x Hx) as Hb.
      destruct (Nat.ltb_spec (nth x v O) (length b0)); [|lia].
      destruct (Nat.ltb_spec x (length v)); [|lia]. rewrite !Bool.andb_true_r.
      destruct (Nat.eqb_spec k x) as [E|E].
      * subst k. now rewrite Nat.eqb_refl.
      * destruct (Nat.eqb_spec (nth k v O) (nth x v O)) as [E'|E'].
        -- exfalso. apply E. apply (proj1 (NoDup_nth v O) Hnd); assumption.
        -- now rewrite nthz_gather.
  - intros j Hj. rewrite nthz_upd. destruct (Nat.eqb_spec j (nth x v O)) as [E|E].
    + exfalso. apply Hj. subst j. now apply nth_In.
    + cbn [andb]. now apply Hf.
Qed.

Lemma inv_read b l x : inv b l -> (x < length v)%nat -> nthz b (nth x v O) = nthz l x.
Proof. intros [_ Hg _] Hx. subst l. now rewrite nthz_gather. Qed.

Lemma inv_mixa b l x y : inv b l -> (x < length v)%nat -> (y < length v)%nat ->
  inv (mixa b (nth x v O) (nth y v O)) (mixa l x y).
Proof. intros H Hx Hy. unfold mixa. rewrite !(inv_read b l) by assumption. now apply inv_upd. Qed.

Lemma inv_mixr b l x y r : inv b l -> (x < length v)%nat -> (y < length v)%nat ->
  inv (mixr b (nth x v O) (nth y v O) r) (mixr l x y r).
Proof. intros H Hx Hy. unfold mixr. rewrite !(inv_read b l) by assumption. now apply inv_upd. Qed.

Lemma inv_g b l a bb c d : inv b l -> (a < length v)%nat -> (bb < length v)%nat -> (c < length v)%nat -> (d < length v)%nat ->
  inv (g b (nth a v O) (nth bb v O) (nth c v O) (nth d v O)) (g l a bb c d).
Proof.
  intros H Ha Hb Hc Hd. unfold g. cbv zeta.
  apply inv_mixr; [|assumption|assumption]. apply inv_mixa; [|assumption|assumption].
  apply inv_mixr; [|assumption|assumption]. apply inv_mixa; [|assumption|assumption].
  apply inv_mixr; [|assumption|assumption]. apply inv_mixa; [|assumption|assumption].
  apply inv_mixr; [|assumption|assumption]. apply inv_mixa; assumption.
Qed.

(* the round on the identity labelling of a 16-word list *)
Definition round16 (l : list Z) : list Z :=
  let l := g l 0 4 8 12 in let l := g l 1 5 9 13 in let l := g l 2 6 10 14 in let l := g l 3 7 11 15 in
  let l := g l 0 5 10 15 in let l := g l 1 6 11 12 in let l := g l 2 7 8 13 in g l 3 4 9 14.

Lemma inv_round b l : length v = 16%nat -> inv b l -> inv (blake2_round_nomsg b v) (round16 l).
Proof.
  intros Hv H. unfold blake2_round_nomsg, round16. cbv zeta.
  repeat (apply inv_g; [|rewrite Hv; lia|rewrite Hv; lia|rewrite Hv; lia|rewrite Hv; lia]). exact H.
Qed.

Lemma inv_apply_at b l f : inv b l -> l = f (gather v b0) -> b = apply_at v f b0.
Proof.
  intros [Hl Hg Hf] El. unfold apply_at. cbv zeta. apply (nth_ext _ _ 0 0).
  - now rewrite map_length, seq_length.
  - intros j Hj. rewrite Hl in Hj.
    rewrite nth_map_seq by exact Hj.
    destruct (index_of j v) as [k|] eqn:E.
    + destruct (index_of_some j v k E) as [Hk Hn]. rewrite <- El, <- Hg. rewrite nthz_gather by exact Hk. now rewrite Hn.
    + apply Hf. now apply index_of_none.
Qed.

Theorem round_is_apply_at : length v = 16%nat -> blake2_round_nomsg b0 v = apply_at v round16 b0.
Proof. intros Hv. apply (inv_apply_at _ (round16 (gather v b0))); [|reflexivity]. apply inv_round; [exact Hv|apply inv_start]. Qed.

End Relabel.

(* ------------------------------------------------------------------ the 16-word round is the RFC's P *)

Lemma land_mask32_mod x : Z.land x mask32 = x mod 2 ^ 32.
Proof. change mask32 with (Z.ones 32). now rewrite Z.land_ones by lia. Qed.

Lemma fblamka_is_mulmix x y : fblamka x y = Argon2Spec.mulmix x y.
Proof.
  unfold fblamka, Argon2Spec.mulmix, add64, mul64, w64. rewrite !land_mask32_mod.
  change mask64 with (Z.ones 64). rewrite !Z.land_ones by lia.
  rewrite Zplus_mod_idemp_l, Zplus_mod_idemp_r. f_equal. lia.
Qed.

Lemma round16_is_P x0 x1 x2 x3 x4 x5 x6 x7 x8 x9 x10 x11 x12 x13 x14 x15 :
  round16 [x0; x1; x2; x3; x4; x5; x6; x7; x8; x9; x10; x11; x12; x13; x14; x15] =
  Argon2Spec.P [x0; x1; x2; x3; x4; x5; x6; x7; x8; x9; x10; x11; x12; x13; x14; x15].
Proof.
  cbv - [fblamka rotr64 Z.lxor Argon2Spec.mulmix]. rewrite <- !fblamka_is_mulmix. reflexivity.
Qed.

Lemma round16_P l : length l = 16%nat -> round16 l = Argon2Spec.P l.
Proof.
  intros H.
  do 16 (destruct l as [|? l]; [discriminate|]). destruct l; [|discriminate]. apply round16_is_P.
Qed.

Lemma apply_at_ext v f f' b : (forall l, length l = length v -> f l = f' l) -> apply_at v f b = apply_at v f' b.
Proof. intros H. unfold apply_at. now rewrite H by apply gather_length. Qed.

Lemma apply_at_length v f b : length (apply_at v f b) = length b.
Proof. unfold apply_at. now rewrite map_length, seq_length. Qed.

(* ------------------------------------------------------------------ the sixteen index lists *)

Fixpoint nodupb (l : list nat) : bool :=
  match l with [] => true | x :: r => negb (existsb (Nat.eqb x) r) && nodupb r end.

Lemma nodupb_sound l : nodupb l = true -> NoDup l.
Proof.
  induction l as [|x r IH]; cbn [nodupb]; [constructor|].
  rewrite Bool.andb_true_iff, Bool.negb_true_iff. intros [H1 H2]. constructor; [|auto].
  intros Hin. assert (existsb (Nat.eqb x) r = true); [|congruence].
  apply existsb_exists. exists x. split; [exact Hin|apply Nat.eqb_refl].
Qed.

Definition good_idx (v : list nat) : bool :=
  Nat.eqb (length v) 16 && nodupb v && forallb (fun i => Nat.ltb i 128) v.

Lemma good_idx_spec v (b : list Z) : good_idx v = true -> length b = 128%nat ->
  length v = 16%nat /\ NoDup v /\ Forall (fun i => (i < length b)%nat) v.
Proof.
  unfold good_idx. rewrite !Bool.andb_true_iff. intros [[H1 H2] H3] Hb.
  split; [now apply Nat.eqb_eq|]. split; [now apply nodupb_sound|].
  rewrite Forall_forall. intros i Hi. rewrite forallb_forall in H3. specialize (H3 i Hi).
  apply Nat.ltb_lt in H3. lia.
Qed.

Lemma index_lists_good :
  forallb (fun i => good_idx (row_indices i) && good_idx (col_indices i)) (seq 0 8) = true.
Proof. vm_compute. reflexivity. Qed.

Lemma round_at v b : good_idx v = true -> length b = 128%nat ->
  blake2_round_nomsg b v = apply_at v Argon2Spec.P b.
Proof.
  intros Hg Hb. destruct (good_idx_spec v b Hg Hb) as (Hv & Hnd & Hin).
  rewrite (round_is_apply_at v b Hnd Hin Hv). apply apply_at_ext. intros l Hl. apply round16_P. congruence.
Qed.

Lemma fold_cons' {A B} (f : A -> B -> A) x l a : fold_left f (x :: l) a = fold_left f l (f a x).
Proof. reflexivity. Qed.

Lemma rounds_fold (idx : nat -> list nat) (is : list nat) : (forall i, In i is -> good_idx (idx i) = true) ->
  forall b, length b = 128%nat ->
  fold_left (fun b i => blake2_round_nomsg b (idx i)) is b = fold_left (fun b i => apply_at (idx i) Argon2Spec.P b) is b.
Proof.
  induction is as [|i is IH]; intros Hgood b Hb; [reflexivity|].
  rewrite (fold_cons' (fun b i => blake2_round_nomsg b (idx i))), (fold_cons' (fun b i => apply_at (idx i) Argon2Spec.P b)).
  rewrite (round_at (idx i) b) by (auto using in_eq). apply IH.
  - intros j Hj. apply Hgood. now right.
  - now rewrite apply_at_length.
Qed.

Lemma fold_apply_length (idx : nat -> list nat) f (is : list nat) : forall b,
  length (fold_left (fun b i => apply_at (idx i) f b) is b) = length b.
Proof.
  induction is as [|i is IH]; intros b; [reflexivity|].
  rewrite (fold_cons' (fun b i => apply_at (idx i) f b)).
  now rewrite IH, apply_at_length.
Qed.

(* ------------------------------------------------------------------ rows then columns, in place = matrix form *)

Section Reflect.
Variable Pf : list Z -> list Z.
Variable w : nat -> Z.

Definition inplace_rounds (b : list Z) : list Z :=
  let b := fold_left (fun b i => apply_at (row_indices i) Pf b) (seq 0 8) b in
  fold_left (fun b i => apply_at (col_indices i) Pf b) (seq 0 8) b.

Definition matrix_rounds (b : list Z) : list Z :=
  concat (Argon2Spec.transpose (map Pf (Argon2Spec.transpose (map Pf (Argon2Spec.rows 8 b))))).

Lemma inplace_is_matrix_sym : inplace_rounds (map w (seq 0 128)) = matrix_rounds (map w (seq 0 128)).
Proof. vm_compute. reflexivity. Qed.
End Reflect.

Lemma as_map_nth (b : list Z) n : length b = n -> b = map (fun i => nth i b 0) (seq 0 n).
Proof.
  intros H. apply (nth_ext _ _ 0 0).
  - now rewrite map_length, seq_length.
  - intros j Hj. rewrite nth_map_seq by lia. reflexivity.
Qed.

Lemma inplace_is_matrix Pf b : length b = 128%nat -> inplace_rounds Pf b = matrix_rounds Pf b.
Proof. intros H. rewrite (as_map_nth b 128 H). apply inplace_is_matrix_sym. Qed.

(* ------------------------------------------------------------------ fill_block = G *)

Lemma xor_block_comm : forall a b, xor_block a b = xor_block b a.
Proof.
  unfold xor_block. induction a as [|x a IH]; intros [|y b]; cbn [combine map fst snd]; try reflexivity.
  now rewrite IH, Z.lxor_comm.
Qed.

Lemma xor_block3 : forall r n z, xor_block (xor_block r n) z = xor_block (xor_block z r) n.
Proof.
  unfold xor_block. induction r as [|x r IH]; intros [|y n] [|u z]; cbn [combine map fst snd]; try reflexivity.
  rewrite IH. f_equal. rewrite (Z.lxor_comm u x), !Z.lxor_assoc, (Z.lxor_comm y u). reflexivity.
Qed.

Lemma fill_block_rounds prev_block ref_block next_block with_xor : blk prev_block -> blk ref_block ->
  fill_block prev_block ref_block next_block with_xor =
  let R := xor_block ref_block prev_block in
  xor_block (if with_xor then xor_block R next_block else R) (matrix_rounds Argon2Spec.P R).
Proof.
  intros Hp Hr. unfold fill_block. cbv zeta.
  assert (HR : length (xor_block ref_block prev_block) = 128%nat) by (apply xor_block_length; assumption).
  assert (Hgood : forall i, In i (seq 0 8) -> good_idx (row_indices i) = true /\ good_idx (col_indices i) = true).
  { pose proof index_lists_good as H. rewrite forallb_forall in H. intros i Hi. apply Bool.andb_true_iff. now apply H. }
  rewrite (rounds_fold row_indices (seq 0 8)) by (intros; try apply Hgood; assumption).
  rewrite (rounds_fold col_indices (seq 0 8)) by (intros; try apply Hgood; try assumption; now rewrite fold_apply_length).
  rewrite <- (inplace_is_matrix Argon2Spec.P _ HR). unfold inplace_rounds. cbv zeta. reflexivity.
Qed.

(* the new block: G(previous, reference) in the first pass, G(previous, reference) xor the old block afterwards *)
Theorem fill_block_is_G prev_block ref_block next_block with_xor : blk prev_block -> blk ref_block ->
  fill_block prev_block ref_block next_block with_xor =
  if with_xor then Argon2Spec.xorb (Argon2Spec.G prev_block ref_block) next_block else Argon2Spec.G prev_block ref_block.
Proof.
  intros Hp Hr. rewrite fill_block_rounds by assumption. cbv zeta.
  unfold Argon2Spec.G. cbv zeta. change Argon2Spec.xorb with xor_block.
  rewrite (xor_block_comm prev_block ref_block). fold (matrix_rounds Argon2Spec.P (xor_block ref_block prev_block)).
  destruct with_xor.
  - apply xor_block3.
  - apply xor_block_comm.
Qed.
