(* The portable-SIMD compression function (as translated from src/blake2b/blake2b_simd.rs) equals
   the software one, for every chaining value, counter, flags and block. *)
From Coq Require Import ZifyNat ZifyBool.
From Dryoc Require Import Impl.Blake2bSimd Refine.Blake2b.
Import Blake2bImpl.
Open Scope Z_scope.

Lemma add64_assoc a b c : add64 a (add64 b c) = add64 (add64 a b) c.
Proof.
  rewrite add64_add64. unfold add64. rewrite !w64_mod. rewrite Z.add_mod_idemp_l by lia. reflexivity.
Qed.

(* the software G with the additions associated as the SIMD code writes them *)
Definition g' (tm tv : list Z) (r i a b c d : nat) : list Z :=
  let tv := upd tv a (add64 (add64 (nthz tv a) (nthz tv b)) (nthz tm (sig r (2 * i)))) in
  let tv := upd tv d (rotr64 (Z.lxor (nthz tv d) (nthz tv a)) 32) in
  let tv := upd tv c (add64 (nthz tv c) (nthz tv d)) in
  let tv := upd tv b (rotr64 (Z.lxor (nthz tv b) (nthz tv c)) 24) in
  let tv := upd tv a (add64 (add64 (nthz tv a) (nthz tv b)) (nthz tm (sig r (2 * i + 1)))) in
  let tv := upd tv d (rotr64 (Z.lxor (nthz tv d) (nthz tv a)) 16) in
  let tv := upd tv c (add64 (nthz tv c) (nthz tv d)) in
  upd tv b (rotr64 (Z.lxor (nthz tv b) (nthz tv c)) 63).

Lemma g_g' tm tv r i a b c d : g tm tv r i a b c d = g' tm tv r i a b c d.
Proof. unfold g, g'. rewrite !add64_assoc. reflexivity. Qed.

Definition round' (tm tv : list Z) (r : nat) : list Z :=
  let tv := g' tm tv r 0 0 4 8 12 in
  let tv := g' tm tv r 1 1 5 9 13 in
  let tv := g' tm tv r 2 2 6 10 14 in
  let tv := g' tm tv r 3 3 7 11 15 in
  let tv := g' tm tv r 4 0 5 10 15 in
  let tv := g' tm tv r 5 1 6 11 12 in
  let tv := g' tm tv r 6 2 7 8 13 in
  g' tm tv r 7 3 4 9 14.

Lemma round_round' tm tv r : round tm tv r = round' tm tv r.
Proof. unfold round, round'. rewrite !g_g'. reflexivity. Qed.

Definition start (v : list Z) (x y z : list Z) : Blake2bSimd.vst :=
  Blake2bSimd.mk_vst (firstn 4 v) (firstn 4 (skipn 4 v)) (firstn 4 (skipn 8 v)) (firstn 4 (skipn 12 v)) x y z.

(* lengths: G as a composition of eight single-word updates (unfolding the lets of [g] directly
   would copy the vector 3^8 times) *)
Definition ma (m : Z) (tv : list Z) (x y : nat) := upd tv x (add64 (nthz tv x) (add64 (nthz tv y) m)).
Definition mp (tv : list Z) (x y : nat) := upd tv x (add64 (nthz tv x) (nthz tv y)).
Definition mr (n : Z) (tv : list Z) (x y : nat) := upd tv x (rotr64 (Z.lxor (nthz tv x) (nthz tv y)) n).
Lemma ma_length m tv x y : length (ma m tv x y) = length tv. Proof. apply upd_length. Qed.
Lemma mp_length tv x y : length (mp tv x y) = length tv. Proof. apply upd_length. Qed.
Lemma mr_length n tv x y : length (mr n tv x y) = length tv. Proof. apply upd_length. Qed.

Lemma g_steps tm tv r i a b c d :
  g tm tv r i a b c d =
  mr 63 (mp (mr 16 (ma (nthz tm (sig r (2 * i + 1))) (mr 24 (mp (mr 32 (ma (nthz tm (sig r (2 * i))) tv a b) d a) c d) b c) a b) d a) c d) b c.
Proof. reflexivity. Qed.

Lemma g_length tm tv r i a b c d : length (g tm tv r i a b c d) = length tv.
Proof. rewrite g_steps, !mr_length, !mp_length, !mr_length, !ma_length, !mr_length, !mp_length, !mr_length, !ma_length. reflexivity. Qed.

Lemma round_length tm v r : length v = 16%nat -> length (round tm v r) = 16%nat.
Proof. intros Hv. unfold round. cbv zeta. rewrite !g_length. exact Hv. Qed.

(* one translated SIMD round = one software round on the 16-word working vector, whatever the
   temporaries held before (they are written before they are read) *)
Lemma simd_round_eq (k : nat) tm v x y z : (k < 12)%nat -> length tm = 16%nat -> length v = 16%nat ->
  exists x' y' z', Blake2bSimd.run_round tm (start v x y z) (nth k simd_rounds []) = start (round tm v k) x' y' z'.
Proof.
  intros Hk Htm Hv. rewrite round_round'.
  do 16 (destruct tm as [|? tm]; [discriminate|]). destruct tm; [|discriminate].
  do 16 (destruct v as [|? v]; [discriminate|]). destruct v; [|discriminate].
  do 12 (destruct k as [|k]; [do 3 eexists; cbv - [add64 rotr64 Z.lxor]; reflexivity|]). lia.
Qed.

Lemma fold_left_cons {A B} (f : A -> B -> A) x l a : fold_left f (x :: l) a = fold_left f l (f a x).
Proof. reflexivity. Qed.

Lemma simd_rounds_fold tm (ks : list nat) v x y z :
  Forall (fun k => (k < 12)%nat) ks -> length tm = 16%nat -> length v = 16%nat ->
  exists x' y' z', fold_left (Blake2bSimd.run_round tm) (map (fun k => nth k simd_rounds []) ks) (start v x y z)
                   = start (fold_left (round tm) ks v) x' y' z'.
Proof.
  intros Hks Htm. revert v x y z. induction Hks as [|k ks Hk Hks IH]; intros v x y z Hv.
  - do 3 eexists. reflexivity.
  - rewrite map_cons, !fold_left_cons.
    destruct (simd_round_eq k tm v x y z Hk Htm Hv) as (x1 & y1 & z1 & E). rewrite E.
    apply IH. now apply round_length.
Qed.

Lemma fold_round_length tm (l : list nat) v : length v = 16%nat -> length (fold_left (round tm) l v) = 16%nat.
Proof. revert v; induction l as [|k l IH]; intros v H; [exact H|]. rewrite fold_left_cons. apply IH. now apply round_length. Qed.

Lemma simd_rounds_indexed : simd_rounds = map (fun k => nth k simd_rounds []) (seq 0 12).
Proof. vm_compute. reflexivity. Qed.

Lemma lxor3 a c s : Z.lxor (Z.lxor a c) s = Z.lxor (Z.lxor s a) c.
Proof. rewrite (Z.lxor_comm s a), !Z.lxor_assoc, (Z.lxor_comm c s). reflexivity. Qed.

Lemma simd_IV_is_IV : simd_IV = IV.
Proof. reflexivity. Qed.

(* the SIMD compression function = the software one *)
Theorem simd_compress_eq sh st sf block : length sh = 8%nat ->
  Blake2bSimd.compress sh st sf block = compress sh st sf block.
Proof.
  intros Hsh. unfold Blake2bSimd.compress, compress. rewrite simd_IV_is_IV.
  set (tm := map (fun i => le_val (slice block (i * 8) (i * 8 + 8))) (seq 0 16)).
  assert (Htm : length tm = 16%nat) by reflexivity.
  do 8 (destruct sh as [|? sh]; [discriminate|]). destruct sh; [|discriminate].
  set (v0 := [z; z0; z1; z2; z3; z4; z5; z6] ++ firstn 4 IV ++
             [Z.lxor (fst st) (nthz IV 4); Z.lxor (snd st) (nthz IV 5); Z.lxor (fst sf) (nthz IV 6); Z.lxor (snd sf) (nthz IV 7)]).
  assert (Hstart : Blake2bSimd.mk_vst (firstn 4 [z; z0; z1; z2; z3; z4; z5; z6]) (firstn 4 (skipn 4 [z; z0; z1; z2; z3; z4; z5; z6]))
                     (firstn 4 IV) (Blake2bSimd.vxor (skipn 4 IV) [fst st; snd st; fst sf; snd sf]) [] [] [] = start v0 [] [] []).
  { unfold start, v0, Blake2bSimd.vxor, Blake2bSimd.vmap2. cbn [firstn skipn app IV combine map fst snd nthz nth].
    rewrite (Z.lxor_comm _ (fst st)), (Z.lxor_comm _ (snd st)), (Z.lxor_comm _ (fst sf)), (Z.lxor_comm _ (snd sf)). reflexivity. }
  rewrite Hstart, simd_rounds_indexed.
  destruct (simd_rounds_fold tm (seq 0 12) v0 [] [] []) as (x' & y' & z' & E);
    [repeat constructor; lia|exact Htm|reflexivity|].
  rewrite E. clear E Hstart.
  set (tv := fold_left (round tm) (seq 0 12) v0).
  assert (Htv : length tv = 16%nat).
  { subst tv. apply fold_round_length. reflexivity. }
  clearbody tv. clear v0.
  do 16 (destruct tv as [|? tv]; [discriminate|]). destruct tv; [|discriminate].
  unfold start, Blake2bSimd.vxor, Blake2bSimd.vmap2, Blake2bSimd.va, Blake2bSimd.vb, Blake2bSimd.vc, Blake2bSimd.vd.
  cbn [firstn skipn app combine map fst snd nthz nth seq Nat.add].
  rewrite !(lxor3 _ _ z), !(lxor3 _ _ z0), !(lxor3 _ _ z1), !(lxor3 _ _ z2), !(lxor3 _ _ z3), !(lxor3 _ _ z4), !(lxor3 _ _ z5), !(lxor3 _ _ z6). reflexivity.
Qed.
