(* argon2_hash of src/argon2.rs with one lane (every call site of the crate) computes RFC 9106's Argon2
   (Spec/Argon2.v: Argon2Spec.argon2): the address blocks of the data-independent mode, every step
   B[j] = G(B[(j - 1) mod q], B[z]) of the filling loop in order over slices and passes, the first two
   blocks and the final tag. *)
From Coq Require Import ZifyNat ZifyBool.
From Dryoc Require Import Spec.Argon2 Impl.Argon2 Refine.Argon2 Refine.Argon2Safe Refine.Argon2G.
Import Argon2Impl.
Open Scope Z_scope.
Ltac Zify.zify_post_hook ::= Z.div_mod_to_equations.

Lemma fold_step {A B} (f : A -> B -> A) x l a : fold_left f (x :: l) a = fold_left f l (f a x).
Proof. reflexivity. Qed.

(* ------------------------------------------------------------------ small facts *)

Lemma xor_zero_r : forall (b : block) n, length b = n -> xor_block b (repeat 0 n) = b.
Proof.
  unfold xor_block. induction b as [|x b IH]; intros n Hn; [reflexivity|].
  destruct n as [|n]; [discriminate|]. cbn [repeat combine map fst snd]. rewrite Z.lxor_0_r.
  f_equal. apply IH. now injection Hn.
Qed.

Lemma G_blk X Y : blk X -> blk Y -> blk (Argon2Spec.G X Y).
Proof. intros HX HY. rewrite <- (fill_block_is_G X Y zero_block false HX HY). apply fill_block_length; auto using zero_block_blk. Qed.

Lemma setb_is_upd_block : forall B j b, Argon2Spec.setb B j b = upd_block B j b.
Proof. induction B as [|x B IH]; intros [|j] b; cbn [Argon2Spec.setb upd_block]; try reflexivity. Qed.

Lemma zseq_app a n m : Argon2Spec.zseq a (n + m) = Argon2Spec.zseq a n ++ Argon2Spec.zseq (a + Z.of_nat n) m.
Proof.
  revert a; induction n as [|n IH]; intros a.
  - cbn [Nat.add Argon2Spec.zseq app]. now rewrite Z.add_0_r.
  - cbn [Nat.add Argon2Spec.zseq app]. rewrite IH. do 3 f_equal. lia.
Qed.

Lemma zseq_of_nat n : forall a, map Z.of_nat (seq a n) = Argon2Spec.zseq (Z.of_nat a) n.
Proof. induction n as [|n IH]; intros a; cbn [seq map Argon2Spec.zseq]; [reflexivity|]. rewrite IH. do 2 f_equal. lia. Qed.

Lemma nth_map_zseq (f : Z -> Z) n : forall a k, (k < n)%nat -> nthz (map f (Argon2Spec.zseq a n)) k = f (a + Z.of_nat k).
Proof.
  unfold nthz. induction n as [|n IH]; intros a k Hk; [lia|]. cbn [Argon2Spec.zseq map].
  destruct k as [|k]; cbn [nth]; [now rewrite Z.add_0_r|]. rewrite IH by lia. f_equal. lia.
Qed.

(* ------------------------------------------------------------------ generate_addresses (3.4.1.2) *)

Definition base_input (r l sl mb t y c : Z) : block := [r; l; sl; mb; t; y; c] ++ repeat 0 121.

Lemma base_input_blk r l sl mb t y c : blk (base_input r l sl mb t y c).
Proof. reflexivity. Qed.

Lemma two_fills input : blk input ->
  fill_block zero_block (fill_block zero_block input zero_block true) zero_block true =
  Argon2Spec.G Argon2Spec.ZERO (Argon2Spec.G Argon2Spec.ZERO input).
Proof.
  intros Hin. change Argon2Spec.ZERO with zero_block.
  assert (H1 : fill_block zero_block input zero_block true = Argon2Spec.G zero_block input).
  { rewrite fill_block_is_G by auto using zero_block_blk. change Argon2Spec.xorb with xor_block.
    apply (xor_zero_r _ 128). apply G_blk; auto using zero_block_blk. }
  rewrite H1. rewrite fill_block_is_G by auto using zero_block_blk, G_blk. change Argon2Spec.xorb with xor_block.
  apply (xor_zero_r _ 128). apply G_blk; auto using zero_block_blk, G_blk.
Qed.

Section Addresses.
Variables r l sl mb t y : Z.
Let AB (c : Z) : block := Argon2Spec.G Argon2Spec.ZERO (Argon2Spec.G Argon2Spec.ZERO (base_input r l sl mb t y c)).

Lemma gen_addr_spec n : forall i input addr acc,
  0 <= i -> i + Z.of_nat n < 2 ^ 62 ->
  input = base_input r l sl mb t y ((i + 127) / 128) ->
  (i mod 128 <> 0 -> addr = AB ((i + 127) / 128)) ->
  gen_addr n i input addr acc =
  acc ++ map (fun k => nthz (AB (k / 128 + 1)) (Z.to_nat (k mod 128))) (Argon2Spec.zseq i n).
Proof.
  induction n as [|n IH]; intros i input addr acc Hi Hn Hinput Haddr.
  - cbn [gen_addr Argon2Spec.zseq map]. now rewrite app_nil_r.
  - cbn [gen_addr Argon2Spec.zseq map]. change ADDRESSES_IN_BLOCK with 128.
    destruct (Z.eqb_spec (i mod 128) 0) as [E|E].
    + cbv beta iota. set (input' := upd input 6 (add64 (nthz input 6) 1)).
      assert (Hin' : input' = base_input r l sl mb t y (i / 128 + 1)).
      { subst input' input. unfold base_input. cbn [app upd nthz nth]. unfold add64. rewrite w64_small by lia.
        do 7 f_equal. lia. }
      rewrite Hin'. rewrite two_fills by apply base_input_blk.
      fold (AB (i / 128 + 1)).
      assert (Ec : (i + 1 + 127) / 128 = i / 128 + 1) by lia.
      rewrite (IH (i + 1) (base_input r l sl mb t y (i / 128 + 1)) (AB (i / 128 + 1)) (acc ++ [nthz (AB (i / 128 + 1)) (Z.to_nat (i mod 128))])).
      * rewrite <- app_assoc. reflexivity.
      * lia.
      * lia.
      * rewrite Ec. reflexivity.
      * intros _. rewrite Ec. reflexivity.
    + cbv beta iota.
      assert (Ec : (i + 1 + 127) / 128 = (i + 127) / 128) by lia.
      assert (Ed : i / 128 + 1 = (i + 127) / 128) by lia.
      rewrite (IH (i + 1) input addr (acc ++ [nthz addr (Z.to_nat (i mod 128))])).
      * rewrite <- app_assoc. cbn [app]. rewrite (Haddr E), Ed. reflexivity.
      * lia.
      * lia.
      * rewrite Ec. exact Hinput.
      * intros _. rewrite Ec. exact (Haddr E).
Qed.
End Addresses.

(* the address table generate_addresses leaves for a segment *)
Lemma generate_addresses_spec I pass lane slice k : 0 <= segment_length I < 2 ^ 62 -> 0 <= k < segment_length I ->
  nthz (pseudo_rands (generate_addresses I pass lane slice)) (Z.to_nat k) =
  nthz (Argon2Spec.address_block pass lane slice (memory_blocks I) (passes I) (ty I) (k / 128 + 1)) (Z.to_nat (k mod 128)).
Proof.
  intros Hs Hk. unfold generate_addresses, set_rands. cbn [pseudo_rands]. unfold Argon2Spec.address_block. fold (base_input pass lane slice (memory_blocks I) (passes I) (ty I) (k / 128 + 1)).
  rewrite (gen_addr_spec pass lane slice (memory_blocks I) (passes I) (ty I)); [| lia | lia | reflexivity | intros H; exfalso; apply H; reflexivity].
  cbn [app]. rewrite nth_map_zseq by lia. rewrite Z.add_0_l, Z2Nat.id by lia. reflexivity.
Qed.

(* ------------------------------------------------------------------ the filling loop, one lane *)

Definition one_lane (I : inst) : Prop := lanes I = 1 /\ memory_blocks I = lane_length I.

Definition addresses_ready (I : inst) (pass slice : Z) : Prop :=
  forall k, 0 <= k < segment_length I ->
    nthz (pseudo_rands I) (Z.to_nat k) =
    nthz (Argon2Spec.address_block pass 0 slice (memory_blocks I) (passes I) (ty I) (k / 128 + 1)) (Z.to_nat (k mod 128)).

Lemma div_mod_pos seg slice i : 0 < seg -> 0 <= i < seg -> (slice * seg + i) / seg = slice /\ (slice * seg + i) mod seg = i.
Proof.
  intros Hs Hi. split.
  - symmetry. apply (Z.div_unique (slice * seg + i) seg slice i); lia.
  - symmetry. apply (Z.mod_unique (slice * seg + i) seg slice i); lia.
Qed.

(* one iteration = one step of the RFC's recurrence *)
Lemma iteration_is_step I pass slice dia i curr prev' :
  geom I -> one_lane I -> mem_ok I -> 7 * segment_length I <= 2 ^ 32 -> 0 <= pass -> 0 <= slice <= 3 ->
  0 <= i < segment_length I -> (pass = 0 -> slice = 0 -> 2 <= i) ->
  curr = slice * segment_length I + i ->
  prev' = (curr - 1) mod lane_length I ->
  dia = Argon2Spec.data_independent (ty I) pass slice ->
  (dia = true -> addresses_ready I pass slice) ->
  let pseudo_rand := if dia then nthz (pseudo_rands I) (Z.to_nat i) else nthz (mem_at I prev') 0 in
  let ref_lane := if (pass =? 0) && (slice =? 0) then 0 else Z.shiftr pseudo_rand 32 mod lanes I in
  let ref_index := index_alpha (segment_length I) (lane_length I) pass slice i (Z.land pseudo_rand mask32) (ref_lane =? 0) in
  upd_block (memory I) (Z.to_nat curr)
    (fill_block (mem_at I prev') (mem_at I (lane_length I * ref_lane + ref_index)) (mem_at I curr) (negb (pass =? 0))) =
  Argon2Spec.step (ty I) (passes I) (lane_length I) pass (memory I) curr.
Proof.
  intros (Hseg & HL & Hlanes & Hmem) (Hone & Hmb) Hok Hmax Hpass Hslice Hi Hfirst Hcurr Hprev Hdia Haddr.
  cbv zeta.
  set (pr := if dia then nthz (pseudo_rands I) (Z.to_nat i) else nthz (mem_at I prev') 0).
  assert (Hrl : (if (pass =? 0) && (slice =? 0) then 0 else Z.shiftr pr 32 mod lanes I) = 0).
  { destruct ((pass =? 0) && (slice =? 0)); [reflexivity|]. rewrite Hone. apply Z.mod_1_r. }
  rewrite Hrl. change (0 =? 0) with true. rewrite Z.mul_0_r, Z.add_0_l.
  set (seg := segment_length I) in *. set (L := lane_length I) in *.
  assert (HJ : 0 <= Z.land pr mask32 < 2 ^ 32) by apply land_mask32_range.
  assert (Hidx : index_alpha seg L pass slice i (Z.land pr mask32) true =
                 Argon2Spec.ref_pos seg pass slice i (Z.land pr mask32) true).
  { rewrite HL. apply index_alpha_spec; [|exact HJ].
    unfold position_ok. split; [exact Hseg|]. split; [exact Hmax|]. split; [exact Hpass|]. split; [exact Hslice|].
    split; [lia|]. intros Hp0 Hs0. split; [apply Hfirst; assumption|reflexivity]. }
  rewrite Hidx.
  assert (Hdm : curr / seg = slice /\ curr mod seg = i) by (rewrite Hcurr; apply div_mod_pos; lia).
  destruct Hdm as [Hdiv Hmod].
  unfold Argon2Spec.step. cbv zeta.
  replace (L / 4) with seg by (clear - HL; lia).
  rewrite Hdiv, Hmod. rewrite <- Hprev.
  change Argon2Spec.setb with upd_block.
  change (Argon2Spec.getb (memory I) prev') with (mem_at I prev').
  change (Argon2Spec.getb (memory I) curr) with (mem_at I curr).
  assert (HJ12 : Argon2Spec.J12 (ty I) pass slice i L (passes I) (mem_at I prev') = pr).
  { unfold Argon2Spec.J12. rewrite <- Hdia. subst pr. destruct dia; [|reflexivity].
    rewrite (Haddr eq_refl i Hi). rewrite Hmb. reflexivity. }
  rewrite HJ12. rewrite <- land_mask32_mod.
  set (z := Argon2Spec.ref_pos seg pass slice i (Z.land pr mask32) true).
  change (Argon2Spec.getb (memory I) z) with (mem_at I z).
  rewrite fill_block_is_G by (apply mem_at_blk; exact Hok).
  destruct (pass =? 0); reflexivity.
Qed.

Definition same_fields (I' I : inst) : Prop :=
  pseudo_rands I' = pseudo_rands I /\ passes I' = passes I /\ memory_blocks I' = memory_blocks I /\
  segment_length I' = segment_length I /\ lane_length I' = lane_length I /\ lanes I' = lanes I /\ ty I' = ty I.

Lemma seg_loop_fields n : forall I pass lane slice dia i curr prev,
  same_fields (seg_loop n I pass lane slice dia i curr prev) I.
Proof.
  induction n as [|n IH]; intros I pass lane slice dia i curr prev; cbn [seg_loop].
  - unfold same_fields. repeat split; reflexivity.
  - match goal with |- same_fields (seg_loop n ?J ?a ?b ?c ?d ?e ?f ?g) _ => exact (IH J a b c d e f g) end.
Qed.

Lemma prev_is_mod L curr prev : 0 < L -> 0 <= curr < L ->
  (curr mod L = 1 \/ prev = (if curr mod L =? 0 then curr + L - 1 else curr - 1)) ->
  (if curr mod L =? 1 then curr - 1 else prev) = (curr - 1) mod L.
Proof.
  intros HL Hc Hprev. rewrite (Z.mod_small curr L) in * by lia.
  destruct (Z.eqb_spec curr 1) as [E|E].
  - subst curr. rewrite Z.mod_small by lia. reflexivity.
  - destruct Hprev as [Hp|Hp]; [contradiction|]. rewrite Hp.
    destruct (Z.eqb_spec curr 0) as [E0|E0].
    + subst curr. apply (Z.mod_unique (0 - 1) L (-1) (0 + L - 1)); lia.
    + rewrite Z.mod_small by lia. reflexivity.
Qed.

Lemma seg_loop_rfc n : forall I pass slice dia i curr prev,
  geom I -> one_lane I -> mem_ok I -> 7 * segment_length I <= 2 ^ 32 -> 0 <= pass -> 0 <= slice <= 3 ->
  0 <= i -> (pass = 0 -> slice = 0 -> 2 <= i) ->
  i + Z.of_nat n = segment_length I ->
  curr = slice * segment_length I + i ->
  (n = O \/ curr mod lane_length I = 1 \/ prev = (if curr mod lane_length I =? 0 then curr + lane_length I - 1 else curr - 1)) ->
  dia = Argon2Spec.data_independent (ty I) pass slice ->
  (dia = true -> addresses_ready I pass slice) ->
  memory (seg_loop n I pass 0 slice dia i curr prev) =
  fold_left (Argon2Spec.step (ty I) (passes I) (lane_length I) pass) (Argon2Spec.zseq curr n) (memory I).
Proof.
  induction n as [|n IH]; intros I pass slice dia i curr prev Hg Hone Hok Hmax Hpass Hslice Hi Hfirst Hn Hcurr Hprev Hdia Haddr;
    [reflexivity|].
  cbn [seg_loop Argon2Spec.zseq]. rewrite fold_step.
  destruct Hprev as [Hn0|Hprev]; [discriminate|].
  pose proof Hg as (Hseg & HL & Hlanes & Hmem).
  assert (HcR : 0 <= curr < lane_length I) by nia.
  pose proof (prev_is_mod (lane_length I) curr prev ltac:(lia) HcR Hprev) as Hp'.
  set (prev' := if curr mod lane_length I =? 1 then curr - 1 else prev) in *.
  pose proof (iteration_is_step I pass slice dia i curr prev' Hg Hone Hok Hmax Hpass Hslice ltac:(lia) Hfirst Hcurr Hp' Hdia Haddr) as Hst.
  cbv zeta in Hst. cbv zeta.
  match type of Hst with ?M = _ => set (M' := M) in * end.
  assert (HM'len : length M' = length (memory I)) by (subst M'; apply upd_block_length).
  assert (Hok' : mem_ok (set_memory I M')).
  { unfold mem_ok, set_memory. cbn [memory]. subst M'. apply upd_block_ok; [exact Hok|].
    apply fill_block_length; apply mem_at_blk; exact Hok. }
  assert (Hg' : geom (set_memory I M')).
  { unfold geom, set_memory. cbn [segment_length lane_length lanes memory]. rewrite HM'len. exact Hg. }
  assert (Hprev'' : n = O \/ (curr + 1) mod lane_length I = 1 \/
                    prev' + 1 = (if (curr + 1) mod lane_length I =? 0 then curr + 1 + lane_length I - 1 else curr + 1 - 1)).
  { destruct n as [|n']; [left; reflexivity|right]. subst prev'.
    apply (prev_step (lane_length I) 0 curr prev curr); [lia|lia|lia| |exact Hprev].
    clear - Hn Hcurr Hslice HL Hseg Hi. nia. }
  assert (Hi1 : 0 <= i + 1) by (clear - Hi; lia).
  rewrite (IH (set_memory I M') pass slice dia (i + 1) (curr + 1) (prev' + 1) Hg' Hone Hok' Hmax Hpass Hslice Hi1).
  - change (ty (set_memory I M')) with (ty I). change (passes (set_memory I M')) with (passes I).
    change (lane_length (set_memory I M')) with (lane_length I). change (memory (set_memory I M')) with M'.
    rewrite Hst. reflexivity.
  - intros Hp0 Hs0. specialize (Hfirst Hp0 Hs0). clear - Hfirst. lia.
  - change (segment_length (set_memory I M')) with (segment_length I). clear - Hn. lia.
  - change (segment_length (set_memory I M')) with (segment_length I). clear - Hcurr. lia.
  - exact Hprev''.
  - exact Hdia.
  - exact Haddr.
Qed.

(* ------------------------------------------------------------------ a segment, a pass, all passes *)

Definition same_params (I' I : inst) : Prop :=
  passes I' = passes I /\ memory_blocks I' = memory_blocks I /\ segment_length I' = segment_length I /\
  lane_length I' = lane_length I /\ lanes I' = lanes I /\ ty I' = ty I.

Lemma dia_is_data_independent y pass slice : y = 1 \/ y = 2 ->
  negb ((y =? 2) && (negb (pass =? 0) || (SYNC_POINTS / 2 <=? slice))) = Argon2Spec.data_independent y pass slice.
Proof.
  intros Hy. unfold Argon2Spec.data_independent. change (SYNC_POINTS / 2) with 2.
  destruct (Z.eqb_spec y 2), (Z.eqb_spec y 1), (Z.eqb_spec pass 0), (Z.leb_spec 2 slice), (Z.ltb_spec slice 2);
    cbn [negb andb orb]; try reflexivity; lia.
Qed.

Definition seg_start (pass slice : Z) : Z := if (pass =? 0) && (slice =? 0) then 2 else 0.

Lemma fill_segment_rfc I pass slice :
  geom I -> one_lane I -> mem_ok I -> 7 * segment_length I <= 2 ^ 32 -> 0 <= pass -> 0 <= slice <= 3 ->
  ty I = 1 \/ ty I = 2 ->
  memory (fill_segment I pass 0 slice) =
    fold_left (Argon2Spec.step (ty I) (passes I) (lane_length I) pass)
              (Argon2Spec.zseq (slice * segment_length I + seg_start pass slice) (Z.to_nat (segment_length I - seg_start pass slice)))
              (memory I)
  /\ same_params (fill_segment I pass 0 slice) I.
Proof.
  intros Hg Hone Hok Hmax Hpass Hslice Hty.
  unfold fill_segment. cbv zeta. fold (seg_start pass slice).
  rewrite (dia_is_data_independent (ty I) pass slice Hty).
  set (dia := Argon2Spec.data_independent (ty I) pass slice).
  set (I0 := if dia then generate_addresses I pass 0 slice else I).
  assert (HP : same_params I0 I /\ memory I0 = memory I) by (subst I0; destruct dia; unfold same_params; repeat split; reflexivity).
  destruct HP as ((Hp1 & Hp2 & Hp3 & Hp4 & Hp5 & Hp6) & HpM).
  pose proof Hg as (Hseg & HL & Hlanes & Hmem).
  assert (Hst : 0 <= seg_start pass slice <= 2) by (unfold seg_start; destruct ((pass =? 0) && (slice =? 0)); lia).
  assert (Hg0 : geom I0) by (unfold geom; rewrite Hp3, Hp4, Hp5, HpM; exact Hg).
  assert (Hone0 : one_lane I0) by (unfold one_lane; rewrite Hp5, Hp2, Hp4; exact Hone).
  assert (Hok0 : mem_ok I0) by (unfold mem_ok; rewrite HpM; exact Hok).
  split.
  - rewrite (seg_loop_rfc _ I0 pass slice dia (seg_start pass slice)); try assumption.
    + rewrite Hp6, Hp1, Hp4, Hp3, HpM. rewrite Z.mul_0_l, Z.add_0_l. reflexivity.
    + rewrite Hp3. exact Hmax.
    + lia.
    + unfold seg_start. intros -> ->. cbn. lia.
    + rewrite Hp3. lia.
    + rewrite Hp3, Hp4. lia.
    + right. right. reflexivity.
    + rewrite Hp6. reflexivity.
    + intros Hd. subst I0. rewrite Hd. intros k Hk.
      change (segment_length (generate_addresses I pass 0 slice)) with (segment_length I) in Hk.
      change (memory_blocks (generate_addresses I pass 0 slice)) with (memory_blocks I).
      change (passes (generate_addresses I pass 0 slice)) with (passes I).
      change (ty (generate_addresses I pass 0 slice)) with (ty I).
      apply generate_addresses_spec; [|exact Hk]. clear - Hmax Hseg. lia.
  - match goal with |- same_params (seg_loop ?n ?J ?a ?b ?c ?d ?e ?f ?g) _ =>
      pose proof (seg_loop_fields n J a b c d e f g) as (_ & F1 & F2 & F3 & F4 & F5 & F6) end.
    unfold same_params. rewrite F1, F2, F3, F4, F5, F6. repeat split; assumption.
Qed.

Definition good (I : inst) : Prop :=
  geom I /\ one_lane I /\ mem_ok I /\ 7 * segment_length I <= 2 ^ 32 /\ (ty I = 1 \/ ty I = 2).

Lemma slice_rfc I pass s : good I -> 0 <= pass -> 0 <= s <= 3 ->
  memory (fill_segment I pass 0 s) =
    fold_left (Argon2Spec.step (ty I) (passes I) (lane_length I) pass)
              (Argon2Spec.zseq (s * segment_length I + seg_start pass s) (Z.to_nat (segment_length I - seg_start pass s)))
              (memory I)
  /\ same_params (fill_segment I pass 0 s) I /\ good (fill_segment I pass 0 s).
Proof.
  intros (Hg & Hone & Hok & Hmax & Hty) Hpass Hs.
  destruct (fill_segment_rfc I pass s Hg Hone Hok Hmax Hpass Hs Hty) as [HM HP].
  split; [exact HM|]. split; [exact HP|].
  destruct HP as (P1 & P2 & P3 & P4 & P5 & P6). destruct Hone as [Hl Hmb].
  unfold good, one_lane. rewrite P2, P3, P4, P5, P6.
  split; [apply fill_segment_geom; exact Hg|]. split; [split; assumption|].
  split; [apply fill_segment_ok; exact Hok|]. split; assumption.
Qed.

Lemma one_lane_segments I pass s : lanes I = 1 ->
  fold_left (fun I l => fill_segment I pass (Z.of_nat l) (Z.of_nat s)) (seq 0 (Z.to_nat (lanes I))) I =
  fill_segment I pass 0 (Z.of_nat s).
Proof. intros H. rewrite H. reflexivity. Qed.

Lemma pass_rfc I pass : good I -> 0 <= pass ->
  memory (fill_memory_blocks I pass) = Argon2Spec.pass (ty I) (passes I) (lane_length I) (memory I) pass
  /\ same_params (fill_memory_blocks I pass) I /\ good (fill_memory_blocks I pass).
Proof.
  intros HI Hpass. unfold fill_memory_blocks. change (seq 0 4) with [0; 1; 2; 3]%nat.
  rewrite !(fold_step (fun I s => fold_left (fun I l => fill_segment I pass (Z.of_nat l) (Z.of_nat s)) (seq 0 (Z.to_nat (lanes I))) I)).
  change (fold_left (fun I s => fold_left (fun I l => fill_segment I pass (Z.of_nat l) (Z.of_nat s)) (seq 0 (Z.to_nat (lanes I))) I) []) with (fun I : inst => I).
  cbv beta.
  pose proof HI as (_ & (Hl0 & _) & _).
  rewrite (one_lane_segments I pass 0 Hl0). change (Z.of_nat 0) with 0.
  destruct (slice_rfc I pass 0 HI Hpass ltac:(lia)) as (M1 & P1 & G1).
  set (I1 := fill_segment I pass 0 0) in *.
  pose proof G1 as (_ & (Hl1 & _) & _).
  rewrite (one_lane_segments I1 pass 1 Hl1). change (Z.of_nat 1) with 1.
  destruct (slice_rfc I1 pass 1 G1 Hpass ltac:(lia)) as (M2 & P2 & G2).
  set (I2 := fill_segment I1 pass 0 1) in *.
  pose proof G2 as (_ & (Hl2 & _) & _).
  rewrite (one_lane_segments I2 pass 2 Hl2). change (Z.of_nat 2) with 2.
  destruct (slice_rfc I2 pass 2 G2 Hpass ltac:(lia)) as (M3 & P3 & G3).
  set (I3 := fill_segment I2 pass 0 2) in *.
  pose proof G3 as (_ & (Hl3 & _) & _).
  rewrite (one_lane_segments I3 pass 3 Hl3). change (Z.of_nat 3) with 3.
  destruct (slice_rfc I3 pass 3 G3 Hpass ltac:(lia)) as (M4 & P4 & G4).
  set (I4 := fill_segment I3 pass 0 3) in *.
  assert (Q1 : same_params I1 I) by exact P1.
  assert (Q2 : same_params I2 I).
  { destruct P1 as (a1 & a2 & a3 & a4 & a5 & a6), P2 as (b1 & b2 & b3 & b4 & b5 & b6). unfold same_params. repeat split; congruence. }
  assert (Q3 : same_params I3 I).
  { destruct Q2 as (a1 & a2 & a3 & a4 & a5 & a6), P3 as (b1 & b2 & b3 & b4 & b5 & b6). unfold same_params. repeat split; congruence. }
  assert (Q4 : same_params I4 I).
  { destruct Q3 as (a1 & a2 & a3 & a4 & a5 & a6), P4 as (b1 & b2 & b3 & b4 & b5 & b6). unfold same_params. repeat split; congruence. }
  split; [|split; [exact Q4|exact G4]].
  destruct Q1 as (a1 & _ & a3 & a4 & _ & a6), Q2 as (b1 & _ & b3 & b4 & _ & b6), Q3 as (c1 & _ & c3 & c4 & _ & c6).
  rewrite M4, M3, M2, M1. rewrite a1, a3, a4, a6, b1, b3, b4, b6, c1, c3, c4, c6.
  rewrite <- !fold_left_app.
  pose proof HI as ((Hseg & HL & _) & _).
  unfold Argon2Spec.pass. cbv zeta. f_equal.
  set (seg := segment_length I) in *.
  assert (E0 : seg_start pass 0 = (if pass =? 0 then 2 else 0)) by (unfold seg_start; destruct (pass =? 0); reflexivity).
  assert (E1 : forall s, s <> 0 -> seg_start pass s = 0).
  { intros s Hs. unfold seg_start. destruct (Z.eqb_spec s 0); [contradiction|]. now rewrite Bool.andb_false_r. }
  rewrite E0, !E1 by lia. set (st := if pass =? 0 then 2 else 0).
  assert (Hst : 0 <= st <= 2) by (subst st; destruct (pass =? 0); lia).
  rewrite HL. rewrite !Z.sub_0_r, !Z.add_0_r, Z.mul_0_l, Z.add_0_l.
  replace (Z.to_nat (4 * seg - st)) with (Z.to_nat (seg - st) + (Z.to_nat seg + (Z.to_nat seg + Z.to_nat seg)))%nat by lia.
  rewrite !zseq_app.
  replace (st + Z.of_nat (Z.to_nat (seg - st))) with (1 * seg) by (clear - Hst Hseg; lia).
  replace (1 * seg + Z.of_nat (Z.to_nat seg)) with (2 * seg) by (clear - Hst Hseg; lia).
  replace (2 * seg + Z.of_nat (Z.to_nat seg)) with (3 * seg) by (clear - Hst Hseg; lia).
  reflexivity.
Qed.

Lemma passes_rfc (rs : list Z) : forall I, good I -> Forall (fun r => 0 <= r) rs ->
  memory (fold_left fill_memory_blocks rs I) = fold_left (Argon2Spec.pass (ty I) (passes I) (lane_length I)) rs (memory I)
  /\ same_params (fold_left fill_memory_blocks rs I) I /\ good (fold_left fill_memory_blocks rs I).
Proof.
  induction rs as [|r rs IH]; intros I HI Hrs.
  - cbn [fold_left]. unfold same_params. repeat split; try reflexivity; apply HI.
  - rewrite (fold_step fill_memory_blocks), (fold_step (Argon2Spec.pass (ty I) (passes I) (lane_length I))).
    inversion Hrs as [|? ? Hr Hrs']; subst.
    destruct (pass_rfc I r HI Hr) as (M1 & P1 & G1).
    destruct (IH (fill_memory_blocks I r) G1 Hrs') as (M2 & P2 & G2).
    destruct P1 as (a1 & a2 & a3 & a4 & a5 & a6). destruct P2 as (b1 & b2 & b3 & b4 & b5 & b6).
    split; [|split; [|exact G2]].
    + rewrite M2, M1, a1, a4, a6. reflexivity.
    + unfold same_params. repeat split; congruence.
Qed.

Lemma zseq_nonneg n : forall a, 0 <= a -> Forall (fun r => 0 <= r) (Argon2Spec.zseq a n).
Proof. induction n as [|n IH]; intros a Ha; cbn [Argon2Spec.zseq]; constructor; [exact Ha|apply IH; lia]. Qed.

Lemma upd_first_two (B0 B1 : block) n : (2 <= n)%nat ->
  upd_block (upd_block (repeat zero_block n) 0 B0) 1 B1 = B0 :: B1 :: repeat zero_block (n - 2).
Proof.
  intros Hn. destruct n as [|[|n]]; try lia. cbn [repeat upd_block]. replace (S (S n) - 2)%nat with n by lia. reflexivity.
Qed.

(* ------------------------------------------------------------------ argon2_hash = RFC 9106 *)

Theorem argon2_hash_is_rfc t m pwd salt (outlen : nat) ty :
  context_ok outlen pwd salt None None t m 1 = true -> Z.of_nat outlen < 4294967295 ->
  ty = 1 \/ ty = 2 -> 7 * (m / 4) <= 2 ^ 32 ->
  argon2_hash t m 1 pwd salt None None outlen ty = Ok (Argon2Spec.argon2 ty t m outlen pwd salt [] []).
Proof.
  intros Hc Ho Hty Hmax. unfold argon2_hash. change (mul32 1 SYNC_POINTS =? 0) with false. cbv iota.
  pose proof Hc as Hc'. unfold context_ok in Hc'. rewrite !Bool.andb_true_iff, !in_range_spec in Hc'.
  destruct Hc' as (((((((Hol & Hpw) & Hsl) & _) & _) & _) & Hm) & Ht).
  unfold MIN_MEMORY, MAX_MEMORY, MIN_OUTLEN, MAX_U32 in *.
  destruct (norm_memory_one_lane m ltac:(lia)) as (Enm & Hseg & Hr). rewrite Enm. rewrite Hc. cbn [negb].
  rewrite initial_hash_is_H0 by (unfold lengths_ok, opt_bytes, MAX_U32; cbn [length]; lia).
  cbn [obind]. rewrite (w32_small (Z.of_nat outlen)) by lia.
  set (h0 := Argon2Spec.H0 1 (Z.of_nat outlen) m t VERSION ty pwd salt (opt_bytes None) (opt_bytes None)).
  assert (Hh0 : length h0 = 64%nat) by (apply H_length; lia).
  set (seg := m / 4) in *.
  replace (mul32 seg SYNC_POINTS) with (4 * seg) by (unfold mul32, SYNC_POINTS; rewrite w32_small; lia).
  set (q := 4 * seg) in *.
  set (I0 := mk_inst _ _ _ _ _ _ _ _).
  change (seq 0 (Z.to_nat 1)) with [0%nat]. cbn [first_blocks].
  change PREHASH_DIGEST_LENGTH with 64%nat. change BLOCK_SIZE with 1024%nat.
  assert (Hfn : firstn 64 (h0 ++ zeros 8) = h0).
  { rewrite firstn_app, Hh0, Nat.sub_diag, firstn_O, app_nil_r. apply firstn_all2. lia. }
  rewrite Hfn.
  rewrite longhash_is_Hprime by (rewrite ?app_length, ?Hh0, ?le_bytes_length; cbn [length]; lia).
  cbn [obind].
  rewrite longhash_is_Hprime by (rewrite ?app_length, ?Hh0, ?le_bytes_length; cbn [length]; lia).
  cbn [obind].
  set (B0 := load_block (Argon2Spec.Hprime 1024 (h0 ++ [0; 0; 0; 0] ++ le_bytes 4 (Z.of_nat 0)))).
  set (B1 := load_block (Argon2Spec.Hprime 1024 (h0 ++ [1; 0; 0; 0] ++ le_bytes 4 (Z.of_nat 0)))).
  assert (HB0 : blk B0) by (apply load_block_blk, Hprime_length; lia).
  assert (HB1 : blk B1) by (apply load_block_blk, Hprime_length; lia).
  match goal with |- finalize (fold_left _ _ ?J) _ = _ => set (I1 := J) end.
  assert (HM1 : memory I1 = B0 :: B1 :: repeat zero_block (Z.to_nat q - 2)).
  { subst I1 I0. unfold set_memory. cbn [memory lane_length]. change (Z.of_nat 0) with 0. rewrite Z.mul_0_l.
    change (Z.to_nat 0) with O. change (Z.to_nat (0 + 1)) with 1%nat. apply upd_first_two. lia. }
  assert (HF1 : passes I1 = t /\ memory_blocks I1 = q /\ segment_length I1 = seg /\ lane_length I1 = q /\ lanes I1 = 1 /\ Argon2Impl.ty I1 = ty)
    by (repeat split; reflexivity).
  destruct HF1 as (F1 & F2 & F3 & F4 & F5 & F6).
  assert (HG1 : good I1).
  { unfold good, geom, one_lane, mem_ok. rewrite F2, F3, F4, F5, F6, HM1. repeat split; try assumption; try lia.
    - cbn [length]. rewrite repeat_length. lia.
    - constructor; [exact HB0|]. constructor; [exact HB1|]. apply repeat_Forall, zero_block_blk. }
  destruct (passes_rfc (map Z.of_nat (seq 0 (Z.to_nat t))) I1 HG1) as (MF & (P1 & P2 & P3 & P4 & P5 & P6) & GF).
  { rewrite (zseq_of_nat _ 0). apply zseq_nonneg. reflexivity. }
  set (IF := fold_left fill_memory_blocks (map Z.of_nat (seq 0 (Z.to_nat t))) I1) in *.
  unfold finalize. rewrite P5, F5. change (seq 1 (Z.to_nat 1 - 1)) with (@nil nat). cbn [fold_left].
  destruct GF as (_ & _ & HokF & _).
  rewrite longhash_is_Hprime by (rewrite ?store_block_length by (apply mem_at_blk; exact HokF); lia).
  f_equal. unfold mem_at. rewrite MF, P4, F4, F1, F6, HM1. rewrite (zseq_of_nat _ 0).
  unfold Argon2Spec.argon2. cbv zeta. unfold Argon2Spec.getb. fold seg. fold q.
  subst B0 B1 h0. change (Z.of_nat 0) with 0. change [0; 0; 0; 0] with (le_bytes 4 0). change [1; 0; 0; 0] with (le_bytes 4 1).
  change (opt_bytes None) with (@nil Z). change VERSION with 0x13.
  change load_block with Argon2Spec.words. change store_block with Argon2Spec.unwords. change zero_block with Argon2Spec.ZERO.
  reflexivity.
Qed.

(* crypto_pwhash (and PwHash::hash_with_salt): for every accepted parameter set the output is RFC 9106's
   Argon2i / Argon2id tag with p = 1, t = opslimit, m = floor(memlimit / 1024), no key, no associated data *)
Theorem crypto_pwhash_is_rfc (outlen : nat) pwd salt opslimit memlimit alg :
  Z.of_nat outlen < 4294967295 -> Z.of_nat (length pwd) <= MAX_U32 -> Z.of_nat (length salt) <= MAX_U32 ->
  pwhash_params_ok outlen pwd salt opslimit memlimit -> alg = 1 \/ alg = 2 ->
  7 * (memlimit / 1024 / 4) <= 2 ^ 32 ->
  crypto_pwhash outlen pwd salt opslimit memlimit alg =
  Ok (Argon2Spec.argon2 alg opslimit (memlimit / 1024) outlen pwd salt [] []).
Proof.
  intros Ho Hp Hs (Hops & Hmem & Hol & Hsl) Halg Hmax. unfold crypto_pwhash.
  rewrite (proj2 (in_range_spec _ _ _) Hops), (proj2 (in_range_spec _ _ _) Hmem). cbn [negb].
  unfold convert_costs. unfold OPSLIMIT_MIN, OPSLIMIT_MAX, MEMLIMIT_MIN, MEMLIMIT_MAX, MIN_OUTLEN, MIN_SALT_LENGTH, MAX_U32 in *.
  rewrite (w32_small opslimit) by lia. rewrite (w32_small (memlimit / 1024)) by lia.
  apply argon2_hash_is_rfc; [|exact Ho|exact Halg|exact Hmax].
  unfold context_ok. rewrite !Bool.andb_true_iff, !in_range_spec.
  unfold MIN_OUTLEN, MIN_SALT_LENGTH, MAX_U32, MAX_LANES, MIN_MEMORY, MAX_MEMORY. repeat split; lia.
Qed.

(* ... and so has exactly the requested length: the length a stored record declares, which PwHash::verify compares with the
   stored hash before anything else, is the length of every hash the crate computes for it *)
Corollary crypto_pwhash_length (outlen : nat) pwd salt opslimit memlimit alg out :
  Z.of_nat outlen < 4294967295 -> Z.of_nat (length pwd) <= MAX_U32 -> Z.of_nat (length salt) <= MAX_U32 ->
  pwhash_params_ok outlen pwd salt opslimit memlimit -> alg = 1 \/ alg = 2 ->
  7 * (memlimit / 1024 / 4) <= 2 ^ 32 ->
  crypto_pwhash outlen pwd salt opslimit memlimit alg = Ok out -> length out = outlen.
Proof.
  intros Ho Hp Hs Hok Halg Hmax E.
  rewrite (crypto_pwhash_is_rfc outlen pwd salt opslimit memlimit alg Ho Hp Hs Hok Halg Hmax) in E.
  injection E as <-. unfold Argon2Spec.argon2. apply Hprime_length.
  destruct Hok as (_ & _ & Hol & _). unfold MIN_OUTLEN in Hol. lia.
Qed.

