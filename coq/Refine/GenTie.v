(* Tie 1: what the translator regenerated from the Rust sources on this run
   (coq/Gen/*.v) equals the constants and tables the hand-written models use.
   Each lemma is closed by computation; an edited constant or table entry in
   /repo re-opens it. *)
From Dryoc Require Import Gen.Constants Gen.Tables Impl.Blake2b Impl.Kdf.
Open Scope Z_scope.

Lemma blake2b_tables_tie :
  Gen.Tables.blake2b_soft_SIGMA = map (map Z.of_nat) Blake2bImpl.SIGMA /\
  Gen.Tables.blake2b_soft_IV = Blake2bImpl.IV /\
  Gen.Tables.blake2b_soft_BLOCKBYTES = Z.of_nat Blake2bImpl.BLOCKBYTES /\
  Gen.Tables.blake2b_soft_OUTBYTES = Z.of_nat Blake2bImpl.OUTBYTES /\
  Gen.Tables.blake2b_soft_HALFOUTBYTES = Z.of_nat Blake2bImpl.HALFOUTBYTES /\
  Gen.Tables.blake2b_soft_KEYBYTES = Z.of_nat Blake2bImpl.KEYBYTES /\
  Gen.Tables.blake2b_soft_SALTBYTES = 16 /\
  Gen.Tables.blake2b_soft_PERSONALBYTES = 16.
Proof. repeat split; vm_compute; reflexivity. Qed.

(* #[repr(packed)] Params: field sizes in declaration order and the defaults
   (fanout = depth = 1, everything else 0) are what params_bytes lays out *)
Lemma blake2b_params_tie :
  Gen.Tables.blake2b_soft_Params_layout = [1; 1; 1; 1; 4; 8; 1; 1; 14; 16; 16] /\
  Gen.Tables.blake2b_soft_Params_default = [0; 0; 1; 1; 0; 0; 0; 0; 0; 0; 0] /\
  (forall d k s p, length s = 16%nat -> length p = 16%nat ->
     length (Blake2bImpl.params_bytes d k s p) = 64%nat).
Proof.
  repeat split; try (vm_compute; reflexivity).
  intros d k s p Hs Hp. unfold Blake2bImpl.params_bytes. rewrite !app_length, !zeros_length, Hs, Hp. reflexivity.
Qed.

Lemma kdf_constants_tie :
  Gen.Constants.CRYPTO_KDF_BLAKE2B_BYTES_MIN = Z.of_nat KdfImpl.BYTES_MIN /\
  Gen.Constants.CRYPTO_KDF_BLAKE2B_BYTES_MAX = Z.of_nat KdfImpl.BYTES_MAX /\
  Gen.Constants.CRYPTO_KDF_CONTEXTBYTES = Z.of_nat KdfImpl.CONTEXTBYTES /\
  Gen.Constants.CRYPTO_KDF_KEYBYTES = Z.of_nat KdfImpl.KEYBYTES /\
  Gen.Constants.CRYPTO_GENERICHASH_BLAKE2B_SALTBYTES = 16 /\
  Gen.Constants.CRYPTO_GENERICHASH_BLAKE2B_PERSONALBYTES = 16.
Proof. repeat split; vm_compute; reflexivity. Qed.
