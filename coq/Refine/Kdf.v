From Coq Require Import ZifyNat ZifyBool.
From Dryoc Require Import Impl.Kdf Refine.Blake2b.
Import Blake2bImpl KdfImpl.
Open Scope Z_scope.

Definition kdf_salt (id : Z) : bytes := le_bytes 8 id ++ zeros 8.
Definition kdf_personal (ctx : bytes) : bytes := ctx ++ zeros 8.

Lemma derive_is_blake2b (len : nat) id ctx key :
  (16 <= len <= 64)%nat -> length ctx = 8%nat -> length key = 32%nat ->
  derive_from_key len id ctx key =
  Ok (Blake2bSpec.blake2b len key (kdf_salt id) (kdf_personal ctx) []).
Proof.
  intros Hl Hc Hk. unfold derive_from_key, BYTES_MIN, BYTES_MAX, CONTEXTBYTES.
  destruct (Nat.ltb_spec len 16) as [|_]; [lia|].
  destruct (Nat.ltb_spec 64 len) as [|_]; [lia|]. cbn [orb].
  assert (Hm : Z.land (Z.of_nat len) mask8 = Z.of_nat len).
  { change mask8 with (Z.ones 8). rewrite Z.land_ones by lia. apply Z.mod_small. lia. }
  rewrite Hm.
  pose proof (blake2b_impl_is_rfc len (Some key) (kdf_salt id) (kdf_personal ctx) []) as H.
  unfold kdf_salt, kdf_personal in *.
  specialize (H ltac:(lia) ltac:(lia)
                ltac:(rewrite app_length, le_bytes_length, zeros_length; reflexivity)
                ltac:(rewrite app_length, zeros_length, Hc; reflexivity)
                ltac:(cbn; lia)).
  change (16 - 8)%nat with 8%nat.
  exact H.
Qed.

Lemma derive_rejects (len : nat) id ctx key :
  (len < 16 \/ 64 < len)%nat -> derive_from_key len id ctx key = Err.
Proof.
  intros H. unfold derive_from_key, BYTES_MIN, BYTES_MAX.
  destruct (Nat.ltb_spec len 16), (Nat.ltb_spec 64 len); cbn [orb]; try reflexivity; lia.
Qed.

(* the three inputs are recoverable from the parameter block the hash starts from *)
Lemma kdf_param_injective len id ctx len' id' ctx' :
  0 <= id < 2 ^ 64 -> 0 <= id' < 2 ^ 64 -> length ctx = 8%nat -> length ctx' = 8%nat ->
  Blake2bSpec.param_block (Z.of_nat len) 32 (kdf_salt id) (kdf_personal ctx) =
  Blake2bSpec.param_block (Z.of_nat len') 32 (kdf_salt id') (kdf_personal ctx') ->
  len = len' /\ id = id' /\ ctx = ctx'.
Proof.
  intros Hi Hi' Hc Hc' H.
  assert (Hlen : Z.of_nat len = Z.of_nat len') by (apply (f_equal (fun l => nth 0 l 0)) in H; exact H).
  apply (f_equal (skipn 32)) in H. unfold Blake2bSpec.param_block in H.
  cbn [zeros repeat app skipn] in H.
  unfold kdf_salt, kdf_personal in H.
  apply app_inj_len in H; [|now rewrite !app_length, !le_bytes_length].
  destruct H as [Hsalt Hctx].
  apply app_inj_len in Hsalt; [|now rewrite !le_bytes_length]. destruct Hsalt as [Hid _].
  split; [lia|]. split.
  - apply (f_equal le_val) in Hid. rewrite !le_val_le_bytes in Hid.
    change (256 ^ Z.of_nat 8) with (2 ^ 64) in Hid. rewrite !Z.mod_small in Hid by lia. exact Hid.
  - apply app_inv_tail in Hctx. exact Hctx.
Qed.
