(* The hash inside the string made by crypto_pwhash_str is RFC 9106's Argon2id tag. *)
From Dryoc Require Import Spec.Argon2 Impl.PwhashVerify Refine.Argon2 Refine.PwhashStr Refine.PwhashVerify Refine.Argon2Rfc.
Import Argon2Impl PwhashStr PwhashVerify.
Open Scope Z_scope.

Theorem str_is_rfc pw salt opslimit memlimit :
  str_params_ok pw salt opslimit memlimit -> 7 * (memlimit / 1024 / 4) <= 2 ^ 32 ->
  str pw salt opslimit memlimit =
  Ok (to_string 2 opslimit (memlimit / 1024) salt (Argon2Spec.argon2 2 opslimit (memlimit / 1024) 32 pw salt [] [])).
Proof.
  intros Hok Hmax. destruct (str_is_self_describing pw salt opslimit memlimit Hok) as (h & E & _ & Es & _).
  destruct (str_context_ok _ _ _ _ Hok) as (Hc & _ & _).
  rewrite (argon2_hash_is_rfc opslimit (memlimit / 1024) pw salt 32 2 Hc ltac:(cbn; lia) (or_intror eq_refl) Hmax) in E.
  injection E as <-. exact Es.
Qed.
