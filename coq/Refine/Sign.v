From Coq Require Import ZifyNat ZifyBool.
From Dryoc Require Import Impl.Sign.
Import SignImpl Ed25519Spec.
Open Scope Z_scope.

(* strict S: a signature whose scalar half is not reduced is rejected, whatever
   the message, the commitment and the key *)
Lemma verify_rejects_unreduced_S ph sig m pk :
  L <= le_val (skipn 32 sig) -> verify_detached ph sig m pk = Err.
Proof. intros H. unfold verify_detached. destruct (Z.leb_spec L (le_val (skipn 32 sig))); [reflexivity|lia]. Qed.

(* the scalar half of a produced signature is reduced *)
Lemma sign_S_reduced ph m sk :
  le_val (skipn 32 (sign_detached ph m sk)) < L.
Proof.
  unfold sign_detached. set (R := encode _).
  assert (HR : length R = 32%nat) by (unfold R, encode; destruct (affine _); apply le_bytes_length).
  rewrite skipn_app, skipn_all2, HR by lia. cbn [Nat.sub app skipn].
  rewrite le_val_le_bytes.
  assert (HL : 0 < L) by (vm_compute; reflexivity).
  assert (Hm : 0 <= ((le_val (Sha512Spec.sha512 (dom2 ph ++ R ++ skipn 32 sk ++ m)) mod L) *
                     (le_val (clamp_hash_bytes (Sha512Spec.sha512 (firstn 32 sk))) mod L) +
                     le_val (Sha512Spec.sha512 (dom2 ph ++ skipn 32 (Sha512Spec.sha512 (firstn 32 sk)) ++ m)) mod L) mod L < L)
    by (apply Z.mod_pos_bound; exact HL).
  assert (HL2 : L < 256 ^ Z.of_nat 32) by (vm_compute; reflexivity).
  rewrite Z.mod_small by lia. lia.
Qed.

(* small-order commitments and keys are refused (both are checked before the equation) *)
Lemma verify_rejects_small_order_R ph sig m pk R :
  dalek_decompress (firstn 32 sig) = Some R -> small_order R = true -> verify_detached ph sig m pk = Err.
Proof.
  intros HR Hs. unfold verify_detached. destruct (L <=? _); [reflexivity|].
  rewrite HR. cbn [obnd]. rewrite Hs. reflexivity.
Qed.

Lemma verify_rejects_small_order_A ph sig m pk A :
  dalek_decompress pk = Some A -> small_order A = true -> verify_detached ph sig m pk = Err.
Proof.
  intros HA Hs. unfold verify_detached. destruct (L <=? _); [reflexivity|].
  destruct (dalek_decompress (firstn 32 sig)) as [R|]; cbn [obnd of_option]; [|reflexivity].
  destruct (small_order R); [reflexivity|]. rewrite HA. cbn [obnd]. rewrite Hs. reflexivity.
Qed.

(* framing of the combined mode *)
Lemma sign_combined_layout m sk :
  sign_combined (length m + 64) m sk = Ok (sign_detached false m sk ++ m).
Proof. unfold sign_combined. now rewrite Nat.eqb_refl. Qed.

Lemma sign_open_short mlen sm pk : (length sm < 64)%nat -> sign_open mlen sm pk = Err.
Proof. intros H. unfold sign_open. destruct (Nat.ltb_spec (length sm) 64); [reflexivity|lia]. Qed.

Lemma sign_open_of_combined m sk pk :
  verify_detached false (sign_detached false m sk) m pk = Ok tt ->
  sign_open (length m) (sign_detached false m sk ++ m) pk = Ok m.
Proof.
  intros Hv. unfold sign_open.
  assert (Hl : length (sign_detached false m sk) = 64%nat).
  { unfold sign_detached. rewrite app_length, le_bytes_length. unfold encode. destruct (affine _). now rewrite le_bytes_length. }
  rewrite app_length, Hl.
  destruct (Nat.ltb_spec (64 + length m) 64); [lia|].
  replace (64 + length m - 64)%nat with (length m) by lia. rewrite Nat.eqb_refl. cbn [negb].
  rewrite firstn_app, <- Hl, firstn_all, Nat.sub_diag, firstn_O, app_nil_r.
  rewrite skipn_app, skipn_all, Nat.sub_diag. cbn [skipn app]. rewrite Hv. reflexivity.
Qed.

(* pure and pre-hashed modes hash different strings: the domain separator is a
   non-empty prefix in one mode and absent in the other *)
Lemma modes_differ : dom2 true <> dom2 false /\ length (dom2 true) = 34%nat /\ dom2 false = [].
Proof. split; [discriminate|split; reflexivity]. Qed.

(* seeded constructions (C13): definitional glue *)
Lemma seed_keypair_layout seed : length seed = 32%nat ->
  snd (seed_keypair seed) = seed ++ fst (seed_keypair seed) /\ firstn 32 (snd (seed_keypair seed)) = seed.
Proof.
  intros H. unfold seed_keypair. cbn [fst snd]. split; [reflexivity|].
  rewrite firstn_app, <- H, firstn_all, Nat.sub_diag, firstn_O. apply app_nil_r.
Qed.

Lemma box_seed_keypair_spec seed :
  snd (box_seed_keypair seed) = firstn 32 (Sha512Spec.sha512 seed) /\
  fst (box_seed_keypair seed) = ScalarmultImpl.scalarmult_base (firstn 32 (Sha512Spec.sha512 seed)).
Proof. unfold box_seed_keypair. cbn [fst snd]. split; reflexivity. Qed.

Lemma sk_to_curve_spec sk :
  SignImpl.sk_to_curve25519 sk = X25519Spec.clamp (firstn 32 (Sha512Spec.sha512 (firstn 32 sk))).
Proof. unfold SignImpl.sk_to_curve25519, clamp_hash_bytes. reflexivity. Qed.
