(* C17  A failed open releases nothing derived from the rejected ciphertext:
   for EVERY input (not only the single-corruption family), whenever a classic
   open returns Err the caller's buffer is what it was, or its written prefix is
   zero; the stream pull leaves state, buffer and tag variable untouched. *)
From Dryoc Require Import Impl.SecretBox Impl.SecretStream Impl.Box Refine.Aead Refine.Stream Refine.Box.
Import SecretBoxImpl.
Open Scope Z_scope.

Module C17.

Theorem C17_open_detached_inplace : forall data mac n k,
  fst (open_detached_inplace_c data mac n k) <> Ok tt ->
  open_detached_inplace_c data mac n k = (Err, data).
Proof. exact sb_failed_open_detached_inplace. Qed.

Theorem C17_open_detached : forall mbuf mac c n k,
  fst (open_detached_c mbuf mac c n k) = Err ->
  snd (open_detached_c mbuf mac c n k) = mbuf \/
  snd (open_detached_c mbuf mac c n k) = zeros (length c) ++ skipn (length c) mbuf.
Proof. exact sb_failed_open_detached. Qed.

Theorem C17_open_easy : forall mbuf c n k,
  fst (open_easy_c mbuf c n k) = Err ->
  snd (open_easy_c mbuf c n k) = mbuf \/
  snd (open_easy_c mbuf c n k) = zeros (length c - 16) ++ skipn (length c - 16) mbuf.
Proof. exact sb_failed_open_easy. Qed.

Theorem C17_open_easy_inplace : forall cbuf n k,
  fst (open_easy_inplace_c cbuf n k) = Err -> snd (open_easy_inplace_c cbuf n k) = cbuf.
Proof. exact sb_failed_open_easy_inplace. Qed.

Theorem C17_stream_pull : forall s mbuf tagvar c ad,
  fst (fst (fst (SecretStreamImpl.pull_c s mbuf tagvar c ad))) <> Ok (length c - SecretStreamImpl.ABYTES)%nat ->
  SecretStreamImpl.pull_c s mbuf tagvar c ad = (Err, s, mbuf, tagvar).
Proof. exact ss_failed_pull_preserves. Qed.

(* non-vacuity: a forged box through the concrete model leaves the sentinel buffer zeroed *)
(* the public-key and sealed forms *)
Theorem C17_box_open_easy : forall mbuf c n pk sk,
  fst (BoxImpl.open_easy mbuf c n pk sk) = Err ->
  snd (BoxImpl.open_easy mbuf c n pk sk) = mbuf \/
  snd (BoxImpl.open_easy mbuf c n pk sk) = zeros (length c - 16) ++ skipn (length c - 16) mbuf.
Proof. exact failed_box_open. Qed.

Theorem C17_seal_open : forall mbuf c rpk rsk,
  fst (BoxImpl.seal_open mbuf c rpk rsk) = Err ->
  snd (BoxImpl.seal_open mbuf c rpk rsk) = mbuf \/
  snd (BoxImpl.seal_open mbuf c rpk rsk) = zeros (length c - 48) ++ skipn (length c - 48) mbuf.
Proof. exact failed_seal_open. Qed.

Example C17_example :
  open_easy_c [7; 7; 7] (zeros 19) (zeros 24) (zeros 32) = (Err, [0; 0; 0]).
Proof. vm_compute. reflexivity. Qed.

End C17.
