(* C03  Secret streams: lockstep of pull with push, and a rejected pull leaves
   the pull stream exactly as it was.  Rejection of out-of-position ciphertexts
   beyond that rests on the one-time authenticator (assumption, see DESIGN.md);
   what is proved is that the state they are checked against differs and that
   failure changes nothing. *)
From Dryoc Require Import Impl.SecretStream Refine.Aead Refine.Stream Refine.Hashes.
Import SecretStreamImpl.
Open Scope Z_scope.

Module C03.

(* from ANY state (so every counter value, including 0xfffffffe / 0xffffffff, and
   every key) and for every message, associated data and tag byte: the pull of
   what push produced returns the message and the tag, and ends in the SAME
   state as the push -- including the rekey decisions inside after_message *)
Theorem C03_lockstep : forall s m ad tag mbuf tagvar,
  length (st_k s) = 32%nat -> length (st_nonce s) = 12%nat ->
  Z.of_nat (length m) + 17 <= MESSAGEBYTES_MAX -> (length m <= length mbuf)%nat ->
  exists c, fst (push_c s (length m + ABYTES) m ad tag) = Ok c /\
    length c = (length m + 17)%nat /\
    pull_c s mbuf tagvar c ad =
      (Ok (length m), snd (push_c s (length m + ABYTES) m ad tag), m ++ skipn (length m) mbuf, tag).
Proof. exact ss_push_pull_lockstep. Qed.

Theorem C03_failed_pull_preserves_state : forall s mbuf tagvar c ad,
  fst (fst (fst (pull_c s mbuf tagvar c ad))) <> Ok (length c - ABYTES)%nat ->
  pull_c s mbuf tagvar c ad = (Err, s, mbuf, tagvar).
Proof. exact ss_failed_pull_preserves. Qed.

(* the 4-byte counter is a little-endian integer incremented modulo 2^32 *)
Theorem C03_counter_increment : forall l, wf_bytes l ->
  le_val (increment_bytes l) = (le_val l + 1) mod 256 ^ Z.of_nat (length l).
Proof. exact increment_spec. Qed.

(* non-vacuity: the counter 0xffffffff wraps to 0 (which triggers the rekey) *)
Example C03_wrap : increment_bytes [255; 255; 255; 255] = [0; 0; 0; 0].
Proof. vm_compute. reflexivity. Qed.

End C03.
