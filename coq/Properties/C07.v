(* C07  Hash, MAC and core primitives equal their specifications.  Statements only. *)
From Dryoc Require Import Impl.Hashes Refine.Blake2b Refine.Hashes Refine.GenTie.
Import Blake2bImpl HashesImpl.
Open Scope Z_scope.

Module C07.

(* the Rust compression function (closures g/round over SIGMA with 12 rows) is
   RFC 7693's F for every chaining value, counter, flag and block *)
Theorem C07_blake2b_compress : forall h t last block,
  length h = 8%nat -> length block = 128%nat -> 0 <= t < 2 ^ 128 ->
  compress h (tp t) (fpair last) block = Blake2bSpec.F h block t last.
Proof. exact compress_F. Qed.

(* generic hashing = RFC 7693 BLAKE2b: every digest length 16..64, unkeyed or any
   key of 16..64 bytes, every message (the 2^64-byte counter limit is far above) *)
Theorem C07_generichash : forall (outlen : nat) msg key,
  (16 <= outlen <= 64)%nat ->
  (match key with Some k => 16 <= length k <= 64 | None => True end)%nat ->
  Z.of_nat (length msg) + 128 < 2 ^ 128 ->
  generichash outlen msg key =
  Ok (Blake2bSpec.blake2b_plain outlen (match key with Some k => k | None => [] end) msg).
Proof. exact generichash_is_rfc. Qed.

Theorem C07_generichash_rejects : forall (outlen : nat) msg key,
  (outlen < 16 \/ 64 < outlen \/ match key with Some k => length k < 16 \/ 64 < length k | None => False end)%nat ->
  generichash outlen msg key = Err.
Proof. exact generichash_rejects. Qed.

(* little-endian increment, any length, with wrap-around *)
Theorem C07_increment : forall l, wf_bytes l ->
  le_val (increment l) = (le_val l + 1) mod 256 ^ Z.of_nat (length l).
Proof. exact increment_spec. Qed.

(* verify accepts exactly the authenticator the MAC function computes *)
Theorem C07_onetimeauth_verify_iff : forall mac msg key,
  onetimeauth_verify mac msg key = Ok tt <-> mac = onetimeauth key msg.
Proof. exact onetimeauth_verify_iff. Qed.
Theorem C07_auth_verify_iff : forall mac msg key,
  auth_verify mac msg key = Ok tt <-> mac = auth key msg.
Proof. exact auth_verify_iff. Qed.

(* tables / constants regenerated from the sources on this run *)
Theorem C07_gen_tables :
  Gen.Tables.blake2b_soft_SIGMA = map (map Z.of_nat) Blake2bImpl.SIGMA /\
  Gen.Tables.blake2b_soft_IV = Blake2bImpl.IV /\
  Gen.Tables.blake2b_soft_BLOCKBYTES = Z.of_nat Blake2bImpl.BLOCKBYTES /\
  Gen.Tables.blake2b_soft_OUTBYTES = Z.of_nat Blake2bImpl.OUTBYTES /\
  Gen.Tables.blake2b_soft_HALFOUTBYTES = Z.of_nat Blake2bImpl.HALFOUTBYTES /\
  Gen.Tables.blake2b_soft_KEYBYTES = Z.of_nat Blake2bImpl.KEYBYTES /\
  Gen.Tables.blake2b_soft_SALTBYTES = 16 /\
  Gen.Tables.blake2b_soft_PERSONALBYTES = 16.
Proof. exact blake2b_tables_tie. Qed.

(* non-vacuity: RFC 7693 appendix A ("abc") through the implementation model *)
Example C07_kat_blake2b :
  omap (firstn 8) (hash_c 64 [97; 98; 99] None) = Ok [0xba; 0x80; 0xa5; 0x3f; 0x98; 0x1c; 0x4d; 0x0d].
Proof. vm_compute. reflexivity. Qed.

End C07.
