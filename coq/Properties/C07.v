(* C07  Hash, MAC and core primitives equal their specifications.  Statements only. *)
From Dryoc Require Import Spec.Poly1305 Spec.Salsa20 Spec.ChaCha20 Spec.SipHash Impl.Poly1305 Impl.Cores Impl.Hashes Refine.Blake2b Refine.Hashes Refine.GenTie Refine.Poly1305 Refine.Cores Gen.Poly1305Gen Refine.Poly1305Gen Gen.Kernels Refine.Blake2bGen.
Import Blake2bImpl HashesImpl.
Open Scope Z_scope.

Module C07.

(* the Rust compression function (closures g/round over SIGMA with 12 rows) is
   RFC 7693's F for every chaining value, counter, flag and block *)
Theorem C07_blake2b_compress : forall h t last block,
  length h = 8%nat -> length block = 128%nat -> 0 <= t < 2 ^ 128 ->
  compress h (tp t) (fpair last) block = Blake2bSpec.F h block t last.
Proof. exact compress_F. Qed.

(* generic hashing = RFC 7693 BLAKE2b: every digest length 16..64, unkeyed or any
   key of 16..64 bytes, every message (the 2^64-byte counter limit is far above) *)
Theorem C07_generichash : forall (outlen : nat) msg key,
  (16 <= outlen <= 64)%nat ->
  (match key with Some k => 16 <= length k <= 64 | None => True end)%nat ->
  Z.of_nat (length msg) + 128 < 2 ^ 128 ->
  generichash outlen msg key =
  Ok (Blake2bSpec.blake2b_plain outlen (match key with Some k => k | None => [] end) msg).
Proof. exact generichash_is_rfc. Qed.

Theorem C07_generichash_rejects : forall (outlen : nat) msg key,
  (outlen < 16 \/ 64 < outlen \/ match key with Some k => length k < 16 \/ 64 < length k | None => False end)%nat ->
  generichash outlen msg key = Err.
Proof. exact generichash_rejects. Qed.

(* little-endian increment, any length, with wrap-around *)
Theorem C07_increment : forall l, wf_bytes l ->
  le_val (increment l) = (le_val l + 1) mod 256 ^ Z.of_nat (length l).
Proof. exact increment_spec. Qed.

(* verify accepts exactly the authenticator the MAC function computes *)
Theorem C07_onetimeauth_verify_iff : forall mac msg key,
  onetimeauth_verify mac msg key = Ok tt <-> mac = onetimeauth key msg.
Proof. exact onetimeauth_verify_iff. Qed.
Theorem C07_auth_verify_iff : forall mac msg key,
  auth_verify mac msg key = Ok tt <-> mac = auth key msg.
Proof. exact auth_verify_iff. Qed.

(* crypto_auth as crypto_auth.rs builds it (two SHA-512 contexts keyed with the padded key, inner digest fed to the
   outer one, truncation to 32 bytes) is HMAC-SHA-512-256 of RFC 2104 / RFC 4231, for every key and message *)
Theorem C07_auth_is_hmac : forall key msg, auth key msg = Sha512Spec.hmac_sha512_256 key msg.
Proof. exact auth_is_hmac. Qed.

(* tables / constants regenerated from the sources on this run *)
Theorem C07_gen_tables :
  Gen.Tables.blake2b_soft_SIGMA = map (map Z.of_nat) Blake2bImpl.SIGMA /\
  Gen.Tables.blake2b_soft_IV = Blake2bImpl.IV /\
  Gen.Tables.blake2b_soft_BLOCKBYTES = Z.of_nat Blake2bImpl.BLOCKBYTES /\
  Gen.Tables.blake2b_soft_OUTBYTES = Z.of_nat Blake2bImpl.OUTBYTES /\
  Gen.Tables.blake2b_soft_HALFOUTBYTES = Z.of_nat Blake2bImpl.HALFOUTBYTES /\
  Gen.Tables.blake2b_soft_KEYBYTES = Z.of_nat Blake2bImpl.KEYBYTES /\
  Gen.Tables.blake2b_soft_SALTBYTES = 16 /\
  Gen.Tables.blake2b_soft_PERSONALBYTES = 16.
Proof. exact blake2b_tables_tie. Qed.

(* non-vacuity: RFC 7693 appendix A ("abc") through the implementation model *)
(* crypto_onetimeauth (poly1305_soft.rs: 44/44/42-bit limbs, own buffering, carry / conditional
   subtraction in finalize) is RFC 8439 Poly1305 for every 32-byte key and every message *)
Theorem C07_poly1305 : forall key msg, length key = 32%nat -> wf_bytes key -> wf_bytes msg ->
  onetimeauth key msg = Poly1305Spec.poly1305 key msg.
Proof. exact mac_is_rfc. Qed.

(* one block step on clamped r and carried h: the limb value follows ((acc + n) * r) mod p, the
   limbs stay carried, and every u128 sum of the step stays below 2^92 (no checked operation can
   overflow, every `as u64` is exact) *)
Theorem C07_poly1305_block : forall r h m,
  rinv r -> hinv h -> (let '(m0, m1, m2) := m in 0 <= m0 < 2 ^ 44 /\ 0 <= m1 < 2 ^ 44 /\ 0 <= m2 < 2 ^ 41) ->
  hinv (core r h m) /\
  val (core r h m) mod P = ((val h + val m) * val r) mod P /\
  (let '(r0, r1, r2) := r in let '(h0, h1, h2) := h in let '(m0, m1, m2) := m in
   let a0 := h0 + m0 in let a1 := h1 + m1 in let a2 := h2 + m2 in
   a0 < 2 ^ 64 /\ a1 < 2 ^ 64 /\ a2 < 2 ^ 64 /\
   a0 * r0 + a1 * (r2 * 20) + a2 * (r1 * 20) < 2 ^ 92 /\
   a0 * r1 + a1 * r0 + a2 * (r2 * 20) < 2 ^ 91 /\
   a0 * r2 + a1 * r1 + a2 * r0 < 2 ^ 90).
Proof. exact core_spec. Qed.

Theorem C07_poly1305_block_is_code : forall hibit r h m,
  rinv r -> hinv h -> length m = 16%nat -> wf_bytes m -> (hibit = 0 \/ hibit = Z.shiftl 1 40) ->
  Poly1305Impl.block_step hibit r h m = core r h (limbs (if hibit =? 0 then 0 else 2 ^ 40) m).
Proof. exact block_step_core. Qed.

(* the closures of blake2b_soft.rs::compress as translated from the source on this run (the g
   statements with their rotation amounts and message-word selection, the eight g calls of a
   round, the twelve round calls) are the ones the model runs *)
Theorem C07_blake2b_compress_from_source : forall sh st sf block,
  (let tm := map (fun i => le_val (slice block (i * 8) (i * 8 + 8))) (seq 0 16) in
   let tv := sh ++ firstn 4 IV ++
             [Z.lxor (fst st) (nthz IV 4); Z.lxor (snd st) (nthz IV 5); Z.lxor (fst sf) (nthz IV 6); Z.lxor (snd sf) (nthz IV 7)] in
   let tv := fold_left (round_gen tm) blake2b_rounds tv in
   map (fun i => Z.lxor (Z.lxor (nthz sh i) (nthz tv i)) (nthz tv (i + 8))) (seq 0 8)) = compress sh st sf block.
Proof. exact compress_gen. Qed.

(* the arithmetic of poly1305_soft.rs as translated from the source on this run (block loop body,
   finalize, key clamping) is, statement for statement, the model proved above *)
Theorem C07_poly1305_from_source :
  (forall hibit r0 r1 r2 h0 h1 h2 m,
     gen_block_step hibit r0 r1 r2 h0 h1 h2 (Poly1305Impl.load_u64_le (firstn 8 m)) (Poly1305Impl.load_u64_le (skipn 8 m)) =
     Poly1305Impl.block_step hibit (r0, r1, r2) (h0, h1, h2) m) /\
  (forall h0 h1 h2 t0 t1, gen_finish_words h0 h1 h2 t0 t1 = Poly1305Impl.finish_words (h0, h1, h2) (t0, t1)) /\
  (forall key, gen_clamp (Poly1305Impl.load_u64_le (slice key 0 8)) (Poly1305Impl.load_u64_le (slice key 8 16)) = Poly1305Impl.st_r (Poly1305Impl.new key)) /\
  gen_hibit = Z.shiftl 1 40.
Proof.
  split; [exact gen_block_step_is_impl|]. split; [exact gen_finish_words_is_impl|].
  split; [exact gen_clamp_is_impl|exact gen_hibit_is_impl].
Qed.

(* crypto_core_hsalsa20 / crypto_core_hchacha20 as translated from src/classic/crypto_core.rs on
   this run (loop bodies, iteration counts, word layout, output words) are HSalsa20 / HChaCha20 *)
Theorem C07_hsalsa20 : forall k n, CoresImpl.hsalsa20 k n = Salsa20Spec.hsalsa20 k n.
Proof. exact hsalsa20_is_spec. Qed.

Theorem C07_hchacha20 : forall k n, length k = 32%nat -> length n = 16%nat ->
  CoresImpl.hchacha20 k n = ChaCha20Spec.hchacha20 k n.
Proof. exact hchacha20_is_spec. Qed.

(* the round closure of siphash24 (translated) is the SipRound; c = 2, d = 4, the constants *)
Theorem C07_siphash_round : forall v0 v1 v2 v3,
  CoresImpl.sip_round [v0; v1; v2; v3] = let '(a, b, c, d) := SipHashSpec.sipround (v0, v1, v2, v3) in [a; b; c; d].
Proof. exact sip_round_is_spec. Qed.

Theorem C07_siphash_parameters :
  sip_init = [0x736f6d6570736575; 0x646f72616e646f6d; 0x6c7967656e657261; 0x7465646279746573] /\
  sip_c_rounds = 2%nat /\ sip_d_rounds = 4%nat /\ sip_final_xor = 0xff.
Proof. exact sip_parameters. Qed.

Example C07_kat_blake2b :
  omap (firstn 8) (hash_c 64 [97; 98; 99] None) = Ok [0xba; 0x80; 0xa5; 0x3f; 0x98; 0x1c; 0x4d; 0x0d].
Proof. vm_compute. reflexivity. Qed.

End C07.
