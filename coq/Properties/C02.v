(* C02  Tampering with an authenticated ciphertext is rejected.  What a proof
   can carry: acceptance is exactly equality with the computed authenticator;
   any change of the tag is rejected outright; short inputs are rejected.
   Changes to body / nonce / key reduce to a collision of the one-time
   authenticator under the (changed) one-time key: C02_accept_iff_mac names that
   event; its improbability is a cryptographic assumption (see DESIGN.md). *)
From Dryoc Require Import Impl.SecretBox Impl.SecretStream Refine.Aead Refine.Stream.
Import SecretBoxImpl.
Open Scope Z_scope.

Module C02.

Theorem C02_accept_iff_mac : forall data mac n k,
  fst (open_detached_inplace_c data mac n k) = Ok tt <->
  mac = Poly1305Impl.mac (firstn 32 (xsalsa20 k n (32 + length data))) data.
Proof. exact sb_open_accept_iff. Qed.

(* the copying open: the verdict is a function of the authenticator, the ciphertext received, the nonce and the key --
   whatever the caller's buffer holds and however long it is; so cutting bytes off a ciphertext cannot be made up for by
   what the receiver's buffer already contains *)
Theorem C02_verdict_ignores_the_buffer : forall mbuf mac c n k, (length c <= length mbuf)%nat ->
  (fst (open_detached_c mbuf mac c n k) = Ok tt <-> mac = Poly1305Impl.mac (firstn 32 (xsalsa20 k n (32 + length c))) c).
Proof. exact sb_open_detached_verdict. Qed.

Theorem C02_tag_tamper_rejected : forall m n k mac',
  mac' <> snd (detached_inplace_c m n k) ->
  fst (open_detached_inplace_c (fst (detached_inplace_c m n k)) mac' n k) = Err.
Proof. exact sb_tag_tamper_rejected. Qed.

Theorem C02_short_box_rejected : forall mbuf c n k,
  (length c < 16)%nat ->
  fst (open_easy_c mbuf c n k) = Err /\ fst (open_easy_inplace_c c n k) = Err.
Proof. exact sb_short_box_rejected. Qed.

Theorem C02_short_stream_ciphertext_rejected : forall s mbuf tagvar c ad,
  (length c < 17)%nat -> SecretStreamImpl.pull_c s mbuf tagvar c ad = (Err, s, mbuf, tagvar).
Proof. exact ss_short_ciphertext_rejected. Qed.

(* the untampered input is always accepted = C01_roundtrip *)
Theorem C02_untampered_accepted : forall mbuf m n k,
  length mbuf = length m ->
  open_easy_c mbuf (snd (detached_inplace_c m n k) ++ fst (detached_inplace_c m n k)) n k = (Ok tt, m).
Proof. exact sb_open_easy_roundtrip. Qed.

End C02.
