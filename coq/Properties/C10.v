(* C10  Password-hash strings: what is encoded is what is parsed, for both
   algorithms, every non-empty salt and hash of any length, every cost below
   2^32; parsing an encoder-produced string and re-encoding returns the same
   string; needs_rehash is false exactly when both cost parameters match.
   (The hash inside the string is Argon2's output: C09.) *)
From Dryoc Require Import Impl.PwhashStr Impl.Argon2 Impl.PwhashVerify Refine.PwhashStr Refine.PwhashVerify Spec.Argon2 Refine.PwhashStrRfc.
Import PwhashStr.
Open Scope Z_scope.

Module C10.

Theorem C10_base64_roundtrip : forall l, wf_bytes l -> b64_decode (b64_encode l) = Some l.
Proof. exact b64_roundtrip. Qed.

Theorem C10_decimal_roundtrip : forall n, 0 <= n < 2 ^ 32 -> parse_u32 (print_u32 n) = Some n.
Proof. exact dec_roundtrip. Qed.

Theorem C10_parse_encode : forall alg t m salt hash,
  (alg = 1 \/ alg = 2) -> 0 <= t < 2 ^ 32 -> 0 <= m < 2 ^ 32 ->
  wf_bytes salt -> wf_bytes hash -> salt <> [] -> hash <> [] ->
  parse (to_string alg t m salt hash) =
  Ok (mk_pwhash (Some hash) (Some salt) (Some alg) (Some t) (Some m) (Some 1) (Some 19)).
Proof. exact parse_to_string. Qed.

Theorem C10_reencode : forall alg t m salt hash,
  (alg = 1 \/ alg = 2) -> 0 <= t < 2 ^ 32 -> 0 <= m < 2 ^ 32 ->
  wf_bytes salt -> wf_bytes hash -> salt <> [] -> hash <> [] ->
  reencode (to_string alg t m salt hash) = Ok (to_string alg t m salt hash).
Proof. exact reencode_to_string. Qed.

Theorem C10_needs_rehash : forall alg t m salt hash opslimit memlimit,
  (alg = 1 \/ alg = 2) -> 0 <= t < 2 ^ 32 -> 0 <= m < 2 ^ 32 ->
  wf_bytes salt -> wf_bytes hash -> salt <> [] -> hash <> [] ->
  needs_rehash (to_string alg t m salt hash) opslimit memlimit =
  Ok (negb (w32 opslimit =? t) || negb (w32 (memlimit / 1024) =? m)).
Proof. exact needs_rehash_to_string. Qed.

(* non-vacuity, and the input that the unfixed parser rejected: a salt whose
   base64 text is "argon2idAAAAAAAAAAAAAA" *)
(* the string made by crypto_pwhash_str (for the 16 salt bytes it drew) encodes the hash actually
   computed: it parses back to exactly the algorithm, costs, salt and the 32-byte Argon2id output,
   and verifies with the password it was made from -- for every password and in-range costs *)
Theorem C10_str_is_self_describing : forall pw salt opslimit memlimit,
  str_params_ok pw salt opslimit memlimit ->
  exists h, Argon2Impl.argon2_hash opslimit (memlimit / 1024) 1 pw salt None None 32 2 = Ok h /\ length h = 32%nat /\
    PwhashVerify.str pw salt opslimit memlimit = Ok (to_string 2 opslimit (memlimit / 1024) salt h) /\
    parse (to_string 2 opslimit (memlimit / 1024) salt h) =
      Ok (mk_pwhash (Some h) (Some salt) (Some 2) (Some opslimit) (Some (memlimit / 1024)) (Some 1) (Some 19)).
Proof. exact str_is_self_describing. Qed.

(* ... and the hash in it is RFC 9106's Argon2id tag for those parameters (C09's specification) *)
Theorem C10_str_hash_is_rfc9106 : forall pw salt opslimit memlimit,
  str_params_ok pw salt opslimit memlimit -> 7 * (memlimit / 1024 / 4) <= 2 ^ 32 ->
  PwhashVerify.str pw salt opslimit memlimit =
  Ok (to_string 2 opslimit (memlimit / 1024) salt (Argon2Spec.argon2 2 opslimit (memlimit / 1024) 32 pw salt [] [])).
Proof. exact str_is_rfc. Qed.

Theorem C10_str_verify_own : forall pw salt opslimit memlimit,
  str_params_ok pw salt opslimit memlimit ->
  exists s, PwhashVerify.str pw salt opslimit memlimit = Ok s /\ PwhashVerify.str_verify s pw = Ok tt.
Proof. exact str_verify_own. Qed.

(* verification = "the 32-byte Argon2 output for the parsed parameters equals the stored hash" *)
Theorem C10_str_verify_iff : forall s pw w t m p salt ty stored,
  parse s = Ok w -> pw_t w = Some t -> pw_m w = Some m -> pw_p w = Some p -> pw_salt w = Some salt ->
  pw_type w = Some ty -> pw_hash w = Some stored ->
  (PwhashVerify.str_verify s pw = Ok tt <-> Argon2Impl.argon2_hash t m p pw salt None None 32 ty = Ok stored).
Proof. exact str_verify_iff. Qed.

Example C10_field_like_salt :
  let salt := [0x6a; 0xb8; 0x28; 0x9f; 0x68; 0x9d; 0; 0; 0; 0; 0; 0; 0; 0; 0; 0] in
  firstn 8 (b64_encode salt) = s_argon2id /\
  omap pw_salt (parse (to_string 2 3 8 salt [1; 2; 3; 4; 5; 6; 7; 8; 9; 10; 11; 12; 13; 14; 15; 16])) = Ok (Some salt).
Proof. vm_compute. split; reflexivity. Qed.

End C10.
