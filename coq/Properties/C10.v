(* C10  Password-hash strings: what is encoded is what is parsed, for both
   algorithms, every non-empty salt and hash of any length, every cost below
   2^32; parsing an encoder-produced string and re-encoding returns the same
   string; needs_rehash is false exactly when both cost parameters match.
   (The hash inside the string is Argon2's output: C09.) *)
From Dryoc Require Import Impl.PwhashStr Refine.PwhashStr.
Import PwhashStr.
Open Scope Z_scope.

Module C10.

Theorem C10_base64_roundtrip : forall l, wf_bytes l -> b64_decode (b64_encode l) = Some l.
Proof. exact b64_roundtrip. Qed.

Theorem C10_decimal_roundtrip : forall n, 0 <= n < 2 ^ 32 -> parse_u32 (print_u32 n) = Some n.
Proof. exact dec_roundtrip. Qed.

Theorem C10_parse_encode : forall alg t m salt hash,
  (alg = 1 \/ alg = 2) -> 0 <= t < 2 ^ 32 -> 0 <= m < 2 ^ 32 ->
  wf_bytes salt -> wf_bytes hash -> salt <> [] -> hash <> [] ->
  parse (to_string alg t m salt hash) =
  Ok (mk_pwhash (Some hash) (Some salt) (Some alg) (Some t) (Some m) (Some 1) (Some 19)).
Proof. exact parse_to_string. Qed.

Theorem C10_reencode : forall alg t m salt hash,
  (alg = 1 \/ alg = 2) -> 0 <= t < 2 ^ 32 -> 0 <= m < 2 ^ 32 ->
  wf_bytes salt -> wf_bytes hash -> salt <> [] -> hash <> [] ->
  reencode (to_string alg t m salt hash) = Ok (to_string alg t m salt hash).
Proof. exact reencode_to_string. Qed.

Theorem C10_needs_rehash : forall alg t m salt hash opslimit memlimit,
  (alg = 1 \/ alg = 2) -> 0 <= t < 2 ^ 32 -> 0 <= m < 2 ^ 32 ->
  wf_bytes salt -> wf_bytes hash -> salt <> [] -> hash <> [] ->
  needs_rehash (to_string alg t m salt hash) opslimit memlimit =
  Ok (negb (w32 opslimit =? t) || negb (w32 (memlimit / 1024) =? m)).
Proof. exact needs_rehash_to_string. Qed.

(* non-vacuity, and the input that the unfixed parser rejected: a salt whose
   base64 text is "argon2idAAAAAAAAAAAAAA" *)
Example C10_field_like_salt :
  let salt := [0x6a; 0xb8; 0x28; 0x9f; 0x68; 0x9d; 0; 0; 0; 0; 0; 0; 0; 0; 0; 0] in
  firstn 8 (b64_encode salt) = s_argon2id /\
  omap pw_salt (parse (to_string 2 3 8 salt [1; 2; 3; 4; 5; 6; 7; 8; 9; 10; 11; 12; 13; 14; 15; 16])) = Ok (Some salt).
Proof. vm_compute. split; reflexivity. Qed.

End C10.
