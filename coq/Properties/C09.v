(* C09  Argon2i / Argon2id password hashing.

   Proved here, for ALL inputs:
   - accept / reject: crypto_pwhash returns Err exactly for the out-of-range parameter sets, and
     for every in-range one returns exactly [outlen] bytes (no error, no panic);
   - the variable-length hash blake2b::longhash is RFC 9106's H' for every output length
     5 .. 2^32 - 2 (the 64-byte and 32-byte-step boundaries are the chunk arithmetic);
   - the pre-hash absorbs exactly RFC 9106's H0 input (with the requested, not the rounded,
     memory size) and nothing else;
   - the rounded memory size for one lane is 4 * floor(m / 4), segment length floor(m / 4) >= 2;
   - the u32 / u64 index computation never wraps, equals RFC 9106's mapping of J1 into the
     reference set, stays inside the lane and only reads blocks the RFC allows -- at every
     position the filling loop visits, for every 32-bit J1, for lanes of up to 2^32 / 7 * 4 blocks;
   - PwHash::verify returns Ok exactly when re-hashing the offered password gives the stored bytes.
   Not proved: that the block-filling loop as a whole (fill_segment / fill_block composition)
   equals RFC 9106's B[i][j] recurrence; the model of that loop mirrors src/argon2.rs, reproduces
   both RFC 9106 test vectors by computation (below) and is run against the crate and libsodium
   by the check. *)
From Dryoc Require Import Spec.Argon2 Impl.Argon2 Gen.Kernels Refine.Argon2 Refine.Argon2Safe Refine.Argon2G Refine.Argon2Rfc Refine.Argon2Gen Gen.Argon2Arith Refine.Argon2ArithGen.
Import Argon2Impl.
Open Scope Z_scope.

Module C09.

Theorem C09_accepts : forall (outlen : nat) pwd salt opslimit memlimit alg,
  Z.of_nat outlen < 4294967295 -> Z.of_nat (length pwd) <= MAX_U32 -> Z.of_nat (length salt) <= MAX_U32 ->
  pwhash_params_ok outlen pwd salt opslimit memlimit ->
  exists h, crypto_pwhash outlen pwd salt opslimit memlimit alg = Ok h /\ length h = outlen.
Proof. exact crypto_pwhash_accepts. Qed.

Theorem C09_rejects : forall (outlen : nat) pwd salt opslimit memlimit alg,
  ~ pwhash_params_ok outlen pwd salt opslimit memlimit ->
  crypto_pwhash outlen pwd salt opslimit memlimit alg = Err.
Proof. exact crypto_pwhash_rejects. Qed.

Theorem C09_longhash_is_Hprime : forall (T : nat) A,
  (4 < T)%nat -> Z.of_nat T < 4294967295 -> Z.of_nat (length A) + 132 < 2 ^ 128 ->
  Blake2bImpl.longhash_c T A = Ok (Argon2Spec.Hprime T A).
Proof. exact longhash_is_Hprime. Qed.

Theorem C09_prehash_is_H0 : forall lanes outlen m t ty pwd salt secret ad,
  lengths_ok pwd salt secret ad ->
  initial_hash lanes outlen m t ty pwd salt secret ad =
  Ok (Argon2Spec.H0 lanes outlen m t VERSION ty pwd salt (opt_bytes secret) (opt_bytes ad) ++ zeros 8).
Proof. exact initial_hash_is_H0. Qed.

Theorem C09_memory_rounding : forall m, 8 <= m < 2 ^ 32 ->
  norm_memory m 1 = (4 * (m / 4), m / 4) /\ 2 <= m / 4 /\ 4 * (m / 4) <= m < 4 * (m / 4) + 4.
Proof. exact norm_memory_one_lane. Qed.

Theorem C09_index_is_rfc : forall seg pass slice index J1 same_lane,
  position_ok seg pass slice index same_lane -> 0 <= J1 < 2 ^ 32 ->
  index_alpha seg (4 * seg) pass slice index J1 same_lane = Argon2Spec.ref_pos seg pass slice index J1 same_lane.
Proof. exact index_alpha_spec. Qed.

Theorem C09_index_safe : forall seg pass slice index J1 same_lane,
  position_ok seg pass slice index same_lane -> 0 <= J1 < 2 ^ 32 ->
  let r := Argon2Spec.ref_pos seg pass slice index J1 same_lane in
  let cur := slice * seg + index in
  0 <= r < 4 * seg /\
  (pass = 0 -> if same_lane then r <= cur - 2 else r < slice * seg) /\
  (pass <> 0 -> if same_lane then r <> cur /\ r <> (cur + 4 * seg - 1) mod (4 * seg)
                else ~ (slice * seg <= r < (slice + 1) * seg)).
Proof. exact ref_pos_safe. Qed.

(* no Vec index of the filling loop can be out of range (argon2.rs would panic): with every
   index checked, fill_segment never fails -- for every geometry argon2_hash sets up, every
   pass / lane / slice, and ANY block contents (the reference index is data dependent) *)
Theorem C09_fill_segment_indices_in_range : forall I pass lane slice,
  geom I -> 0 <= lane < lanes I -> 0 <= slice <= 3 ->
  fill_segment_chk I pass lane slice = Some (fill_segment I pass lane slice).
Proof. exact fill_segment_safe. Qed.

Theorem C09_geometry : forall t m ty, 8 <= m < 2 ^ 32 ->
  let '(mb, seg) := norm_memory m 1 in
  geom (mk_inst (repeat zero_block (Z.to_nat mb)) (repeat 0 (Z.to_nat seg)) t mb seg (mul32 seg SYNC_POINTS) 1 ty).
Proof. exact argon2_geometry. Qed.

Theorem C09_geometry_kept : forall I pass lane slice, geom I -> geom (fill_segment I pass lane slice).
Proof. exact fill_segment_geom. Qed.

(* the permutation of the compression function as read from src/argon2.rs on this run -- the
   statements of the g closure, the eight g calls of blake2_round_nomsg, the sixteen index
   expressions of each loop of fill_block -- is the one the model runs *)
(* the block the loop reads at every iteration is the RFC's: column j - 1 (mod q) of the same lane and
   the reference-set mapping of J1; and the loop does nothing but these steps, in order *)
Theorem C09_indices_are_rfc : forall n I pass lane slice dia i curr prev,
  geom I -> 7 * segment_length I <= 2 ^ 32 -> 0 <= pass -> 0 <= lane < lanes I -> 0 <= slice <= 3 -> 0 <= i ->
  (pass = 0 -> slice = 0 -> 2 <= i) ->
  i + Z.of_nat n = segment_length I ->
  curr = lane * lane_length I + slice * segment_length I + i ->
  (n = O \/ curr mod lane_length I = 1 \/ prev = (if curr mod lane_length I =? 0 then curr + lane_length I - 1 else curr - 1)) ->
  forall k e, nth_error (seg_loop_trace n I pass lane slice dia i curr prev) k = Some e ->
  rfc_indices I pass lane slice (i + Z.of_nat k) e.
Proof. exact seg_loop_trace_rfc. Qed.

Theorem C09_loop_is_its_trace : forall n I pass lane slice dia i curr prev,
  memory (seg_loop n I pass lane slice dia i curr prev) =
  fold_left (apply_entry (lane_length I) (negb (pass =? 0))) (seg_loop_trace n I pass lane slice dia i curr prev) (memory I).
Proof. exact seg_loop_follows_trace. Qed.

(* fill_block is RFC 9106's compression function: P (built from GB) on the eight rows and then the eight
   columns of the 8 x 8 matrix of 16-byte registers of X xor Y, xor-ed back; the old block is xor-ed in
   after the first pass *)
Theorem C09_compression_is_G : forall prev_block ref_block next_block with_xor, blk prev_block -> blk ref_block ->
  fill_block prev_block ref_block next_block with_xor =
  if with_xor then Argon2Spec.xorb (Argon2Spec.G prev_block ref_block) next_block else Argon2Spec.G prev_block ref_block.
Proof. exact fill_block_is_G. Qed.

Theorem C09_permutation_from_source : forall (prev_block ref_block next_block : block) (with_xor : bool),
  (let block_r := xor_block ref_block prev_block in
   let block_tmp := if with_xor then xor_block block_r next_block else block_r in
   let block_r := fold_left round_gen argon2_row_indices block_r in
   let block_r := fold_left round_gen argon2_col_indices block_r in
   xor_block block_tmp block_r) = fill_block prev_block ref_block next_block with_xor.
Proof. exact fill_block_gen. Qed.

(* the whole function: for every accepted parameter set (and a lane of at most 2^32 / 7 * 4 blocks, i.e. less
   than 2.2 TiB of memory) crypto_pwhash returns RFC 9106's Argon2i / Argon2id tag (Spec/Argon2.v: H0, the
   first two blocks through H', every B[j] = G(B[(j - 1) mod q], B[z]) in order over slices and passes with the
   address blocks of the data-independent mode, the tag through H'), p = 1, t = opslimit, m = memlimit / 1024 *)
Theorem C09_pwhash_is_rfc9106 : forall (outlen : nat) pwd salt opslimit memlimit alg,
  Z.of_nat outlen < 4294967295 -> Z.of_nat (length pwd) <= MAX_U32 -> Z.of_nat (length salt) <= MAX_U32 ->
  pwhash_params_ok outlen pwd salt opslimit memlimit -> alg = 1 \/ alg = 2 ->
  7 * (memlimit / 1024 / 4) <= 2 ^ 32 ->
  crypto_pwhash outlen pwd salt opslimit memlimit alg =
  Ok (Argon2Spec.argon2 alg opslimit (memlimit / 1024) outlen pwd salt [] []).
Proof. exact crypto_pwhash_is_rfc. Qed.

(* the address table of the data-independent mode is the RFC's: word (k mod 128) of G(0, G(0, input block with counter k / 128 + 1)) *)
Theorem C09_addresses_are_rfc : forall I pass lane slice k, 0 <= segment_length I < 2 ^ 62 -> 0 <= k < segment_length I ->
  nthz (pseudo_rands (generate_addresses I pass lane slice)) (Z.to_nat k) =
  nthz (Argon2Spec.address_block pass lane slice (memory_blocks I) (passes I) (ty I) (k / 128 + 1)) (Z.to_nat (k mod 128)).
Proof. exact generate_addresses_spec. Qed.

(* the specification itself on a libsodium answer (crypto_pwhash, Argon2id, 32 bytes, empty password, opslimit 1,
   memlimit 8192): a test of the specification by computation, not a theorem *)
Example C09_spec_known_answer :
  Argon2Spec.argon2 2 1 8 32 [] [0x1e; 0x5d; 0x64; 0x4f; 0xa7; 0x8f; 0x1f; 0xc4; 0x8a; 0x14; 0xf7; 0x75; 0x99; 0x8d; 0xf6; 0x8b] [] [] =
  [0x1d; 0x16; 0x21; 0x9b; 0x1b; 0x82; 0x8d; 0x4c; 0xda; 0x04; 0x26; 0x18; 0x10; 0xc7; 0x6d; 0x90;
   0x62; 0xb3; 0xc4; 0xf3; 0xd2; 0x48; 0x44; 0xff; 0x11; 0x9a; 0x4a; 0xbd; 0x28; 0x9a; 0xb8; 0x89].
Proof. vm_compute. reflexivity. Qed.

(* index_alpha and fblamka as translated from src/argon2.rs on this run are the model's, for all arguments *)
Theorem C09_index_alpha_from_source : forall seg lane_len pass slice index pseudo_rand same_lane,
  gen_index_alpha seg lane_len pass slice index pseudo_rand same_lane =
  index_alpha seg lane_len pass slice index pseudo_rand same_lane.
Proof. exact gen_index_alpha_is_model. Qed.

Theorem C09_fblamka_from_source : forall x y, gen_fblamka x y = fblamka x y.
Proof. exact gen_fblamka_is_model. Qed.

(* the output has the requested length (so the length check in front of verify rejects nothing the comparison would accept) *)
Theorem C09_pwhash_output_length : forall (outlen : nat) pwd salt opslimit memlimit alg out,
  Z.of_nat outlen < 4294967295 -> Z.of_nat (length pwd) <= MAX_U32 -> Z.of_nat (length salt) <= MAX_U32 ->
  pwhash_params_ok outlen pwd salt opslimit memlimit -> alg = 1 \/ alg = 2 ->
  7 * (memlimit / 1024 / 4) <= 2 ^ 32 ->
  crypto_pwhash outlen pwd salt opslimit memlimit alg = Ok out -> length out = outlen.
Proof. exact crypto_pwhash_length. Qed.

Theorem C09_verify_iff : forall stored salt hl ops mem alg pwd,
  verify stored salt hl ops mem alg pwd = Ok tt <->
  (Z.of_nat (length stored) = hl /\ hash_with_salt pwd salt (length stored) ops mem alg = Ok stored).
Proof. exact verify_iff. Qed.

(* RFC 9106 section 5.3 (Argon2id) and 5.2 (Argon2i) test vectors: t = 3, m = 32 KiB, p = 4,
   32-byte password 01.., 16-byte salt 02.., 8-byte secret 03.., 12-byte associated data 04..
   -- a test of the model (by computation), not a theorem about all inputs *)
Example C09_rfc9106_argon2id :
  argon2_hash 3 32 4 (repeat 1 32) (repeat 2 16) (Some (repeat 3 8)) (Some (repeat 4 12)) 32 2 =
  Ok [0x0d; 0x64; 0x0d; 0xf5; 0x8d; 0x78; 0x76; 0x6c; 0x08; 0xc0; 0x37; 0xa3; 0x4a; 0x8b; 0x53; 0xc9;
      0xd0; 0x1e; 0xf0; 0x45; 0x2d; 0x75; 0xb6; 0x5e; 0xb5; 0x25; 0x20; 0xe9; 0x6b; 0x01; 0xe6; 0x59].
Proof. vm_compute. reflexivity. Qed.

Example C09_rfc9106_argon2i :
  argon2_hash 3 32 4 (repeat 1 32) (repeat 2 16) (Some (repeat 3 8)) (Some (repeat 4 12)) 32 1 =
  Ok [0xc8; 0x14; 0xd9; 0xd1; 0xdc; 0x7f; 0x37; 0xaa; 0x13; 0xf0; 0xd7; 0x7f; 0x24; 0x94; 0xbd; 0xa1;
      0xc8; 0xde; 0x6b; 0x01; 0x6d; 0xd3; 0x88; 0xd2; 0x99; 0x52; 0xa4; 0xc4; 0x67; 0x2b; 0x6c; 0xe8].
Proof. vm_compute. reflexivity. Qed.

(* non-vacuity: a position the loop visits, and an in-range parameter set *)
Example C09_example :
  position_ok 4 0 0 2 true /\ position_ok 16 1 3 15 false /\
  pwhash_params_ok 16 [] (repeat 0 16) 1 8192 /\ ~ pwhash_params_ok 32 [] (repeat 0 16) 4294967296 8192.
Proof.
  unfold position_ok, pwhash_params_ok, OPSLIMIT_MIN, OPSLIMIT_MAX, MEMLIMIT_MIN, MEMLIMIT_MAX, MIN_OUTLEN, MIN_SALT_LENGTH.
  cbn [length repeat]. split; [|split; [|split]].
  - repeat split; try lia; try reflexivity; intros; lia.
  - repeat split; try lia; intros H; lia.
  - lia.
  - intros H. lia.
Qed.

End C09.
