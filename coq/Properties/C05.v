(* C05  X25519 exact for every scalar and point; key exchange mirrors and refuses
   an all-zero shared secret.  The curve arithmetic inside curve25519-dalek is
   modelled by the RFC 7748 ladder (Spec/X25519.v) and tied by correspondence;
   "DH commutes" needs the Montgomery group law, which is not formalised here:
   it enters C05_kx_mirror as a hypothesis. *)
From Dryoc Require Import Impl.Scalarmult Refine.Kx.
Import ScalarmultImpl.
Open Scope Z_scope.

Module C05.

(* what the wrapper computes is the RFC 7748 function of the clamped scalar and the
   masked point, for every 32-byte scalar and every point encoding *)
Theorem C05_wrapper_is_rfc : forall n p, length n = 32%nat ->
  scalarmult n p = X25519Spec.x25519 n p.
Proof. exact scalarmult_is_x25519. Qed.

Theorem C05_clamp_low : forall b, 0 <= b < 256 -> Z.land b 248 = 8 * (b / 8).
Proof. exact land_248. Qed.
Theorem C05_clamp_high : forall b, 0 <= b < 256 -> Z.lor (Z.land b 127) 64 = 64 + (b mod 64).
Proof. exact clamp_top. Qed.

Theorem C05_kx_mirror : forall cpk csk spk ssk,
  scalarmult csk spk = scalarmult ssk cpk ->
  match client_session_keys cpk csk spk, server_session_keys spk ssk cpk with
  | Ok (crx, ctx), Ok (srx, stx) => crx = stx /\ ctx = srx
  | Err, Err => True
  | Panic, Panic => True
  | _, _ => False
  end.
Proof. exact kx_mirror. Qed.

Theorem C05_kx_refuses_zero : forall cpk csk spk,
  all_zero (scalarmult csk spk) = true ->
  client_session_keys cpk csk spk = Err /\ server_session_keys cpk csk spk = Err.
Proof. exact kx_refuses_zero_shared. Qed.

Theorem C05_kx_layout : forall cpk csk spk rx tx,
  client_session_keys cpk csk spk = Ok (rx, tx) ->
  exists keys, HashesImpl.generichash_chunks 64 None [scalarmult csk spk; cpk; spk] 64 = Ok keys /\ rx = firstn 32 keys /\ tx = skipn 32 keys.
Proof. exact kx_layout. Qed.

(* non-vacuity: the point u = 0 gives the all-zero secret (small order) *)
Example C05_zero_point : all_zero (scalarmult (zeros 32) (zeros 32)) = true.
Proof. vm_compute. reflexivity. Qed.

End C05.
