(* C06  Ed25519: strict verification and framing over the model of the wrapper.
   The Edwards-curve arithmetic of curve25519-dalek is modelled by the RFC 8032
   formulas (Spec/Ed25519.v) and tied by correspondence; "every honest signature
   verifies" needs the Edwards group law ([S]B = R + [k]A), which is not
   formalised here (no elliptic-curve library): it enters C06_open_of_sign as the
   hypothesis that verification of the produced signature succeeds. *)
From Dryoc Require Import Impl.Sign Refine.Sign.
Import SignImpl Ed25519Spec.
Open Scope Z_scope.

Module C06.

Theorem C06_strict_S : forall ph sig m pk,
  L <= le_val (skipn 32 sig) -> verify_detached ph sig m pk = Err.
Proof. exact verify_rejects_unreduced_S. Qed.

Theorem C06_sign_S_reduced : forall ph m sk, le_val (skipn 32 (sign_detached ph m sk)) < L.
Proof. exact sign_S_reduced. Qed.

Theorem C06_small_order_R_rejected : forall ph sig m pk R,
  dalek_decompress (firstn 32 sig) = Some R -> small_order R = true -> verify_detached ph sig m pk = Err.
Proof. exact verify_rejects_small_order_R. Qed.

Theorem C06_small_order_key_rejected : forall ph sig m pk A,
  dalek_decompress pk = Some A -> small_order A = true -> verify_detached ph sig m pk = Err.
Proof. exact verify_rejects_small_order_A. Qed.

Theorem C06_combined_layout : forall m sk,
  sign_combined (length m + 64) m sk = Ok (sign_detached false m sk ++ m).
Proof. exact sign_combined_layout. Qed.

Theorem C06_open_short : forall mlen sm pk, (length sm < 64)%nat -> sign_open mlen sm pk = Err.
Proof. exact sign_open_short. Qed.

Theorem C06_open_of_sign_partial : forall m sk pk,
  verify_detached false (sign_detached false m sk) m pk = Ok tt ->
  sign_open (length m) (sign_detached false m sk ++ m) pk = Ok m.
Proof. exact sign_open_of_combined. Qed.

Theorem C06_modes_differ : dom2 true <> dom2 false /\ length (dom2 true) = 34%nat /\ dom2 false = [].
Proof. exact modes_differ. Qed.

End C06.
