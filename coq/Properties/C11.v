(* C11  Randomised operations draw fresh randomness.  Over the model: every
   operation returns a function of its own interval of the generator's byte
   stream, the intervals of any call sequence are consecutive (pairwise
   disjoint), and identity-flow values (keys, nonces, headers, salts, seeds, the
   secret half of key pairs) ARE their draw.  That the operating system's
   generator itself yields unrelated bytes is the assumption (sampled by the
   search half of the check). *)
From Dryoc Require Import Impl.Rng Refine.Rng.
Import RngImpl.
Open Scope Z_scope.

Module C11.

Theorem C11_outputs_are_functions_of_own_interval : forall stream c ops,
  fst (run stream c ops) =
  map (fun p => output (fst (fst p)) (draw stream (fst (snd p)) (snd (snd p)))) (combine ops (intervals c ops)).
Proof. exact run_outputs. Qed.

Theorem C11_intervals_disjoint : forall c ops, ForallOrdPairs disjoint (intervals c ops).
Proof. exact intervals_disjoint. Qed.

Theorem C11_cursor_advances : forall stream c ops,
  snd (run stream c ops) = (c + fold_right (fun o a => snd o + a) 0 ops)%nat.
Proof. exact run_cursor. Qed.

Theorem C11_identity_flow : forall d, output Ident d = d.
Proof. exact ident_output_is_draw. Qed.

Theorem C11_keypair_secret_is_draw : forall d, length d = 32%nat -> skipn 32 (output X25519Pair d) = d.
Proof. exact pair_secret_is_draw. Qed.

Example C11_example :
  run [1; 2; 3; 4; 5; 6; 7; 8; 9] 1 [(Ident, 3%nat); (Ident, 2%nat)] = ([[2; 3; 4]; [5; 6]], 6%nat).
Proof. vm_compute. reflexivity. Qed.

End C11.
