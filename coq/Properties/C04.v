(* C04  Opening / pulling functions are total on untrusted bytes: for every
   byte string, with an output buffer at least as large as the API requires,
   the outcome is Ok or Err, never Panic.  (The Panic outcomes of the model are
   exactly the caller-buffer preconditions.)  Entry points not modelled here
   (signatures, password-hash strings, MAC verification through the object API)
   are covered by the correspondence / search part of the check only. *)
From Dryoc Require Import Impl.SecretBox Impl.SecretStream Impl.Box Impl.Argon2 Refine.Aead Refine.Stream Refine.Box Refine.Argon2.
Import SecretBoxImpl.
Open Scope Z_scope.

Module C04.

Theorem C04_open_easy_total : forall mbuf c n k, fst (open_easy_c mbuf c n k) <> Panic.
Proof. exact sb_open_easy_total. Qed.

Theorem C04_open_easy_inplace_total : forall cbuf n k, fst (open_easy_inplace_c cbuf n k) <> Panic.
Proof. exact sb_open_easy_inplace_total. Qed.

Theorem C04_stream_pull_total : forall s mbuf tagvar c ad,
  fst (fst (fst (SecretStreamImpl.pull_c s mbuf tagvar c ad))) <> Panic.
Proof. exact ss_pull_never_panics. Qed.

Theorem C04_stream_obj_pull_total : forall s c ad,
  fst (SecretStreamImpl.obj_pull_c s c ad) <> Panic.
Proof. exact ss_obj_pull_never_panics. Qed.

(* non-vacuity: a 5-byte "ciphertext" is an error, not a panic *)
(* public-key and sealed boxes from an untrusted sender *)
Theorem C04_box_open_total : forall mbuf c n pk sk, fst (BoxImpl.open_easy mbuf c n pk sk) <> Panic.
Proof. exact box_open_total. Qed.

Theorem C04_box_open_inplace_total : forall cbuf n pk sk, fst (BoxImpl.open_easy_inplace cbuf n pk sk) <> Panic.
Proof. exact box_open_inplace_total. Qed.

Theorem C04_seal_open_total : forall mbuf c rpk rsk, fst (BoxImpl.seal_open mbuf c rpk rsk) <> Panic.
Proof. exact seal_open_total. Qed.

(* PwHash::verify on a stored record (serde): a record whose declared hash length -- any number, up to 2^64 - 1 -- is not the
   length of the hash it carries is answered with Err; the declared number sizes nothing (fix 91e2e19) *)
Theorem C04_pwhash_record_length_mismatch : forall stored salt hl ops mem alg pwd,
  Z.of_nat (length stored) <> hl -> Argon2Impl.verify stored salt hl ops mem alg pwd = Err.
Proof. exact verify_length_mismatch. Qed.

Example C04_example :
  fst (SecretStreamImpl.obj_pull_c (SecretStreamImpl.mk_state (zeros 32) (zeros 12)) [1;2;3;4;5] []) = Err.
Proof. vm_compute. reflexivity. Qed.

End C04.
