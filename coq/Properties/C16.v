(* C16  Byte and serde encodings: from_bytes inverts to_bytes for boxes, sealed
   boxes and signed messages (any payload); decoding a fixed-length value from
   an encoding holding any other number of bytes / elements fails.
   serde_json / bincode themselves are external (assumption in Impl/Serde.v,
   validated against the real crates by correspondence). *)
From Dryoc Require Import Impl.Serde Refine.Serde.
Import SerdeImpl.
Open Scope Z_scope.

Module C16.

Theorem C16_visit_seq : forall N elems,
  visit_seq N elems = if (length elems =? N)%nat then Ok elems else Err.
Proof. exact visit_seq_spec. Qed.

(* the resizable heap containers (nightly: HeapBytes, LockedBytes) decode exactly the elements /
   bytes they are given, whatever size hint the deserialiser offers; Locked<HeapByteArray<N>> runs
   the fixed-length loop above *)
Theorem C16_heap_visit_seq : forall hint elems, heap_visit_seq hint elems = Ok elems.
Proof. exact heap_visit_seq_spec. Qed.

Theorem C16_heap_visit_bytes : forall v, heap_visit_bytes v = Ok v.
Proof. exact heap_visit_bytes_spec. Qed.

Theorem C16_visit_bytes : forall N v,
  visit_bytes N v = if (length v =? N)%nat then Ok v else Err.
Proof. exact visit_bytes_spec. Qed.

Theorem C16_secretbox_bytes_roundtrip : forall tag data, length tag = 16%nat ->
  secretbox_from_bytes (secretbox_to_bytes tag data) = Ok (tag, data).
Proof. exact secretbox_bytes_roundtrip. Qed.

Theorem C16_box_bytes_roundtrip : forall tag data, length tag = 16%nat ->
  box_from_bytes (box_to_bytes None tag data) = Ok (None, tag, data).
Proof. exact box_bytes_roundtrip. Qed.

Theorem C16_sealed_bytes_roundtrip : forall epk tag data, length epk = 32%nat -> length tag = 16%nat ->
  box_from_sealed_bytes (box_to_bytes (Some epk) tag data) = Ok (Some epk, tag, data).
Proof. exact sealed_bytes_roundtrip. Qed.

Theorem C16_signed_bytes_roundtrip : forall sig msg, length sig = 64%nat ->
  signed_from_bytes (signed_to_bytes sig msg) = Ok (sig, msg).
Proof. exact signed_bytes_roundtrip. Qed.

Theorem C16_short_bytes_rejected : forall b,
  ((length b < 16)%nat -> secretbox_from_bytes b = Err /\ box_from_bytes b = Err) /\
  ((length b < 48)%nat -> box_from_sealed_bytes b = Err) /\
  ((length b < 64)%nat -> signed_from_bytes b = Err).
Proof. exact short_bytes_rejected. Qed.

Example C16_example : visit_seq 4 [1; 2] = Err /\ visit_seq 4 [1; 2; 3; 4; 5] = Err /\ visit_seq 4 [1; 2; 3; 4] = Ok [1; 2; 3; 4].
Proof. vm_compute. repeat split; reflexivity. Qed.

End C16.
