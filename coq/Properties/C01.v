(* C01  Authenticated encryption round-trips; every API form yields the same
   bytes.  Statements only (proofs in Refine/Aead.v).  The instantiated model
   is XSalsa20 (Salsa20 spec) + the Poly1305 implementation model. *)
From Dryoc Require Import Impl.SecretBox Refine.Aead.
Import SecretBoxImpl.
Open Scope Z_scope.

Module C01.

Definition box (m n k : bytes) : bytes :=
  snd (detached_inplace_c m n k) ++ fst (detached_inplace_c m n k).

(* all encrypting forms of the secret box produce the same bytes, any length *)
Theorem C01_forms_agree : forall cbuf dbuf pad m n k,
  length cbuf = (length m + 16)%nat -> length dbuf = length m -> length pad = 16%nat ->
  easy_c cbuf m n k = Ok (box m n k) /\
  easy_inplace_c (m ++ pad) n k = Ok (box m n k) /\
  detached_c dbuf m n k = Ok (detached_inplace_c m n k).
Proof.
  intros cbuf dbuf pad m n k Hc Hd Hp. repeat split.
  - exact (sb_easy_is_mac_detached cbuf m n k Hc).
  - exact (sb_easy_inplace_is_easy m pad n k Hp).
  - exact (sb_detached_is_detached_inplace dbuf m n k Hd).
Qed.

(* the matching open returns the original message, any key / nonce / length *)
Theorem C01_roundtrip : forall mbuf m n k,
  length mbuf = length m ->
  open_easy_c mbuf (box m n k) n k = (Ok tt, m) /\
  open_easy_inplace_c (box m n k) n k = (Ok tt, m ++ snd (detached_inplace_c m n k)) /\
  open_detached_inplace_c (fst (detached_inplace_c m n k)) (snd (detached_inplace_c m n k)) n k = (Ok tt, m).
Proof.
  intros mbuf m n k Hm. repeat split.
  - exact (sb_open_easy_roundtrip mbuf m n k Hm).
  - exact (sb_open_easy_inplace_roundtrip m n k).
  - exact (sb_open_detached_inplace_roundtrip m n k).
Qed.

(* non-vacuity: a concrete box through the concrete model *)
Example C01_example :
  open_easy_c (zeros 5) (box [1; 2; 3; 4; 5] (zeros 24) (zeros 32)) (zeros 24) (zeros 32) = (Ok tt, [1; 2; 3; 4; 5]).
Proof. vm_compute. reflexivity. Qed.

End C01.
