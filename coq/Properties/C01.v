(* C01  Authenticated encryption round-trips; every API form yields the same
   bytes.  Statements only (proofs in Refine/Aead.v).  The instantiated model
   is XSalsa20 (Salsa20 spec) + the Poly1305 implementation model. *)
From Dryoc Require Import Impl.SecretBox Impl.Box Refine.Aead Refine.Box.
Import SecretBoxImpl.
Open Scope Z_scope.

Module C01.

Definition box (m n k : bytes) : bytes :=
  snd (detached_inplace_c m n k) ++ fst (detached_inplace_c m n k).

(* all encrypting forms of the secret box produce the same bytes, any length *)
Theorem C01_forms_agree : forall cbuf dbuf pad m n k,
  length cbuf = (length m + 16)%nat -> length dbuf = length m -> length pad = 16%nat ->
  easy_c cbuf m n k = Ok (box m n k) /\
  easy_inplace_c (m ++ pad) n k = Ok (box m n k) /\
  detached_c dbuf m n k = Ok (detached_inplace_c m n k).
Proof.
  intros cbuf dbuf pad m n k Hc Hd Hp. repeat split.
  - exact (sb_easy_is_mac_detached cbuf m n k Hc).
  - exact (sb_easy_inplace_is_easy m pad n k Hp).
  - exact (sb_detached_is_detached_inplace dbuf m n k Hd).
Qed.

(* the matching open returns the original message, any key / nonce / length *)
Theorem C01_roundtrip : forall mbuf m n k,
  length mbuf = length m ->
  open_easy_c mbuf (box m n k) n k = (Ok tt, m) /\
  open_easy_inplace_c (box m n k) n k = (Ok tt, m ++ snd (detached_inplace_c m n k)) /\
  open_detached_inplace_c (fst (detached_inplace_c m n k)) (snd (detached_inplace_c m n k)) n k = (Ok tt, m).
Proof.
  intros mbuf m n k Hm. repeat split.
  - exact (sb_open_easy_roundtrip mbuf m n k Hm).
  - exact (sb_open_easy_inplace_roundtrip m n k).
  - exact (sb_open_detached_inplace_roundtrip m n k).
Qed.

(* the bytes are NaCl's crypto_secretbox: XSalsa20 key stream (specification), its first 32 bytes
   keying RFC 8439 Poly1305 over the ciphertext (proved for the limb implementation), the rest
   XORed into the message -- for every key, nonce and message *)
Theorem C01_secretbox_is_nacl : forall cbuf m n k, wf_bytes m -> length cbuf = (length m + 16)%nat ->
  easy_c cbuf m n k = Ok (nacl_secretbox k n m).
Proof. exact secretbox_is_nacl. Qed.

(* the public-key forms are the secret-key forms under the precomputed key
   HSalsa20(X25519(sk, pk), 0^16), for every message, nonce and key pair *)
Theorem C01_box_is_secretbox : forall cbuf pad m n pk sk,
  length cbuf = (length m + 16)%nat -> length pad = 16%nat ->
  BoxImpl.easy cbuf m n pk sk = Ok (box m n (ScalarmultImpl.beforenm pk sk)) /\
  BoxImpl.easy_inplace (m ++ pad) n pk sk = Ok (box m n (ScalarmultImpl.beforenm pk sk)) /\
  (forall mbuf c, BoxImpl.open_easy mbuf c n pk sk = open_easy_c mbuf c n (ScalarmultImpl.beforenm pk sk)).
Proof.
  intros cbuf pad m n pk sk Hc Hp. repeat split.
  - exact (box_easy_is_secretbox cbuf m n pk sk Hc).
  - exact (box_easy_inplace_is_secretbox m pad n pk sk Hp).
Qed.

(* two parties whose precomputed keys agree (X25519 commutes: the Montgomery group law, an
   assumption; compared with libsodium for every generated pair) open each other's boxes *)
Theorem C01_box_roundtrip : forall cbuf mbuf m n pkA skA pkB skB,
  ScalarmultImpl.beforenm pkB skA = ScalarmultImpl.beforenm pkA skB ->
  length cbuf = (length m + 16)%nat -> length mbuf = length m ->
  exists c, BoxImpl.easy cbuf m n pkB skA = Ok c /\ BoxImpl.open_easy mbuf c n pkA skB = (Ok tt, m) /\
            length c = (length m + 16)%nat.
Proof. exact box_roundtrip. Qed.

(* sealed boxes: ephemeral public key || box under nonce BLAKE2b-24(epk || recipient pk); the
   recipient opens what was sealed, for every message and every ephemeral key *)
Theorem C01_seal_layout : forall cbuf m rpk esk c,
  BoxImpl.seal cbuf m rpk esk = Ok c ->
  exists nonce, BoxImpl.seal_nonce (ScalarmultImpl.scalarmult_base esk) rpk = Ok nonce /\
    firstn 32 c = ScalarmultImpl.scalarmult_base esk /\
    BoxImpl.easy (skipn 32 cbuf) m nonce rpk esk = Ok (skipn 32 c).
Proof. exact seal_layout. Qed.

Theorem C01_seal_roundtrip : forall cbuf mbuf m rpk rsk esk,
  ScalarmultImpl.beforenm rpk esk = ScalarmultImpl.beforenm (ScalarmultImpl.scalarmult_base esk) rsk ->
  length cbuf = (length m + 48)%nat -> length mbuf = length m ->
  exists c, BoxImpl.seal cbuf m rpk esk = Ok c /\ BoxImpl.seal_open mbuf c rpk rsk = (Ok tt, m).
Proof. exact seal_roundtrip. Qed.

(* non-vacuity: a concrete box through the concrete model *)
Example C01_example :
  open_easy_c (zeros 5) (box [1; 2; 3; 4; 5] (zeros 24) (zeros 32)) (zeros 24) (zeros 32) = (Ok tt, [1; 2; 3; 4; 5]).
Proof. vm_compute. reflexivity. Qed.

End C01.
