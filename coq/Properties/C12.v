(* C12  Key derivation matches libsodium for every subkey length, id, context.
   Statements only; proofs are in Refine/. *)
From Dryoc Require Import Impl.Kdf Refine.Blake2b Refine.Kdf Refine.GenTie.
Import KdfImpl.
Open Scope Z_scope.

Module C12.

(* derive = BLAKE2b(digest length = len, key = master key,
                    salt = LE64(id) || 0^8, personal = ctx || 0^8, empty message)
   -- libsodium's definition -- for every length 16..64, id, context and key *)
Theorem C12_kdf : forall (len : nat) (id : Z) (ctx key : bytes),
  (16 <= len <= 64)%nat -> length ctx = 8%nat -> length key = 32%nat ->
  derive_from_key len id ctx key =
  Ok (Blake2bSpec.blake2b len key (kdf_salt id) (kdf_personal ctx) []).
Proof. exact derive_is_blake2b. Qed.

Theorem C12_rejects : forall (len : nat) id ctx key,
  (len < 16 \/ 64 < len)%nat -> derive_from_key len id ctx key = Err.
Proof. exact derive_rejects. Qed.

(* different lengths / ids / contexts start the hash from different parameter
   blocks (distinct subkeys then rest on BLAKE2b collision resistance) *)
Theorem C12_param_injective : forall len id ctx len' id' ctx',
  0 <= id < 2 ^ 64 -> 0 <= id' < 2 ^ 64 -> length ctx = 8%nat -> length ctx' = 8%nat ->
  Blake2bSpec.param_block (Z.of_nat len) 32 (kdf_salt id) (kdf_personal ctx) =
  Blake2bSpec.param_block (Z.of_nat len') 32 (kdf_salt id') (kdf_personal ctx') ->
  len = len' /\ id = id' /\ ctx = ctx'.
Proof. exact kdf_param_injective. Qed.

(* the constants and tables the model uses are the ones in /repo now *)
Theorem C12_gen_tie :
  Gen.Constants.CRYPTO_KDF_BLAKE2B_BYTES_MIN = Z.of_nat KdfImpl.BYTES_MIN /\
  Gen.Constants.CRYPTO_KDF_BLAKE2B_BYTES_MAX = Z.of_nat KdfImpl.BYTES_MAX /\
  Gen.Constants.CRYPTO_KDF_CONTEXTBYTES = Z.of_nat KdfImpl.CONTEXTBYTES /\
  Gen.Constants.CRYPTO_KDF_KEYBYTES = Z.of_nat KdfImpl.KEYBYTES /\
  Gen.Constants.CRYPTO_GENERICHASH_BLAKE2B_SALTBYTES = 16 /\
  Gen.Constants.CRYPTO_GENERICHASH_BLAKE2B_PERSONALBYTES = 16.
Proof. exact kdf_constants_tie. Qed.

(* non-vacuity: a concrete instance (libsodium's output for this input) *)
Example C12_kat :
  derive_from_key 16 0 [104;101;108;108;111;49;50;51] (zeros 32) =
  Ok [0xd9;0xa0;0x50;0x69;0xcd;0xf2;0xc7;0x5f;0x29;0xf8;0x01;0xd9;0xc1;0xeb;0xb0;0x5a].
Proof. vm_compute. reflexivity. Qed.

End C12.
