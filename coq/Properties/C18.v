(* C18  Results do not depend on the backend, the build configuration or the container.

   What differs between the builds is the BLAKE2b backend: src/blake2b/blake2b_simd.rs is a
   second implementation (its own compression function on Simd<u64, 4> and its own copy of the
   buffering code).  On every run bin/vgen (vsimd.py) translates its compression function into
   the vector language of Impl/SimdIR.v (Gen/SimdKernel.v) and extracts the buffering functions
   of both files as normalised token strings.  Proved here, for ALL inputs:
   - the translated SIMD compression function equals the software one (every chaining value,
     counter, flags, block): message schedule, lane rotations, rotation amounts, IV, epilogue;
   - hence one-shot hashing, incremental hashing with any chunking, and the variable-length hash
     of Argon2 give the same result on both backends;
   - the buffering / driver functions of the two files are the same token for token (state
     fields renamed).
   Not in the model (it has one representation of bytes and one source for both build
   configurations): the container types and the default / nightly builds, and the external
   crates sha2 (whose assembly backend simd_backend enables) and curve25519-dalek.  Those are
   decided by the check's build matrix: the same probe corpus under {default, nightly,
   nightly + simd_backend}, each transcript compared with the model and with the others, and a
   container section (stack / Vec / heap / locked) compared with the classic functions. *)
From Coq Require Import String.
From Dryoc Require Import Impl.Blake2bSimd Refine.Blake2bSimd Refine.Backend.
Import Blake2bImpl.
Open Scope Z_scope.

Module C18.

Theorem C18_simd_compress : forall sh st sf block, length sh = 8%nat ->
  Blake2bSimd.compress sh st sf block = compress sh st sf block.
Proof. exact simd_compress_eq. Qed.

Theorem C18_simd_hash : forall n x key, hash Blake2bSimd.compress n x key = hash_c n x key.
Proof. exact simd_hash_eq. Qed.

Theorem C18_simd_longhash : forall n x, longhash Blake2bSimd.compress n x = longhash_c n x.
Proof. exact simd_longhash_eq. Qed.

Theorem C18_simd_incremental : forall outlen key salt personal (cs : list bytes) n,
  (let* s := init Blake2bSimd.compress outlen key salt personal in
   finalize Blake2bSimd.compress (fold_left (update Blake2bSimd.compress) cs s) n) =
  (let* s := init_c outlen key salt personal in finalize_c (fold_left update_c cs s) n).
Proof. exact simd_incremental_eq. Qed.

Theorem C18_buffering_same : simd_buffering = soft_buffering.
Proof. vm_compute. reflexivity. Qed.

(* non-vacuity / sanity: the translated SIMD code computes BLAKE2b-512("abc") (RFC 7693 appendix A) *)
Example C18_example :
  hash Blake2bSimd.compress 64 [97; 98; 99] None =
  Ok [0xba; 0x80; 0xa5; 0x3f; 0x98; 0x1c; 0x4d; 0x0d; 0x6a; 0x27; 0x97; 0xb6; 0x9f; 0x12; 0xf6; 0xe9;
      0x4c; 0x21; 0x2f; 0x14; 0x68; 0x5a; 0xc4; 0xb7; 0x4b; 0x12; 0xbb; 0x6f; 0xdb; 0xff; 0xa2; 0xd1;
      0x7d; 0x87; 0xc5; 0x39; 0x2a; 0xab; 0x79; 0x2d; 0xc2; 0x52; 0xd5; 0xde; 0x45; 0x33; 0xcc; 0x95;
      0x18; 0xd3; 0x8a; 0xa8; 0xdb; 0xf1; 0x92; 0x5a; 0xb9; 0x23; 0x86; 0xed; 0xd4; 0x00; 0x99; 0x23].
Proof. vm_compute. reflexivity. Qed.

End C18.
