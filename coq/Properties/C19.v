(* C19  A refused mlock is an error, never a panic, for every Result-returning
   constructor / transition and every refusal schedule; regions created
   earlier keep satisfying the C14 invariant (C14_step_preserves holds for every
   schedule: the schedule is part of the world). *)
From Dryoc Require Import Impl.Protected Refine.Protected.
Import ProtectedImpl.
Open Scope Z_scope.

Module C19.

Theorem C19_transitions_never_panic : forall w o, result_returning o = true -> step w o <> Panic.
Proof. exact result_ops_never_panic. Qed.

Theorem C19_create_never_panics : forall len secret k, create len secret k <> Panic.
Proof. exact create_never_panics. Qed.

Theorem C19_refused_lock_is_err : forall w,
  (r_len (w_main w) <> 0)%nat -> refused w = true -> step w OLock = Err.
Proof. exact refused_lock_is_err. Qed.

Example C19_example : create 64 195 1 = Err.
Proof. vm_compute. reflexivity. Qed.

End C19.
