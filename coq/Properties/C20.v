(* C20  What the safe API offers in each type state, read from the impl table
   regenerated from src/protected.rs and src/dryocstream.rs on this run, equals
   the table the property states -- for every cell (container x protect mode x
   lock mode x operation); every transition takes the region by value; push
   (pull) methods exist only on push (pull) streams.  The domain is finite: the
   theorems are proved by computation over all cells.  That [resolves] predicts
   the Rust compiler is not proved: one program per cell is compiled (check). *)
From Dryoc Require Import Impl.TypeState Refine.TypeState.
Import TypeState.
Open Scope Z_scope.

Module C20.

Theorem C20_table : forall c pm lm o,
  In (c, pm, lm) cells -> In o all_ops ->
  resolves c pm lm (trait_of o) = permitted c pm lm o.
Proof.
  intros c pm lm o Hc Ho.
  assert (H : table_agrees = true) by (vm_compute; reflexivity).
  unfold table_agrees in H. rewrite forallb_forall in H. specialize (H _ Hc). cbn beta iota in H.
  rewrite forallb_forall in H. specialize (H _ Ho). now apply Bool.eqb_prop in H.
Qed.

Theorem C20_cells_complete : forall c pm lm,
  (c = 1 \/ c = 2) -> (pm = 0 \/ pm = 1 \/ pm = 2) -> (lm = 0 \/ lm = 1) -> In (c, pm, lm) cells.
Proof. intros c pm lm [-> | ->] [-> | [-> | ->]] [-> | ->]; vm_compute; tauto. Qed.

(* every impl row of a protected type, of ANY trait: write access only in the read-write state,
   read access never in the no-access state, lock / no-access only from the unlocked state *)
Theorem C20_rows_sound : forall rt rc rpm rlm bnds, In (rt, rc, rpm, rlm, bnds) impl_rows ->
  (mem rt write_traits = true -> rpm = 0) /\
  (mem rt read_traits = true -> rpm = 0 \/ rpm = 1) /\
  (rt = T_Lock \/ rt = T_ProtectNoAccess -> rlm = 0).
Proof. exact rows_sound_spec. Qed.

Theorem C20_transitions_consume : transitions_consume = true.
Proof. vm_compute. reflexivity. Qed.

(* ... and returns a region whose type state is the one the transition's name says (read from the impl's result type) *)
Theorem C20_transitions_reach_declared_state : transitions_target_ok = true.
Proof. vm_compute. reflexivity. Qed.

Theorem C20_stream : stream_ok = true.
Proof. vm_compute. reflexivity. Qed.

(* non-vacuity: a forbidden and a permitted cell *)
Example C20_example :
  resolves 1 1 1 (trait_of MutView) = false /\ resolves 1 0 1 (trait_of MutView) = true /\ resolves 2 2 0 (trait_of ReadView) = false.
Proof. vm_compute. repeat split; reflexivity. Qed.

End C20.
