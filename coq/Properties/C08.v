(* C08  Incremental hash / MAC = one-shot for any chunking.  Statements only. *)
From Dryoc Require Import Spec.Poly1305 Impl.Poly1305 Impl.Hashes Refine.Blake2b Refine.Hashes Refine.Poly1305.
Import Blake2bImpl HashesImpl.
Open Scope Z_scope.

Module C08.

(* BLAKE2b buffering: any list of update calls (empty pieces, pieces straddling
   or exactly filling the 128-byte buffer) = one update with the concatenation;
   for every compression function, from every state whose buffer holds <= 128 bytes *)
Theorem C08_blake2b_update_chunks :
  forall (cmp : list Z -> Z * Z -> Z * Z -> bytes -> list Z) (s : state) (cs : list bytes),
  (length (st_buf s) <= 128)%nat ->
  fold_left (update cmp) cs s = update cmp s (concat cs).
Proof. exact update_chunks. Qed.

(* crypto_generichash_init / update* / final = the same with a single update *)
Theorem C08_generichash : forall (outlen : nat) key (cs : list bytes) (fin : nat),
  generichash_chunks outlen key cs fin = generichash_chunks outlen key [concat cs] fin.
Proof. exact generichash_chunks_concat. Qed.

(* interfaces whose hasher is the external sha2 crate (crypto_hash_sha512,
   crypto_auth, pre-hashed signing): chunking-independence follows from the
   crate's update law, which the correspondence check validates on every split *)
(* crypto_auth_init / update / final over any chunking = the one-shot authenticator of the concatenation *)
Theorem C08_auth_chunks : forall key (cs : list bytes), auth_chunks key cs = auth key (concat cs).
Proof. exact auth_chunks_is_auth. Qed.

Theorem C08_external_hasher : forall (H : Type) (upd : H -> bytes -> H),
  (forall s a b, upd (upd s a) b = upd s (a ++ b)) -> (forall s, upd s [] = s) ->
  forall cs s, fold_left upd cs s = upd s (concat cs).
Proof. exact fold_update_concat. Qed.

(* non-vacuity: a concrete chunking through the concrete model *)
(* Poly1305 buffering: after any sequence of update calls the state is the absorbed view of the
   concatenation (whole blocks folded into h, the remainder in the buffer) ... *)
Theorem C08_poly1305_update_chunks : forall r pad (cs : list bytes) bs,
  fold_left Poly1305Impl.update cs (absorbed r pad bs) = absorbed r pad (bs ++ concat cs).
Proof. exact poly_update_chunks. Qed.

(* ... hence the incremental MAC with any chunking = the one-shot MAC = RFC 8439 *)
Theorem C08_onetimeauth_chunks : forall key (cs : list bytes),
  length key = 32%nat -> wf_bytes key -> wf_bytes (concat cs) ->
  onetimeauth_chunks key cs = Poly1305Spec.poly1305 key (concat cs).
Proof. exact mac_chunks. Qed.

Example C08_example :
  generichash_chunks 32 None [[1;2;3]; []; repeat 7 200; [9]] 32 = generichash 32 ([1;2;3] ++ repeat 7 200 ++ [9]) None.
Proof. vm_compute. reflexivity. Qed.

End C08.
