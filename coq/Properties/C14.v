(* C14  Protected memory: for a region of ANY length and ANY sequence of
   lock / unlock / read-only / read-write / no-access / clone / resize operations
   (resize only in the read-write state, as the type system enforces), every
   page holding data -- of the region and of every clone -- has the rights and
   the lock state of its type, under the assumed OsModel (Impl/Protected.v).
   Faults, VmLck accounting and the guard pages are kernel behaviour: observed
   through /proc and fault probes by the correspondence / search half. *)
From Dryoc Require Import Impl.Protected Refine.Protected.
Import ProtectedImpl.
Open Scope Z_scope.

Module C14.

Theorem C14_agree : forall len secret k w0 ops,
  create len secret k = Ok w0 -> legal_seq w0 ops ->
  forall w, In (Ok w) (run w0 ops) -> Agree (w_main w) /\ Forall Agree (w_clones w).
Proof. exact reachable_agree. Qed.

Theorem C14_step_preserves : forall w o w', Inv w -> legal w o -> step w o = Ok w' -> Inv w'.
Proof. exact step_preserves. Qed.

(* non-vacuity, at the length the unfixed code got wrong (4097 = 1 mod page):
   read-only then no-access; the last data page follows *)
Example C14_example :
  match create 4097 195 0 with
  | Ok w0 => map (fun x => match x with Ok w => observe w | _ => (0, 0, 0, 0, 0) end) (run w0 [ORo; OUnlock; ONa])
  | _ => []
  end = [(1, 1, 0, 2, 4097); (1, 1, 0, 0, 4097); (0, 0, 0, 0, 4097)].
Proof. vm_compute. reflexivity. Qed.

End C14.
