(* C13  Seeded key generation: the constructions, as definitional facts of the
   model (what each derived key IS), for every seed.  That the converted
   Ed25519 public key is the base-point multiple of the converted secret key
   needs the birational map to be a group homomorphism (not formalised): it is
   checked on the implementation against libsodium (search). *)
From Dryoc Require Import Impl.Sign Refine.Sign.
Import SignImpl.
Open Scope Z_scope.

Module C13.

Theorem C13_box_seed_keypair : forall seed,
  snd (box_seed_keypair seed) = firstn 32 (Sha512Spec.sha512 seed) /\
  fst (box_seed_keypair seed) = ScalarmultImpl.scalarmult_base (firstn 32 (Sha512Spec.sha512 seed)).
Proof. exact box_seed_keypair_spec. Qed.

Theorem C13_sign_seed_keypair_layout : forall seed, length seed = 32%nat ->
  snd (seed_keypair seed) = seed ++ fst (seed_keypair seed) /\ firstn 32 (snd (seed_keypair seed)) = seed.
Proof. exact seed_keypair_layout. Qed.

Theorem C13_sk_to_curve25519 : forall sk,
  SignImpl.sk_to_curve25519 sk = X25519Spec.clamp (firstn 32 (Sha512Spec.sha512 (firstn 32 sk))).
Proof. exact sk_to_curve_spec. Qed.

End C13.
