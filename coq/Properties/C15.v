(* C15  Every region that reaches the system allocator has been wiped: for any
   operation sequence every release event (growth reallocation, resize of a
   locked region, drop of the region and of its clones) carries no non-zero
   byte -- in the model of the allocator (deallocate wipes the whole allocation).
   What memory free() really receives is observable only through the hook: that
   is the correspondence / search half of the check. *)
From Dryoc Require Import Impl.Protected Refine.Protected.
Import ProtectedImpl.
Open Scope Z_scope.

Module C15.

Theorem C15_step_releases_wiped : forall w o w', RelOk w -> step w o = Ok w' -> RelOk w'.
Proof. exact step_releases_wiped. Qed.

Theorem C15_drop_all_wiped : forall w, RelOk w -> Forall (fun e => snd e = false) (fst (drop_all w)).
Proof. exact drop_all_wiped. Qed.

Theorem C15_release_wiped : forall r, snd (release r) = false.
Proof. exact release_wiped. Qed.

Example C15_example :
  match create 100 195 0 with
  | Ok w0 => fst (drop_all (last_ok w0 (run w0 [OUnlock; OGrow; OClone])))
  | _ => []
  end = [(100%nat, false); (4197%nat, false); (4197%nat, false)].
Proof. vm_compute. reflexivity. Qed.

End C15.
