(* BLAKE2b as in RFC 7693 (with the salt / personalisation words of the
   parameter block, as in the BLAKE2 paper and libsodium). Executable. *)
From Dryoc Require Export Lib.Word.
Open Scope Z_scope.

Module Blake2bSpec.

Definition IV : list Z :=
  [0x6a09e667f3bcc908; 0xbb67ae8584caa73b; 0x3c6ef372fe94f82b; 0xa54ff53a5f1d36f1;
   0x510e527fade682d1; 0x9b05688c2b3e6c1f; 0x1f83d9abfb41bd6b; 0x5be0cd19137e2179].

Definition SIGMA : list (list nat) :=
  [[0; 1; 2; 3; 4; 5; 6; 7; 8; 9; 10; 11; 12; 13; 14; 15];
   [14; 10; 4; 8; 9; 15; 13; 6; 1; 12; 0; 2; 11; 7; 5; 3];
   [11; 8; 12; 0; 5; 2; 15; 13; 10; 14; 3; 6; 7; 1; 9; 4];
   [7; 9; 3; 1; 13; 12; 11; 14; 2; 6; 5; 10; 4; 0; 15; 8];
   [9; 0; 5; 7; 2; 4; 10; 15; 14; 1; 11; 12; 6; 8; 3; 13];
   [2; 12; 6; 10; 0; 11; 8; 3; 4; 13; 7; 5; 15; 14; 1; 9];
   [12; 5; 1; 15; 14; 13; 4; 10; 0; 7; 6; 3; 9; 2; 8; 11];
   [13; 11; 7; 14; 12; 1; 3; 9; 5; 0; 15; 4; 8; 6; 2; 10];
   [6; 15; 14; 9; 11; 3; 0; 8; 12; 2; 13; 7; 1; 4; 10; 5];
   [10; 2; 8; 4; 7; 6; 1; 5; 15; 11; 9; 14; 3; 12; 13; 0]]%nat.

Definition sigma (r i : nat) : nat := nth i (nth (r mod 10) SIGMA []) O.

(* RFC 7693 section 3.1 *)
Definition G (v : list Z) (a b c d : nat) (x y : Z) : list Z :=
  let v := upd v a (w64 (nthz v a + nthz v b + x)) in
  let v := upd v d (rotr64 (Z.lxor (nthz v d) (nthz v a)) 32) in
  let v := upd v c (w64 (nthz v c + nthz v d)) in
  let v := upd v b (rotr64 (Z.lxor (nthz v b) (nthz v c)) 24) in
  let v := upd v a (w64 (nthz v a + nthz v b + y)) in
  let v := upd v d (rotr64 (Z.lxor (nthz v d) (nthz v a)) 16) in
  let v := upd v c (w64 (nthz v c + nthz v d)) in
  let v := upd v b (rotr64 (Z.lxor (nthz v b) (nthz v c)) 63) in
  v.

Definition round (m : list Z) (v : list Z) (r : nat) : list Z :=
  let s i := nthz m (sigma r i) in
  let v := G v 0 4 8 12 (s 0%nat) (s 1%nat) in
  let v := G v 1 5 9 13 (s 2%nat) (s 3%nat) in
  let v := G v 2 6 10 14 (s 4%nat) (s 5%nat) in
  let v := G v 3 7 11 15 (s 6%nat) (s 7%nat) in
  let v := G v 0 5 10 15 (s 8%nat) (s 9%nat) in
  let v := G v 1 6 11 12 (s 10%nat) (s 11%nat) in
  let v := G v 2 7 8 13 (s 12%nat) (s 13%nat) in
  let v := G v 3 4 9 14 (s 14%nat) (s 15%nat) in
  v.

(* RFC 7693 section 3.2: h 8 words, block 128 bytes, t 128-bit offset, f final flag *)
Definition F (h : list Z) (block : bytes) (t : Z) (f : bool) : list Z :=
  let m := le_words 8 block in
  let v := h ++ IV in
  let v := upd v 12 (Z.lxor (nthz v 12) (t mod 2 ^ 64)) in
  let v := upd v 13 (Z.lxor (nthz v 13) ((t / 2 ^ 64) mod 2 ^ 64)) in
  let v := if f then upd v 14 (Z.lxor (nthz v 14) mask64) else v in
  let v := fold_left (round m) (seq 0 12) v in
  map (fun i => Z.lxor (Z.lxor (nthz h i) (nthz v i)) (nthz v (i + 8))) (seq 0 8).

(* 64-byte parameter block, sequential mode (fanout = depth = 1) *)
Definition param_block (outlen keylen : Z) (salt personal : bytes) : bytes :=
  [outlen; keylen; 1; 1] ++ zeros 4 ++ zeros 8 ++ [0; 0] ++ zeros 14 ++ salt ++ personal.

Definition h0 (outlen keylen : Z) (salt personal : bytes) : list Z :=
  map (fun p => Z.lxor (fst p) (snd p)) (combine IV (le_words 8 (param_block outlen keylen salt personal))).

Definition pad_block (l : bytes) : bytes := l ++ zeros (128 - length l).

(* absorb [data] (key block already prepended), [t] bytes already absorbed *)
Fixpoint absorb (fuel : nat) (h : list Z) (t : Z) (data : bytes) : list Z :=
  match fuel with
  | O => h
  | S fuel' =>
    if (length data <=? 128)%nat
    then F h (pad_block data) (t + Z.of_nat (length data)) true
    else absorb fuel' (F h (firstn 128 data) (t + 128) false) (t + 128) (skipn 128 data)
  end.

Definition digest_bytes (outlen : nat) (h : list Z) : bytes :=
  firstn outlen (flat_map (le_bytes 8) h).

(* keyed / salted / personalised BLAKE2b; salt and personal are 16 bytes
   (all-zero when unused); key is 0..64 bytes, outlen is 1..64 *)
Definition blake2b (outlen : nat) (key salt personal msg : bytes) : bytes :=
  let data := (match key with [] => [] | _ => pad_block key end) ++ msg in
  let h := h0 (Z.of_nat outlen) (Z.of_nat (length key)) salt personal in
  digest_bytes outlen (absorb (S (length data)) h 0 data).

Definition blake2b_plain (outlen : nat) (key msg : bytes) : bytes :=
  blake2b outlen key (zeros 16) (zeros 16) msg.

End Blake2bSpec.
