(* X25519 as in RFC 7748 section 5 (Montgomery ladder over GF(2^255-19)).  Executable. *)
From Dryoc Require Export Lib.Word.
Open Scope Z_scope.

Module X25519Spec.

Definition p : Z := 2 ^ 255 - 19.
Definition a24 : Z := 121665.

Definition fadd (a b : Z) : Z := (a + b) mod p.
Definition fsub (a b : Z) : Z := (a - b) mod p.
Definition fmul (a b : Z) : Z := (a * b) mod p.

Fixpoint fpow_pos (a : Z) (e : positive) : Z :=
  match e with
  | xH => a
  | xO e' => let h := fpow_pos a e' in fmul h h
  | xI e' => let h := fpow_pos a e' in fmul (fmul h h) a
  end.
Definition fpow (a e : Z) : Z := match e with Zpos e' => fpow_pos a e' | _ => 1 end.
Definition finv (a : Z) : Z := fpow a (p - 2).

(* decodeScalar25519: clamp *)
Definition clamp (n : bytes) : bytes :=
  match n with
  | b0 :: rest =>
    let body := firstn 30 rest in
    let b31 := nthz rest 30 in
    Z.land b0 248 :: body ++ [Z.lor (Z.land b31 127) 64]
  | [] => []
  end.

Definition decode_scalar (n : bytes) : Z := le_val (clamp n).

(* decodeUCoordinate: mask the most significant bit, reduce mod p *)
Definition decode_u (u : bytes) : Z := (le_val u mod 2 ^ 255) mod p.

Definition cswap (swap : bool) (a b : Z) : Z * Z := if swap then (b, a) else (a, b).

(* one ladder step for scalar bit kt *)
Definition ladder_step (x1 : Z) (st : Z * Z * Z * Z * bool) (kt : bool) : Z * Z * Z * Z * bool :=
  let '(x2, z2, x3, z3, swap) := st in
  let swap := xorb swap kt in
  let '(x2, x3) := cswap swap x2 x3 in
  let '(z2, z3) := cswap swap z2 z3 in
  let A := fadd x2 z2 in
  let AA := fmul A A in
  let B := fsub x2 z2 in
  let BB := fmul B B in
  let E := fsub AA BB in
  let C := fadd x3 z3 in
  let D := fsub x3 z3 in
  let DA := fmul D A in
  let CB := fmul C B in
  let x3 := let s := fadd DA CB in fmul s s in
  let z3 := fmul x1 (let d := fsub DA CB in fmul d d) in
  let x2 := fmul AA BB in
  let z2 := fmul E (fadd AA (fmul a24 E)) in
  (x2, z2, x3, z3, kt).

(* bits 254 .. 0 of k, most significant first *)
Definition scalar_bits (k : Z) : list bool := map (fun t => Z.testbit k (Z.of_nat t)) (rev (seq 0 255)).

(* X25519(k, u) on integers: k already decoded (clamped or not), u already decoded *)
Definition ladder (k u : Z) : Z :=
  let '(x2, z2, x3, z3, swap) := fold_left (ladder_step u) (scalar_bits k) (1, 0, u, 1, false) in
  let '(x2, _) := cswap swap x2 x3 in
  let '(z2, _) := cswap swap z2 z3 in
  fmul x2 (finv z2).

Definition x25519 (n u : bytes) : bytes := le_bytes 32 (ladder (decode_scalar n) (decode_u u)).

Definition base_point : bytes := 9 :: zeros 31.
Definition x25519_base (n : bytes) : bytes := x25519 n base_point.

End X25519Spec.
