(* Poly1305 as in RFC 8439 section 2.5. Executable. *)
From Dryoc Require Export Lib.Word.
Open Scope Z_scope.

Module Poly1305Spec.

Definition p : Z := 2 ^ 130 - 5.
Definition clamp_mask : Z := 0x0ffffffc0ffffffc0ffffffc0fffffff.

Definition key_r (key : bytes) : Z := Z.land (le_val (firstn 16 key)) clamp_mask.
Definition key_s (key : bytes) : Z := le_val (firstn 16 (skipn 16 key)).

(* one block: a = ((a + n) * r) mod p, with n = LE(chunk) + 2^(8 * |chunk|) *)
Definition block_num (chunk : bytes) : Z := le_val chunk + 2 ^ (8 * Z.of_nat (length chunk)).

Definition acc_step (r : Z) (acc : Z) (chunk : bytes) : Z := ((acc + block_num chunk) * r) mod p.

Definition poly1305 (key msg : bytes) : bytes :=
  let acc := fold_left (acc_step (key_r key)) (chunks 16 msg) 0 in
  le_bytes 16 ((acc + key_s key) mod 2 ^ 128).

End Poly1305Spec.
