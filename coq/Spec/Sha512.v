(* SHA-512 as in FIPS 180-4.  Executable reference (the implementation in
   dryoc is the external `sha2` crate; agreement is checked by correspondence). *)
From Dryoc Require Export Lib.Word.
Open Scope Z_scope.

Module Sha512Spec.

Definition K : list Z := [0x428a2f98d728ae22; 0x7137449123ef65cd; 0xb5c0fbcfec4d3b2f; 0xe9b5dba58189dbbc; 0x3956c25bf348b538; 0x59f111f1b605d019; 0x923f82a4af194f9b; 0xab1c5ed5da6d8118; 0xd807aa98a3030242; 0x12835b0145706fbe; 0x243185be4ee4b28c; 0x550c7dc3d5ffb4e2; 0x72be5d74f27b896f; 0x80deb1fe3b1696b1; 0x9bdc06a725c71235; 0xc19bf174cf692694; 0xe49b69c19ef14ad2; 0xefbe4786384f25e3; 0x0fc19dc68b8cd5b5; 0x240ca1cc77ac9c65; 0x2de92c6f592b0275; 0x4a7484aa6ea6e483; 0x5cb0a9dcbd41fbd4; 0x76f988da831153b5; 0x983e5152ee66dfab; 0xa831c66d2db43210; 0xb00327c898fb213f; 0xbf597fc7beef0ee4; 0xc6e00bf33da88fc2; 0xd5a79147930aa725; 0x06ca6351e003826f; 0x142929670a0e6e70; 0x27b70a8546d22ffc; 0x2e1b21385c26c926; 0x4d2c6dfc5ac42aed; 0x53380d139d95b3df; 0x650a73548baf63de; 0x766a0abb3c77b2a8; 0x81c2c92e47edaee6; 0x92722c851482353b; 0xa2bfe8a14cf10364; 0xa81a664bbc423001; 0xc24b8b70d0f89791; 0xc76c51a30654be30; 0xd192e819d6ef5218; 0xd69906245565a910; 0xf40e35855771202a; 0x106aa07032bbd1b8; 0x19a4c116b8d2d0c8; 0x1e376c085141ab53; 0x2748774cdf8eeb99; 0x34b0bcb5e19b48a8; 0x391c0cb3c5c95a63; 0x4ed8aa4ae3418acb; 0x5b9cca4f7763e373; 0x682e6ff3d6b2b8a3; 0x748f82ee5defb2fc; 0x78a5636f43172f60; 0x84c87814a1f0ab72; 0x8cc702081a6439ec; 0x90befffa23631e28; 0xa4506cebde82bde9; 0xbef9a3f7b2c67915; 0xc67178f2e372532b; 0xca273eceea26619c; 0xd186b8c721c0c207; 0xeada7dd6cde0eb1e; 0xf57d4f7fee6ed178; 0x06f067aa72176fba; 0x0a637dc5a2c898a6; 0x113f9804bef90dae; 0x1b710b35131c471b; 0x28db77f523047d84; 0x32caab7b40c72493; 0x3c9ebe0a15c9bebc; 0x431d67c49c100d4c; 0x4cc5d4becb3e42b6; 0x597f299cfc657e2a; 0x5fcb6fab3ad6faec; 0x6c44198c4a475817].

Definition H0 : list Z :=
  [0x6a09e667f3bcc908; 0xbb67ae8584caa73b; 0x3c6ef372fe94f82b; 0xa54ff53a5f1d36f1;
   0x510e527fade682d1; 0x9b05688c2b3e6c1f; 0x1f83d9abfb41bd6b; 0x5be0cd19137e2179].

Definition shr (x n : Z) : Z := Z.shiftr x n.
Definition Ch (x y z : Z) : Z := Z.lxor (Z.land x y) (Z.land (Z.lxor x mask64) z).
Definition Maj (x y z : Z) : Z := Z.lxor (Z.lxor (Z.land x y) (Z.land x z)) (Z.land y z).
Definition Sig0 (x : Z) : Z := Z.lxor (Z.lxor (rotr64 x 28) (rotr64 x 34)) (rotr64 x 39).
Definition Sig1 (x : Z) : Z := Z.lxor (Z.lxor (rotr64 x 14) (rotr64 x 18)) (rotr64 x 41).
Definition sig0 (x : Z) : Z := Z.lxor (Z.lxor (rotr64 x 1) (rotr64 x 8)) (shr x 7).
Definition sig1 (x : Z) : Z := Z.lxor (Z.lxor (rotr64 x 19) (rotr64 x 61)) (shr x 6).

(* big-endian value / encoding *)
Definition be_val (l : bytes) : Z := le_val (rev l).
Definition be_bytes (n : nat) (x : Z) : bytes := rev (le_bytes n x).

(* message schedule: w holds W[t-1] .. W[t-16] (most recent first) *)
Fixpoint schedule (n : nat) (w : list Z) (acc : list Z) : list Z :=
  match n with
  | O => rev acc
  | S k =>
    let wt := w64 (sig1 (nthz w 1) + nthz w 6 + sig0 (nthz w 14) + nthz w 15) in
    schedule k (wt :: firstn 15 w) (wt :: acc)
  end.

Definition round (st : list Z) (kw : Z * Z) : list Z :=
  match st with
  | [a; b; c; d; e; f; g; h] =>
    let t1 := w64 (h + Sig1 e + Ch e f g + fst kw + snd kw) in
    let t2 := w64 (Sig0 a + Maj a b c) in
    [w64 (t1 + t2); a; b; c; w64 (d + t1); e; f; g]
  | _ => st
  end.

Definition compress (h : list Z) (block : bytes) : list Z :=
  let w16 := map be_val (chunks 8 block) in
  let w := w16 ++ schedule 64 (rev w16) [] in
  let st := fold_left round (combine K w) h in
  map (fun p => w64 (fst p + snd p)) (combine h st).

Definition pad (msg : bytes) : bytes :=
  let l := length msg in
  let k := ((128 - (l + 17) mod 128) mod 128)%nat in
  msg ++ [0x80] ++ zeros k ++ be_bytes 16 (8 * Z.of_nat l).

Definition sha512 (msg : bytes) : bytes :=
  let h := fold_left compress (chunks 128 (pad msg)) H0 in
  flat_map (be_bytes 8) h.

(* HMAC (RFC 2104) with SHA-512, truncated to 32 bytes: HMAC-SHA-512-256 *)
Definition hmac_sha512 (key msg : bytes) : bytes :=
  let key := if (128 <? length key)%nat then sha512 key else key in
  let kp := key ++ zeros (128 - length key) in
  let ipad := map (fun b => Z.lxor b 0x36) kp in
  let opad := map (fun b => Z.lxor b 0x5c) kp in
  sha512 (opad ++ sha512 (ipad ++ msg)).

Definition hmac_sha512_256 (key msg : bytes) : bytes := firstn 32 (hmac_sha512 key msg).

End Sha512Spec.
