(* Ed25519 as in RFC 8032 (section 5.1), over integers mod 2^255-19.  Executable. *)
From Dryoc Require Export Lib.Word Spec.X25519 Spec.Sha512.
Open Scope Z_scope.

Module Ed25519Spec.
Import X25519Spec.

Definition L : Z := 2 ^ 252 + 27742317777372353535851937790883648493.
Definition d : Z := fmul ((-121665) mod p) (finv 121666).
Definition sqrtm1 : Z := fpow 2 ((p - 1) / 4).

(* extended homogeneous coordinates (X, Y, Z, T) *)
Definition point := (Z * Z * Z * Z)%type.
Definition O : point := (0, 1, 1, 0).

Definition padd (P Q : point) : point :=
  let '(x1, y1, z1, t1) := P in let '(x2, y2, z2, t2) := Q in
  let A := fmul (fsub y1 x1) (fsub y2 x2) in
  let B := fmul (fadd y1 x1) (fadd y2 x2) in
  let C := fmul (fmul t1 (fmul 2 d)) t2 in
  let D := fmul (fmul z1 2) z2 in
  let E := fsub B A in let F := fsub D C in let G := fadd D C in let H := fadd B A in
  (fmul E F, fmul G H, fmul F G, fmul E H).

Fixpoint pmul_pos (k : positive) (P : point) : point :=
  match k with
  | xH => P
  | xO k' => let Q := pmul_pos k' P in padd Q Q
  | xI k' => let Q := pmul_pos k' P in padd (padd Q Q) P
  end.
Definition pmul (k : Z) (P : point) : point := match k with Zpos k' => pmul_pos k' P | _ => O end.

Definition affine (P : point) : Z * Z :=
  let '(x, y, z, _) := P in let zi := finv z in (fmul x zi, fmul y zi).

Definition peq (P Q : point) : bool :=
  let '(x1, y1, z1, _) := P in let '(x2, y2, z2, _) := Q in
  (fmul x1 z2 =? fmul x2 z1) && (fmul y1 z2 =? fmul y2 z1).

Definition encode (P : point) : bytes :=
  let '(x, y) := affine P in le_bytes 32 (y + 2 ^ 255 * (x mod 2)).

(* x-coordinate recovery (RFC 8032 5.1.3): None if y^2-1 / (d y^2+1) is not a square *)
Definition sqrt_ratio (u v : Z) : option Z :=
  let x := fmul (fmul u (fpow v 3)) (fpow (fmul u (fpow v 7)) ((p - 5) / 8)) in
  let vxx := fmul v (fmul x x) in
  if vxx =? u then Some x else if vxx =? fsub 0 u then Some (fmul x sqrtm1) else None.

Definition choose_sign (x sign : Z) : option Z :=
  if (x =? 0) && (sign =? 1) then None
  else Some (if x mod 2 =? sign then x else fsub 0 x).

(* option bind, written on a variable so that elaboration never tries to
   evaluate the (astronomically large when unfolded) field exponentiations *)
Definition obnd {A B} (o : option A) (f : A -> option B) : option B :=
  match o with Some a => f a | None => None end.

Definition recover_x (y : Z) (sign : Z) : option Z :=
  obnd (sqrt_ratio (fsub (fmul y y) 1) (fadd (fmul d (fmul y y)) 1)) (fun x => choose_sign x sign).

(* strict decoding: y must be canonical (< p) *)
Definition decode (s : bytes) : option point :=
  let v := le_val s in
  let y := v mod 2 ^ 255 in
  let sign := v / 2 ^ 255 in
  if p <=? y then None
  else obnd (recover_x y sign) (fun x => Some (x, y, 1, fmul x y)).

(* the base point: y = 4/5, x positive (RFC 8032 5.1) *)
Definition Bx : Z := 15112221349535400772501151409588531511454012693041857206046113283949847762202.
Definition By : Z := 46316835694926478169428394003475163141307993866256225615783033603165251855960.
Definition B : point := (Bx, By, 1, fmul Bx By).

Definition small_order (P : point) : bool := peq (pmul 8 P) O.

Definition clamp_hash (h : bytes) : Z :=
  let a := le_val (firstn 32 h) in
  2 ^ 254 + 8 * ((a mod 2 ^ 254) / 8).

(* key pair from a 32-byte seed: (public key, secret scalar a, prefix) *)
Definition expand (seed : bytes) : bytes * Z * bytes :=
  let h := Sha512Spec.sha512 seed in
  let a := clamp_hash h in
  (encode (pmul a B), a, skipn 32 h).

Definition dom2 (ph : bool) : bytes :=
  if ph then [83;105;103;69;100;50;53;53;49;57;32;110;111;32;69;100;50;53;53;49;57;32;99;111;108;108;105;115;105;111;110;115;1;0] else [].
  (* "SigEd25519 no Ed25519 collisions" || 1 || 0 (empty context) *)

(* pure (ph = false, m the message) or pre-hashed (ph = true, m = SHA-512(message)) *)
Definition sign (ph : bool) (seed m : bytes) : bytes :=
  let '(pk, a, prefix) := expand seed in
  let r := le_val (Sha512Spec.sha512 (dom2 ph ++ prefix ++ m)) mod L in
  let R := encode (pmul r B) in
  let k := le_val (Sha512Spec.sha512 (dom2 ph ++ R ++ pk ++ m)) mod L in
  R ++ le_bytes 32 ((r + k * a) mod L).

(* strict verification as libsodium >= 1.0.16: S < L, canonical A, A and R not
   of small order, then [S]B = R + [k]A compared through the encoding of R *)
Definition verify (ph : bool) (pk m sig : bytes) : bool :=
  let Rb := firstn 32 sig in
  let S := le_val (skipn 32 sig) in
  if L <=? S then false
  else
    let check (A R : point) : option bool :=
      if small_order A || small_order R then Some false
      else
        let k := le_val (Sha512Spec.sha512 (dom2 ph ++ Rb ++ pk ++ m)) mod L in
        (* [S]B - [k]A, encoded, must equal the given R bytes *)
        let '(ax, ay, az, at_) := A in
        let negA := (fsub 0 ax, ay, az, fsub 0 at_) in
        Some (bytes_eqb (encode (padd (pmul S B) (pmul k negA))) Rb) in
    match obnd (decode pk) (fun A => obnd (decode Rb) (fun R => check A R)) with
    | Some b => b
    | None => false
    end.

(* birational map to Curve25519: u = (1 + y) / (1 - y) *)
Definition pk_to_curve25519 (pk : bytes) : option bytes :=
  obnd (decode pk) (fun P => let '(_, ya) := affine P in
                             Some (le_bytes 32 (fmul (fadd 1 ya) (finv (fsub 1 ya))))).
Definition sk_to_curve25519 (seed : bytes) : bytes :=
  let h := firstn 32 (Sha512Spec.sha512 seed) in X25519Spec.clamp h.

End Ed25519Spec.
