(* Salsa20 (Bernstein, "Salsa20 specification"), HSalsa20 and XSalsa20
   ("Extending the Salsa20 nonce").  Executable. *)
From Dryoc Require Export Lib.Word.
Open Scope Z_scope.

Module Salsa20Spec.

Definition qr (y0 y1 y2 y3 : Z) : Z * Z * Z * Z :=
  let z1 := Z.lxor y1 (rotl32 (add32 y0 y3) 7) in
  let z2 := Z.lxor y2 (rotl32 (add32 z1 y0) 9) in
  let z3 := Z.lxor y3 (rotl32 (add32 z2 z1) 13) in
  let z0 := Z.lxor y0 (rotl32 (add32 z3 z2) 18) in
  (z0, z1, z2, z3).

(* apply qr at positions (a b c d) of a 16-word state *)
Definition qr_at (x : list Z) (a b c d : nat) : list Z :=
  let '(z0, z1, z2, z3) := qr (nthz x a) (nthz x b) (nthz x c) (nthz x d) in
  upd (upd (upd (upd x a z0) b z1) c z2) d z3.

Definition columnround (x : list Z) : list Z :=
  let x := qr_at x 0 4 8 12 in
  let x := qr_at x 5 9 13 1 in
  let x := qr_at x 10 14 2 6 in
  qr_at x 15 3 7 11.

Definition rowround (x : list Z) : list Z :=
  let x := qr_at x 0 1 2 3 in
  let x := qr_at x 5 6 7 4 in
  let x := qr_at x 10 11 8 9 in
  qr_at x 15 12 13 14.

Definition doubleround (x : list Z) : list Z := rowround (columnround x).

Fixpoint iter {A} (n : nat) (f : A -> A) (x : A) : A :=
  match n with O => x | S k => iter k f (f x) end.

Definition sigma : list Z := [0x61707865; 0x3320646e; 0x79622d32; 0x6b206574].

(* key k (32 bytes) and 16 input bytes n laid out as the 4x4 matrix *)
Definition init_state (k n : bytes) : list Z :=
  let kw := le_words 4 k in
  let nw := le_words 4 n in
  [nthz sigma 0; nthz kw 0; nthz kw 1; nthz kw 2;
   nthz kw 3; nthz sigma 1; nthz nw 0; nthz nw 1;
   nthz nw 2; nthz nw 3; nthz sigma 2; nthz kw 4;
   nthz kw 5; nthz kw 6; nthz kw 7; nthz sigma 3].

Definition words_bytes (ws : list Z) : bytes := flat_map (le_bytes 4) ws.

(* Salsa20 expansion: 64-byte block for key, 8-byte nonce, 64-bit block counter *)
Definition block (k nonce8 : bytes) (ctr : Z) : bytes :=
  let x := init_state k (nonce8 ++ le_bytes 8 ctr) in
  let z := iter 10 doubleround x in
  words_bytes (map (fun p => add32 (fst p) (snd p)) (combine x z)).

(* HSalsa20: 20 rounds without the final addition; words 0,5,10,15,6,7,8,9 *)
Definition hsalsa20 (k n16 : bytes) : bytes :=
  let z := iter 10 doubleround (init_state k n16) in
  words_bytes (map (nthz z) [0; 5; 10; 15; 6; 7; 8; 9]%nat).

Fixpoint stream_blocks (nblocks : nat) (k nonce8 : bytes) (ctr : Z) : bytes :=
  match nblocks with
  | O => []
  | S j => block k nonce8 ctr ++ stream_blocks j k nonce8 (ctr + 1)
  end.

(* first [len] bytes of the Salsa20 key stream starting at block [ctr] *)
Definition salsa20_stream (k nonce8 : bytes) (ctr : Z) (len : nat) : bytes :=
  firstn len (stream_blocks ((len + 63) / 64) k nonce8 ctr).

(* XSalsa20: subkey = HSalsa20(k, nonce[0..16]); stream nonce = nonce[16..24] *)
Definition xsalsa20_stream (k nonce24 : bytes) (len : nat) : bytes :=
  salsa20_stream (hsalsa20 k (firstn 16 nonce24)) (skipn 16 nonce24) 0 len.

End Salsa20Spec.
