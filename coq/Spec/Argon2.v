(* RFC 9106: the variable-length hash H' (section 3.3), the input of H0 (3.2 step 1) and the
   size of the reference set / the index mapping (3.4.2), over unbounded integers. *)
From Dryoc Require Export Lib.Word Spec.Blake2b.
Open Scope Z_scope.

Module Argon2Spec.

Definition H (n : nat) (x : bytes) : bytes := Blake2bSpec.blake2b_plain n [] x.

(* W_i || ... || W_r || V_{r+1}, given V_i and the number k = r - i of hashes still to chain *)
Fixpoint Hout (k : nat) (v : bytes) (last : nat) : bytes :=
  firstn 32 v ++ match k with O => H last v | S k' => Hout k' (H 64 v) last end.

Definition Hprime (T : nat) (A : bytes) : bytes :=
  if (T <=? 64)%nat then H T (le_bytes 4 (Z.of_nat T) ++ A)
  else
    let r := ((T + 31) / 32 - 2)%nat in
    Hout (r - 1) (H 64 (le_bytes 4 (Z.of_nat T) ++ A)) (T - 32 * r).

(* 3.2 step 1: H0 = H^64(LE32(p) || LE32(T) || LE32(m) || LE32(t) || LE32(v) || LE32(y) ||
                         LE32(|P|) || P || LE32(|S|) || S || LE32(|K|) || K || LE32(|X|) || X) *)
Definition H0_input (p T m t v y : Z) (P S K X : bytes) : bytes :=
  le_bytes 4 p ++ le_bytes 4 T ++ le_bytes 4 m ++ le_bytes 4 t ++ le_bytes 4 v ++ le_bytes 4 y ++
  le_bytes 4 (Z.of_nat (length P)) ++ P ++ le_bytes 4 (Z.of_nat (length S)) ++ S ++
  le_bytes 4 (Z.of_nat (length K)) ++ K ++ le_bytes 4 (Z.of_nat (length X)) ++ X.
Definition H0 (p T m t v y : Z) (P S K X : bytes) : bytes := H 64 (H0_input p T m t v y P S K X).

(* 3.4.2: |W|, the number of blocks that may be referenced from position (pass, slice, index)
   in a lane of 4 segments of [seg] blocks *)
Definition area (seg pass slice index : Z) (same_lane : bool) : Z :=
  (if pass =? 0 then slice * seg else 3 * seg) +
  (if same_lane then index - 1 else if index =? 0 then -1 else 0).

(* the mapping of J1 into the area, and the absolute position within the lane *)
Definition ref_pos (seg pass slice index J1 : Z) (same_lane : bool) : Z :=
  let W := area seg pass slice index same_lane in
  let x := J1 * J1 / 2 ^ 32 in
  let y := W * x / 2 ^ 32 in
  let zz := W - 1 - y in
  let start := if (pass =? 0) || (slice =? 3) then 0 else (slice + 1) * seg in
  (start + zz) mod (4 * seg).

(* ---- 3.5 / 3.6: the compression function G and the permutation P ---- *)

(* a + b + 2 * trunc(a) * trunc(b) mod 2^64, trunc = the 32 least significant bits *)
Definition mulmix (a b : Z) : Z := (a + b + 2 * (a mod 2 ^ 32) * (b mod 2 ^ 32)) mod 2 ^ 64.

Definition GB (a b c d : Z) : Z * Z * Z * Z :=
  let a := mulmix a b in let d := rotr64 (Z.lxor d a) 32 in
  let c := mulmix c d in let b := rotr64 (Z.lxor b c) 24 in
  let a := mulmix a b in let d := rotr64 (Z.lxor d a) 16 in
  let c := mulmix c d in let b := rotr64 (Z.lxor b c) 63 in
  (a, b, c, d).

(* P on eight 16-byte registers S_0 .. S_7, S_i = v_{2i+1} || v_{2i}: as sixteen 64-bit words v_0 .. v_15
   in memory (little-endian) order, arranged as the 4 x 4 matrix  v0 v1 v2 v3 / v4 .. v7 / v8 .. v11 / v12 .. v15 *)
Definition P (v : list Z) : list Z :=
  match v with
  | [v0; v1; v2; v3; v4; v5; v6; v7; v8; v9; v10; v11; v12; v13; v14; v15] =>
    let '(v0, v4, v8, v12) := GB v0 v4 v8 v12 in
    let '(v1, v5, v9, v13) := GB v1 v5 v9 v13 in
    let '(v2, v6, v10, v14) := GB v2 v6 v10 v14 in
    let '(v3, v7, v11, v15) := GB v3 v7 v11 v15 in
    let '(v0, v5, v10, v15) := GB v0 v5 v10 v15 in
    let '(v1, v6, v11, v12) := GB v1 v6 v11 v12 in
    let '(v2, v7, v8, v13) := GB v2 v7 v8 v13 in
    let '(v3, v4, v9, v14) := GB v3 v4 v9 v14 in
    [v0; v1; v2; v3; v4; v5; v6; v7; v8; v9; v10; v11; v12; v13; v14; v15]
  | _ => v
  end.

Definition xorb (X Y : list Z) : list Z := map (fun p : Z * Z => Z.lxor (fst p) (snd p)) (combine X Y).

(* a 1024-byte block as 128 words = the 8 x 8 matrix of 16-byte registers R_0 .. R_63; row k holds
   registers 8k .. 8k+7 = words 16k .. 16k+15 *)
Fixpoint rows (n : nat) (R : list Z) : list (list Z) :=
  match n with O => [] | S n' => firstn 16 R :: rows n' (skipn 16 R) end.
(* column i of a matrix given by its rows: register i of every row *)
Definition column (i : nat) (M : list (list Z)) : list Z :=
  flat_map (fun row => [nth (2 * i) row 0; nth (2 * i + 1) row 0]) M.
Definition transpose (M : list (list Z)) : list (list Z) := map (fun i => column i M) (seq 0 8).

(* G(X, Y): R = X xor Y; P on every row of R gives Q; P on every column of Q gives Z; the result is Z xor R *)
Definition G (X Y : list Z) : list Z :=
  let R := xorb X Y in
  let Q := map P (rows 8 R) in
  let Zc := map P (transpose Q) in          (* Zc[i] = (Z_i, Z_{i+8}, ..., Z_{i+56}) *)
  xorb (concat (transpose Zc)) R.

(* ---- 3.2 - 3.4 for one lane (p = 1, every call site of the crate): the memory is B[0] .. B[q-1] ---- *)

Definition ZERO : list Z := repeat 0 128.
Definition words (bs : bytes) : list Z := le_words 8 bs.            (* 1024 bytes -> 128 words *)
Definition unwords (b : list Z) : bytes := flat_map (le_bytes 8) b.

Fixpoint setb (B : list (list Z)) (j : nat) (b : list Z) : list (list Z) :=
  match B, j with
  | [], _ => []
  | _ :: r, O => b :: r
  | x :: r, S j' => x :: setb r j' b
  end.
Definition getb (B : list (list Z)) (j : Z) : list Z := nth (Z.to_nat j) B ZERO.

Fixpoint zseq (a : Z) (n : nat) : list Z := match n with O => [] | S n' => a :: zseq (a + 1) n' end.

(* 3.4.1.2: the block of 128 (J1 || J2) values with counter c for pass r, lane l, slice sl:
   G(ZERO, G(ZERO, LE64(r) || LE64(l) || LE64(sl) || LE64(m') || LE64(t) || LE64(y) || LE64(c) || ZERO(968))) *)
Definition address_block (r l sl m' t y c : Z) : list Z :=
  G ZERO (G ZERO ([r; l; sl; m'; t; y; c] ++ repeat 0 121)).

(* Argon2i (y = 1): always data-independent; Argon2id (y = 2): in the first two slices of the first pass *)
Definition data_independent (y r sl : Z) : bool := (y =? 1) || ((y =? 2) && (r =? 0) && (sl <? 2)).

(* the 64-bit value J1 || J2 (J1 = its 32 least significant bits) for position i of slice sl in pass r *)
Definition J12 (y r sl i m' t : Z) (prev : list Z) : Z :=
  if data_independent y r sl then nth (Z.to_nat (i mod 128)) (address_block r 0 sl m' t y (i / 128 + 1)) 0
  else nth 0 prev 0.

(* 3.4 for column j of the single lane in pass r:  B[j] = G(B[(j - 1) mod q], B[z])  (xor the old B[j] when r > 0),
   l = J2 mod 1 = 0 being always the same lane *)
Definition step (y t q r : Z) (B : list (list Z)) (j : Z) : list (list Z) :=
  let seg := q / 4 in
  let sl := j / seg in
  let i := j mod seg in
  let prev := getb B ((j - 1) mod q) in
  let J1 := J12 y r sl i q t prev mod 2 ^ 32 in
  let z := ref_pos seg r sl i J1 true in
  let new := G prev (getb B z) in
  setb B (Z.to_nat j) (if r =? 0 then new else xorb new (getb B j)).

Definition pass (y t q : Z) (B : list (list Z)) (r : Z) : list (list Z) :=
  let start := if r =? 0 then 2 else 0 in
  fold_left (step y t q r) (zseq start (Z.to_nat (q - start))) B.

(* Argon2 (version 0x13) with one lane: type y, t passes, m KiB, tag length T, password P, salt S, key K, data X *)
Definition argon2 (y t m : Z) (T : nat) (P S K X : bytes) : bytes :=
  let q := 4 * (m / 4) in
  let h0 := H0 1 (Z.of_nat T) m t 0x13 y P S K X in
  let B0 := words (Hprime 1024 (h0 ++ le_bytes 4 0 ++ le_bytes 4 0)) in
  let B1 := words (Hprime 1024 (h0 ++ le_bytes 4 1 ++ le_bytes 4 0)) in
  let B := B0 :: B1 :: repeat ZERO (Z.to_nat q - 2) in
  let B := fold_left (pass y t q) (zseq 0 (Z.to_nat t)) B in
  Hprime T (unwords (getb B (q - 1))).

End Argon2Spec.
