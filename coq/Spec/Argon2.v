(* RFC 9106: the variable-length hash H' (section 3.3), the input of H0 (3.2 step 1) and the
   size of the reference set / the index mapping (3.4.2), over unbounded integers. *)
From Dryoc Require Export Lib.Word Spec.Blake2b.
Open Scope Z_scope.

Module Argon2Spec.

Definition H (n : nat) (x : bytes) : bytes := Blake2bSpec.blake2b_plain n [] x.

(* W_i || ... || W_r || V_{r+1}, given V_i and the number k = r - i of hashes still to chain *)
Fixpoint Hout (k : nat) (v : bytes) (last : nat) : bytes :=
  firstn 32 v ++ match k with O => H last v | S k' => Hout k' (H 64 v) last end.

Definition Hprime (T : nat) (A : bytes) : bytes :=
  if (T <=? 64)%nat then H T (le_bytes 4 (Z.of_nat T) ++ A)
  else
    let r := ((T + 31) / 32 - 2)%nat in
    Hout (r - 1) (H 64 (le_bytes 4 (Z.of_nat T) ++ A)) (T - 32 * r).

(* 3.2 step 1: H0 = H^64(LE32(p) || LE32(T) || LE32(m) || LE32(t) || LE32(v) || LE32(y) ||
                         LE32(|P|) || P || LE32(|S|) || S || LE32(|K|) || K || LE32(|X|) || X) *)
Definition H0_input (p T m t v y : Z) (P S K X : bytes) : bytes :=
  le_bytes 4 p ++ le_bytes 4 T ++ le_bytes 4 m ++ le_bytes 4 t ++ le_bytes 4 v ++ le_bytes 4 y ++
  le_bytes 4 (Z.of_nat (length P)) ++ P ++ le_bytes 4 (Z.of_nat (length S)) ++ S ++
  le_bytes 4 (Z.of_nat (length K)) ++ K ++ le_bytes 4 (Z.of_nat (length X)) ++ X.
Definition H0 (p T m t v y : Z) (P S K X : bytes) : bytes := H 64 (H0_input p T m t v y P S K X).

(* 3.4.2: |W|, the number of blocks that may be referenced from position (pass, slice, index)
   in a lane of 4 segments of [seg] blocks *)
Definition area (seg pass slice index : Z) (same_lane : bool) : Z :=
  (if pass =? 0 then slice * seg else 3 * seg) +
  (if same_lane then index - 1 else if index =? 0 then -1 else 0).

(* the mapping of J1 into the area, and the absolute position within the lane *)
Definition ref_pos (seg pass slice index J1 : Z) (same_lane : bool) : Z :=
  let W := area seg pass slice index same_lane in
  let x := J1 * J1 / 2 ^ 32 in
  let y := W * x / 2 ^ 32 in
  let zz := W - 1 - y in
  let start := if (pass =? 0) || (slice =? 3) then 0 else (slice + 1) * seg in
  (start + zz) mod (4 * seg).

End Argon2Spec.
