(* ChaCha20 (RFC 8439) with 32-bit counter / 96-bit nonce, and HChaCha20
   (draft-irtf-cfrg-xchacha).  Executable. *)
From Dryoc Require Export Lib.Word Spec.Salsa20.
Open Scope Z_scope.

Module ChaCha20Spec.
Import Salsa20Spec.

Definition qr (a b c d : Z) : Z * Z * Z * Z :=
  let a := add32 a b in let d := rotl32 (Z.lxor d a) 16 in
  let c := add32 c d in let b := rotl32 (Z.lxor b c) 12 in
  let a := add32 a b in let d := rotl32 (Z.lxor d a) 8 in
  let c := add32 c d in let b := rotl32 (Z.lxor b c) 7 in
  (a, b, c, d).

Definition qr_at (x : list Z) (a b c d : nat) : list Z :=
  let '(za, zb, zc, zd) := qr (nthz x a) (nthz x b) (nthz x c) (nthz x d) in
  upd (upd (upd (upd x a za) b zb) c zc) d zd.

Definition doubleround (x : list Z) : list Z :=
  let x := qr_at x 0 4 8 12 in
  let x := qr_at x 1 5 9 13 in
  let x := qr_at x 2 6 10 14 in
  let x := qr_at x 3 7 11 15 in
  let x := qr_at x 0 5 10 15 in
  let x := qr_at x 1 6 11 12 in
  let x := qr_at x 2 7 8 13 in
  qr_at x 3 4 9 14.

Definition init_state (k : bytes) (ctr : Z) (nonce12 : bytes) : list Z :=
  sigma ++ le_words 4 k ++ [w32 ctr] ++ le_words 4 nonce12.

Definition block (k : bytes) (ctr : Z) (nonce12 : bytes) : bytes :=
  let x := init_state k ctr nonce12 in
  let z := iter 10 doubleround x in
  words_bytes (map (fun p => add32 (fst p) (snd p)) (combine x z)).

Definition hchacha20 (k n16 : bytes) : bytes :=
  let x := sigma ++ le_words 4 k ++ le_words 4 n16 in
  let z := iter 10 doubleround x in
  words_bytes (map (nthz z) [0; 1; 2; 3; 12; 13; 14; 15]%nat).

Fixpoint stream_blocks (nblocks : nat) (k : bytes) (ctr : Z) (nonce12 : bytes) : bytes :=
  match nblocks with
  | O => []
  | S j => block k ctr nonce12 ++ stream_blocks j k (ctr + 1) nonce12
  end.

(* [len] key-stream bytes starting at block counter [ctr] *)
Definition chacha20_stream (k nonce12 : bytes) (ctr : Z) (len : nat) : bytes :=
  firstn len (stream_blocks ((len + 63) / 64) k ctr nonce12).

End ChaCha20Spec.
