(* SipHash-2-4 (Aumasson, Bernstein), 64-bit output.  Executable. *)
From Dryoc Require Export Lib.Word.
Open Scope Z_scope.

Module SipHashSpec.

Definition sipround (v : Z * Z * Z * Z) : Z * Z * Z * Z :=
  let '(v0, v1, v2, v3) := v in
  let v0 := add64 v0 v1 in let v1 := rotl64 v1 13 in let v1 := Z.lxor v1 v0 in let v0 := rotl64 v0 32 in
  let v2 := add64 v2 v3 in let v3 := rotl64 v3 16 in let v3 := Z.lxor v3 v2 in
  let v0 := add64 v0 v3 in let v3 := rotl64 v3 21 in let v3 := Z.lxor v3 v0 in
  let v2 := add64 v2 v1 in let v1 := rotl64 v1 17 in let v1 := Z.lxor v1 v2 in let v2 := rotl64 v2 32 in
  (v0, v1, v2, v3).

Definition absorb (v : Z * Z * Z * Z) (m : Z) : Z * Z * Z * Z :=
  let '(v0, v1, v2, v3) := v in
  let '(v0, v1, v2, v3) := sipround (sipround (v0, v1, v2, Z.lxor v3 m)) in
  (Z.lxor v0 m, v1, v2, v3).

Definition siphash24 (key msg : bytes) : bytes :=
  let k0 := le_val (firstn 8 key) in
  let k1 := le_val (firstn 8 (skipn 8 key)) in
  let v := (Z.lxor 0x736f6d6570736575 k0, Z.lxor 0x646f72616e646f6d k1,
            Z.lxor 0x6c7967656e657261 k0, Z.lxor 0x7465646279746573 k1) in
  let n := length msg in
  let full := firstn (n - n mod 8) msg in
  let tail := skipn (n - n mod 8) msg in
  let v := fold_left absorb (le_words 8 full) v in
  let b := Z.lor (w64 (Z.shiftl (Z.of_nat n) 56)) (le_val tail) in
  let '(v0, v1, v2, v3) := absorb v b in
  let '(v0, v1, v2, v3) := sipround (sipround (sipround (sipround (v0, v1, Z.lxor v2 0xff, v3)))) in
  le_bytes 8 (Z.lxor (Z.lxor v0 v1) (Z.lxor v2 v3)).

End SipHashSpec.
