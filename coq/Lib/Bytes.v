(* Byte strings as lists of Z, little-endian load/store, xor, blocks.
   Stdlib only.  Proofs about these helpers live here because every model
   uses them; the models themselves contain no proofs. *)
From Coq Require Export List ZArith Lia Bool.
Export ListNotations.
Open Scope Z_scope.

Arguments Z.add : simpl never.
Arguments Z.sub : simpl never.
Arguments Z.mul : simpl never.
Arguments Z.div : simpl never.
Arguments Z.modulo : simpl never.
Arguments Z.land : simpl never.
Arguments Z.lor : simpl never.
Arguments Z.lxor : simpl never.
Arguments Z.shiftl : simpl never.
Arguments Z.shiftr : simpl never.
Arguments Z.pow : simpl never.

Definition bytes := list Z.

Definition is_byte (b : Z) : Prop := 0 <= b < 256.
Definition wf_bytes (l : bytes) : Prop := Forall is_byte l.

Definition byteb (b : Z) : bool := (0 <=? b) && (b <? 256).
Definition wf_bytesb (l : bytes) : bool := forallb byteb l.

Definition zeros (n : nat) : bytes := repeat 0 n.

(* little-endian value of a byte string *)
Fixpoint le_val (l : bytes) : Z :=
  match l with
  | [] => 0
  | b :: r => b + 256 * le_val r
  end.

(* n-byte little-endian encoding of x (wraps mod 256^n) *)
Fixpoint le_bytes (n : nat) (x : Z) : bytes :=
  match n with
  | O => []
  | S k => (x mod 256) :: le_bytes k (x / 256)
  end.

Definition xor_bytes (a b : bytes) : bytes :=
  map (fun p => Z.lxor (fst p) (snd p)) (combine a b).

(* out[i] ^= in[i] for i < min: keeps the tail of [a] (Rust xor_buf) *)
Fixpoint xor_into (a b : bytes) : bytes :=
  match a, b with
  | x :: a', y :: b' => Z.lxor x y :: xor_into a' b'
  | _, _ => a
  end.

(* split into chunks of n bytes (the last one may be short) *)
Fixpoint chunks_n (cnt n : nat) (l : bytes) : list bytes :=
  match cnt with
  | O => []
  | S c => firstn n l :: chunks_n c n (skipn n l)
  end.
Definition chunks (n : nat) (l : bytes) : list bytes := chunks_n ((length l + n - 1) / n) n l.

Definition slice (l : bytes) (a b : nat) : bytes := firstn (b - a) (skipn a l).

(* words of k bytes each, little endian; a trailing partial word is loaded
   as if zero-padded *)
Definition le_words (k : nat) (l : bytes) : list Z := map le_val (chunks k l).

Definition bytes_eqb (a b : bytes) : bool :=
  (Nat.eqb (length a) (length b)) && forallb (fun p => Z.eqb (fst p) (snd p)) (combine a b).

(* ---------------------------------------------------------------- lemmas *)

Lemma zeros_length n : length (zeros n) = n.
Proof. apply repeat_length. Qed.

Lemma le_bytes_length n x : length (le_bytes n x) = n.
Proof. revert x; induction n as [|n IH]; intros x; cbn [le_bytes length]; [reflexivity|now rewrite IH]. Qed.

Lemma le_bytes_wf n x : wf_bytes (le_bytes n x).
Proof.
  revert x; induction n as [|n IH]; intros x; cbn [le_bytes]; constructor.
  - unfold is_byte. apply Z.mod_pos_bound. lia.
  - apply IH.
Qed.

Lemma le_val_bound l : wf_bytes l -> 0 <= le_val l < 256 ^ Z.of_nat (length l).
Proof.
  induction 1 as [|b l Hb Hl IH]; cbn [le_val length].
  - cbn. lia.
  - rewrite Nat2Z.inj_succ, Z.pow_succ_r by lia. unfold is_byte in Hb. lia.
Qed.

Lemma le_val_le_bytes n x : le_val (le_bytes n x) = x mod 256 ^ Z.of_nat n.
Proof.
  revert x; induction n as [|n IH]; intros x; cbn [le_bytes le_val].
  - cbn. now rewrite Z.mod_1_r.
  - rewrite IH, Nat2Z.inj_succ, Z.pow_succ_r by lia.
    assert (H : 0 < 256 ^ Z.of_nat n) by (apply Z.pow_pos_nonneg; lia).
    rewrite (Z.rem_mul_r x 256 (256 ^ Z.of_nat n)) by lia. reflexivity.
Qed.

Lemma le_bytes_le_val l : wf_bytes l -> le_bytes (length l) (le_val l) = l.
Proof.
  induction 1 as [|b l Hb Hl IH]; cbn [le_val length le_bytes]; [reflexivity|].
  unfold is_byte in Hb.
  replace ((b + 256 * le_val l) mod 256) with b by (Z.div_mod_to_equations; lia).
  replace ((b + 256 * le_val l) / 256) with (le_val l) by (Z.div_mod_to_equations; lia).
  now rewrite IH.
Qed.

Lemma le_val_inj a b : wf_bytes a -> wf_bytes b -> length a = length b -> le_val a = le_val b -> a = b.
Proof.
  intros Ha Hb Hl Hv. rewrite <- (le_bytes_le_val a Ha), <- (le_bytes_le_val b Hb).
  now rewrite Hl, Hv.
Qed.

Lemma xor_bytes_length a b : length (xor_bytes a b) = Nat.min (length a) (length b).
Proof. unfold xor_bytes. now rewrite map_length, combine_length. Qed.

Lemma xor_into_length a b : length (xor_into a b) = length a.
Proof. revert b; induction a as [|x a IH]; intros [|y b]; cbn [xor_into length]; auto. Qed.

Lemma xor_into_involutive a b : (length a <= length b)%nat -> xor_into (xor_into a b) b = a.
Proof.
  revert b; induction a as [|x a IH]; intros [|y b] H; cbn [xor_into length] in *; try reflexivity; try lia.
  rewrite Z.lxor_assoc, Z.lxor_nilpotent, Z.lxor_0_r. f_equal. apply IH. lia.
Qed.

Lemma xor_into_wf a b : wf_bytes a -> wf_bytes b -> wf_bytes (xor_into a b).
Proof.
  intros Ha; revert b; induction Ha as [|x a Hx Ha IH]; intros b Hb; cbn [xor_into]; [constructor|].
  destruct b as [|y b]; [now constructor|]. inversion Hb as [|? ? Hy Hb']; subst.
  constructor; [|now apply IH].
  unfold is_byte in *.
  assert (Hl : 0 <= Z.lxor x y) by (apply Z.lxor_nonneg; lia).
  split; [exact Hl|].
  destruct (Z.eq_dec (Z.lxor x y) 0) as [E|E]; [lia|].
  apply Z.log2_lt_cancel. change (Z.log2 256) with 8.
  eapply Z.le_lt_trans; [apply Z.log2_lxor; lia|].
  apply Z.max_lub_lt.
  - destruct (Z.eq_dec x 0) as [->|]; [cbn; lia|]. apply Z.log2_lt_pow2; lia.
  - destruct (Z.eq_dec y 0) as [->|]; [cbn; lia|]. apply Z.log2_lt_pow2; lia.
Qed.

Lemma wf_bytes_app a b : wf_bytes (a ++ b) <-> wf_bytes a /\ wf_bytes b.
Proof. unfold wf_bytes. apply Forall_app. Qed.

Lemma wf_zeros n : wf_bytes (zeros n).
Proof. unfold zeros. induction n; cbn; constructor; [unfold is_byte; lia|assumption]. Qed.

Lemma wf_firstn n l : wf_bytes l -> wf_bytes (firstn n l).
Proof.
  intros H. apply Forall_forall. intros x Hx. eapply Forall_forall in H; [exact H|].
  rewrite <- (firstn_skipn n l). apply in_or_app. now left.
Qed.

Lemma wf_skipn n l : wf_bytes l -> wf_bytes (skipn n l).
Proof.
  intros H. apply Forall_forall. intros x Hx. eapply Forall_forall in H; [exact H|].
  rewrite <- (firstn_skipn n l). apply in_or_app. now right.
Qed.

Lemma wf_bytesb_spec l : wf_bytesb l = true <-> wf_bytes l.
Proof.
  unfold wf_bytesb, wf_bytes. rewrite forallb_forall, Forall_forall.
  split; intros H x Hx; specialize (H x Hx); unfold byteb, is_byte in *; lia.
Qed.

Lemma bytes_eqb_eq a b : bytes_eqb a b = true <-> a = b.
Proof.
  unfold bytes_eqb. split.
  - intros H. apply andb_prop in H as [Hl Hc]. apply Nat.eqb_eq in Hl.
    revert b Hl Hc; induction a as [|x a IH]; intros [|y b] Hl Hc; cbn in *; try discriminate; [reflexivity|].
    apply andb_prop in Hc as [Hx Hc]. apply Z.eqb_eq in Hx. subst. f_equal. apply IH; [lia|exact Hc].
  - intros ->. rewrite Nat.eqb_refl. cbn. induction b as [|y b IH]; cbn; [reflexivity|].
    now rewrite Z.eqb_refl, IH.
Qed.

Lemma skipn_skipn {A} (x y : nat) (l : list A) : skipn x (skipn y l) = skipn (y + x) l.
Proof.
  revert l; induction y as [|y IH]; intros l; [reflexivity|].
  destruct l as [|a l]; [now rewrite !skipn_nil|]. cbn [skipn Nat.add]. apply IH.
Qed.

Lemma chunks_n_slices cnt n l :
  chunks_n cnt n l = map (fun i => slice l (i * n) (i * n + n)) (seq 0 cnt).
Proof.
  revert l; induction cnt as [|c IH]; intros l; cbn [chunks_n seq map]; [reflexivity|].
  f_equal.
  - unfold slice. cbn [Nat.mul Nat.add skipn]. now rewrite Nat.sub_0_r.
  - rewrite IH, <- seq_shift, map_map. apply map_ext. intros i. unfold slice.
    rewrite skipn_skipn. f_equal; try lia.
Qed.

Lemma le_words_slices k n l : (0 < k)%nat -> length l = (n * k)%nat ->
  le_words k l = map (fun i => le_val (slice l (i * k) (i * k + k))) (seq 0 n).
Proof.
  intros Hk Hl. unfold le_words, chunks. rewrite chunks_n_slices, map_map.
  replace ((length l + k - 1) / k)%nat with n; [reflexivity|].
  rewrite Hl. apply Nat.div_unique with (r := (k - 1)%nat); [lia|]. nia.
Qed.

Lemma firstn_split_slice (a e : nat) (l : bytes) : (a <= e)%nat ->
  firstn a l ++ slice l a e = firstn e l.
Proof.
  intros H. unfold slice. rewrite <- (firstn_skipn a (firstn e l)) at 1.
  rewrite firstn_firstn, skipn_firstn_comm. now rewrite Nat.min_l by lia.
Qed.

Lemma slice_length l a e : (a <= e)%nat -> (e <= length l)%nat -> length (slice l a e) = (e - a)%nat.
Proof. intros. unfold slice. rewrite firstn_length, skipn_length. lia. Qed.

Lemma app_inj_len {A} (a a' b b' : list A) :
  length a = length a' -> a ++ b = a' ++ b' -> a = a' /\ b = b'.
Proof.
  revert a'; induction a as [|x a IH]; intros [|x' a'] Hl H; cbn in *; try discriminate.
  - now split.
  - injection H as -> H. destruct (IH a' ltac:(lia) H) as [-> ->]. now split.
Qed.
