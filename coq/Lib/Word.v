(* Fixed-width machine words as Z with explicit wrap-around. *)
From Dryoc Require Export Lib.Bytes.
Open Scope Z_scope.

Definition mask8 : Z := 0xff.
Definition mask32 : Z := 0xffffffff.
Definition mask64 : Z := 0xffffffffffffffff.
Definition mask128 : Z := 0xffffffffffffffffffffffffffffffff.

Definition w32 (x : Z) : Z := Z.land x mask32.
Definition w64 (x : Z) : Z := Z.land x mask64.
Definition w128 (x : Z) : Z := Z.land x mask128.

Definition add32 (a b : Z) : Z := w32 (a + b).
Definition add64 (a b : Z) : Z := w64 (a + b).
Definition mul64 (a b : Z) : Z := w64 (a * b).

Definition rotl32 (x n : Z) : Z := w32 (Z.lor (Z.shiftl x n) (Z.shiftr x (32 - n))).
Definition rotl64 (x n : Z) : Z := w64 (Z.lor (Z.shiftl x n) (Z.shiftr x (64 - n))).
Definition rotr64 (x n : Z) : Z := w64 (Z.lor (Z.shiftr x n) (Z.shiftl x (64 - n))).

(* list helpers used by array-shaped code *)
Definition nthz (l : list Z) (i : nat) : Z := nth i l 0.
Fixpoint upd (l : list Z) (i : nat) (v : Z) : list Z :=
  match l, i with
  | [], _ => []
  | _ :: r, O => v :: r
  | x :: r, S j => x :: upd r j v
  end.

Lemma upd_length l i v : length (upd l i v) = length l.
Proof. revert i; induction l as [|x l IH]; intros [|i]; cbn [upd length]; auto. Qed.

Lemma land_ones_mod x n : 0 <= n -> Z.land x (Z.ones n) = x mod 2 ^ n.
Proof. intros. now apply Z.land_ones. Qed.

Lemma w32_mod x : w32 x = x mod 2 ^ 32.
Proof. unfold w32. change mask32 with (Z.ones 32). apply Z.land_ones. lia. Qed.
Lemma w64_mod x : w64 x = x mod 2 ^ 64.
Proof. unfold w64. change mask64 with (Z.ones 64). apply Z.land_ones. lia. Qed.
Lemma w128_mod x : w128 x = x mod 2 ^ 128.
Proof. unfold w128. change mask128 with (Z.ones 128). apply Z.land_ones. lia. Qed.

Lemma w64_range x : 0 <= w64 x < 2 ^ 64.
Proof. rewrite w64_mod. apply Z.mod_pos_bound. lia. Qed.
Lemma w32_range x : 0 <= w32 x < 2 ^ 32.
Proof. rewrite w32_mod. apply Z.mod_pos_bound. lia. Qed.

(* disjoint bit ranges: or = + *)
Lemma lor_disjoint_add a b : Z.land a b = 0 -> Z.lor a b = a + b.
Proof.
  intros H. rewrite <- Z.lxor_lor by exact H. symmetry. apply Z.add_nocarry_lxor. exact H.
Qed.

Lemma land_shiftl_low a b n : 0 <= n -> 0 <= a < 2 ^ n -> Z.land a (Z.shiftl b n) = 0.
Proof.
  intros Hn Ha. apply Z.bits_inj'. intros i Hi. rewrite Z.land_spec, Z.bits_0.
  destruct (Z.lt_ge_cases i n) as [Hlt|Hge].
  - rewrite Z.shiftl_spec_low by lia. apply andb_false_r.
  - destruct (Z.eq_dec a 0) as [->|Hnz]; [now rewrite Z.bits_0|].
    rewrite (Z.bits_above_log2 a i); [reflexivity|lia|].
    apply Z.log2_lt_pow2; try lia. eapply Z.lt_le_trans; [apply Ha|]. apply Z.pow_le_mono_r; lia.
Qed.

Lemma lor_shiftl_add a b n : 0 <= n -> 0 <= a < 2 ^ n -> Z.lor a (Z.shiftl b n) = a + b * 2 ^ n.
Proof.
  intros Hn Ha. rewrite lor_disjoint_add by (apply land_shiftl_low; assumption).
  now rewrite Z.shiftl_mul_pow2.
Qed.
