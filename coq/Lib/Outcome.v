(* Result of a Rust call: Ok value, Err (message dropped), Panic
   (unwind / abort: index out of range, checked arithmetic, expect, assert). *)
From Dryoc Require Export Lib.Word.

Inductive outcome (A : Type) : Type :=
| Ok : A -> outcome A
| Err : outcome A
| Panic : outcome A.
Arguments Ok {A} _.
Arguments Err {A}.
Arguments Panic {A}.

Definition obind {A B} (x : outcome A) (f : A -> outcome B) : outcome B :=
  match x with Ok a => f a | Err => Err | Panic => Panic end.
Definition omap {A B} (f : A -> B) (x : outcome A) : outcome B :=
  match x with Ok a => Ok (f a) | Err => Err | Panic => Panic end.

Notation "'let*' x ':=' e 'in' f" := (obind e (fun x => f))
  (at level 200, x pattern, e at level 100, f at level 200, right associativity).

Definition is_ok {A} (x : outcome A) : bool := match x with Ok _ => true | _ => false end.
Definition is_err {A} (x : outcome A) : bool := match x with Err => true | _ => false end.
Definition is_panic {A} (x : outcome A) : bool := match x with Panic => true | _ => false end.
