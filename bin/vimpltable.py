"""Translator part for C20: the trait-impl table of src/protected.rs and the method
table of src/dryocstream.rs, as Coq data (Gen/ImplTable.v).

For every `impl ... Trait for Target` in protected.rs whose target is Protected<..> (or one of
the ptypes aliases), HeapBytes or HeapByteArray<..>: trait, container (generic with the bounds
on it / HeapBytes / HeapByteArray), protect mode and lock mode (generic = wildcard)."""
import os, re

TRAITS = ["Bytes", "MutBytes", "ByteArray", "MutByteArray", "NewBytes", "NewByteArray", "ResizableBytes", "Clone", "Lock", "Unlock",
          "ProtectReadOnly", "ProtectReadWrite", "ProtectNoAccess", "Deref", "DerefMut", "AsRef", "AsMut", "Lockable", "NewLocked",
          "NewLockedFromSlice", "Default", "Zeroize", "Drop", "Index", "IndexMut", "From", "TryFrom", "Serialize", "Deserialize",
          "Allocator", "PartialEq", "Eq", "Debug", "ZeroizeOnDrop", "ProtectMode", "LockMode", "AsRefArray", "AsMutArray"]
ALIASES = {"Locked": ("ReadWrite", "Locked"), "LockedRO": ("ReadOnly", "Locked"), "NoAccess": ("NoAccess", "Unlocked"),
           "Unlocked": ("ReadWrite", "Unlocked"), "UnlockedRO": ("ReadOnly", "Unlocked"), "LockedBytes": ("ReadWrite", "Locked")}
PM = {"ReadWrite": 0, "ReadOnly": 1, "NoAccess": 2}
LMC = {"Unlocked": 0, "Locked": 1}

def strip_comments(s):
    s = re.sub(r"//[^\n]*", "", s)
    return re.sub(r"/\*.*?\*/", "", s, flags=re.S)

def split_top(s, sep=","):
    out, depth, cur = [], 0, ""
    for ch in s:
        if ch in "<([": depth += 1
        if ch in ">)]": depth -= 1
        if ch == sep and depth == 0: out.append(cur.strip()); cur = ""
        else: cur += ch
    if cur.strip(): out.append(cur.strip())
    return out

def impl_headers(src):
    """yields (generics_text, trait_text or None, target_text) for every impl item"""
    i = 0
    while True:
        m = re.search(r"(?m)^\s*(?:unsafe\s+)?impl\b", src[i:])
        if not m: return
        j = i + m.end()
        # header runs to the first '{' at angle depth 0
        depth, k = 0, j
        while k < len(src):
            c = src[k]
            if c == "<": depth += 1
            elif c == ">" and src[k-1] != "-": depth -= 1
            elif c == "{" and depth == 0: break
            k += 1
        header = " ".join(src[j:k].split())
        i = k + 1
        gen = ""
        if header.startswith("<"):
            d, p = 0, 0
            for p, c in enumerate(header):
                if c == "<": d += 1
                elif c == ">": d -= 1
                if d == 0: break
            gen, header = header[1:p], header[p+1:].strip()
        header = re.split(r"\bwhere\b", header)[0].strip()
        if " for " in header:
            tr, target = header.split(" for ", 1)
            yield gen, tr.strip(), target.strip()
        else:
            yield gen, None, header

def tname(t):
    t = t.strip()
    t = re.sub(r"^(std|core)::[\w:]*::", "", t)
    t = t.split("<")[0].split("::")[-1]
    return t

def trname(t):
    """trait name; AsRef<[u8; N]> / AsMut<[u8; N]> are kept apart from the slice forms"""
    n = tname(t)
    if n in ("AsRef", "AsMut") and re.search(r"<\s*\[\s*u8\s*;", t): return n + "Array"
    return n

def bounds_of(gen):
    b = {}
    for g in split_top(gen):
        if g.startswith("const ") or g.startswith("'"): continue
        if ":" in g:
            n, bs = g.split(":", 1)
            b[n.strip()] = [trname(x) for x in bs.split("+") if x.strip() and not x.strip().startswith("'")]
        else:
            b[g.strip()] = []
    return b

def parse_target(target, bounds):
    """-> (container code, container bounds, pm, lm) or None"""
    head = target.split("<")[0].strip().split("::")[-1]
    args = []
    if "<" in target: args = split_top(target[target.index("<")+1:target.rindex(">")])
    if head == "Protected":
        a, pm, lm = args[0], args[1].split("::")[-1], args[2].split("::")[-1]
        pmc = PM.get(pm, 9); lmc = LMC.get(lm, 9)
    elif head in ALIASES:
        a = args[0] if args else "HeapBytes"
        pmc, lmc = PM[ALIASES[head][0]], LMC[ALIASES[head][1]]
    elif head in ("HeapBytes", "HeapByteArray"):
        return (1 if head == "HeapBytes" else 2, [], -1, -1)
    else:
        return None
    an = a.split("<")[0].strip()
    if an == "HeapBytes": return (1, [], pmc, lmc)
    if an == "HeapByteArray": return (2, [], pmc, lmc)
    return (0, bounds.get(an, []), pmc, lmc)

def generate(repo):
    src = strip_comments(open(os.path.join(repo, "src/protected.rs")).read())
    tcode = {t: k + 1 for k, t in enumerate(TRAITS)}
    rows, cont, blanket = [], {1: set(), 2: set()}, []
    for gen, tr, target in impl_headers(src):
        if tr is None: continue
        t = trname(tr)
        if t not in tcode: raise SystemExit("vgen(impl table): unknown trait %s in protected.rs (add it to bin/vimpltable.py)" % t)
        bnds = bounds_of(gen)
        if target.strip() in bnds and trname(tr) in tcode:
            # blanket impl over a bare generic parameter: applies to every container that meets the bounds
            blanket.append((trname(tr), [x for x in bnds[target.strip()] if x in tcode]))
            continue
        pt = parse_target(target, bnds)
        if pt is None: continue
        c, cb, pm, lm = pt
        for x in cb:
            if x not in tcode: raise SystemExit("vgen(impl table): unknown bound %s" % x)
        if t in ("ProtectMode", "LockMode"):
            continue
        if pm == -1:
            cont[c].add(t)
        else:
            rows.append((tcode[t], c, pm, lm, [tcode[x] for x in cb]))
    # derives on the containers
    for name, c in (("HeapByteArray", 2), ("HeapBytes", 1)):
        m = re.search(r"#\[derive\(([^)]*)\)\]\s*pub struct %s\b" % name, src)
        if m:
            for d in m.group(1).split(","):
                if d.strip() in tcode: cont[c].add(d.strip())
    # close the containers' trait sets under the blanket impls
    changed = True
    while changed:
        changed = False
        for c in (1, 2):
            for t, bs in blanket:
                if t not in cont[c] and all(b in cont[c] for b in bs):
                    cont[c].add(t); changed = True
    # where each transition goes: (trait, source pm, source lm, target pm, target lm); 9 = a generic parameter, and a
    # generic target parameter must be the SAME identifier as the source's in that position ("kept"), else 8 (unrelated)
    targets = []
    for m in re.finditer(r"(?m)^\s*impl\b", src):
        k = src.index("{", m.end())
        header = " ".join(src[m.end():k].split())
        mt = re.search(r"\b(Lock|Unlock|ProtectReadOnly|ProtectReadWrite|ProtectNoAccess)<[^>]*>\s+for\s+Protected<(.*)>\s*(?:where.*)?$", header)
        if not mt: continue
        sargs = split_top(mt.group(2))
        d, e = 0, k
        while True:
            if src[e] == "{": d += 1
            elif src[e] == "}":
                d -= 1
                if d == 0: break
            e += 1
        body = " ".join(src[k:e].split())
        mr = re.search(r"fn \w+\(\s*(?:mut\s+)?self\s*,?\s*\)\s*->\s*Result<\s*Protected<([^>]*)>", body)
        if not mr: raise SystemExit("vgen(impl table): cannot read the result type of the transition impl `%s`" % header)
        targs = split_top(mr.group(1))
        if len(sargs) != 3 or len(targs) != 3: raise SystemExit("vgen(impl table): unexpected Protected<..> arity in `%s`" % header)
        def code(x, table): return table.get(x.split("::")[-1].strip(), 9)
        def tgt(pos, table):
            c = code(targs[pos], table)
            if c != 9: return c
            return 9 if targs[pos].strip() == sargs[pos].strip() else 8
        targets.append((tcode[mt.group(1)], code(sargs[1], PM), code(sargs[2], LMC), tgt(1, PM), tgt(2, LMC)))
    # transitions take self by value?
    trans = []
    for t in ["Lock", "Unlock", "ProtectReadOnly", "ProtectReadWrite", "ProtectNoAccess", "Lockable"]:
        m = re.search(r"pub trait %s\b.*?\{(.*?)\n\}" % t, src, re.S)
        byval = bool(m and re.search(r"fn \w+\(\s*(?:mut\s+)?self\s*[,)]", m.group(1)))
        trans.append((tcode[t], byval))
    # stream methods per mode
    s2 = strip_comments(open(os.path.join(repo, "src/dryocstream.rs")).read())
    smeth = []
    for gen, tr, target in impl_headers(s2):
        if tr is not None or not target.startswith("DryocStream"): continue
        mode = target[target.index("<")+1:target.rindex(">")].strip()
        mc = {"Push": 0, "Pull": 1}.get(mode, 9)
        # body of this impl
        idx = s2.index("impl" + ("<" + gen + ">" if gen else "") + " " + target) if ("impl" + ("<" + gen + ">" if gen else "") + " " + target) in s2 else -1
        if idx < 0: continue
        b0 = s2.index("{", idx); d = 0; k = b0
        while True:
            if s2[k] == "{": d += 1
            elif s2[k] == "}":
                d -= 1
                if d == 0: break
            k += 1
        for fm in re.finditer(r"pub fn (\w+)", s2[b0:k]):
            smeth.append((mc, fm.group(1)))
    out = ["(* GENERATED by bin/vgen (vimpltable.py) from src/protected.rs and src/dryocstream.rs -- do not edit *)",
           "From Coq Require Import ZArith List.\nImport ListNotations.\nOpen Scope Z_scope.\n"]
    for t, k in tcode.items(): out.append("Definition T_%s : Z := %d." % (t, k))
    out.append("\n(* (trait, container 0 generic / 1 HeapBytes / 2 HeapByteArray, protect mode 0 rw 1 ro 2 noaccess 9 any, lock mode 0 unlocked 1 locked 9 any, bounds on a generic container) *)")
    out.append("Definition impl_rows : list (Z * Z * Z * Z * list Z) :=\n  [" + ";\n   ".join("(%d, %d, %d, %d, [%s])" % (r[0], r[1], r[2], r[3], "; ".join(map(str, r[4]))) for r in rows) + "].")
    out.append("Definition container_traits : list (Z * list Z) :=\n  [(1, [%s]);\n   (2, [%s])]." % ("; ".join(str(tcode[t]) for t in sorted(cont[1], key=lambda x: tcode[x])), "; ".join(str(tcode[t]) for t in sorted(cont[2], key=lambda x: tcode[x]))))
    out.append("Definition transition_by_value : list (Z * bool) := [" + "; ".join("(%d, %s)" % (a, "true" if b else "false") for a, b in trans) + "].")
    out.append("(* (transition trait, source pm, source lm, target pm, target lm): 9 = generic / kept from the source, 8 = an unrelated generic *)")
    out.append("Definition transition_targets : list (Z * Z * Z * Z * Z) := [" + "; ".join("(%d, %d, %d, %d, %d)" % t for t in targets) + "].")
    names = sorted({n for _, n in smeth})
    out.append("(* stream methods: (mode 0 Push / 1 Pull / 9 any, method) ; methods: " + ", ".join("%d=%s" % (k, n) for k, n in enumerate(names)) + " *)")
    out.append("Definition stream_methods : list (Z * Z) := [" + "; ".join("(%d, %d)" % (m, names.index(n)) for m, n in smeth) + "].")
    for k, n in enumerate(names): out.append("Definition SM_%s : Z := %d." % (n, k))
    return "\n".join(out) + "\n"
