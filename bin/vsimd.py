"""Translator part for C18: the portable-SIMD BLAKE2b compression function of
src/blake2b/blake2b_simd.rs as a straight-line program in the small vector IR of
coq/Impl/SimdIR.v (Gen/SimdKernel.v), and the buffering code of blake2b_simd.rs and
blake2b_soft.rs as normalised token strings (same file) whose equality is a Coq obligation.

Accepted subset (anything else stops the translator, which vcheck reports as a broken obligation):
  t0|t1|b0 = simd_swizzle!(X, Y, [i, j, k, l]);   X, Y in m[k] | t0 | t1
  t0|t1|b0 = simd_swizzle!(X, [i, j, k, l]);
  g1(a, b, &mut c, &mut d, &b0);  g2(...);  permute(a, &mut c, &mut d);  unpermute(...);
with the fixed prologue / epilogue of compress and the bodies of loadm, rotru64, g1, g2, permute,
unpermute matched against templates whose constants (rotation amounts, lane patterns, byte offsets)
are extracted."""
import os, re

def strip_comments(s):
    s = re.sub(r"//[^\n]*", "", s)
    return re.sub(r"/\*.*?\*/", "", s, flags=re.S)

def norm(s):
    return " ".join(s.split())

def fn_body(src, name, where):
    m = re.search(r"\bfn %s\s*(?:<[^>]*>)?\s*\(" % re.escape(name), src)
    if not m:
        raise SystemExit("vgen(simd): fn %s not found in %s" % (name, where))
    i = src.index("{", m.end())
    # skip a `-> Type {`: the first '{' after the parameter list's closing ')' at depth 0
    d, k = 0, m.end() - 1
    while True:
        c = src[k]
        if c == "(": d += 1
        elif c == ")":
            d -= 1
            if d == 0: break
        k += 1
    i = src.index("{", k)
    d, j = 0, i
    while True:
        if src[j] == "{": d += 1
        elif src[j] == "}":
            d -= 1
            if d == 0: break
        j += 1
    return src[i + 1:j]

def nat_list(xs):
    return "[" + "; ".join("%d%%nat" % x for x in xs) + "]"

def reg(tok):
    tok = tok.strip()
    m = re.fullmatch(r"m\[(\d+)\]", tok)
    if m: return "(M %s%%nat)" % m.group(1)
    if tok in ("t0", "t1", "b0"): return tok.upper()
    raise SystemExit("vgen(simd): unsupported swizzle operand %r" % tok)

def translate_compress(src):
    body = fn_body(src, "compress", "blake2b_simd.rs")
    stmts = [norm(s) for s in body.split(";")]
    stmts = [s for s in stmts if s]
    prologue = ["let mut c = Simd::<u64, 4>::from_slice(&IV[..4])",
                "let flags = Simd::<u64, 4>::from([st[0], st[1], sf[0], sf[1]])",
                "let mut d = Simd::<u64, 4>::from_slice(&IV[4..]) ^ flags",
                "let m = loadm(block)", "let iv0 = *a", "let iv1 = *b", "let mut t0", "let mut t1", "let mut b0"]
    epilogue = ["*a ^= c", "*b ^= d", "*a ^= iv0", "*b ^= iv1"]
    if stmts[:len(prologue)] != prologue:
        raise SystemExit("vgen(simd): compress prologue differs from the modelled one: %r" % stmts[:len(prologue)])
    if stmts[-len(epilogue):] != epilogue:
        raise SystemExit("vgen(simd): compress epilogue differs from the modelled one: %r" % stmts[-len(epilogue):])
    rounds, cur = [], []
    for s in stmts[len(prologue):-len(epilogue)]:
        m = re.fullmatch(r"(t0|t1|b0) = simd_swizzle!\((.+), \[([0-9, ]+)\]\)", s)
        if m:
            dst, ops, idx = m.group(1).upper(), [x.strip() for x in m.group(2).split(",")], [int(x) for x in m.group(3).split(",")]
            if len(idx) != 4: raise SystemExit("vgen(simd): swizzle of %d lanes: %s" % (len(idx), s))
            if len(ops) == 2:
                if any(i > 7 for i in idx): raise SystemExit("vgen(simd): lane index out of range: " + s)
                cur.append("Swz2 %s %s %s %s" % (dst, reg(ops[0]), reg(ops[1]), nat_list(idx)))
            elif len(ops) == 1:
                if any(i > 3 for i in idx): raise SystemExit("vgen(simd): lane index out of range: " + s)
                cur.append("Swz1 %s %s %s" % (dst, reg(ops[0]), nat_list(idx)))
            else:
                raise SystemExit("vgen(simd): unsupported swizzle: " + s)
        elif s == "g1(a, b, &mut c, &mut d, &b0)": cur.append("G1")
        elif s == "g2(a, b, &mut c, &mut d, &b0)": cur.append("G2")
        elif s == "permute(a, &mut c, &mut d)": cur.append("Permute")
        elif s == "unpermute(a, &mut c, &mut d)":
            cur.append("Unpermute"); rounds.append(cur); cur = []
        else:
            raise SystemExit("vgen(simd): unsupported statement in compress: " + s)
    if cur: raise SystemExit("vgen(simd): statements after the last unpermute: %r" % cur)
    return rounds

def translate_helpers(src):
    out = {}
    # g1 / g2
    for name in ("g1", "g2"):
        b = norm(fn_body(src, name, "blake2b_simd.rs"))
        m = re.fullmatch(r"\*a = \*a \+ \*b \+ \*m; \*d = rotru64\(\*d \^ \*a, (\d+)\); \*c \+= \*d; \*b = rotru64\(\*b \^ \*c, (\d+)\);", b)
        if not m: raise SystemExit("vgen(simd): body of %s differs from the modelled shape: %s" % (name, b))
        out[name] = (int(m.group(1)), int(m.group(2)))
    b = norm(fn_body(src, "rotru64", "blake2b_simd.rs"))
    if b != "(v >> Simd::from([n, n, n, n])) | (v << Simd::from([64 - n, 64 - n, 64 - n, 64 - n]))":
        raise SystemExit("vgen(simd): rotru64 differs from the modelled shape: " + b)
    for name in ("permute", "unpermute"):
        b = norm(fn_body(src, name, "blake2b_simd.rs"))
        m = re.fullmatch(r"\*a = simd_swizzle!\(\*a, \[([0-9, ]+)\]\); \*d = simd_swizzle!\(\*d, \[([0-9, ]+)\]\); \*c = simd_swizzle!\(\*c, \[([0-9, ]+)\]\);", b)
        if not m: raise SystemExit("vgen(simd): body of %s differs from the modelled shape: %s" % (name, b))
        out[name] = tuple([int(x) for x in m.group(k).split(",")] for k in (1, 2, 3))   # (a, d, c)
    # loadm: m[k] = [w(start/8), w(mid/8)] swizzled by the macro's pattern
    b = fn_body(src, "loadm", "blake2b_simd.rs")
    mm = re.search(r"simd_swizzle!\(\s*Simd::<u64, 2>::from\(\[\s*load_u64_le\(&\$arr\[\$start\.\.\$mid\]\),\s*load_u64_le\(&block\[\$mid\.\.\$end\]\)\s*\]\),\s*\[([0-9, ]+)\]\s*\)", b)
    if not mm: raise SystemExit("vgen(simd): loadm macro differs from the modelled shape")
    pat = [int(x) for x in mm.group(1).split(",")]
    calls = re.findall(r"swizzle_my_jizzle!\((\w+), (\d+), (\d+), (\d+)\)", b.split("[", 1)[1] if False else b[mm.end():])
    if len(calls) != 8: raise SystemExit("vgen(simd): loadm has %d vector loads, expected 8" % len(calls))
    loadm = []
    for arr, s, mid, e in calls:
        s, mid, e = int(s), int(mid), int(e)
        if arr != "block" or mid - s != 8 or e - mid != 8 or s % 8 != 0:
            raise SystemExit("vgen(simd): loadm load (%s, %d, %d, %d) is not two consecutive words" % (arr, s, mid, e))
        two = [s // 8, mid // 8]
        loadm.append([two[p] for p in pat])
    out["loadm"] = loadm
    # the SIMD file's own IV table and the two state initialisers
    m = re.search(r"const IV: \[u64; 8\] = \[([^\]]*)\];", src)
    if not m: raise SystemExit("vgen(simd): IV table not found")
    out["iv"] = [int(x.strip().replace("_", ""), 16) for x in m.group(1).split(",") if x.strip()]
    b = norm(fn_body(src, "init0", "blake2b_simd.rs"))
    if b != "self.a = Simd::from_slice(&IV[..4]); self.b = Simd::from_slice(&IV[4..8]);":
        raise SystemExit("vgen(simd): init0 differs from the modelled shape: " + b)
    b = norm(fn_body(src, "init_param", "blake2b_simd.rs"))
    want = ("let mut state = Self::default(); state.init0(); let pslice = unsafe { std::slice::from_raw_parts( (params as *const Params) as *const u8, std::mem::size_of::<Params>(), ) }; "
            "state.a ^= Simd::<u64, 4>::from([ load_u64_le(&pslice[0..8]), load_u64_le(&pslice[8..16]), load_u64_le(&pslice[16..24]), load_u64_le(&pslice[24..32]), ]); "
            "state.b ^= Simd::<u64, 4>::from([ load_u64_le(&pslice[32..40]), load_u64_le(&pslice[40..48]), load_u64_le(&pslice[48..56]), load_u64_le(&pslice[56..64]), ]); state")
    if b != want:
        raise SystemExit("vgen(simd): init_param differs from the modelled shape (a = words 0..3, b = words 4..7 of the parameter block): " + b)
    return out

# ---- buffering: token strings of the State methods, SIMD state {a, b} renamed to the software {h}
BUF_FNS = ["increment_counter", "init", "update", "finalize", "is_lastblock", "set_lastblock", "set_lastnode", "hash", "longhash"]

def buffering_tokens(src, simd):
    res = {}
    for name in BUF_FNS:
        b = norm(strip_comments(fn_body(src, name, "blake2b_%s.rs" % ("simd" if simd else "soft"))))
        if simd:
            b = b.replace("let a = &mut self.a; let b = &mut self.b;", "let h = &mut self.h;")
            b = b.replace("compress(a, b, t, f, chunk)", "compress(h, t, f, chunk)")
            b = re.sub(r"compress\( &mut self\.a, &mut self\.b, &self\.t, &self\.f, (&self\.buf[^,)]*), \)", r"compress(&mut self.h, &self.t, &self.f, \1)", b)
            b = b.replace("compress(&mut self.a, &mut self.b, &self.t, &self.f, &self.buf)", "compress(&mut self.h, &self.t, &self.f, &self.buf)")
            b = re.sub(r"self\.a\[(\d)\]", lambda m: "self.h[%d]" % int(m.group(1)), b)
            b = re.sub(r"self\.b\[(\d)\]", lambda m: "self.h[%d]" % (4 + int(m.group(1))), b)
            b = b.replace("self.a = Simd::splat(0); self.b = Simd::splat(0);", "self.h.zeroize();")
        # wiping the buffer (at whichever point) is not observable in the digest; the borrow of the
        # chaining value may be taken before or after those of t and f
        b = b.replace("self.buf.zeroize(); ", "")
        if b.count("let h = &mut self.h; ") == 1:
            b = b.replace("let h = &mut self.h; ", "") + " [borrows h]"
        res[name] = b
    return res

def coq_string(s):
    return '"' + s.replace('"', '""') + '"'

def generate(repo):
    simd = strip_comments(open(os.path.join(repo, "src/blake2b/blake2b_simd.rs")).read())
    soft = strip_comments(open(os.path.join(repo, "src/blake2b/blake2b_soft.rs")).read())
    # drop the test modules
    simd = simd.split("#[cfg(test)]")[0]; soft = soft.split("#[cfg(test)]")[0]
    rounds = translate_compress(simd)
    h = translate_helpers(simd)
    out = ["(* GENERATED by bin/vgen (vsimd.py) from src/blake2b/blake2b_simd.rs and blake2b_soft.rs -- do not edit *)",
           "From Coq Require Import ZArith List String.\nFrom Dryoc Require Import Impl.SimdIR.\nImport ListNotations SimdIR.\nOpen Scope Z_scope.\n"]
    out.append("Definition simd_rounds : list (list instr) :=\n  [" + ";\n   ".join("[" + "; ".join(r) + "]" for r in rounds) + "].")
    out.append("Definition simd_loadm : list (list nat) := [" + "; ".join(nat_list(x) for x in h["loadm"]) + "].")
    out.append("Definition simd_IV : list Z := [" + "; ".join(str(x) for x in h["iv"]) + "].")
    out.append("Definition simd_g1_rot : Z * Z := (%d, %d)." % h["g1"])
    out.append("Definition simd_g2_rot : Z * Z := (%d, %d)." % h["g2"])
    for name in ("permute", "unpermute"):
        a, d, c = h[name]
        out.append("Definition simd_%s : list nat * list nat * list nat := (%s, %s, %s).   (* lanes of a, d, c *)" % (name, nat_list(a), nat_list(d), nat_list(c)))
    bs, bf = buffering_tokens(simd, True), buffering_tokens(soft, False)
    out.append("\n(* the buffering / driver functions of the two backends, comments and layout removed, the SIMD\n   state fields {a, b} renamed to the software backend's h *)")
    out.append("Definition soft_buffering : list (string * string) :=\n  [" + ";\n   ".join("(%s, %s)" % (coq_string(n), coq_string(bf[n])) for n in BUF_FNS) + "]%string.")
    out.append("Definition simd_buffering : list (string * string) :=\n  [" + ";\n   ".join("(%s, %s)" % (coq_string(n), coq_string(bs[n])) for n in BUF_FNS) + "]%string.")
    return "\n".join(out) + "\n"

if __name__ == "__main__":
    import sys
    sys.stdout.write(generate(sys.argv[1] if len(sys.argv) > 1 else "/repo"))
