"""Translator part for C07 / C01 / C03 / C09: the hand-written straight-line kernels
  src/classic/crypto_core.rs   crypto_core_hsalsa20, crypto_core_hchacha20 (+ helpers)
  src/siphash24.rs             the SipHash round closure and the shape of siphash24
  src/argon2.rs                the g closure, the calls of blake2_round_nomsg, the index lists of fill_block
as Coq data (Gen/Kernels.v) for the interpreters of coq/Impl/Cores.v.

Accepted subset (anything else stops the translator; vcheck reports a broken obligation):
  hsalsa20 loop body:   xA ^= salsa20_rotl32(xB, xC, R);
  hchacha20 loop body:  chacha20_quarterround(&mut xA, &mut xB, &mut xC, &mut xD);
  chacha20_quarterround: chacha20_round(p, q, r, R);   p, q, r in a, b, c, d
  sip round closure:    *vA = vA.wrapping_add(*vB);  *vA = rotl64(*vA, N);  *vA ^= *vB;
and fixed templates for the helpers, the variable initialisation (constants, key words, input
words as load_u32_le(&key[4j..4j+4])) and the output stores."""
import os, re

def strip_comments(s):
    s = re.sub(r"//[^\n]*", "", s)
    return re.sub(r"/\*.*?\*/", "", s, flags=re.S)

def norm(s):
    return " ".join(s.split())

def fn_body(src, name, where):
    m = re.search(r"\bfn %s\s*\(" % re.escape(name), src)
    if not m:
        raise SystemExit("vgen(kernels): fn %s not found in %s" % (name, where))
    d, k = 0, m.end() - 1
    while True:
        c = src[k]
        if c == "(": d += 1
        elif c == ")":
            d -= 1
            if d == 0: break
        k += 1
    i = src.index("{", k)
    d, j = 0, i
    while True:
        if src[j] == "{": d += 1
        elif src[j] == "}":
            d -= 1
            if d == 0: break
        j += 1
    return src[i + 1:j]

def block_after(body, start_pat, where):
    """text of the { ... } block that follows the first match of start_pat in body"""
    m = re.search(start_pat, body)
    if not m: raise SystemExit("vgen(kernels): %s: pattern %r not found" % (where, start_pat))
    i = body.index("{", m.end() - 1) if body[m.end() - 1] != "{" else m.end() - 1
    d, j = 0, i
    while True:
        if body[j] == "{": d += 1
        elif body[j] == "}":
            d -= 1
            if d == 0: break
        j += 1
    return body[i + 1:j], m, j + 1

def nl(xs): return "[" + "; ".join("%d%%nat" % x for x in xs) + "]"

def parse_init(body, where):
    """the two destructuring lets: constants tuple and the twelve loads -> {var index: ("c", i) | ("k", j) | ("n", j)}"""
    b = norm(body)
    m = re.search(r"let \(mut x(\d+), mut x(\d+), mut x(\d+), mut x(\d+)\) = constants\.unwrap_or\(\((0x[0-9a-f]+), (0x[0-9a-f]+), (0x[0-9a-f]+), (0x[0-9a-f]+)\)\);", b)
    if not m: raise SystemExit("vgen(kernels): %s: constants initialisation differs from the modelled shape" % where)
    lay = {}
    for i in range(4): lay[int(m.group(1 + i))] = ("c", i)
    consts = [int(m.group(5 + i), 16) for i in range(4)]
    m2 = re.search(r"let \( ((?:mut x\d+, )+)\) = \( ((?:load_u32_le\(&(?:key|input)\[\d+\.\.\d+\]\), )+)\);", b)
    if not m2: raise SystemExit("vgen(kernels): %s: key / input loads differ from the modelled shape" % where)
    vs = [int(x) for x in re.findall(r"mut x(\d+)", m2.group(1))]
    loads = re.findall(r"load_u32_le\(&(key|input)\[(\d+)\.\.(\d+)\]\)", m2.group(2))
    if len(vs) != 12 or len(loads) != 12: raise SystemExit("vgen(kernels): %s: expected twelve loads" % where)
    for v, (src, a, e) in zip(vs, loads):
        a, e = int(a), int(e)
        if e - a != 4 or a % 4 != 0: raise SystemExit("vgen(kernels): %s: load [%d..%d] is not an aligned word" % (where, a, e))
        lay[v] = ("k" if src == "key" else "n", a // 4)
    if sorted(lay) != list(range(16)): raise SystemExit("vgen(kernels): %s: the sixteen words are not all initialised" % where)
    return lay, consts

def parse_out(body, where):
    b = norm(body)
    outs = re.findall(r"output\[(\d+)\.\.(\d+)\]\.copy_from_slice\(&x(\d+)\.to_le_bytes\(\)\);", b)
    if len(outs) != 8: raise SystemExit("vgen(kernels): %s: expected eight output stores" % where)
    for k, (a, e, v) in enumerate(outs):
        if int(a) != 4 * k or int(e) != 4 * k + 4: raise SystemExit("vgen(kernels): %s: output store %d is not word %d" % (where, k, k))
    return [int(v) for _, _, v in outs]

def layout_coq(lay):
    kind = {"c": 0, "k": 1, "n": 2}
    return "[" + "; ".join("(%d%%nat, %d%%nat)" % (kind[lay[i][0]], lay[i][1]) for i in range(16)) + "]"

def gen_cores(repo):
    src = strip_comments(open(os.path.join(repo, "src/classic/crypto_core.rs")).read()).split("#[cfg(test)]")[0]
    out = []
    # helpers
    if norm(fn_body(src, "salsa20_rotl32", "crypto_core.rs")) != "x.wrapping_add(y).rotate_left(rot)":
        raise SystemExit("vgen(kernels): salsa20_rotl32 differs from the modelled shape")
    if norm(fn_body(src, "chacha20_round", "crypto_core.rs")) != "*x = x.wrapping_add(*y); *z = (*z ^ *x).rotate_left(rot);":
        raise SystemExit("vgen(kernels): chacha20_round differs from the modelled shape")
    qb = [norm(s) for s in fn_body(src, "chacha20_quarterround", "crypto_core.rs").split(";") if s.strip()]
    idx = {"a": 0, "b": 1, "c": 2, "d": 3}
    qr = []
    for s in qb:
        m = re.fullmatch(r"chacha20_round\(([abcd]), ([abcd]), ([abcd]), (\d+)\)", s)
        if not m: raise SystemExit("vgen(kernels): unsupported statement in chacha20_quarterround: " + s)
        qr.append((idx[m.group(1)], idx[m.group(2)], idx[m.group(3)], int(m.group(4))))
    # hsalsa20
    body = fn_body(src, "crypto_core_hsalsa20", "crypto_core.rs")
    lay, consts = parse_init(body, "crypto_core_hsalsa20")
    loop, m, end = block_after(body, r"for _ in \(0\.\.(\d+)\)\.step_by\((\d+)\) \{", "crypto_core_hsalsa20")
    iters = len(range(0, int(m.group(1)), int(m.group(2))))
    steps = []
    for s in [norm(x) for x in loop.split(";") if x.strip()]:
        mm = re.fullmatch(r"x(\d+) \^= salsa20_rotl32\(x(\d+), x(\d+), (\d+)\)", s)
        if not mm: raise SystemExit("vgen(kernels): unsupported statement in the hsalsa20 loop: " + s)
        steps.append(tuple(int(mm.group(k)) for k in (1, 2, 3, 4)))
    outs = parse_out(body[end:], "crypto_core_hsalsa20")
    out.append("Definition core_constants : list Z := [%s]." % "; ".join(str(c) for c in consts))
    out.append("(* (kind 0 constant / 1 key word / 2 input word, index) of x0 .. x15 *)")
    out.append("Definition hsalsa20_layout : list (nat * nat) := %s." % layout_coq(lay))
    out.append("Definition hsalsa20_iters : nat := %d." % iters)
    out.append("(* xA ^= rotl32(xB + xC, R) *)")
    out.append("Definition hsalsa20_steps : list (nat * nat * nat * Z) :=\n  [" + "; ".join("(%d%%nat, %d%%nat, %d%%nat, %d)" % s for s in steps) + "].")
    out.append("Definition hsalsa20_out : list nat := %s." % nl(outs))
    # hchacha20
    body = fn_body(src, "crypto_core_hchacha20", "crypto_core.rs")
    lay2, consts2 = parse_init(body, "crypto_core_hchacha20")
    if consts2 != consts: raise SystemExit("vgen(kernels): hchacha20 and hsalsa20 use different constants")
    loop, m, end = block_after(body, r"for _ in 0\.\.(\d+) \{", "crypto_core_hchacha20")
    iters2 = int(m.group(1))
    qrs = []
    for s in [norm(x) for x in loop.split(";") if x.strip()]:
        mm = re.fullmatch(r"chacha20_quarterround\(&mut x(\d+), &mut x(\d+), &mut x(\d+), &mut x(\d+)\)", s)
        if not mm: raise SystemExit("vgen(kernels): unsupported statement in the hchacha20 loop: " + s)
        qrs.append(tuple(int(mm.group(k)) for k in (1, 2, 3, 4)))
    outs2 = parse_out(body[end:], "crypto_core_hchacha20")
    out.append("Definition hchacha20_layout : list (nat * nat) := %s." % layout_coq(lay2))
    out.append("Definition hchacha20_iters : nat := %d." % iters2)
    out.append("(* chacha20_quarterround as calls chacha20_round(p, q, r, R) over positions 0..3 of (a, b, c, d): p += q; r = rotl32(r ^ p, R) *)")
    out.append("Definition chacha_quarterround : list (nat * nat * nat * Z) := [" + "; ".join("(%d%%nat, %d%%nat, %d%%nat, %d)" % q for q in qr) + "].")
    out.append("Definition hchacha20_calls : list (nat * nat * nat * nat) := [" + "; ".join("(%d%%nat, %d%%nat, %d%%nat, %d%%nat)" % q for q in qrs) + "].")
    out.append("Definition hchacha20_out : list nat := %s." % nl(outs2))
    return out

def gen_siphash(repo):
    src = strip_comments(open(os.path.join(repo, "src/siphash24.rs")).read()).split("#[cfg(test)]")[0]
    out = []
    if norm(fn_body(src, "rotl64", "siphash24.rs")) != "(x << b) | (x >> (64 - b))":
        raise SystemExit("vgen(kernels): rotl64 differs from the modelled shape")
    body = fn_body(src, "siphash24", "siphash24.rs")
    rb, m, end = block_after(body, r"let round = \|v0: &mut u64, v1: &mut u64, v2: &mut u64, v3: &mut u64\| \{", "siphash24 round closure")
    ops = []
    for s in [norm(x) for x in rb.split(";") if x.strip()]:
        m1 = re.fullmatch(r"\*v(\d) = v(\d)\.wrapping_add\(\*v(\d)\)", s)
        m2 = re.fullmatch(r"\*v(\d) = rotl64\(\*v(\d), (\d+)\)", s)
        m3 = re.fullmatch(r"\*v(\d) \^= \*v(\d)", s)
        if m1 and m1.group(1) == m1.group(2): ops.append("SAdd %s%%nat %s%%nat" % (m1.group(1), m1.group(3)))
        elif m2 and m2.group(1) == m2.group(2): ops.append("SRot %s%%nat %s" % (m2.group(1), m2.group(3)))
        elif m3: ops.append("SXor %s%%nat %s%%nat" % (m3.group(1), m3.group(2)))
        else: raise SystemExit("vgen(kernels): unsupported statement in the SipHash round: " + s)
    b = norm(body[:body.index("let round =")])
    mi = re.fullmatch(r"let mut v0 = (0x[0-9a-f]+)u64; let mut v1 = (0x[0-9a-f]+)u64; let mut v2 = (0x[0-9a-f]+)u64; let mut v3 = (0x[0-9a-f]+)u64; "
                      r"let k0 = load_u64_le\(&key\[\.\.8\]\); let k1 = load_u64_le\(&key\[8\.\.\]\); v3 \^= k1; v2 \^= k0; v1 \^= k1; v0 \^= k0;", b)
    if not mi: raise SystemExit("vgen(kernels): siphash24 initialisation differs from the modelled shape: " + b)
    R = r"round\(&mut v0, &mut v1, &mut v2, &mut v3\); "
    rest = norm(body[end:]).lstrip("; ").strip()
    mt = re.fullmatch(r"for chunk in input\.chunks_exact\(8\) \{ let m = load_u64_le\(chunk\); v3 \^= m; ((?:" + R + r")+)v0 \^= m; \} "
                      r"let mut b = \(input\.len\(\) as u64\) << 56; let remainder = input\.chunks_exact\(8\)\.remainder\(\); "
                      r"for i in \(0\.\.remainder\.len\(\)\)\.rev\(\) \{ b \|= \(remainder\[i\] as u64\) << \(i \* 8\); \} "
                      r"v3 \^= b; ((?:" + R + r")+)v0 \^= b; v2 \^= (0x[0-9a-f]+); ((?:" + R + r")+)b = v0 \^ v1 \^ v2 \^ v3; output\.copy_from_slice\(&b\.to_le_bytes\(\)\);", rest)
    if not mt: raise SystemExit("vgen(kernels): siphash24 body differs from the modelled shape: " + rest[:300])
    cnt = lambda s: s.count("round(")
    if cnt(mt.group(1)) != cnt(mt.group(2)): raise SystemExit("vgen(kernels): siphash24 compresses the last block with a different round count")
    out.append("Definition sip_init : list Z := [%s]." % "; ".join(str(int(mi.group(k), 16)) for k in (1, 2, 3, 4)))
    out.append("Definition sip_round_ops : list sip_op :=\n  [" + "; ".join(ops) + "].")
    out.append("Definition sip_c_rounds : nat := %d." % cnt(mt.group(1)))
    out.append("Definition sip_d_rounds : nat := %d." % cnt(mt.group(4)))
    out.append("Definition sip_final_xor : Z := %d." % int(mt.group(3), 16))
    return out

def gen_argon2(repo):
    """the permutation of src/argon2.rs: the g closure (mix statements), the eight g calls of
    blake2_round_nomsg, the index expressions of the two loops of fill_block, fblamka"""
    src = strip_comments(open(os.path.join(repo, "src/argon2.rs")).read()).split("#[cfg(test)]")[0]
    out = []
    if norm(fn_body(src, "fblamka", "argon2.rs")) != "let m = 0xFFFFFFFFu64; let xy = (x & m) * (y & m); x.wrapping_add(y).wrapping_add(2u64.wrapping_mul(xy))":
        raise SystemExit("vgen(kernels): fblamka differs from the modelled shape")
    body = fn_body(src, "blake2_round_nomsg", "argon2.rs")
    gb, m, end = block_after(body, r"let g = \|block: &mut Block, a, b, c, d\| \{", "blake2_round_nomsg g closure")
    pos = {"a": 0, "b": 1, "c": 2, "d": 3}
    ops = []
    for st in [norm(x) for x in gb.split(";") if x.strip()]:
        m1 = re.fullmatch(r"block\.v\[([abcd])\] = fblamka\(block\.v\[([abcd])\], block\.v\[([abcd])\]\)", st)
        m2 = re.fullmatch(r"block\.v\[([abcd])\] = rotr64\(block\.v\[([abcd])\] \^ block\.v\[([abcd])\], (\d+)\)", st)
        if m1 and m1.group(1) == m1.group(2): ops.append("(0%%nat, %d%%nat, %d%%nat, 0)" % (pos[m1.group(1)], pos[m1.group(3)]))
        elif m2 and m2.group(1) == m2.group(2): ops.append("(1%%nat, %d%%nat, %d%%nat, %s)" % (pos[m2.group(1)], pos[m2.group(3)], m2.group(4)))
        else: raise SystemExit("vgen(kernels): unsupported statement in argon2 g: " + st)
    calls = []
    for st in [norm(x) for x in body[end:].split(";") if x.strip()]:
        mm = re.fullmatch(r"g\(block, v(\d+), v(\d+), v(\d+), v(\d+)\)", st)
        if not mm: raise SystemExit("vgen(kernels): unsupported statement in blake2_round_nomsg: " + st)
        calls.append(tuple(int(mm.group(k)) for k in (1, 2, 3, 4)))
    fb = norm(fn_body(src, "fill_block", "argon2.rs"))
    mf = re.fullmatch(r"let mut block_r = Block::default\(\); let mut block_tmp = Block::default\(\); copy_block\(&mut block_r, ref_block\); xor_block\(&mut block_r, prev_block\); "
                      r"copy_block\(&mut block_tmp, &block_r\); if with_xor \{ xor_block\(&mut block_tmp, next_block\); \} "
                      r"for i in 0\.\.(\d+) \{ blake2_round_nomsg\( &mut block_r, ([^)]*)\); \} for i in 0\.\.(\d+) \{ blake2_round_nomsg\( &mut block_r, ([^)]*)\); \} "
                      r"copy_block\(next_block, &block_tmp\); xor_block\(next_block, &block_r\);", fb)
    if not mf: raise SystemExit("vgen(kernels): fill_block differs from the modelled shape")
    def table(count, exprs):
        rows = []
        es = [e.strip() for e in exprs.split(",") if e.strip()]
        if len(es) != 16: raise SystemExit("vgen(kernels): fill_block passes %d indices" % len(es))
        for i in range(int(count)):
            row = []
            for e in es:
                if not re.fullmatch(r"[0-9i*+ ]+", e): raise SystemExit("vgen(kernels): unsupported index expression " + e)
                row.append(int(eval(e, {"__builtins__": {}}, {"i": i})))
            rows.append(row)
        return rows
    rows, cols = table(mf.group(1), mf.group(2)), table(mf.group(3), mf.group(4))
    out.append("(* argon2.rs: g closure statements (kind 0 fblamka / 1 xor-rotate, target, operand, rotation) over positions 0..3 of (a, b, c, d) *)")
    out.append("Definition argon2_g_ops : list (nat * nat * nat * Z) := [" + "; ".join(ops) + "].")
    out.append("Definition argon2_g_calls : list (nat * nat * nat * nat) := [" + "; ".join("(%d%%nat, %d%%nat, %d%%nat, %d%%nat)" % c for c in calls) + "].")
    out.append("Definition argon2_row_indices : list (list nat) := [" + "; ".join(nl(r) for r in rows) + "].")
    out.append("Definition argon2_col_indices : list (list nat) := [" + "; ".join(nl(r) for r in cols) + "].")
    return out

def split_stmts(text):
    """split at ';' outside brackets / parentheses"""
    out, depth, cur = [], 0, ""
    for ch in text:
        if ch in "([{": depth += 1
        elif ch in ")]}": depth -= 1
        if ch == ";" and depth == 0:
            if cur.strip(): out.append(cur.strip())
            cur = ""
        else: cur += ch
    if cur.strip(): out.append(cur.strip())
    return out

def gen_blake2b(repo):
    """src/blake2b/blake2b_soft.rs compress: the g closure, the round closure, the round calls"""
    src = strip_comments(open(os.path.join(repo, "src/blake2b/blake2b_soft.rs")).read()).split("#[cfg(test)]")[0]
    body = norm(fn_body(src, "compress", "blake2b_soft.rs"))
    pro = ("let mut tm = [0u64; 16]; let mut tv = [0u64; 16]; for i in 0..16 { tm[i] = load_u64_le(&block[(i * 8)..(i * 8 + 8)]); } "
           "tv[..8].copy_from_slice(sh); tv[8] = IV[0]; tv[9] = IV[1]; tv[10] = IV[2]; tv[11] = IV[3]; "
           "tv[12] = st[0] ^ IV[4]; tv[13] = st[1] ^ IV[5]; tv[14] = sf[0] ^ IV[6]; tv[15] = sf[1] ^ IV[7]; ")
    epi = " for i in 0..8 { sh[i] = sh[i] ^ tv[i] ^ tv[i + 8]; }"
    if not body.startswith(pro) or not body.endswith(epi):
        raise SystemExit("vgen(kernels): blake2b compress prologue / epilogue differs from the modelled shape")
    mid = body[len(pro):len(body) - len(epi)]
    mg = re.match(r"let mut g = \|r: usize, i: usize, a: usize, b: usize, c: usize, d: usize\| \{ (.*?) \}; let mut round = \|r\| \{ (.*?) \}; (.*)", mid)
    if not mg: raise SystemExit("vgen(kernels): blake2b compress closures differ from the modelled shape")
    pos = {"a": 0, "b": 1, "c": 2, "d": 3}
    ops = []
    for st in split_stmts(mg.group(1)):
        m1 = re.fullmatch(r"tv\[([abcd])\] = tv\[([abcd])\]\.wrapping_add\(tv\[([abcd])\]\.wrapping_add\(tm\[\(SIGMA\[r\] as \[usize; 16\]\)\[2 \* i( \+ 1)?\]\]\)\)", st)
        m2 = re.fullmatch(r"tv\[([abcd])\] = rotr64\(tv\[([abcd])\] \^ tv\[([abcd])\], (\d+)\)", st)
        m3 = re.fullmatch(r"tv\[([abcd])\] = tv\[([abcd])\]\.wrapping_add\(tv\[([abcd])\]\)", st)
        if m1 and m1.group(1) == m1.group(2): ops.append("(0%%nat, %d%%nat, %d%%nat, %d)" % (pos[m1.group(1)], pos[m1.group(3)], 1 if m1.group(4) else 0))
        elif m2 and m2.group(1) == m2.group(2): ops.append("(1%%nat, %d%%nat, %d%%nat, %s)" % (pos[m2.group(1)], pos[m2.group(3)], m2.group(4)))
        elif m3 and m3.group(1) == m3.group(2): ops.append("(2%%nat, %d%%nat, %d%%nat, 0)" % (pos[m3.group(1)], pos[m3.group(3)]))
        else: raise SystemExit("vgen(kernels): unsupported statement in blake2b g: " + st)
    calls = []
    for st in [x.strip() for x in mg.group(2).split(";") if x.strip()]:
        mm = re.fullmatch(r"g\(r, (\d+), (\d+), (\d+), (\d+), (\d+)\)", st)
        if not mm: raise SystemExit("vgen(kernels): unsupported statement in blake2b round: " + st)
        calls.append(tuple(int(mm.group(k)) for k in range(1, 6)))
    rounds = []
    for st in [x.strip() for x in mg.group(3).split(";") if x.strip()]:
        mm = re.fullmatch(r"round\((\d+)\)", st)
        if not mm: raise SystemExit("vgen(kernels): unsupported statement after the blake2b closures: " + st)
        rounds.append(int(mm.group(1)))
    out = ["(* blake2b_soft.rs compress: g closure statements (kind 0 add with message word 2i / 2i+1, 1 xor-rotate, 2 add; target, operand, parameter) *)",
           "Definition blake2b_g_ops : list (nat * nat * nat * Z) := [" + "; ".join(ops) + "].",
           "Definition blake2b_round_calls : list (nat * nat * nat * nat * nat) := [" + "; ".join("(%d%%nat, %d%%nat, %d%%nat, %d%%nat, %d%%nat)" % c for c in calls) + "].",
           "Definition blake2b_rounds : list nat := %s." % nl(rounds)]
    return out

def generate(repo):
    out = ["(* GENERATED by bin/vgen (vkernel.py) from src/classic/crypto_core.rs and src/siphash24.rs -- do not edit *)",
           "From Coq Require Import ZArith List.\nFrom Dryoc Require Import Impl.KernelIR.\nImport ListNotations KernelIR.\nOpen Scope Z_scope.\n"]
    out += gen_cores(repo)
    out += gen_siphash(repo)
    out += gen_argon2(repo)
    out += gen_blake2b(repo)
    return "\n".join(out) + "\n"

if __name__ == "__main__":
    import sys
    sys.stdout.write(generate(sys.argv[1] if len(sys.argv) > 1 else "/repo"))
