"""Translator part for C07 / C08 / C01: the arithmetic of src/poly1305/poly1305_soft.rs --
the body of the block loop of `blocks`, the carry / reduce / pad / pack section of `finalize`
and the clamping in `new` -- as Coq let-chains over Z (Gen/Poly1305Gen.v).

Accepted subset (anything else stops the translator; vcheck reports a broken obligation):
  statements   let [mut] x = e;   x = e;   x += e;   x &= e;   x |= e;   self.h[i] = hi; (ignored store)
  expressions  identifiers, integer literals, ( ), unary !, binary  * + - << >> & ^ |  (Rust precedence),
               e.wrapping_add(e), e.wrapping_sub(e), mul(a, b), shr(d, k), lo(d), `as u64`, `as u128`
u64 / u128 typing: d0, d1, d2 and mul(..) are u128, everything else u64.  Checked operators (+, *, +=)
are emitted exact (Refine/Poly1305.v proves they cannot overflow); wrapping_*, `as u64`, `<<` on u64
and `!` wrap explicitly, as in Impl/Poly1305.v."""
import os, re

def strip_comments(s):
    s = re.sub(r"//[^\n]*", "", s)
    return re.sub(r"/\*.*?\*/", "", s, flags=re.S)

TOK = re.compile(r"\s*(0x[0-9a-fA-F_]+(?:u64|u128)?|\d[\d_]*(?:u64|u128)?|[A-Za-z_][A-Za-z_0-9]*|<<|>>|[()!*+\-&^|.,])")

def tokenize(s):
    out, i = [], 0
    s = s.strip()
    while i < len(s):
        m = TOK.match(s, i)
        if not m: raise SystemExit("vgen(poly1305): cannot tokenise %r" % s[i:i+30])
        out.append(m.group(1)); i = m.end()
    return out

U128 = {"d0", "d1", "d2"}

class P:
    """precedence climbing; returns (coq_text, type) with type in {'u64', 'u128', 'lit'}"""
    PREC = {"|": 1, "^": 2, "&": 3, "<<": 4, ">>": 4, "+": 5, "-": 5, "*": 6}
    def __init__(self, toks): self.t, self.i = toks, 0
    def peek(self): return self.t[self.i] if self.i < len(self.t) else None
    def next(self): x = self.peek(); self.i += 1; return x
    def expect(self, x):
        if self.next() != x: raise SystemExit("vgen(poly1305): expected %r in %r" % (x, " ".join(self.t)))
    def expr(self, minp=1):
        lhs = self.unary()
        while True:
            op = self.peek()
            if op == "as":
                self.next(); ty = self.next()
                if ty == "u128": lhs = (lhs[0], "u128")
                elif ty == "u64": lhs = ("(w64 %s)" % lhs[0], "u64")
                else: raise SystemExit("vgen(poly1305): cast to " + str(ty))
                continue
            if op in self.PREC and self.PREC[op] >= minp:
                self.next(); rhs = self.expr(self.PREC[op] + 1); lhs = self.binop(op, lhs, rhs); continue
            return lhs
    def binop(self, op, a, b):
        ty = "u128" if "u128" in (a[1], b[1]) else ("lit" if a[1] == b[1] == "lit" else "u64")
        if op == "*": return ("(%s * %s)" % (a[0], b[0]), ty)
        if op == "+": return ("(%s + %s)" % (a[0], b[0]), ty)
        if op == "-": return ("(%s - %s)" % (a[0], b[0]), ty)
        if op == "&": return ("(Z.land %s %s)" % (a[0], b[0]), ty)
        if op == "|": return ("(Z.lor %s %s)" % (a[0], b[0]), ty)
        if op == "^": return ("(Z.lxor %s %s)" % (a[0], b[0]), ty)
        if op == ">>": return ("(Z.shiftr %s %s)" % (a[0], b[0]), a[1] if a[1] != "lit" else "lit")
        if op == "<<":
            if a[1] == "u128": return ("(Z.shiftl %s %s)" % (a[0], b[0]), "u128")
            return ("(shl64 %s %s)" % (a[0], b[0]), a[1])          # u64 (or an untyped literal used as u64): truncating
        raise SystemExit("vgen(poly1305): operator " + op)
    def unary(self):
        t = self.next()
        if t == "!":
            a = self.unary(); e = ("(not64 %s)" % a[0], "u64")
        elif t == "(":
            e = self.expr(); self.expect(")")
        elif re.match(r"0x|\d", t):
            m = re.match(r"(0x[0-9a-fA-F_]+|\d[\d_]*)(u64|u128)?$", t)
            v = int(m.group(1).replace("_", ""), 0)
            e = (str(v), m.group(2) or "lit")
        elif t in ("mul", "shr", "lo"):
            self.expect("("); a = self.expr()
            if t == "lo": self.expect(")"); e = ("(w64 %s)" % a[0], "u64")
            else:
                self.expect(","); b = self.expr(); self.expect(")")
                e = ("(%s * %s)" % (a[0], b[0]), "u128") if t == "mul" else ("(w64 (Z.shiftr %s %s))" % (a[0], b[0]), "u64")
        elif re.match(r"[A-Za-z_]", t):
            e = (t, "u128" if t in U128 else "u64")
        else:
            raise SystemExit("vgen(poly1305): unexpected token %r in %r" % (t, " ".join(self.t)))
        # postfix methods
        while self.peek() == ".":
            self.next(); m = self.next(); self.expect("("); a = self.expr(); self.expect(")")
            if m == "wrapping_add": e = ("(wadd64 %s %s)" % (e[0], a[0]), "u64")
            elif m == "wrapping_sub": e = ("(wsub64 %s %s)" % (e[0], a[0]), "u64")
            else: raise SystemExit("vgen(poly1305): method " + m)
        return e

def expr(s):
    p = P(tokenize(s)); e = p.expr()
    if p.peek() is not None: raise SystemExit("vgen(poly1305): trailing tokens in %r" % s)
    return e[0]

def statements(text, where):
    """-> list of (var, coq_expr) for the accepted statement forms; stores into self.h are skipped"""
    out = []
    for st in [" ".join(x.split()) for x in text.split(";") if x.strip()]:
        if re.fullmatch(r"self\.h\[\d\] = h\d", st): continue
        m = re.fullmatch(r"(?:let (?:mut )?)?([a-z][a-z0-9]*) (=|\+=|&=|\|=) (.+)", st)
        if not m: raise SystemExit("vgen(poly1305): unsupported statement in %s: %s" % (where, st))
        v, op, e = m.group(1), m.group(2), m.group(3)
        if op == "=": out.append((v, expr(e)))
        elif op == "+=": out.append((v, "(%s + %s)" % (v, expr(e))))
        elif op == "&=": out.append((v, "(Z.land %s %s)" % (v, expr(e))))
        else: out.append((v, "(Z.lor %s %s)" % (v, expr(e))))
    return out

def chain(stmts, result):
    return "\n".join("  let %s := %s in" % s for s in stmts) + "\n  " + result

def between(src, a, b, where):
    i = src.find(a)
    j = src.find(b, i + len(a)) if i >= 0 else -1
    if i < 0 or j < 0: raise SystemExit("vgen(poly1305): landmark not found in %s: %r .. %r" % (where, a, b))
    return src[i + len(a):j]

def generate(repo):
    src = strip_comments(open(os.path.join(repo, "src/poly1305/poly1305_soft.rs")).read()).split("#[cfg(test)]")[0]
    norm = " ".join(src.split())
    # helpers
    for name, body in (("shr", "(in_ >> shift) as u64"), ("lo", "in_ as u64")):
        if not re.search(r"fn %s\([^)]*\) -> u64 \{ %s \}" % (name, re.escape(body)), norm):
            raise SystemExit("vgen(poly1305): helper %s differs from the modelled shape" % name)
    mm = re.search(r"fn mul\(([a-z_]+): u64, ([a-z_]+): u64\) -> u128 \{ (.*?) \}", norm)
    if not mm or " ".join(mm.group(3).split()) not in ("%s as u128 * %s as u128" % (mm.group(1), mm.group(2)), "(%s as u128) * (%s as u128)" % (mm.group(1), mm.group(2)),
                                                        "u128::from(%s) * u128::from(%s)" % (mm.group(1), mm.group(2))):
        raise SystemExit("vgen(poly1305): helper mul differs from the modelled shape")
    # blocks(): hibit, prelude, loop body
    mh = re.search(r"let hibit = if partial \{ (\S+) \} else \{ (.+?) \};", norm)
    if not mh or expr(mh.group(1)) != "0": raise SystemExit("vgen(poly1305): hibit differs from the modelled shape")
    hib = expr(mh.group(2))
    pre = between(norm, "let mut h2 = self.h[2];", "for m in input.chunks(BLOCK_SIZE) {", "blocks prelude")
    loop = between(norm, "for m in input.chunks(BLOCK_SIZE) {", "} self.h[0] = h0; self.h[1] = h1; self.h[2] = h2; }", "blocks loop")
    ml = re.match(r"\s*let t0 = load_u64_le\(&m\[0\.\.8\]\); let t1 = load_u64_le\(&m\[8\.\.\]\);(.*)", loop)
    if not ml: raise SystemExit("vgen(poly1305): block loads differ from the modelled shape")
    body = statements(pre, "blocks prelude") + statements(ml.group(1), "blocks loop")
    # finalize(): from the full carry to the packing
    fin = between(norm, "let mut h2 = self.h[2]; let mut c = h1 >> 44;", "output[0..8].copy_from_slice(&h0.to_le_bytes());", "finalize")
    fin = "let mut c = h1 >> 44;" + fin
    fin = fin.replace("let t0 = self.pad[0]; let t1 = self.pad[1];", "")
    fstm = statements(fin, "finalize")
    if not re.search(r"output\[0\.\.8\]\.copy_from_slice\(&h0\.to_le_bytes\(\)\); output\[8\.\.16\]\.copy_from_slice\(&h1\.to_le_bytes\(\)\);", norm):
        raise SystemExit("vgen(poly1305): output stores differ from the modelled shape")
    # new(): clamping
    mn = re.search(r"let \(t0, t1\) = \( load_u64_le\(&key\.as_array\(\)\[0\.\.8\]\), load_u64_le\(&key\.as_array\(\)\[8\.\.16\]\), \); "
                   r"state\.r\[0\] = (.+?); state\.r\[1\] = (.+?); state\.r\[2\] = (.+?); state\.h\.fill\(0\); "
                   r"state\.pad\[0\] = load_u64_le\(&key\.as_array\(\)\[16\.\.24\]\); state\.pad\[1\] = load_u64_le\(&key\.as_array\(\)\[24\.\.32\]\);", norm)
    if not mn: raise SystemExit("vgen(poly1305): Poly1305::new differs from the modelled shape")
    out = ["(* GENERATED by bin/vgen (vpoly.py) from src/poly1305/poly1305_soft.rs -- do not edit *)",
           "From Dryoc Require Import Impl.Poly1305.\nImport Poly1305Impl.\nOpen Scope Z_scope.\n"]
    out.append("Definition gen_hibit : Z := %s." % hib)
    out.append("Definition gen_block_step (hibit r0 r1 r2 h0 h1 h2 t0 t1 : Z) : Z * Z * Z :=\n" + chain(body, "(h0, h1, h2)") + ".")
    out.append("Definition gen_finish_words (h0 h1 h2 t0 t1 : Z) : Z * Z :=\n" + chain(fstm, "(h0, h1)") + ".")
    out.append("Definition gen_clamp (t0 t1 : Z) : Z * Z * Z := (%s, %s, %s)." % (expr(mn.group(1)), expr(mn.group(2)), expr(mn.group(3))))
    return "\n".join(out) + "\n"

if __name__ == "__main__":
    import sys
    sys.stdout.write(generate(sys.argv[1] if len(sys.argv) > 1 else "/repo"))
