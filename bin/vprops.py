"""Per-property configuration of bin/vcheck: theorems (with their statements in words),
builds the harness is run in, what the correspondence corpus is, what is assumed."""

PROPS = {}

PROPS["C12"] = {
    "theorems": [
        {"name": "C12_kdf", "status": "proved",
         "statement": "forall len in 16..64, id, 8-byte ctx, 32-byte key: derive_from_key = Ok (RFC 7693 BLAKE2b with digest length len, key, salt LE64(id)||0^8, personal ctx||0^8, empty message)"},
        {"name": "C12_rejects", "status": "proved", "statement": "len < 16 or len > 64 -> Err"},
        {"name": "C12_param_injective", "status": "proved",
         "statement": "the BLAKE2b parameter block determines (len, id, ctx); distinct subkeys then rest on BLAKE2b collision resistance (assumption)"},
        {"name": "C12_gen_tie", "status": "proved", "statement": "constants regenerated from src/constants.rs equal the model's"},
        {"name": "C12_kat", "status": "proved", "statement": "non-vacuity: a libsodium known answer, by vm_compute"},
    ],
    "gen_obligations": ["GenTie.blake2b_tables_tie", "GenTie.blake2b_params_tie", "GenTie.kdf_constants_tie"],
    "builds": ["stable"],
    "rule": "cases: every subkey length 0..=80 x ids {0,1,2^32,2^63,2^64-1,255,256,2^32-1,PRNG} x key/context sets (zero, PRNG, 0xff); "
            "each case is run on dryoc (catch_unwind), on the extracted Coq model (correspondence) and on libsodium (search); "
            "non-trivial = length in 16..=64 (reaches the hash), distinct by (op,args)",
    "modelled": ["BLAKE2b buffering and compression are modelled by hand (Impl/Blake2b.v) and proved equal to RFC 7693 (Refine/Blake2b.v); SIGMA/IV/constants/Params layout are regenerated from the source each run"],
    "assumptions": ["libsodium's crypto_kdf_derive_from_key is the reference for 'matches libsodium'",
                    "distinctness of subkeys beyond the parameter block: BLAKE2b collision resistance"],
    "partial": "",
}
