"""Per-property configuration of bin/vcheck: theorems (with their statements in words),
builds the harness is run in, what the correspondence corpus is, what is assumed."""

PROPS = {}

PROPS["C12"] = {
    "theorems": [
        {"name": "C12_kdf", "status": "proved",
         "statement": "forall len in 16..64, id, 8-byte ctx, 32-byte key: derive_from_key = Ok (RFC 7693 BLAKE2b with digest length len, key, salt LE64(id)||0^8, personal ctx||0^8, empty message)"},
        {"name": "C12_rejects", "status": "proved", "statement": "len < 16 or len > 64 -> Err"},
        {"name": "C12_param_injective", "status": "proved",
         "statement": "the BLAKE2b parameter block determines (len, id, ctx); distinct subkeys then rest on BLAKE2b collision resistance (assumption)"},
        {"name": "C12_gen_tie", "status": "proved", "statement": "constants regenerated from src/constants.rs equal the model's"},
        {"name": "C12_kat", "status": "proved", "statement": "non-vacuity: a libsodium known answer, by vm_compute"},
    ],
    "gen_obligations": ["GenTie.blake2b_tables_tie", "GenTie.blake2b_params_tie", "GenTie.kdf_constants_tie"],
    "builds": ["stable", "nightly", "simd"],
    "rule": "cases: every subkey length 0..=80 x ids {0,1,2^32,2^63,2^64-1,255,256,2^32-1,PRNG} x key/context sets (zero, PRNG, 0xff); "
            "each case is run on dryoc (catch_unwind), on the extracted Coq model (correspondence) and on libsodium (search); "
            "non-trivial = length in 16..=64 (reaches the hash), distinct by (op,args) Also under the nightly + simd_backend build.",
    "modelled": ["BLAKE2b buffering and compression are modelled by hand (Impl/Blake2b.v) and proved equal to RFC 7693 (Refine/Blake2b.v); SIGMA/IV/constants/Params layout are regenerated from the source each run"],
    "assumptions": ["libsodium's crypto_kdf_derive_from_key is the reference for 'matches libsodium'",
                    "distinctness of subkeys beyond the parameter block: BLAKE2b collision resistance"],
    "partial": "",
}

PROPS["C09"] = {
    "theorems": [
        {"name": "C09_accepts", "status": "proved", "statement": "forall in-range (opslimit, memlimit, outlen >= 16, salt >= 8 bytes; lengths < 2^32, outlen < 2^32 - 1), both algorithms: crypto_pwhash = Ok h with |h| = outlen (never Err / panic)"},
        {"name": "C09_rejects", "status": "proved", "statement": "forall parameters not in range (opslimit, memlimit as passed by the caller, before the u32 narrowing; outlen < 16; salt < 8 bytes): crypto_pwhash = Err"},
        {"name": "C09_longhash_is_Hprime", "status": "proved", "statement": "forall T in 5 .. 2^32 - 2, forall input: blake2b::longhash = RFC 9106 H' (the chunk-count arithmetic across the 64-byte and 32-byte-step boundaries), with BLAKE2b itself proved = RFC 7693"},
        {"name": "C09_prehash_is_H0", "status": "proved", "statement": "forall inputs (lengths < 2^32): the sequence of State::update calls of argon2_initial_hash hashes exactly RFC 9106's H0 input LE32(p)||LE32(T)||LE32(m)||LE32(t)||LE32(v)||LE32(y)||LE32(|P|)||P||LE32(|S|)||S||LE32(|K|)||K||LE32(|X|)||X, m being the requested (not the rounded) memory"},
        {"name": "C09_memory_rounding", "status": "proved", "statement": "forall 8 <= m < 2^32, one lane: memory_blocks = 4*floor(m/4), segment_length = floor(m/4) >= 2, 0 <= m - memory_blocks < 4"},
        {"name": "C09_index_is_rfc", "status": "proved", "statement": "forall positions the filling loop visits, forall 32-bit J1, segment length 2 .. 2^32/7: index_alpha in wrapping u32/u64 arithmetic = RFC 9106's reference-set mapping over unbounded integers (no wrap)"},
        {"name": "C09_index_safe", "status": "proved", "statement": "the referenced block is inside the lane; first pass: already written (same lane: before the previous block; other lane: earlier slice); later passes: never the block being written nor (same lane) the previous one, never the current segment of another lane"},
        {"name": "C09_fill_segment_indices_in_range", "status": "proved", "statement": "forall geometries argon2_hash can set up (any lane count), forall pass / lane / slice and ANY block contents: with every Vec index of the filling loop checked (previous, current, reference block; address table) no check fails -- argon2.rs cannot panic on an index"},
        {"name": "C09_geometry", "status": "proved", "statement": "forall accepted memory sizes (one lane): the instance argon2_hash builds has that geometry (4 segments of floor(m/4) >= 2 blocks, memory of exactly lane_length blocks)"},
        {"name": "C09_geometry_kept", "status": "proved", "statement": "fill_segment preserves the geometry, so it holds at every call of every pass"},
        {"name": "C09_indices_are_rfc", "status": "proved", "statement": "forall geometries, passes, slices, segment positions and ANY block contents: the k-th iteration of the filling loop writes column j = slice*seg + i + k of its lane, reads the previous block at column (j - 1) mod q of the same lane, a reference lane in range (its own in the first slice of the first pass) and the reference index = RFC 9106's mapping of J1 (Argon2Spec.ref_pos)"},
        {"name": "C09_loop_is_its_trace", "status": "proved", "statement": "the memory the loop leaves is exactly B[curr] <- G(B[prev], B[ref]) (xor B[curr] after the first pass) applied for the trace's indices in order"},
        {"name": "C09_compression_is_G", "status": "proved", "statement": "forall 128-word blocks: fill_block(prev, ref, next, with_xor) = RFC 9106 G(prev, ref) (3.5: R = X xor Y, P on the 8 rows then the 8 columns of 16-byte registers, Z xor R; 3.6: P from GB with a + b + 2*lo32(a)*lo32(b) and rotations 32/24/16/63), xor next after the first pass -- the in-place rounds over the sixteen index lists against the matrix form"},
        {"name": "C09_pwhash_is_rfc9106", "status": "proved", "statement": "forall accepted (outlen, password, salt, opslimit, memlimit) with lengths < 2^32 and memlimit below about 2.2 TiB (7 * segment <= 2^32), alg in {Argon2i13, Argon2id13}: crypto_pwhash = Ok (Argon2Spec.argon2 alg opslimit (memlimit / 1024) outlen pwd salt [] []), the one-lane RFC 9106 function written over unbounded integers: H0, B[0], B[1] through H', every B[j] = G(B[(j-1) mod q], B[z]) (xor the old block after pass 0) in column order over 4 slices and t passes, J1 from the previous block or from the address blocks G(0, G(0, r||l||sl||m'||t||y||counter)), the tag H'(B[q-1])"},
        {"name": "C09_addresses_are_rfc", "status": "proved", "statement": "forall segments: entry k of the table generate_addresses builds = word k mod 128 of the RFC's address block with counter k / 128 + 1 (regenerated every 128 positions, counter from 1)"},
        {"name": "C09_index_alpha_from_source", "status": "proved", "statement": "index_alpha as TRANSLATED from argon2.rs this run (reference-area size by pass / slice / lane / index, the two 64-bit multiplications, start position, modulo; u32 arithmetic wrapping as in the release build) = the model's index_alpha, for all arguments"},
        {"name": "C09_fblamka_from_source", "status": "proved", "statement": "fblamka as translated from argon2.rs this run = the model's, for all x, y"},
        {"name": "C09_permutation_from_source", "status": "proved", "statement": "the permutation inside fill_block as TRANSLATED from argon2.rs this run (g closure statements with fblamka / rotation amounts, the eight g calls, the 2 x 8 x 16 index expressions) = the model's fill_block, for all blocks"},
        {"name": "C09_pwhash_output_length", "status": "proved", "statement": "for every accepted parameter set crypto_pwhash's output has exactly the requested length (so the length comparison PwHash::verify makes first refuses nothing the byte comparison would accept)"},
        {"name": "C09_verify_iff", "status": "proved", "statement": "PwHash::verify = Ok iff the declared hash length is the stored hash's length and re-hashing the offered password with the stored salt and config gives exactly the stored bytes (so it accepts the password that produced the hash; rejecting every other password is Argon2 collision resistance)"},
        {"name": "C09_rfc9106_argon2id", "status": "proved", "statement": "TEST (vm_compute): the model reproduces RFC 9106 section 5.3 (t=3, m=32, p=4, secret, associated data)"},
        {"name": "C09_rfc9106_argon2i", "status": "proved", "statement": "TEST (vm_compute): the model reproduces RFC 9106 section 5.2"},
        {"name": "C09_example", "status": "proved", "statement": "non-vacuity of the hypotheses"},
    ],
    "gen_obligations": ["GenTie.blake2b_tables_tie", "GenTie.blake2b_params_tie", "Gen/Kernels.v (vkernel.py): argon2 g closure, g calls, fill_block index expressions, fblamka template"],
    "builds": ["stable"],
    "rule": "output lengths (every residue mod 32 around 64, 96, 128; 16..1100) x both algorithms at 8 KiB; password lengths 0..300 (thorough: all; quick: the BLAKE2b block edges of the pre-hash); pass counts 1..6 x memory sizes 8 KiB..1 MiB (thorough: every KiB 8..64, up to 4 MiB) including non-multiples of 4 KiB and of 1 KiB; salts of 8..100 bytes; out-of-range opslimit / memlimit (incl. values whose low 32 bits are in range) / outlen 0..15 / salt 0..7; PwHash::hash_with_salt / verify with near-miss passwords and resized stored hashes. "
            "search: libsodium wherever its interface applies (16-byte salt; t >= 3 for Argon2i). correspondence: the extracted model for the small-memory cases and everything libsodium cannot take. non-trivial: all cases (each reaches the hash or its validation) Records of both algorithms verify through the object API; memory sizes with partly used address blocks.",
    "modelled": ["src/argon2.rs is modelled by hand (Impl/Argon2.v: flat memory, fill_segment offsets, index_alpha with explicit u32/u64 wrap, generate_addresses, fill_block with the 16 index lists), validated on the two RFC 9106 vectors inside Coq and tied to the crate by correspondence",
                 "Vec indexing is totalised with nth in the executable model; Refine/Argon2Safe.v re-runs the filling loop with every index checked and proves the check never fails (C09_fill_segment_indices_in_range)",
                 "BLAKE2b: Impl/Blake2b.v proved = RFC 7693; tables regenerated from the source each run"],
    "assumptions": ["libsodium's crypto_pwhash is the reference for 'equals libsodium'",
                    "'rejects every other password' beyond verify_iff: Argon2 / BLAKE2b collision resistance",
                    "lanes of more than 2^32/7*4 blocks (> 2.29 TiB) are outside C09_index_is_rfc: there the u32 sum wraps (Remark index_alpha_wraps_beyond_bound), as in the reference C code"],
    "partial": "accept/reject, H', H0, rounding, index mapping proved; the block-filling recurrence as a whole is tied by RFC vectors + correspondence + libsodium, not proved equal to RFC 9106's B[i][j]",
}

PROPS["C18"] = {
    "theorems": [
        {"name": "C18_simd_compress", "status": "proved", "statement": "forall 8-word chaining value, counter, flags, block: the SIMD compression function as translated from blake2b_simd.rs this run (message loads, 12 rounds of swizzles, lane-wise G1/G2, permute/unpermute, IV, epilogue) = the software compression function"},
        {"name": "C18_simd_hash", "status": "proved", "statement": "forall length, input, key: one-shot BLAKE2b on the SIMD backend = on the software backend (which is proved = RFC 7693)"},
        {"name": "C18_simd_longhash", "status": "proved", "statement": "forall length, input: Argon2's variable-length hash on the SIMD backend = on the software backend"},
        {"name": "C18_simd_incremental", "status": "proved", "statement": "forall init parameters, sequence of updates, output length: init / update* / finalize on the SIMD backend = on the software backend"},
        {"name": "C18_buffering_same", "status": "proved", "statement": "the buffering / driver functions (increment_counter, init, update, finalize, flags, hash, longhash) of blake2b_simd.rs and blake2b_soft.rs, comments and layout removed and the state fields renamed, are identical strings (regenerated each run)"},
        {"name": "C18_example", "status": "proved", "statement": "non-vacuity: the translated SIMD code computes BLAKE2b-512(abc) of RFC 7693 appendix A, by vm_compute"},
    ],
    "gen_obligations": ["Gen/SimdKernel.v regenerated from src/blake2b/blake2b_simd.rs (compress body statement by statement; loadm, rotru64, g1, g2, permute, unpermute, init0, init_param matched against templates with their constants extracted) and from blake2b_soft.rs (buffering token strings)",
                        "GenTie.blake2b_tables_tie", "GenTie.blake2b_params_tie"],
    "builds": ["stable", "nightly", "simd"],
    "cross_build": True,
    "timeout": 6000,
    "rule": "ONE probe corpus -- the C07 (hashes, every length / key), C08 (every chunking), C12 (kdf), C09 (pwhash grid), C05 (X25519 / kx) and C13 (signatures) generators, then a container section (generic hash, kdf, box precalculation, key pairs, kx sessions, boxes, secret boxes, signatures, pwhash through stack / Vec and, on nightly, heap / locked / locked-read-only containers against the classic functions and libsodium) -- is run under each of {default, nightly, nightly + simd_backend}. "
            "Every transcript is compared with the extracted model (correspondence per build) and the transcripts are compared case by case with each other (cross_build). non-trivial: as in the source properties The resize script passes non-zero fill values and compares the containers straight after each resize.",
    "modelled": ["the SIMD compression function is TRANSLATED (not hand-modelled); std::simd semantics (lane-wise wrapping +, ^, shifts; simd_swizzle! index convention: lanes 0..3 of the first operand, 4..7 of the second) are given by Impl/Blake2bSimd.v and validated by the simd build's correspondence",
                 "the buffering code of blake2b_simd.rs is compared with blake2b_soft.rs as text after renaming the state fields; the software buffering is the one modelled (Impl/Blake2b.v)",
                 "containers, the nightly/default configuration switch, sha2's assembly backend and curve25519-dalek's backends are not in the model: cross-build / container comparison only"],
    "assumptions": ["std::simd portable SIMD semantics as stated", "libsodium as the reference in the container section"],
    "partial": "backend equality proved for BLAKE2b (the only hand-written backend switch); build configuration and containers decided by exhaustive comparison over the corpus, not proved",
}

_SYM_MODELLED = ["XSalsa20 / ChaCha20 / HChaCha20 are the external crates salsa20 / chacha20 (and hand-written cores): modelled by Coq specifications (Spec/Salsa20.v, Spec/ChaCha20.v) and tied by correspondence only",
                 "Poly1305: Impl/Poly1305.v is PROVED equal to RFC 8439 for every key / message / chunking (Refine/Poly1305.v); its arithmetic is re-translated from poly1305_soft.rs on every run and compared statement for statement (Refine/Poly1305Gen.v); the buffering of update / finalize is hand-modelled and tied by correspondence (every 2- and 3-way split)",
                 "subtle::ct_eq modelled as byte-string equality; zeroize not modelled"]

PROPS["C07"] = {  # gen: Gen/Kernels.v (vkernel.py)
    "theorems": [
        {"name": "C07_blake2b_compress", "status": "proved", "statement": "Rust compress (closures g/round, 12-row SIGMA) = RFC 7693 F for every h, t < 2^128, flag, 128-byte block"},
        {"name": "C07_generichash", "status": "proved", "statement": "crypto_generichash = RFC 7693 BLAKE2b for every digest length 16..64, key none or 16..64 bytes, every message"},
        {"name": "C07_generichash_rejects", "status": "proved", "statement": "digest / key lengths outside the range -> Err"},
        {"name": "C07_increment", "status": "proved", "statement": "LE(increment bs) = (LE bs + 1) mod 256^|bs| for every byte string"},
        {"name": "C07_onetimeauth_verify_iff", "status": "proved", "statement": "verify = Ok iff mac = onetimeauth key msg"},
        {"name": "C07_auth_verify_iff", "status": "proved", "statement": "verify = Ok iff mac = auth key msg"},
        {"name": "C07_auth_is_hmac", "status": "proved", "statement": "forall key, message: crypto_auth as crypto_auth.rs builds it (inner and outer SHA-512 contexts keyed with key xor 0x36.. / 0x5c.. padded to 128 bytes, inner digest fed to the outer context, first 32 bytes) = HMAC-SHA-512-256 (RFC 2104 over the SHA-512 specification)"},
        {"name": "C07_poly1305", "status": "proved", "statement": "forall 32-byte key, message: crypto_onetimeauth (model of poly1305_soft.rs: key clamping into 44/44/42-bit limbs, block loading, multiplication / carry, buffering, finalize with two carry rounds, conditional subtraction of p, pad addition, packing) = RFC 8439 Poly1305"},
        {"name": "C07_poly1305_block", "status": "proved", "statement": "one block step: limb value = ((acc + n) * r) mod p, limbs stay carried, every u128 sum < 2^92 (no overflow of any checked operation; every `as u64` exact)"},
        {"name": "C07_poly1305_block_is_code", "status": "proved", "statement": "the Rust block body with its masks, shifts, `as u64` and wrapping_add = that arithmetic step on the loaded limbs"},
        {"name": "C07_blake2b_compress_from_source", "status": "proved", "statement": "the closures of blake2b_soft.rs::compress TRANSLATED this run (g statements, rotation amounts, message-word selection, the 8 g calls per round, the 12 round calls; prologue / epilogue matched as templates) = the model's compress, which C07_blake2b_compress proves = RFC 7693 F"},
        {"name": "C07_poly1305_from_source", "status": "proved", "statement": "the arithmetic of poly1305_soft.rs TRANSLATED this run (block loop body of blocks, the carry / conditional subtraction / pad / pack section of finalize, the clamping in new, the high bit) = the model proved equal to RFC 8439, statement for statement"},
        {"name": "C07_hsalsa20", "status": "proved", "statement": "forall key, input: crypto_core_hsalsa20 as TRANSLATED from crypto_core.rs this run (32 xor-rotate-add statements per pass, 10 passes, word layout, output words) = HSalsa20 of the Salsa20 specification"},
        {"name": "C07_hchacha20", "status": "proved", "statement": "forall 32-byte key, 16-byte input: crypto_core_hchacha20 as translated (8 quarter-round calls per pass, chacha20_quarterround / chacha20_round bodies, 10 passes, layout, outputs) = HChaCha20"},
        {"name": "C07_siphash_round", "status": "proved", "statement": "forall v0..v3: the round closure of siphash24 as translated (14 statements) = the SipRound of the SipHash paper"},
        {"name": "C07_siphash_parameters", "status": "proved", "statement": "siphash24's initial constants, c = 2 compression rounds, d = 4 finalisation rounds and the 0xff constant as read from the source = SipHash-2-4's"},
        {"name": "C07_gen_tables", "status": "proved", "statement": "SIGMA / IV / size constants regenerated from blake2b_soft.rs equal the model's"},
        {"name": "C07_kat_blake2b", "status": "proved", "statement": "non-vacuity: RFC 7693 'abc' through the implementation model"},
    ],
    "gen_obligations": ["GenTie.blake2b_tables_tie", "GenTie.blake2b_params_tie"],
    "builds": ["stable", "simd"],
    "rule": "every input length 0..=1100 for onetimeauth / auth / sha512 / shorthash / generichash on dryoc vs libsodium (search); the extracted model sees every length 0..=260 and a stride above (correspondence); "
            "digest x key length grid incl. rejected pairs; adversarial Poly1305 operands (r=1,2,max; unreduced accumulator p-8..p+3, +2^128, tails; s=0, 2^128-1); verify accept + every single-bit MAC flip; "
            "cores on PRNG/extreme inputs; increment on 0xff-runs. non-trivial = reaches the primitive (valid lengths), distinct by (op,args) Also under the nightly + simd_backend build. Key lengths at the edges (none, empty, 1, 15/16/17, 64/65).",
    "modelled": _SYM_MODELLED + ["SHA-512 / HMAC: implementation is the external sha2 crate; Spec/Sha512.v is an executable FIPS 180-4 reference tied by correspondence",
                                  "SipHash, HSalsa20, HChaCha20: model = specification (the Rust kernels are compared by correspondence; see DESIGN 'Changes')"],
    "assumptions": ["libsodium as second reference", "Poly1305 limb arithmetic = RFC 8439 is checked by correspondence incl. carry corner operands (proof pending, see DESIGN 'Changes')"],
    "partial": "BLAKE2b, Poly1305 (hand models) and HSalsa20, HChaCha20, the SipHash round (translated kernels) proved = their specifications; the surrounding loop of siphash24 is matched as a text template; SHA-512 / HMAC (external crate): correspondence only",
}

PROPS["C08"] = {
    "theorems": [
        {"name": "C08_blake2b_update_chunks", "status": "proved", "statement": "forall compression function, state with |buf| <= 128, chunk list: fold update = update (concat)"},
        {"name": "C08_generichash", "status": "proved", "statement": "init/update*/final over any chunk list = single update of the concatenation"},
        {"name": "C08_poly1305_update_chunks", "status": "proved", "statement": "forall sequences of update calls: the Poly1305 state is the absorbed view of the concatenation (whole 16-byte blocks folded into h, remainder < 16 bytes buffered)"},
        {"name": "C08_onetimeauth_chunks", "status": "proved", "statement": "forall key, chunking: incremental onetimeauth = RFC 8439 Poly1305 of the concatenation"},
        {"name": "C08_auth_chunks", "status": "proved", "statement": "forall key, forall lists of update calls: crypto_auth_init / update.. / final = crypto_auth of the concatenation"},
        {"name": "C08_external_hasher", "status": "proved", "statement": "any hasher with update (update s a) b = update s (a++b) and update s [] = s: fold = one update (sha2-backed interfaces)"},
        {"name": "C08_example", "status": "proved", "statement": "non-vacuity example by vm_compute"},
    ],
    "builds": ["stable", "simd"],
    "rule": "every 2-way split of every length 0..=300 and every 3-way split of every length 0..=140 (thorough 600/260) on dryoc for onetimeauth, generichash (keyed/unkeyed), auth, sha512 (search, exhaustive over that family); "
            "object-API incremental interfaces; PRNG k-way partitions with empty pieces of 1-8 KiB messages; a 0.5% (thorough 2%) sample of the partitions through the extracted model (correspondence). non-trivial: all; distinct by (op,args) Also under the nightly + simd_backend build; one-shot against every chunking for 64-byte and odd digest lengths at block multiples; edge key lengths.",
    "modelled": _SYM_MODELLED,
    "assumptions": ["sha2::Sha512 update law (validated on every split by the search)", "Poly1305 buffering: correspondence (theorem pending)"],
    "partial": "BLAKE2b and Poly1305 proved; SHA-512 / HMAC incremental forms are folds over the external hasher (C08_external_hasher), the hasher itself by correspondence",
}

PROPS["C01"] = {
    "theorems": [
        {"name": "C01_forms_agree", "status": "proved", "statement": "easy = easy_inplace = mac ++ detached for every key, nonce, message length (buffers of the documented size)"},
        {"name": "C01_roundtrip", "status": "proved", "statement": "open_easy / open_easy_inplace / open_detached_inplace of the box return the message, every key / nonce / length"},
        {"name": "C01_secretbox_is_nacl", "status": "proved", "statement": "forall key, nonce, message: crypto_secretbox_easy = Poly1305_RFC8439(ks[0..32], c) || c with ks the XSalsa20 key stream and c = m xor ks[32..] (NaCl's definition; XSalsa20 as specification, Poly1305 proved for the implementation)"},
        {"name": "C01_box_is_secretbox", "status": "proved", "statement": "forall message, nonce, key pair: crypto_box_easy / easy_inplace = the secret-key form under HSalsa20(X25519(sk, pk), 0^16); open likewise"},
        {"name": "C01_box_roundtrip", "status": "proved", "statement": "forall messages: if the two parties' precomputed keys agree (X25519 commutes -- assumption) each opens the other's box"},
        {"name": "C01_seal_layout", "status": "proved", "statement": "a sealed box is epk || box under nonce BLAKE2b-24(epk || recipient pk) with epk = base * esk, for every ephemeral key the generator may draw"},
        {"name": "C01_seal_roundtrip", "status": "proved", "statement": "the recipient opens what was sealed (the nonce derivation cannot fail; same DH assumption)"},
        {"name": "C01_example", "status": "proved", "statement": "non-vacuity by vm_compute"},
    ],
    "builds": ["stable", "nightly"],
    "rule": "keys/nonces {0, 0xff, PRNG} x every message length 0..=320 (+1 KiB, 4 KiB; thorough 64 KiB) through every classic secretbox form, box / afternm / sealed forms for seeded key pairs, object API (Vec and stack containers): "
            "bytes = libsodium's, opens under both libraries both ways (search); secretbox forms through the extracted model with sentinel-filled caller buffers (correspondence). non-trivial: all; distinct by (op,args)",
    "modelled": _SYM_MODELLED + ["public-key boxes: X25519 is the external curve25519-dalek; box = secretbox(beforenm) is checked on the implementation against libsodium (search); not yet in the model"],
    "assumptions": ["libsodium as reference for byte compatibility", "DH commutes (Curve25519 group law) for box round trips"],
    "partial": "secret-key, public-key and sealed forms proved over the model (public-key round trips under the assumption that X25519 commutes); the object API forms by search against libsodium",
}

PROPS["C02"] = {
    "theorems": [
        {"name": "C02_accept_iff_mac", "status": "proved", "statement": "open accepts iff mac = Poly1305(one-time key, ciphertext)"},
        {"name": "C02_verdict_ignores_the_buffer", "status": "proved", "statement": "forall buffers at least as long as the ciphertext, any contents: crypto_secretbox_open_detached accepts iff the authenticator is Poly1305 of exactly the ciphertext received under the one-time key -- the bytes of a longer message buffer play no part (fix 9abff88)"},
        {"name": "C02_tag_tamper_rejected", "status": "proved", "statement": "any authenticator other than the computed one is rejected"},
        {"name": "C02_short_box_rejected", "status": "proved", "statement": "boxes shorter than 16 bytes -> Err (both forms)"},
        {"name": "C02_short_stream_ciphertext_rejected", "status": "proved", "statement": "stream ciphertexts shorter than 17 bytes -> Err, nothing changed"},
        {"name": "C02_untampered_accepted", "status": "proved", "statement": "the untampered box is accepted"},
    ],
    "builds": ["stable"],
    "rule": "for every message length 0..=40 (thorough 200): every single-bit flip of tag, body, nonce, key, sender public key, recipient secret key, sealed ephemeral key; every truncation; extensions by 1..17 and 64 bytes; "
            "stream pull: every bit of ciphertext / AD / key / state nonce / header, truncations, extensions, AD extension; all classic forms + object API (search, exhaustive over that family); a sample through the model (correspondence of verdict and buffer). non-trivial: all For every first-message tag byte two further untampered messages are pulled (classic and object interface).",
    "modelled": _SYM_MODELLED,
    "assumptions": ["rejection of body / nonce / key / header tampering = no Poly1305 collision under the changed one-time key (probability <= 8*ceil(L/16)/2^106 per forgery) and Salsa20/ChaCha20 as PRFs: cryptographic assumption, not provable"],
    "partial": "structural half proved (accept iff MAC, tag tamper, lengths); body/nonce/key tamper rests on the MAC assumption and is enumerated on the implementation",
}

PROPS["C17"] = {
    "theorems": [
        {"name": "C17_open_detached_inplace", "status": "proved", "statement": "not Ok -> (Err, buffer unchanged)"},
        {"name": "C17_open_detached", "status": "proved", "statement": "Err -> buffer unchanged (buffer shorter than the ciphertext) or = zeros |c| ++ untouched tail"},
        {"name": "C17_open_easy", "status": "proved", "statement": "Err -> buffer unchanged or zero prefix ++ untouched tail"},
        {"name": "C17_open_easy_inplace", "status": "proved", "statement": "Err -> buffer unchanged"},
        {"name": "C17_stream_pull", "status": "proved", "statement": "not Ok -> (Err, state, buffer, tag variable) all unchanged"},
        {"name": "C17_box_open_easy", "status": "proved", "statement": "forall inputs: a failed crypto_box_open_easy leaves the caller's buffer unchanged or zeroed where the ciphertext was copied"},
        {"name": "C17_seal_open", "status": "proved", "statement": "the same for crypto_box_seal_open"},
        {"name": "C17_example", "status": "proved", "statement": "non-vacuity by vm_compute"},
    ],
    "builds": ["stable"],
    "rule": "the C02 tamper family; after every Err the caller's message buffer (pre-filled with 0xa5) must be unchanged or zero, the stream tag variable (0xee) unchanged, the stream state unchanged (search); sample through the model comparing the buffer bytes (correspondence) Opens into a window at offsets 0..9 of a larger buffer.",
    "modelled": _SYM_MODELLED,
    "assumptions": [],
    "partial": "",
}

PROPS["C03"] = {
    "theorems": [
        {"name": "C03_lockstep", "status": "proved", "statement": "from any 32/12-byte state, any message / AD / tag byte: pull(push output) = Ok, message and tag recovered, pull state = push state (incl. rekey on tag or counter wrap)"},
        {"name": "C03_failed_pull_preserves_state", "status": "proved", "statement": "a pull that does not succeed returns (Err, same state, same buffer, same tag)"},
        {"name": "C03_counter_increment", "status": "proved", "statement": "counter bytes = little-endian integer + 1 mod 256^n"},
        {"name": "C03_wrap", "status": "proved", "statement": "non-vacuity: 0xffffffff wraps to 0"},
    ],
    "builds": ["stable"],
    "rule": "700 (thorough 6000) PRNG histories of depth <= 8 (24) over {push(len, adlen, tag byte), explicit rekey, deliver-in-order, deliver-wrong(replay|skip|foreign|wrong-AD|bit-flip|truncated|longer-AD)}, started at counter 1 / mid / 0xfffffffe / 0xffffffff through hook State::verif_from_parts; "
            "dryoc vs libsodium: ciphertexts, recovered messages/tags, both states after every step (search); the same histories through the extracted model (correspondence); object API push/pull vs classic Wrong deliveries include the genuine next ciphertext with a message buffer that is too short.",
    "modelled": _SYM_MODELLED,
    "assumptions": ["out-of-position ciphertexts are rejected because the state (nonce) differs: rests on the MAC assumption of C02"],
    "partial": "lockstep and failure-preserves-state proved; out-of-position rejection enumerated",
}

PROPS["C04"] = {
    "theorems": [
        {"name": "C04_open_easy_total", "status": "proved", "statement": "forall byte strings and forall message buffers of ANY length (shorter than the ciphertext included, fix 90966b5): crypto_secretbox_open_easy is Ok or Err, never a panic"},
        {"name": "C04_open_easy_inplace_total", "status": "proved", "statement": "open_easy_inplace never panics"},
        {"name": "C04_stream_pull_total", "status": "proved", "statement": "classic pull never panics"},
        {"name": "C04_stream_obj_pull_total", "status": "proved", "statement": "object pull never panics"},
        {"name": "C04_box_open_total", "status": "proved", "statement": "forall bytes: crypto_box_open_easy never panics"},
        {"name": "C04_box_open_inplace_total", "status": "proved", "statement": "forall bytes: crypto_box_open_easy_inplace never panics"},
        {"name": "C04_seal_open_total", "status": "proved", "statement": "forall bytes and any output buffer: crypto_box_seal_open never panics"},
        {"name": "C04_pwhash_record_length_mismatch", "status": "proved", "statement": "forall stored hash, declared length (any integer), costs, password: PwHash::verify of a record whose declared hash length differs from the stored hash's length is Err (nothing is sized from the declared number; fix 91e2e19)"},
        {"name": "C04_example", "status": "proved", "statement": "non-vacuity by vm_compute"},
    ],
    "builds": ["stable"],
    "rule": "every length 0..=160 (thorough 400) x {zeros, 0xff, PRNG, valid-prefix, valid-with-mutation} through secretbox / box / sealed opens (classic + from_bytes), stream pull (classic + object), crypto_sign_open, SignedMessage::from_bytes+verify, verify_detached / final_verify with 64-byte and public keys of every class, "
            "object-API MAC verification with a Vec authenticator of every length 0..=80; authentic stream messages with every tag byte 0..=255 pushed by libsodium; grammar-built (40 one-defect variants) and soup password-hash strings through str_verify / needs_rehash / from_string / verify; "
            "a counting global allocator records the largest single request (bound 8 KiB + 8*len). Debug profile with overflow checks. non-trivial = length >= the fixed overhead Stored password-hash records (serde): declared hash lengths up to 2^64-1 and every configuration field set to values no written record holds -- decode and verify answer, with the allocation meter.",
    "modelled": _SYM_MODELLED + ["signature, MAC-object and password-string entry points are not in the model: search only"],
    "assumptions": ["panics inside external crates are visible only to the harness", "password-hash strings with bounded cost parameters (m <= 64 KiB, t <= 3) as the property states"],
    "partial": "box / stream entry points proved over the model; the rest by exhaustive-length search on the implementation",
}

PROPS["C05"] = {
    "theorems": [
        {"name": "C05_wrapper_is_rfc", "status": "proved", "statement": "scalarmult n p = RFC 7748 X25519(clamp n, mask p) for every 32-byte scalar and every point encoding (model level: dalek's mul_clamped is modelled by the ladder)"},
        {"name": "C05_clamp_low", "status": "proved", "statement": "b land 248 = 8*(b/8) for every byte (exhaustive by computation, lifted)"},
        {"name": "C05_clamp_high", "status": "proved", "statement": "(b land 127) lor 64 = 64 + b mod 64 for every byte"},
        {"name": "C05_kx_mirror", "status": "partial", "statement": "IF the two DH computations agree (group law: hypothesis) THEN client (rx,tx) = server (tx,rx), and both sides fail together"},
        {"name": "C05_kx_refuses_zero", "status": "proved", "statement": "all-zero shared secret -> Err on both sides"},
        {"name": "C05_kx_layout", "status": "proved", "statement": "client rx||tx = BLAKE2b-512(shared || client_pk || server_pk) split in halves"},
        {"name": "C05_zero_point", "status": "proved", "statement": "non-vacuity: u = 0 gives the all-zero secret"},
    ],
    "builds": ["stable", "nightly"],
    "rule": "8 (thorough 24) scalars incl. 0, 0xff.., RFC vectors x {complete low-order / non-canonical table incl. libsodium blocklist, u=0..15, p-1, p, p+1, p+2, 2p-2..2p, 2^255-1, 2^256-1, RFC points, all with and without bit 255, 120 (thorough 600) PRNG encodings}: dryoc = libsodium byte for byte (search); "
            "RFC 7748 iterated vector 1 / 1000 (thorough 10^6) iterations; DH commutation, beforenm, kx client/server vs libsodium for PRNG pairs, kx with every zero-secret peer key; ~50 cases through the extracted Coq ladder (correspondence). non-trivial: all Sessions for key pairs assembled from slices (public half as given) against libsodium.",
    "modelled": ["curve25519-dalek (MontgomeryPoint::mul_clamped, basepoint table) modelled by the RFC 7748 ladder over Z mod 2^255-19 (Spec/X25519.v); tied by correspondence only",
                 "HSalsa20 (beforenm) and BLAKE2b (kx) as in C07"],
    "assumptions": ["DH commutes / the ladder computes scalar multiplication on curve and twist: Montgomery group law, not formalised (no elliptic-curve library installed)"],
    "partial": "wrapper logic, clamping, kx layout/mirror/zero refusal proved; curve arithmetic differential against an executable Coq spec and libsodium",
}

PROPS["C10"] = {
    "theorems": [
        {"name": "C10_base64_roundtrip", "status": "proved", "statement": "decode (encode bs) = Some bs for every byte string (no-pad standard alphabet, strict decoder)"},
        {"name": "C10_decimal_roundtrip", "status": "proved", "statement": "parse_u32 (print_u32 n) = Some n for every n < 2^32"},
        {"name": "C10_parse_encode", "status": "proved", "statement": "parse (to_string alg t m salt hash) returns exactly (alg, t, m, salt, hash, p=1, v=19): both algorithms, any non-empty salt/hash, t, m < 2^32"},
        {"name": "C10_reencode", "status": "proved", "statement": "from_string then to_string of an encoder-produced string returns the same string"},
        {"name": "C10_needs_rehash", "status": "proved", "statement": "needs_rehash = not (opslimit as u32 = t and (memlimit/1024) as u32 = m)"},
        {"name": "C10_str_is_self_describing", "status": "proved", "statement": "forall password, 16 salt bytes, in-range costs: crypto_pwhash_str returns the string that encodes exactly Argon2id, t, m, the salt and the 32-byte Argon2id output computed (and parse recovers them)"},
        {"name": "C10_str_hash_is_rfc9106", "status": "proved", "statement": "forall passwords and in-range costs (memory below about 2.2 TiB): crypto_pwhash_str = the $argon2id$v=19$m=..,t=..,p=1$salt$hash string whose hash field is RFC 9106's Argon2id tag (Argon2Spec.argon2) for exactly those parameters and that salt"},
        {"name": "C10_str_verify_own", "status": "proved", "statement": "the string made by crypto_pwhash_str verifies with the password it was made from"},
        {"name": "C10_str_verify_iff", "status": "proved", "statement": "crypto_pwhash_str_verify = Ok iff the 32-byte Argon2 output for the parsed algorithm / costs / salt equals the stored hash"},
        {"name": "C10_field_like_salt", "status": "proved", "statement": "non-vacuity + the finding: a salt whose base64 text begins 'argon2id' parses correctly (by vm_compute)"},
    ],
    "builds": ["stable"],
    "rule": "parser / encoder correspondence (from_string fields via serde, to_string, needs_rehash) on grammar-built strings: valid (both algorithms, salt 8..32, hash 16..64 bytes) and 40 one-defect variants (dropped / duplicated / reordered fields, numeric overflow, '+', leading zeros, bad base64, padding, p!=1, v!=19, unknown algorithm, field-like salts), fragments, PRNG soup; "
            "dryoc strings verified by libsodium (right / wrong password) and libsodium strings of both algorithms verified, parsed and re-encoded by dryoc; needs_rehash against libsodium on matching / differing costs; object API with salt 8..64 and hash 16..128 bytes (search). non-trivial = string longer than 40 bytes or valid Interop at memory sizes 516 / 1000 / 1540 / 2047 KiB; PwHash::hash under a parsed Argon2i configuration.",
    "modelled": ["base64 0.21 GeneralPurpose(STANDARD, NO_PAD) and u32::from_str, str::split/starts_with/strip_prefix/contains are modelled from their documentation (Impl/PwhashStr.v) and tied by correspondence incl. malformed inputs",
                 "Argon2 itself is C09; str / str_verify are exercised against libsodium only"],
    "assumptions": ["libsodium as the reference verifier"],
    "partial": "string layer and its composition with the Argon2 model proved; that the Argon2 model equals RFC 9106 is C09 (partial there)",
}

PROPS["C16"] = {
    "theorems": [
        {"name": "C16_visit_seq", "status": "proved", "statement": "visit_seq N elems = Ok elems iff |elems| = N, else Err (every N, every sequence)"},
        {"name": "C16_heap_visit_seq", "status": "proved", "statement": "forall size hints, element sequences: the HeapBytes / LockedBytes sequence deserialiser returns exactly the elements (no invented byte, no index panic)"},
        {"name": "C16_heap_visit_bytes", "status": "proved", "statement": "the byte-string path of the heap deserialisers returns the bytes"},
        {"name": "C16_visit_bytes", "status": "proved", "statement": "visit_bytes N v = Ok v iff |v| = N, else Err"},
        {"name": "C16_secretbox_bytes_roundtrip", "status": "proved", "statement": "from_bytes (to_bytes (tag, data)) = Ok (tag, data), any payload"},
        {"name": "C16_box_bytes_roundtrip", "status": "proved", "statement": "same for the public-key box"},
        {"name": "C16_sealed_bytes_roundtrip", "status": "proved", "statement": "same for the sealed box (epk || tag || data)"},
        {"name": "C16_signed_bytes_roundtrip", "status": "proved", "statement": "same for signed messages (sig || msg)"},
        {"name": "C16_short_bytes_rejected", "status": "proved", "statement": "inputs shorter than the fixed overhead are rejected by every from_bytes"},
        {"name": "C16_example", "status": "proved", "statement": "non-vacuity by vm_compute"},
    ],
    "builds": ["stable", "nightly"],
    "rule": "for N in {8,16,24,32,64}: every element count 0..=2N as a JSON array (serde_json -> visit_seq) and as a bincode byte string (-> visit_bytes) and through TryFrom; objects DryocSecretBox, DryocBox (plain and sealed), SignedMessage with every payload length 0..=80 (thorough 300): "
            "to_bytes = libsodium layout, from_bytes / from_parts / JSON / bincode round trips reproduce an equal object that still decrypts / verifies; KeyPair, SigningKeyPair, kx Session, Kdf, PwHash round trips; fixed-length fields inside objects with one element dropped / added (JSON) or a 15 / 17-byte string (bincode); "
            "visitor and from_bytes results compared with the extracted model (correspondence). Stack and Vec containers on the default build; on the nightly build additionally HeapBytes and LockedBytes (element counts 0..=17, 64, 4097; thorough 0..=70, 127..129, 4095..4097; JSON sequences, bincode byte strings, own round trips) and Locked<HeapByteArray<N>> for N in {24, 32} with every element count 0..=2N. non-trivial: all Key pairs rebuilt from their own key bytes (from_secret_key, from_slices; signing and box pairs; stack and Vec).",
    "modelled": ["serde_json (arrays -> visit_seq, element by element) and bincode (length-prefixed bytes -> visit_bytes) are external: assumption validated by correspondence with the real crates",
                 "derived Serialize/Deserialize impls of the object types are exercised, not modelled"],
    "assumptions": [],
    "partial": "serde_json / bincode (which visitor method they call, which size hint they give) are assumptions validated by correspondence; objects held in heap / locked containers are covered through their byte containers, not object by object",
}

PROPS["C11"] = {
    "theorems": [
        {"name": "C11_outputs_are_functions_of_own_interval", "status": "proved", "statement": "for every call sequence each result is output(kind, its own interval of the stream)"},
        {"name": "C11_intervals_disjoint", "status": "proved", "statement": "the intervals consumed by any call sequence are pairwise disjoint"},
        {"name": "C11_cursor_advances", "status": "proved", "statement": "the cursor advances by the sum of the documented draw sizes"},
        {"name": "C11_identity_flow", "status": "proved", "statement": "keys / nonces / headers / salts / seeds are exactly their draw"},
        {"name": "C11_keypair_secret_is_draw", "status": "proved", "statement": "the secret half of a key pair is its draw"},
        {"name": "C11_example", "status": "proved", "statement": "non-vacuity by vm_compute"},
    ],
    "builds": ["stable", "nightly"],
    "rule": "30 randomised entry points (classic keygen/keypair/header/seal/pwhash_str, object gen/seal/init_push/PwHash::hash with two salt lengths, byte-array gen, randombytes_buf / copy_randombytes incl. lengths > 256): "
            "(a) with hook rng::verif_set_rng feeding a PRNG stream, 2 (thorough 6) shuffled call sequences: each call must draw its documented number of bytes (> 0), consecutively, and return the documented function of exactly those bytes (identity; X25519 base; libsodium's Ed25519 seed keypair) -- sequences also run through the extracted model (correspondence); "
            "(b) hook off, 384 (thorough 4096) calls per entry point: no repeat, no all-zero value, no constant byte position (false-alarm probability < 2^-100 for values >= 16 bytes) (search)",
    "modelled": ["the OS generator (rand_core OsRng) is the assumption; Ed25519 seed expansion is compared with libsodium, not modelled here"],
    "assumptions": ["the operating system's generator returns independent uniformly random bytes on every call"],
    "partial": "data flow proved; freshness of the source is statistical",
}

_ED_MODELLED = ["curve25519-dalek (Edwards decompression, point addition, scalar multiplication, Scalar reduction) modelled by the RFC 8032 formulas over Z mod 2^255-19 (Spec/Ed25519.v), decompression modelled as dalek behaves (y reduced mod p, sign of x=0 ignored); tied by correspondence only",
                "SHA-512 is the external sha2 crate (Spec/Sha512.v reference)"]

PROPS["C06"] = {
    "theorems": [
        {"name": "C06_strict_S", "status": "proved", "statement": "S >= L -> verify = Err for every message, commitment, key, both modes"},
        {"name": "C06_sign_S_reduced", "status": "proved", "statement": "the S half of every produced signature is < L"},
        {"name": "C06_small_order_R_rejected", "status": "proved", "statement": "a small-order commitment is rejected before the equation is evaluated"},
        {"name": "C06_small_order_key_rejected", "status": "proved", "statement": "a small-order public key is rejected"},
        {"name": "C06_combined_layout", "status": "proved", "statement": "crypto_sign = signature || message"},
        {"name": "C06_open_short", "status": "proved", "statement": "signed messages shorter than 64 bytes -> Err"},
        {"name": "C06_open_of_sign_partial", "status": "partial", "statement": "IF the produced signature verifies (group law: hypothesis) THEN open(sign m) = Ok m"},
        {"name": "C06_modes_differ", "status": "proved", "statement": "the pre-hashed mode prefixes a 34-byte domain separator, the pure mode none"},
    ],
    "builds": ["stable"],
    "rule": "4 (thorough 12) seeds incl. RFC 8032 test 1, 0, 0xff x every message length 0..=130 (+1 KiB): seed key pair, detached / combined / object / pre-hashed-incremental signatures = libsodium's, verify accepts; every single-bit mutation of message, signature and public key for short messages (decision = libsodium's); "
            "malleation S + kL for every k keeping S < 2^256; the 8 torsion points and 6 non-canonical encodings as R and as public key with honest and with equation-satisfying forged signatures (R = identity, S = 0; R = B, S = 1 over 16 messages), both modes; mode cross-overs (search); ~15 cases through the extracted Coq RFC 8032 model (correspondence) Signing with key pairs whose public_key field is not the key embedded in the secret key.",
    "modelled": _ED_MODELLED,
    "assumptions": ["Edwards group law ([S]B = R + [k]A for honest signatures): not formalised", "rejection of cross-mode signatures rests on SHA-512 collision resistance"],
    "partial": "strictness, framing, format proved over the model; completeness (honest signatures verify) and equality with libsodium by correspondence / search",
}

PROPS["C13"] = {
    "theorems": [
        {"name": "C13_box_seed_keypair", "status": "proved", "statement": "box seed key pair: sk = SHA-512(seed)[0..32], pk = X25519 base, every seed of any length"},
        {"name": "C13_sign_seed_keypair_layout", "status": "proved", "statement": "signing secret key = seed || public key"},
        {"name": "C13_sk_to_curve25519", "status": "proved", "statement": "converted secret key = clamp(SHA-512(seed)[0..32])"},
    ],
    "builds": ["stable"],
    "rule": "box seeds of every length 0..=128 (zero-pattern and PRNG) against SHA-512 + X25519-base computed with libsodium, and libsodium's own crypto_box_seed_keypair at 32 bytes; object KeyPair::from_seed; 48 (thorough 256) 32-byte seeds incl. 0 / 0xff: kx and signing seed key pairs, Ed25519->X25519 conversion of both halves = libsodium's and consistent (pk = base(sk)); public key recomputed from (unclamped) secret keys; password-derived key pair for hash_length 32/64/16/48 against libsodium crypto_pwhash(32)+base (search); ~10 cases through the extracted model (correspondence) derive_keypair with memory sizes that are not multiples of 4 KiB; signing pairs in stack / array / Vec containers.",
    "modelled": _ED_MODELLED + ["X25519 base multiplication as in C05"],
    "assumptions": ["conversion consistency (birational map is a homomorphism): not formalised, compared with libsodium"],
    "partial": "constructions are definitional in the model; equality with libsodium by search",
}

_PROT_MODELLED = ["the operating system is an ASSUMED model (OsModel in Impl/Protected.v): mprotect / mlock / munlock act on whole pages covering [start, start+len), len = 0 is a no-op, fresh allocations are read-write and unlocked, Linux refuses to lock a no-access mapping; validated against /proc/self/maps, VmLck and forked fault probes after every step",
                  "Vec growth policy (capacity max(len, 8) first, doubling afterwards, clone = exact) is std behaviour entered as a model assumption and validated through the sizes of the release events",
                  "the type-level state is taken to equal the recorded state (C20 covers what the type system allows)"]

PROPS["C14"] = {
    "theorems": [
        {"name": "C14_agree", "status": "proved", "statement": "forall length, forall legal op sequence from create: every reached world has every data page of the region and of every clone at the rights / lock state of its type"},
        {"name": "C14_step_preserves", "status": "proved", "statement": "one-step preservation of the per-page invariant (data pages follow the type, spare pages as allocated)"},
        {"name": "C14_example", "status": "proved", "statement": "non-vacuity at length 4097 (1 mod page), by vm_compute"},
    ],
    "builds": ["nightly"],
    "rule": "all operation sequences up to depth 3 (thorough 5) over the type-state graph {lock, unlock, read-only, read-write, no-access, clone, resize up / down} + drop, for HeapBytes of lengths 0, 1, 16, 32, 64, page-1, page, page+1, 2*page, 2*page+1 and HeapByteArray<N> for N in {1, 16, 64, 4095, 4096, 4097, 8193}; each in a forked child; after every step: rights of first / last data page and of the page before from /proc/self/maps, a no-access page after the allocation, VmLck, contents, forked read / write probes (SIGSEGV or not) on the last byte; after the drop VmLck = 0; "
            "the HeapBytes sequences of depth <= 3 also run through the extracted model (correspondence of page rights, locked-page count, final state). non-trivial: all (exhaustive over that family) munlock is applied in every lock state (on unlocked regions it must change nothing).",
    "modelled": _PROT_MODELLED,
    "assumptions": ["OsModel (see modelled)", "x86-64 Linux, 4096-byte pages"],
    "partial": "invariant proved over the assumed OS model; faults / VmLck / VMA behaviour observed, not proved",
}

PROPS["C15"] = {
    "theorems": [
        {"name": "C15_step_releases_wiped", "status": "proved", "statement": "every release event produced by any operation carries no non-zero byte"},
        {"name": "C15_drop_all_wiped", "status": "proved", "statement": "dropping the region and all clones releases only wiped regions"},
        {"name": "C15_release_wiped", "status": "proved", "statement": "deallocate wipes the whole allocation (capacity, not length)"},
        {"name": "C15_example", "status": "proved", "statement": "non-vacuity: sizes of the release events of a grow + clone sequence, by vm_compute"},
    ],
    "builds": ["nightly"],
    "rule": "all sequences up to depth 3 (thorough 5) over {fill with non-zero secret, lock, unlock, protect, clone, resize up / down} + drop for HeapBytes of lengths 1, 16, 100, page-1, page, page+1, 2*page+1, 5*page and HeapByteArray<16/4096/4097>, plus plain HeapBytes grow / shrink / drop; hook verif_set_release_observer reports every region handed to free(): size and count of non-zero bytes (read with process_vm_readv); any non-zero byte is a violation (search); release sizes and flags compared with the model (correspondence) Blocks returned to the ordinary heap while a container is resized / cloned / moved between states are searched for a marked secret; a region released, reused by a smaller container and released again is clean beyond its reported size.",
    "modelled": _PROT_MODELLED,
    "assumptions": ["what the system allocator receives is observed through the hook placed immediately before free()"],
    "partial": "",
}

PROPS["C19"] = {
    "theorems": [
        {"name": "C19_transitions_never_panic", "status": "proved", "statement": "lock / unlock / protect transitions never panic, any world, any refusal schedule"},
        {"name": "C19_create_never_panics", "status": "proved", "statement": "from_slice_into_locked returns Ok or Err for every length and schedule"},
        {"name": "C19_refused_lock_is_err", "status": "proved", "statement": "a refused lock of a non-empty region is Err"},
        {"name": "C19_example", "status": "proved", "statement": "non-vacuity by vm_compute"},
    ],
    "builds": ["nightly"],
    "ld_preload": True,
    "rule": "for HeapBytes of lengths 0, 1, 64, page, page+1 and every sequence up to depth 2 (thorough 4): the unfailed run counts the mlock calls; then for each k the run in which the k-th and all later mlock calls are refused (LD_PRELOAD interposer): no abort, no panic in Result-returning constructors / transitions, earlier regions (clones) keep their page rights, VmLck = 0 and only wiped releases after cleanup; the six Result-returning constructors with the first lock refused; outcome classes compared with the model (correspondence) Thirteen Result-returning constructors with the first lock refused.",
    "modelled": _PROT_MODELLED + ["the refusal is injected by interposing on mlock (root ignores RLIMIT_MEMLOCK)"],
    "assumptions": ["resize / clone of a locked region have no Result in their signature: a panic there is outside the property and is tolerated by the check"],
    "partial": "",
}

PROPS["C20"] = {
    "theorems": [
        {"name": "C20_table", "status": "proved", "statement": "forall cells (container x protect mode x lock mode x operation): the impl table regenerated from protected.rs offers the operation iff the property's table permits it (finite domain, by computation)"},
        {"name": "C20_cells_complete", "status": "proved", "statement": "the enumerated cells are all 2 x 3 x 2 combinations"},
        {"name": "C20_rows_sound", "status": "proved", "statement": "closed world: every impl row for a protected type, of any trait (an unclassified trait fails the obligation): write-access traits only on read-write regions, read-access traits never on no-access regions, lock / no-access only from unlocked"},
        {"name": "C20_transitions_consume", "status": "proved", "statement": "every transition trait method takes self by value"},
        {"name": "C20_transitions_reach_declared_state", "status": "proved", "statement": "every transition impl read from protected.rs returns Protected<A, pm', lm'> with (pm', lm') the state its name says: lock / unlock keep the protection parameter, the protection transitions keep the lock parameter (finite table, by computation)"},
        {"name": "C20_stream", "status": "proved", "statement": "push / pull methods exist only on DryocStream<Push> / DryocStream<Pull>"},
        {"name": "C20_example", "status": "proved", "statement": "non-vacuity"},
    ],
    "gen_obligations": ["Gen/ImplTable.v regenerated from src/protected.rs and src/dryocstream.rs (trait impl headers incl. bounds, aliases expanded, blanket impls closed)"],
    "builds": ["nightly20"],
    "rule": "one program per cell of {HeapBytes, HeapByteArray<32>} x {ReadWrite, ReadOnly, NoAccess} x {Locked, Unlocked} x {read view, mutable view, array view, index, resize, clone, lock, unlock, read-only, read-write, no-access, mutable array view, DerefMut, AsRef<[u8]>, AsMut<[u8]>, AsRef<[u8; N]>, AsMut<[u8; N]>} (204), use-after-transition programs for every state (22), push/pull on push/pull streams (5): compiled with nightly rustc against the freshly built rlib (--emit=metadata); compiles <=> the property's table (search) and <=> the model's resolution of the regenerated impl table (correspondence); two control programs exercising every permitted operation along the reachable states are compiled and run. exhaustive over the table Control programs include every permitted transition of an empty HeapBytes.",
    "modelled": ["the Rust trait solver and borrow checker are not modelled: resolves() is an approximation (trait + mode parameters + bounds on the container) whose agreement with rustc is checked cell by cell"],
    "assumptions": ["nightly rustc 1.97 is the reference compiler"],
    "partial": "table equality proved; compiler agreement checked exhaustively, not proved",
}
