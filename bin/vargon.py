"""Translator part for C09: the pure arithmetic functions of src/argon2.rs -- index_alpha (the size of the
reference area and the mapping of the pseudo-random word into it) and fblamka -- as Coq functions over Z
(Gen/Argon2Arith.v), with the u32 / u64 arithmetic written out as the RELEASE build performs it (wrapping;
Refine/Argon2.v proves that at every position the filling loop visits nothing wraps, so the debug build's
overflow checks cannot fire either).

Accepted subset (anything else stops the translator; vcheck reports a broken obligation):
  body        (let [mut] x = e; | x = e;)* e
  e           if c { body } else if c { body } else { body } | binary expression
  operators   * % + - >> & == != (Rust precedence), `as u32`, `as u64`, unary !, ( )
  calls       a.wrapping_mul(b), a.wrapping_add(b)
  atoms       integer literals (with optional u32/u64 suffix), the parameters, position.{pass,slice,index},
              instance.{segment_length,lane_length}, ARGON2_SYNC_POINTS"""
import os, re

def strip_comments(s):
    s = re.sub(r"//[^\n]*", "", s)
    return re.sub(r"/\*.*?\*/", "", s, flags=re.S)

TOK = re.compile(r"\s*(0x[0-9a-fA-F_]+(?:u8|u32|u64)?|\d[\d_]*(?:u8|u32|u64)?|[A-Za-z_][A-Za-z_0-9]*|==|!=|>>|<<|&&|\|\||[{}()!*%+\-&^|.,;=<>])")

def tokenize(s):
    out, i = [], 0
    s = s.strip()
    while i < len(s):
        m = TOK.match(s, i)
        if not m: raise SystemExit("vgen(argon2 arithmetic): cannot tokenise %r" % s[i:i+30])
        out.append(m.group(1)); i = m.end()
    return out

def fn_text(src, name):
    m = re.search(r"\bfn %s\s*\(" % re.escape(name), src)
    if not m: raise SystemExit("vgen(argon2 arithmetic): fn %s not found" % name)
    i = src.index("{", src.index("->", m.end()))
    d, j = 0, i
    while True:
        if src[j] == "{": d += 1
        elif src[j] == "}":
            d -= 1
            if d == 0: break
        j += 1
    return src[m.start():i], src[i + 1:j]

class Tr:
    PREC = {"||": 1, "&&": 2, "==": 3, "!=": 3, "|": 4, "^": 5, "&": 6, ">>": 7, "<<": 7, "+": 8, "-": 8, "*": 9, "%": 9}
    def __init__(self, toks, env):
        self.t, self.i, self.env = toks, 0, dict(env)
    def peek(self, k=0): return self.t[self.i + k] if self.i + k < len(self.t) else None
    def next(self): x = self.peek(); self.i += 1; return x
    def expect(self, x):
        y = self.next()
        if y != x: raise SystemExit("vgen(argon2 arithmetic): expected %r, found %r" % (x, y))
    # ---- statements
    def body(self, indent):
        """(let [mut] x = e; | x = e;)* e  ->  (coq text, type)"""
        pad = "  " * indent
        lets = []
        while True:
            if self.peek() == "let":
                self.next()
                if self.peek() == "mut": self.next()
                x = self.next(); self.expect("="); e = self.expr(indent + 1); self.expect(";")
            elif re.match(r"[a-z_]\w*$", self.peek() or "") and self.peek(1) == "=" :
                x = self.next(); self.expect("="); e = self.expr(indent + 1); self.expect(";")
                if x not in self.env: raise SystemExit("vgen(argon2 arithmetic): assignment to unknown %s" % x)
                e = self.coerce(e, self.env[x][1])
            else:
                break
            lets.append("%slet %s := %s in" % (pad, x, e[0])); self.env[x] = (x, e[1])
        e = self.expr(indent)
        return ("\n".join(lets + [pad + e[0]]) if lets else e[0], e[1])
    def coerce(self, e, ty):
        if e[1] == "lit": return (e[0], ty)
        if e[1] != ty: raise SystemExit("vgen(argon2 arithmetic): type mismatch %s vs %s in %s" % (e[1], ty, e[0]))
        return e
    # ---- expressions
    def expr(self, indent, minp=1):
        if self.peek() == "if": return self.ifexpr(indent)
        lhs = self.unary(indent)
        while True:
            op = self.peek()
            if op == "as":
                self.next(); ty = self.next()
                if ty not in ("u32", "u64"): raise SystemExit("vgen(argon2 arithmetic): cast to %s" % ty)
                order = {"u8": 8, "u32": 32, "u64": 64, "lit": 0}
                if order[lhs[1]] > order[ty]: lhs = ("(w32 %s)" % lhs[0], ty)     # narrowing u64 -> u32 truncates
                else: lhs = (lhs[0], ty)                                           # widening / same width: value kept
                continue
            if op in self.PREC and self.PREC[op] >= minp:
                self.next(); rhs = self.expr(indent, self.PREC[op] + 1) if self.peek() != "if" else self.ifexpr(indent)
                lhs = self.binop(op, lhs, rhs); continue
            return lhs
    def binop(self, op, a, b):
        if op in ("==", "!="):
            ty = a[1] if a[1] != "lit" else b[1]
            if "bool" in (a[1], b[1]): raise SystemExit("vgen(argon2 arithmetic): comparison of booleans")
            if a[1] != "lit" and b[1] != "lit" and a[1] != b[1]: raise SystemExit("vgen(argon2 arithmetic): comparison across types: %s %s" % (a, b))
            e = "(%s =? %s)" % (a[0], b[0])
            return (e if op == "==" else "(negb %s)" % e, "bool")
        if op in ("&&", "||"):
            if a[1] != "bool" or b[1] != "bool": raise SystemExit("vgen(argon2 arithmetic): %s on non-booleans" % op)
            return ("(%s %s %s)" % (a[0], op, b[0]), "bool")
        ty = a[1] if a[1] != "lit" else b[1]
        if a[1] != "lit" and b[1] != "lit" and a[1] != b[1] and op not in (">>", "<<"):
            raise SystemExit("vgen(argon2 arithmetic): operator %s across types: %s %s" % (op, a, b))
        if ty == "lit":
            return ("(%s %s %s)" % (a[0], {"*": "*", "+": "+", "-": "-"}.get(op, "?"), b[0]), "lit") if op in "*+-" else self.bad(op)
        sfx = {"u32": "32", "u64": "64"}.get(ty) or self.bad("arithmetic on " + ty)
        if op == "+": return ("(add%s %s %s)" % (sfx, a[0], b[0]), ty)
        if op == "-": return ("(sub%s %s %s)" % (sfx, a[0], b[0]), ty) if ty == "u32" else self.bad("u64 subtraction")
        if op == "*": return ("(mul%s %s %s)" % (sfx, a[0], b[0]), ty)
        if op == "%": return ("(%s mod %s)" % (a[0], b[0]), ty)
        if op == "&": return ("(Z.land %s %s)" % (a[0], b[0]), ty)
        if op == ">>": return ("(Z.shiftr %s %s)" % (a[0], b[0]), a[1])
        self.bad(op)
    def bad(self, what): raise SystemExit("vgen(argon2 arithmetic): unsupported %s" % what)
    def unary(self, indent):
        t = self.next()
        if t == "!":
            a = self.unary(indent)
            if a[1] != "bool": self.bad("! on a non-boolean")
            e = ("(negb %s)" % a[0], "bool")
        elif t == "(":
            e = self.expr(indent); self.expect(")")
        elif re.match(r"0x|\d", t):
            m = re.match(r"(0x[0-9a-fA-F_]+|\d[\d_]*)(u8|u32|u64)?$", t)
            e = (str(int(m.group(1).replace("_", ""), 0)), m.group(2) or "lit")
        elif t in ("position", "instance"):
            self.expect("."); f = self.next()
            key = t + "." + f
            if key not in self.env: self.bad("field " + key)
            e = self.env[key]
        elif t in self.env:
            e = self.env[t]
        else:
            self.bad("token %r" % t)
        while self.peek() == ".":
            self.next(); m = self.next(); self.expect("("); a = self.expr(indent); self.expect(")")
            if e[1] == "lit": e = (e[0], a[1])
            a = self.coerce(a, e[1])
            if e[1] != "u64": self.bad("method %s on %s" % (m, e[1]))
            if m == "wrapping_mul": e = ("(mul64 %s %s)" % (e[0], a[0]), "u64")
            elif m == "wrapping_add": e = ("(add64 %s %s)" % (e[0], a[0]), "u64")
            else: self.bad("method " + m)
        return e
    def ifexpr(self, indent):
        self.expect("if"); c = self.expr(indent)
        if c[1] != "bool": self.bad("non-boolean condition")
        self.expect("{"); saved = dict(self.env); a = self.body(indent + 1); self.env = dict(saved); self.expect("}")
        self.expect("else")
        if self.peek() == "if": b = self.ifexpr(indent)
        else:
            self.expect("{"); b = self.body(indent + 1); self.env = dict(saved); self.expect("}")
        if a[1] == "lit": a = (a[0], b[1])
        if b[1] == "lit": b = (b[0], a[1])
        if a[1] != b[1]: self.bad("branches of different types: %s / %s" % (a[1], b[1]))
        pad = "  " * indent
        return ("(if %s then\n%s  %s\n%selse\n%s  %s)" % (c[0], pad, a[0].strip(), pad, pad, b[0].strip()), a[1])

def translate(src, name, env, sig_pat, ret):
    sig, body = fn_text(src, name)
    if not re.fullmatch(sig_pat, " ".join(sig.split())):
        raise SystemExit("vgen(argon2 arithmetic): signature of %s differs from the modelled one: %s" % (name, " ".join(sig.split())))
    tr = Tr(tokenize(body), env)
    e = tr.body(1)
    if tr.peek() is not None: raise SystemExit("vgen(argon2 arithmetic): trailing tokens in %s: %r" % (name, tr.t[tr.i:tr.i + 5]))
    if e[1] != ret and e[1] != "lit": raise SystemExit("vgen(argon2 arithmetic): %s returns %s" % (name, e[1]))
    return e[0]

def generate(repo):
    src = strip_comments(open(os.path.join(repo, "src/argon2.rs")).read())
    m = re.search(r"const ARGON2_SYNC_POINTS: u32 = (\d+);", src)
    if not m: raise SystemExit("vgen(argon2 arithmetic): ARGON2_SYNC_POINTS not found")
    # field types as declared
    for pat in (r"struct Argon2Position \{ pass: u32, lane: u32, slice: u8, index: u32, \}",):
        if not re.search(pat, " ".join(src.split())):
            raise SystemExit("vgen(argon2 arithmetic): Argon2Position differs from the modelled one")
    for f in ("segment_length", "lane_length"):
        if not re.search(r"\b%s: u32," % f, src): raise SystemExit("vgen(argon2 arithmetic): Argon2Instance.%s is not u32" % f)
    env_ia = {"position.pass": ("pass", "u32"), "position.slice": ("slice", "u8"), "position.index": ("index", "u32"),
              "instance.segment_length": ("seg", "u32"), "instance.lane_length": ("lane_len", "u32"),
              "pseudo_rand": ("pseudo_rand", "u32"), "same_lane": ("same_lane", "bool"),
              "ARGON2_SYNC_POINTS": (m.group(1), "u32")}
    ia = translate(src, "index_alpha", env_ia,
                   r"fn index_alpha\( instance: &Argon2Instance, position: &Argon2Position, pseudo_rand: u32, same_lane: bool, \) -> u32", "u32")
    fb = translate(src, "fblamka", {"x": ("x", "u64"), "y": ("y", "u64")}, r"fn fblamka\(x: u64, y: u64\) -> u64", "u64")
    out = ["(* GENERATED by bin/vgen (vargon.py) from src/argon2.rs -- do not edit *)",
           "From Dryoc Require Import Impl.Argon2.\nImport Argon2Impl.\nOpen Scope Z_scope.\n",
           "Definition gen_index_alpha (seg lane_len pass slice index pseudo_rand : Z) (same_lane : bool) : Z :=\n" + ia + ".\n",
           "Definition gen_fblamka (x y : Z) : Z :=\n" + fb + ".\n"]
    return "\n".join(out)

if __name__ == "__main__":
    import sys
    sys.stdout.write(generate(sys.argv[1] if len(sys.argv) > 1 else "/repo"))
