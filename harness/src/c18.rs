//! C18: results do not depend on the build (default / nightly / nightly + SIMD backend) nor on the
//! container type.  This entry emits ONE transcript: the C07 / C08 / C09 / C12 corpora (and the
//! Curve25519 / Ed25519 ones of C05 / C06) followed by a container section.  bin/vcheck runs it
//! under each build, compares every transcript with the model and the transcripts with each other.
use crate::common::*;
use crate::sodium;
use serde_json::json;

fn differ(out: &mut Out, op: &str, container: &str, reference: &[u8], got: &Outcome<Vec<u8>>, rp: serde_json::Value) {
    out.search_evaluations += 1;
    match got {
        Outcome::Ok(v) if v.as_slice() == reference => {}
        Outcome::Ok(v) => out.hit(&format!("containers.differ.{}.{}", op, container), format!("{} through {} gives {} where the stack / classic form gives {}", op, container, hx(v), hx(reference)), rp),
        o => out.hit(&format!("containers.fail.{}.{}", op, container), format!("{} through {}: {}", op, container, o.class()), rp),
    }
}

pub fn containers(out: &mut Out, rng: &mut Rng, thorough: bool) {
    use dryoc::classic::crypto_box::crypto_box_beforenm;
    use dryoc::types::*;
    let rounds = if thorough { 12 } else { 4 };
    for round in 0..rounds {
        let msg_len = [0usize, 1, 64, 127, 128, 129, 300, 1000][round % 8];
        let msg = rng.bytes(msg_len);
        let key32: [u8; 32] = rng.arr();
        let rp = json!({"op":"containers","round":round,"msg":hx(&msg),"key":hx(&key32)});

        // ---- generic hash: stack / Vec outputs, Vec / stack inputs
        {
            use dryoc::generichash::GenericHash;
            let reference = crate::c07::d_generichash(32, &msg, Some(&key32)).ok().unwrap_or_default();
            out.case("generichash.hash", &[i(32), b(&msg), b(&key32)], &Outcome::Ok(vec![Tok::B(reference.clone())]), true);
            let k = StackByteArray::<32>::from(&key32);
            let r: Outcome<Vec<u8>> = guard(|| GenericHash::<32, 32>::hash::<_, _, StackByteArray<32>>(&msg, Some(&k))).map(|h| h.to_vec());
            differ(out, "generichash", "stack", &reference, &r, rp.clone());
            let r: Outcome<Vec<u8>> = guard(|| GenericHash::<32, 32>::hash_to_vec(&msg, Some(&key32.to_vec())));
            differ(out, "generichash", "vec", &reference, &r, rp.clone());
            // incremental, Vec key
            let r: Outcome<Vec<u8>> = guard(|| { let mut h = GenericHash::<32, 32>::new(Some(&key32.to_vec()))?; h.update(&msg[..msg_len / 2]); h.update(&msg[msg_len / 2..]); h.finalize_to_vec() });
            differ(out, "generichash.incremental", "vec", &reference, &r, rp.clone());
            #[cfg(feature = "nightly")]
            {
                use dryoc::generichash::protected::*;
                let hk = HeapByteArray::<32>::from_slice_into_readonly_locked(&key32).unwrap();
                let hin = HeapBytes::from_slice_into_readonly_locked(&msg).unwrap();
                let r: Outcome<Vec<u8>> = guard(|| { let h: Locked<Hash> = GenericHash::hash(&hin, Some(&hk))?; Ok::<_, dryoc::Error>(h.to_vec()) });
                differ(out, "generichash", "locked", &reference, &r, rp.clone());
                let hk2 = HeapByteArray::<32>::from(&key32);
                let r: Outcome<Vec<u8>> = guard(|| { let h: HeapByteArray<32> = GenericHash::<32, 32>::hash(&msg, Some(&hk2))?; Ok::<_, dryoc::Error>(h.to_vec()) });
                differ(out, "generichash", "heap", &reference, &r, rp.clone());
            }
        }
        // ---- key derivation
        {
            use dryoc::kdf::Kdf;
            let ctx: [u8; 8] = rng.arr();
            let id = rng.next();
            let reference = sodium::kdf_derive(32, id, &ctx, &key32).unwrap_or_default();
            out.case("kdf.derive", &[i(32), b(&id.to_le_bytes()), b(&ctx), b(&key32)], &Outcome::Ok(vec![Tok::B(reference.clone())]), true);
            let kdf: Kdf<StackByteArray<32>, StackByteArray<8>> = Kdf::from_parts(StackByteArray::from(&key32), StackByteArray::from(&ctx));
            let r = guard(|| kdf.derive_subkey::<StackByteArray<32>>(id)).map(|k| k.to_vec());
            differ(out, "kdf", "stack", &reference, &r, rp.clone());
            let r = guard(|| kdf.derive_subkey_to_vec(id));
            differ(out, "kdf", "vec", &reference, &r, rp.clone());
            #[cfg(feature = "nightly")]
            {
                use dryoc::kdf::protected::*;
                let lk: LockedKdf = Kdf::from_parts(HeapByteArray::<32>::from_slice_into_locked(&key32).unwrap(), HeapByteArray::<8>::from_slice_into_locked(&ctx).unwrap());
                let r = guard(|| { let s: Locked<Key> = lk.derive_subkey(id)?; Ok::<_, dryoc::Error>(s.to_vec()) });
                differ(out, "kdf", "locked", &reference, &r, rp.clone());
            }
        }
        // ---- Curve25519: box precalculation, key exchange
        {
            use dryoc::keypair::KeyPair;
            use dryoc::kx::Session;
            use dryoc::precalc::PrecalcSecretKey;
            let seed_a: [u8; 32] = rng.arr(); let seed_b: [u8; 32] = rng.arr();
            let (pk_a, sk_a) = dryoc::classic::crypto_box::crypto_box_seed_keypair(&seed_a);
            let (pk_b, sk_b) = dryoc::classic::crypto_box::crypto_box_seed_keypair(&seed_b);
            let reference = crypto_box_beforenm(&pk_b, &sk_a).to_vec();
            out.case("box.beforenm", &[b(&pk_b), b(&sk_a)], &Outcome::Ok(vec![Tok::B(reference.clone())]), true);
            if let Some(s) = sodium::box_beforenm(&pk_b, &sk_a) { differ(out, "box.beforenm", "classic-vs-libsodium", &s, &Outcome::Ok(reference.clone()), rp.clone()); }
            let r = guard_total(|| PrecalcSecretKey::<StackByteArray<32>>::precalculate(&StackByteArray::<32>::from(&pk_b), &StackByteArray::<32>::from(&sk_a))).map(|k| k.to_vec());
            differ(out, "precalc", "stack", &reference, &r, rp.clone());
            let kp: KeyPair<StackByteArray<32>, StackByteArray<32>> = KeyPair::from_secret_key(StackByteArray::from(&sk_a));
            if kp.public_key.as_slice() != pk_a { out.hit("containers.differ.keypair.from_secret_key", "public key differs".into(), rp.clone()); }
            // kx through containers
            let kpa: KeyPair<StackByteArray<32>, StackByteArray<32>> = KeyPair::from_secret_key(StackByteArray::from(&sk_a));
            let kpb: KeyPair<StackByteArray<32>, StackByteArray<32>> = KeyPair::from_secret_key(StackByteArray::from(&sk_b));
            let classic = guard(|| { let (mut rx, mut tx) = ([0u8; 32], [0u8; 32]); dryoc::classic::crypto_kx::crypto_kx_client_session_keys(&mut rx, &mut tx, &pk_a, &sk_a, &pk_b).map(|_| [rx, tx].concat()) });
            if let Outcome::Ok(refkx) = &classic {
                out.case("kx.client", &[b(&pk_a), b(&sk_a), b(&pk_b)], &Outcome::Ok(vec![Tok::B(refkx[..32].to_vec()), Tok::B(refkx[32..].to_vec())]), true);
                let r = guard(|| Session::<StackByteArray<32>>::new_client(&kpa, &kpb.public_key)).map(|s| { let (rx, tx) = s.into_parts(); [rx.to_vec(), tx.to_vec()].concat() });
                differ(out, "kx.client", "stack", refkx, &r, rp.clone());
                let r = guard(|| Session::<Vec<u8>>::new_client(&kpa, &kpb.public_key)).map(|s| { let (rx, tx) = s.into_parts(); [rx.to_vec(), tx.to_vec()].concat() });
                differ(out, "kx.client", "vec", refkx, &r, rp.clone());
            }
            #[cfg(feature = "nightly")]
            {
                use dryoc::precalc::protected::*;
                let hpk = HeapByteArray::<32>::from(&pk_b); let hsk = HeapByteArray::<32>::from_slice_into_readonly_locked(&sk_a).unwrap();
                let r = guard(|| PrecalcSecretKey::precalculate_locked(&hpk, &hsk)).map(|k| k.to_vec());
                differ(out, "precalc", "locked", &reference, &r, rp.clone());
                let r = guard(|| PrecalcSecretKey::precalculate_readonly_locked(&hpk, &hsk)).map(|k| k.to_vec());
                differ(out, "precalc", "locked-readonly", &reference, &r, rp.clone());
                // keypair helpers
                use dryoc::dryocbox::protected::{LockedKeyPair, LockedROKeyPair};
                let lkp: LockedKeyPair = KeyPair::from_secret_key(HeapByteArray::<32>::from_slice_into_locked(&sk_a).unwrap());
                if lkp.public_key.as_slice() != pk_a { out.hit("containers.differ.keypair.locked", "public key differs".into(), rp.clone()); }
                let r = guard(|| lkp.precalculate_locked(&hpk)).map(|k| k.to_vec());
                differ(out, "keypair.precalculate", "locked", &reference, &r, rp.clone());
                let lro: LockedROKeyPair = KeyPair { public_key: HeapByteArray::<32>::from_slice_into_readonly_locked(&pk_a).unwrap(), secret_key: HeapByteArray::<32>::from_slice_into_readonly_locked(&sk_a).unwrap() };
                let r = guard(|| lro.precalculate_readonly_locked(&hpk)).map(|k| k.to_vec());
                differ(out, "keypair.precalculate", "locked-readonly", &reference, &r, rp.clone());
                if let Outcome::Ok(refkx) = &classic {
                    use dryoc::kx::protected::LockedSession;
                    let r = guard(|| { let s: LockedSession = Session::new_client(&lro, &HeapByteArray::<32>::from_slice_into_readonly_locked(&pk_b).unwrap())?; Ok::<_, dryoc::Error>(s) }).map(|s| { let (rx, tx) = s.into_parts(); [rx.to_vec(), tx.to_vec()].concat() });
                    differ(out, "kx.client", "locked", refkx, &r, rp.clone());
                }
            }
            // ---- boxes and secret boxes: Vec vs stack (vs heap / locked)
            {
                use dryoc::dryocbox::{DryocBox, VecBox};
                use dryoc::dryocsecretbox::{DryocSecretBox, VecBox as SVecBox};
                let nonce: [u8; 24] = rng.arr();
                let reference = sodium::box_easy(&msg, &nonce, &pk_b, &sk_a).unwrap_or_default();
                let r = guard(|| { let bx: VecBox = DryocBox::encrypt(&msg, &StackByteArray::<24>::from(&nonce), &StackByteArray::<32>::from(&pk_b), &StackByteArray::<32>::from(&sk_a))?; Ok::<_, dryoc::Error>(bx.to_vec()) });
                differ(out, "box.encrypt", "vec", &reference, &r, rp.clone());
                let r = guard(|| { let bx: DryocBox<StackByteArray<32>, StackByteArray<16>, Vec<u8>> = DryocBox::encrypt(&msg, &nonce.to_vec(), &pk_b.to_vec(), &sk_a.to_vec())?; Ok::<_, dryoc::Error>(bx.to_vec()) });
                differ(out, "box.encrypt", "vec-keys", &reference, &r, rp.clone());
                let sreference = sodium::secretbox_easy(&msg, &nonce, &key32);
                let r = guard_total(|| { let bx: SVecBox = DryocSecretBox::encrypt(&msg, &StackByteArray::<24>::from(&nonce), &StackByteArray::<32>::from(&key32)); bx.to_vec() });
                differ(out, "secretbox.encrypt", "vec", &sreference, &r, rp.clone());
                #[cfg(feature = "nightly")]
                {
                    use dryoc::dryocbox::protected::{LockedBox, HeapBytes as HB, HeapByteArray as HBA, NewLockedFromSlice};
                    let hm = HB::from_slice_into_readonly_locked(&msg).unwrap();
                    let hn = HBA::<24>::from_slice_into_readonly_locked(&nonce).unwrap();
                    let hsk = HBA::<32>::from_slice_into_readonly_locked(&sk_a).unwrap();
                    let hpk = HBA::<32>::from(&pk_b);
                    let r = guard(|| { let bx: LockedBox = DryocBox::encrypt(&hm, &hn, &hpk, &hsk)?; Ok::<_, dryoc::Error>(bx.to_vec()) });
                    differ(out, "box.encrypt", "locked", &reference, &r, rp.clone());
                    use dryoc::dryocsecretbox::protected::LockedBox as SLockedBox;
                    let hk = HBA::<32>::from_slice_into_readonly_locked(&key32).unwrap();
                    let r = guard_total(|| { let bx: SLockedBox = DryocSecretBox::encrypt(&hm, &hn, &hk); bx.to_vec() });
                    differ(out, "secretbox.encrypt", "locked", &sreference, &r, rp.clone());
                }
            }
        }
        // ---- signatures
        {
            use dryoc::sign::{SigningKeyPair, SignedMessage};
            let seed: [u8; 32] = rng.arr();
            let (pk, sk) = dryoc::classic::crypto_sign::crypto_sign_seed_keypair(&seed);
            let reference = guard(|| { let mut sm = vec![0u8; msg.len() + 64]; dryoc::classic::crypto_sign::crypto_sign(&mut sm, &msg, &sk).map(|_| sm) }).ok().unwrap_or_default();
            { let s = sodium::sign_combined(&msg, &sk); differ(out, "sign", "classic-vs-libsodium", &s, &Outcome::Ok(reference.clone()), rp.clone()); }
            let kp: SigningKeyPair<StackByteArray<32>, StackByteArray<64>> = SigningKeyPair::from_secret_key(StackByteArray::from(&sk));
            if kp.public_key.as_slice() != pk { out.hit("containers.differ.sign.from_secret_key", "public key differs".into(), rp.clone()); }
            let r = guard(|| { let sm: SignedMessage<StackByteArray<64>, Vec<u8>> = kp.sign(msg.clone())?; Ok::<_, dryoc::Error>(sm.to_vec()) });
            differ(out, "sign", "stack+vec", &reference, &r, rp.clone());
            let r = guard(|| { let sm: SignedMessage<Vec<u8>, Vec<u8>> = kp.sign(msg.clone())?; Ok::<_, dryoc::Error>(sm.to_vec()) });
            differ(out, "sign", "vec", &reference, &r, rp.clone());
            #[cfg(feature = "nightly")]
            {
                use dryoc::sign::protected::*;
                let lkp: LockedSigningKeyPair = SigningKeyPair::from_secret_key(HeapByteArray::<64>::from_slice_into_locked(&sk).unwrap());
                let r = guard(|| { let sm: LockedSignedMessage = lkp.sign(HeapBytes::from_slice_into_locked(&msg).unwrap())?; Ok::<_, dryoc::Error>(sm.to_vec()) });
                differ(out, "sign", "locked", &reference, &r, rp.clone());
            }
        }
        // ---- freshly made containers hold the same bytes (zeros) whatever their type
        #[cfg(feature = "nightly")]
        if round == 0 {
            use dryoc::protected::*;
            out.search_evaluations += 8;
            let fresh: Vec<(&str, Vec<u8>)> = vec![
                ("StackByteArray<32>", StackByteArray::<32>::new_byte_array().to_vec()),
                ("[u8; 32]", <[u8; 32] as NewByteArray<32>>::new_byte_array().to_vec()),
                ("HeapByteArray<32>", HeapByteArray::<32>::new_byte_array().as_slice().to_vec()),
                ("Locked<HeapByteArray<32>>", <Locked<HeapByteArray<32>> as NewByteArray<32>>::new_byte_array().as_slice().to_vec()),
                ("Locked<HeapByteArray<64>> (new_bytes)", <Locked<HeapByteArray<64>> as NewBytes>::new_bytes().as_slice().to_vec()),
                ("HeapByteArray<32>::new_locked", HeapByteArray::<32>::new_locked().map(|x| x.as_slice().to_vec()).unwrap_or_default()),
                ("KeyPair<Locked, Locked>::new().secret_key", dryoc::keypair::KeyPair::<Locked<HeapByteArray<32>>, Locked<HeapByteArray<32>>>::new().secret_key.as_slice().to_vec()),
                ("KeyPair<Locked, Locked>::default().public_key", dryoc::keypair::KeyPair::<Locked<HeapByteArray<32>>, Locked<HeapByteArray<32>>>::default().public_key.as_slice().to_vec()),
            ];
            // the locked key-pair constructors: fresh ones are zero, generated ones are real key pairs
            {
                use dryoc::keypair::KeyPair;
                type LK = KeyPair<Locked<HeapByteArray<32>>, Locked<HeapByteArray<32>>>;
                type LRO = KeyPair<LockedRO<HeapByteArray<32>>, LockedRO<HeapByteArray<32>>>;
                type SK = dryoc::sign::SigningKeyPair<Locked<HeapByteArray<32>>, Locked<HeapByteArray<64>>>;
                type SRO = dryoc::sign::SigningKeyPair<LockedRO<HeapByteArray<32>>, LockedRO<HeapByteArray<64>>>;
                out.search_evaluations += 6;
                match guard(|| LK::new_locked_keypair()) { Outcome::Ok(kp) => { if kp.public_key.as_slice().iter().chain(kp.secret_key.as_slice()).any(|x| *x != 0) { out.hit("containers.differ.fresh-contents", "KeyPair::new_locked_keypair is not zero".into(), json!({"op":"containers.fresh","container":"KeyPair::new_locked_keypair"})); } } o => out.hit("containers.fail.keypair.new_locked_keypair", o.class().to_string(), json!({})) }
                match guard(|| LK::gen_locked_keypair()) { Outcome::Ok(kp) => { let sk: [u8; 32] = kp.secret_key.as_slice().try_into().unwrap(); if kp.public_key.as_slice() != sodium::scalarmult_base(&sk) || sk == [0u8; 32] { out.hit("containers.differ.keypair.gen_locked_keypair", "public key is not the base multiple of the secret key".into(), json!({"op":"containers.keypair","sk":hx(&sk)})); } } o => out.hit("containers.fail.keypair.gen_locked_keypair", o.class().to_string(), json!({})) }
                match guard(|| LRO::gen_readonly_locked_keypair()) { Outcome::Ok(kp) => { let sk: [u8; 32] = kp.secret_key.as_slice().try_into().unwrap(); if kp.public_key.as_slice() != sodium::scalarmult_base(&sk) || sk == [0u8; 32] { out.hit("containers.differ.keypair.gen_readonly_locked_keypair", "public key is not the base multiple of the secret key".into(), json!({"op":"containers.keypair","sk":hx(&sk)})); } } o => out.hit("containers.fail.keypair.gen_readonly_locked_keypair", o.class().to_string(), json!({})) }
                match guard(|| SK::new_locked_keypair()) { Outcome::Ok(kp) => { if kp.public_key.as_slice().iter().chain(kp.secret_key.as_slice()).any(|x| *x != 0) { out.hit("containers.differ.fresh-contents", "SigningKeyPair::new_locked_keypair is not zero".into(), json!({"op":"containers.fresh","container":"SigningKeyPair::new_locked_keypair"})); } } o => out.hit("containers.fail.sign.new_locked_keypair", o.class().to_string(), json!({})) }
                let sign_ok = |pk: &[u8], sk: &[u8]| -> bool { let seed: [u8; 32] = sk[..32].try_into().unwrap(); let (lpk, lsk) = sodium::sign_seed_keypair(&seed); lpk[..] == pk[..] && lsk[..] == sk[..] };
                match guard(|| SK::gen_locked_keypair()) { Outcome::Ok(kp) => { if !sign_ok(kp.public_key.as_slice(), kp.secret_key.as_slice()) { out.hit("containers.differ.sign.gen_locked_keypair", "not the key pair of its seed".into(), json!({"op":"containers.sign-keypair","sk":hx(kp.secret_key.as_slice())})); } } o => out.hit("containers.fail.sign.gen_locked_keypair", o.class().to_string(), json!({})) }
                match guard(|| SRO::gen_readonly_locked_keypair()) { Outcome::Ok(kp) => { if !sign_ok(kp.public_key.as_slice(), kp.secret_key.as_slice()) { out.hit("containers.differ.sign.gen_readonly_locked_keypair", "not the key pair of its seed".into(), json!({"op":"containers.sign-keypair","sk":hx(kp.secret_key.as_slice())})); } } o => out.hit("containers.fail.sign.gen_readonly_locked_keypair", o.class().to_string(), json!({})) }
            }
            // a clone of any container holds the bytes of the original
            for cl in [1usize, 32, 4097] {
                let v: Vec<u8> = (0..cl).map(|k| (k as u8).wrapping_mul(7).wrapping_add(3)).collect();
                out.search_evaluations += 5;
                let chk = |out: &mut Out, name: &str, got: Vec<u8>| { if got != v { out.hit("containers.differ.clone", format!("a clone of {} of {} bytes holds {}..", name, cl, hx(&got[..got.len().min(16)])), json!({"op":"containers.clone","container":name,"len":cl})); } };
                chk(out, "HeapBytes", HeapBytes::from(&v[..]).clone().as_slice().to_vec());
                if let Ok(l) = HeapBytes::from_slice_into_locked(&v) { chk(out, "Locked<HeapBytes>", l.clone().as_slice().to_vec());
                    if let Ok(u) = l.munlock() { chk(out, "Unlocked<HeapBytes>", u.clone().as_slice().to_vec()); if let Ok(ur) = u.mprotect_readonly() { chk(out, "UnlockedRO<HeapBytes>", ur.clone().as_slice().to_vec()); } } }
                if let Ok(l) = HeapBytes::from_slice_into_readonly_locked(&v) { chk(out, "LockedRO<HeapBytes>", l.clone().as_slice().to_vec()); }
            }
            for (name, v) in fresh { if v.is_empty() || v.iter().any(|x| *x != 0) { out.hit("containers.differ.fresh-contents", format!("a new {} holds {} where the stack array holds zeros", name, hx(&v)), json!({"op":"containers.fresh","container":name})); } }
        }
        // ---- the same resize script on Vec, HeapBytes and LockedBytes: same length, same bytes, same digest
        #[cfg(feature = "nightly")]
        {
            use dryoc::protected::*;
            let start = [1usize, 64, 4097, 300][round % 4];
            let script: Vec<usize> = vec![start, start / 2, start + 4096 + 1, 3, 0, 17];
            let fill = |k: usize| -> u8 { (k as u8).wrapping_mul(31).wrapping_add(round as u8) };
            let mut v: Vec<u8> = vec![];
            let mut h = HeapBytes::default();
            let mut l = HeapBytes::new_locked().unwrap();
            let mut u = HeapBytes::new_locked().unwrap().munlock().unwrap();
            for (step, &n) in script.iter().enumerate() {
                let old = v.len();
                // the fill value is the caller's: zero on odd steps, something else on even ones
                let fv: u8 = if step % 2 == 1 { 0 } else { (step as u8).wrapping_mul(37).wrapping_add(round as u8) | 1 };
                v.resize(n, fv); h.resize(n, fv); l.resize(n, fv); u.resize(n, fv);
                { let rp2 = json!({"op":"containers.resize-script","script":script,"step":step,"fill":fv});
                  if h.as_slice() != &v[..] { out.hit("containers.differ.resize-fill.heap", format!("step {} (resize {} -> {} filling with {}): HeapBytes differs from Vec", step, old, n, fv), rp2.clone()); }
                  if l.as_slice() != &v[..] { out.hit("containers.differ.resize-fill.locked", format!("step {} (resize {} -> {} filling with {}): LockedBytes differs from Vec", step, old, n, fv), rp2.clone()); }
                  if u.as_slice() != &v[..] { out.hit("containers.differ.resize-fill.unlocked", format!("step {} (resize {} -> {} filling with {}): Unlocked<HeapBytes> differs from Vec", step, old, n, fv), rp2.clone()); } }
                for k in old..n { u.as_mut_slice()[k] = fill(k); }
                for k in old..n { v[k] = fill(k); h.as_mut_slice()[k] = fill(k); l.as_mut_slice()[k] = fill(k); }
                out.search_evaluations += 2;
                let rp2 = json!({"op":"containers.resize-script","script":script,"step":step});
                if h.as_slice() != &v[..] { out.hit("containers.differ.resize.heap", format!("step {} (resize to {}): HeapBytes has {} bytes, Vec {}", step, n, h.len(), v.len()), rp2.clone()); }
                if l.as_slice() != &v[..] { out.hit("containers.differ.resize.locked", format!("step {} (resize to {}): LockedBytes has {} bytes, Vec {}", step, n, l.len(), v.len()), rp2.clone()); }
                let dv = crate::c07::d_generichash(32, &v, None);
                let dl = guard(|| dryoc::generichash::GenericHash::<32, 32>::hash_to_vec::<_, StackByteArray<32>>(&l, None));
                if dv != dl { out.hit("containers.differ.resize.locked-digest", format!("step {}", step), rp2.clone()); }
            }
        }
        // ---- password hashing through Vec / locked containers
        if round < 2 {
            use dryoc::pwhash::{Config, PwHash, VecPwHash};
            let salt: [u8; 16] = rng.arr();
            let cfg = Config::interactive().with_hash_length(64).with_opslimit(1).with_memlimit(8192 + 1024 * round);
            let reference = crate::c09::dry(64, &msg, &salt, 1, 8192 + 1024 * round, 2).ok().unwrap_or_default();
            let r = guard(|| { let h: VecPwHash = PwHash::hash_with_salt(&msg, salt.to_vec(), cfg.clone())?; Ok::<_, dryoc::Error>(h.into_parts().0) });
            differ(out, "pwhash", "vec", &reference, &r, rp.clone());
            #[cfg(feature = "nightly")]
            {
                use dryoc::pwhash::protected::*;
                let pw = HeapBytes::from_slice_into_locked(&msg).unwrap();
                let r = guard(|| { let h: LockedPwHash = PwHash::hash_with_salt(&pw, HeapBytes::from_slice_into_locked(&salt).unwrap(), cfg.clone())?; Ok::<_, dryoc::Error>(h.into_parts().0.to_vec()) });
                differ(out, "pwhash", "locked", &reference, &r, rp.clone());
            }
        }
    }
}

pub fn run(out: &mut Out, tier: &str, seed: u64) {
    // the corpora of the properties built on BLAKE2b / SHA-512 / Curve25519
    crate::c07::run_c07(out, tier, seed);
    crate::c07::run_c08(out, tier, seed);
    crate::c12::run(out, tier, seed);
    crate::c09::run(out, tier, seed);
    crate::c05::run(out, tier, seed);
    crate::c06::run_c13(out, tier, seed);
    let mut rng = Rng::new(seed, "c18");
    containers(out, &mut rng, tier == "thorough");
    let build = if cfg!(feature = "simd") { "nightly+simd_backend" } else if cfg!(feature = "nightly") { "nightly" } else { "default" };
    out.notes.insert("build".into(), json!(build));
    { let mut rng2 = Rng::new(seed, "c18-extra"); crate::objapi::conversions(out, &mut rng2); }
}
