//! C12: key derivation = libsodium for every length, id, context.
use crate::common::*;
use crate::sodium;
use dryoc::classic::crypto_kdf::crypto_kdf_derive_from_key;
use serde_json::json;

pub fn ids(rng: &mut Rng, extra: usize) -> Vec<u64> {
    let mut v = vec![0u64, 1, 1 << 32, 1 << 63, u64::MAX, 255, 256, (1 << 32) - 1];
    for _ in 0..extra { v.push(rng.next()); }
    v
}

pub fn run(out: &mut Out, tier: &str, seed: u64) {
    let mut rng = Rng::new(seed, "c12");
    let thorough = tier == "thorough";
    let extra_ids = if thorough { 24 } else { 4 };
    let keysets = if thorough { 6 } else { 2 };
    for ks in 0..keysets {
        let key: [u8; 32] = match ks { 0 => [0u8; 32], 1 => rng.arr(), 2 => [0xff; 32], _ => rng.arr() };
        let ctx: [u8; 8] = match ks { 0 => *b"hello123", 2 => [0xff; 8], _ => rng.arr() };
        for id in ids(&mut rng, extra_ids) {
            for len in 0..=80usize {
                let d = guard(|| {
                    let mut sub = vec![0u8; len];
                    crypto_kdf_derive_from_key(&mut sub, id, &ctx, &key).map(|_| sub)
                });
                let args = [i(len), b(&id.to_le_bytes()), b(&ctx), b(&key)];
                out.case("kdf.derive", &args, &d.clone().map(|v| vec![Tok::B(v)]), (16..=64).contains(&len));
                out.len_bucket("subkey", len);
                // the property itself, against libsodium
                out.search_evaluations += 1;
                let s = sodium::kdf_derive(len, id, &ctx, &key);
                let replay = json!({"op": "kdf.derive", "len": len, "id": id.to_string(), "ctx": hx(&ctx), "key": hx(&key),
                    "dryoc": format!("{:?}", d.clone().map(|v| hx(&v))), "libsodium": s.as_ref().map(|v| hx(v))});
                match (&d, &s) {
                    (Outcome::Ok(a), Some(bb)) if a == bb => {}
                    (Outcome::Err, None) => {}
                    (Outcome::Panic, _) => out.hit("kdf.derive.panic", format!("derive panics for len {}", len), replay),
                    (Outcome::Ok(_), Some(_)) => {
                        let sig = if len != 32 { "kdf.derive.len-not-32.differs-from-libsodium" } else { "kdf.derive.differs-from-libsodium" };
                        out.hit(sig, format!("subkey of length {} differs from libsodium (id {})", len, id), replay)
                    }
                    _ => out.hit("kdf.derive.accept-reject-differs", format!("length {}: dryoc {} libsodium {}", len, d.class(), s.is_some()), replay),
                }
            }
        }
        // object API: derive_subkey (32 bytes) and derive_subkey_to_vec must equal the classic call
        {
            use dryoc::kdf::{Context, Kdf, Key};
            use dryoc::types::*;
            for id in ids(&mut rng, 2) {
                let kdf: Kdf<Key, Context> = Kdf::from_parts(Key::from(&key), Context::from(&ctx));
                let o = guard(|| kdf.derive_subkey_to_vec(id));
                out.search_evaluations += 1;
                let s = sodium::kdf_derive(32, id, &ctx, &key);
                if o.clone().ok() != s {
                    out.hit("kdf.obj.derive_subkey_to_vec.differs-from-libsodium", format!("id {}", id),
                        json!({"op": "obj.Kdf.derive_subkey_to_vec", "id": id.to_string(), "ctx": hx(&ctx), "key": hx(&key)}));
                }
                let o2 = guard(|| kdf.derive_subkey::<StackByteArray<32>>(id)).map(|k| k.to_vec());
                if o2.ok() != s {
                    out.hit("kdf.obj.derive_subkey.differs-from-libsodium", format!("id {}", id),
                        json!({"op": "obj.Kdf.derive_subkey", "id": id.to_string(), "ctx": hx(&ctx), "key": hx(&key)}));
                }
            }
        }
    }
    // structured contexts / keys: zero bytes inside, unit vectors (an implementation that treats the
    // context or key as a C string, or drops a byte position, shows up only here)
    {
        let mut ctxs: Vec<[u8; 8]> = vec![[0u8; 8], [1, 0, 0, 0, 0, 0, 0, 2], [0, 0, 0, 0, 0, 0, 0, 1], [0xff, 0, 0xff, 0, 0xff, 0, 0xff, 0]];
        for k in 0..8 { let mut c = [0u8; 8]; c[k] = 0x80; ctxs.push(c); }
        let mut keys: Vec<[u8; 32]> = vec![rng.arr()];
        for k in [0usize, 15, 16, 31] { let mut kk = [0u8; 32]; kk[k] = 1; keys.push(kk); }
        for key in &keys {
            for ctx in &ctxs {
                for id in [0u64, 0x0100_0000_0000_0001] {
                    for len in [16usize, 31, 32, 33, 64] {
                        let d = guard(|| {
                            let mut sub = vec![0u8; len];
                            crypto_kdf_derive_from_key(&mut sub, id, ctx, key).map(|_| sub)
                        });
                        let args = [i(len), b(&id.to_le_bytes()), b(ctx), b(key)];
                        out.case("kdf.derive", &args, &d.clone().map(|v| vec![Tok::B(v)]), true);
                        out.search_evaluations += 1;
                        let s = sodium::kdf_derive(len, id, ctx, key);
                        if d.clone().ok() != s {
                            out.hit("kdf.derive.differs-from-libsodium", format!("structured context/key: len {} id {} ctx {} ", len, id, hx(ctx)),
                                json!({"op": "kdf.derive", "len": len, "id": id.to_string(), "ctx": hx(ctx), "key": hx(key),
                                       "dryoc": format!("{:?}", d.clone().map(|v| hx(&v))), "libsodium": s.as_ref().map(|v| hx(v))}));
                        }
                    }
                }
            }
        }
    }
    // distinctness: different ids / contexts / lengths give different subkeys
    {
        let key: [u8; 32] = rng.arr();
        let ctx: [u8; 8] = rng.arr();
        let mut seen = std::collections::HashMap::new();
        for id in 0..64u64 {
            for len in [16usize, 24, 32, 48, 64] {
                if let Outcome::Ok(sub) = guard(|| { let mut sub = vec![0u8; len]; crypto_kdf_derive_from_key(&mut sub, id, &ctx, &key).map(|_| sub) }) {
                    out.search_evaluations += 1;
                    // compare on the common 16-byte prefix: a length-blind derivation shows up as equal prefixes
                    let pre = sub[..16].to_vec();
                    if let Some((oid, olen)) = seen.insert(pre, (id, len)) {
                        out.hit("kdf.derive.subkeys-collide", format!("(id {}, len {}) and (id {}, len {}) share a 16-byte prefix", oid, olen, id, len),
                            json!({"op": "kdf.distinct", "key": hx(&key), "ctx": hx(&ctx), "a": [oid, olen as u64], "b": [id, len as u64]}));
                    }
                }
            }
        }
    }
    { let mut rng2 = Rng::new(seed, "c12-extra"); crate::objapi::conversions(out, &mut rng2); }
    crate::consts::check(out, &["CRYPTO_KDF"]);
}
