//! C05: X25519 exact for every scalar and point; DH, beforenm and key exchange agree with libsodium.
use crate::common::*;
use crate::sodium;
use dryoc::classic::crypto_box::crypto_box_beforenm;
use dryoc::classic::crypto_core::{crypto_scalarmult, crypto_scalarmult_base};
use dryoc::classic::crypto_kx::*;
use serde_json::json;

fn hexa(s: &str) -> [u8; 32] { let v = hex::decode(s).unwrap(); v.try_into().unwrap() }

/// low-order, non-canonical and boundary point encodings
pub fn special_points() -> Vec<(String, [u8; 32])> {
    let mut v: Vec<(String, [u8; 32])> = vec![];
    for (name, h) in [
        ("0", "0000000000000000000000000000000000000000000000000000000000000000"),
        ("1", "0100000000000000000000000000000000000000000000000000000000000000"),
        ("order8-a", "e0eb7a7c3b41b8ae1656e3faf19fc46ada098deb9c32b1fd866205165f49b800"),
        ("order8-b", "5f9c95bca3508c24b1d0b1559c83ef5b04445cc4581c8e86d8224eddd09f1157"),
        ("p-1", "ecffffffffffffffffffffffffffffffffffffffffffffffffffffffffffff7f"),
        ("p", "edffffffffffffffffffffffffffffffffffffffffffffffffffffffffffff7f"),
        ("p+1", "eeffffffffffffffffffffffffffffffffffffffffffffffffffffffffffff7f"),
        ("blocklist-cd", "cdeb7a7c3b41b8ae1656e3faf19fc46ada098deb9c32b1fd866205165f49b880"),
        ("blocklist-4c", "4c9c95bca3508c24b1d0b1559c83ef5b04445cc4581c8e86d8224eddd09f11d7"),
        ("2p-2", "d9ffffffffffffffffffffffffffffffffffffffffffffffffffffffffffffff"),
        ("2p-1", "daffffffffffffffffffffffffffffffffffffffffffffffffffffffffffffff"),
        ("2p", "dbffffffffffffffffffffffffffffffffffffffffffffffffffffffffffffff"),
        ("2^255-1", "ffffffffffffffffffffffffffffffffffffffffffffffffffffffffffffff7f"),
        ("2^256-1", "ffffffffffffffffffffffffffffffffffffffffffffffffffffffffffffffff"),
        ("p+2", "efffffffffffffffffffffffffffffffffffffffffffffffffffffffffffff7f"),
        ("p+18", "ffffffffffffffffffffffffffffffffffffffffffffffffffffffffffffff7f"),
        ("rfc-u1", "e6db6867583030db3594c1a424b15f7c726624ec26b3353b10a903a6d0ab1c4c"),
        ("rfc-u2", "e5210f12786811d3f4b7959d0538ae2c31dbe7106fc03c3efc4cd549c715a493"),
    ] { v.push((name.to_string(), hexa(h))); }
    for u in 2u8..=15 { let mut p = [0u8; 32]; p[0] = u; v.push((format!("u={}", u), p)); }
    // high-bit variants of all of the above
    let n = v.len();
    for k in 0..n { let (name, mut p) = v[k].clone(); if p[31] & 0x80 == 0 { p[31] |= 0x80; v.push((format!("{}|2^255", name), p)); } }
    v
}

pub fn special_scalars(rng: &mut Rng, n: usize) -> Vec<[u8; 32]> {
    let mut v = vec![[0u8; 32], [0xff; 32], hexa("a546e36bf0527c9d3b16154b82465edd62144c0ac1fc5a18506a2244ba449ac4"), hexa("4b66e9d4d1b4673c5ad22691957d6af5c11b6421e0ea01d42ca4169e7918ba0d")];
    let mut one = [0u8; 32]; one[0] = 1; v.push(one);
    while v.len() < n { v.push(rng.arr()); }
    v
}

fn d_mult(n: &[u8; 32], p: &[u8; 32]) -> Outcome<[u8; 32]> { guard_total(|| { let mut q = [0u8; 32]; crypto_scalarmult(&mut q, n, p); q }) }
fn d_base(n: &[u8; 32]) -> Outcome<[u8; 32]> { guard_total(|| { let mut q = [0u8; 32]; crypto_scalarmult_base(&mut q, n); q }) }

pub fn run(out: &mut Out, tier: &str, seed: u64) {
    let mut rng = Rng::new(seed, "c05");
    let thorough = tier == "thorough";
    let scalars = special_scalars(&mut rng, if thorough { 24 } else { 8 });
    let mut points = special_points();
    for k in 0..(if thorough { 600 } else { 120 }) { points.push((format!("random#{}", k), rng.arr())); }
    // neighbours of the special encodings: every value of the first and of the last byte (an
    // implementation that recognises special points by a partial comparison shows up only here)
    let base_specials: Vec<(String, [u8; 32])> = special_points().into_iter().filter(|(n, _)| !n.contains('|') && !n.starts_with("u=") && !n.starts_with("rfc")).collect();
    let mut near: Vec<(String, [u8; 32])> = vec![];
    for (name, p) in base_specials.iter() {
        for pos in [0usize, 31, 15, 30] {
            let step = if pos == 0 || pos == 31 { 1 } else { 17 };
            for v in (0..=255u16).step_by(step) { let mut q = *p; if q[pos] != v as u8 { q[pos] = v as u8; near.push((format!("{}[{}]={:#x}", name, pos, v), q)); } }
        }
    }
    for (k, (name, p)) in near.iter().enumerate() {
        let n = &scalars[2 + k % 2];
        let d = d_mult(n, p);
        let (s, _) = sodium::scalarmult_raw(n, p);
        out.search_evaluations += 1;
        if d.clone().ok() != Some(s) {
            out.hit("scalarmult.differs-from-libsodium.near-special-point", format!("point {}", name), json!({"op":"scalarmult.mult","n":hx(n),"p":hx(p),"point":name,"dryoc":format!("{:?}", d.map(|q| hx(&q))),"libsodium":hx(&s)}));
        }
    }
    let mut model_budget = if thorough { 160 } else { 40 };
    for (si, n) in scalars.iter().enumerate() {
        for (pi, (name, p)) in points.iter().enumerate() {
            let d = d_mult(n, p);
            let (s, _acc) = sodium::scalarmult_raw(n, p);
            out.search_evaluations += 1;
            let class = if name.starts_with("random") { "random-point" } else { "special-point" };
            match &d {
                Outcome::Ok(q) if *q == s => {}
                Outcome::Ok(q) => out.hit(&format!("scalarmult.differs-from-libsodium.{}", class), format!("point {} scalar #{}", name, si),
                    json!({"op":"scalarmult.mult","n":hx(n),"p":hx(p),"point":name,"dryoc":hx(q),"libsodium":hx(&s)})),
                _ => out.hit("scalarmult.panics", format!("point {}", name), json!({"op":"scalarmult.mult","n":hx(n),"p":hx(p)})),
            }
            // a slice of the table goes through the extracted RFC 7748 model
            let pick = (si == 2 && pi < 12) || (si + pi * 7) % 97 == 0 || (si == 5 && pi % 9 == 0);
            if pick && model_budget > 0 {
                model_budget -= 1;
                out.case("scalarmult.mult", &[b(n), b(p)], &d.map(|q| vec![b(&q)]), true);
            }
        }
        let dbase = d_base(n);
        out.search_evaluations += 1;
        if dbase.clone().ok() != Some(sodium::scalarmult_base(n)) { out.hit("scalarmult.base.differs-from-libsodium", format!("scalar #{}", si), json!({"op":"scalarmult.base","n":hx(n)})); }
        if si < 4 { out.case("scalarmult.base", &[b(n)], &dbase.map(|q| vec![b(&q)]), true); }
    }
    // box precomputation over the same point table (twist, small-order component, non-canonical and random
    // encodings): HSalsa20 of the X25519 output, wherever libsodium computes one (it refuses the all-zero secret)
    {
        let mut model_budget = 12;
        for (pi, (name, p)) in points.iter().enumerate() {
            for n in scalars.iter().skip(pi % 3).step_by(3).take(2) {
                out.search_evaluations += 1;
                if let Some(want) = sodium::box_beforenm(p, n) {
                    let bn = guard_total(|| crypto_box_beforenm(p, n));
                    if bn.clone().ok() != Some(want) {
                        out.hit("box.beforenm.differs-from-libsodium.point-table", format!("point {}", name), json!({"op":"box.beforenm","pk":hx(p),"sk":hx(n),"point":name}));
                    }
                    if model_budget > 0 && (pi % 5 == 0) { model_budget -= 1; out.case("box.beforenm", &[b(p), b(n)], &bn.map(|k| vec![b(&k)]), true); }
                }
            }
        }
    }
    // RFC 7748 iterated vector (1 and 1000 iterations; 1 000 000 in thorough)
    {
        let mut k = { let mut x = [0u8; 32]; x[0] = 9; x };
        let mut u = k;
        let iters = if thorough { 1_000_000 } else { 1000 };
        for it in 1..=iters {
            let mut q = [0u8; 32];
            crypto_scalarmult(&mut q, &k, &u);
            u = k; k = q;
            let want = match it { 1 => Some("422c8e7a6227d7bca1350b3e2bb7279f7897b87bb6854b783c60e80311ae3079"), 1000 => Some("684cf59ba83309552800ef566f2f4d3c1c3887c49360e3875f2eb94d99532c51"), 1_000_000 => Some("7c3911e0ab2586fd864497297e575e6f3bc601c0883c30df5f4dd2d24f665424"), _ => None };
            if let Some(w) = want { out.search_evaluations += 1; if hx(&k) != w { out.hit("scalarmult.rfc7748-iterated-vector", format!("after {} iterations", it), json!({"op":"scalarmult.iterated","iterations":it,"got":hx(&k),"want":w})); } }
        }
    }
    // DH commutes, beforenm and kx against libsodium; mirroring; zero shared secret refused
    let pairs = if thorough { 64 } else { 16 };
    for r in 0..pairs {
        let (ska, skb): ([u8; 32], [u8; 32]) = (rng.arr(), rng.arr());
        let pka = sodium::scalarmult_base(&ska); let pkb = sodium::scalarmult_base(&skb);
        out.search_evaluations += 6;
        let ab = d_mult(&ska, &pkb).ok(); let ba = d_mult(&skb, &pka).ok();
        if ab != ba { out.hit("scalarmult.dh-does-not-commute", format!("pair {}", r), json!({"ska":hx(&ska),"skb":hx(&skb)})); }
        let bn = guard_total(|| crypto_box_beforenm(&pkb, &ska));
        if bn.clone().ok() != sodium::box_beforenm(&pkb, &ska) { out.hit("box.beforenm.differs-from-libsodium", format!("pair {}", r), json!({"op":"box.beforenm","pk":hx(&pkb),"sk":hx(&ska)})); }
        if r < 3 { out.case("box.beforenm", &[b(&pkb), b(&ska)], &bn.map(|k| vec![b(&k)]), true); }
        let c = guard(|| { let (mut rx, mut tx) = ([0u8; 32], [0u8; 32]); crypto_kx_client_session_keys(&mut rx, &mut tx, &pka, &ska, &pkb).map(|_| (rx, tx)) });
        let s = guard(|| { let (mut rx, mut tx) = ([0u8; 32], [0u8; 32]); crypto_kx_server_session_keys(&mut rx, &mut tx, &pkb, &skb, &pka).map(|_| (rx, tx)) });
        if c.clone().ok() != sodium::kx_client(&pka, &ska, &pkb) { out.hit("kx.client.differs-from-libsodium", format!("pair {}", r), json!({"op":"kx.client","cpk":hx(&pka),"csk":hx(&ska),"spk":hx(&pkb)})); }
        if s.clone().ok() != sodium::kx_server(&pkb, &skb, &pka) { out.hit("kx.server.differs-from-libsodium", format!("pair {}", r), json!({"op":"kx.server","spk":hx(&pkb),"ssk":hx(&skb),"cpk":hx(&pka)})); }
        if let (Outcome::Ok((crx, ctx)), Outcome::Ok((srx, stx))) = (&c, &s) { if crx != stx || ctx != srx { out.hit("kx.not-mirrored", format!("pair {}", r), json!({"ska":hx(&ska),"skb":hx(&skb)})); } }
        if r < 3 {
            out.case("kx.client", &[b(&pka), b(&ska), b(&pkb)], &c.map(|(a, bb)| vec![b(&a), b(&bb)]), true);
            out.case("kx.server", &[b(&pkb), b(&skb), b(&pka)], &s.map(|(a, bb)| vec![b(&a), b(&bb)]), true);
        }
        // peer keys presented with the unused top bit set (RFC 7748 ignores it in the DH, but the
        // transcript hash covers the bytes as received)
        {
            let mut pkb_hi = pkb; pkb_hi[31] |= 0x80;
            let mut pka_hi = pka; pka_hi[31] |= 0x80;
            out.search_evaluations += 3;
            let c = guard(|| { let (mut rx, mut tx) = ([0u8; 32], [0u8; 32]); crypto_kx_client_session_keys(&mut rx, &mut tx, &pka, &ska, &pkb_hi).map(|_| (rx, tx)) });
            if c.clone().ok() != sodium::kx_client(&pka, &ska, &pkb_hi) { out.hit("kx.client.differs-from-libsodium.high-bit-peer-key", format!("pair {}", r), json!({"op":"kx.client","cpk":hx(&pka),"csk":hx(&ska),"spk":hx(&pkb_hi)})); }
            let s2 = guard(|| { let (mut rx, mut tx) = ([0u8; 32], [0u8; 32]); crypto_kx_server_session_keys(&mut rx, &mut tx, &pkb, &skb, &pka_hi).map(|_| (rx, tx)) });
            if s2.clone().ok() != sodium::kx_server(&pkb, &skb, &pka_hi) { out.hit("kx.server.differs-from-libsodium.high-bit-peer-key", format!("pair {}", r), json!({"op":"kx.server","spk":hx(&pkb),"ssk":hx(&skb),"cpk":hx(&pka_hi)})); }
            let bn = guard_total(|| crypto_box_beforenm(&pkb_hi, &ska));
            if bn.ok() != sodium::box_beforenm(&pkb_hi, &ska) { out.hit("box.beforenm.differs-from-libsodium.high-bit-peer-key", format!("pair {}", r), json!({"op":"box.beforenm","pk":hx(&pkb_hi),"sk":hx(&ska)})); }
            if r < 2 {
                out.case("kx.client", &[b(&pka), b(&ska), b(&pkb_hi)], &c.map(|(a, bb)| vec![b(&a), b(&bb)]), true);
                out.case("kx.server", &[b(&pkb), b(&skb), b(&pka_hi)], &s2.map(|(a, bb)| vec![b(&a), b(&bb)]), true);
            }
        }
        // object API
        {
            use dryoc::kx::Session;
            use dryoc::types::*;
            let ckp = dryoc::kx::KeyPair::from_secret_key(StackByteArray::<32>::from(&ska));
            let skp = dryoc::kx::KeyPair::from_secret_key(StackByteArray::<32>::from(&skb));
            let cs = guard(|| Session::<StackByteArray<32>>::new_client(&ckp, &skp.public_key));
            let ss = guard(|| Session::<StackByteArray<32>>::new_server(&skp, &ckp.public_key));
            if let (Outcome::Ok(cs), Outcome::Ok(ss), Some((lrx, ltx))) = (cs, ss, sodium::kx_client(&pka, &ska, &pkb)) {
                if cs.rx_as_slice() != lrx || cs.tx_as_slice() != ltx || ss.rx_as_slice() != ltx || ss.tx_as_slice() != lrx { out.hit("obj.kx.session.differs-from-libsodium", format!("pair {}", r), json!({"ska":hx(&ska),"skb":hx(&skb)})); }
            } else { out.hit("obj.kx.session.fails", format!("pair {}", r), json!({"ska":hx(&ska),"skb":hx(&skb)})); }
        }
    }
    // peer keys whose shared secret is all-zero must be refused by kx (and by libsodium)
    for (name, p) in special_points() {
        let sk: [u8; 32] = rng.arr();
        let pk = sodium::scalarmult_base(&sk);
        let (q, acc) = sodium::scalarmult_raw(&sk, &p);
        if acc || q != [0u8; 32] { continue; }
        out.search_evaluations += 2;
        let c = guard(|| { let (mut rx, mut tx) = ([0u8; 32], [0u8; 32]); crypto_kx_client_session_keys(&mut rx, &mut tx, &pk, &sk, &p).map(|_| (rx, tx)) });
        let s = guard(|| { let (mut rx, mut tx) = ([0u8; 32], [0u8; 32]); crypto_kx_server_session_keys(&mut rx, &mut tx, &pk, &sk, &p).map(|_| (rx, tx)) });
        if !c.is_err() { out.hit("kx.client.accepts-zero-shared-secret", format!("peer key {} ({})", name, c.class()), json!({"op":"kx.client","cpk":hx(&pk),"csk":hx(&sk),"spk":hx(&p),"point":name})); }
        if !s.is_err() { out.hit("kx.server.accepts-zero-shared-secret", format!("peer key {} ({})", name, s.class()), json!({"op":"kx.server","spk":hx(&pk),"ssk":hx(&sk),"cpk":hx(&p),"point":name})); }
        if name == "0" || name == "order8-a" { out.case("kx.client", &[b(&pk), b(&sk), b(&p)], &c.map(|(a, bb)| vec![b(&a), b(&bb)]), true); }
    }
    crate::objapi::kx(out, &mut rng);
    #[cfg(feature = "nightly")]
    crate::c18::containers(out, &mut rng, false);
    crate::objapi::seeded_object_keys(out, &mut rng);
    crate::consts::check(out, &["CRYPTO_KX", "CRYPTO_SCALARMULT"]);
}
