//! C07 (primitives = specification) and C08 (incremental = one-shot).
use crate::common::*;
use crate::sodium;
use dryoc::classic::crypto_auth::*;
use dryoc::classic::crypto_core::{crypto_core_hchacha20, crypto_core_hsalsa20};
use dryoc::classic::crypto_generichash::*;
use dryoc::classic::crypto_hash::*;
use dryoc::classic::crypto_onetimeauth::*;
use dryoc::classic::crypto_shorthash::crypto_shorthash;
use serde_json::json;

pub fn d_generichash(outlen: usize, input: &[u8], key: Option<&[u8]>) -> Outcome<Vec<u8>> {
    guard(|| { let mut o = vec![0u8; outlen]; crypto_generichash(&mut o, input, key).map(|_| o) })
}
pub fn d_generichash_chunks(outlen: usize, key: Option<&[u8]>, chunks: &[&[u8]], fin: usize) -> Outcome<Vec<u8>> {
    guard(|| {
        let mut st = crypto_generichash_init(key, outlen)?;
        for c in chunks { crypto_generichash_update(&mut st, c); }
        let mut o = vec![0u8; fin];
        crypto_generichash_final(st, &mut o).map(|_| o)
    })
}
pub fn d_onetimeauth(msg: &[u8], key: &[u8; 32]) -> [u8; 16] {
    let mut m = [0u8; 16]; crypto_onetimeauth(&mut m, msg, key); m
}
pub fn d_onetimeauth_chunks(key: &[u8; 32], chunks: &[&[u8]]) -> [u8; 16] {
    let mut st = crypto_onetimeauth_init(key);
    for c in chunks { crypto_onetimeauth_update(&mut st, c); }
    let mut m = [0u8; 16]; crypto_onetimeauth_final(st, &mut m); m
}
pub fn d_auth(msg: &[u8], key: &[u8; 32]) -> [u8; 32] {
    let mut m = [0u8; 32]; crypto_auth(&mut m, msg, key); m
}
pub fn d_auth_chunks(key: &[u8; 32], chunks: &[&[u8]]) -> [u8; 32] {
    let mut st = crypto_auth_init(key);
    for c in chunks { crypto_auth_update(&mut st, c); }
    let mut m = [0u8; 32]; crypto_auth_final(st, &mut m); m
}
pub fn d_sha512(msg: &[u8]) -> [u8; 64] {
    let mut d = [0u8; 64]; crypto_hash_sha512(&mut d, msg); d
}
pub fn d_sha512_chunks(chunks: &[&[u8]]) -> [u8; 64] {
    let mut st = crypto_hash_sha512_init();
    for c in chunks { crypto_hash_sha512_update(&mut st, c); }
    let mut d = [0u8; 64]; crypto_hash_sha512_final(st, &mut d); d
}
pub fn d_shorthash(msg: &[u8], key: &[u8; 16]) -> [u8; 8] {
    let mut h = [0u8; 8]; crypto_shorthash(&mut h, msg, key); h
}

fn chunk_tok(chunks: &[&[u8]]) -> Tok { Tok::L(chunks.iter().map(|c| b(c)).collect()) }
fn ok1(v: &[u8]) -> Outcome<Vec<Tok>> { Outcome::Ok(vec![b(v)]) }

/// message families of a given length: PRNG, all-0xff, all-zero, counting
fn msg_of(rng: &mut Rng, len: usize, fam: usize) -> Vec<u8> {
    match fam % 4 { 0 => rng.bytes(len), 1 => vec![0xff; len], 2 => vec![0; len], _ => (0..len).map(|x| x as u8).collect() }
}

/// Poly1305 operands steering the unreduced accumulator onto p-3..p+4, 2^130-1, 2^130.. :
/// r = 1 (or 2), blocks chosen so that the sum of (block + 2^128) hits the target.
pub fn poly_adversarial() -> Vec<([u8; 32], Vec<u8>, String)> {
    let mut v = vec![];
    for s_kind in 0..3 {
        let s: [u8; 16] = match s_kind { 0 => [0; 16], 1 => [0xff; 16], _ => { let mut x = [0u8; 16]; x[0] = 5; x } };
        for r in [1u8, 2u8] {
            let mut key = [0u8; 32];
            key[0] = r;
            key[16..].copy_from_slice(&s);
            // two blocks: ff*16 (n = 2^129 - 1) and v (n = v + 2^128); sum = 2^129 - 1 + 2^128 + v
            // want sum = p + d = 2^130 - 5 + d  =>  v = 2^128 - 4 + d   (d in -8..=3 keeps v < 2^128)
            for d in -8i64..=3 {
                let vv: u128 = (u128::MAX - 3).wrapping_add(d as u128); // 2^128 - 4 + d
                let mut m = vec![0xffu8; 16];
                m.extend_from_slice(&vv.to_le_bytes());
                v.push((key, m.clone(), format!("r={} s{} acc=p{:+}", r, s_kind, d)));
                // followed by zero blocks (n = 2^128): sum = p + d + k*2^128
                let mut m2 = m.clone(); m2.extend_from_slice(&[0u8; 16]);
                v.push((key, m2, format!("r={} s{} acc=p{:+}+2^128", r, s_kind, d)));
                let mut m3 = m.clone(); m3.extend_from_slice(&[0xffu8; 7]);
                v.push((key, m3, format!("r={} s{} acc=p{:+} then 7-byte tail", r, s_kind, d)));
            }
            // three ff blocks and variations: sums around 3*2^129
            for k in 1..=6 {
                v.push((key, vec![0xffu8; 16 * k], format!("r={} s{} {} ff-blocks", r, s_kind, k)));
                v.push((key, vec![0xffu8; 16 * k + 15], format!("r={} s{} {} ff-blocks+15", r, s_kind, k)));
            }
        }
        // clamped maximum r with all-ff messages
        let mut key = [0xffu8; 32];
        key[16..].copy_from_slice(&s);
        for k in [1usize, 2, 3, 4, 8, 16, 17, 33, 64, 65] {
            v.push((key, vec![0xffu8; k * 16], format!("r=max s{} {} ff-blocks", s_kind, k)));
            v.push((key, vec![0xffu8; k * 16 + 1], format!("r=max s{} {} ff-blocks+1", s_kind, k)));
        }
    }
    v
}

pub fn run_c07(out: &mut Out, tier: &str, seed: u64) {
    let mut rng = Rng::new(seed, "c07");
    let thorough = tier == "thorough";
    let max_len = 1100usize;
    let model_all = if thorough { 520 } else { 260 };
    let key32: [u8; 32] = rng.arr();
    let key16: [u8; 16] = rng.arr();
    for len in 0..=max_len {
        // the model sees every length up to model_all and a stride above it
        let to_model = len <= model_all || len % 37 == 0 || len % 128 <= 1 || len == max_len;
        let fams = if len <= 130 { 4 } else { 1 };
        for fam in 0..fams {
            let fam = if fams == 1 { len } else { fam };
            let msg = msg_of(&mut rng, len, fam);
            let k32: [u8; 32] = if fam % 4 == 1 { [0xff; 32] } else { key32 };
            // one-time auth
            let m = d_onetimeauth(&msg, &k32);
            out.search_evaluations += 1;
            if m != sodium::onetimeauth(&msg, &k32) {
                out.hit("onetimeauth.differs-from-libsodium", format!("len {}", len), json!({"op":"onetimeauth.mac","key":hx(&k32),"msg":hx(&msg)}));
            }
            if to_model { out.case("onetimeauth.mac", &[b(&k32), b(&msg)], &ok1(&m), true); out.len_bucket("onetimeauth", len); }
            // auth
            let a = d_auth(&msg, &k32);
            out.search_evaluations += 1;
            if a != sodium::auth(&msg, &k32) {
                out.hit("auth.differs-from-libsodium", format!("len {}", len), json!({"op":"auth.mac","key":hx(&k32),"msg":hx(&msg)}));
            }
            if to_model && (len <= 140 || len % 64 <= 1) { out.case("auth.mac", &[b(&k32), b(&msg)], &ok1(&a), true); }
            // sha512
            let h = d_sha512(&msg);
            out.search_evaluations += 1;
            if h != sodium::sha512(&msg) {
                out.hit("sha512.differs-from-libsodium", format!("len {}", len), json!({"op":"hash.sha512","msg":hx(&msg)}));
            }
            if to_model && (len <= 140 || len % 64 <= 1) { out.case("hash.sha512", &[b(&msg)], &ok1(&h), true); }
            // shorthash
            let sh = d_shorthash(&msg, &key16);
            out.search_evaluations += 1;
            if sh != sodium::shorthash(&msg, &key16) {
                out.hit("shorthash.differs-from-libsodium", format!("len {}", len), json!({"op":"shorthash.hash","key":hx(&key16),"msg":hx(&msg)}));
            }
            if to_model { out.case("shorthash.hash", &[b(&key16), b(&msg)], &ok1(&sh), true); }
            // generichash, default sizes, unkeyed and keyed
            for (outlen, key) in [(32usize, None), (64usize, Some(&key32[..]))] {
                let g = d_generichash(outlen, &msg, key);
                out.search_evaluations += 1;
                if g.clone().ok() != sodium::generichash(outlen, &msg, key) {
                    out.hit("generichash.differs-from-libsodium", format!("len {} outlen {}", len, outlen), json!({"op":"generichash.hash","outlen":outlen,"key":key.map(hx),"msg":hx(&msg)}));
                }
                if to_model {
                    let kt = key.map(b).unwrap_or(Tok::N);
                    out.case("generichash.hash", &[i(outlen), b(&msg), kt], &g.map(|v| vec![Tok::B(v)]), true);
                    out.len_bucket("generichash", len);
                }
            }
        }
    }
    // every digest length x key length pair (and the rejected ones around the range)
    for outlen in 0..=70usize {
        for keylen in (0..=70usize).filter(|k| *k == 0 || *k >= 14) {
            if !thorough && !(outlen <= 17 || outlen >= 63 || keylen <= 17 || keylen >= 63 || (outlen + keylen) % 5 == 0) { continue; }
            let key = rng.bytes(keylen);
            let keyo = if keylen == 0 { None } else { Some(&key[..]) };
            for mlen in [0usize, 1, 127, 128, 129, 300] {
                if !thorough && mlen == 300 && (outlen + keylen) % 3 != 0 { continue; }
                let msg = rng.bytes(mlen);
                let g = d_generichash(outlen, &msg, keyo);
                out.search_evaluations += 1;
                let valid = (16..=64).contains(&outlen) && (keylen == 0 || (16..=64).contains(&keylen));
                let s = if valid { sodium::generichash(outlen, &msg, keyo) } else { None };
                if g.clone().ok() != s {
                    out.hit("generichash.pair.differs-from-libsodium", format!("outlen {} keylen {} mlen {}", outlen, keylen, mlen),
                        json!({"op":"generichash.hash","outlen":outlen,"key":keyo.map(hx),"msg":hx(&msg)}));
                }
                if g.is_panic() { out.hit("generichash.panic", format!("outlen {} keylen {}", outlen, keylen), json!({"outlen":outlen,"keylen":keylen})); }
                if mlen <= 129 {
                    out.case("generichash.hash", &[i(outlen), b(&msg), keyo.map(b).unwrap_or(Tok::N)], &g.map(|v| vec![Tok::B(v)]), valid);
                }
            }
        }
    }
    // adversarial Poly1305 operands
    for (key, msg, what) in poly_adversarial() {
        let m = d_onetimeauth(&msg, &key);
        out.search_evaluations += 1;
        let s = sodium::onetimeauth(&msg, &key);
        if m != s {
            out.hit("onetimeauth.carry.differs-from-libsodium", what.clone(), json!({"op":"onetimeauth.mac","key":hx(&key),"msg":hx(&msg),"dryoc":hx(&m),"libsodium":hx(&s),"what":what}));
        }
        out.case("onetimeauth.mac", &[b(&key), b(&msg)], &ok1(&m), true);
        // verify accepts the right authenticator and rejects single-bit changes
        let v = guard(|| crypto_onetimeauth_verify(&s, &msg, &key));
        out.search_evaluations += 1;
        if !v.is_ok() { out.hit("onetimeauth.verify.rejects-correct-mac", what.clone(), json!({"op":"onetimeauth.verify","key":hx(&key),"msg":hx(&msg),"mac":hx(&s)})); }
        out.case("onetimeauth.verify", &[b(&s), b(&msg), b(&key)], &v.map(|_| vec![]), true);
    }
    // verify functions: accept the correct authenticator, reject every single-bit change
    for len in [0usize, 1, 15, 16, 17, 63, 64, 65, 127, 128, 129, 200] {
        let msg = rng.bytes(len);
        let mac = d_onetimeauth(&msg, &key32);
        let amac = d_auth(&msg, &key32);
        out.search_evaluations += 2;
        if !guard(|| crypto_onetimeauth_verify(&mac, &msg, &key32)).is_ok() { out.hit("onetimeauth.verify.rejects-correct-mac", format!("len {}", len), json!({"len":len})); }
        if !guard(|| crypto_auth_verify(&amac, &msg, &key32)).is_ok() { out.hit("auth.verify.rejects-correct-mac", format!("len {}", len), json!({"len":len})); }
        out.case("onetimeauth.verify", &[b(&mac), b(&msg), b(&key32)], &Outcome::Ok(vec![]), true);
        out.case("auth.verify", &[b(&amac), b(&msg), b(&key32)], &Outcome::Ok(vec![]), true);
        for bit in 0..128 {
            let mut bad = mac; bad[bit / 8] ^= 1 << (bit % 8);
            let r = guard(|| crypto_onetimeauth_verify(&bad, &msg, &key32));
            out.search_evaluations += 1;
            if !r.is_err() { out.hit("onetimeauth.verify.accepts-wrong-mac", format!("len {} bit {}", len, bit), json!({"op":"onetimeauth.verify","key":hx(&key32),"msg":hx(&msg),"mac":hx(&bad)})); }
            if bit % 17 == 0 { out.case("onetimeauth.verify", &[b(&bad), b(&msg), b(&key32)], &r.map(|_| vec![]), true); }
        }
        for bit in 0..256 {
            let mut bad = amac; bad[bit / 8] ^= 1 << (bit % 8);
            let r = guard(|| crypto_auth_verify(&bad, &msg, &key32));
            out.search_evaluations += 1;
            if !r.is_err() { out.hit("auth.verify.accepts-wrong-mac", format!("len {} bit {}", len, bit), json!({"op":"auth.verify","key":hx(&key32),"msg":hx(&msg),"mac":hx(&bad)})); }
            if bit % 41 == 0 && len <= 65 { out.case("auth.verify", &[b(&bad), b(&msg), b(&key32)], &r.map(|_| vec![]), true); }
        }
    }
    // the object API's verify entry points (one-shot and incremental, array and Vec authenticators): accept the
    // correct authenticator, reject every single-bit change
    {
        use dryoc::auth::Auth;
        use dryoc::onetimeauth::OnetimeAuth;
        use dryoc::types::*;
        for len in [0usize, 1, 16, 33, 64, 129] {
            let msg = rng.bytes(len);
            let cut = if len == 0 { 0 } else { (rng.below(len as u64 + 1)) as usize };
            let amac = sodium::auth(&msg, &key32);
            let omac = sodium::onetimeauth(&msg, &key32);
            let k = || StackByteArray::<32>::from(&key32);
            let auth_inc = |mac: &[u8; 32]| guard(|| { let mut a = Auth::new(k()); a.update(&msg[..cut].to_vec()); a.update(&msg[cut..].to_vec()); a.verify(&StackByteArray::<32>::from(mac)) });
            let auth_inc_vec = |mac: &[u8; 32]| guard(|| { let mut a = Auth::new(k()); a.update(&msg); a.verify(&mac.to_vec()) });
            let auth_one = |mac: &[u8; 32]| guard(|| Auth::compute_and_verify(&StackByteArray::<32>::from(mac), k(), &msg));
            let ota_inc = |mac: &[u8; 16]| guard(|| { let mut a = OnetimeAuth::new(k()); a.update(&msg[..cut].to_vec()); a.update(&msg[cut..].to_vec()); a.verify(&StackByteArray::<16>::from(mac)) });
            let ota_inc_vec = |mac: &[u8; 16]| guard(|| { let mut a = OnetimeAuth::new(k()); a.update(&msg); a.verify(&mac.to_vec()) });
            let ota_one = |mac: &[u8; 16]| guard(|| OnetimeAuth::compute_and_verify(&StackByteArray::<16>::from(mac), k(), &msg));
            out.search_evaluations += 6;
            for (name, r) in [("obj.auth.verify", auth_inc(&amac)), ("obj.auth.verify.vec", auth_inc_vec(&amac)), ("obj.auth.compute_and_verify", auth_one(&amac)),
                              ("obj.onetimeauth.verify", ota_inc(&omac)), ("obj.onetimeauth.verify.vec", ota_inc_vec(&omac)), ("obj.onetimeauth.compute_and_verify", ota_one(&omac))] {
                if !r.is_ok() { out.hit(&format!("{}.rejects-correct-mac", name), format!("len {} split {}", len, cut), json!({"op":name,"key":hx(&key32),"msg":hx(&msg),"split":cut})); }
            }
            for bit in 0..256 {
                let mut bad = amac; bad[bit / 8] ^= 1 << (bit % 8);
                out.search_evaluations += 3;
                for (name, r) in [("obj.auth.verify", auth_inc(&bad)), ("obj.auth.verify.vec", auth_inc_vec(&bad)), ("obj.auth.compute_and_verify", auth_one(&bad))] {
                    if !r.is_err() { out.hit(&format!("{}.accepts-wrong-mac", name), format!("len {} bit {}", len, bit), json!({"op":name,"key":hx(&key32),"msg":hx(&msg),"mac":hx(&bad)})); }
                }
            }
            for bit in 0..128 {
                let mut bad = omac; bad[bit / 8] ^= 1 << (bit % 8);
                out.search_evaluations += 3;
                for (name, r) in [("obj.onetimeauth.verify", ota_inc(&bad)), ("obj.onetimeauth.verify.vec", ota_inc_vec(&bad)), ("obj.onetimeauth.compute_and_verify", ota_one(&bad))] {
                    if !r.is_err() { out.hit(&format!("{}.accepts-wrong-mac", name), format!("len {} bit {}", len, bit), json!({"op":name,"key":hx(&key32),"msg":hx(&msg),"mac":hx(&bad)})); }
                }
            }
        }
    }
    // the multi-part entry points against the specification as well (one three-way split per length; every split is C08's)
    for len in (0..=max_len).step_by(if thorough { 1 } else { 3 }) {
        let msg = msg_of(&mut rng, len, len);
        let a = rng.below(len as u64 + 1) as usize; let bq = a + rng.below((len - a) as u64 + 1) as usize;
        let pieces: [&[u8]; 3] = [&msg[..a], &msg[a..bq], &msg[bq..]];
        out.search_evaluations += 4;
        let rp = json!({"key":hx(&key32),"msg":hx(&msg),"split":[a, bq - a, len - bq]});
        if d_onetimeauth_chunks(&key32, &pieces) != sodium::onetimeauth(&msg, &key32) { out.hit("onetimeauth.multi-part.differs-from-libsodium", format!("len {} split {:?}", len, [a, bq - a, len - bq]), rp.clone()); }
        if d_auth_chunks(&key32, &pieces) != sodium::auth(&msg, &key32) { out.hit("auth.multi-part.differs-from-libsodium", format!("len {} split {:?}", len, [a, bq - a, len - bq]), rp.clone()); }
        if d_sha512_chunks(&pieces) != sodium::sha512(&msg) { out.hit("sha512.multi-part.differs-from-libsodium", format!("len {} split {:?}", len, [a, bq - a, len - bq]), rp.clone()); }
        if d_generichash_chunks(32, None, &pieces, 32).ok() != sodium::generichash(32, &msg, None) { out.hit("generichash.multi-part.differs-from-libsodium", format!("len {} split {:?}", len, [a, bq - a, len - bq]), rp.clone()); }
    }
    // the core functions with constants supplied by the caller (four distinct words, sigma passed explicitly, tau)
    for cw in [(1u32, 2u32, 3u32, 4u32), (0x61707865, 0x3320646e, 0x79622d32, 0x6b206574), (0x61707865, 0x3120646e, 0x79622d36, 0x6b206574), (0xffffffff, 0, 0x80000000, 0x7fffffff)] {
        let (key, input): ([u8; 32], [u8; 16]) = (rng.arr(), rng.arr());
        let cb: [u8; 16] = [cw.0.to_le_bytes(), cw.1.to_le_bytes(), cw.2.to_le_bytes(), cw.3.to_le_bytes()].concat().try_into().unwrap();
        out.search_evaluations += 2;
        let mut o = [0u8; 32]; crypto_core_hsalsa20(&mut o, &input, &key, Some(cw));
        if o != sodium::hsalsa20_c(&input, &key, &cb) { out.hit("hsalsa20.custom-constants.differs-from-libsodium", format!("constants {:?}", cw), json!({"op":"core.hsalsa20.constants","key":hx(&key),"input":hx(&input),"constants":hx(&cb)})); }
        let mut o2 = [0u8; 32]; crypto_core_hchacha20(&mut o2, &input, &key, Some(cw));
        if o2 != sodium::hchacha20_c(&input, &key, &cb) { out.hit("hchacha20.custom-constants.differs-from-libsodium", format!("constants {:?}", cw), json!({"op":"core.hchacha20.constants","key":hx(&key),"input":hx(&input),"constants":hx(&cb)})); }
    }
    // cores and increment
    let n = if thorough { 400 } else { 96 };
    for k in 0..n {
        let (key, input): ([u8; 32], [u8; 16]) = match k { 0 => ([0; 32], [0; 16]), 1 => ([0xff; 32], [0xff; 16]), _ => (rng.arr(), rng.arr()) };
        let mut o = [0u8; 32];
        crypto_core_hsalsa20(&mut o, &input, &key, None);
        out.search_evaluations += 2;
        if o != sodium::hsalsa20(&input, &key) { out.hit("hsalsa20.differs-from-libsodium", format!("case {}", k), json!({"op":"core.hsalsa20","key":hx(&key),"input":hx(&input)})); }
        out.case("core.hsalsa20", &[b(&key), b(&input)], &ok1(&o), true);
        let mut o2 = [0u8; 32];
        crypto_core_hchacha20(&mut o2, &input, &key, None);
        if o2 != sodium::hchacha20(&input, &key) { out.hit("hchacha20.differs-from-libsodium", format!("case {}", k), json!({"op":"core.hchacha20","key":hx(&key),"input":hx(&input)})); }
        out.case("core.hchacha20", &[b(&key), b(&input)], &ok1(&o2), true);
    }
    for len in 0..=40usize {
        for fam in 0..6 {
            let mut v: Vec<u8> = match fam {
                0 => vec![0; len], 1 => vec![0xff; len],
                2 => { let mut x = vec![0xff; len]; if len > 0 { x[len - 1] = 0x7f; } x }
                3 => { let mut x = vec![0xff; len]; if len > 1 { x[len / 2] = 0xfe; } x }
                _ => rng.bytes(len) };
            let orig = v.clone();
            let mut w = v.clone();
            dryoc::utils::increment_bytes(&mut v);
            sodium::increment(&mut w);
            out.search_evaluations += 1;
            if v != w { out.hit("increment.differs-from-libsodium", format!("len {}", len), json!({"op":"utils.increment","bytes":hx(&orig)})); }
            out.case("utils.increment", &[b(&orig)], &ok1(&v), len > 0);
        }
    }
    // object API with differing key / digest length parameters (one-shot and incremental, keyed and not)
    {
        use dryoc::generichash::GenericHash;
        use dryoc::types::*;
        macro_rules! pair { ($out:ident, $rng:ident, $k:expr, $o:expr) => {{
            for n in [0usize, 1, 63, 64, 127, 128, 129, 300] {
                let msg = $rng.bytes(n);
                let key: [u8; $k] = $rng.arr();
                for keyed in [false, true] {
                    $out.search_evaluations += 2;
                    let want = sodium::generichash($o, &msg, if keyed { Some(&key[..]) } else { None });
                    let k = StackByteArray::<$k>::from(&key);
                    let inc = guard(|| { let mut h: GenericHash<$k, $o> = GenericHash::new(if keyed { Some(&k) } else { None })?; h.update(&msg[..n / 2]); h.update(&msg[n / 2..]); h.finalize_to_vec() });
                    let one = guard(|| GenericHash::<$k, $o>::hash_to_vec(&msg, if keyed { Some(&k) } else { None }));
                    let rp = json!({"op":"obj.generichash","key_length":$k,"output_length":$o,"keyed":keyed,"msg":hx(&msg),"key":hx(&key)});
                    if inc.clone().ok() != want { $out.hit("obj.generichash.incremental.differs-from-libsodium", format!("K {} O {} keyed {} len {}", $k, $o, keyed, n), rp.clone()); }
                    if one.ok() != want { $out.hit("obj.generichash.oneshot.differs-from-libsodium", format!("K {} O {} keyed {} len {}", $k, $o, keyed, n), rp.clone()); }
                }
            }
        }}; }
        pair!(out, rng, 16, 32); pair!(out, rng, 32, 16); pair!(out, rng, 64, 32); pair!(out, rng, 16, 64); pair!(out, rng, 32, 32); pair!(out, rng, 64, 64);
    }
    crate::objapi::hashes(out, &mut rng);
    crate::objapi::mac_lengths(out, &mut rng);
    crate::objapi::long_inputs(out, &mut rng, false);
    crate::consts::check(out, &["CRYPTO_GENERICHASH", "CRYPTO_AUTH", "CRYPTO_ONETIMEAUTH", "CRYPTO_SHORTHASH", "CRYPTO_HASH", "CRYPTO_CORE"]);
}

/// all 2-way splits of every length 0..=l2 and all 3-way splits of every length 0..=l3
fn splits(l2: usize, l3: usize, mut f: impl FnMut(usize, &[usize])) {
    for n in 0..=l2 { for a in 0..=n { f(n, &[a, n - a]); } }
    for n in 0..=l3 { for a in 0..=n { for bb in 0..=(n - a) { f(n, &[a, bb, n - a - bb]); } } }
}

pub fn run_c08(out: &mut Out, tier: &str, seed: u64) {
    let mut rng = Rng::new(seed, "c08");
    let thorough = tier == "thorough";
    let (l2, l3) = if thorough { (600, 260) } else { (300, 140) };
    let key32: [u8; 32] = rng.arr();
    let data = rng.bytes(l2.max(l3) + 8);
    let mut count: u64 = 0;
    let mut hits: Vec<(String, usize, Vec<usize>)> = vec![];
    // precompute one-shots per length
    let mut model_cases: Vec<(String, Vec<usize>)> = vec![];
    splits(l2, l3, |n, parts| {
        let msg = &data[..n];
        let mut pieces: Vec<&[u8]> = vec![];
        let mut off = 0;
        for p in parts { pieces.push(&msg[off..off + p]); off += p; }
        count += 1;
        // 2% sample for the extracted model (the theorem covers all of them)
        let sample = (count.wrapping_mul(0x9e3779b97f4a7c15) >> 32) % (if thorough { 50 } else { 200 }) == 0;
        if d_onetimeauth_chunks(&key32, &pieces) != d_onetimeauth(msg, &key32) { hits.push(("onetimeauth".into(), n, parts.to_vec())); }
        if d_generichash_chunks(32, None, &pieces, 32) != d_generichash(32, msg, None) { hits.push(("generichash".into(), n, parts.to_vec())); }
        if d_generichash_chunks(64, Some(&key32), &pieces, 64) != d_generichash(64, msg, Some(&key32)) { hits.push(("generichash-keyed".into(), n, parts.to_vec())); }
        if d_auth_chunks(&key32, &pieces) != d_auth(msg, &key32) { hits.push(("auth".into(), n, parts.to_vec())); }
        if d_sha512_chunks(&pieces) != d_sha512(msg) { hits.push(("sha512".into(), n, parts.to_vec())); }
        if sample { model_cases.push(("x".into(), parts.to_vec())); }
    });
    out.search_evaluations += count * 5;
    for (what, n, parts) in hits.iter().take(2000) {
        out.hit(&format!("{}.incremental-differs-from-oneshot", what), format!("length {} split {:?}", n, parts),
            json!({"op": format!("{}.chunks", what), "key": hx(&key32), "msg": hx(&data[..*n]), "split": parts}));
    }
    // adversarial Poly1305 operands fed in pieces: r = 1 or 2, blocks from a small alphabet that leaves
    // unpropagated carries in the limbs, every split position
    {
        let alphabet: Vec<[u8; 16]> = vec![[0xff; 16], [0; 16], { let mut x = [0u8; 16]; x[0] = 1; x }, (u128::MAX - 3).to_le_bytes(), { let mut x = [0xffu8; 16]; x[15] = 0x7f; x }];
        let mut adv = 0u64;
        for r in [1u8, 2u8] {
            let mut key = [0u8; 32]; key[0] = r; key[16..].copy_from_slice(&[0x5a; 16]);
            let n = alphabet.len();
            for idx in 0..(n * n * n * n) {
                let mut msg: Vec<u8> = vec![];
                let mut t = idx;
                for _ in 0..4 { msg.extend_from_slice(&alphabet[t % n]); t /= n; }
                msg.extend_from_slice(&[0xff, 0x01, 0x80, 0x00, 0x7f][..(idx % 6).min(5)]);
                let one = d_onetimeauth(&msg, &key);
                if one != sodium::onetimeauth(&msg, &key) { out.hit("onetimeauth.carry.differs-from-libsodium", format!("r={} idx {}", r, idx), json!({"op":"onetimeauth.mac","key":hx(&key),"msg":hx(&msg)})); }
                for cut in 0..=msg.len() {
                    adv += 1;
                    if d_onetimeauth_chunks(&key, &[&msg[..cut], &msg[cut..]]) != one {
                        out.hit("onetimeauth.incremental-differs-from-oneshot", format!("adversarial r={} message {} split at {}", r, hx(&msg), cut),
                            json!({"op":"onetimeauth.chunks","key":hx(&key),"msg":hx(&msg),"split":[cut, msg.len() - cut]}));
                        break;
                    }
                }
                if idx % 97 == 0 {
                    let cut = (idx / 97 * 7) % (msg.len() + 1);
                    out.case("onetimeauth.chunks", &[b(&key), chunk_tok(&[&msg[..cut], &msg[cut..]])], &ok1(&d_onetimeauth_chunks(&key, &[&msg[..cut], &msg[cut..]])), true);
                }
            }
        }
        out.search_evaluations += adv;
        out.notes.insert("adversarial_poly1305_splits".into(), json!(adv));
    }
    // object API incremental interfaces
    {
        use dryoc::auth::Auth;
        use dryoc::generichash::GenericHash;
        use dryoc::onetimeauth::OnetimeAuth;
        use dryoc::sha512::Sha512;
        use dryoc::types::*;
        for n in (0..=l3).step_by(3) {
            for a in (0..=n).step_by(5) {
                let msg = data[..n].to_vec();
                let (p1, p2) = (msg[..a].to_vec(), msg[a..].to_vec());
                out.search_evaluations += 4;
                let mut h: GenericHash<32, 64> = GenericHash::new::<StackByteArray<32>>(None).unwrap();
                h.update(&p1); h.update(&p2);
                let r = h.finalize_to_vec().unwrap();
                if Outcome::Ok(r) != d_generichash(64, &msg, None) { out.hit("obj.generichash.incremental-differs", format!("n {} a {}", n, a), json!({"n":n,"a":a})); }
                let mut au = Auth::new(StackByteArray::<32>::from(&key32));
                au.update(&p1); au.update(&p2);
                if au.finalize_to_vec() != d_auth(&msg, &key32).to_vec() { out.hit("obj.auth.incremental-differs", format!("n {} a {}", n, a), json!({"n":n,"a":a})); }
                let mut ot = OnetimeAuth::new(StackByteArray::<32>::from(&key32));
                ot.update(&p1); ot.update(&p2);
                if ot.finalize_to_vec() != d_onetimeauth(&msg, &key32).to_vec() { out.hit("obj.onetimeauth.incremental-differs", format!("n {} a {}", n, a), json!({"n":n,"a":a})); }
                let mut s = Sha512::new();
                s.update(&p1); s.update(&p2);
                if s.finalize_to_vec() != d_sha512(&msg).to_vec() { out.hit("obj.sha512.incremental-differs", format!("n {} a {}", n, a), json!({"n":n,"a":a})); }
            }
        }
    }
    // PRNG k-way partitions with empty pieces of long messages
    let rounds = if thorough { 400 } else { 60 };
    for r in 0..rounds {
        let n = 1024 + rng.below(7 * 1024) as usize;
        let msg = rng.bytes(n);
        let k = 2 + rng.below(14) as usize;
        let mut cuts: Vec<usize> = (0..k - 1).map(|_| match rng.below(4) { 0 => (rng.below((n / 128) as u64 + 1) * 128) as usize, 1 => (rng.below((n / 16) as u64 + 1) * 16) as usize, _ => rng.below(n as u64 + 1) as usize }).map(|c| c.min(n)).collect();
        cuts.sort();
        let mut pieces: Vec<&[u8]> = vec![];
        let mut prev = 0;
        for c in &cuts { pieces.push(&msg[prev..*c]); prev = *c; }
        pieces.push(&msg[prev..]);
        out.search_evaluations += 4;
        let sizes: Vec<usize> = pieces.iter().map(|p| p.len()).collect();
        if d_onetimeauth_chunks(&key32, &pieces) != d_onetimeauth(&msg, &key32) { out.hit("onetimeauth.incremental-differs-from-oneshot", format!("long {:?}", sizes), json!({"op":"onetimeauth.chunks","key":hx(&key32),"msg":hx(&msg),"split":sizes})); }
        if d_generichash_chunks(64, Some(&key32), &pieces, 64) != d_generichash(64, &msg, Some(&key32)) { out.hit("generichash-keyed.incremental-differs-from-oneshot", format!("long {:?}", sizes), json!({"op":"generichash.chunks","key":hx(&key32),"msg":hx(&msg),"split":sizes})); }
        if d_auth_chunks(&key32, &pieces) != d_auth(&msg, &key32) { out.hit("auth.incremental-differs-from-oneshot", format!("long {:?}", sizes), json!({"split":sizes})); }
        if d_sha512_chunks(&pieces) != d_sha512(&msg) { out.hit("sha512.incremental-differs-from-oneshot", format!("long {:?}", sizes), json!({"split":sizes})); }
        if r < 6 {
            out.case("onetimeauth.chunks", &[b(&key32), chunk_tok(&pieces)], &ok1(&d_onetimeauth_chunks(&key32, &pieces)), true);
            out.case("generichash.chunks", &[i(64), b(&key32), chunk_tok(&pieces), i(64)], &d_generichash_chunks(64, Some(&key32), &pieces, 64).map(|v| vec![Tok::B(v)]), true);
        }
    }
    // the sampled partitions, for the model (correspondence of the buffering code)
    for (_, parts) in model_cases.iter() {
        let n: usize = parts.iter().sum();
        let msg = &data[..n];
        let mut pieces: Vec<&[u8]> = vec![];
        let mut off = 0;
        for p in parts { pieces.push(&msg[off..off + p]); off += p; }
        out.case("onetimeauth.chunks", &[b(&key32), chunk_tok(&pieces)], &ok1(&d_onetimeauth_chunks(&key32, &pieces)), true);
        out.case("generichash.chunks", &[i(32), Tok::N, chunk_tok(&pieces), i(32)], &d_generichash_chunks(32, None, &pieces, 32).map(|v| vec![Tok::B(v)]), true);
        if n % 4 == 0 {
            out.case("generichash.chunks", &[i(64), b(&key32), chunk_tok(&pieces), i(64)], &d_generichash_chunks(64, Some(&key32), &pieces, 64).map(|v| vec![Tok::B(v)]), true);
            out.case("auth.chunks", &[b(&key32), chunk_tok(&pieces)], &ok1(&d_auth_chunks(&key32, &pieces)), true);
            out.case("hash.sha512_chunks", &[chunk_tok(&pieces)], &ok1(&d_sha512_chunks(&pieces)), true);
        }
        out.len_bucket("chunked-message", n);
    }
    out.notes.insert("partitions_checked_on_implementation".into(), json!(count));
    crate::objapi::generichash_vec_keys(out, &mut rng);
    crate::objapi::generichash_edge_keys(out, &mut rng);
    crate::objapi::long_inputs(out, &mut rng, false);
    // output buffers of every admissible and inadmissible length at finalisation (empty, shorter, longer than asked at init, longer than 64)
    for outlen in [16usize, 32, 64] {
        for fin in [0usize, 1, outlen - 1, outlen, outlen + 1, 64, 65, 100] {
            for (keyed, mlen) in [(false, 0usize), (true, 1), (false, 129), (true, 300)] {
                let msg = rng.bytes(mlen);
                let cut = mlen / 2;
                let pieces: [&[u8]; 2] = [&msg[..cut], &msg[cut..]];
                let r = d_generichash_chunks(outlen, if keyed { Some(&key32[..]) } else { None }, &pieces, fin);
                out.search_evaluations += 1;
                if r.is_panic() { out.hit("generichash.final.panics", format!("init {} final buffer {}", outlen, fin), json!({"op":"generichash.chunks","outlen":outlen,"final_len":fin,"msg":hx(&msg)})); }
                out.case("generichash.chunks", &[i(outlen), if keyed { b(&key32) } else { Tok::N }, chunk_tok(&pieces), i(fin)], &r.map(|v| vec![Tok::B(v)]), true);
            }
        }
    }
    crate::objapi::sign_modes_and_chunks(out, &mut rng);
}
