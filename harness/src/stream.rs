//! Secret streams: C03 (histories, lockstep with libsodium), the stream part of C02/C17 (tamper
//! family) and of C04 (totality on untrusted bytes).
use crate::common::*;
use crate::sodium::SStream;
use dryoc::classic::crypto_secretstream_xchacha20poly1305::*;
use dryoc::dryocstream::{DryocStream, Pull, Push, Tag};
use dryoc::types::*;
use serde_json::json;

pub const SENT: u8 = 0xa5;
pub const TAGSENT: u8 = 0xee;

pub fn d_init(header: &[u8; 24], key: &[u8; 32]) -> State {
    let mut st = State::new();
    crypto_secretstream_xchacha20poly1305_init_pull(&mut st, header, key);
    st
}
pub fn d_push(st: &mut State, m: &[u8], ad: &[u8], tag: u8) -> Outcome<Vec<u8>> {
    guard(|| { let mut c = vec![0u8; m.len() + 17]; crypto_secretstream_xchacha20poly1305_push(st, &mut c, m, Some(ad), tag).map(|_| c) })
}
/// classic pull with a sentinel-filled message buffer of `mbuf_len` bytes and a sentinel tag variable
pub fn d_pull(st: &mut State, c: &[u8], ad: &[u8], mbuf_len: usize) -> (Outcome<usize>, Vec<u8>, u8) {
    let mut m = vec![SENT; mbuf_len];
    let mut tag = TAGSENT;
    let r = guard(|| crypto_secretstream_xchacha20poly1305_pull(st, &mut m, &mut tag, c, Some(ad)));
    (r, m, tag)
}
fn st_toks(st: &State) -> Vec<Tok> { let (k, n) = st.verif_parts(); vec![b(&k), b(&n)] }
fn cls<T>(o: &Outcome<T>) -> Tok { Tok::I(match o { Outcome::Ok(_) => 0, Outcome::Err => 1, Outcome::Panic => 2 }) }

#[derive(Clone)]
enum Item { Msg { c: Vec<u8>, ad: Vec<u8>, m: Vec<u8>, tag: u8 }, Rekey }

fn msg_len(rng: &mut Rng) -> usize {
    match rng.below(8) { 0 => 0, 1 => rng.below(17) as usize, 2 => 15 + rng.below(3) as usize, 3 => 63 + rng.below(3) as usize, 4 => 47 + rng.below(3) as usize, 5 => rng.below(200) as usize, _ => rng.below(70) as usize }
}
fn ad_len(rng: &mut Rng) -> usize {
    match rng.below(6) { 0 => 0, 1 => rng.below(16) as usize, 2 => 16, 3 => 17 + rng.below(30) as usize, 4 => 32, _ => rng.below(70) as usize }
}

pub fn run_c03(out: &mut Out, tier: &str, seed: u64) {
    let mut rng = Rng::new(seed, "c03");
    let thorough = tier == "thorough";
    let nhist = if thorough { 6000 } else { 700 };
    let maxdepth = if thorough { 24 } else { 8 };
    let mut kind_counts = std::collections::BTreeMap::<String, u64>::new();
    for h in 0..nhist {
        let key: [u8; 32] = rng.arr();
        let header: [u8; 24] = rng.arr();
        // start state: counter class 1 / mid / 0xfffffffe / 0xffffffff
        let base = d_init(&header, &key);
        let (k0, mut n0) = base.verif_parts();
        let class = h % 4;
        let ctr: u32 = match class { 0 => 1, 1 => 0x7fff_fff0 + rng.below(32) as u32, 2 => 0xffff_fffe, _ => 0xffff_ffff };
        n0[..4].copy_from_slice(&ctr.to_le_bytes());
        let mut dp = State::verif_from_parts(&k0, &n0);
        let mut dl = State::verif_from_parts(&k0, &n0);
        let mut sp = SStream::from_parts(&k0, &n0);
        let mut sl = SStream::from_parts(&k0, &n0);
        // a foreign stream (different key) for "taken from another stream"
        let fkey: [u8; 32] = rng.arr();
        let mut fp = State::verif_from_parts(&d_init(&header, &fkey).verif_parts().0, &n0);
        let mut steps: Vec<Tok> = vec![];
        let mut results: Vec<Tok> = vec![];
        let mut human: Vec<String> = vec![];
        let mut queue: Vec<Item> = vec![];
        let mut next = 0usize; // next undelivered queue index
        let depth = 2 + rng.below(maxdepth as u64 - 1) as usize;
        let mut ok = true;
        let mut fail = |out: &mut Out, sig: &str, what: String, human: &Vec<String>| {
            out.hit(sig, what, json!({"op":"stream.history","key":hx(&key),"header":hx(&header),"start_counter":ctr,"steps":human}));
        };
        let mut ev = 0;
        while ok && (ev < depth || next < queue.len()) {
            ev += 1;
            let choice = if ev > depth { 5 } else { rng.below(10) };
            match choice {
                0..=3 => {
                    // push
                    let m = { let l = msg_len(&mut rng); rng.bytes(l) };
                    let ad = { let l = ad_len(&mut rng); rng.bytes(l) };
                    let tag: u8 = match rng.below(8) { 0 => 0, 1 => 1, 2 => 2, 3 => 3, 4 => rng.below(256) as u8, _ => 0 };
                    let c = d_push(&mut dp, &m, &ad, tag);
                    let sc = sp.push(&m, &ad, tag);
                    out.search_evaluations += 1;
                    human.push(format!("push m={} ad={} tag={}", hx(&m), hx(&ad), tag));
                    steps.push(Tok::L(vec![Tok::I(0), b(&m), b(&ad), Tok::I(tag as i64)]));
                    let cc = c.clone().ok().unwrap_or_default();
                    let mut r = vec![cls(&c), b(&cc)]; r.extend(st_toks(&dp)); results.push(Tok::L(r));
                    if c.clone().ok().as_ref() != Some(&sc) { fail(out, "stream.push.ciphertext-differs-from-libsodium", format!("history {} push {}", h, ev), &human); ok = false; }
                    else if dp.verif_parts() != sp.parts() { fail(out, "stream.push.state-differs-from-libsodium", format!("history {} after push (start counter {:#x})", h, ctr), &human); ok = false; }
                    queue.push(Item::Msg { c: cc, ad, m, tag });
                }
                4 => {
                    // explicit rekey (push side now; pull side when it gets there)
                    crypto_secretstream_xchacha20poly1305_rekey(&mut dp);
                    sp.rekey();
                    human.push("rekey".into());
                    steps.push(Tok::L(vec![Tok::I(1)]));
                    results.push(Tok::L(st_toks(&dp)));
                    out.search_evaluations += 1;
                    if dp.verif_parts() != sp.parts() { fail(out, "stream.rekey.state-differs-from-libsodium", format!("history {}", h), &human); ok = false; }
                    queue.push(Item::Rekey);
                }
                5..=7 if next < queue.len() => {
                    // deliver in order
                    match queue[next].clone() {
                        Item::Rekey => {
                            crypto_secretstream_xchacha20poly1305_rekey(&mut dl);
                            sl.rekey();
                            human.push("pull-side rekey".into());
                            steps.push(Tok::L(vec![Tok::I(3)]));
                            results.push(Tok::L(st_toks(&dl)));
                        }
                        Item::Msg { c, ad, m, tag } => {
                            let extra = if rng.below(4) == 0 { rng.below(5) as usize } else { 0 };
                            let mbl = c.len() - 17 + extra;
                            let (r, mb, tv) = d_pull(&mut dl, &c, &ad, mbl);
                            let sr = sl.pull(&c, &ad);
                            out.search_evaluations += 1;
                            human.push(format!("deliver-in-order #{}", next));
                            steps.push(Tok::L(vec![Tok::I(2), b(&c), b(&ad), b(&vec![SENT; mbl]), Tok::I(TAGSENT as i64)]));
                            let mut rr = vec![cls(&r), Tok::I(r.clone().ok().unwrap_or(0) as i64), b(&mb), Tok::I(tv as i64)]; rr.extend(st_toks(&dl)); results.push(Tok::L(rr));
                            if !(r.is_ok() && mb[..m.len()] == m[..] && tv == tag) { fail(out, "stream.pull.in-order-not-recovered", format!("history {} message {}", h, next), &human); ok = false; }
                            else if sr != Some((m.clone(), tag)) { fail(out, "stream.pull.libsodium-disagrees", format!("history {}", h), &human); ok = false; }
                            else if dl.verif_parts() != sl.parts() { fail(out, "stream.pull.state-differs-from-libsodium", format!("history {} (start counter {:#x})", h, ctr), &human); ok = false; }
                        }
                    }
                    next += 1;
                }
                _ => {
                    // deliver something wrong
                    let kind = rng.below(8);
                    let cand: Option<(String, Vec<u8>, Vec<u8>)> = match kind {
                        0 => { // replay of an already delivered message
                            let d: Vec<&Item> = queue[..next].iter().filter(|i| matches!(i, Item::Msg { .. })).collect();
                            if d.is_empty() { None } else { if let Item::Msg { c, ad, .. } = d[rng.below(d.len() as u64) as usize] { Some(("replay".into(), c.clone(), ad.clone())) } else { None } }
                        }
                        1 => { // skip: the message after the next one
                            if next + 1 < queue.len() { if let (Item::Msg { .. }, Item::Msg { c, ad, .. }) = (&queue[next], &queue[next + 1]) { Some(("skip".into(), c.clone(), ad.clone())) } else { None } } else { None }
                        }
                        2 => { // foreign stream
                            let m = { let l = msg_len(&mut rng); rng.bytes(l) }; let ad = { let l = ad_len(&mut rng); rng.bytes(l) };
                            d_push(&mut fp, &m, &ad, 0).ok().map(|c| ("foreign".into(), c, ad))
                        }
                        3 => { if let Some(Item::Msg { c, ad, .. }) = queue.get(next) { let mut a2 = ad.clone(); if a2.is_empty() { a2.push(1) } else { let i = rng.below(a2.len() as u64) as usize; a2[i] ^= 1 << rng.below(8); } Some(("wrong-ad".into(), c.clone(), a2)) } else { None } }
                        4 => { if let Some(Item::Msg { c, ad, .. }) = queue.get(next) { let mut c2 = c.clone(); let i = rng.below(c2.len() as u64) as usize; c2[i] ^= 1 << rng.below(8); Some(("bit-flip".into(), c2, ad.clone())) } else { None } }
                        5 => { if let Some(Item::Msg { c, ad, .. }) = queue.get(next) { let t = rng.below(c.len() as u64) as usize; Some(("truncated".into(), c[..t].to_vec(), ad.clone())) } else { None } }
                        6 => { if let Some(Item::Msg { c, ad, .. }) = queue.get(next) { let mut a2 = ad.clone(); { let l = 1 + rng.below(17) as usize; a2.extend(rng.bytes(l)); } Some(("longer-ad".into(), c.clone(), a2)) } else { None } }
                        // the genuine next ciphertext, but the caller's message buffer is too short for it: refused, nothing moved
                        _ => { if let Some(Item::Msg { c, ad, .. }) = queue.get(next) { if c.len() > 17 { Some(("short-buffer".into(), c.clone(), ad.clone())) } else { None } } else { None } }
                    };
                    if let Some((kname, c, ad)) = cand {
                        *kind_counts.entry(kname.clone()).or_insert(0) += 1;
                        let before = dl.verif_parts();
                        let mbl = if kname == "short-buffer" { let full = c.len() - 17; full - 1 - rng.below(full as u64) as usize } else { c.len().saturating_sub(17) };
                        let (r, mb, tv) = d_pull(&mut dl, &c, &ad, mbl);
                        let _ = sl.clone().pull(&c, &ad);
                        out.search_evaluations += 1;
                        human.push(format!("deliver-wrong {} c={} ad={}", kname, hx(&c), hx(&ad)));
                        steps.push(Tok::L(vec![Tok::I(2), b(&c), b(&ad), b(&vec![SENT; mbl]), Tok::I(TAGSENT as i64)]));
                        let mut rr = vec![cls(&r), Tok::I(r.clone().ok().unwrap_or(0) as i64), b(&mb), Tok::I(tv as i64)]; rr.extend(st_toks(&dl)); results.push(Tok::L(rr));
                        if r.is_ok() { fail(out, &format!("stream.pull.accepts-{}", kname), format!("history {}", h), &human); ok = false; }
                        else if r.is_panic() { fail(out, &format!("stream.pull.panics-on-{}", kname), format!("history {}", h), &human); ok = false; }
                        else if dl.verif_parts() != before { fail(out, "stream.pull.rejected-pull-changes-state", format!("history {} ({})", h, kname), &human); ok = false; }
                    }
                }
            }
        }
        // lockstep: everything delivered in order => both dryoc states are equal
        if ok && next == queue.len() && dl.verif_parts() != dp.verif_parts() {
            fail(out, "stream.lockstep.pull-state-differs-from-push-state", format!("history {}", h), &human);
        }
        let send = thorough || h < 400;
        if send {
            let args = [b(&k0), b(&n0), b(&k0), b(&n0), Tok::L(steps)];
            out.case("stream.history", &args, &Outcome::Ok(results), true);
            out.len_bucket("history-depth", human.len());
        }
    }
    // init: header/key -> state (HChaCha20 subkey, counter 1, inonce = header[16..24]) vs libsodium
    for _ in 0..(if thorough { 200 } else { 40 }) {
        let key: [u8; 32] = rng.arr(); let header: [u8; 24] = rng.arr();
        let st = d_init(&header, &key);
        out.search_evaluations += 1;
        if st.verif_parts() != SStream::init(&header, &key).parts() { out.hit("stream.init.state-differs-from-libsodium", "init".into(), json!({"op":"stream.init","key":hx(&key),"header":hx(&header)})); }
        out.case("stream.init", &[b(&header), b(&key)], &Outcome::Ok(st_toks(&st)), true);
    }
    // object API: push stream / pull stream over the named tags and arbitrary tag bytes, vs the classic API
    for r in 0..(if thorough { 200 } else { 40 }) {
        let key: [u8; 32] = rng.arr();
        let (mut push, header): (DryocStream<Push>, StackByteArray<24>) = DryocStream::init_push(&StackByteArray::<32>::from(&key));
        let mut pull = DryocStream::init_pull(&StackByteArray::<32>::from(&key), &header);
        let mut cl = d_init(header.as_array(), &key);
        for j in 0..(2 + rng.below(6)) {
            let m = { let l = msg_len(&mut rng); rng.bytes(l) }; let ad = { let l = ad_len(&mut rng); rng.bytes(l) };
            // the four named tags, and any other tag byte (the property quantifies over every tag byte)
            let tag = match rng.below(7) { 0 => Tag::MESSAGE, 1 => Tag::PUSH, 2 => Tag::REKEY, 3 => Tag::FINAL, _ => Tag::from_bits_retain(rng.below(256) as u8) };
            out.search_evaluations += 1;
            let c: Vec<u8> = match guard(|| push.push_to_vec(&m, Some(&ad), tag)) { Outcome::Ok(c) => c, _ => { out.hit("obj.stream.push.fails", format!("round {}", r), json!({"round":r})); break; } };
            if rng.below(5) == 0 {
                // a rejected ciphertext in between must not disturb the object stream either
                let mut bad = c.clone(); let i = rng.below(bad.len() as u64) as usize; bad[i] ^= 0x10;
                let rr = guard(|| pull.pull_to_vec(&bad, Some(&ad)));
                if !rr.is_err() { out.hit("obj.stream.pull.accepts-or-panics-on-bit-flip", format!("round {} msg {} class {}", r, j, rr.class()), json!({"op":"obj.DryocStream.pull","key":hx(&key),"c":hx(&bad)})); }
            }
            let (cr, cm, ct) = d_pull(&mut cl, &c, &ad, c.len() - 17);
            if !(cr.is_ok() && cm == m && ct == tag.bits()) {
                // (the explicit rekey above makes the classic copy diverge on purpose only when applied to all three)
                out.hit("obj.stream.push.classic-pull-disagrees", format!("round {} msg {}", r, j), json!({"op":"obj.DryocStream.push","key":hx(&key),"header":hx(header.as_array())}));
                break;
            }
            let p = guard(|| pull.pull_to_vec(&c, Some(&ad)));
            if rng.below(5) == 0 { push.rekey(); pull.rekey(); crypto_secretstream_xchacha20poly1305_rekey(&mut cl); }
            match p { Outcome::Ok((pm, pt)) if pm == m && pt == tag => {}, other => { out.hit("obj.stream.pull.not-recovered", format!("round {} msg {} class {}", r, j, other.class()), json!({"op":"obj.DryocStream.pull","key":hx(&key),"header":hx(header.as_array()),"c":hx(&c),"ad":hx(&ad)})); break; } }
        }
    }
    out.notes.insert("wrong_delivery_kinds".into(), json!(kind_counts));
    crate::consts::check(out, &["CRYPTO_SECRETSTREAM"]);
}

/// tamper family on stream pull (C02: rejected; C17: buffer / tag variable untouched)
pub fn tamper_stream(out: &mut Out, tier: &str, seed: u64, c02: bool, c17: bool) {
    let mut rng = Rng::new(seed, "tamper-stream");
    let thorough = tier == "thorough";
    // untampered input is accepted -- also the messages AFTER one that carried any tag byte (libsodium pushes accept every byte
    // and rekey on bit 1): the pull side stays in step, through the classic and the object interface
    if c02 {
        let key: [u8; 32] = rng.arr(); let header: [u8; 24] = rng.arr();
        for tagb in 0..=255u8 {
            if !thorough && tagb > 8 && tagb % 7 != 2 && tagb & 0x7c != 0x7c { continue; }
            let mut sp = SStream::init(&header, &key);
            let mut dl = d_init(&header, &key);
            let mut obj = DryocStream::init_pull(&StackByteArray::<32>::from(&key), &StackByteArray::<24>::from(&header));
            let msgs: Vec<(Vec<u8>, Vec<u8>, u8)> = vec![(rng.bytes(9), rng.bytes(3), tagb), (rng.bytes(20), vec![], 0), (rng.bytes(1), rng.bytes(16), 0)];
            for (j, (m, ad, t)) in msgs.iter().enumerate() {
                let c = sp.push(m, ad, *t);
                out.search_evaluations += 2;
                let rp = json!({"op":"stream.sequence-after-tag","key":hx(&key),"header":hx(&header),"first_tag":tagb,"message_index":j,"c":hx(&c),"ad":hx(ad)});
                let (r, mb, tv) = d_pull(&mut dl, &c, ad, m.len());
                if !(r.is_ok() && mb == *m && tv == *t) { out.hit("stream.pull.rejects-untampered.after-tag", format!("message {} of a stream whose first message carried tag {:#04x} ({})", j, tagb, r.class()), rp.clone()); break; }
                let ro = guard(|| obj.pull_to_vec(&c, Some(ad)));
                match ro { Outcome::Ok((mm, _)) if mm == *m => {}, o => { out.hit("obj.stream.pull.rejects-untampered.after-tag", format!("message {} of a stream whose first message carried tag {:#04x} ({})", j, tagb, o.class()), rp.clone()); break; } }
            }
        }
    }
    let maxlen = if thorough { 120 } else { 36 };
    let key: [u8; 32] = rng.arr();
    let header: [u8; 24] = rng.arr();
    for len in 0..=maxlen {
        for &adl in &[0usize, 5, 16, 17, 40][..if thorough || len % 4 == 0 { 5 } else { 2 + len % 3 }] {
            let m = rng.bytes(len); let ad = rng.bytes(adl);
            let tag = (len % 4) as u8;
            let mut sp = SStream::init(&header, &key);
            // advance a few messages so the state is not the initial one
            for _ in 0..(len % 3) { sp.push(b"x", b"", 0); }
            let (k0, n0) = sp.parts();
            let c = sp.push(&m, &ad, tag);
            let mut muts: Vec<(String, Vec<u8>, Vec<u8>, [u8; 32], [u8; 12])> = vec![("untampered".into(), c.clone(), ad.clone(), k0, n0)];
            for bit in 0..(c.len() * 8) { let mut c2 = c.clone(); c2[bit / 8] ^= 1 << (bit % 8); muts.push((format!("{} bit {}", if bit < 8 { "tagbyte" } else if bit / 8 < 1 + len { "body" } else { "mac" }, bit), c2, ad.clone(), k0, n0)); }
            for bit in 0..(ad.len() * 8) { let mut a2 = ad.clone(); a2[bit / 8] ^= 1 << (bit % 8); muts.push((format!("ad bit {}", bit), c.clone(), a2, k0, n0)); }
            for t in 0..c.len() { muts.push((format!("truncated to {}", t), c[..t].to_vec(), ad.clone(), k0, n0)); }
            for e in [1usize, 2, 15, 16, 17, 64] { let mut c2 = c.clone(); c2.extend(rng.bytes(e)); muts.push((format!("extended by {}", e), c2, ad.clone(), k0, n0)); }
            for e in [1usize, 15, 16, 17] { let mut a2 = ad.clone(); a2.extend(vec![0u8; e]); muts.push((format!("ad extended-zero by {}", e), c.clone(), a2, k0, n0)); }
            if !ad.is_empty() { muts.push(("ad truncated".into(), c.clone(), ad[..ad.len() - 1].to_vec(), k0, n0)); }
            let step = if thorough { 1 } else { 3 };
            for bit in (0..256).step_by(step) { let mut k2 = k0; k2[bit / 8] ^= 1 << (bit % 8); muts.push((format!("key bit {}", bit), c.clone(), ad.clone(), k2, n0)); }
            for bit in 0..96 { let mut n2 = n0; n2[bit / 8] ^= 1 << (bit % 8); muts.push((format!("state-nonce bit {}", bit), c.clone(), ad.clone(), k0, n2)); }
            for (idx, (what, c2, a2, k2, n2)) in muts.iter().enumerate() {
                let authentic = idx == 0;
                let mut st = State::verif_from_parts(k2, n2);
                let mbl = c2.len().saturating_sub(17);
                let (r, mb, tv) = d_pull(&mut st, c2, a2, mbl);
                out.search_evaluations += 1;
                let rp = json!({"op":"stream.pull","k":hx(k2),"nonce":hx(n2),"c":hx(c2),"ad":hx(a2),"what":what});
                if authentic {
                    if c02 && !(r.is_ok() && mb == m && tv == tag) { out.hit("stream.pull.rejects-untampered", format!("len {} adlen {}", len, adl), rp.clone()); }
                } else {
                    if r.is_panic() { out.hit("stream.pull.panics-on-tampered", format!("{} len {}", what, len), rp.clone()); }
                    if c02 && r.is_ok() { out.hit(&format!("stream.pull.accepts-tampered.{}", what.split(' ').next().unwrap()), format!("{} len {} adlen {}", what, len, adl), rp.clone()); }
                    if c17 && r.is_err() {
                        let buf_ok = mb.iter().all(|x| *x == SENT) || mb.iter().all(|x| *x == 0);
                        if !buf_ok { out.hit("stream.pull.buffer-after-failed-pull", format!("{} len {}: message buffer written before the verdict", what, len), rp.clone()); }
                        if tv != TAGSENT { out.hit("stream.pull.tag-after-failed-pull", format!("{} len {}: tag variable written before the verdict", what, len), rp.clone()); }
                        if st.verif_parts() != (*k2, *n2) { out.hit("stream.pull.rejected-pull-changes-state", format!("{} len {}", what, len), rp.clone()); }
                    }
                }
                // the same tampered ciphertext with the output buffer sized for the message the receiver
                // expects (not for the bytes received): still rejected, nothing written
                if !authentic && (what.starts_with("extended") || what.starts_with("trunc")) {
                    let mut st2 = State::verif_from_parts(k2, n2);
                    let (r2, mb2, tv2) = d_pull(&mut st2, c2, a2, len);
                    out.search_evaluations += 1;
                    let rp2 = json!({"op":"stream.pull","k":hx(k2),"nonce":hx(n2),"c":hx(c2),"ad":hx(a2),"what":what,"message_buffer_len":len});
                    if c02 && r2.is_ok() { out.hit(&format!("stream.pull.accepts-tampered.{}.buffer-sized-for-expected-message", what.split(' ').next().unwrap()), format!("{} len {} adlen {}", what, len, adl), rp2.clone()); }
                    if r2.is_panic() && c2.len() >= 17 && len >= c2.len() - 17 { out.hit("stream.pull.panics-on-tampered", format!("{} len {} (buffer sized for the expected message)", what, len), rp2.clone()); }
                    if c17 && r2.is_err() && (!(mb2.iter().all(|x| *x == SENT) || mb2.iter().all(|x| *x == 0)) || tv2 != TAGSENT || st2.verif_parts() != (*k2, *n2)) {
                        out.hit("stream.pull.buffer-after-failed-pull", format!("{} len {} (buffer sized for the expected message)", what, len), rp2.clone());
                    }
                }
                if len <= 20 && (authentic || idx % 29 == 0 || what.starts_with("trunc")) {
                    let steps = Tok::L(vec![Tok::L(vec![Tok::I(2), b(c2), b(a2), b(&vec![SENT; mbl]), Tok::I(TAGSENT as i64)])]);
                    let mut rr = vec![cls(&r), Tok::I(r.clone().ok().unwrap_or(0) as i64), b(&mb), Tok::I(tv as i64)];
                    let (ka, na) = st.verif_parts(); rr.push(b(&ka)); rr.push(b(&na));
                    out.case("stream.history", &[b(k2), b(n2), b(k2), b(n2), steps], &Outcome::Ok(vec![Tok::L(rr)]), true);
                }
            }
            // the same authentic ciphertext presented twice: the second presentation is a changed stream (a replay)
            if c02 {
                let mut st = State::verif_from_parts(&k0, &n0);
                let (r1, _, _) = d_pull(&mut st, &c, &ad, len);
                let (r2, _, _) = d_pull(&mut st, &c, &ad, len);
                out.search_evaluations += 2;
                if r1.is_ok() && !r2.is_err() { out.hit("stream.pull.accepts-tampered.replay", format!("len {} adlen {}: the same ciphertext opened twice in a row ({})", len, adl, r2.class()), json!({"op":"stream.pull-twice","k":hx(&k0),"nonce":hx(&n0),"c":hx(&c),"ad":hx(&ad)})); }
            }
            // the error a rejected pull returns must not depend on (or quote) what the rejected bytes decrypt to
            if c17 && len % 3 == 0 {
                use dryoc::classic::crypto_secretstream_xchacha20poly1305::*;
                let text = |c2: &Vec<u8>| -> Option<String> { let mut st = State::verif_from_parts(&k0, &n0); let mut mb = vec![SENT; c2.len() - 17]; let mut tv = TAGSENT;
                    match std::panic::catch_unwind(std::panic::AssertUnwindSafe(|| crypto_secretstream_xchacha20poly1305_pull(&mut st, &mut mb, &mut tv, c2, Some(&ad)))) { Ok(Err(e)) => Some(format!("{:?}", e)), _ => None } };
                let mut texts: Vec<(usize, Option<String>)> = vec![];
                for bit in (0..8).chain([8 * (c.len() / 2), 8 * (c.len() - 1) + 3]) { if bit / 8 < c.len() { let mut c2 = c.clone(); c2[bit / 8] ^= 1 << (bit % 8); texts.push((bit, text(&c2))); } }
                out.search_evaluations += texts.len() as u64;
                let first = texts[0].1.clone();
                for (bit, t) in texts.iter() {
                    if t.is_none() { continue; }   // accepted or panicked: reported by the checks above
                    if *t != first { out.hit("stream.pull.error-text-depends-on-ciphertext", format!("len {}: flipping bit {} gives {:?}, flipping bit {} gives {:?}", len, texts[0].0, first, bit, t), json!({"op":"stream.pull.error-text","k":hx(&k0),"nonce":hx(&n0),"c":hx(&c),"ad":hx(&ad)})); break; }
                }
            }
            // header / key tampering at initialisation (first message of a stream)
            if len % 6 == 0 && adl == 0 {
                let mut s0 = SStream::init(&header, &key);
                let c0 = s0.push(&m, &ad, tag);
                for bit in 0..(24 * 8 + 256) {
                    let (mut h2, mut k2) = (header, key);
                    if bit < 192 { h2[bit / 8] ^= 1 << (bit % 8); } else { let bb = bit - 192; k2[bb / 8] ^= 1 << (bb % 8); }
                    let mut st = d_init(&h2, &k2);
                    let (r, mb, tv) = d_pull(&mut st, &c0, &ad, len);
                    out.search_evaluations += 1;
                    let what = if bit < 192 { format!("header bit {}", bit) } else { format!("key bit {}", bit - 192) };
                    let rp = json!({"op":"stream.first-pull","key":hx(&k2),"header":hx(&h2),"c":hx(&c0),"what":what});
                    if c02 && r.is_ok() { out.hit(&format!("stream.pull.accepts-tampered.{}", if bit < 192 { "header" } else { "key" }), format!("{} len {}", what, len), rp.clone()); }
                    if r.is_panic() { out.hit("stream.pull.panics-on-tampered", what.clone(), rp.clone()); }
                    if c17 && r.is_err() && !(mb.iter().all(|x| *x == SENT) || mb.iter().all(|x| *x == 0)) { out.hit("stream.pull.buffer-after-failed-pull", format!("{} len {}", what, len), rp.clone()); }
                    if c17 && r.is_err() && tv != TAGSENT { out.hit("stream.pull.tag-after-failed-pull", format!("{} len {}", what, len), rp); }
                }
                // object API on the same: only an error comes back
                if c02 {
                    for bit in (0..192).step_by(7) {
                        let mut h2 = header; h2[bit / 8] ^= 1 << (bit % 8);
                        let mut pull: DryocStream<Pull> = DryocStream::init_pull(&StackByteArray::<32>::from(&key), &StackByteArray::<24>::from(&h2));
                        let r = guard(|| pull.pull_to_vec(&c0, Some(&ad)));
                        out.search_evaluations += 1;
                        if !r.is_err() { out.hit("obj.stream.pull.accepts-or-panics-on-tampered-header", format!("bit {} class {}", bit, r.class()), json!({"op":"obj.DryocStream.pull","header":hx(&h2),"key":hx(&key),"c":hx(&c0)})); }
                    }
                }
            }
            // object API with associated data: pushed through DryocStream, every change of the associated data
            // (and a sample of ciphertext bits) is rejected by DryocStream::pull, and the classic pull with the right
            // associated data accepts what the object API pushed
            if c02 && adl > 0 && len % 5 == 0 {
                let (mut push, hdr): (DryocStream<Push>, StackByteArray<24>) = DryocStream::init_push(&StackByteArray::<32>::from(&key));
                let co: Vec<u8> = match guard(|| push.push_to_vec(&m, Some(&ad), Tag::MESSAGE)) { Outcome::Ok(c) => c, _ => { out.hit("obj.stream.push.fails", format!("len {}", len), json!({"len":len})); continue; } };
                let rp = json!({"op":"obj.DryocStream.pull","key":hx(&key),"header":hx(hdr.as_array()),"c":hx(&co),"ad":hx(&ad)});
                let fresh = || -> DryocStream<Pull> { DryocStream::init_pull(&StackByteArray::<32>::from(&key), &hdr) };
                out.search_evaluations += 2;
                match guard(|| fresh().pull_to_vec(&co, Some(&ad))) { Outcome::Ok((pm, _)) if pm == m => {}, _ => out.hit("obj.stream.pull.rejects-untampered", format!("len {} adlen {}", len, adl), rp.clone()) }
                { let mut cl = d_init(hdr.as_array(), &key); let (cr, cm, _) = d_pull(&mut cl, &co, &ad, len); if !(cr.is_ok() && cm == m) { out.hit("obj.stream.push.classic-pull-with-the-associated-data-rejects", format!("len {} adlen {}", len, adl), rp.clone()); } }
                let mut ads: Vec<(String, Option<Vec<u8>>)> = vec![("ad dropped".into(), None), ("ad emptied".into(), Some(vec![])), ("ad truncated".into(), Some(ad[..ad.len() - 1].to_vec())), ("ad extended".into(), Some([ad.clone(), vec![0u8]].concat()))];
                for bit in 0..(ad.len() * 8) { let mut a2 = ad.clone(); a2[bit / 8] ^= 1 << (bit % 8); ads.push((format!("ad bit {}", bit), Some(a2))); }
                for (what, a2) in ads {
                    out.search_evaluations += 1;
                    let r = guard(|| fresh().pull_to_vec(&co, a2.as_ref()));
                    if !r.is_err() { out.hit("obj.stream.pull.accepts-tampered.ad", format!("{} len {} adlen {} ({})", what, len, adl, r.class()), rp.clone()); }
                }
                // one pull stream object kept across failures: after any number of rejected pulls the genuine message still opens,
                // and a message pushed from an all-zero (never keyed) state is not accepted afterwards
                {
                    let mut pl = fresh();
                    let mut c2 = co.clone(); c2[0] ^= 0x20;
                    let r1 = guard(|| pl.pull_to_vec(&c2, Some(&ad)));
                    let r2 = guard(|| pl.pull_to_vec(&co[..co.len() - 1].to_vec(), Some(&ad)));
                    let forged = { use dryoc::classic::crypto_secretstream_xchacha20poly1305::*; let mut zs = State::new(); let mut fc = vec![0u8; 9 + 17]; let _ = crypto_secretstream_xchacha20poly1305_push(&mut zs, &mut fc, b"forged!!!", None, 0); fc };
                    let r3 = guard(|| pl.pull_to_vec(&forged, None::<&Vec<u8>>));
                    let r4 = guard(|| pl.pull_to_vec(&co, Some(&ad)));
                    out.search_evaluations += 4;
                    if r1.is_ok() || r2.is_ok() { out.hit("obj.stream.pull.accepts-tampered.ciphertext", format!("len {}", len), rp.clone()); }
                    if !r3.is_err() { out.hit("obj.stream.pull.accepts-forgery-after-a-failed-pull", format!("len {}: a message pushed from the all-zero state opened after two rejected pulls ({})", len, r3.class()), json!({"op":"obj.DryocStream.pull","key":hx(&key),"header":hx(hdr.as_array()),"forged":hx(&forged)})); }
                    match r4 { Outcome::Ok((pm, _)) if pm == m => {}, o => out.hit("obj.stream.pull.rejects-genuine-after-failed-pulls", format!("len {} adlen {} ({})", len, adl, o.class()), rp.clone()) }
                }
                for bit in (0..co.len() * 8).step_by(11) {
                    let mut c2 = co.clone(); c2[bit / 8] ^= 1 << (bit % 8);
                    out.search_evaluations += 1;
                    let r = guard(|| fresh().pull_to_vec(&c2, Some(&ad)));
                    if !r.is_err() { out.hit("obj.stream.pull.accepts-tampered.ciphertext", format!("bit {} len {} ({})", bit, len, r.class()), rp.clone()); }
                }
            }
        }
    }
}
