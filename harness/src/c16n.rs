//! C16 on nightly: the heap / locked containers of src/protected.rs through both serde formats,
//! both encodings of byte strings, every element count, and the byte framing of boxes held in them.
#![cfg(feature = "nightly")]
use crate::common::*;
use dryoc::protected::*;
use dryoc::types::*;
use serde_json::json;

fn json_array(elems: &[u8]) -> String { format!("[{}]", elems.iter().map(|x| x.to_string()).collect::<Vec<_>>().join(",")) }

/// a resizable container: any number of elements decodes to exactly those elements
fn resizable<T: serde::Serialize + serde::de::DeserializeOwned + Bytes>(out: &mut Out, rng: &mut Rng, name: &str, make: &dyn Fn(&[u8]) -> Option<T>, lens: &[usize]) {
    for &len in lens {
        let elems = rng.bytes(len);
        let rp = json!({"op":"serde.decode","type":name,"elements":hx(&elems)});
        // element sequence (serde_json array)
        let r = guard(|| serde_json::from_str::<T>(&json_array(&elems))).map(|v| v.as_slice().to_vec());
        out.search_evaluations += 1;
        if len <= 130 { out.case("serde.heap_visit_seq", &[i(0), b(&elems)], &r.clone().map(|v| vec![Tok::B(v)]), true); }
        match &r {
            Outcome::Ok(v) if *v == elems => {}
            Outcome::Ok(v) => out.hit(&format!("serde.json.decodes-other-bytes.{}", name), format!("{} elements decoded to {} bytes", len, v.len()), rp.clone()),
            Outcome::Panic => out.hit(&format!("serde.json.decode-panics.{}", name), format!("{} elements", len), rp.clone()),
            Outcome::Err => out.hit(&format!("serde.json.rejects-valid.{}", name), format!("{} elements", len), rp.clone()),
        }
        // the same element sequence through a deserializer that announces its length (serde_json::Value reports a size hint)
        { let val = serde_json::Value::Array(elems.iter().map(|x| serde_json::Value::from(*x)).collect());
          let r2 = guard(|| serde_json::from_value::<T>(val.clone())).map(|v| v.as_slice().to_vec());
          out.search_evaluations += 1;
          match &r2 {
              Outcome::Ok(v) if *v == elems => {}
              Outcome::Ok(v) => out.hit(&format!("serde.json-value.decodes-other-bytes.{}", name), format!("{} elements (size hint given) decoded to {} bytes", len, v.len()), rp.clone()),
              Outcome::Panic => out.hit(&format!("serde.json-value.decode-panics.{}", name), format!("{} elements", len), rp.clone()),
              Outcome::Err => out.hit(&format!("serde.json-value.rejects-valid.{}", name), format!("{} elements", len), rp.clone()),
          } }
        // byte string (bincode)
        let enc = bincode::serialize(&elems).unwrap();
        let r = guard(|| bincode::deserialize::<T>(&enc)).map(|v| v.as_slice().to_vec());
        out.search_evaluations += 1;
        if len <= 130 { out.case("serde.heap_visit_bytes", &[b(&elems)], &r.clone().map(|v| vec![Tok::B(v)]), true); }
        match &r {
            Outcome::Ok(v) if *v == elems => {}
            Outcome::Ok(v) => out.hit(&format!("serde.bincode.decodes-other-bytes.{}", name), format!("{} bytes decoded to {}", len, v.len()), rp.clone()),
            Outcome::Panic => out.hit(&format!("serde.bincode.decode-panics.{}", name), format!("{} bytes", len), rp.clone()),
            Outcome::Err => out.hit(&format!("serde.bincode.rejects-valid.{}", name), format!("{} bytes", len), rp.clone()),
        }
        // own serialisation round trip, both formats
        if let Some(v) = make(&elems) {
            let j = guard(|| serde_json::from_str::<T>(&serde_json::to_string(&v).unwrap())).map(|w| w.as_slice().to_vec());
            let bn = guard(|| bincode::deserialize::<T>(&bincode::serialize(&v).unwrap())).map(|w| w.as_slice().to_vec());
            out.search_evaluations += 2;
            if j != Outcome::Ok(elems.clone()) { out.hit(&format!("serde.json.roundtrip-differs.{}", name), format!("payload {} -> {}", len, j.class()), rp.clone()); }
            if bn != Outcome::Ok(elems.clone()) { out.hit(&format!("serde.bincode.roundtrip-differs.{}", name), format!("payload {} -> {}", len, bn.class()), rp.clone()); }
        }
    }
}

/// a fixed-length container: exactly N elements or an error, never padding, truncation or a panic
fn fixed<T: serde::de::DeserializeOwned + Bytes, const N: usize>(out: &mut Out, rng: &mut Rng, name: &str) {
    for count in 0..=(2 * N) {
        let elems = rng.bytes(count);
        let rp = json!({"op":"serde.decode","type":name,"N":N,"elements":hx(&elems)});
        for (fmt, r) in [("json", guard(|| serde_json::from_str::<T>(&json_array(&elems))).map(|v| v.as_slice().to_vec())),
                         ("bincode", guard(|| bincode::deserialize::<T>(&bincode::serialize(&elems).unwrap())).map(|v| v.as_slice().to_vec()))] {
            out.search_evaluations += 1;
            out.case(if fmt == "json" { "serde.visit_seq" } else { "serde.visit_bytes" }, &[i(N), b(&elems)], &r.clone().map(|v| vec![Tok::B(v)]), true);
            match (&r, count == N) {
                (Outcome::Ok(v), true) if *v == elems => {}
                (Outcome::Err, false) => {}
                (Outcome::Panic, _) => out.hit(&format!("serde.{}.fixed-length.decode-panics.{}", fmt, name), format!("{} elements for N = {}", count, N), rp.clone()),
                (Outcome::Ok(_), false) => out.hit(&format!("serde.{}.fixed-length.accepts-{}.{}", fmt, if count < N { "short" } else { "long" }, name), format!("{} elements for N = {}", count, N), rp.clone()),
                _ => out.hit(&format!("serde.{}.fixed-length.rejects-exact.{}", fmt, name), format!("N = {}", N), rp.clone()),
            }
        }
    }
}

pub fn run(out: &mut Out, tier: &str, rng: &mut Rng) {
    let thorough = tier == "thorough";
    let lens: Vec<usize> = if thorough { (0..=70).chain([127, 128, 129, 4095, 4096, 4097]).collect() } else { vec![0, 1, 2, 3, 15, 16, 17, 64, 4097] };
    resizable::<HeapBytes>(out, rng, "HeapBytes", &|e| { let mut h = HeapBytes::default(); h.resize(e.len(), 0); h.as_mut_slice().copy_from_slice(e); Some(h) }, &lens);
    resizable::<LockedBytes>(out, rng, "LockedBytes", &|e| HeapBytes::from_slice_into_locked(e).ok(), &lens);
    fixed::<Locked<HeapByteArray<24>>, 24>(out, rng, "Locked<HeapByteArray>");
    fixed::<Locked<HeapByteArray<32>>, 32>(out, rng, "Locked<HeapByteArray>");
}
