//! Password-hash strings: totality of the parsers (part of C04) and C10 (self-describing strings,
//! interop with libsodium, parse/re-encode, needs_rehash).
use crate::common::*;
use crate::sodium;
use dryoc::classic::crypto_pwhash::*;
use dryoc::pwhash::{Config, VecPwHash};
use serde_json::json;

const B64: &[u8] = b"ABCDEFGHIJKLMNOPQRSTUVWXYZabcdefghijklmnopqrstuvwxyz0123456789+/";
pub fn b64_nopad(data: &[u8]) -> String {
    let mut s = String::new();
    for ch in data.chunks(3) {
        let n = (ch[0] as u32) << 16 | (*ch.get(1).unwrap_or(&0) as u32) << 8 | *ch.get(2).unwrap_or(&0) as u32;
        s.push(B64[(n >> 18) as usize & 63] as char);
        s.push(B64[(n >> 12) as usize & 63] as char);
        if ch.len() > 1 { s.push(B64[(n >> 6) as usize & 63] as char); }
        if ch.len() > 2 { s.push(B64[n as usize & 63] as char); }
    }
    s
}

pub fn phc(alg: &str, v: &str, m: &str, t: &str, p: &str, salt: &str, hash: &str) -> String {
    format!("${}$v={}$m={},t={},p={}${}${}", alg, v, m, t, p, salt, hash)
}

/// grammar-built strings: valid ones and one-defect variants; all with small cost parameters
pub fn grammar(rng: &mut Rng, n: usize) -> Vec<(String, String)> {
    let mut v: Vec<(String, String)> = vec![];
    for k in 0..n {
        let alg = if k % 2 == 0 { "argon2id" } else { "argon2i" };
        let m = 8 + rng.below(24); let t = 1 + rng.below(3);
        let sl = 8 + rng.below(25) as usize; let hl = 16 + rng.below(49) as usize;
        let salt = b64_nopad(&rng.bytes(sl)); let hash = b64_nopad(&rng.bytes(hl));
        let (ms, ts) = (m.to_string(), t.to_string());
        v.push(("valid".into(), phc(alg, "19", &ms, &ts, "1", &salt, &hash)));
        let variants: Vec<(&str, String)> = vec![
            ("no-leading-dollar", phc(alg, "19", &ms, &ts, "1", &salt, &hash)[1..].to_string()),
            ("alg-dropped", format!("$v=19$m={},t={},p=1${}${}", m, t, salt, hash)),
            ("version-dropped", format!("${}$m={},t={},p=1${}${}", alg, m, t, salt, hash)),
            ("params-dropped", format!("${}$v=19${}${}", alg, salt, hash)),
            ("salt-dropped", format!("${}$v=19$m={},t={},p=1${}", alg, m, t, hash)),
            ("hash-dropped", format!("${}$v=19$m={},t={},p=1${}$", alg, m, t, salt)),
            ("alg-duplicated", format!("${}${}$v=19$m={},t={},p=1${}${}", alg, alg, m, t, salt, hash)),
            ("params-duplicated", format!("${}$v=19$m={},t={},p=1$m={},t={},p=1${}${}", alg, m, t, m + 1, t, salt, hash)),
            ("reordered", format!("$v=19${}${}$m={},t={},p=1${}", alg, salt, m, t, hash)),
            ("params-reordered", format!("${}$v=19$p=1,t={},m={}${}${}", alg, t, m, salt, hash)),
            ("m-overflow", phc(alg, "19", "99999999999999999999", &ts, "1", &salt, &hash)),
            ("t-overflow", phc(alg, "19", &ms, "4294967296", "1", &salt, &hash)),
            ("v-overflow", phc(alg, "99999999999", &ms, &ts, "1", &salt, &hash)),
            ("m-plus", phc(alg, "19", &format!("+{}", m), &ts, "1", &salt, &hash)),
            ("m-leading-zeros", phc(alg, "19", &format!("000{}", m), &ts, "1", &salt, &hash)),
            ("m-negative", phc(alg, "19", &format!("-{}", m), &ts, "1", &salt, &hash)),
            ("m-empty", phc(alg, "19", "", &ts, "1", &salt, &hash)),
            ("t-zero", phc(alg, "19", &ms, "0", "1", &salt, &hash)),
            ("m-too-small", phc(alg, "19", "1", &ts, "1", &salt, &hash)),
            ("m-zero", phc(alg, "19", "0", &ts, "1", &salt, &hash)),
            ("p-two", phc(alg, "19", &ms, &ts, "2", &salt, &hash)),
            ("p-zero", phc(alg, "19", &ms, &ts, "0", &salt, &hash)),
            ("v-16", phc(alg, "16", &ms, &ts, "1", &salt, &hash)),
            ("alg-argon2d", phc("argon2d", "19", &ms, &ts, "1", &salt, &hash)),
            ("alg-argon2", phc("argon2", "19", &ms, &ts, "1", &salt, &hash)),
            ("alg-upper", phc("ARGON2ID", "19", &ms, &ts, "1", &salt, &hash)),
            ("salt-bad-b64", phc(alg, "19", &ms, &ts, "1", &format!("{}*", &salt[..salt.len() - 1]), &hash)),
            ("hash-bad-b64", phc(alg, "19", &ms, &ts, "1", &salt, &format!("{}!", &hash[..hash.len() - 1]))),
            ("salt-padded", phc(alg, "19", &ms, &ts, "1", &format!("{}=", salt), &hash)),
            ("hash-len-1mod4", phc(alg, "19", &ms, &ts, "1", &salt, &format!("{}A", b64_nopad(&rng.bytes(18))))),
            ("salt-empty", phc(alg, "19", &ms, &ts, "1", "", &hash)),
            ("hash-one-byte", phc(alg, "19", &ms, &ts, "1", &salt, "AA")),
            ("salt-one-byte", phc(alg, "19", &ms, &ts, "1", "AA", &hash)),
            ("trailing-dollar", format!("{}$", phc(alg, "19", &ms, &ts, "1", &salt, &hash))),
            ("trailing-junk", format!("{}$zzzz", phc(alg, "19", &ms, &ts, "1", &salt, &hash))),
            ("spaces", phc(alg, "19", &format!(" {}", m), &ts, "1", &salt, &hash)),
            ("extra-param", format!("${}$v=19$m={},t={},p=1,x=5${}${}", alg, m, t, salt, hash)),
            ("keyid-data", format!("${}$v=19$m={},t={},p=1,keyid=AAAA,data=AAAA${}${}", alg, m, t, salt, hash)),
            ("huge-hash", phc(alg, "19", &ms, &ts, "1", &salt, &b64_nopad(&rng.bytes(600)))),
            ("unicode", phc(alg, "19", &ms, &ts, "1", &salt, "héllo wörld ✓")),
            ("param-trailing-comma", format!("${}$v=19$m={},t={},p=1,${}${}", alg, m, t, salt, hash)),
            ("param-empty", format!("${}$v=19$m={},,t={},p=1${}${}", alg, m, t, salt, hash)),
            ("param-one-char", format!("${}$v=19$m={},t={},p=1,x${}${}", alg, m, t, salt, hash)),
            ("param-one-char-first", format!("${}$v=19$x,m={},t={},p=1${}${}", alg, m, t, salt, hash)),
            ("param-multibyte", format!("${}$v=19$m={},t={},p=1,aé=3${}${}", alg, m, t, salt, hash)),
            ("param-multibyte-first", format!("${}$v=19$✓,m={},t={},p=1${}${}", alg, m, t, salt, hash)),
            ("param-name-only", format!("${}$v=19$m=,t,p${}${}", alg, salt, hash)),
            ("version-one-char", format!("${}$v$m={},t={},p=1${}${}", alg, m, t, salt, hash)),
            ("version-multibyte", format!("${}$vé19$m={},t={},p=1${}${}", alg, m, t, salt, hash)),
        ];
        let pick = if k < 2 { variants.len() } else { 8 };
        for j in 0..pick {
            let idx = if k < 2 { j } else { rng.below(variants.len() as u64) as usize };
            v.push((variants[idx].0.to_string(), variants[idx].1.clone()));
        }
    }
    for s in ["", "$", "$$$$$$", "$argon2id", "$argon2id$", "$argon2id$v=19", "$argon2id$v=19$m=8,t=1,p=1", "$argon2id$v=19$m=8,t=1,p=1$", "$argon2id$v=19$m=8,t=1,p=1$$", "m=,t=,p=", "$m=8,t=1,p=1$v=19$argon2i$AAAAAAAAAAA$AAAAAAAAAAAAAAAAAAAAAAA", "v=", "$v=$m=,t=,p=$"] {
        v.push(("fragment".into(), s.to_string()));
    }
    v
}

pub fn soup(rng: &mut Rng, n: usize) -> Vec<String> {
    let alpha: Vec<char> = "$$$$,,==argon2idvmtp0123456789+/-ABCab \u{00e9}\u{2713}\n\0".chars().collect();
    (0..n).map(|_| { let l = rng.below(90) as usize; (0..l).map(|_| alpha[rng.below(alpha.len() as u64) as usize]).collect() }).collect()
}

pub fn totality(out: &mut Out, tier: &str, seed: u64) {
    let mut rng = Rng::new(seed, "pwstr-total");
    let thorough = tier == "thorough";
    let mut strings: Vec<(String, String)> = grammar(&mut rng, if thorough { 40 } else { 8 });
    for s in soup(&mut rng, if thorough { 3000 } else { 400 }) { strings.push(("soup".into(), s)); }
    // well-formed strings whose costs sit at the numeric boundaries (nothing is hashed for the object parse; the verify and
    // needs_rehash forms reject or answer without the memory)
    for alg in ["argon2i", "argon2id"] { for m in [4194303u64, 4194304, 4194305, 4294967295] { for t in [1u64, 4294967295] {
        strings.push(("boundary-costs-parse-only".into(), format!("${}$v=19$m={},t={},p=1$c2FsdHNhbHRzYWx0c2FsdA$AAECAwQFBgcICQoLDA0ODxAREhMUFRYXGBkaGxwdHh8", alg, m, t)));
    } } }
    for (class, s) in strings.iter() {
        for (name, r) in [
            ("pwhash.str_verify", if class == "boundary-costs-parse-only" { Outcome::Err } else { guard(|| crypto_pwhash_str_verify(s, b"password")) }),
            ("pwhash.str_needs_rehash", guard(|| crypto_pwhash_str_needs_rehash(s, 2, 16 * 1024).map(|_| ()))),
            ("obj.pwhash.from_string", guard(|| VecPwHash::from_string(s).map(|_| ()))),
            ("obj.pwhash.from_string+verify", if class == "boundary-costs-parse-only" { Outcome::Err } else { guard(|| VecPwHash::from_string(s).and_then(|p| p.verify(b"password"))) }),
            ("obj.pwhash.from_string+to_string", guard(|| VecPwHash::from_string(s).map(|p| { let _ = p.to_string(); }))),
        ] {
            out.search_evaluations += 1;
            *out.by_op.entry(format!("search:{}", name)).or_insert(0) += 1;
            if r.is_panic() { out.hit(&format!("{}.panics", name), format!("{} string", class), json!({"op": name, "class": class, "string": s})); }
        }
    }
}

fn cfg_fields(cfg: &Config) -> Option<(i64, u64, u64, u64, u64)> {
    let v = serde_json::to_value(cfg).ok()?;
    let alg = match v.get("algorithm")? { serde_json::Value::String(s) => if s == "Argon2i13" { 1 } else { 2 }, x => x.as_i64()? };
    Some((alg, v.get("hash_length")?.as_u64()?, v.get("memlimit")?.as_u64()?, v.get("opslimit")?.as_u64()?, v.get("salt_length")?.as_u64()?))
}

/// correspondence of the parser / encoder with the Coq model on one string
fn model_cases(out: &mut Out, s: &str, nontrivial: bool) {
    let sb = s.as_bytes();
    let r = guard(|| VecPwHash::from_string(s));
    let res = match r {
        Outcome::Ok(p) => {
            let re = p.to_string();
            let (hash, salt, cfg) = p.into_parts();
            match cfg_fields(&cfg) {
                Some((alg, hl, mem, ops, sl)) => {
                    out.case("pwhash.reencode", &[b(sb)], &Outcome::Ok(vec![b(re.as_bytes())]), nontrivial);
                    Outcome::Ok(vec![b(&hash), b(&salt), Tok::I(alg), Tok::I(hl as i64), b(&mem.to_le_bytes()), b(&ops.to_le_bytes()), Tok::I(sl as i64)])
                }
                None => Outcome::Panic,
            }
        }
        Outcome::Err => { out.case("pwhash.reencode", &[b(sb)], &Outcome::Err, nontrivial); Outcome::Err }
        Outcome::Panic => Outcome::Panic,
    };
    out.case("pwhash.from_string", &[b(sb)], &res, nontrivial);
    for (ops, mem) in [(2u64, 16usize * 1024), (3, 32 * 1024 + 5)] {
        let d = guard(|| crypto_pwhash_str_needs_rehash(s, ops, mem));
        out.case("pwhash.needs_rehash", &[b(sb), b(&ops.to_le_bytes()), b(&(mem as u64).to_le_bytes())], &d.map(|x| vec![Tok::I(x as i64)]), nontrivial);
    }
}

pub fn run_c10(out: &mut Out, tier: &str, seed: u64) {
    let mut rng = Rng::new(seed, "c10");
    let thorough = tier == "thorough";
    // parser / encoder correspondence: grammar-built strings (valid and one-defect variants), soup
    for (class, s) in grammar(&mut rng, if thorough { 60 } else { 12 }) { model_cases(out, &s, class == "valid" || s.len() > 40); out.len_bucket("phc-string", s.len()); }
    for s in soup(&mut rng, if thorough { 600 } else { 150 }) { model_cases(out, &s, false); }
    // salts / hashes whose base64 form begins like a field name ("argon2...", digits) -- legal values
    // that a segment-classifying parser may mistake for another field
    for (salt_b64, hash_b64) in [("argon2idAAAAAAAAAAAAAA", "q83vq83vq83vq83vq83vq83vq83vq83vq83vq83vq80"), ("AAAAAAAAAAAAAAAAAAAAAA", "argon2iAq83vq83vq83vq83vq83vq83vq83vq83vq80"), ("argon2AAAAA", "argon2AAAAAAAAAAAAAAAAAAAAA"), ("v19AAAAAAAA", "m8t1p1AAAAAAAAAAAAAAAAAAAAA")] {
        for alg in ["argon2id", "argon2i"] {
            let s = phc(alg, "19", "8", "3", "1", salt_b64, hash_b64);
            model_cases(out, &s, true);
            out.search_evaluations += 1;
            // such a string is well-formed: parse must succeed and re-encode to itself
            match guard(|| VecPwHash::from_string(&s)) {
                Outcome::Ok(p) => { if p.to_string() != s { out.hit("pwhash.reencode.changes-string.field-like-salt", format!("{} -> {}", s, p.to_string()), json!({"op":"obj.PwHash.from_string+to_string","string":s})); } }
                other => out.hit("pwhash.from_string.rejects-field-like-salt-or-hash", format!("{} ({})", s, other.class()), json!({"op":"obj.PwHash.from_string","string":s})),
            }
        }
    }
    // a libsodium-verifiable string whose salt encodes as "argon2id..." must verify under dryoc too
    {
        let salt: [u8; 16] = [0x6a, 0xb8, 0x28, 0x9f, 0x68, 0x9d, 0, 0, 0, 0, 0, 0, 0, 0, 0, 0];
        let salt_b64 = b64_nopad(&salt);
        let pw = b"correct horse";
        if let Some(h) = sodium::pwhash(32, pw, &salt, 3, 8192, 2) {
            let s = phc("argon2id", "19", "8", "3", "1", &salt_b64, &b64_nopad(&h));
            out.search_evaluations += 2;
            let l = sodium::pwhash_str_verify(&s, pw);
            let d = guard(|| crypto_pwhash_str_verify(&s, pw));
            if l && !d.is_ok() { out.hit("pwhash.str_verify.rejects-libsodium-verifiable-string", format!("salt encodes as {}: {}", salt_b64, s), json!({"op":"pwhash.str_verify","string":s,"pw":hx(pw)})); }
            out.notes.insert("field_like_salt_string".into(), json!({"string": s, "libsodium_accepts": l, "dryoc": d.class()}));
        }
    }
    let rounds = if thorough { 60 } else { 14 };
    for r in 0..rounds {
        let pw = { let l = rng.below(40) as usize; rng.bytes(l) };
        let wrong = { let mut w = pw.clone(); w.push(b'x'); w };
        let ops = 1 + rng.below(3);
        // memory: mostly small; the first rounds take sizes whose segment (a quarter of the blocks) is longer than one address
        // block of 128 and not a multiple of it, where the last address block of a segment is partly used
        let mem = if r < 4 { [516usize, 1000, 1540, 2047][r] * 1024 } else { (8 + rng.below(56) as usize) * 1024 };
        // 1. dryoc string: self-describing, libsodium accepts the right password only
        out.search_evaluations += 4;
        match guard(|| crypto_pwhash_str(&pw, ops, mem)) {
            Outcome::Ok(s) => {
                let want_prefix = format!("$argon2id$v=19$m={},t={},p=1$", mem / 1024, ops);
                if !s.starts_with(&want_prefix) { out.hit("pwhash.str.not-self-describing", format!("ops {} mem {}: {}", ops, mem, s), json!({"op":"pwhash.str","pw":hx(&pw),"ops":ops,"mem":mem,"string":s})); }
                if !sodium::pwhash_str_verify(&s, &pw) { out.hit("pwhash.str.libsodium-rejects-right-password", format!("ops {} mem {}", ops, mem), json!({"op":"pwhash.str","pw":hx(&pw),"ops":ops,"mem":mem,"string":s})); }
                if sodium::pwhash_str_verify(&s, &wrong) { out.hit("pwhash.str.libsodium-accepts-wrong-password", format!("ops {} mem {}", ops, mem), json!({"string":s})); }
                if !guard(|| crypto_pwhash_str_verify(&s, &pw)).is_ok() { out.hit("pwhash.str_verify.rejects-own-string", format!("ops {} mem {}", ops, mem), json!({"string":s,"pw":hx(&pw)})); }
                if !guard(|| crypto_pwhash_str_verify(&s, &wrong)).is_err() { out.hit("pwhash.str_verify.accepts-wrong-password", format!("ops {} mem {}", ops, mem), json!({"string":s})); }
                // the salt inside is what was used: recompute through libsodium's raw API when the salt is 16 bytes
            }
            other => out.hit("pwhash.str.fails", format!("class {}", other.class()), json!({"ops":ops,"mem":mem})),
        }
        // 2. libsodium strings (both algorithms) verify under dryoc
        for alg in [2i32, 1i32] {
            let lops = if alg == 1 { 3 } else { ops };
            if let Some(s) = sodium::pwhash_str_alg(&pw, lops, mem, alg) {
                out.search_evaluations += 4;
                if !guard(|| crypto_pwhash_str_verify(&s, &pw)).is_ok() { out.hit("pwhash.str_verify.rejects-libsodium-string", format!("alg {} ops {} mem {}", alg, lops, mem), json!({"op":"pwhash.str_verify","string":s,"pw":hx(&pw)})); }
                if !guard(|| crypto_pwhash_str_verify(&s, &wrong)).is_err() { out.hit("pwhash.str_verify.accepts-wrong-password", format!("alg {}", alg), json!({"string":s})); }
                // 3. parse and re-encode returns the same string
                match guard(|| VecPwHash::from_string(&s)) {
                    Outcome::Ok(p) => {
                        let re = p.to_string();
                        if re != s { out.hit(&format!("pwhash.reencode.changes-string.{}", if alg == 1 { "argon2i" } else { "argon2id" }), format!("{} -> {}", s, re), json!({"op":"obj.PwHash.from_string+to_string","string":s,"reencoded":re})); }
                        if !guard(|| p.verify(&pw)).is_ok() { out.hit("obj.pwhash.verify.rejects-right-password", format!("alg {}", alg), json!({"string":s,"pw":hx(&pw)})); }
                        if !guard(|| p.verify(&wrong)).is_err() { out.hit("obj.pwhash.verify.accepts-wrong-password", format!("alg {}", alg), json!({"string":s})); }
                    }
                    other => out.hit("obj.pwhash.from_string.rejects-libsodium-string", format!("alg {} class {}", alg, other.class()), json!({"string":s})),
                }
                // 4. needs_rehash: false exactly when both cost parameters match
                for (o2, m2) in [(lops, mem), (lops + 1, mem), (lops, mem + 1024), (lops + 1, mem + 2048), (lops, mem + 1023)] {
                    out.search_evaluations += 1;
                    let d = guard(|| crypto_pwhash_str_needs_rehash(&s, o2, m2));
                    let want = !(o2 == lops && m2 / 1024 == mem / 1024);
                    if d.clone().ok() != Some(want) { out.hit("pwhash.needs_rehash.wrong-answer", format!("string costs ({}, {}) asked ({}, {}) -> {:?}", lops, mem, o2, m2, d.clone().ok()), json!({"op":"pwhash.str_needs_rehash","string":s,"ops":o2,"mem":m2})); }
                    if alg == 2 {
                        let l = sodium::pwhash_str_needs_rehash(&s, o2, m2);
                        if l >= 0 && d.ok() != Some(l == 1) { out.hit("pwhash.needs_rehash.differs-from-libsodium", format!("({}, {})", o2, m2), json!({"string":s,"ops":o2,"mem":m2,"libsodium":l})); }
                    }
                }
            }
        }
        // 5. object API: any salt length 8..=64 and hash length 16..=128; string round trip and libsodium verify
        let sl = 8 + (r * 5) % 57; let hl = 16 + (r * 11) % 113;
        let salt = rng.bytes(sl);
        let cfg = Config::interactive().with_opslimit(ops).with_memlimit(mem).with_salt_length(sl).with_hash_length(hl);
        out.search_evaluations += 3;
        match guard(|| VecPwHash::hash_with_salt(&pw, salt.clone(), cfg.clone())) {
            Outcome::Ok(p) => {
                let s = p.to_string();
                if s.len() < 128 && !sodium::pwhash_str_verify(&s, &pw) { out.hit("obj.pwhash.to_string.libsodium-rejects", format!("salt {} hash {}", sl, hl), json!({"op":"obj.PwHash.to_string","string":s,"pw":hx(&pw)})); }
                match guard(|| VecPwHash::from_string(&s)) {
                    Outcome::Ok(p2) => {
                        if p2.to_string() != s { out.hit("pwhash.reencode.changes-string.argon2id", format!("salt {} hash {}", sl, hl), json!({"string":s,"reencoded":p2.to_string()})); }
                        if !guard(|| p2.verify(&pw)).is_ok() { out.hit("obj.pwhash.verify.rejects-right-password", format!("salt {} hash {}", sl, hl), json!({"string":s})); }
                    }
                    other => out.hit("obj.pwhash.from_string.rejects-own-string", format!("class {}", other.class()), json!({"string":s})),
                }
            }
            other => out.hit("obj.pwhash.hash_with_salt.fails", format!("class {} salt {} hash {}", other.class(), sl, hl), json!({"salt_len":sl,"hash_len":hl})),
        }
    }
    // crypto_pwhash_str with the salt scripted through the generator hook, so that the model can follow:
    // the string, and its verification with the right and a wrong password
    for (k, (ops, mem)) in [(1u64, 8192usize), (2, 9 * 1024), (1, 13 * 1024 + 7)].iter().enumerate() {
        let pw = rng.bytes([0usize, 7, 33][k]);
        let salt: [u8; 16] = rng.arr();
        { let mut g = crate::c11::STREAM.lock().unwrap(); g.0 = salt.to_vec(); g.0.extend_from_slice(&[0u8; 64]); g.1 = 0; g.2.clear(); }
        dryoc::rng::verif_set_rng(Some(crate::c11::hook));
        let r = guard(|| crypto_pwhash_str(&pw, *ops, *mem));
        dryoc::rng::verif_set_rng(None);
        out.case("pwhash.str", &[b(&pw), b(&salt), Tok::B(ops.to_le_bytes().to_vec()), Tok::B((*mem as u64).to_le_bytes().to_vec())], &r.clone().map(|x| vec![Tok::B(x.into_bytes())]), true);
        if let Outcome::Ok(sx) = r {
            let v = guard(|| crypto_pwhash_str_verify(&sx, &pw));
            out.case("pwhash.str_verify", &[b(sx.as_bytes()), b(&pw)], &v.map(|_| vec![]), true);
            let mut wrong = pw.clone(); wrong.push(1);
            let v = guard(|| crypto_pwhash_str_verify(&sx, &wrong));
            out.case("pwhash.str_verify", &[b(sx.as_bytes()), b(&wrong)], &v.map(|_| vec![]), true);
        }
    }
    // memory costs around and above 2^22 KiB (4 GiB in bytes: beyond u32 once multiplied by 1024) and up to the
    // largest the string format holds; parsing and re-encoding hashes nothing
    for alg in ["argon2i", "argon2id"] {
        for m in [4194303u64, 4194304, 4194305, 6291456, 8388608, 8388609, 2147483648, 4294967294, 4294967295] {
            for t in [1u64, 3, 4294967295] {
                let s = format!("${}$v=19$m={},t={},p=1$c2FsdHNhbHRzYWx0c2FsdA$AAECAwQFBgcICQoLDA0ODxAREhMUFRYXGBkaGxwdHh8", alg, m, t);
                out.search_evaluations += 1;
                model_cases(out, &s, true);
                match guard(|| VecPwHash::from_string(&s)) {
                    Outcome::Ok(p) => { let re = p.to_string(); if re != s { out.hit(&format!("pwhash.reencode.changes-string.{}.large-memory", alg), format!("{} -> {}", s, re), json!({"op":"obj.PwHash.from_string+to_string","string":s,"reencoded":re})); } }
                    other => out.hit("obj.pwhash.from_string.rejects-valid-string.large-memory", format!("class {}", other.class()), json!({"string":s})),
                }
            }
        }
    }
    // grammar-built canonical strings of both algorithms re-encode to themselves (no hashing needed)
    for (class, s) in grammar(&mut rng, if thorough { 200 } else { 40 }) {
        if class != "valid" { continue; }
        out.search_evaluations += 1;
        match guard(|| VecPwHash::from_string(&s)) {
            Outcome::Ok(p) => { let re = p.to_string(); if re != s { let a = if s.starts_with("$argon2i$") { "argon2i" } else { "argon2id" }; out.hit(&format!("pwhash.reencode.changes-string.{}", a), format!("{} -> {}", s, re), json!({"op":"obj.PwHash.from_string+to_string","string":s,"reencoded":re})); } }
            other => out.hit("obj.pwhash.from_string.rejects-valid-string", format!("class {}", other.class()), json!({"string":s})),
        }
    }
    crate::objapi::pwhash_lengths(out, &mut rng);
}
