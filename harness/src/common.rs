//! Shared harness plumbing: PRNG, token format, outcome capture, output files.
use std::collections::{BTreeMap, HashSet};
use std::fs::File;
use std::io::{BufWriter, Write};
use std::panic::{catch_unwind, AssertUnwindSafe};

pub struct Rng(pub u64);
impl Rng {
    pub fn new(seed: u64, stream: &str) -> Self {
        let mut h: u64 = 0xcbf29ce484222325;
        for b in stream.bytes() {
            h ^= b as u64;
            h = h.wrapping_mul(0x100000001b3);
        }
        Rng(seed ^ h)
    }
    pub fn next(&mut self) -> u64 {
        self.0 = self.0.wrapping_add(0x9e3779b97f4a7c15);
        let mut z = self.0;
        z = (z ^ (z >> 30)).wrapping_mul(0xbf58476d1ce4e5b9);
        z = (z ^ (z >> 27)).wrapping_mul(0x94d049bb133111eb);
        z ^ (z >> 31)
    }
    pub fn below(&mut self, n: u64) -> u64 {
        if n == 0 { 0 } else { self.next() % n }
    }
    pub fn bytes(&mut self, n: usize) -> Vec<u8> {
        let mut v = Vec::with_capacity(n);
        while v.len() < n {
            let x = self.next().to_le_bytes();
            let k = std::cmp::min(8, n - v.len());
            v.extend_from_slice(&x[..k]);
        }
        v
    }
    pub fn fill(&mut self, out: &mut [u8]) {
        let v = self.bytes(out.len());
        out.copy_from_slice(&v);
    }
    pub fn arr<const N: usize>(&mut self) -> [u8; N] {
        let mut a = [0u8; N];
        self.fill(&mut a);
        a
    }
}

#[derive(Clone, Debug, PartialEq)]
pub enum Tok {
    B(Vec<u8>),
    I(i64),
    N,
    L(Vec<Tok>),
}
pub fn b(x: &[u8]) -> Tok { Tok::B(x.to_vec()) }
pub fn i(x: usize) -> Tok { Tok::I(x as i64) }

pub fn fmt_tok(t: &Tok, s: &mut String) {
    match t {
        Tok::B(v) => { s.push('x'); s.push_str(&hex::encode(v)); }
        Tok::I(v) => { s.push('i'); s.push_str(&v.to_string()); }
        Tok::N => s.push('-'),
        Tok::L(l) => {
            s.push('[');
            for t in l { s.push(' '); fmt_tok(t, s); }
            s.push_str(" ]");
        }
    }
}
pub fn fmt_toks(ts: &[Tok]) -> String {
    let mut s = String::new();
    for (k, t) in ts.iter().enumerate() {
        if k > 0 { s.push(' '); }
        fmt_tok(t, &mut s);
    }
    s
}

#[derive(Clone, Debug, PartialEq)]
pub enum Outcome<T> { Ok(T), Err, Panic }
impl<T> Outcome<T> {
    pub fn class(&self) -> &'static str {
        match self { Outcome::Ok(_) => "ok", Outcome::Err => "err", Outcome::Panic => "panic" }
    }
    pub fn is_ok(&self) -> bool { matches!(self, Outcome::Ok(_)) }
    pub fn is_err(&self) -> bool { matches!(self, Outcome::Err) }
    pub fn is_panic(&self) -> bool { matches!(self, Outcome::Panic) }
    pub fn map<U>(self, f: impl FnOnce(T) -> U) -> Outcome<U> {
        match self { Outcome::Ok(v) => Outcome::Ok(f(v)), Outcome::Err => Outcome::Err, Outcome::Panic => Outcome::Panic }
    }
    pub fn ok(self) -> Option<T> { if let Outcome::Ok(v) = self { Some(v) } else { None } }
}

/// Runs `f`, mapping Result::Err to Err and an unwind to Panic.
pub fn guard<T, E>(f: impl FnOnce() -> Result<T, E>) -> Outcome<T> {
    match catch_unwind(AssertUnwindSafe(f)) {
        Ok(Ok(v)) => Outcome::Ok(v),
        Ok(Err(_)) => Outcome::Err,
        Err(_) => Outcome::Panic,
    }
}
/// Runs an infallible `f`, mapping an unwind to Panic.
pub fn guard_total<T>(f: impl FnOnce() -> T) -> Outcome<T> {
    match catch_unwind(AssertUnwindSafe(f)) {
        Ok(v) => Outcome::Ok(v),
        Err(_) => Outcome::Panic,
    }
}

pub struct Hit {
    pub sig: String,
    pub what: String,
    pub replay: serde_json::Value,
}

pub struct Out {
    pub dir: String,
    cases: BufWriter<File>,
    imp: BufWriter<File>,
    next_id: u64,
    pub hits: Vec<Hit>,
    pub evaluations: u64,
    pub search_evaluations: u64,
    distinct: HashSet<u64>,
    pub by_op: BTreeMap<String, u64>,
    pub by_class: BTreeMap<String, u64>,
    pub len_hist: BTreeMap<String, u64>,
    pub samples: Vec<String>,
    pub notes: BTreeMap<String, serde_json::Value>,
    sample_ops: BTreeMap<String, u32>,
}

fn fnv(s: &str) -> u64 {
    let mut h: u64 = 0xcbf29ce484222325;
    for b in s.bytes() { h ^= b as u64; h = h.wrapping_mul(0x100000001b3); }
    h
}

impl Out {
    pub fn new(dir: &str) -> Self {
        std::fs::create_dir_all(dir).unwrap();
        Out {
            dir: dir.to_string(),
            cases: BufWriter::new(File::create(format!("{}/cases.txt", dir)).unwrap()),
            imp: BufWriter::new(File::create(format!("{}/impl.txt", dir)).unwrap()),
            next_id: 1,
            hits: vec![],
            evaluations: 0,
            search_evaluations: 0,
            distinct: HashSet::new(),
            by_op: BTreeMap::new(),
            by_class: BTreeMap::new(),
            len_hist: BTreeMap::new(),
            samples: vec![],
            notes: BTreeMap::new(),
            sample_ops: BTreeMap::new(),
        }
    }

    /// Records one correspondence case: the operation, its arguments and what
    /// the implementation returned.  `nontrivial` = the case exercises more
    /// than an immediate argument check (rule stated by each property module).
    pub fn case(&mut self, op: &str, args: &[Tok], res: &Outcome<Vec<Tok>>, nontrivial: bool) -> u64 {
        let id = self.next_id;
        self.next_id += 1;
        let a = fmt_toks(args);
        writeln!(self.cases, "{} {} {}", id, op, a).unwrap();
        let line = match res {
            Outcome::Ok(v) => {
                if v.is_empty() { "ok".to_string() } else { format!("ok {}", fmt_toks(v)) }
            }
            Outcome::Err => "err".to_string(),
            Outcome::Panic => "panic".to_string(),
        };
        writeln!(self.imp, "{} {}", id, line).unwrap();
        self.evaluations += 1;
        *self.by_op.entry(op.to_string()).or_insert(0) += 1;
        *self.by_class.entry(res.class().to_string()).or_insert(0) += 1;
        if nontrivial {
            self.distinct.insert(fnv(&format!("{} {}", op, a)));
        }
        let k = self.sample_ops.entry(format!("{}/{}", op, res.class())).or_insert(0);
        if *k < 2 && self.samples.len() < 24 {
            *k += 1;
            let mut s = format!("{} {} => {}", op, a, line);
            if s.len() > 400 { s.truncate(400); s.push_str("..."); }
            self.samples.push(s);
        }
        id
    }

    pub fn len_bucket(&mut self, what: &str, n: usize) {
        let bk = match n { 0 => "0".to_string(), 1..=15 => "1-15".into(), 16..=63 => "16-63".into(),
            64..=127 => "64-127".into(), 128..=255 => "128-255".into(), 256..=1023 => "256-1023".into(),
            _ => "1024+".into() };
        *self.len_hist.entry(format!("{}:{}", what, bk)).or_insert(0) += 1;
    }

    pub fn hit(&mut self, sig: &str, what: String, replay: serde_json::Value) {
        // keep the first (smallest, generators go small to large) hit per signature and a count
        let n = self.hits.iter().filter(|h| h.sig == sig).count();
        if n < 3 {
            self.hits.push(Hit { sig: sig.to_string(), what, replay });
        }
        *self.by_class.entry(format!("hit:{}", sig)).or_insert(0) += 1;
    }

    pub fn finish(mut self, prop: &str, tier: &str, seed: u64) {
        self.cases.flush().unwrap();
        self.imp.flush().unwrap();
        let hits: Vec<serde_json::Value> = self.hits.iter().map(|h| serde_json::json!({
            "sig": h.sig, "what": h.what, "replay": h.replay })).collect();
        let hit_counts: BTreeMap<String, u64> = self.by_class.iter()
            .filter(|(k, _)| k.starts_with("hit:")).map(|(k, v)| (k[4..].to_string(), *v)).collect();
        let classes: BTreeMap<String, u64> = self.by_class.iter()
            .filter(|(k, _)| !k.starts_with("hit:")).map(|(k, v)| (k.clone(), *v)).collect();
        let j = serde_json::json!({
            "property": prop, "tier": tier, "seed": seed,
            "evaluations": self.evaluations,
            "search_evaluations": self.search_evaluations,
            "distinct_nontrivial": self.distinct.len(),
            "by_op": self.by_op, "outcome_classes": classes, "length_histogram": self.len_hist,
            "samples": self.samples, "hits": hits, "hit_counts": hit_counts, "notes": self.notes,
        });
        std::fs::write(format!("{}/stats.json", self.dir), serde_json::to_string_pretty(&j).unwrap()).unwrap();
    }
}

pub fn hx(v: &[u8]) -> String { hex::encode(v) }
