//! C06 (Ed25519 exact, strict verification) and C13 (seeded key generation, Ed25519 -> X25519).
use crate::common::*;
use crate::sodium;
use dryoc::classic::crypto_sign::*;
use dryoc::classic::crypto_sign_ed25519::{crypto_sign_ed25519_pk_to_curve25519, crypto_sign_ed25519_sk_to_curve25519};
use dryoc::types::*;
use serde_json::json;

fn hexa32(s: &str) -> [u8; 32] { hex::decode(s).unwrap().try_into().unwrap() }
const L: [u8; 32] = [0xed, 0xd3, 0xf5, 0x5c, 0x1a, 0x63, 0x12, 0x58, 0xd6, 0x9c, 0xf7, 0xa2, 0xde, 0xf9, 0xde, 0x14, 0, 0, 0, 0, 0, 0, 0, 0, 0, 0, 0, 0, 0, 0, 0, 0x10];

fn add_le(a: &[u8; 32], bb: &[u8; 32]) -> Option<[u8; 32]> {
    let mut out = [0u8; 32]; let mut c = 0u16;
    for k in 0..32 { let s = a[k] as u16 + bb[k] as u16 + c; out[k] = s as u8; c = s >> 8; }
    if c == 0 { Some(out) } else { None }
}

/// the eight torsion points, their sign-bit and non-canonical encodings
pub fn torsion_encodings() -> Vec<(String, [u8; 32])> {
    let mut v = vec![];
    for (n, h) in [
        ("identity", "0100000000000000000000000000000000000000000000000000000000000000"),
        ("order2", "ecffffffffffffffffffffffffffffffffffffffffffffffffffffffffffff7f"),
        ("order4-a", "0000000000000000000000000000000000000000000000000000000000000000"),
        ("order4-b", "0000000000000000000000000000000000000000000000000000000000000080"),
        ("order8-a", "26e8958fc2b227b045c3f489f2ef98f0d5dfac05d3c63339b13802886d53fc05"),
        ("order8-b", "c7176a703d4dd84fba3c0b760d10670f2a2053fa2c39ccc64ec7fd7792ac037a"),
        ("order8-c", "26e8958fc2b227b045c3f489f2ef98f0d5dfac05d3c63339b13802886d53fc85"),
        ("order8-d", "c7176a703d4dd84fba3c0b760d10670f2a2053fa2c39ccc64ec7fd7792ac03fa"),
        ("noncanon-identity-sign", "0100000000000000000000000000000000000000000000000000000000000080"),
        ("noncanon-order2-sign", "ecffffffffffffffffffffffffffffffffffffffffffffffffffffffffffffff"),
        ("noncanon-y=p", "edffffffffffffffffffffffffffffffffffffffffffffffffffffffffffff7f"),
        ("noncanon-y=p-sign", "edffffffffffffffffffffffffffffffffffffffffffffffffffffffffffffff"),
        ("noncanon-y=p+1", "eeffffffffffffffffffffffffffffffffffffffffffffffffffffffffffff7f"),
        ("noncanon-y=p+1-sign", "eeffffffffffffffffffffffffffffffffffffffffffffffffffffffffffffff"),
    ] { v.push((n.to_string(), hexa32(h))); }
    v
}

fn d_sign(m: &[u8], sk: &[u8; 64]) -> Outcome<[u8; 64]> { guard(|| { let mut s = [0u8; 64]; crypto_sign_detached(&mut s, m, sk).map(|_| s) }) }
fn d_verify(sig: &[u8; 64], m: &[u8], pk: &[u8; 32]) -> Outcome<()> { guard(|| crypto_sign_verify_detached(sig, m, pk)) }
fn d_sign_ph(chunks: &[&[u8]], sk: &[u8; 64]) -> Outcome<[u8; 64]> { guard(|| { let mut st = crypto_sign_init(); for c in chunks { crypto_sign_update(&mut st, c); } let mut s = [0u8; 64]; crypto_sign_final_create(st, &mut s, sk).map(|_| s) }) }
fn d_verify_ph(chunks: &[&[u8]], sig: &[u8; 64], pk: &[u8; 32]) -> Outcome<()> { guard(|| { let mut st = crypto_sign_init(); for c in chunks { crypto_sign_update(&mut st, c); } crypto_sign_final_verify(st, sig, pk) }) }
fn vtok(o: &Outcome<()>) -> Outcome<Vec<Tok>> { o.clone().map(|_| vec![]) }

pub fn run_c06(out: &mut Out, tier: &str, seed: u64) {
    let mut rng = Rng::new(seed, "c06");
    let thorough = tier == "thorough";
    let nseeds = if thorough { 12 } else { 4 };
    let maxlen = 130usize;
    let mut model_sign = if thorough { 24 } else { 6 };
    let mut model_verify = if thorough { 24 } else { 6 };
    rare_keys(out, &mut rng, if thorough { 400_000 } else { 60_000 });
    for si in 0..nseeds {
        let sd: [u8; 32] = match si { 0 => hexa32("9d61b19deffd5a60ba844af492ec2cc44449c5697b326919703bac031cae7f60"), 1 => [0u8; 32], 2 => [0xff; 32], _ => rng.arr() };
        let (pk, sk) = crypto_sign_seed_keypair(&sd);
        let (lpk, lsk) = sodium::sign_seed_keypair(&sd);
        out.search_evaluations += 1;
        if pk != lpk || sk != lsk { out.hit("sign.seed_keypair.differs-from-libsodium", format!("seed #{}", si), json!({"op":"sign.seed_keypair","seed":hx(&sd)})); }
        if si < 3 { out.case("sign.seed_keypair", &[b(&sd)], &Outcome::Ok(vec![b(&pk), b(&sk)]), true); }
        let mut lens: Vec<usize> = (0..=maxlen).collect(); lens.push(1024);
        for &len in &lens {
            if si > 0 && !thorough && len % 4 != si % 4 { continue; }
            let m = rng.bytes(len);
            let sig = d_sign(&m, &sk);
            let ls = sodium::sign_detached(&m, &lsk);
            out.search_evaluations += 4;
            let sig = match sig { Outcome::Ok(s) => s, _ => { out.hit("sign.detached.fails", format!("len {}", len), json!({"len":len})); continue; } };
            if sig != ls { out.hit("sign.detached.differs-from-libsodium", format!("len {}", len), json!({"op":"sign.detached","seed":hx(&sd),"msg":hx(&m),"dryoc":hx(&sig),"libsodium":hx(&ls)})); }
            if !d_verify(&sig, &m, &pk).is_ok() { out.hit("sign.verify.rejects-own-signature", format!("len {}", len), json!({"op":"sign.verify_detached","pk":hx(&pk),"msg":hx(&m),"sig":hx(&sig)})); }
            if !sodium::sign_verify_detached(&sig, &m, &pk) { out.hit("sign.libsodium-rejects-dryoc-signature", format!("len {}", len), json!({"len":len})); }
            if model_sign > 0 && (len < 3 || len == 64 || len == 129) { model_sign -= 1; out.case("sign.detached", &[Tok::I(0), b(&m), b(&sk)], &Outcome::Ok(vec![b(&sig)]), true); }
            if model_verify > 0 && (len == 1 || len == 77) { model_verify -= 1; out.case("sign.verify_detached", &[Tok::I(0), b(&sig), b(&m), b(&pk)], &Outcome::Ok(vec![]), true); }
            // combined mode and object API
            let sm = guard(|| { let mut s = vec![0u8; len + 64]; crypto_sign(&mut s, &m, &sk).map(|_| s) });
            if sm.clone().ok() != Some(sodium::sign_combined(&m, &lsk)) { out.hit("sign.combined.differs-from-libsodium", format!("len {}", len), json!({"len":len})); }
            if let Outcome::Ok(smv) = &sm {
                let o = guard(|| { let mut mm = vec![0u8; len]; crypto_sign_open(&mut mm, smv, &pk).map(|_| mm) });
                if o.ok().as_ref() != Some(&m) { out.hit("sign.open.roundtrip-fails", format!("len {}", len), json!({"len":len})); }
            }
            if len % 8 == 0 {
                let kp = dryoc::sign::SigningKeyPair::<dryoc::sign::PublicKey, dryoc::sign::SecretKey>::from_seed(&StackByteArray::<32>::from(&sd));
                let s2 = kp.sign_with_defaults(m.clone()).unwrap();
                if s2.to_vec()[..64] != ls[..] { out.hit("obj.sign.differs-from-libsodium", format!("len {}", len), json!({"len":len})); }
                if s2.verify(&kp.public_key).is_err() { out.hit("obj.sign.verify.rejects-own", format!("len {}", len), json!({"len":len})); }
                // every way of building the key pair gives libsodium's keys and signatures
                {
                    type KP = dryoc::sign::SigningKeyPair<dryoc::sign::PublicKey, dryoc::sign::SecretKey>;
                    out.search_evaluations += 2;
                    let k2 = guard_total(|| KP::from_secret_key(StackByteArray::<64>::from(&lsk)));
                    match k2 {
                        Outcome::Ok(k2) => {
                            if k2.public_key.as_array() != &pk || k2.secret_key.as_array() != &lsk { out.hit("obj.sign.keypair.from_secret_key.differs-from-libsodium", format!("len {}", len), json!({"op":"obj.SigningKeyPair.from_secret_key","sk":hx(&lsk),"pk":hx(&pk)})); }
                            match guard(|| k2.sign_with_defaults(m.clone())) { Outcome::Ok(sx) if sx.to_vec()[..64] == ls[..] => {}, _ => out.hit("obj.sign.keypair.from_secret_key.signature-differs", format!("len {}", len), json!({"op":"obj.SigningKeyPair.from_secret_key+sign","sk":hx(&lsk)})) }
                        }
                        o => out.hit("obj.sign.keypair.from_secret_key.fails", o.class().to_string(), json!({"sk":hx(&lsk)})),
                    }
                    match guard(|| dryoc::sign::SigningKeyPair::<dryoc::sign::PublicKey, dryoc::sign::SecretKey>::from_slices(&pk, &lsk)) {
                        Outcome::Ok(k3) => { if k3.public_key.as_array() != &pk || k3.secret_key.as_array() != &lsk { out.hit("obj.sign.keypair.from_slices.differs", format!("len {}", len), json!({"sk":hx(&lsk)})); } }
                        _ => out.hit("obj.sign.keypair.from_slices.fails", format!("len {}", len), json!({"sk":hx(&lsk)})),
                    }
                }
                // the combined form read back through the object API: libsodium's and dryoc's own bytes
                out.search_evaluations += 2;
                for (who, bytes) in [("libsodium", sodium::sign_combined(&m, &lsk)), ("own", s2.to_vec())] {
                    match guard(|| dryoc::sign::VecSignedMessage::from_bytes(&bytes)) {
                        Outcome::Ok(smo) => { if smo.verify(&kp.public_key).is_err() { out.hit("obj.sign.from_bytes.no-longer-verifies", format!("{} bytes, len {}", who, len), json!({"op":"obj.SignedMessage.from_bytes","bytes":hx(&bytes),"pk":hx(&pk)})); } }
                        o => out.hit("obj.sign.from_bytes.rejects-valid", format!("{} signed message of length {}: {}", who, len, o.class()), json!({"op":"obj.SignedMessage.from_bytes","bytes":hx(&bytes),"pk":hx(&pk)})),
                    }
                }
            }
            // pre-hashed incremental mode
            if len % 3 == 0 || len < 10 {
                let cut = if len == 0 { 0 } else { rng.below(len as u64 + 1) as usize };
                let chunks: [&[u8]; 2] = [&m[..cut], &m[cut..]];
                let ph = d_sign_ph(&chunks, &sk);
                let lph = sodium::sign_ph(&chunks, &lsk);
                out.search_evaluations += 4;
                if ph.clone().ok() != Some(lph) { out.hit("sign.ph.differs-from-libsodium", format!("len {}", len), json!({"op":"sign.ph","seed":hx(&sd),"msg":hx(&m)})); }
                if !d_verify_ph(&chunks, &lph, &pk).is_ok() { out.hit("sign.ph.verify-rejects-libsodium-signature", format!("len {}", len), json!({"len":len})); }
                // mode cross-overs: a pure signature must not verify as pre-hashed and vice versa
                if !d_verify_ph(&chunks, &sig, &pk).is_err() { out.hit("sign.ph.verify-accepts-pure-signature", format!("len {}", len), json!({"op":"sign.verify_ph","pk":hx(&pk),"msg":hx(&m),"sig":hx(&sig)})); }
                if !d_verify(&lph, &m, &pk).is_err() { out.hit("sign.verify-accepts-prehashed-signature", format!("len {}", len), json!({"op":"sign.verify_detached","pk":hx(&pk),"msg":hx(&m),"sig":hx(&lph)})); }
                // the object API's incremental signer: libsodium's pre-hashed signature; verification accepts it, and rejects
                // (never panics on) signatures and public keys held in Vecs of the wrong length
                {
                    use dryoc::sign::IncrementalSigner;
                    out.search_evaluations += 10;
                    let feed = |s: &mut IncrementalSigner| { s.update(&chunks[0].to_vec()); s.update(&chunks[1].to_vec()); };
                    let fin = guard(|| { let mut s = IncrementalSigner::new(); feed(&mut s); let sg: StackByteArray<64> = s.finalize(&StackByteArray::<64>::from(&lsk))?; Ok::<_, dryoc::Error>(sg.to_vec()) });
                    if fin.ok().as_deref() != Some(&lph[..]) { out.hit("obj.sign.incremental.finalize-differs-from-libsodium", format!("len {}", len), json!({"op":"obj.IncrementalSigner.finalize","seed":hx(&sd),"msg":hx(&m)})); }
                    let ver = |sg: &Vec<u8>, pkv: &Vec<u8>| guard(|| { let mut s = IncrementalSigner::new(); feed(&mut s); s.verify(sg, pkv) });
                    if !ver(&lph.to_vec(), &pk.to_vec()).is_ok() { out.hit("obj.sign.incremental.verify-rejects-libsodium-signature", format!("len {}", len), json!({"len":len})); }
                    for (what, sg, pkv) in [("signature extended", [lph.to_vec(), vec![0u8]].concat(), pk.to_vec()), ("signature one byte short", lph[..63].to_vec(), pk.to_vec()), ("signature empty", vec![], pk.to_vec()),
                                            ("public key extended", lph.to_vec(), [pk.to_vec(), vec![0u8]].concat()), ("public key one byte short", lph.to_vec(), pk[..31].to_vec()),
                                            ("signature bit", { let mut x = lph.to_vec(); x[5] ^= 4; x }, pk.to_vec())] {
                        let r = ver(&sg, &pkv);
                        let rp = json!({"op":"obj.IncrementalSigner.verify","sig":hx(&sg),"pk":hx(&pkv),"msg":hx(&m),"what":what});
                        if r.is_ok() { out.hit("obj.sign.incremental.verify-accepts-wrong-length-or-changed", format!("{} (len {})", what, len), rp.clone()); }
                        if r.is_panic() { out.hit("obj.sign.incremental.verify-panics", format!("{} (len {})", what, len), rp.clone()); }
                    }
                }
                if model_sign > 0 && len == 9 { model_sign -= 1; out.case("sign.ph", &[Tok::L(vec![b(chunks[0]), b(chunks[1])]), b(&sk)], &ph.map(|s| vec![b(&s)]), true); }
            }
            // single-bit mutations of message, signature, public key (short messages)
            if len <= 24 || len == 100 {
                for bit in 0..(len * 8) { let mut m2 = m.clone(); m2[bit / 8] ^= 1 << (bit % 8); out.search_evaluations += 1;
                    let d = d_verify(&sig, &m2, &pk);
                    if d.is_ok() != sodium::sign_verify_detached(&sig, &m2, &pk) || d.is_panic() { out.hit("sign.verify.message-bit.differs-from-libsodium", format!("len {} bit {} ({})", len, bit, d.class()), json!({"op":"sign.verify_detached","pk":hx(&pk),"msg":hx(&m2),"sig":hx(&sig)})); } }
                for bit in 0..512 { let mut s2 = sig; s2[bit / 8] ^= 1 << (bit % 8); out.search_evaluations += 1;
                    let d = d_verify(&s2, &m, &pk);
                    if d.is_ok() != sodium::sign_verify_detached(&s2, &m, &pk) || d.is_panic() { out.hit("sign.verify.signature-bit.differs-from-libsodium", format!("len {} bit {} ({})", len, bit, d.class()), json!({"op":"sign.verify_detached","pk":hx(&pk),"msg":hx(&m),"sig":hx(&s2)})); }
                    if model_verify > 0 && bit == 300 && len == 5 { model_verify -= 1; out.case("sign.verify_detached", &[Tok::I(0), b(&s2), b(&m), b(&pk)], &vtok(&d), true); } }
                for bit in 0..256 { let mut p2 = pk; p2[bit / 8] ^= 1 << (bit % 8); out.search_evaluations += 1;
                    let d = d_verify(&sig, &m, &p2);
                    if d.is_ok() != sodium::sign_verify_detached(&sig, &m, &p2) || d.is_panic() { out.hit("sign.verify.public-key-bit.differs-from-libsodium", format!("len {} bit {} ({})", len, bit, d.class()), json!({"op":"sign.verify_detached","pk":hx(&p2),"msg":hx(&m),"sig":hx(&sig)})); } }
            }
            // malleation: S + k*L for every k that keeps S below 2^256
            if len % 16 == 0 {
                let mut s_cur: [u8; 32] = sig[32..].try_into().unwrap();
                for k in 1..=16 {
                    match add_le(&s_cur, &L) { Some(n) => s_cur = n, None => break }
                    let mut s2 = sig; s2[32..].copy_from_slice(&s_cur);
                    out.search_evaluations += 1;
                    let d = d_verify(&s2, &m, &pk);
                    let l = sodium::sign_verify_detached(&s2, &m, &pk);
                    if !d.is_err() || l { out.hit("sign.verify.accepts-unreduced-S", format!("S + {}L accepted (dryoc {}, libsodium {})", k, d.class(), l), json!({"op":"sign.verify_detached","pk":hx(&pk),"msg":hx(&m),"sig":hx(&s2),"k":k})); break; }
                    if model_verify > 0 && k == 1 && len == 0 { model_verify -= 1; out.case("sign.verify_detached", &[Tok::I(0), b(&s2), b(&m), b(&pk)], &vtok(&d), true); }
                    // the same through open / object / incremental paths
                    if k == 1 {
                        let mut smv = s2.to_vec(); smv.extend_from_slice(&m);
                        let o = guard(|| { let mut mm = vec![0u8; len]; crypto_sign_open(&mut mm, &smv, &pk) });
                        if !o.is_err() { out.hit("sign.open.accepts-unreduced-S", format!("len {}", len), json!({"op":"sign.open","pk":hx(&pk),"sm":hx(&smv)})); }
                    }
                }
            }
        }
        // small-order / non-canonical points as R and as public key, with signatures that satisfy the
        // verification equation: R = [r]B is honest for A small order only when [k]A = identity; the
        // identity key accepts S = r for every message
        let m = rng.bytes(20);
        let honest = sodium::sign_detached(&m, &lsk);
        for (name, enc) in torsion_encodings() {
            out.search_evaluations += 2;
            // as public key with an honest signature (equation fails unless [k]A = O) and with the forged one
            let d = d_verify(&honest, &m, &enc);
            if d.is_ok() != sodium::sign_verify_detached(&honest, &m, &enc) || d.is_panic() { out.hit("sign.verify.small-order-public-key.differs-from-libsodium", format!("{} ({})", name, d.class()), json!({"op":"sign.verify_detached","pk":hx(&enc),"msg":hx(&m),"sig":hx(&honest)})); }
            // forged: S = r, R = [r]B where r = the honest nonce is unknown to us; use S = 0, R = identity-multiple:
            // sig = (R = B*0 = identity encoding, S = 0) satisfies [0]B = R + [k]A iff [k]A = identity
            let mut forged = [0u8; 64]; forged[0] = 1;
            let d = d_verify(&forged, &m, &enc);
            if d.is_ok() || d.is_panic() || sodium::sign_verify_detached(&forged, &m, &enc) { out.hit("sign.verify.accepts-small-order-forgery", format!("public key {} with R = identity, S = 0 ({})", name, d.class()), json!({"op":"sign.verify_detached","pk":hx(&enc),"msg":hx(&m),"sig":hx(&forged)})); }
            // as R with the honest S
            let mut s2 = honest; s2[..32].copy_from_slice(&enc);
            let d = d_verify(&s2, &m, &pk);
            if d.is_ok() != sodium::sign_verify_detached(&s2, &m, &pk) || d.is_panic() { out.hit("sign.verify.small-order-R.differs-from-libsodium", format!("{} ({})", name, d.class()), json!({"op":"sign.verify_detached","pk":hx(&pk),"msg":hx(&m),"sig":hx(&s2)})); }
            if si == 0 && (name == "identity" || name == "order8-a") && model_verify > 0 { model_verify -= 1; out.case("sign.verify_detached", &[Tok::I(0), b(&forged), b(&m), b(&enc)], &vtok(&d_verify(&forged, &m, &enc)), true); }
        }
        // forgeries for every small-order public key: R = [r]B, S = r, over several messages (accepted
        // by a verifier that does not refuse small-order keys whenever [k]A happens to be the identity)
        for (name, enc) in torsion_encodings() {
            for t in 0..16u8 {
                let msg = [t, si as u8];
                // r = 1: R = B
                let mut f = [0u8; 64];
                f[..32].copy_from_slice(&hexa32("5866666666666666666666666666666666666666666666666666666666666666")); f[32] = 1;
                out.search_evaluations += 1;
                let d = d_verify(&f, &msg, &enc);
                let l = sodium::sign_verify_detached(&f, &msg, &enc);
                if d.is_ok() != l || d.is_panic() { out.hit("sign.verify.small-order-forgery.differs-from-libsodium", format!("public key {} message {:?} (dryoc {}, libsodium {})", name, msg, d.class(), l), json!({"op":"sign.verify_detached","pk":hx(&enc),"msg":hx(&msg),"sig":hx(&f)})); break; }
                let dp = d_verify_ph(&[&msg], &f, &enc);
                if dp.is_ok() || dp.is_panic() { out.hit("sign.ph.verify.accepts-small-order-forgery", format!("public key {}", name), json!({"op":"sign.verify_ph","pk":hx(&enc),"msg":hx(&msg),"sig":hx(&f)})); break; }
            }
        }
    }
    crate::objapi::long_inputs(out, &mut rng, true);
    crate::objapi::mixed_order_signatures(out, &mut rng);
    crate::objapi::sign_keypair_fields(out, &mut rng);
    crate::consts::check(out, &["CRYPTO_SIGN"]);
    crate::objapi::sign_modes_and_chunks(out, &mut rng);
}

/// honest keys whose public-key encoding has a rare byte pattern (top byte 0x7f/0x00/0xff, low byte
/// near 0xed, runs of 0xff / 0x00): sign and verify under them and compare with libsodium
pub fn rare_keys(out: &mut Out, rng: &mut Rng, scan: usize) {
    let mut picked = 0;
    for k in 0..scan {
        let mut sd = [0u8; 32];
        sd[..8].copy_from_slice(&(k as u64).to_le_bytes()); sd[8..16].copy_from_slice(&rng.0.to_le_bytes());
        let (pk, sk) = sodium::sign_seed_keypair(&sd);
        let top = pk[31] & 0x7f;
        let ffs = pk[1..31].iter().filter(|x| **x == 0xff).count();
        let zeros = pk[1..31].iter().filter(|x| **x == 0).count();
        let rare = top == 0x7f || top == 0 || (pk[0] >= 0xec && (ffs >= 1 || top >= 0x7e)) || ffs >= 2 || zeros >= 2;
        if !rare { continue; }
        picked += 1;
        let (dpk, dsk) = crypto_sign_seed_keypair(&sd);
        out.search_evaluations += 3;
        if dpk != pk || dsk != sk { out.hit("sign.seed_keypair.differs-from-libsodium", format!("rare key {}", hx(&pk)), json!({"op":"sign.seed_keypair","seed":hx(&sd)})); }
        let m = [k as u8, 1, 2];
        let sig = sodium::sign_detached(&m, &sk);
        let d = d_verify(&sig, &m, &pk);
        if !d.is_ok() { out.hit("sign.verify.rejects-honest-signature.rare-public-key", format!("public key {} ({})", hx(&pk), d.class()), json!({"op":"sign.verify_detached","pk":hx(&pk),"msg":hx(&m),"sig":hx(&sig),"seed":hx(&sd)})); }
        let dp = d_verify_ph(&[&m], &sodium::sign_ph(&[&m], &sk), &pk);
        if !dp.is_ok() { out.hit("sign.ph.verify.rejects-honest-signature.rare-public-key", format!("public key {}", hx(&pk)), json!({"op":"sign.verify_ph","pk":hx(&pk),"msg":hx(&m),"seed":hx(&sd)})); }
    }
    out.notes.insert("rare_public_keys_checked".into(), json!(picked));
}

pub fn run_c13(out: &mut Out, tier: &str, seed: u64) {
    use dryoc::classic::crypto_box::crypto_box_seed_keypair;
    use dryoc::classic::crypto_kx::crypto_kx_seed_keypair;
    let mut rng = Rng::new(seed, "c13");
    let thorough = tier == "thorough";
    let mut model_budget = if thorough { 40 } else { 10 };
    // box key pairs from seeds of any length: sk = SHA-512(seed)[0..32], pk = X25519 base
    for len in 0..=128usize {
        for rep in 0..(if thorough { 3 } else { 1 }) {
            let sd = if rep == 0 && len % 2 == 0 { vec![0xabu8; len] } else { rng.bytes(len) };
            let r = guard_total(|| crypto_box_seed_keypair(&sd));
            out.search_evaluations += 1;
            let want_sk: [u8; 32] = sodium::sha512(&sd)[..32].try_into().unwrap();
            let want_pk = sodium::scalarmult_base(&want_sk);
            match &r {
                Outcome::Ok((pk, sk)) => {
                    if *sk != want_sk || *pk != want_pk { out.hit("box.seed_keypair.differs-from-construction", format!("seed length {}", len), json!({"op":"box.seed_keypair","seed":hx(&sd),"dryoc_sk":hx(sk),"want_sk":hx(&want_sk)})); }
                    if len == 32 { let s32: [u8; 32] = sd.clone().try_into().unwrap(); if (*pk, *sk) != sodium::box_seed_keypair(&s32) { out.hit("box.seed_keypair.differs-from-libsodium", "32-byte seed".into(), json!({"seed":hx(&sd)})); } }
                    // the object API goes through the same construction
                    let kp = dryoc::keypair::StackKeyPair::from_seed(&sd);
                    if kp.secret_key.as_array() != sk || kp.public_key.as_array() != pk { out.hit("obj.keypair.from_seed.differs", format!("seed length {}", len), json!({"seed":hx(&sd)})); }
                }
                _ => out.hit("box.seed_keypair.panics", format!("seed length {}", len), json!({"seed":hx(&sd)})),
            }
            if model_budget > 0 && (len == 0 || len == 33 || len == 128) && rep == 0 { model_budget -= 1; out.case("box.seed_keypair", &[b(&sd)], &r.map(|(pk, sk)| vec![b(&pk), b(&sk)]), true); }
        }
    }
    let n = if thorough { 256 } else { 48 };
    for k in 0..n {
        let sd: [u8; 32] = match k { 0 => [0; 32], 1 => [0xff; 32], _ => rng.arr() };
        out.search_evaluations += 6;
        // kx seed key pair
        let kx = guard(|| crypto_kx_seed_keypair(&sd));
        if kx.clone().ok() != Some(sodium::kx_seed_keypair(&sd)) { out.hit("kx.seed_keypair.differs-from-libsodium", format!("seed #{}", k), json!({"op":"kx.seed_keypair","seed":hx(&sd)})); }
        if model_budget > 0 && k < 2 { model_budget -= 1; out.case("kx.seed_keypair", &[b(&sd)], &kx.map(|(pk, sk)| vec![b(&pk), b(&sk)]), true); }
        // signing key pair, conversion to X25519
        let (pk, sk) = dryoc::classic::crypto_sign::crypto_sign_seed_keypair(&sd);
        let (lpk, lsk) = sodium::sign_seed_keypair(&sd);
        if pk != lpk || sk != lsk { out.hit("sign.seed_keypair.differs-from-libsodium", format!("seed #{}", k), json!({"op":"sign.seed_keypair","seed":hx(&sd)})); }
        let xpk = guard(|| { let mut x = [0u8; 32]; crypto_sign_ed25519_pk_to_curve25519(&mut x, &pk).map(|_| x) });
        let xsk = guard_total(|| { let mut x = [0u8; 32]; crypto_sign_ed25519_sk_to_curve25519(&mut x, &sk); x });
        if xpk.clone().ok() != sodium::sign_pk_to_curve(&lpk) { out.hit("sign.pk_to_curve25519.differs-from-libsodium", format!("seed #{}", k), json!({"op":"sign.pk_to_curve25519","pk":hx(&pk)})); }
        if xsk.clone().ok() != Some(sodium::sign_sk_to_curve(&lsk)) { out.hit("sign.sk_to_curve25519.differs-from-libsodium", format!("seed #{}", k), json!({"op":"sign.sk_to_curve25519","sk":hx(&sk)})); }
        if let (Outcome::Ok(xp), Outcome::Ok(xs)) = (&xpk, &xsk) { if *xp != sodium::scalarmult_base(xs) { out.hit("sign.to_curve25519.inconsistent-pair", format!("seed #{}", k), json!({"seed":hx(&sd)})); } }
        if model_budget > 0 && k >= 2 && k < 5 {
            model_budget -= 1;
            out.case("sign.pk_to_curve25519", &[b(&pk)], &xpk.map(|x| vec![b(&x)]), true);
            out.case("sign.sk_to_curve25519", &[b(&sk)], &xsk.map(|x| vec![b(&x)]), true);
        }
        // public key recomputed from a secret key (also unclamped ones)
        let kp = dryoc::keypair::StackKeyPair::from_secret_key(StackByteArray::<32>::from(&sd));
        if kp.public_key.as_array() != &sodium::scalarmult_base(&sd) { out.hit("obj.keypair.from_secret_key.differs-from-libsodium", format!("secret #{}", k), json!({"sk":hx(&sd)})); }
        let kxp = dryoc::kx::KeyPair::from_secret_key(StackByteArray::<32>::from(&sd));
        if kxp.public_key.as_array() != &sodium::scalarmult_base(&sd) { out.hit("obj.kx.keypair.from_secret_key.differs-from-libsodium", format!("secret #{}", k), json!({"sk":hx(&sd)})); }
    }
    // a key pair derived from a password: crypto_pwhash(32 bytes) then base multiplication, for several hash_length settings
    for (j, hl) in [32usize, 64, 16, 48].iter().enumerate() {
        let pw = rng.bytes(9 + j); let salt: [u8; 16] = rng.arr();
        // memory sizes that are and are not multiples of 4 KiB (Argon2 rounds the blocks it works on, not the count it hashes)
        let (ops, mem) = [(2u64, 64 * 1024usize), (1, 11 * 1024), (3, 8192 + 1536), (1, 67 * 1024 + 1)][j];
        let cfg = dryoc::pwhash::Config::interactive().with_opslimit(ops).with_memlimit(mem).with_hash_length(*hl);
        out.search_evaluations += 1;
        let kp = guard(|| dryoc::pwhash::VecPwHash::derive_keypair::<_, StackByteArray<32>, StackByteArray<32>>(&pw, salt.to_vec(), cfg.clone()));
        let want_sk: Option<[u8; 32]> = sodium::pwhash(32, &pw, &salt, ops, mem, 2).map(|v| v.try_into().unwrap());
        match (kp, want_sk) {
            (Outcome::Ok(kp), Some(ws)) => { if kp.secret_key.as_array() != &ws || kp.public_key.as_array() != &sodium::scalarmult_base(&ws) { out.hit("pwhash.derive_keypair.differs-from-libsodium-construction", format!("hash_length {} opslimit {} memlimit {}", hl, ops, mem), json!({"op":"obj.PwHash.derive_keypair","pw":hx(&pw),"salt":hx(&salt),"hash_length":hl,"opslimit":ops,"memlimit":mem})); } }
            (o, _) => out.hit("pwhash.derive_keypair.fails", format!("hash_length {} ({})", hl, o.class()), json!({"hash_length":hl})),
        }
    }
    // ... and the whole salt the caller passes is used, whatever salt_length the config carries
    {
        use dryoc::classic::crypto_pwhash::{crypto_pwhash, PasswordHashAlgorithm};
        let pw = rng.bytes(11);
        for (sl_cfg, salt_len) in [(8usize, 16usize), (16, 32), (16, 24), (32, 16)] {
            let salt = rng.bytes(salt_len);
            let cfg = dryoc::pwhash::Config::interactive().with_opslimit(1).with_memlimit(32 * 1024).with_salt_length(sl_cfg);
            out.search_evaluations += 2;
            let kp = guard(|| dryoc::pwhash::VecPwHash::derive_keypair::<_, StackByteArray<32>, StackByteArray<32>>(&pw, salt.clone(), cfg.clone()));
            let mut want = [0u8; 32];
            let w = guard(|| crypto_pwhash(&mut want, &pw, &salt, 1, 32 * 1024, PasswordHashAlgorithm::Argon2id13));
            if salt_len == 16 { if let Some(l) = sodium::pwhash(32, &pw, &salt[..16].try_into().unwrap(), 1, 32 * 1024, 2) { if w.is_ok() && l[..] != want[..] { out.hit("pwhash.classic.differs-from-libsodium", "derive_keypair reference".into(), json!({"pw":hx(&pw),"salt":hx(&salt)})); } } }
            match (kp, w) {
                (Outcome::Ok(kp), Outcome::Ok(())) => { if kp.secret_key.as_array() != &want || kp.public_key.as_array() != &sodium::scalarmult_base(&want) { out.hit("pwhash.derive_keypair.does-not-use-the-whole-salt", format!("salt of {} bytes, config salt_length {}", salt_len, sl_cfg), json!({"op":"obj.PwHash.derive_keypair","pw":hx(&pw),"salt":hx(&salt),"salt_length":sl_cfg})); } }
                (o, _) => out.hit("pwhash.derive_keypair.fails", format!("salt of {} bytes ({})", salt_len, o.class()), json!({"salt_len":salt_len})),
            }
        }
    }
    crate::objapi::seeded_inplace(out, &mut rng);
    crate::objapi::conversion_edges(out, &mut rng, tier == "thorough");
    crate::objapi::seeded_object_keys(out, &mut rng);
}
