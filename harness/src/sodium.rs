//! Thin safe wrappers over libsodium (the oracle).
use libsodium_sys as ffi;

pub fn init() { unsafe { ffi::sodium_init(); } }

pub fn kdf_derive(len: usize, id: u64, ctx: &[u8; 8], key: &[u8; 32]) -> Option<Vec<u8>> {
    let mut out = vec![0u8; len];
    let r = unsafe {
        ffi::crypto_kdf_derive_from_key(out.as_mut_ptr(), len, id, ctx.as_ptr() as *const _, key.as_ptr())
    };
    if r == 0 { Some(out) } else { None }
}

pub fn generichash(outlen: usize, input: &[u8], key: Option<&[u8]>) -> Option<Vec<u8>> {
    let mut out = vec![0u8; outlen];
    let (kp, kl) = match key { Some(k) => (k.as_ptr(), k.len()), None => (std::ptr::null(), 0) };
    let r = unsafe { ffi::crypto_generichash(out.as_mut_ptr(), outlen, input.as_ptr(), input.len() as u64, kp, kl) };
    if r == 0 { Some(out) } else { None }
}
