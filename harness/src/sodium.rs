//! Thin safe wrappers over libsodium (the oracle).
use libsodium_sys as ffi;

pub fn init() { unsafe { ffi::sodium_init(); } }

pub fn kdf_derive(len: usize, id: u64, ctx: &[u8; 8], key: &[u8; 32]) -> Option<Vec<u8>> {
    let mut out = vec![0u8; len];
    let r = unsafe {
        ffi::crypto_kdf_derive_from_key(out.as_mut_ptr(), len, id, ctx.as_ptr() as *const _, key.as_ptr())
    };
    if r == 0 { Some(out) } else { None }
}

pub fn generichash(outlen: usize, input: &[u8], key: Option<&[u8]>) -> Option<Vec<u8>> {
    let mut out = vec![0u8; outlen];
    let (kp, kl) = match key { Some(k) => (k.as_ptr(), k.len()), None => (std::ptr::null(), 0) };
    let r = unsafe { ffi::crypto_generichash(out.as_mut_ptr(), outlen, input.as_ptr(), input.len() as u64, kp, kl) };
    if r == 0 { Some(out) } else { None }
}

pub fn onetimeauth(msg: &[u8], key: &[u8; 32]) -> [u8; 16] {
    let mut out = [0u8; 16];
    unsafe { ffi::crypto_onetimeauth(out.as_mut_ptr(), msg.as_ptr(), msg.len() as u64, key.as_ptr()); }
    out
}
pub fn onetimeauth_verify(mac: &[u8; 16], msg: &[u8], key: &[u8; 32]) -> bool {
    unsafe { ffi::crypto_onetimeauth_verify(mac.as_ptr(), msg.as_ptr(), msg.len() as u64, key.as_ptr()) == 0 }
}
pub fn auth(msg: &[u8], key: &[u8; 32]) -> [u8; 32] {
    let mut out = [0u8; 32];
    unsafe { ffi::crypto_auth(out.as_mut_ptr(), msg.as_ptr(), msg.len() as u64, key.as_ptr()); }
    out
}
pub fn auth_verify(mac: &[u8; 32], msg: &[u8], key: &[u8; 32]) -> bool {
    unsafe { ffi::crypto_auth_verify(mac.as_ptr(), msg.as_ptr(), msg.len() as u64, key.as_ptr()) == 0 }
}
pub fn sha512(msg: &[u8]) -> [u8; 64] {
    let mut out = [0u8; 64];
    unsafe { ffi::crypto_hash_sha512(out.as_mut_ptr(), msg.as_ptr(), msg.len() as u64); }
    out
}
pub fn shorthash(msg: &[u8], key: &[u8; 16]) -> [u8; 8] {
    let mut out = [0u8; 8];
    unsafe { ffi::crypto_shorthash(out.as_mut_ptr(), msg.as_ptr(), msg.len() as u64, key.as_ptr()); }
    out
}
pub fn hsalsa20(input: &[u8; 16], key: &[u8; 32]) -> [u8; 32] {
    let mut out = [0u8; 32];
    unsafe { ffi::crypto_core_hsalsa20(out.as_mut_ptr(), input.as_ptr(), key.as_ptr(), std::ptr::null()); }
    out
}
pub fn hsalsa20_c(input: &[u8; 16], key: &[u8; 32], c: &[u8; 16]) -> [u8; 32] {
    let mut out = [0u8; 32];
    unsafe { ffi::crypto_core_hsalsa20(out.as_mut_ptr(), input.as_ptr(), key.as_ptr(), c.as_ptr()); }
    out
}
pub fn hchacha20_c(input: &[u8; 16], key: &[u8; 32], c: &[u8; 16]) -> [u8; 32] {
    let mut out = [0u8; 32];
    unsafe { ffi::crypto_core_hchacha20(out.as_mut_ptr(), input.as_ptr(), key.as_ptr(), c.as_ptr()); }
    out
}
pub fn hchacha20(input: &[u8; 16], key: &[u8; 32]) -> [u8; 32] {
    let mut out = [0u8; 32];
    unsafe { ffi::crypto_core_hchacha20(out.as_mut_ptr(), input.as_ptr(), key.as_ptr(), std::ptr::null()); }
    out
}
pub fn increment(v: &mut [u8]) {
    unsafe { ffi::sodium_increment(v.as_mut_ptr(), v.len()); }
}

pub fn secretbox_easy(m: &[u8], n: &[u8; 24], k: &[u8; 32]) -> Vec<u8> {
    let mut c = vec![0u8; m.len() + 16];
    unsafe { ffi::crypto_secretbox_easy(c.as_mut_ptr(), m.as_ptr(), m.len() as u64, n.as_ptr(), k.as_ptr()); }
    c
}
pub fn secretbox_open_easy(c: &[u8], n: &[u8; 24], k: &[u8; 32]) -> Option<Vec<u8>> {
    if c.len() < 16 { return None; }
    let mut m = vec![0u8; c.len() - 16];
    let r = unsafe { ffi::crypto_secretbox_open_easy(m.as_mut_ptr(), c.as_ptr(), c.len() as u64, n.as_ptr(), k.as_ptr()) };
    if r == 0 { Some(m) } else { None }
}
pub fn box_seed_keypair(seed: &[u8; 32]) -> ([u8; 32], [u8; 32]) {
    let (mut pk, mut sk) = ([0u8; 32], [0u8; 32]);
    unsafe { ffi::crypto_box_seed_keypair(pk.as_mut_ptr(), sk.as_mut_ptr(), seed.as_ptr()); }
    (pk, sk)
}
pub fn box_beforenm(pk: &[u8; 32], sk: &[u8; 32]) -> Option<[u8; 32]> {
    let mut k = [0u8; 32];
    let r = unsafe { ffi::crypto_box_beforenm(k.as_mut_ptr(), pk.as_ptr(), sk.as_ptr()) };
    if r == 0 { Some(k) } else { None }
}
pub fn box_easy(m: &[u8], n: &[u8; 24], pk: &[u8; 32], sk: &[u8; 32]) -> Option<Vec<u8>> {
    let mut c = vec![0u8; m.len() + 16];
    let r = unsafe { ffi::crypto_box_easy(c.as_mut_ptr(), m.as_ptr(), m.len() as u64, n.as_ptr(), pk.as_ptr(), sk.as_ptr()) };
    if r == 0 { Some(c) } else { None }
}
pub fn box_open_easy(c: &[u8], n: &[u8; 24], pk: &[u8; 32], sk: &[u8; 32]) -> Option<Vec<u8>> {
    if c.len() < 16 { return None; }
    let mut m = vec![0u8; c.len() - 16];
    let r = unsafe { ffi::crypto_box_open_easy(m.as_mut_ptr(), c.as_ptr(), c.len() as u64, n.as_ptr(), pk.as_ptr(), sk.as_ptr()) };
    if r == 0 { Some(m) } else { None }
}
pub fn box_seal(m: &[u8], pk: &[u8; 32]) -> Vec<u8> {
    let mut c = vec![0u8; m.len() + 48];
    unsafe { ffi::crypto_box_seal(c.as_mut_ptr(), m.as_ptr(), m.len() as u64, pk.as_ptr()); }
    c
}
pub fn box_seal_open(c: &[u8], pk: &[u8; 32], sk: &[u8; 32]) -> Option<Vec<u8>> {
    if c.len() < 48 { return None; }
    let mut m = vec![0u8; c.len() - 48];
    let r = unsafe { ffi::crypto_box_seal_open(m.as_mut_ptr(), c.as_ptr(), c.len() as u64, pk.as_ptr(), sk.as_ptr()) };
    if r == 0 { Some(m) } else { None }
}
pub fn scalarmult(n: &[u8; 32], p: &[u8; 32]) -> Option<[u8; 32]> {
    let mut q = [0u8; 32];
    let r = unsafe { ffi::crypto_scalarmult(q.as_mut_ptr(), n.as_ptr(), p.as_ptr()) };
    if r == 0 { Some(q) } else { None }
}
pub fn scalarmult_base(n: &[u8; 32]) -> [u8; 32] {
    let mut q = [0u8; 32];
    unsafe { ffi::crypto_scalarmult_base(q.as_mut_ptr(), n.as_ptr()); }
    q
}

#[derive(Clone)]
pub struct SStream(pub ffi::crypto_secretstream_xchacha20poly1305_state);
impl SStream {
    pub fn from_parts(k: &[u8; 32], nonce: &[u8; 12]) -> Self {
        SStream(ffi::crypto_secretstream_xchacha20poly1305_state { k: *k, nonce: *nonce, _pad: [0u8; 8] })
    }
    pub fn init(header: &[u8; 24], key: &[u8; 32]) -> Self {
        let mut s = Self::from_parts(&[0; 32], &[0; 12]);
        unsafe { ffi::crypto_secretstream_xchacha20poly1305_init_pull(&mut s.0, header.as_ptr(), key.as_ptr()); }
        s
    }
    pub fn parts(&self) -> ([u8; 32], [u8; 12]) { (self.0.k, self.0.nonce) }
    pub fn push(&mut self, m: &[u8], ad: &[u8], tag: u8) -> Vec<u8> {
        let mut c = vec![0u8; m.len() + 17];
        let mut clen: u64 = 0;
        unsafe { ffi::crypto_secretstream_xchacha20poly1305_push(&mut self.0, c.as_mut_ptr(), &mut clen, m.as_ptr(), m.len() as u64, ad.as_ptr(), ad.len() as u64, tag); }
        c.truncate(clen as usize);
        c
    }
    pub fn pull(&mut self, c: &[u8], ad: &[u8]) -> Option<(Vec<u8>, u8)> {
        if c.len() < 17 { return None; }
        let mut m = vec![0u8; c.len() - 17];
        let mut mlen: u64 = 0;
        let mut tag: u8 = 0;
        let r = unsafe { ffi::crypto_secretstream_xchacha20poly1305_pull(&mut self.0, m.as_mut_ptr(), &mut mlen, &mut tag, c.as_ptr(), c.len() as u64, ad.as_ptr(), ad.len() as u64) };
        if r == 0 { m.truncate(mlen as usize); Some((m, tag)) } else { None }
    }
    pub fn rekey(&mut self) { unsafe { ffi::crypto_secretstream_xchacha20poly1305_rekey(&mut self.0); } }
}

pub fn sign_seed_keypair(seed: &[u8; 32]) -> ([u8; 32], [u8; 64]) {
    let (mut pk, mut sk) = ([0u8; 32], [0u8; 64]);
    unsafe { ffi::crypto_sign_seed_keypair(pk.as_mut_ptr(), sk.as_mut_ptr(), seed.as_ptr()); }
    (pk, sk)
}
pub fn sign_detached(m: &[u8], sk: &[u8; 64]) -> [u8; 64] {
    let mut sig = [0u8; 64];
    unsafe { ffi::crypto_sign_detached(sig.as_mut_ptr(), std::ptr::null_mut(), m.as_ptr(), m.len() as u64, sk.as_ptr()); }
    sig
}
pub fn sign_verify_detached(sig: &[u8; 64], m: &[u8], pk: &[u8; 32]) -> bool {
    unsafe { ffi::crypto_sign_verify_detached(sig.as_ptr(), m.as_ptr(), m.len() as u64, pk.as_ptr()) == 0 }
}
pub fn sign_open(sm: &[u8], pk: &[u8; 32]) -> Option<Vec<u8>> {
    let mut m = vec![0u8; sm.len()];
    let mut mlen: u64 = 0;
    let r = unsafe { ffi::crypto_sign_open(m.as_mut_ptr(), &mut mlen, sm.as_ptr(), sm.len() as u64, pk.as_ptr()) };
    if r == 0 { m.truncate(mlen as usize); Some(m) } else { None }
}
pub fn sign_ph(chunks: &[&[u8]], sk: &[u8; 64]) -> [u8; 64] {
    let mut sig = [0u8; 64];
    unsafe {
        let mut st: ffi::crypto_sign_state = std::mem::zeroed();
        ffi::crypto_sign_init(&mut st);
        for c in chunks { ffi::crypto_sign_update(&mut st, c.as_ptr(), c.len() as u64); }
        ffi::crypto_sign_final_create(&mut st, sig.as_mut_ptr(), std::ptr::null_mut(), sk.as_ptr());
    }
    sig
}
pub fn sign_ph_verify(chunks: &[&[u8]], sig: &[u8; 64], pk: &[u8; 32]) -> bool {
    unsafe {
        let mut st: ffi::crypto_sign_state = std::mem::zeroed();
        ffi::crypto_sign_init(&mut st);
        for c in chunks { ffi::crypto_sign_update(&mut st, c.as_ptr(), c.len() as u64); }
        ffi::crypto_sign_final_verify(&mut st, sig.as_ptr(), pk.as_ptr()) == 0
    }
}
pub fn pwhash_str(pw: &[u8], ops: u64, mem: usize) -> Option<String> {
    let mut out = [0i8; 128];
    let r = unsafe { ffi::crypto_pwhash_str(out.as_mut_ptr() as *mut _, pw.as_ptr() as *const _, pw.len() as u64, ops, mem) };
    if r != 0 { return None; }
    let bytes: Vec<u8> = out.iter().take_while(|c| **c != 0).map(|c| *c as u8).collect();
    String::from_utf8(bytes).ok()
}
pub fn pwhash_str_alg(pw: &[u8], ops: u64, mem: usize, alg: i32) -> Option<String> {
    let mut out = [0i8; 128];
    let r = unsafe { ffi::crypto_pwhash_str_alg(out.as_mut_ptr() as *mut _, pw.as_ptr() as *const _, pw.len() as u64, ops, mem, alg) };
    if r != 0 { return None; }
    let bytes: Vec<u8> = out.iter().take_while(|c| **c != 0).map(|c| *c as u8).collect();
    String::from_utf8(bytes).ok()
}
pub fn pwhash_str_verify(s: &str, pw: &[u8]) -> bool {
    let mut buf = [0u8; 128];
    if s.len() >= 128 { return false; }
    buf[..s.len()].copy_from_slice(s.as_bytes());
    unsafe { ffi::crypto_pwhash_str_verify(buf.as_ptr() as *const _, pw.as_ptr() as *const _, pw.len() as u64) == 0 }
}
pub fn pwhash_str_needs_rehash(s: &str, ops: u64, mem: usize) -> i32 {
    let mut buf = [0u8; 128];
    if s.len() >= 128 { return -1; }
    buf[..s.len()].copy_from_slice(s.as_bytes());
    unsafe { ffi::crypto_pwhash_str_needs_rehash(buf.as_ptr() as *const _, ops, mem) }
}
pub fn pwhash(outlen: usize, pw: &[u8], salt: &[u8; 16], ops: u64, mem: usize, alg: i32) -> Option<Vec<u8>> {
    let mut out = vec![0u8; outlen];
    let r = unsafe { ffi::crypto_pwhash(out.as_mut_ptr(), outlen as u64, pw.as_ptr() as *const _, pw.len() as u64, salt.as_ptr(), ops, mem, alg) };
    if r == 0 { Some(out) } else { None }
}

pub fn stream_xsalsa20(len: usize, n: &[u8; 24], k: &[u8; 32]) -> Vec<u8> {
    let mut c = vec![0u8; len];
    unsafe { ffi::crypto_stream_xsalsa20(c.as_mut_ptr(), len as u64, n.as_ptr(), k.as_ptr()); }
    c
}

pub fn kx_client(cpk: &[u8; 32], csk: &[u8; 32], spk: &[u8; 32]) -> Option<([u8; 32], [u8; 32])> {
    let (mut rx, mut tx) = ([0u8; 32], [0u8; 32]);
    let r = unsafe { ffi::crypto_kx_client_session_keys(rx.as_mut_ptr(), tx.as_mut_ptr(), cpk.as_ptr(), csk.as_ptr(), spk.as_ptr()) };
    if r == 0 { Some((rx, tx)) } else { None }
}
pub fn kx_server(spk: &[u8; 32], ssk: &[u8; 32], cpk: &[u8; 32]) -> Option<([u8; 32], [u8; 32])> {
    let (mut rx, mut tx) = ([0u8; 32], [0u8; 32]);
    let r = unsafe { ffi::crypto_kx_server_session_keys(rx.as_mut_ptr(), tx.as_mut_ptr(), spk.as_ptr(), ssk.as_ptr(), cpk.as_ptr()) };
    if r == 0 { Some((rx, tx)) } else { None }
}
pub fn kx_seed_keypair(seed: &[u8; 32]) -> ([u8; 32], [u8; 32]) {
    let (mut pk, mut sk) = ([0u8; 32], [0u8; 32]);
    unsafe { ffi::crypto_kx_seed_keypair(pk.as_mut_ptr(), sk.as_mut_ptr(), seed.as_ptr()); }
    (pk, sk)
}
/// libsodium writes q even when it returns -1 (all-zero shared secret): (q, accepted)
pub fn scalarmult_raw(n: &[u8; 32], p: &[u8; 32]) -> ([u8; 32], bool) {
    let mut q = [0u8; 32];
    let r = unsafe { ffi::crypto_scalarmult(q.as_mut_ptr(), n.as_ptr(), p.as_ptr()) };
    (q, r == 0)
}

pub fn sign_pk_to_curve(pk: &[u8; 32]) -> Option<[u8; 32]> {
    let mut x = [0u8; 32];
    let r = unsafe { ffi::crypto_sign_ed25519_pk_to_curve25519(x.as_mut_ptr(), pk.as_ptr()) };
    if r == 0 { Some(x) } else { None }
}
pub fn sign_sk_to_curve(sk: &[u8; 64]) -> [u8; 32] {
    let mut x = [0u8; 32];
    unsafe { ffi::crypto_sign_ed25519_sk_to_curve25519(x.as_mut_ptr(), sk.as_ptr()); }
    x
}
pub fn sign_combined(m: &[u8], sk: &[u8; 64]) -> Vec<u8> {
    let mut sm = vec![0u8; m.len() + 64];
    let mut l: u64 = 0;
    unsafe { ffi::crypto_sign(sm.as_mut_ptr(), &mut l, m.as_ptr(), m.len() as u64, sk.as_ptr()); }
    sm.truncate(l as usize);
    sm
}
