//! C20: safe code cannot request an access the current state forbids: one program per cell of the
//! type-state table, compiled with nightly rustc against the freshly built dryoc rlib.
#![cfg(feature = "nightly")]
use crate::common::*;
use serde_json::json;
use std::process::Command;

const NOPS: usize = 17;
#[allow(dead_code)]
const OPS: [&str; NOPS] = ["read-view", "mut-view", "array-view", "index", "resize", "clone", "lock", "unlock", "read-only", "read-write", "no-access", "mut-array-view", "deref-mut", "as-ref", "as-mut", "as-ref-array", "as-mut-array"];

fn snippet(op: usize) -> &'static str {
    match op {
        0 => "let _ = p.as_slice().len();",
        1 => "let mut p = p; p.as_mut_slice()[0] = 1;",
        2 => "let _: &[u8; 32] = p.as_array();",
        3 => "let _ = p[0];",
        4 => "let mut p = p; p.resize(64, 0);",
        5 => "let _q = p.clone();",
        6 => "let _q = p.mlock();",
        7 => "let _q = p.munlock();",
        8 => "let _q = p.mprotect_readonly();",
        9 => "let _q = p.mprotect_readwrite();",
        10 => "let _q = p.mprotect_noaccess();",
        11 => "let mut p = p; p.as_mut_array()[0] = 1;",
        12 => "let mut p = p; let s: &mut [u8] = &mut *p; s[0] = 1;",
        13 => "let s: &[u8] = p.as_ref(); let _ = s.len();",
        14 => "let mut p = p; let s: &mut [u8] = p.as_mut(); s[0] = 1;",
        15 => "let s: &[u8; 32] = p.as_ref(); let _ = s.len();",
        _ => "let mut p = p; let s: &mut [u8; 32] = p.as_mut(); s[0] = 1;",
    }
}

/// the table the property states (container 1 = HeapBytes, 2 = HeapByteArray<32>)
fn permitted(c: usize, pm: usize, lm: usize, op: usize) -> bool {
    match op { 0 | 3 => pm != 2, 1 => pm == 0, 2 => c == 2 && pm != 2, 4 => c == 1 && pm == 0, 5 => pm != 2 && (lm == 0 || c == 1), 6 => lm == 0, 7 => true, 8 | 9 => true, 10 => lm == 0, 11 | 16 => c == 2 && pm == 0, 12 | 14 => pm == 0, 13 => pm != 2, _ => false }
}

fn program(c: usize, pm: usize, lm: usize, body: &str) -> String {
    let cont = if c == 1 { "HeapBytes" } else { "HeapByteArray<32>" };
    let pms = ["ReadWrite", "ReadOnly", "NoAccess"][pm];
    let lms = ["Unlocked", "Locked"][lm];
    format!("#![feature(allocator_api)]\n#![allow(unused)]\nuse dryoc::protected::*;\nuse dryoc::protected::traits as tr;\nuse dryoc::types::*;\ntype P = Protected<{}, tr::{}, tr::{}>;\nfn check(p: P) {{ {} }}\nfn main() {{}}\n", cont, pms, lms, body)
}

fn find_rlib(deps: &str) -> Option<String> {
    let mut best: Option<(std::time::SystemTime, String)> = None;
    for e in std::fs::read_dir(deps).ok()? { let e = e.ok()?; let n = e.file_name().to_string_lossy().to_string();
        if n.starts_with("libdryoc-") && n.ends_with(".rlib") { let t = e.metadata().ok()?.modified().ok()?; if best.as_ref().map(|b| t > b.0).unwrap_or(true) { best = Some((t, e.path().to_string_lossy().to_string())); } } }
    best.map(|b| b.1)
}

/// compiles `src`; returns (compiles, error codes)
fn compile(dir: &str, name: &str, src: &str, deps: &str, rlib: &str) -> (bool, Vec<String>) {
    let path = format!("{}/{}.rs", dir, name);
    std::fs::write(&path, src).unwrap();
    let o = Command::new("rustc").args(["+nightly", "--edition", "2021", "--crate-type", "bin", "--emit=metadata", "-L", &format!("dependency={}", deps), "--extern", &format!("dryoc={}", rlib), "-o", &format!("{}/{}.rmeta", dir, name), &path]).output();
    match o {
        Ok(o) => { let err = String::from_utf8_lossy(&o.stderr).to_string();
            let mut codes: Vec<String> = err.match_indices("error[E").map(|(i, _)| err[i + 6..i + 11].to_string()).collect(); codes.sort(); codes.dedup();
            (o.status.success(), codes) }
        Err(_) => (false, vec!["spawn".into()]),
    }
}

pub fn run(out: &mut Out, _tier: &str, _seed: u64) {
    let exe = std::env::current_exe().unwrap();
    let deps = exe.parent().unwrap().join("deps").to_string_lossy().to_string();
    let rlib = match find_rlib(&deps) { Some(r) => r, None => { out.hit("harness.rlib-missing", "dryoc rlib not found".into(), json!({"deps": deps})); return; } };
    let dir = format!("{}/progs", out.dir);
    std::fs::create_dir_all(&dir).unwrap();
    // build the job list
    let mut jobs: Vec<(String, String, String, bool)> = vec![]; // (name, source, op token args, expected permitted)
    for c in 1..=2usize { for pm in 0..3usize { for lm in 0..2usize { for op in 0..NOPS {
        jobs.push((format!("cell_{}_{}_{}_{}", c, pm, lm, op), program(c, pm, lm, snippet(op)), format!("{} {} {} {}", c, pm, lm, op), permitted(c, pm, lm, op)));
    } } } }
    // use after a transition consumed the region (every state): must not compile
    for c in 1..=2usize { for pm in 0..3usize { for lm in 0..2usize {
        jobs.push((format!("moved_{}_{}_{}", c, pm, lm), program(c, pm, lm, "let _q = p.munlock(); let _r = p.munlock();"), format!("moved {} {} {}", c, pm, lm), false));
        if pm != 2 { jobs.push((format!("moved_view_{}_{}_{}", c, pm, lm), program(c, pm, lm, "let _q = p.mprotect_readonly(); let _ = p.as_slice();"), format!("moved-view {} {} {}", c, pm, lm), false)); }
    } } }
    // every permitted transition gives a region of exactly the type state its name says (and of no other)
    {
        let cont = |c: usize| if c == 1 { "HeapBytes" } else { "HeapByteArray<32>" };
        let (pms, lms) = (["ReadWrite", "ReadOnly", "NoAccess"], ["Unlocked", "Locked"]);
        let tprog = |c: usize, pm: usize, lm: usize, call: &str, tpm: usize, tlm: usize| format!(
            "#![feature(allocator_api)]\n#![allow(unused)]\nuse dryoc::protected::*;\nuse dryoc::protected::traits as tr;\nuse dryoc::types::*;\nfn check(p: Protected<{c}, tr::{}, tr::{}>) -> Result<Protected<{c}, tr::{}, tr::{}>, std::io::Error> {{ p.{}() }}\nfn main() {{}}\n",
            pms[pm], lms[lm], pms[tpm], lms[tlm], call, c = cont(c));
        for c in 1..=2usize { for pm in 0..3usize { for lm in 0..2usize {
            for (op, call) in [(6usize, "mlock"), (7, "munlock"), (8, "mprotect_readonly"), (9, "mprotect_readwrite"), (10, "mprotect_noaccess")] {
                if !permitted(c, pm, lm, op) { continue; }
                let (tpm, tlm) = match op { 6 => (pm, 1), 7 => (pm, 0), 8 => (1, lm), 9 => (0, lm), _ => (2, lm) };
                jobs.push((format!("target_{}_{}_{}_{}", c, pm, lm, op), tprog(c, pm, lm, call, tpm, tlm), format!("target {} {} {} {}", c, pm, lm, op), true));
                // the same call must not type-check as a different protection state
                let wrong = (tpm + 1) % 3;
                jobs.push((format!("wrong_target_{}_{}_{}_{}", c, pm, lm, op), tprog(c, pm, lm, call, wrong, tlm), format!("wrong-target {} {} {} {}", c, pm, lm, op), false));
            }
        } } }
    }
    // streams
    let sp = |mode: &str, body: &str| format!("#![allow(unused)]\nuse dryoc::dryocstream::*;\nfn check(mut s: DryocStream<{}>) {{ {} }}\nfn main() {{}}\n", mode, body);
    jobs.push(("stream_push_on_push".into(), sp("Push", "let _ = s.push_to_vec(&vec![0u8; 4], None::<&Vec<u8>>, Tag::MESSAGE);"), "stream 0 0".into(), true));
    jobs.push(("stream_pull_on_push".into(), sp("Push", "let _ = s.pull_to_vec(&vec![0u8; 20], None::<&Vec<u8>>);"), "stream 0 1".into(), false));
    jobs.push(("stream_pull_on_pull".into(), sp("Pull", "let _ = s.pull_to_vec(&vec![0u8; 20], None::<&Vec<u8>>);"), "stream 1 1".into(), true));
    jobs.push(("stream_push_on_pull".into(), sp("Pull", "let _ = s.push_to_vec(&vec![0u8; 4], None::<&Vec<u8>>, Tag::MESSAGE);"), "stream 1 0".into(), false));
    jobs.push(("stream_rekey_both".into(), sp("Pull", "s.rekey();"), "stream 1 2".into(), true));
    // compile 16 at a time
    let results: Vec<(bool, Vec<String>)> = {
        let jobs_ref = &jobs; let (dir_ref, deps_ref, rlib_ref) = (&dir, &deps, &rlib);
        let next = std::sync::atomic::AtomicUsize::new(0);
        let res: std::sync::Mutex<Vec<Option<(bool, Vec<String>)>>> = std::sync::Mutex::new(vec![None; jobs.len()]);
        std::thread::scope(|s| { for _ in 0..16 { s.spawn(|| loop { let k = next.fetch_add(1, std::sync::atomic::Ordering::SeqCst); if k >= jobs_ref.len() { break; }
            let r = compile(dir_ref, &jobs_ref[k].0, &jobs_ref[k].1, deps_ref, rlib_ref); res.lock().unwrap()[k] = Some(r); }); } });
        res.into_inner().unwrap().into_iter().map(|x| x.unwrap()).collect()
    };
    let mut codes_seen = std::collections::BTreeMap::<String, u64>::new();
    for (k, (name, src, args, want)) in jobs.iter().enumerate() {
        let (ok, codes) = &results[k];
        out.search_evaluations += 1;
        for c in codes { *codes_seen.entry(c.clone()).or_insert(0) += 1; }
        if *ok != *want {
            let sig = if name.starts_with("target") || name.starts_with("wrong_target") { "typestate.transition-gives-another-state" } else if *ok { if name.starts_with("stream") { "typestate.stream-misuse-compiles" } else if name.starts_with("moved") { "typestate.use-after-transition-compiles" } else { "typestate.forbidden-access-compiles" } } else { "typestate.permitted-program-rejected" };
            out.hit(sig, format!("{}: compiles = {}, the table says {} ({:?})", name, ok, want, codes), json!({"op":"typestate.program","name":name,"source":src,"compiles":ok,"expected":want,"errors":codes}));
        }
        let f: Vec<&str> = args.split(' ').collect();
        if f.len() == 4 && f[0].parse::<i64>().is_ok() {
            let a: Vec<Tok> = f.iter().map(|x| Tok::I(x.parse().unwrap())).collect();
            out.case("typestate.cell", &a, &Outcome::Ok(vec![Tok::I(*ok as i64)]), true);
        } else if f[0] == "stream" {
            out.case("typestate.stream", &[Tok::I(f[1].parse().unwrap()), Tok::I(f[2].parse().unwrap())], &Outcome::Ok(vec![Tok::I(*ok as i64)]), true);
        }
    }
    out.notes.insert("error_codes".into(), json!(codes_seen));
    // the permitted programs also run without faulting for the reachable states: one control program per container
    for c in 1..=3usize {
        let cont = if c == 1 { "HeapBytes" } else if c == 2 { "HeapByteArray<32>" } else { "HeapBytes (empty region)" };
        let resize = if c == 1 { "l.resize(64, 0); let _c = l.clone();" } else { "let _: &[u8; 32] = l.as_array();" };
        let ctor = if c == 1 { "HeapBytes" } else { "HeapByteArray::<32>" };
        // the resizable container at its smallest legal size: every permitted transition of an empty region runs, too
        let src = if c == 3 { "#![feature(allocator_api)]\n#![allow(unused)]\nuse dryoc::protected::*;\nuse dryoc::types::*;\nfn main() {\n let l = HeapBytes::new_locked().unwrap(); assert_eq!(l.len(), 0);\n let ro = l.mprotect_readonly().unwrap(); let _c1 = ro.clone();\n let u = ro.munlock().unwrap(); let _c2 = u.clone();\n let na = u.mprotect_noaccess().unwrap();\n let ro2 = na.mprotect_readonly().unwrap();\n let rw = ro2.mprotect_readwrite().unwrap(); let mut rw = rw; rw.resize(8, 1); rw.as_mut_slice()[2] = 9; rw.resize(0, 0);\n let l2 = rw.mlock().unwrap(); assert_eq!(l2.len(), 0);\n let e = HeapBytes::from_slice_into_readonly_locked(b\"\").unwrap(); let _c3 = e.clone();\n let f = HeapBytes::new_readonly_locked().unwrap(); let g = f.mprotect_readwrite().unwrap(); let _h = g.mprotect_readonly().unwrap();\n}\n".to_string() } else { format!("#![feature(allocator_api)]\n#![allow(unused)]\nuse dryoc::protected::*;\nuse dryoc::types::*;\nfn main() {{\n let mut l = {}::from_slice_into_locked(&[7u8; 32]).unwrap();\n l.as_mut_slice()[0] = 1; let _ = l[0]; {}\n let ro = l.mprotect_readonly().unwrap(); let _ = ro.as_slice()[0]; let _ = ro[1];\n let u = ro.munlock().unwrap(); let _c2 = u.clone();\n let na = u.mprotect_noaccess().unwrap();\n let rw = na.mprotect_readwrite().unwrap(); let mut rw = rw; rw.as_mut_slice()[2] = 9;\n let l2 = rw.mlock().unwrap(); let _ = l2.as_slice()[2];\n}}\n", ctor, resize) };
        let path = format!("{}/control_{}.rs", dir, c);
        std::fs::write(&path, &src).unwrap();
        let bin = format!("{}/control_{}", dir, c);
        let o = Command::new("rustc").args(["+nightly", "--edition", "2021", "-L", &format!("dependency={}", deps), "--extern", &format!("dryoc={}", rlib), "-o", &bin, &path]).output();
        out.search_evaluations += 1;
        match o { Ok(o) if o.status.success() => { let r = Command::new(&bin).status(); if !r.map(|s| s.success()).unwrap_or(false) { out.hit("typestate.control-program-faults", format!("control program for {} does not run to completion", cont), json!({"source":src})); } }
                  Ok(o) => out.hit("typestate.permitted-program-rejected", format!("control program for {} does not compile: {}", cont, String::from_utf8_lossy(&o.stderr).chars().take(400).collect::<String>()), json!({"source":src})),
                  Err(_) => out.hit("harness.rustc-missing", "rustc +nightly not runnable".into(), json!({})) }
    }
    // every permitted cell of every state a safe program can reach also RUNS without faulting: one binary per container, one
    // process per (state, operation); a transition the OS refuses (locking a no-access mapping) must come back as Err, not a fault
    for c in 1..=2usize {
        let cont = if c == 1 { "HeapBytes" } else { "HeapByteArray<32>" };
        let ctor = if c == 1 { "HeapBytes" } else { "HeapByteArray::<32>" };
        let (pms, lms) = (["ReadWrite", "ReadOnly", "NoAccess"], ["Unlocked", "Locked"]);
        let paths = [((0usize, 1usize), ""), ((1, 1), ".mprotect_readonly().unwrap()"), ((0, 0), ".munlock().unwrap()"), ((1, 0), ".munlock().unwrap().mprotect_readonly().unwrap()"), ((2, 0), ".munlock().unwrap().mprotect_noaccess().unwrap()")];
        let mut fns = String::new(); let mut arms = String::new(); let mut cells: Vec<(usize, usize, usize)> = vec![];
        for ((pm, lm), path) in paths.iter() { for op in 0..NOPS {
            if !permitted(c, *pm, *lm, op) { continue; }
            let k = cells.len(); cells.push((*pm, *lm, op));
            // locking a no-access region type-checks (Lock is generic over the protection) but the state (NoAccess, Locked) is one the
            // table forbids: at run time the call must come back as an error
            let body = if op == 6 && *pm == 2 { "match p.mlock() { Ok(_) => std::process::exit(3), Err(_) => {} }" } else { snippet(op) };
            fns.push_str(&format!("fn check_{k}(p: Protected<{cont}, tr::{}, tr::{}>) {{ {} }}\nfn cell_{k}() {{ let p = {ctor}::from_slice_into_locked(&[7u8; 32]).unwrap(){path}; check_{k}(p); }}\n", pms[*pm], lms[*lm], body));
            arms.push_str(&format!("{k} => cell_{k}(), "));
        } }
        let src = format!("#![feature(allocator_api)]\n#![allow(unused)]\nuse dryoc::protected::*;\nuse dryoc::protected::traits as tr;\nuse dryoc::types::*;\n{fns}fn main() {{ let k: usize = std::env::args().nth(1).unwrap().parse().unwrap(); match k {{ {arms}_ => {{}} }} }}\n");
        let path = format!("{}/cells_{}.rs", dir, c);
        std::fs::write(&path, &src).unwrap();
        let bin = format!("{}/cells_{}", dir, c);
        let o = Command::new("rustc").args(["+nightly", "--edition", "2021", "-L", &format!("dependency={}", deps), "--extern", &format!("dryoc={}", rlib), "-o", &bin, &path]).output();
        match o {
            Ok(o) if o.status.success() => {
                for (k, (pm, lm, op)) in cells.iter().enumerate() {
                    out.search_evaluations += 1;
                    let st = Command::new(&bin).arg(k.to_string()).stderr(std::process::Stdio::null()).status();
                    let ok = st.as_ref().map(|s| s.success()).unwrap_or(false);
                    if st.as_ref().ok().and_then(|s| s.code()) == Some(3) { out.hit("typestate.forbidden-state-reached", format!("{}: locking a no-access region succeeded: safe code holds a region typed (NoAccess, Locked)", cont), json!({"op":"typestate.run","container":cont,"pm":pm,"lm":lm,"operation":OPS[*op]})); }
                    else if !ok { out.hit("typestate.permitted-program-faults", format!("{}: state ({}, {}), operation {}: the permitted program ends with {:?}", cont, pms[*pm], lms[*lm], OPS[*op], st.ok()), json!({"op":"typestate.run","container":cont,"pm":pm,"lm":lm,"operation":OPS[*op],"snippet":snippet(*op)})); }
                }
            }
            Ok(o) => out.hit("typestate.permitted-program-rejected", format!("the runtime program for {} does not compile: {}", cont, String::from_utf8_lossy(&o.stderr).chars().take(600).collect::<String>()), json!({"source":src})),
            Err(_) => out.hit("harness.rustc-missing", "rustc +nightly not runnable".into(), json!({})),
        }
    }
}
