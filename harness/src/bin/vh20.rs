//! vh20 <prop> <tier> <seed> <outdir>: the C20 check alone (programs compiled with rustc against the freshly built
//! dryoc rlib).  A separate binary so that it still builds when a change to the crate's protected-memory API stops
//! the other checks' code (src/prot.rs) from compiling -- which is exactly when C20 has something to say.
#[path = "../common.rs"]
#[allow(dead_code)]
mod common;
#[cfg(feature = "nightly")]
#[path = "../c20.rs"]
mod c20;

fn main() {
    let a: Vec<String> = std::env::args().collect();
    if a.len() < 5 { eprintln!("usage: vh20 C20 <tier> <seed> <outdir>"); std::process::exit(2); }
    let (prop, tier, seed, dir) = (a[1].as_str(), a[2].as_str(), a[3].parse::<u64>().unwrap_or(0), a[4].as_str());
    let mut out = common::Out::new(dir);
    #[cfg(feature = "nightly")]
    c20::run(&mut out, tier, seed);
    out.finish(prop, tier, seed);
}
