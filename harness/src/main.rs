mod common;
mod sodium;
mod c12;

fn main() {
    let a: Vec<String> = std::env::args().collect();
    if a.len() < 5 {
        eprintln!("usage: vh <prop> <tier> <seed> <outdir>");
        std::process::exit(2);
    }
    let (prop, tier, seed, dir) = (a[1].as_str(), a[2].as_str(), a[3].parse::<u64>().unwrap_or(0), a[4].as_str());
    std::panic::set_hook(Box::new(|_| {}));
    sodium::init();
    let mut out = common::Out::new(dir);
    match prop {
        "C12" => c12::run(&mut out, tier, seed),
        _ => { eprintln!("unknown property {}", prop); std::process::exit(2); }
    }
    out.finish(prop, tier, seed);
}
