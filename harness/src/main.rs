#![cfg_attr(feature = "nightly", feature(allocator_api))]
mod common;
mod sodium;
mod c12;
mod c09;
mod c18;
mod c07;
mod aead;
mod stream;
mod c04;
mod pwstr;
mod c05;
mod c16;
#[cfg(feature = "nightly")]
mod c16n;
mod c11;
mod c06;
#[cfg(feature = "nightly")]
mod prot;
#[cfg(feature = "nightly")]
mod c20;

#[global_allocator]
static GLOBAL: c04::Counting = c04::Counting;

fn main() {
    let a: Vec<String> = std::env::args().collect();
    if a.len() < 5 {
        eprintln!("usage: vh <prop> <tier> <seed> <outdir>");
        std::process::exit(2);
    }
    let (prop, tier, seed, dir) = (a[1].as_str(), a[2].as_str(), a[3].parse::<u64>().unwrap_or(0), a[4].as_str());
    std::panic::set_hook(Box::new(|_| {}));
    sodium::init();
    let mut out = common::Out::new(dir);
    match prop {
        "C12" => c12::run(&mut out, tier, seed),
        "C09" => c09::run(&mut out, tier, seed),
        "C18" => c18::run(&mut out, tier, seed),
        "C07" => c07::run_c07(&mut out, tier, seed),
        "C08" => c07::run_c08(&mut out, tier, seed),
        "C01" => aead::run_c01(&mut out, tier, seed),
        "C02" => aead::run_c02(&mut out, tier, seed),
        "C17" => aead::run_c17(&mut out, tier, seed),
        "C03" => stream::run_c03(&mut out, tier, seed),
        "C04" => c04::run(&mut out, tier, seed),
        "C10" => pwstr::run_c10(&mut out, tier, seed),
        "C05" => c05::run(&mut out, tier, seed),
        "C16" => c16::run(&mut out, tier, seed),
        "C11" => c11::run(&mut out, tier, seed),
        "C06" => c06::run_c06(&mut out, tier, seed),
        "C13" => c06::run_c13(&mut out, tier, seed),
        #[cfg(feature = "nightly")]
        "C14" => prot::run_c14(&mut out, tier, seed),
        #[cfg(feature = "nightly")]
        "C15" => prot::run_c15(&mut out, tier, seed),
        #[cfg(feature = "nightly")]
        "C19" => prot::run_c19(&mut out, tier, seed),
        #[cfg(feature = "nightly")]
        "C20" => c20::run(&mut out, tier, seed),
        _ => { eprintln!("unknown property {}", prop); std::process::exit(2); }
    }
    out.finish(prop, tier, seed);
}
