#![cfg_attr(feature = "nightly", feature(allocator_api))]
mod common;
mod sodium;
mod c12;
mod objapi;
mod consts;
mod c09;
mod c18;
mod c07;
mod aead;
mod stream;
mod c04;
mod pwstr;
mod c05;
mod c16;
#[cfg(feature = "nightly")]
mod c16n;
mod c11;
mod c06;
#[cfg(feature = "nightly")]
mod prot;
#[cfg(feature = "nightly")]
mod c20;

#[global_allocator]
static GLOBAL: c04::Counting = c04::Counting;

static LAST_PANIC: std::sync::Mutex<String> = std::sync::Mutex::new(String::new());

fn main() {
    let a: Vec<String> = std::env::args().collect();
    if a.len() < 5 {
        eprintln!("usage: vh <prop> <tier> <seed> <outdir>");
        std::process::exit(2);
    }
    let (prop, tier, seed, dir) = (a[1].as_str(), a[2].as_str(), a[3].parse::<u64>().unwrap_or(0), a[4].as_str());
    // panics are caught by `guard` around each call into the crate; the hook only remembers the last message and place,
    // so that a panic escaping a guard is still reported with where it happened
    std::panic::set_hook(Box::new(|info| {
        let loc = info.location().map(|l| format!("{}:{}", l.file(), l.line())).unwrap_or_default();
        let msg = info.payload().downcast_ref::<&str>().map(|s| s.to_string()).or_else(|| info.payload().downcast_ref::<String>().cloned()).unwrap_or_default();
        if let Ok(mut g) = LAST_PANIC.try_lock() { *g = format!("{} at {}", msg, loc); }
    }));
    sodium::init();
    let mut out = common::Out::new(dir);
    let res = std::panic::catch_unwind(std::panic::AssertUnwindSafe(|| match prop {
        "C12" => c12::run(&mut out, tier, seed),
        "C09" => c09::run(&mut out, tier, seed),
        "C18" => c18::run(&mut out, tier, seed),
        "C07" => c07::run_c07(&mut out, tier, seed),
        "C08" => c07::run_c08(&mut out, tier, seed),
        "C01" => aead::run_c01(&mut out, tier, seed),
        "C02" => aead::run_c02(&mut out, tier, seed),
        "C17" => aead::run_c17(&mut out, tier, seed),
        "C03" => stream::run_c03(&mut out, tier, seed),
        "C04" => c04::run(&mut out, tier, seed),
        "C10" => pwstr::run_c10(&mut out, tier, seed),
        "C05" => c05::run(&mut out, tier, seed),
        "C16" => c16::run(&mut out, tier, seed),
        "C11" => c11::run(&mut out, tier, seed),
        "C06" => c06::run_c06(&mut out, tier, seed),
        "C13" => c06::run_c13(&mut out, tier, seed),
        #[cfg(feature = "nightly")]
        "C14" => prot::run_c14(&mut out, tier, seed),
        #[cfg(feature = "nightly")]
        "C15" => prot::run_c15(&mut out, tier, seed),
        #[cfg(feature = "nightly")]
        "C19" => prot::run_c19(&mut out, tier, seed),
        #[cfg(feature = "nightly")]
        "C20" => c20::run(&mut out, tier, seed),
        _ => { eprintln!("unknown property {}", prop); std::process::exit(2); }
    }));
    if res.is_err() {
        let what = LAST_PANIC.lock().map(|g| g.clone()).unwrap_or_default();
        let in_crate = what.contains("/repo/src/") || what.contains("dryoc");
        out.hit(if in_crate { "crate.panics-in-a-call-the-harness-did-not-expect-to-panic" } else { "harness.panicked" }, what.clone(), serde_json::json!({"op":"harness.run","property":prop,"tier":tier,"seed":seed,"panic":what}));
    }
    out.finish(prop, tier, seed);
}
