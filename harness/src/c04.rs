//! C04: every function consuming attacker-supplied bytes returns Ok or Err for every byte string.
use crate::common::*;
use crate::sodium::{self, SStream};
use crate::stream::{d_init, d_pull};
use dryoc::classic::crypto_box::*;
use dryoc::classic::crypto_secretbox::*;
use dryoc::classic::crypto_sign::*;
use dryoc::dryocstream::{DryocStream, Pull};
use dryoc::types::*;
use serde_json::json;
use std::alloc::{GlobalAlloc, Layout, System};
use std::sync::atomic::{AtomicUsize, Ordering};

pub struct Counting;
pub static MAX_ALLOC: AtomicUsize = AtomicUsize::new(0);
/// C15: when non-zero, every block the ordinary heap gets back is searched for a run of at least 16 bytes of this value
/// (blocks given back holding a marked secret are counted in SCAN_BLOCKS, their marked bytes in SCAN_BYTES)
pub static SCAN_FOR: AtomicUsize = AtomicUsize::new(0);
pub static SCAN_BLOCKS: AtomicUsize = AtomicUsize::new(0);
pub static SCAN_BYTES: AtomicUsize = AtomicUsize::new(0);
unsafe fn scan_released(p: *mut u8, size: usize) {
    let pat = SCAN_FOR.load(Ordering::Relaxed);
    if pat == 0 || size < 16 { return; }
    let sl = std::slice::from_raw_parts(p, size.min(1 << 22));
    let (mut run, mut best, mut total) = (0usize, 0usize, 0usize);
    for x in sl { if *x as usize == pat { run += 1; total += 1; if run > best { best = run; } } else { run = 0; } }
    if best >= 16 { SCAN_BLOCKS.fetch_add(1, Ordering::Relaxed); SCAN_BYTES.fetch_add(total, Ordering::Relaxed); }
}
unsafe impl GlobalAlloc for Counting {
    unsafe fn alloc(&self, l: Layout) -> *mut u8 { MAX_ALLOC.fetch_max(l.size(), Ordering::Relaxed); System.alloc(l) }
    unsafe fn dealloc(&self, p: *mut u8, l: Layout) { scan_released(p, l.size()); System.dealloc(p, l) }
    unsafe fn realloc(&self, p: *mut u8, l: Layout, n: usize) -> *mut u8 { MAX_ALLOC.fetch_max(n, Ordering::Relaxed); if n < l.size() { scan_released(p.add(n), l.size() - n); } System.realloc(p, l, n) }
    unsafe fn alloc_zeroed(&self, l: Layout) -> *mut u8 { MAX_ALLOC.fetch_max(l.size(), Ordering::Relaxed); System.alloc_zeroed(l) }
}

fn classes(rng: &mut Rng, len: usize, valid: &[u8]) -> Vec<(&'static str, Vec<u8>)> {
    let mut v = vec![("zeros", vec![0u8; len]), ("ff", vec![0xffu8; len]), ("random", rng.bytes(len))];
    let mut p: Vec<u8> = valid.iter().cloned().cycle().take(len).collect();
    if valid.is_empty() { p = vec![0x41; len]; }
    v.push(("valid-prefix", p.clone()));
    if len > 0 { let i = rng.below(len as u64) as usize; p[i] ^= 1 << rng.below(8); }
    v.push(("valid-mutated", p));
    v
}

/// runs `f` measuring the largest single allocation it requests
fn measured<T>(f: impl FnOnce() -> T) -> (T, usize) {
    MAX_ALLOC.store(0, Ordering::Relaxed);
    let r = f();
    (r, MAX_ALLOC.load(Ordering::Relaxed))
}

pub fn run(out: &mut Out, tier: &str, seed: u64) {
    let mut rng = Rng::new(seed, "c04");
    let thorough = tier == "thorough";
    // authenticator verification on operands chosen for carries (accumulators at p-1, p, p+1, 2^130-1, r at its extremes):
    // a verdict, never a panic -- with the right authenticator and with a wrong one
    for (key, msg, what) in crate::c07::poly_adversarial() {
        let mac = sodium::onetimeauth(&msg, &key);
        let mut bad = mac; bad[3] ^= 0x20;
        for (which, m) in [("correct", mac), ("wrong", bad)] {
            out.search_evaluations += 2;
            let r = guard(|| dryoc::classic::crypto_onetimeauth::crypto_onetimeauth_verify(&m, &msg, &key));
            if r.is_panic() { out.hit("onetimeauth.verify.panics", format!("{} authenticator, {}", which, what), json!({"op":"onetimeauth.verify","key":hx(&key),"msg":hx(&msg),"mac":hx(&m),"what":what})); }
            let r2 = guard(|| dryoc::onetimeauth::OnetimeAuth::compute_and_verify(&StackByteArray::<16>::from(&m), StackByteArray::<32>::from(&key), &msg));
            if r2.is_panic() { out.hit("obj.onetimeauth.compute_and_verify.panics", format!("{} authenticator, {}", which, what), json!({"op":"obj.OnetimeAuth.compute_and_verify","key":hx(&key),"msg":hx(&msg),"mac":hx(&m),"what":what})); }
        }
    }
    let nmax = if thorough { 400 } else { 160 };
    let (k, n): ([u8; 32], [u8; 24]) = (rng.arr(), rng.arr());
    let ((pka, ska), (pkb, skb)) = crate::aead::box_pairs(&mut rng, 1)[0];
    let m200 = rng.bytes(nmax);
    let valid_sb = sodium::secretbox_easy(&m200, &n, &k);
    let valid_bx = sodium::box_easy(&m200, &n, &pkb, &ska).unwrap();
    let valid_seal = sodium::box_seal(&m200, &pkb);
    let hdr: [u8; 24] = rng.arr();
    let mut sp = SStream::init(&hdr, &k);
    let valid_st = sp.push(&m200, b"", 0);
    let (spk, ssk) = sodium::sign_seed_keypair(&rng.arr());
    let mut valid_sm = sodium::sign_detached(&m200, &ssk).to_vec(); valid_sm.extend_from_slice(&m200);
    let kp: dryoc::dryocbox::KeyPair = dryoc::dryocbox::KeyPair::from_secret_key(StackByteArray::<32>::from(&skb));
    let mut entry = |out: &mut Out, name: &str, class: &str, len: usize, bytes: &[u8], r: Outcome<()>, alloc: usize, bound: usize| {
        out.search_evaluations += 1;
        *out.by_op.entry(format!("search:{}", name)).or_insert(0) += 1;
        if r.is_panic() { out.hit(&format!("{}.panics", name), format!("{} input of {} bytes", class, len), json!({"op": name, "class": class, "len": len, "bytes": hx(bytes)})); }
        if alloc > bound { out.hit(&format!("{}.absurd-allocation", name), format!("{} bytes requested for a {}-byte input", alloc, len), json!({"op": name, "class": class, "len": len, "bytes": hx(bytes), "alloc": alloc})); }
    };
    for len in 0..=nmax {
        let bound = 8192 + 8 * len;
        for (class, bytes) in classes(&mut rng, len, &valid_sb) {
            let mb = len.saturating_sub(16);
            let (r, a) = measured(|| guard(|| { let mut m = vec![0u8; mb]; crypto_secretbox_open_easy(&mut m, &bytes, &n, &k) }));
            entry(out, "secretbox.open_easy", class, len, &bytes, r.clone(), a, bound);
            if len <= 40 || class == "valid-prefix" && len % 8 == 0 {
                let before = vec![crate::aead::SENT; mb];
                let rr = crate::aead::sb_open_easy(&before, &bytes, &n, &k);
                out.case("secretbox.open_easy", &[b(&before), b(&bytes), b(&n), b(&k)], &Outcome::Ok(vec![Tok::I(match rr.0 { Outcome::Ok(_) => 0, Outcome::Err => 1, Outcome::Panic => 2 }), b(&rr.1)]), len >= 16);
                out.len_bucket("box-bytes", len);
            }
            let (r, a) = measured(|| guard(|| { let mut d = bytes.clone(); crypto_secretbox_open_easy_inplace(&mut d, &n, &k) }));
            entry(out, "secretbox.open_easy_inplace", class, len, &bytes, r, a, bound);
            let (r, a) = measured(|| guard(|| dryoc::dryocsecretbox::VecBox::from_bytes(&bytes).and_then(|bx| bx.decrypt_to_vec(&n, &k)).map(|_| ())));
            entry(out, "obj.secretbox.from_bytes+decrypt", class, len, &bytes, r, a, bound);
        }
        for (class, bytes) in classes(&mut rng, len, &valid_bx) {
            let mb = len.saturating_sub(16);
            let (r, a) = measured(|| guard(|| { let mut m = vec![0u8; mb]; crypto_box_open_easy(&mut m, &bytes, &n, &pka, &skb) }));
            entry(out, "box.open_easy", class, len, &bytes, r, a, bound);
            let (r, a) = measured(|| guard(|| { let mut d = bytes.clone(); crypto_box_open_easy_inplace(&mut d, &n, &pka, &skb) }));
            entry(out, "box.open_easy_inplace", class, len, &bytes, r, a, bound);
            let (r, a) = measured(|| guard(|| dryoc::dryocbox::VecBox::from_bytes(&bytes).and_then(|bx| bx.decrypt_to_vec(&StackByteArray::<24>::from(&n), &StackByteArray::<32>::from(&pka), &StackByteArray::<32>::from(&skb))).map(|_| ())));
            entry(out, "obj.box.from_bytes+decrypt", class, len, &bytes, r, a, bound);
        }
        for (class, bytes) in classes(&mut rng, len, &valid_seal) {
            let mb = len.saturating_sub(48);
            let (r, a) = measured(|| guard(|| { let mut m = vec![0u8; mb]; crypto_box_seal_open(&mut m, &bytes, &pkb, &skb) }));
            entry(out, "box.seal_open", class, len, &bytes, r, a, bound);
            let (r, a) = measured(|| guard(|| dryoc::dryocbox::VecBox::from_sealed_bytes(&bytes).and_then(|bx| bx.unseal_to_vec(&kp)).map(|_| ())));
            entry(out, "obj.box.from_sealed_bytes+unseal", class, len, &bytes, r, a, bound);
        }
        for (class, bytes) in classes(&mut rng, len, &valid_st) {
            let mb = len.saturating_sub(17);
            let mut st = d_init(&hdr, &k);
            let (r, a) = measured(|| d_pull(&mut st, &bytes, b"", mb));
            entry(out, "stream.pull", class, len, &bytes, r.0.clone().map(|_| ()), a, bound);
            if len <= 40 {
                let (k0, n0) = d_init(&hdr, &k).verif_parts();
                let steps = Tok::L(vec![Tok::L(vec![Tok::I(2), b(&bytes), b(b""), b(&vec![crate::stream::SENT; mb]), Tok::I(crate::stream::TAGSENT as i64)])]);
                let (ka, na) = st.verif_parts();
                let rr = vec![Tok::I(match r.0 { Outcome::Ok(_) => 0, Outcome::Err => 1, Outcome::Panic => 2 }), Tok::I(r.0.clone().ok().unwrap_or(0) as i64), b(&r.1), Tok::I(r.2 as i64), b(&ka), b(&na)];
                out.case("stream.history", &[b(&k0), b(&n0), b(&k0), b(&n0), steps], &Outcome::Ok(vec![Tok::L(rr)]), len >= 17);
                // object pull through the model as well
                let mut pull: DryocStream<Pull> = DryocStream::init_pull(&StackByteArray::<32>::from(&k), &StackByteArray::<24>::from(&hdr));
                let orr = guard(|| pull.pull_to_vec(&bytes, None::<&Vec<u8>>));
                let steps = Tok::L(vec![Tok::L(vec![Tok::I(4), b(&bytes), b(b"")])]);
                let (om, ot) = match &orr { Outcome::Ok((m, t)) => (m.clone(), t.bits() as i64), _ => (vec![], 0) };
                // the object stream's state is private: the model's state after the step is compared via a follow-up classic state only when accepted; here compare class / message / tag
                let rr = vec![Tok::I(match orr { Outcome::Ok(_) => 0, Outcome::Err => 1, Outcome::Panic => 2 }), b(&om), Tok::I(ot), b(&ka), b(&na)];
                out.case("stream.history", &[b(&k0), b(&n0), b(&k0), b(&n0), steps], &Outcome::Ok(vec![Tok::L(rr)]), len >= 17);
            }
            let mut pull: DryocStream<Pull> = DryocStream::init_pull(&StackByteArray::<32>::from(&k), &StackByteArray::<24>::from(&hdr));
            let (r, a) = measured(|| guard(|| pull.pull_to_vec(&bytes, None::<&Vec<u8>>).map(|_| ())));
            entry(out, "obj.stream.pull", class, len, &bytes, r, a, bound);
        }
        for (class, bytes) in classes(&mut rng, len, &valid_sm) {
            let mb = len.saturating_sub(64);
            let (r, a) = measured(|| guard(|| { let mut m = vec![0u8; mb]; crypto_sign_open(&mut m, &bytes, &spk) }));
            entry(out, "sign.open", class, len, &bytes, r, a, bound);
            let (r, a) = measured(|| guard(|| dryoc::sign::VecSignedMessage::from_bytes(&bytes).and_then(|sm| sm.verify(&StackByteArray::<32>::from(&spk)))));
            entry(out, "obj.sign.from_bytes+verify", class, len, &bytes, r, a, bound);
            if len == 64 {
                let sig: [u8; 64] = bytes.clone().try_into().unwrap();
                let (r, a) = measured(|| guard(|| crypto_sign_verify_detached(&sig, &m200[..40], &spk)));
                entry(out, "sign.verify_detached", class, len, &bytes, r, a, bound);
                let (r, a) = measured(|| guard(|| { let mut st = crypto_sign_init(); crypto_sign_update(&mut st, &m200[..40]); crypto_sign_final_verify(st, &sig, &spk) }));
                entry(out, "sign.final_verify", class, len, &bytes, r, a, bound);
            }
            if len == 32 {
                // attacker-supplied public key encodings
                let pk: [u8; 32] = bytes.clone().try_into().unwrap();
                let sig: [u8; 64] = valid_sm[..64].try_into().unwrap();
                let (r, a) = measured(|| guard(|| crypto_sign_verify_detached(&sig, &m200, &pk)));
                entry(out, "sign.verify_detached(pk)", class, len, &bytes, r, a, bound);
            }
        }
        // MAC verification through the object API with an authenticator held in a Vec
        if len <= 80 {
            for (class, bytes) in classes(&mut rng, len, &[]) {
                let (r, a) = measured(|| guard(|| dryoc::auth::Auth::compute_and_verify(&bytes, StackByteArray::<32>::from(&k), &m200)));
                entry(out, "obj.auth.compute_and_verify(vec-mac)", class, len, &bytes, r, a, bound);
                let (r, a) = measured(|| guard(|| dryoc::onetimeauth::OnetimeAuth::compute_and_verify(&bytes, StackByteArray::<32>::from(&k), &m200)));
                entry(out, "obj.onetimeauth.compute_and_verify(vec-mac)", class, len, &bytes, r, a, bound);
            }
        }
    }
    // authentic messages pulled (and pushed) from every counter class, the wrap of the 32-bit message counter included
    for ctr in [1u32, 2, 0x7fffffff, 0xfffffffe, 0xffffffff] {
        use dryoc::classic::crypto_secretstream_xchacha20poly1305::*;
        let mut n12 = [0u8; 12]; n12[..4].copy_from_slice(&ctr.to_le_bytes()); n12[4..].copy_from_slice(&hdr[16..24]);
        for (mlen, tag) in [(0usize, 0u8), (5, 0), (33, 2), (1, 3)] {
            let m = rng.bytes(mlen);
            let mut s = SStream::from_parts(&k, &n12);
            let c = s.push(&m, b"ad", tag);
            let mut st = State::verif_from_parts(&k, &n12);
            let r = d_pull(&mut st, &c, b"ad", mlen);
            out.search_evaluations += 2;
            let rp = json!({"op":"stream.pull","k":hx(&k),"nonce":hx(&n12),"c":hx(&c),"ad":hx(b"ad"),"counter":ctr});
            if r.0.is_panic() { out.hit("stream.pull.panics-on-authentic-message", format!("message counter {:#x}", ctr), rp.clone()); }
            else if !(r.0.is_ok() && r.1 == m && r.2 == tag) { out.hit("stream.pull.authentic-not-recovered", format!("message counter {:#x} class {}", ctr, r.0.class()), rp.clone()); }
            else if st.verif_parts() != s.parts() { out.hit("stream.pull.state-differs-from-libsodium", format!("message counter {:#x}", ctr), rp.clone()); }
            let mut st2 = State::verif_from_parts(&k, &n12);
            let pr = guard(|| { let mut cc = vec![0u8; mlen + 17]; crypto_secretstream_xchacha20poly1305_push(&mut st2, &mut cc, &m, Some(b"ad"), tag).map(|_| cc) });
            if pr.is_panic() { out.hit("stream.push.panics", format!("message counter {:#x}", ctr), rp.clone()); }
            else if pr.ok().as_ref() != Some(&c) { out.hit("stream.push.differs-from-libsodium", format!("message counter {:#x}", ctr), rp.clone()); }
        }
    }
    // authentic stream messages carrying every tag byte, pushed by libsodium and by the classic API
    for tag in 0..=255u8 {
        for mlen in [0usize, 1, 33] {
            let m = rng.bytes(mlen);
            let mut s = SStream::init(&hdr, &k);
            let c = s.push(&m, b"ad", tag);
            let mut st = d_init(&hdr, &k);
            let r = d_pull(&mut st, &c, b"ad", mlen);
            out.search_evaluations += 2;
            if !(r.0.is_ok() && r.1 == m && r.2 == tag) { out.hit("stream.pull.authentic-any-tag-not-recovered", format!("tag {} class {}", tag, r.0.class()), json!({"op":"stream.pull","tag":tag,"key":hx(&k),"header":hx(&hdr),"c":hx(&c)})); }
            let mut pull: DryocStream<Pull> = DryocStream::init_pull(&StackByteArray::<32>::from(&k), &StackByteArray::<24>::from(&hdr));
            let ad = b"ad".to_vec();
            let orr = guard(|| pull.pull_to_vec(&c, Some(&ad)));
            match &orr {
                Outcome::Ok((pm, pt)) if *pm == m && pt.bits() == tag => {}
                Outcome::Panic => out.hit("obj.stream.pull.panics-on-authentic-tag", format!("tag byte {:#x}", tag), json!({"op":"obj.DryocStream.pull","tag":tag,"key":hx(&k),"header":hx(&hdr),"c":hx(&c)})),
                other => out.hit("obj.stream.pull.authentic-any-tag-not-recovered", format!("tag byte {:#x} class {}", tag, other.class()), json!({"op":"obj.DryocStream.pull","tag":tag,"c":hx(&c)})),
            }
            if mlen == 1 {
                let (k0, n0) = d_init(&hdr, &k).verif_parts();
                let (ka, na) = st.verif_parts();
                let steps = Tok::L(vec![Tok::L(vec![Tok::I(4), b(&c), b(b"ad")])]);
                let rr = vec![Tok::I(match orr { Outcome::Ok(_) => 0, Outcome::Err => 1, Outcome::Panic => 2 }), b(&m), Tok::I(tag as i64), b(&ka), b(&na)];
                out.case("stream.history", &[b(&k0), b(&n0), b(&k0), b(&n0), steps], &Outcome::Ok(vec![Tok::L(rr)]), true);
            }
        }
    }
    crate::pwstr::totality(out, tier, seed);
    crate::objapi::short_hash_records(out, &mut rng);
    crate::objapi::serde_field_lengths(out, &mut rng);
    pwhash_record_lengths(out, &mut rng);
}

/// a stored password-hash record whose declared hash length is not the length of the hash it carries (only a serde record can say
/// so; a string cannot): verify answers Err -- it neither panics nor sizes a buffer from the declared number
fn pwhash_record_lengths(out: &mut Out, rng: &mut Rng) {
    use dryoc::pwhash::{Config, PwHash, VecPwHash};
    let pw = rng.bytes(7);
    let salt = rng.bytes(16);
    let cfg = Config::interactive().with_opslimit(1).with_memlimit(8192);
    let h: VecPwHash = match guard(|| { let r: Result<VecPwHash, _> = PwHash::hash_with_salt(&pw, salt.clone(), cfg.clone()); r }) { Outcome::Ok(h) => h, _ => return };
    let base = serde_json::to_value(&h).unwrap();
    let declared = match base.get("config").and_then(|c| c.get("hash_length")).and_then(|v| v.as_u64()) { Some(d) => d, None => { out.hit("serde.PwHash.layout-unknown", "no config.hash_length field".into(), json!({"json": base.to_string()})); return; } };
    // small disagreements the model follows too: the record built from parts
    { let (hv, sv, _c) = h.clone().into_parts();
      for hl in [16usize, 31, 33, 64] {
          if hl as u64 == declared { continue; }
          let rec = VecPwHash::from_parts(hv.clone(), sv.clone(), cfg.clone().with_hash_length(hl));
          let r = guard(|| rec.verify(&pw));
          out.case("pwhash.verify", &[b(&hv), b(&sv), Tok::I(hl as i64), Tok::B(1u64.to_le_bytes().to_vec()), Tok::B(8192u64.to_le_bytes().to_vec()), Tok::I(2), b(&pw)], &r.map(|_| vec![]), true);
      } }
    // the other fields of the record's configuration, with values no record the crate wrote holds: decoding answers, and so does
    // verifying whatever was decoded
    for field in ["algorithm", "salt_length", "hash_length", "opslimit", "memlimit"] {
        for val in [json!(0), json!(1), json!(2), json!(3), json!(7), json!(255), json!(256), json!(65536), json!(4294967295u64), json!(4294967296u64), json!(-1), json!(1.5), json!(null), json!(true), json!(""), json!("Argon2d"), json!("argon2id13"), json!("Argon2i13"), json!([1]), json!({"Argon2id13": 1})] {
            if (field == "opslimit" || field == "memlimit") && val.as_u64().map(|x| x > 65536).unwrap_or(false) { continue; }   // bounded cost parameters
            let mut v = base.clone();
            v["config"][field] = val.clone();
            let text = v.to_string();
            out.search_evaluations += 1;
            let rp = json!({"op":"serde.PwHash.decode+verify","json":text,"field":field,"password":hx(&pw)});
            match guard_total(|| serde_json::from_str::<VecPwHash>(&text)) {
                Outcome::Panic => out.hit("serde.json.decode-panics.PwHash.config", format!("config.{} = {}", field, val), rp.clone()),
                Outcome::Ok(Ok(rec)) => { let (r, a) = measured(|| guard(|| rec.verify(&pw))); if r.is_panic() { out.hit("obj.pwhash.verify.panics.record-config", format!("config.{} = {}", field, val), rp.clone()); } if a > (1 << 27) { out.hit("obj.pwhash.verify.absurd-allocation", format!("{} bytes requested with config.{} = {}", a, field, val), rp.clone()); } }
                _ => {}
            }
        }
    }
    for hl in [0u64, 1, 15, declared.saturating_sub(1), declared + 1, 4096, 1 << 24, 1 << 63, u64::MAX - 1, u64::MAX] {
        if hl == declared { continue; }
        let mut v = base.clone();
        v["config"]["hash_length"] = serde_json::Value::from(hl);
        let text = v.to_string();
        let rec = match guard_total(|| serde_json::from_str::<VecPwHash>(&text)) { Outcome::Ok(Ok(r)) => r, Outcome::Panic => { out.hit("serde.json.decode-panics.PwHash", format!("hash_length {}", hl), json!({"op":"serde.PwHash.verify","json":text})); continue; } _ => continue };
        for (which, p) in [("right", pw.clone()), ("wrong", b"another".to_vec())] {
            out.search_evaluations += 1;
            let (r, a) = measured(|| guard(|| rec.verify(&p)));
            let rp = json!({"op":"serde.PwHash.verify","json":text,"password":hx(&p),"declared_hash_length":hl,"hash_bytes":declared});
            if r.is_panic() { out.hit("obj.pwhash.verify.panics.record-hash-length", format!("record declares hash_length {} and carries {} bytes ({} password)", hl, declared, which), rp.clone()); }
            else if r.is_ok() { out.hit("obj.pwhash.verify.accepts.record-hash-length", format!("record declares hash_length {} and carries {} bytes ({} password)", hl, declared, which), rp.clone()); }
            if a > (1 << 20) { out.hit("obj.pwhash.verify.absurd-allocation", format!("{} bytes requested: record declares hash_length {} and carries {} bytes", a, hl, declared), rp.clone()); }
        }
    }
}
