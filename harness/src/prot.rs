//! Protected memory (nightly): C14 (page rights / locks / guard pages follow the type state),
//! C15 (wiped before release), C19 (refused mlock is an error, not a panic).
//! Every operation sequence runs in a forked child (a wrong page right can crash the process);
//! after every step the child reads /proc/self/maps and VmLck and probes accesses in grandchildren.
#![cfg(feature = "nightly")]
use crate::common::*;
use dryoc::protected::traits as tr;
use dryoc::protected::*;
use serde_json::json;
use std::io::{Read, Write};

pub const PAGE: usize = 4096;
pub const SECRET: u8 = 0xc3;

#[derive(Clone, Copy, Debug, PartialEq, Eq)]
pub enum Op { Lock, Unlock, Ro, Rw, Na, Clone_, Grow, Shrink, Fill }

impl Op {
    pub fn code(&self) -> i64 { match self { Op::Lock => 0, Op::Unlock => 1, Op::Ro => 2, Op::Rw => 3, Op::Na => 4, Op::Clone_ => 5, Op::Grow => 6, Op::Shrink => 7, Op::Fill => 8 } }
    pub fn name(&self) -> &'static str { match self { Op::Lock => "mlock", Op::Unlock => "munlock", Op::Ro => "mprotect_readonly", Op::Rw => "mprotect_readwrite", Op::Na => "mprotect_noaccess", Op::Clone_ => "clone", Op::Grow => "resize-up", Op::Shrink => "resize-down", Op::Fill => "fill" } }
}

/// (protect mode 0 rw / 1 ro / 2 noaccess, locked)
pub type Ts = (u8, bool);

pub fn legal(ts: Ts, op: Op, resizable: bool, clonable_locked: bool) -> bool {
    let (pm, locked) = ts;
    match op {
        Op::Lock => !locked,
        Op::Unlock => locked,
        Op::Ro => true,
        Op::Rw => true,
        Op::Na => !locked,
        Op::Clone_ => pm != 2 && (!locked || clonable_locked),
        Op::Grow | Op::Shrink => resizable && pm == 0,
        Op::Fill => pm == 0,
    }
}
pub fn next_ts(ts: Ts, op: Op) -> Ts {
    match op { Op::Lock => (ts.0, true), Op::Unlock => (ts.0, false), Op::Ro => (1, ts.1), Op::Rw => (0, ts.1), Op::Na => (2, false), _ => ts }
}

// ------------------------------------------------------------------ OS observation
fn perms_at(maps: &str, addr: usize) -> u8 {
    for line in maps.lines() {
        let mut it = line.split_whitespace();
        let range = it.next().unwrap_or("");
        let perms = it.next().unwrap_or("");
        let mut r = range.split('-');
        let (a, b) = (usize::from_str_radix(r.next().unwrap_or("0"), 16).unwrap_or(0), usize::from_str_radix(r.next().unwrap_or("0"), 16).unwrap_or(0));
        if addr >= a && addr < b {
            let pb = perms.as_bytes();
            return (if pb[0] == b'r' { 1 } else { 0 }) | (if pb[1] == b'w' { 2 } else { 0 });
        }
    }
    255
}
fn vmlck_kb() -> usize {
    let s = std::fs::read_to_string("/proc/self/status").unwrap_or_default();
    for l in s.lines() { if l.starts_with("VmLck:") { return l.split_whitespace().nth(1).and_then(|x| x.parse().ok()).unwrap_or(0); } }
    0
}
/// 0 = access completed, 11 = SIGSEGV, other = other signal
fn probe(addr: usize, write: bool) -> i32 {
    unsafe {
        let pid = libc::fork();
        if pid == 0 {
            let p = addr as *mut u8;
            if write { let v = std::ptr::read_volatile(p as *const u8); std::ptr::write_volatile(p, v); } else { let v = std::ptr::read_volatile(p as *const u8); std::hint::black_box(v); }
            libc::_exit(0);
        }
        let mut st = 0;
        libc::waitpid(pid, &mut st, 0);
        if libc::WIFSIGNALED(st) { libc::WTERMSIG(st) } else { 0 }
    }
}

static RELEASES: std::sync::Mutex<Vec<(usize, usize, i64, usize)>> = std::sync::Mutex::new(Vec::new());
fn release_observer(addr: usize, size: usize) {
    // count non-zero bytes of the region being released; read through process_vm_readv so that a page
    // that is still protected yields an error (-1) instead of a fault inside the allocator
    let mut nz: i64 = 0;
    if size > 0 {
        let mut buf = vec![0u8; size];
        let local = libc::iovec { iov_base: buf.as_mut_ptr() as *mut _, iov_len: size };
        let remote = libc::iovec { iov_base: addr as *mut _, iov_len: size };
        let r = unsafe { libc::process_vm_readv(libc::getpid(), &local, 1, &remote, 1, 0) };
        if r as usize != size { nz = -1; } else { nz = buf.iter().filter(|x| **x != 0).count() as i64; }
    }
    // beyond the size the allocator was told, up to the end of the last data page: the same
    // allocation (an in-place shrink lowers the reported size only).  The child runs with
    // M_PERTURB, so malloc hands out memory filled with 0xee and fills freed memory with 0x11:
    // marker bytes (SECRET / 0x5a, what the harness writes into regions) found there were written
    // by the container during this allocation's life and are unwiped contents.
    let mut tail: usize = 0;
    if size > 0 && (addr + size) % PAGE != 0 {
        let n = PAGE - ((addr + size) % PAGE);
        let mut page = vec![0u8; n];
        let local = libc::iovec { iov_base: page.as_mut_ptr() as *mut _, iov_len: n };
        let remote = libc::iovec { iov_base: (addr + size) as *mut _, iov_len: n };
        let r = unsafe { libc::process_vm_readv(libc::getpid(), &local, 1, &remote, 1, 0) };
        if r as usize == n { tail = page.iter().filter(|x| **x == SECRET || **x == 0x5a).count(); }
    }
    if let Ok(mut g) = RELEASES.try_lock() { g.push((addr, size, nz, tail)); }
}

type SetFn = unsafe extern "C" fn(i32);
type GetFn = unsafe extern "C" fn() -> i32;
pub fn mlock_set(k: i32) -> bool {
    unsafe { let s = libc::dlsym(libc::RTLD_DEFAULT, b"verif_mlock_set\0".as_ptr() as *const _); if s.is_null() { return false; } let f: SetFn = std::mem::transmute(s); f(k); true }
}
pub fn mlock_errno(e: i32) -> bool {
    unsafe { let s = libc::dlsym(libc::RTLD_DEFAULT, b"verif_mlock_errno\0".as_ptr() as *const _); if s.is_null() { return false; } let f: SetFn = std::mem::transmute(s); f(e); true }
}
pub fn mlock_calls() -> i32 {
    unsafe { let s = libc::dlsym(libc::RTLD_DEFAULT, b"verif_mlock_calls\0".as_ptr() as *const _); if s.is_null() { return -1; } let f: GetFn = std::mem::transmute(s); f() }
}

#[derive(Clone, Debug, Default)]
pub struct Obs {
    pub op: String, pub result: String, // ok | err | panic
    pub pm: u8, pub locked: bool, pub len: usize,
    pub first: u8, pub last: u8, pub before: u8, pub after_guard: bool,
    pub vmlck_pages: usize, pub content_ok: bool,
    pub probe_read: i32, pub probe_write: i32,
}

macro_rules! engine {
    ($modname:ident, $A:ty, $resizable:expr, $clonable_locked:expr, $mk:expr) => {
        pub mod $modname {
            use super::*;
            pub enum St {
                UlRw(Unlocked<$A>), UlRo(UnlockedRO<$A>), UlNa(NoAccess<$A>),
                LRw(Locked<$A>), LRo(LockedRO<$A>), LNa(Protected<$A, tr::NoAccess, tr::Locked>),
            }
            impl St {
                pub fn ts(&self) -> Ts { match self { St::UlRw(_) => (0, false), St::UlRo(_) => (1, false), St::UlNa(_) => (2, false), St::LRw(_) => (0, true), St::LRo(_) => (1, true), St::LNa(_) => (2, true) } }
                pub fn slice(&self) -> Option<(usize, usize)> {
                    match self {
                        St::UlRw(p) => Some((p.as_slice().as_ptr() as usize, p.len())), St::UlRo(p) => Some((p.as_slice().as_ptr() as usize, p.len())),
                        St::LRw(p) => Some((p.as_slice().as_ptr() as usize, p.len())), St::LRo(p) => Some((p.as_slice().as_ptr() as usize, p.len())),
                        _ => None,
                    }
                }
            }
            fn io<T>(r: Result<T, std::io::Error>) -> Result<T, String> { r.map_err(|e| format!("{}", e)) }
            /// applies a type-state transition; Err(state unchanged is lost) on OS error
            pub fn apply(st: St, op: Op) -> Result<St, String> {
                Ok(match (st, op) {
                    (St::UlRw(p), Op::Lock) => St::LRw(io(p.mlock())?), (St::UlRo(p), Op::Lock) => St::LRo(io(p.mlock())?), (St::UlNa(p), Op::Lock) => St::LNa(io(p.mlock())?),
                    (St::UlRw(p), Op::Unlock) => St::UlRw(io(p.munlock())?), (St::UlRo(p), Op::Unlock) => St::UlRo(io(p.munlock())?), (St::UlNa(p), Op::Unlock) => St::UlNa(io(p.munlock())?),
                    (St::LRw(p), Op::Unlock) => St::UlRw(io(p.munlock())?), (St::LRo(p), Op::Unlock) => St::UlRo(io(p.munlock())?), (St::LNa(p), Op::Unlock) => St::UlNa(io(p.munlock())?),
                    (St::UlRw(p), Op::Ro) => St::UlRo(io(p.mprotect_readonly())?), (St::UlRo(p), Op::Ro) => St::UlRo(io(p.mprotect_readonly())?), (St::UlNa(p), Op::Ro) => St::UlRo(io(p.mprotect_readonly())?),
                    (St::LRw(p), Op::Ro) => St::LRo(io(p.mprotect_readonly())?), (St::LRo(p), Op::Ro) => St::LRo(io(p.mprotect_readonly())?), (St::LNa(p), Op::Ro) => St::LRo(io(p.mprotect_readonly())?),
                    (St::UlRw(p), Op::Rw) => St::UlRw(io(p.mprotect_readwrite())?), (St::UlRo(p), Op::Rw) => St::UlRw(io(p.mprotect_readwrite())?), (St::UlNa(p), Op::Rw) => St::UlRw(io(p.mprotect_readwrite())?),
                    (St::LRw(p), Op::Rw) => St::LRw(io(p.mprotect_readwrite())?), (St::LRo(p), Op::Rw) => St::LRw(io(p.mprotect_readwrite())?), (St::LNa(p), Op::Rw) => St::LRw(io(p.mprotect_readwrite())?),
                    (St::UlRw(p), Op::Na) => St::UlNa(io(p.mprotect_noaccess())?), (St::UlRo(p), Op::Na) => St::UlNa(io(p.mprotect_noaccess())?), (St::UlNa(p), Op::Na) => St::UlNa(io(p.mprotect_noaccess())?),
                    (s, _) => s,
                })
            }
            pub fn create(len: usize) -> Result<St, String> { let data = vec![SECRET; len]; let f: fn(&[u8]) -> Result<Locked<$A>, dryoc::Error> = $mk; f(&data).map(St::LRw).map_err(|e| format!("{:?}", e)) }
            pub const RESIZABLE: bool = $resizable;
            pub const CLONABLE_LOCKED: bool = $clonable_locked;
        }
    };
}

engine!(heapbytes, HeapBytes, true, true, |d| HeapBytes::from_slice_into_locked(d));

macro_rules! array_engine { ($m:ident, $n:expr) => { engine!($m, HeapByteArray<$n>, false, false, |d| HeapByteArray::<$n>::from_slice_into_locked(d)); } }
array_engine!(arr1, 1); array_engine!(arr16, 16); array_engine!(arr64, 64); array_engine!(arr4095, 4095);
array_engine!(arr4096, 4096); array_engine!(arr4097, 4097); array_engine!(arr8193, 8193);

/// what the child reports about one live region after one step
fn observe(ptr: usize, len: usize, ts: Ts, expect: &[u8], readable: bool, op: &str, result: &str) -> Obs {
    let maps = std::fs::read_to_string("/proc/self/maps").unwrap_or_default();
    let mut o = Obs { op: op.into(), result: result.into(), pm: ts.0, locked: ts.1, len, ..Default::default() };
    o.vmlck_pages = vmlck_kb() * 1024 / PAGE;
    if len == 0 || ptr == 0 { o.content_ok = true; o.first = 255; o.last = 255; o.before = 255; return o; }
    o.first = perms_at(&maps, ptr);
    o.last = perms_at(&maps, ptr + len - 1);
    o.before = perms_at(&maps, ptr - 1);
    let end_page = (ptr + len - 1) / PAGE * PAGE + PAGE;
    // the guard follows the allocation (capacity rounded up to pages, plus one page), which may extend
    // beyond the bytes in use: the first page that is not read-write after the data must be inaccessible
    o.after_guard = { let mut found = false; for k in 0..64 { let p = perms_at(&maps, end_page + k * PAGE); if p == 0 { found = true; break; } if p != 3 { break; } } found };
    o.content_ok = if readable { let s = unsafe { std::slice::from_raw_parts(ptr as *const u8, len) }; s == expect } else { true };
    o.probe_read = probe(ptr + len - 1, false);
    o.probe_write = probe(ptr + len - 1, true);
    o
}

fn obs_line(o: &Obs) -> String {
    format!("O {} {} {} {} {} {} {} {} {} {} {} {} {}\n", o.op, o.result, o.pm, o.locked as u8, o.len, o.first, o.last, o.before, o.after_guard as u8, o.vmlck_pages, o.content_ok as u8, o.probe_read, o.probe_write)
}

macro_rules! runner {
    ($fname:ident, $m:ident) => {
        /// runs one sequence in this (child) process, writing observation lines to `w`
        fn $fname(len: usize, ops: &[Op], w: &mut std::fs::File, fail_from: i32) {
            use $m::*;
            dryoc::protected::verif_set_release_observer(Some(release_observer));
            if fail_from > 0 { mlock_set(fail_from); }
            let mut expect = vec![SECRET; len];
            let created = std::panic::catch_unwind(|| create(len));
            let mut st = match created {
                Ok(Ok(s)) => s,
                Ok(Err(e)) => { let _ = w.write_all(format!("O create err 0 0 {} 255 255 255 0 {} 1 0 0\nE {}\n", len, vmlck_kb() * 1024 / PAGE, e.replace('\n', " ")).as_bytes()); finish(w); return; }
                Err(_) => { let _ = w.write_all(format!("O create panic 0 0 {} 255 255 255 0 {} 1 0 0\n", len, vmlck_kb() * 1024 / PAGE).as_bytes()); finish(w); return; }
            };
            let (mut ptr, mut curlen) = st.slice().unwrap_or((0, len));
            let o = observe(ptr, curlen, st.ts(), &expect, true, "create", "ok");
            let _ = w.write_all(obs_line(&o).as_bytes());
            let mut clones: Vec<St> = vec![];
            for op in ops {
                let ts = st.ts();
                let mut result = "ok";
                match op {
                    Op::Fill => { match &mut st { St::UlRw(p) => { for x in p.as_mut_slice() { *x = 0x5a; } } St::LRw(p) => { for x in p.as_mut_slice() { *x = 0x5a; } } _ => {} } for x in expect.iter_mut() { *x = 0x5a; } }
                    Op::Grow | Op::Shrink => {
                        let newlen = if *op == Op::Grow { curlen + PAGE + 1 } else { curlen / 2 };
                        let r = std::panic::catch_unwind(std::panic::AssertUnwindSafe(|| { match &mut st { St::UlRw(p) => { resize_any(p, newlen); } St::LRw(p) => { resize_any(p, newlen); } _ => {} } }));
                        if r.is_err() {
                            result = "panic";
                            let _ = w.write_all(format!("O {} panic {} {} {} 255 255 255 0 {} 1 0 0\n", op.name(), ts.0, ts.1 as u8, curlen, vmlck_kb() * 1024 / PAGE).as_bytes());
                            // the region that could not be resized is still there, still typed as before: its pages must still be locked if it was
                            let still = match &st { St::LRw(p) => p.as_slice().len(), St::UlRw(p) => p.as_slice().len(), _ => curlen };
                            let want = if ts.1 { (still + PAGE - 1) / PAGE } else { 0 } + clones.iter().map(|c| if c.ts().1 { c.slice().map(|(_, l)| (l + PAGE - 1) / PAGE).unwrap_or(0) } else { 0 }).sum::<usize>();
                            let _ = w.write_all(format!("P {} {} {}\n", vmlck_kb() * 1024 / PAGE, want, still).as_bytes());
                            break;
                        }
                        expect.resize(newlen, 0);
                    }
                    Op::Clone_ => {
                        let r = std::panic::catch_unwind(std::panic::AssertUnwindSafe(|| match &st { St::UlRw(p) => Some(St::UlRw(p.clone())), St::UlRo(p) => Some(St::UlRo(p.clone())), St::LRw(p) => clone_locked_rw(p), St::LRo(p) => clone_locked_ro(p), _ => None }));
                        match r { Ok(Some(c)) => clones.push(c), Ok(None) => {}, Err(_) => { result = "panic"; let _ = w.write_all(format!("O clone panic {} {} {} 255 255 255 0 {} 1 0 0\n", ts.0, ts.1 as u8, curlen, vmlck_kb() * 1024 / PAGE).as_bytes()); break; } }
                    }
                    _ => {
                        let r = std::panic::catch_unwind(std::panic::AssertUnwindSafe(|| apply(st, *op)));
                        match r {
                            Ok(Ok(s)) => { st = s; }
                            Ok(Err(e)) => { let _ = w.write_all(format!("O {} err {} {} {} 255 255 255 0 {} 1 0 0\nE {}\n", op.name(), ts.0, ts.1 as u8, curlen, vmlck_kb() * 1024 / PAGE, e.replace('\n', " ")).as_bytes()); drop(clones); finish(w); return; }
                            Err(_) => { let _ = w.write_all(format!("O {} panic {} {} {} 255 255 255 0 {} 1 0 0\n", op.name(), ts.0, ts.1 as u8, curlen, vmlck_kb() * 1024 / PAGE).as_bytes()); finish(w); return; }
                        }
                    }
                }
                if let Some((p, l)) = st.slice() { ptr = p; curlen = l; }
                let readable = st.ts().0 != 2;
                let o = observe(ptr, curlen, st.ts(), &expect, readable, op.name(), result);
                let _ = w.write_all(obs_line(&o).as_bytes());
                // the clones made so far must stay what they were
                for c in clones.iter() { if let Some((cp, cl)) = c.slice() { let oc = observe(cp, cl, c.ts(), &expect[..cl.min(expect.len())], false, "clone-still-valid", "ok"); let _ = w.write_all(format!("C {}", &obs_line(&oc)[2..]).as_bytes()); } }
            }
            drop(st);
            drop(clones);
            finish(w);
        }
    };
}

trait ResizeAny { fn resize_to(&mut self, n: usize); }
impl ResizeAny for Unlocked<HeapBytes> { fn resize_to(&mut self, n: usize) { self.resize(n, 0) } }
impl ResizeAny for Locked<HeapBytes> { fn resize_to(&mut self, n: usize) { self.resize(n, 0) } }
macro_rules! no_resize { ($n:expr) => { impl ResizeAny for Unlocked<HeapByteArray<$n>> { fn resize_to(&mut self, _n: usize) {} } impl ResizeAny for Locked<HeapByteArray<$n>> { fn resize_to(&mut self, _n: usize) {} } } }
no_resize!(1); no_resize!(16); no_resize!(64); no_resize!(4095); no_resize!(4096); no_resize!(4097); no_resize!(8193);
fn resize_any<T: ResizeAny>(p: &mut T, n: usize) { p.resize_to(n) }

trait CloneLocked: Sized { fn cl_rw(p: &Locked<Self>) -> Option<Locked<Self>> where Self: zeroize::Zeroize + Bytes; fn cl_ro(p: &LockedRO<Self>) -> Option<LockedRO<Self>> where Self: zeroize::Zeroize + Bytes; }
impl CloneLocked for HeapBytes { fn cl_rw(p: &Locked<Self>) -> Option<Locked<Self>> { Some(p.clone()) } fn cl_ro(p: &LockedRO<Self>) -> Option<LockedRO<Self>> { Some(p.clone()) } }
macro_rules! no_clone { ($n:expr) => { impl CloneLocked for HeapByteArray<$n> { fn cl_rw(_p: &Locked<Self>) -> Option<Locked<Self>> { None } fn cl_ro(_p: &LockedRO<Self>) -> Option<LockedRO<Self>> { None } } } }
no_clone!(1); no_clone!(16); no_clone!(64); no_clone!(4095); no_clone!(4096); no_clone!(4097); no_clone!(8193);

mod hb_clone { use super::*; pub fn rw(p: &Locked<HeapBytes>) -> Option<heapbytes::St> { HeapBytes::cl_rw(p).map(heapbytes::St::LRw) } pub fn ro(p: &LockedRO<HeapBytes>) -> Option<heapbytes::St> { HeapBytes::cl_ro(p).map(heapbytes::St::LRo) } }

fn finish(w: &mut std::fs::File) {
    let rel = RELEASES.lock().map(|g| g.clone()).unwrap_or_default();
    for (_a, s, nz, tail) in rel { let _ = w.write_all(format!("R {} {} {}\n", s, nz, tail).as_bytes()); }
    let _ = w.write_all(format!("F {} {}\n", vmlck_kb() * 1024 / PAGE, mlock_calls()).as_bytes());
}

// per-container glue for the clone of locked regions (only HeapBytes has it)
macro_rules! clone_glue { ($m:ident, hb) => { #[allow(dead_code)] fn clone_locked_rw(p: &Locked<HeapBytes>) -> Option<$m::St> { hb_clone::rw(p) } #[allow(dead_code)] fn clone_locked_ro(p: &LockedRO<HeapBytes>) -> Option<$m::St> { hb_clone::ro(p) } };
                       ($m:ident, $n:expr) => { #[allow(dead_code)] fn clone_locked_rw(_p: &Locked<HeapByteArray<$n>>) -> Option<$m::St> { None } #[allow(dead_code)] fn clone_locked_ro(_p: &LockedRO<HeapByteArray<$n>>) -> Option<$m::St> { None } }; }

mod run_hb { use super::*; clone_glue!(heapbytes, hb); runner!(run, heapbytes); pub fn go(len: usize, ops: &[Op], w: &mut std::fs::File, k: i32) { run(len, ops, w, k) } }
macro_rules! run_arr { ($rm:ident, $m:ident, $n:expr) => { mod $rm { use super::*; clone_glue!($m, $n); runner!(run, $m); pub fn go(len: usize, ops: &[Op], w: &mut std::fs::File, k: i32) { run(len, ops, w, k) } } } }
run_arr!(run_a1, arr1, 1); run_arr!(run_a16, arr16, 16); run_arr!(run_a64, arr64, 64); run_arr!(run_a4095, arr4095, 4095);
run_arr!(run_a4096, arr4096, 4096); run_arr!(run_a4097, arr4097, 4097); run_arr!(run_a8193, arr8193, 8193);

#[derive(Clone, Debug)]
pub struct Run { pub after_panic: Vec<(usize, usize, usize)>, pub obs: Vec<Obs>, pub clone_obs: Vec<Obs>, pub clone_step: Vec<usize>, pub releases: Vec<(usize, i64)>, pub release_tails: Vec<usize>, pub final_vmlck: Option<usize>, pub mlock_calls: i32, pub signal: i32, pub errors: Vec<String> }

fn parse_obs(f: &[&str]) -> Obs {
    let g = |i: usize| f.get(i).copied().unwrap_or("0");
    Obs { op: g(1).into(), result: g(2).into(), pm: g(3).parse().unwrap_or(0), locked: g(4) == "1", len: g(5).parse().unwrap_or(0), first: g(6).parse().unwrap_or(255), last: g(7).parse().unwrap_or(255),
          before: g(8).parse().unwrap_or(255), after_guard: g(9) == "1", vmlck_pages: g(10).parse().unwrap_or(0), content_ok: g(11) == "1", probe_read: g(12).parse().unwrap_or(0), probe_write: g(13).parse().unwrap_or(0) }
}

/// container: 0 = HeapBytes (len free), n > 0 = HeapByteArray<n>
pub fn run_sequence(container: usize, len: usize, ops: &[Op], fail_from: i32) -> Run {
    let mut fds = [0i32; 2];
    unsafe { libc::pipe(fds.as_mut_ptr()); }
    let pid = unsafe { libc::fork() };
    if pid == 0 {
        unsafe { libc::close(fds[0]); libc::mallopt(-6 /* M_PERTURB */, 0x11); libc::alarm(60); }   // a sequence that does not finish is killed (SIGALRM) and reported
        let mut w = unsafe { <std::fs::File as std::os::unix::io::FromRawFd>::from_raw_fd(fds[1]) };
        match container { 0 => run_hb::go(len, ops, &mut w, fail_from), 1 => run_a1::go(1, ops, &mut w, fail_from), 16 => run_a16::go(16, ops, &mut w, fail_from), 64 => run_a64::go(64, ops, &mut w, fail_from),
            4095 => run_a4095::go(4095, ops, &mut w, fail_from), 4096 => run_a4096::go(4096, ops, &mut w, fail_from), 4097 => run_a4097::go(4097, ops, &mut w, fail_from), _ => run_a8193::go(8193, ops, &mut w, fail_from) }
        let _ = w.flush();
        unsafe { libc::_exit(0); }
    }
    unsafe { libc::close(fds[1]); }
    let mut r = unsafe { <std::fs::File as std::os::unix::io::FromRawFd>::from_raw_fd(fds[0]) };
    let mut text = String::new();
    let _ = r.read_to_string(&mut text);
    let mut st = 0;
    unsafe { libc::waitpid(pid, &mut st, 0); }
    let signal = if libc::WIFSIGNALED(st) { libc::WTERMSIG(st) } else { 0 };
    let mut run = Run { after_panic: vec![], obs: vec![], clone_obs: vec![], clone_step: vec![], releases: vec![], release_tails: vec![], final_vmlck: None, mlock_calls: -1, signal, errors: vec![] };
    for l in text.lines() {
        let f: Vec<&str> = l.split(' ').collect();
        match f[0] { "O" => run.obs.push(parse_obs(&f)), "C" => { run.clone_step.push(run.obs.len().saturating_sub(1)); run.clone_obs.push(parse_obs(&f)); }
            "R" => { run.releases.push((f[1].parse().unwrap_or(0), f[2].parse().unwrap_or(0))); run.release_tails.push(f.get(3).and_then(|x| x.parse().ok()).unwrap_or(0)); }
            "F" => { run.final_vmlck = f[1].parse().ok(); run.mlock_calls = f[2].parse().unwrap_or(-1); }
            "P" => run.after_panic.push((f[1].parse().unwrap_or(0), f[2].parse().unwrap_or(0), f.get(3).and_then(|x| x.parse().ok()).unwrap_or(0))),
            "E" => run.errors.push(l[2..].to_string()), _ => {} }
    }
    run
}

pub fn sequences(depth: usize, resizable: bool, clonable_locked: bool, with_fill: bool) -> Vec<Vec<Op>> {
    let all = [Op::Lock, Op::Unlock, Op::Ro, Op::Rw, Op::Na, Op::Clone_, Op::Grow, Op::Shrink, Op::Fill];
    let mut out: Vec<Vec<Op>> = vec![vec![]];
    let mut frontier: Vec<(Vec<Op>, Ts)> = vec![(vec![], (0, true))];
    for _ in 0..depth {
        let mut next = vec![];
        for (seq, ts) in frontier.iter() {
            for op in all.iter() {
                if *op == Op::Fill && !with_fill { continue; }
                if !legal(*ts, *op, resizable, clonable_locked) { continue; }
                let mut s2 = seq.clone(); s2.push(*op);
                out.push(s2.clone());
                next.push((s2, next_ts(*ts, *op)));
            }
        }
        frontier = next;
    }
    out
}

/// munlock is offered in every lock state (`Unlock` is implemented for `Protected<A, PM, LM>` whatever LM is): on a region that is
/// not locked it must change nothing. The general generator only unlocks locked regions (it would otherwise double in size);
/// these are the sequences that reach every unlocked state by a short path, unlock there, and optionally go on
pub fn self_loop_sequences(resizable: bool, clonable_locked: bool) -> Vec<Vec<Op>> {
    let mut out = vec![];
    for s in sequences(2, resizable, clonable_locked, false) {
        let ts = s.iter().fold((0u8, true), |t, o| next_ts(t, *o));
        if ts.1 { continue; }
        let mut a = s.clone(); a.push(Op::Unlock); out.push(a.clone());
        for o in [Op::Lock, Op::Ro, Op::Rw, Op::Unlock] { let mut b = a.clone(); b.push(o); out.push(b); }
    }
    out
}

fn expected_perm(pm: u8) -> u8 { match pm { 0 => 3, 1 => 1, _ => 0 } }
fn pages_spanned(len: usize) -> usize { (len + PAGE - 1) / PAGE }
fn seq_names(ops: &[Op]) -> Vec<&'static str> { ops.iter().map(|o| o.name()).collect() }

/// C14: after every step the OS view agrees with the type state
pub fn run_c14(out: &mut Out, tier: &str, _seed: u64) {
    let thorough = tier == "thorough";
    let depth = if thorough { 5 } else { 3 };
    let lens: Vec<usize> = vec![0, 1, 16, 32, 64, PAGE - 1, PAGE, PAGE + 1, 2 * PAGE, 2 * PAGE + 1];
    let mut plan: Vec<(usize, usize, Vec<Op>)> = vec![];
    let hb = sequences(depth, true, true, false);
    for len in lens.iter() { for s in hb.iter() { plan.push((0, *len, s.clone())); } }
    let ar = sequences(depth, false, false, false);
    for n in [1usize, 16, 64, 4095, 4096, 4097, 8193] { for s in ar.iter() { plan.push((n, n, s.clone())); } }
    for len in lens.iter() { for s in self_loop_sequences(true, true) { plan.push((0, *len, s)); } }
    for n in [1usize, 64, 4097] { for s in self_loop_sequences(false, false) { plan.push((n, n, s)); } }
    for (container, len, ops) in plan.iter() {
        let run = run_sequence(*container, *len, ops, 0);
        out.search_evaluations += 1;
        let rp = json!({"op":"protected.history","container": if *container == 0 { "HeapBytes".to_string() } else { format!("HeapByteArray<{}>", container) }, "len": len, "ops": seq_names(ops)});
        if run.signal != 0 { out.hit("protected.sequence-crashes", format!("signal {} after {} of {} steps, length {}", run.signal, run.obs.len(), ops.len() + 1, len), rp.clone()); }
        let mut toks: Vec<Tok> = vec![];
        // clones alive at each step keep memory locked too; track via observation order
        let mut live_clone_pages_locked = 0usize;
        for (k, o) in run.obs.iter().enumerate() {
            let step = if k == 0 { "create".to_string() } else { format!("step {} ({})", k, o.op) };
            if o.result == "panic" { if o.op != "clone" && o.op != "resize-up" && o.op != "resize-down" { out.hit("protected.transition-panics", format!("{} length {}", step, len), rp.clone()); } break; }
            if o.result == "err" {
                // a transition may legitimately report an OS error (Linux refuses to lock a no-access mapping);
                // what must still hold is checked below: nothing stays locked after the drop
                if !(o.op == "mlock" && o.pm == 2) { out.hit("protected.transition-fails", format!("{} length {}: {:?}", step, len, run.errors), rp.clone()); }
                *out.by_class.entry("os-error:mlock-on-noaccess".into()).or_insert(0) += 1;
                break;
            }
            if o.op == "clone" && o.locked { live_clone_pages_locked += pages_spanned(o.len); }
            if o.len > 0 {
                let want = expected_perm(o.pm);
                if o.first != want || o.last != want { out.hit(&format!("protected.page-rights-differ.{}", if o.len % PAGE == 1 { "len-1-mod-page" } else { "other" }), format!("{}: type says {} but first/last data page are {}/{} (length {})", step, want, o.first, o.last, o.len), rp.clone()); }
                if o.before != 0 { out.hit("protected.guard-before-missing", format!("{} length {}", step, o.len), rp.clone()); }
                if !o.after_guard { out.hit("protected.guard-after-missing", format!("{} length {}", step, o.len), rp.clone()); }
                let want_locked = if o.locked { pages_spanned(o.len) } else { 0 } + live_clone_pages_locked;
                if o.vmlck_pages != want_locked { out.hit("protected.locked-pages-differ", format!("{}: {} pages locked, type state says {} (length {})", step, o.vmlck_pages, want_locked, o.len), rp.clone()); }
                if !o.content_ok { out.hit("protected.contents-changed", format!("{} length {}", step, o.len), rp.clone()); }
                let (wr, ww) = match o.pm { 0 => (0, 0), 1 => (0, 11), _ => (11, 11) };
                if o.probe_read != wr || o.probe_write != ww { out.hit("protected.access-probe-differs", format!("{}: read -> signal {}, write -> signal {} (expected {}/{}), length {}", step, o.probe_read, o.probe_write, wr, ww, o.len), rp.clone()); }
            }
            // every clone alive after this step: its pages carry the rights its own type says
            let mut clone_rights: Vec<Tok> = vec![];
            for (ci, c) in run.clone_obs.iter().enumerate() {
                if run.clone_step[ci] != k || c.len == 0 { continue; }
                let want = expected_perm(c.pm);
                if c.first != want || c.last != want { out.hit("protected.clone-rights-differ", format!("{}: a clone whose type says {} has first/last data page {}/{} (length {})", step, want, c.first, c.last, c.len), rp.clone()); }
                if c.before != 0 || !c.after_guard { out.hit("protected.clone-guard-missing", format!("{} length {}", step, c.len), rp.clone()); }
                clone_rights.push(Tok::I(c.first as i64));
            }
            toks.push(Tok::L(vec![Tok::I(o.first as i64), Tok::I(o.last as i64), Tok::I(o.before as i64), Tok::I(o.vmlck_pages as i64), Tok::I(o.len as i64), Tok::L(clone_rights)]));
        }
        if run.signal == 0 { if let Some(v) = run.final_vmlck { if v != 0 { out.hit("protected.residual-locked-pages", format!("{} pages still locked after the last drop (length {})", v, len), rp.clone()); } } }
        // model correspondence on a slice of the plan (HeapBytes, no clone/resize panics)
        if run.signal == 0 && *container == 0 && ops.len() <= 3 && (len % 16 != 0 || *len == 0 || ops.len() <= 2) && run.obs.iter().all(|o| o.result == "ok") {
            let args = [i(*len), Tok::L(ops.iter().map(|o| Tok::I(o.code())).collect())];
            out.case("protected.history", &args, &Outcome::Ok(vec![Tok::L(toks), i(run.final_vmlck.unwrap_or(999))]), true);
            out.len_bucket("region", *len);
        }
    }
    out.notes.insert("sequences".into(), json!(plan.len()));
    // every way of constructing a region typed Locked really locks its pages (and dropping it unlocks them)
    {
        macro_rules! ctor { ($name:expr, $n:expr, $e:expr) => {{
            let before = vmlck_kb();
            let made = std::panic::catch_unwind(|| $e);
            out.search_evaluations += 1;
            match made {
                Ok(x) => { let during = vmlck_kb(); let want = pages_spanned($n) * PAGE / 1024;
                    if during.saturating_sub(before) != want { out.hit("protected.constructor.locked-pages-differ", format!("{}: typed Locked, {} KiB locked where {} KiB are expected", $name, during.saturating_sub(before), want), json!({"op":"protected.constructor","constructor":$name,"len":$n})); }
                    drop(x);
                    if vmlck_kb() != before { out.hit("protected.residual-locked-pages", format!("{}: {} KiB still locked after the drop", $name, vmlck_kb().saturating_sub(before)), json!({"op":"protected.constructor","constructor":$name})); } }
                Err(_) => out.hit("protected.constructor.panics", $name.to_string(), json!({"constructor":$name})),
            }
        }}; }
        ctor!("Locked<HeapByteArray<32>>::gen (NewByteArray)", 32, <Locked<HeapByteArray<32>> as NewByteArray<32>>::gen());
        ctor!("Locked<HeapByteArray<4097>>::gen (NewByteArray)", 4097, <Locked<HeapByteArray<4097>> as NewByteArray<4097>>::gen());
        ctor!("Locked<HeapByteArray<32>>::new_byte_array", 32, <Locked<HeapByteArray<32>> as NewByteArray<32>>::new_byte_array());
        ctor!("Locked<HeapByteArray<64>>::new_bytes", 64, <Locked<HeapByteArray<64>> as NewBytes>::new_bytes());
        ctor!("HeapByteArray<32>::new_locked", 32, HeapByteArray::<32>::new_locked().unwrap());
        ctor!("HeapByteArray<8193>::gen_locked", 8193, HeapByteArray::<8193>::gen_locked().unwrap());
        ctor!("HeapByteArray<32>::gen_readonly_locked", 32, HeapByteArray::<32>::gen_readonly_locked().unwrap());
        ctor!("HeapByteArray<64>::from_slice_into_locked", 64, HeapByteArray::<64>::from_slice_into_locked(&[7u8; 64]).unwrap());
        ctor!("HeapBytes::from_slice_into_locked(5000)", 5000, HeapBytes::from_slice_into_locked(&[7u8; 5000]).unwrap());
        ctor!("HeapBytes::from_slice_into_readonly_locked(100)", 100, HeapBytes::from_slice_into_readonly_locked(&[7u8; 100]).unwrap());
        ctor!("StackByteArray<32>::mlock", 32, StackByteArray::<32>::from(&[7u8; 32]).mlock().unwrap());
        ctor!("LockedKdf::gen (key)", 32, dryoc::kdf::protected::LockedKdf::gen().into_parts().0);
    }
}

/// C15: every released region is all-zero
pub fn run_c15(out: &mut Out, tier: &str, _seed: u64) {
    let thorough = tier == "thorough";
    // a container built from a slice of the wrong length would hold bytes outside what it reports (and wipes)
    { let mut rng = Rng::new(_seed, "c15-extra"); crate::objapi::conversions(out, &mut rng); }
    ordinary_heap_copies(out);
    let depth = if thorough { 5 } else { 3 };
    let lens: Vec<usize> = vec![1, 16, 100, PAGE - 1, PAGE, PAGE + 1, 2 * PAGE + 1, 5 * PAGE];
    let hb = sequences(depth, true, true, true);
    let mut n = 0;
    for len in lens.iter() {
        for ops in hb.iter() {
            let run = run_sequence(0, *len, ops, 0);
            out.search_evaluations += 1; n += 1;
            let rp = json!({"op":"protected.release-history","container":"HeapBytes","len":len,"ops":seq_names(ops)});
            if run.signal != 0 { out.hit("protected.sequence-crashes", format!("signal {} length {}", run.signal, len), rp.clone()); continue; }
            let grew = ops.contains(&Op::Grow); let shrank = ops.contains(&Op::Shrink);
            for (k, tail) in run.release_tails.iter().enumerate() {
                if *tail >= 8 { out.hit("protected.released-unwiped.beyond-reported-size", format!("a region released as {} bytes still holds {} bytes of its contents beyond that size, before the guard page (initial length {})", run.releases[k].0, tail, len), rp.clone()); }
            }
            for (size, nz) in run.releases.iter() {
                if *nz > 0 { out.hit(&format!("protected.released-unwiped.{}", if grew { "after-grow" } else if shrank { "after-shrink" } else { "plain" }), format!("a region of {} bytes reached the allocator with {} non-zero bytes (initial length {})", size, nz, len), rp.clone()); }
                if *nz < 0 { out.hit("protected.released-while-protected", format!("a region of {} bytes was released while unreadable", size), rp.clone()); }
            }
            if n % 23 == 0 || ops.len() <= 1 {
                let rel: Vec<Tok> = run.releases.iter().map(|(s, z)| Tok::L(vec![i(*s), Tok::I((*z > 0) as i64)])).collect();
                out.case("protected.releases", &[i(*len), Tok::L(ops.iter().map(|o| Tok::I(o.code())).collect())], &Outcome::Ok(vec![Tok::L(rel)]), true);
            }
        }
    }
    // large regions (16 pages and more, where an allocator might treat pages differently): shorter histories
    for len in [15 * PAGE + 1, 16 * PAGE, 16 * PAGE + 1, 73 * PAGE + 17, if thorough { 1025 * PAGE + 3 } else { 200 * PAGE }] {
        for ops in sequences(2, true, true, true).iter() {
            let run = run_sequence(0, len, ops, 0);
            out.search_evaluations += 1;
            let rp = json!({"op":"protected.release-history","container":"HeapBytes","len":len,"ops":seq_names(ops)});
            if run.signal != 0 { out.hit("protected.sequence-crashes", format!("signal {} length {}", run.signal, len), rp.clone()); continue; }
            for (k, tail) in run.release_tails.iter().enumerate() {
                if *tail >= 8 { out.hit("protected.released-unwiped.beyond-reported-size", format!("a region released as {} bytes still holds {} bytes of its contents beyond that size (initial length {})", run.releases[k].0, tail, len), rp.clone()); }
            }
            for (size, nz) in run.releases.iter() {
                if *nz > 0 { out.hit("protected.released-unwiped.large-region", format!("a region of {} bytes reached the allocator with {} non-zero bytes (initial length {})", size, nz, len), rp.clone()); }
                if *nz < 0 { out.hit("protected.released-while-protected", format!("a region of {} bytes was released while unreadable", size), rp.clone()); }
            }
        }
    }
    for nn in [16usize, 4096, 4097] {
        for ops in sequences(depth.min(3), false, false, true).iter() {
            let run = run_sequence(nn, nn, ops, 0);
            out.search_evaluations += 1;
            let rp = json!({"op":"protected.release-history","container":format!("HeapByteArray<{}>", nn),"ops":seq_names(ops)});
            for (size, nz) in run.releases.iter() { if *nz > 0 { out.hit("protected.released-unwiped.array", format!("{} bytes with {} non-zero", size, nz), rp.clone()); } }
        }
    }
    // histories the generic sequences do not contain: an explicit zeroize() followed by new contents and a release, and a
    // container released while a panic unwinds through its owner (secrets in the spare capacity after a shrink)
    for len in [100usize, PAGE, PAGE + 1, 3 * PAGE + 5] {
        for variant in 0..9 {
            if variant == 8 && (len - 1) / PAGE * PAGE + 1 == len { continue; }
            let run = { let mut fds = [0i32; 2]; unsafe { libc::pipe(fds.as_mut_ptr()); } let pid = unsafe { libc::fork() };
                if pid == 0 { unsafe { libc::close(fds[0]); libc::mallopt(-6 /* M_PERTURB */, 0x11); libc::alarm(60); } let mut w = unsafe { <std::fs::File as std::os::unix::io::FromRawFd>::from_raw_fd(fds[1]) };
                    std::panic::set_hook(Box::new(|_| {}));
                    dryoc::protected::verif_set_release_observer(Some(release_observer));
                    use zeroize::Zeroize;
                    let secret = vec![SECRET; len];
                    match variant {
                        // explicit zeroize, then new contents, then growth beyond the capacity / drop
                        0 => { let mut p = HeapBytes::from_slice_into_locked(&secret).unwrap().munlock().unwrap(); p.zeroize(); p.resize(len, 0); for x in p.as_mut_slice() { *x = 0x5a; } p.resize(4 * len + PAGE, 0x5a); drop(p); }
                        1 => { let mut p = HeapBytes::from_slice_into_locked(&secret).unwrap(); p.zeroize(); p.resize(len, 0); for x in p.as_mut_slice() { *x = 0x5a; } p.resize(4 * len + PAGE, 0x5a); drop(p); }
                        2 => { let mut hb = HeapBytes::from(&secret[..]); hb.zeroize(); hb.resize(len, 0x5a); hb.resize(4 * len + PAGE, 0x5a); drop(hb); }
                        3 => { let mut p = HeapBytes::from_slice_into_locked(&secret).unwrap().munlock().unwrap(); p.zeroize(); p.resize(len, 0); for x in p.as_mut_slice() { *x = 0x5a; } drop(p); }
                        // released while unwinding
                        4 => { let _ = std::panic::catch_unwind(|| { let mut hb = HeapBytes::from(&secret[..]); hb.resize(len / 3, 0); if hb.len() < usize::MAX { panic!("unwind"); } drop(hb); }); }
                        5 => { let _ = std::panic::catch_unwind(|| { let mut p = HeapBytes::from_slice_into_locked(&secret).unwrap(); p.resize(len / 3, 0); if p.len() < usize::MAX { panic!("unwind"); } drop(p); }); }
                        6 => { let _ = std::panic::catch_unwind(|| { let mut p = HeapBytes::from_slice_into_locked(&secret).unwrap().munlock().unwrap(); p.resize(len / 3, 0); if p.len() < usize::MAX { panic!("unwind"); } drop(p); }); }
                        7 => { let _ = std::panic::catch_unwind(|| { let p = HeapBytes::from_slice_into_readonly_locked(&secret).unwrap(); if p.len() < usize::MAX { panic!("unwind"); } drop(p); }); }
                        // a buffer given up by a growing container, then a smaller container of the same page count, another
                        // release in between, then the small one released: an allocator that keeps released regions for reuse
                        // must have wiped them -- whatever it hands to free() is clean beyond the size it reports, too
                        _ => { let mut a = HeapBytes::from(&secret[..]); a.resize(4 * len + PAGE, SECRET);
                               let small_len = (len - 1) / PAGE * PAGE + 1;
                               let small = HeapBytes::from(&vec![SECRET; small_len][..]);
                               let other = HeapBytes::from(&[SECRET; 50][..]); drop(other);
                               drop(small);
                               let again = HeapBytes::from(&vec![SECRET; small_len][..]); drop(again);
                               drop(a); }
                    }
                    finish(&mut w); let _ = w.flush(); unsafe { libc::_exit(0); } }
                unsafe { libc::close(fds[1]); } let mut r = unsafe { <std::fs::File as std::os::unix::io::FromRawFd>::from_raw_fd(fds[0]) }; let mut t = String::new(); let _ = r.read_to_string(&mut t); let mut st = 0; unsafe { libc::waitpid(pid, &mut st, 0); }
                if libc::WIFSIGNALED(st) { out.hit("protected.sequence-crashes", format!("signal {} in release scenario {} (length {})", libc::WTERMSIG(st), variant, len), json!({"op":"protected.release-scenario","len":len,"variant":variant})); }
                t };
            out.search_evaluations += 1;
            let names = ["unlocked: zeroize, refill, grow", "locked: zeroize, refill, grow", "HeapBytes: zeroize, refill, grow", "unlocked: zeroize, refill, drop", "HeapBytes: shrink, released while unwinding", "locked: shrink, released while unwinding", "unlocked: shrink, released while unwinding", "locked read-only: released while unwinding", "HeapBytes: grown, then a smaller container of the same page count created and released around another release"];
            let mut any = false;
            for l in run.lines() { let f: Vec<&str> = l.split(' ').collect(); if f[0] == "R" { any = true; if f[2].parse::<i64>().unwrap_or(0) > 0 || f.get(3).and_then(|x| x.parse::<usize>().ok()).unwrap_or(0) >= 8 {
                out.hit(&format!("protected.released-unwiped.{}", if variant < 4 { "after-explicit-zeroize" } else if variant == 8 { "region-reused-by-a-smaller-container" } else { "while-unwinding" }), format!("{} (length {}): {} bytes released with {} non-zero (and {} beyond the reported size)", names[variant], len, f[1], f[2], f.get(3).unwrap_or(&"0")), json!({"op":"protected.release-scenario","len":len,"variant":variant,"scenario":names[variant]})); } } }
            if !any { out.hit("harness.no-release-observed", format!("scenario {} length {}", names[variant], len), json!({"variant":variant,"len":len})); }
        }
    }
    // the wipe does not depend on a system call succeeding: with the one mprotect(READ|WRITE) on the released region refused
    // (seccomp filter in a child, keyed on that region's size), a region that was writable all along is still wiped
    for len in [5000usize, 9000] {
        let child = |magic: u32| -> String {
            let mut fds = [0i32; 2]; unsafe { libc::pipe(fds.as_mut_ptr()); } let pid = unsafe { libc::fork() };
            if pid == 0 { unsafe { libc::close(fds[0]); libc::mallopt(-6 /* M_PERTURB */, 0x11); libc::alarm(60); } let mut w = unsafe { <std::fs::File as std::os::unix::io::FromRawFd>::from_raw_fd(fds[1]) };
                dryoc::protected::verif_set_release_observer(Some(release_observer));
                let mut hb = HeapBytes::default(); hb.resize(len, SECRET);
                if magic != 0 {
                    #[repr(C)] struct Filt { code: u16, jt: u8, jf: u8, k: u32 }
                    #[repr(C)] struct Prog { len: u16, filter: *const Filt }
                    let filt = [Filt { code: 0x20, jt: 0, jf: 0, k: 0 },                                   // A = nr
                                Filt { code: 0x15, jt: 0, jf: 3, k: libc::SYS_mprotect as u32 },            // mprotect ?
                                Filt { code: 0x20, jt: 0, jf: 0, k: 24 },                                   // A = low word of args[1] (len)
                                Filt { code: 0x15, jt: 0, jf: 1, k: magic },                                // the released region's size ?
                                Filt { code: 0x06, jt: 0, jf: 0, k: 0x0005_0000 | (libc::EPERM as u32) },   //   refuse
                                Filt { code: 0x06, jt: 0, jf: 0, k: 0x7fff_0000 }];                         // allow
                    let prog = Prog { len: 6, filter: filt.as_ptr() };
                    let ok = unsafe { libc::prctl(libc::PR_SET_NO_NEW_PRIVS, 1, 0, 0, 0) == 0 && libc::prctl(libc::PR_SET_SECCOMP, 2, &prog as *const Prog) == 0 };
                    if !ok { let _ = w.write_all(b"nofilter\n"); unsafe { libc::_exit(0); } }
                }
                hb.resize(16, 0);
                drop(hb);
                finish(&mut w); let _ = w.flush(); unsafe { libc::_exit(0); } }
            unsafe { libc::close(fds[1]); } let mut r = unsafe { <std::fs::File as std::os::unix::io::FromRawFd>::from_raw_fd(fds[0]) }; let mut t = String::new(); let _ = r.read_to_string(&mut t); let mut st = 0; unsafe { libc::waitpid(pid, &mut st, 0); } t };
        // first learn the size the allocator is handed for this container, then refuse mprotect for exactly that size
        let plain = child(0);
        let size: u32 = plain.lines().filter(|l| l.starts_with("R ")).last().and_then(|l| l.split(' ').nth(1).and_then(|x| x.parse().ok())).unwrap_or(0);
        if size == 0 { continue; }
        let t = child(size);
        out.search_evaluations += 1;
        if t.starts_with("nofilter") { out.notes.insert("mprotect_refused".into(), json!("not exercised: the seccomp filter could not be installed here")); continue; }
        out.notes.insert("mprotect_refused".into(), json!("mprotect of the released region -> EPERM under a seccomp filter"));
        let mut any = false;
        for l in t.lines() { let f: Vec<&str> = l.split(' ').collect(); if f[0] == "R" { any = true; if f[2].parse::<i64>().unwrap_or(0) > 0 || f.get(3).and_then(|x| x.parse::<usize>().ok()).unwrap_or(0) >= 8 {
            out.hit("heapbytes.released-unwiped.mprotect-refused", format!("HeapBytes of {} bytes shrunk to 16 and dropped while mprotect of its region is refused: {} bytes released with {} non-zero", len, f[1], f[2]), json!({"op":"heapbytes.release","len":len,"scenario":"mprotect refused"})); } } }
        if !any { out.notes.insert("mprotect_refused".into(), json!("no release observed with the filter installed")); }
    }
    // plain HeapBytes (no Protected wrapper): grow / shrink / drop
    for len in [16usize, PAGE, PAGE + 1] {
        for variant in 0..3 {
            let run = { let mut fds = [0i32; 2]; unsafe { libc::pipe(fds.as_mut_ptr()); } let pid = unsafe { libc::fork() };
                if pid == 0 { unsafe { libc::close(fds[0]); libc::mallopt(-6 /* M_PERTURB */, 0x11); } let mut w = unsafe { <std::fs::File as std::os::unix::io::FromRawFd>::from_raw_fd(fds[1]) };
                    dryoc::protected::verif_set_release_observer(Some(release_observer));
                    { let mut hb = HeapBytes::default(); hb.resize(len, SECRET); match variant { 0 => {}, 1 => hb.resize(len * 3 + 7, SECRET), _ => hb.resize(len / 2, 0) } drop(hb); }
                    finish(&mut w); let _ = w.flush(); unsafe { libc::_exit(0); } }
                unsafe { libc::close(fds[1]); } let mut r = unsafe { <std::fs::File as std::os::unix::io::FromRawFd>::from_raw_fd(fds[0]) }; let mut t = String::new(); let _ = r.read_to_string(&mut t); let mut st = 0; unsafe { libc::waitpid(pid, &mut st, 0); } t };
            out.search_evaluations += 1;
            for l in run.lines() { let f: Vec<&str> = l.split(' ').collect(); if f[0] == "R" && f[2].parse::<i64>().unwrap_or(0) > 0 {
                out.hit(&format!("heapbytes.released-unwiped.{}", ["drop", "grow", "shrink"][variant]), format!("plain HeapBytes of {} bytes: {} bytes released with {} non-zero", len, f[1], f[2]), json!({"op":"heapbytes.release","len":len,"variant":variant})); } }
        }
    }
}

/// C19: the k-th and all later mlock calls refused
pub fn run_c19(out: &mut Out, tier: &str, _seed: u64) {
    let thorough = tier == "thorough";
    if !mlock_set(0) { out.hit("harness.interposer-missing", "LD_PRELOAD interposer not loaded".into(), json!({})); return; }
    let depth = if thorough { 5 } else { 3 };
    let hb = sequences(depth, true, true, false);
    let ar = sequences(depth, false, false, false);
    let mut plan: Vec<(usize, usize, &Vec<Op>)> = vec![];
    for len in [0usize, 1, 64, PAGE, PAGE + 1] { for ops in hb.iter() { plan.push((0, len, ops)); } }
    for n in [64usize, 4097] { for ops in ar.iter() { plan.push((n, n, ops)); } }
    let sl = self_loop_sequences(true, true);
    for len in [64usize, PAGE + 1] { for ops in sl.iter() { plan.push((0, len, ops)); } }
    {
        for (container, len, ops) in plan.iter() {
            let (container, len, ops) = (*container, len, *ops);
            let base = run_sequence(container, *len, ops, 0);
            let calls = base.mlock_calls.max(1);
            for k in 1..=calls {
                let run = run_sequence(container, *len, ops, k);
                out.search_evaluations += 1;
                let rp = json!({"op":"protected.mlock-refused","container": if container == 0 { "HeapBytes".to_string() } else { format!("HeapByteArray<{}>", container) },"len":len,"ops":seq_names(ops),"refuse_from_call":k});
                if run.signal == libc::SIGALRM { out.hit("protected.mlock-refused.hangs", format!("no result within 60 s (refusing from call {}), length {}", k, len), rp.clone()); continue; }
                if run.signal != 0 { out.hit("protected.mlock-refused.aborts", format!("signal {} (refusing from call {}), length {}", run.signal, k, len), rp.clone()); continue; }
                for (idx, o) in run.obs.iter().enumerate() {
                    let result_returning = matches!(o.op.as_str(), "create" | "mlock" | "munlock" | "mprotect_readonly" | "mprotect_readwrite" | "mprotect_noaccess");
                    if o.result == "panic" && result_returning { out.hit(&format!("protected.mlock-refused.panics.{}", if o.op == "create" { "from_slice_into_locked" } else { "transition" }), format!("{} (step {}) panicked when mlock call {} was refused, length {}", o.op, idx, k, len), rp.clone()); }
                }
                // a refused lock must come back as an error: a step that reports success leaves exactly the pages locked that the type state says
                { let mut live_clone_pages_locked = 0usize;
                  for (idx, o) in run.obs.iter().enumerate() {
                    if o.result != "ok" { break; }
                    if o.op == "clone" && o.locked { live_clone_pages_locked += pages_spanned(o.len); }
                    if o.len > 0 { let want = if o.locked { pages_spanned(o.len) } else { 0 } + live_clone_pages_locked;
                        if o.vmlck_pages != want { out.hit("protected.mlock-refused.reported-as-success", format!("{} (step {}) returned Ok with the type state {} but {} pages are locked (refusing from call {}), length {}", o.op, idx, if o.locked { "Locked" } else { "Unlocked" }, o.vmlck_pages, k, len), rp.clone()); break; } }
                  } }
                for (locked_now, want, still) in run.after_panic.iter() { if locked_now < want { out.hit("protected.mlock-refused.earlier-region-unlocked", format!("after a resize that could not lock its replacement, the region (still {} bytes, still typed Locked) has {} of its {} pages locked (refusing from call {})", still, locked_now, want, k), rp.clone()); } }
                for c in run.clone_obs.iter() { if c.len > 0 && (c.first != expected_perm(c.pm) || c.last != expected_perm(c.pm)) { out.hit("protected.mlock-refused.earlier-region-damaged", format!("length {}", len), rp.clone()); } }
                if let Some(v) = run.final_vmlck { if v != 0 { out.hit("protected.mlock-refused.residual-locked-pages", format!("{} pages locked after cleanup (refusing from call {})", v, k), rp.clone()); } }
                for (size, nz) in run.releases.iter() { if *nz > 0 { out.hit("protected.mlock-refused.released-unwiped", format!("{} bytes, {} non-zero (refusing from call {})", size, nz, k), rp.clone()); } }
                if ops.len() <= 1 && container == 0 {
                    let classes: Vec<Tok> = run.obs.iter().map(|o| Tok::I(match o.result.as_str() { "ok" => 0, "err" => 1, _ => 2 })).collect();
                    out.case("protected.refusal", &[i(*len), Tok::L(ops.iter().map(|o| Tok::I(o.code())).collect()), i(k as usize)], &Outcome::Ok(vec![Tok::L(classes)]), true);
                }
            }
        }
    }
    // the other ways the OS refuses (mlock(2): EPERM without the privilege, EAGAIN when the pages cannot be locked now): an error too, in bounded time
    for e in [libc::EAGAIN, libc::EPERM] {
        mlock_errno(e);
        let seqs: Vec<Vec<Op>> = sequences(2, true, true, false).into_iter().filter(|s| s.len() <= 2).collect();
        'outer: for len in [64usize, PAGE + 1] { for ops in seqs.iter() {
            let base = run_sequence(0, len, ops, 0);
            for k in 1..=base.mlock_calls.max(1) {
                let run = run_sequence(0, len, ops, k);
                out.search_evaluations += 1;
                let rp = json!({"op":"protected.mlock-refused","container":"HeapBytes","len":len,"ops":seq_names(ops),"refuse_from_call":k,"errno":e});
                if run.signal == libc::SIGALRM { out.hit("protected.mlock-refused.hangs", format!("errno {}: no result within 60 s (refusing from call {}), length {}", e, k, len), rp.clone()); break 'outer; }
                if run.signal != 0 { out.hit("protected.mlock-refused.aborts", format!("errno {}: signal {} (refusing from call {}), length {}", e, run.signal, k, len), rp.clone()); continue; }
                for (idx, o) in run.obs.iter().enumerate() {
                    let result_returning = matches!(o.op.as_str(), "create" | "mlock" | "munlock" | "mprotect_readonly" | "mprotect_readwrite" | "mprotect_noaccess");
                    if o.result == "panic" && result_returning { out.hit("protected.mlock-refused.panics.other-errno", format!("errno {}: {} (step {}) panicked, length {}", e, o.op, idx, len), rp.clone()); }
                }
                { let mut live_clone_pages_locked = 0usize;
                  for (idx, o) in run.obs.iter().enumerate() {
                    if o.result != "ok" { break; }
                    if o.op == "clone" && o.locked { live_clone_pages_locked += pages_spanned(o.len); }
                    if o.len > 0 { let want = if o.locked { pages_spanned(o.len) } else { 0 } + live_clone_pages_locked;
                        if o.vmlck_pages != want { out.hit("protected.mlock-refused.reported-as-success", format!("errno {}: {} (step {}) returned Ok with the type state {} but {} pages are locked (refusing from call {}), length {}", e, o.op, idx, if o.locked { "Locked" } else { "Unlocked" }, o.vmlck_pages, k, len), rp.clone()); break; } }
                  } }
                if let Some(v) = run.final_vmlck { if v != 0 { out.hit("protected.mlock-refused.residual-locked-pages", format!("errno {}: {} pages locked after cleanup", e, v), rp.clone()); } }
            }
        } }
    }
    mlock_errno(libc::ENOMEM);
    // the other Result-returning constructors
    for (name, f) in [("HeapBytes::new_locked", 0), ("HeapBytes::gen_locked", 1), ("HeapByteArray<32>::new_locked", 2), ("HeapByteArray<32>::gen_readonly_locked", 3), ("HeapBytes::from_slice_into_readonly_locked", 4), ("HeapByteArray<32>::from_slice_into_locked", 5),
                      ("StackByteArray<32>::mlock", 6), ("StackByteArray<64>::mlock", 7), ("HeapByteArray<32>::mlock", 8), ("HeapBytes::mlock", 9), ("HeapByteArray<32>::new_readonly_locked", 10), ("HeapByteArray<32>::from_slice_into_readonly_locked", 11), ("HeapBytes::from_slice_into_locked", 12)] {
        let mut fds = [0i32; 2]; unsafe { libc::pipe(fds.as_mut_ptr()); }
        let pid = unsafe { libc::fork() };
        if pid == 0 {
            unsafe { libc::close(fds[0]); } let mut w = unsafe { <std::fs::File as std::os::unix::io::FromRawFd>::from_raw_fd(fds[1]) };
            mlock_set(1);
            let r = std::panic::catch_unwind(|| match f { 0 => HeapBytes::new_locked().map(|_| ()).map_err(|_| ()), 1 => HeapBytes::gen_locked().map(|_| ()).map_err(|_| ()), 2 => HeapByteArray::<32>::new_locked().map(|_| ()).map_err(|_| ()),
                3 => HeapByteArray::<32>::gen_readonly_locked().map(|_| ()).map_err(|_| ()), 4 => HeapBytes::from_slice_into_readonly_locked(&[7u8; 40]).map(|_| ()).map_err(|_| ()),
                6 => StackByteArray::<32>::from(&[7u8; 32]).mlock().map(|_| ()).map_err(|_| ()), 7 => StackByteArray::<64>::from(&[7u8; 64]).mlock().map(|_| ()).map_err(|_| ()),
                8 => HeapByteArray::<32>::from(&[7u8; 32]).mlock().map(|_| ()).map_err(|_| ()), 9 => HeapBytes::from(&[7u8; 40][..]).mlock().map(|_| ()).map_err(|_| ()),
                10 => HeapByteArray::<32>::new_readonly_locked().map(|_| ()).map_err(|_| ()), 11 => HeapByteArray::<32>::from_slice_into_readonly_locked(&[7u8; 32]).map(|_| ()).map_err(|_| ()),
                12 => HeapBytes::from_slice_into_locked(&[7u8; 5000]).map(|_| ()).map_err(|_| ()),
                _ => HeapByteArray::<32>::from_slice_into_locked(&[7u8; 32]).map(|_| ()).map_err(|_| ()) });
            let _ = w.write_all(match r { Ok(Ok(())) => b"ok\n", Ok(Err(())) => b"err\n", Err(_) => b"panic\n" }); let _ = w.flush(); unsafe { libc::_exit(0); }
        }
        unsafe { libc::close(fds[1]); } let mut r = unsafe { <std::fs::File as std::os::unix::io::FromRawFd>::from_raw_fd(fds[0]) }; let mut t = String::new(); let _ = r.read_to_string(&mut t); let mut st = 0; unsafe { libc::waitpid(pid, &mut st, 0); }
        out.search_evaluations += 1;
        // an empty HeapBytes locks nothing (mlock is skipped for empty regions): ok is legitimate there
        if t.trim() == "panic" || libc::WIFSIGNALED(st) { out.hit("protected.mlock-refused.panics.constructor", format!("{} panicked / aborted when mlock was refused", name), json!({"op":"protected.constructor","name":name})); }
    }
}

/// C15: a container that is resized, cloned or moved between states must not leave its bytes in a block of the ordinary heap
/// either (a temporary it copies through is memory it gives back): every block the global allocator gets back while the
/// operation runs is searched for the marked secret
fn ordinary_heap_copies(out: &mut Out) {
    use crate::c04::{SCAN_BLOCKS, SCAN_BYTES, SCAN_FOR};
    use std::sync::atomic::Ordering;
    const MARK: u8 = 0x9d;
    let names = ["locked: resize up", "locked: resize down", "locked: clone, then resize the clone", "unlocked: resize up", "HeapBytes: resize up", "locked: unlock, protect read-only, back, lock", "locked read-only: clone"];
    for len in [64usize, 5000, 9000] {
        for variant in 0..names.len() {
            let mut fds = [0i32; 2]; unsafe { libc::pipe(fds.as_mut_ptr()); }
            let pid = unsafe { libc::fork() };
            if pid == 0 {
                unsafe { libc::close(fds[0]); libc::alarm(60); }
                let mut w = unsafe { <std::fs::File as std::os::unix::io::FromRawFd>::from_raw_fd(fds[1]) };
                let mut secret = vec![MARK; len];
                let built: Result<Locked<HeapBytes>, _> = HeapBytes::from_slice_into_locked(&secret);
                for x in secret.iter_mut() { *x = 0; } drop(secret);
                let p = match built { Ok(p) => p, Err(_) => { let _ = w.write_all(b"E\n"); unsafe { libc::_exit(0); } } };
                SCAN_BLOCKS.store(0, Ordering::Relaxed); SCAN_BYTES.store(0, Ordering::Relaxed); SCAN_FOR.store(MARK as usize, Ordering::Relaxed);
                let r = std::panic::catch_unwind(std::panic::AssertUnwindSafe(|| { match variant {
                    0 => { let mut p = p; p.resize(2 * len + 4096, 0); drop(p); }
                    1 => { let mut p = p; p.resize(len / 2 + 17, 0); drop(p); }
                    2 => { let mut c = p.clone(); c.resize(len + 1, 0); drop(c); drop(p); }
                    3 => { let mut u = p.munlock().unwrap(); u.resize(2 * len + 4096, 0); drop(u); }
                    4 => { let mut h = HeapBytes::from(p.as_slice()); drop(p); h.resize(3 * len + 4096, 0); drop(h); }
                    5 => { let q = p.munlock().unwrap().mprotect_readonly().unwrap().mprotect_readwrite().unwrap().mlock().unwrap(); drop(q); }
                    _ => { let q = p.mprotect_readonly().unwrap(); let c = q.clone(); drop(c); drop(q); }
                } }));
                SCAN_FOR.store(0, Ordering::Relaxed);
                let _ = w.write_all(format!("H {} {} {}\n", SCAN_BLOCKS.load(Ordering::Relaxed), SCAN_BYTES.load(Ordering::Relaxed), if r.is_ok() { 0 } else { 1 }).as_bytes()); let _ = w.flush();
                unsafe { libc::_exit(0); }
            }
            unsafe { libc::close(fds[1]); } let mut r = unsafe { <std::fs::File as std::os::unix::io::FromRawFd>::from_raw_fd(fds[0]) }; let mut t = String::new(); let _ = r.read_to_string(&mut t); let mut st = 0; unsafe { libc::waitpid(pid, &mut st, 0); }
            out.search_evaluations += 1;
            let rp = json!({"op":"protected.ordinary-heap-copy","len":len,"variant":variant,"scenario":names[variant]});
            if libc::WIFSIGNALED(st) { out.hit("protected.sequence-crashes", format!("signal {} in scenario '{}' (length {})", libc::WTERMSIG(st), names[variant], len), rp.clone()); continue; }
            let f: Vec<&str> = t.trim().split(' ').collect();
            if f.len() == 4 && f[0] == "H" {
                let (blocks, bytes) = (f[1].parse::<usize>().unwrap_or(0), f[2].parse::<usize>().unwrap_or(0));
                if blocks > 0 { out.hit("protected.secret-left-in-ordinary-heap", format!("{} (length {}): {} block(s) holding {} secret byte(s) went back to the allocator unwiped", names[variant], len, blocks, bytes), rp.clone()); }
            }
        }
    }
}
