//! C16: byte and serde encodings round-trip; fixed-length values refuse any other length.
use crate::common::*;
use crate::sodium;
use dryoc::dryocbox::{DryocBox, VecBox as BoxVec};
use dryoc::dryocsecretbox::VecBox as SecretVec;
use dryoc::types::*;
use serde_json::json;

fn json_array(elems: &[u8]) -> String { format!("[{}]", elems.iter().map(|x| x.to_string()).collect::<Vec<_>>().join(",")) }

fn fixed<const N: usize>(out: &mut Out, rng: &mut Rng) {
    for count in 0..=(2 * N) {
        let elems = rng.bytes(count);
        // element sequence (serde_json array -> visit_seq)
        let r = guard(|| serde_json::from_str::<StackByteArray<N>>(&json_array(&elems)));
        out.search_evaluations += 1;
        let res = match &r { Outcome::Ok(a) => Outcome::Ok(vec![b(a.as_slice())]), Outcome::Err => Outcome::Err, Outcome::Panic => Outcome::Panic };
        out.case("serde.visit_seq", &[i(N), b(&elems)], &res, true);
        if count != N && !r.is_err() {
            let kind = if count < N { "short" } else { "long" };
            out.hit(&format!("serde.json.fixed-length.accepts-{}-sequence", kind), format!("StackByteArray<{}> from {} elements: {:?}", N, count, r.clone().map(|a| hx(a.as_slice()))),
                json!({"op":"serde.json_decode.StackByteArray","N":N,"json":json_array(&elems)}));
        }
        if count == N && r.clone().ok().map(|a| a.as_slice().to_vec()) != Some(elems.clone()) { out.hit("serde.json.fixed-length.rejects-exact", format!("N {}", N), json!({"N":N})); }
        // byte string (bincode -> visit_bytes)
        let enc = bincode::serialize(&elems).unwrap();
        let r = guard(|| bincode::deserialize::<StackByteArray<N>>(&enc));
        out.search_evaluations += 1;
        let res = match &r { Outcome::Ok(a) => Outcome::Ok(vec![b(a.as_slice())]), Outcome::Err => Outcome::Err, Outcome::Panic => Outcome::Panic };
        out.case("serde.visit_bytes", &[i(N), b(&elems)], &res, true);
        if count != N && !r.is_err() {
            let kind = if count < N { "short" } else { "long" };
            out.hit(&format!("serde.bincode.fixed-length.accepts-{}-bytes", kind), format!("StackByteArray<{}> from {} bytes", N, count), json!({"op":"serde.bincode_decode.StackByteArray","N":N,"bytes":hx(&enc)}));
        }
        // the same byte string on the routes that hand the visitor a copied buffer instead of a borrowed one:
        // bincode from a reader, serde_json from a reader, a JSON string with an escape sequence
        {
            let text: Vec<u8> = elems.iter().map(|x| b'a' + (x % 26)).collect();
            let plain = format!("\"{}\"", String::from_utf8(text.clone()).unwrap());
            let escaped = if count > 0 { format!("\"\\u00{:02x}{}\"", text[0], String::from_utf8(text[1..].to_vec()).unwrap()) } else { "\"\"".to_string() };
            let routes: Vec<(&str, Outcome<Vec<u8>>, Vec<u8>)> = vec![
                ("bincode.reader", guard(|| bincode::deserialize_from::<_, StackByteArray<N>>(&enc[..])).map(|a| a.as_slice().to_vec()), elems.clone()),
                ("json.string", guard(|| serde_json::from_str::<StackByteArray<N>>(&plain)).map(|a| a.as_slice().to_vec()), text.clone()),
                ("json.string-reader", guard(|| serde_json::from_reader::<_, StackByteArray<N>>(plain.as_bytes())).map(|a| a.as_slice().to_vec()), text.clone()),
                ("json.string-escaped", guard(|| serde_json::from_str::<StackByteArray<N>>(&escaped)).map(|a| a.as_slice().to_vec()), text.clone()),
            ];
            for (route, r, want) in routes {
                out.search_evaluations += 1;
                let res = match &r { Outcome::Ok(a) => Outcome::Ok(vec![b(a)]), Outcome::Err => Outcome::Err, Outcome::Panic => Outcome::Panic };
                out.case("serde.visit_bytes", &[i(N), b(&want)], &res, true);
                match (&r, count == N) {
                    (Outcome::Ok(a), true) if *a == want => {}
                    (Outcome::Err, false) => {}
                    (Outcome::Ok(_), false) => out.hit(&format!("serde.{}.fixed-length.accepts-{}-bytes", route, if count < N { "short" } else { "long" }), format!("StackByteArray<{}> from {} bytes", N, count), json!({"op":"serde.decode.StackByteArray","route":route,"N":N,"bytes":hx(&want)})),
                    (Outcome::Panic, _) => out.hit(&format!("serde.{}.fixed-length.decode-panics", route), format!("N {} count {}", N, count), json!({"route":route,"N":N,"count":count})),
                    _ => out.hit(&format!("serde.{}.fixed-length.rejects-exact", route), format!("N {}", N), json!({"route":route,"N":N})),
                }
            }
        }
        // TryFrom<&[u8]>
        let r = guard(|| StackByteArray::<N>::try_from(&elems[..]));
        out.search_evaluations += 1;
        if (count == N) != r.is_ok() { out.hit("tryfrom.fixed-length.wrong-verdict", format!("N {} len {}", N, count), json!({"N":N,"len":count})); }
    }
}

fn same<T: serde::Serialize>(a: &T, bb: &T) -> bool { serde_json::to_string(a).unwrap() == serde_json::to_string(bb).unwrap() }

fn both_formats<T: serde::Serialize + serde::de::DeserializeOwned>(out: &mut Out, name: &str, v: &T, len: usize) -> Option<(T, T)> {
    out.search_evaluations += 2;
    let j = guard(|| serde_json::from_str::<T>(&serde_json::to_string(v).unwrap()));
    let bn = guard(|| bincode::deserialize::<T>(&bincode::serialize(v).unwrap()));
    match (j, bn) {
        (Outcome::Ok(a), Outcome::Ok(c)) => {
            if !same(&a, v) { out.hit(&format!("serde.json.roundtrip-differs.{}", name), format!("payload {}", len), json!({"type":name,"len":len})); }
            if !same(&c, v) { out.hit(&format!("serde.bincode.roundtrip-differs.{}", name), format!("payload {}", len), json!({"type":name,"len":len})); }
            Some((a, c))
        }
        (a, c) => { out.hit(&format!("serde.roundtrip-fails.{}", name), format!("payload {} json {} bincode {}", len, a.class(), c.class()), json!({"type":name,"len":len})); None }
    }
}

pub fn run(out: &mut Out, tier: &str, seed: u64) {
    let mut rng = Rng::new(seed, "c16");
    let thorough = tier == "thorough";
    #[cfg(feature = "nightly")]
    { let mut r2 = Rng::new(seed, "c16-nightly"); crate::c16n::run(out, tier, &mut r2); }
    fixed::<8>(out, &mut rng); fixed::<16>(out, &mut rng); fixed::<24>(out, &mut rng); fixed::<32>(out, &mut rng); fixed::<64>(out, &mut rng);
    let maxlen = if thorough { 300 } else { 80 };
    let (k, n): ([u8; 32], [u8; 24]) = (rng.arr(), rng.arr());
    let ((pka, ska), (pkb, skb)) = crate::aead::box_pairs(&mut rng, 1)[0];
    let kp = dryoc::dryocbox::KeyPair::from_secret_key(StackByteArray::<32>::from(&skb));
    let skp = dryoc::sign::SigningKeyPair::<dryoc::sign::PublicKey, dryoc::sign::SecretKey>::from_seed(&StackByteArray::<32>::from(&rng.arr::<32>()));
    for len in 0..=maxlen {
        let m = rng.bytes(len);
        // secret box
        let sb = SecretVec::encrypt_to_vecbox(&m, &StackByteArray::<24>::from(&n), &StackByteArray::<32>::from(&k));
        let bytes = sb.to_vec();
        out.search_evaluations += 3;
        if bytes != sodium::secretbox_easy(&m, &n, &k) { out.hit("bytes.secretbox.to_bytes-not-libsodium-layout", format!("len {}", len), json!({"len":len})); }
        let (tag, data) = sb.clone().into_parts();
        out.case("bytes.secretbox.from_bytes", &[b(&bytes)], &Outcome::Ok(vec![b(tag.as_slice()), b(&data)]), true);
        match guard(|| SecretVec::from_bytes(&bytes)) {
            Outcome::Ok(b2) => { if !same(&b2, &sb) { out.hit("bytes.secretbox.from_bytes-differs", format!("len {}", len), json!({"len":len})); }
                                 if b2.decrypt_to_vec(&n, &k).ok().as_ref() != Some(&m) { out.hit("bytes.secretbox.roundtrip-no-longer-decrypts", format!("len {}", len), json!({"len":len})); } }
            other => out.hit("bytes.secretbox.from_bytes-rejects-own-encoding", format!("len {} ({})", len, other.class()), json!({"op":"obj.DryocSecretBox.from_bytes","len":len,"bytes":hx(&bytes)})),
        }
        let rebuilt = SecretVec::from_parts(tag, data);
        if !same(&rebuilt, &sb) { out.hit("parts.secretbox.from_parts-differs", format!("len {}", len), json!({"len":len})); }
        if let Some((a, c)) = both_formats(out, "DryocSecretBox", &sb, len) {
            if a.decrypt_to_vec(&n, &k).ok().as_ref() != Some(&m) || c.decrypt_to_vec(&n, &k).ok().as_ref() != Some(&m) { out.hit("serde.roundtrip-no-longer-decrypts.DryocSecretBox", format!("len {}", len), json!({"len":len})); }
        }
        // public-key box and sealed box
        let bx = BoxVec::encrypt_to_vecbox(&m, &StackByteArray::<24>::from(&n), &StackByteArray::<32>::from(&pkb), &StackByteArray::<32>::from(&ska)).unwrap();
        let bytes = bx.to_vec();
        out.search_evaluations += 4;
        if Some(bytes.clone()) != sodium::box_easy(&m, &n, &pkb, &ska) { out.hit("bytes.box.to_bytes-not-libsodium-layout", format!("len {}", len), json!({"len":len})); }
        match guard(|| BoxVec::from_bytes(&bytes)) {
            Outcome::Ok(b2) => { if !same(&b2, &bx) { out.hit("bytes.box.from_bytes-differs", format!("len {}", len), json!({"len":len})); } }
            other => out.hit("bytes.box.from_bytes-rejects-own-encoding", format!("len {} ({})", len, other.class()), json!({"op":"obj.DryocBox.from_bytes","len":len,"bytes":hx(&bytes)})),
        }
        let (tag, data, epk) = bx.clone().into_parts();
        out.case("bytes.box.from_bytes", &[b(&bytes)], &Outcome::Ok(vec![Tok::N, b(tag.as_slice()), b(&data)]), true);
        if !same(&DryocBox::from_parts(tag, data, epk), &bx) { out.hit("parts.box.from_parts-differs", format!("len {}", len), json!({"len":len})); }
        if let Some((a, c)) = both_formats(out, "DryocBox", &bx, len) {
            let dec = |x: &BoxVec| x.decrypt_to_vec(&StackByteArray::<24>::from(&n), &StackByteArray::<32>::from(&pka), &StackByteArray::<32>::from(&skb)).ok();
            if dec(&a).as_ref() != Some(&m) || dec(&c).as_ref() != Some(&m) { out.hit("serde.roundtrip-no-longer-decrypts.DryocBox", format!("len {}", len), json!({"len":len})); }
        }
        let sl = BoxVec::seal_to_vecbox(&m, &StackByteArray::<32>::from(&pkb)).unwrap();
        let sbytes = sl.to_vec();
        match guard(|| BoxVec::from_sealed_bytes(&sbytes)) {
            Outcome::Ok(b2) => { if !same(&b2, &sl) { out.hit("bytes.sealed.from_sealed_bytes-differs", format!("len {}", len), json!({"len":len})); }
                                 if b2.unseal_to_vec(&kp).ok().as_ref() != Some(&m) { out.hit("bytes.sealed.roundtrip-no-longer-unseals", format!("len {}", len), json!({"len":len})); } }
            other => out.hit("bytes.sealed.from_sealed_bytes-rejects-own-encoding", format!("len {} ({})", len, other.class()), json!({"len":len})),
        }
        let (tag, data, epk) = sl.clone().into_parts();
        out.case("bytes.box.from_sealed_bytes", &[b(&sbytes)], &Outcome::Ok(vec![b(epk.unwrap().as_slice()), b(tag.as_slice()), b(&data)]), true);
        if let Some((a, _)) = both_formats(out, "DryocBox(sealed)", &sl, len) { if a.unseal_to_vec(&kp).ok().as_ref() != Some(&m) { out.hit("serde.roundtrip-no-longer-unseals.DryocBox", format!("len {}", len), json!({"len":len})); } }
        // signed message
        let sm = skp.sign_with_defaults(m.clone()).unwrap();
        let smb = sm.to_vec();
        out.search_evaluations += 2;
        let (pks, sks): ([u8; 32], [u8; 64]) = (skp.public_key.as_array().clone(), skp.secret_key.as_array().clone());
        let mut want = sodium::sign_detached(&m, &sks).to_vec(); want.extend_from_slice(&m);
        if smb != want { out.hit("bytes.signedmessage.to_bytes-not-libsodium-layout", format!("len {}", len), json!({"len":len})); }
        match guard(|| dryoc::sign::VecSignedMessage::from_bytes(&smb)) {
            Outcome::Ok(s2) => { if !same(&s2, &sm) { out.hit("bytes.signedmessage.from_bytes-differs", format!("len {}", len), json!({"len":len})); }
                                 if s2.verify(&StackByteArray::<32>::from(&pks)).is_err() { out.hit("bytes.signedmessage.roundtrip-no-longer-verifies", format!("len {}", len), json!({"len":len})); } }
            other => out.hit("bytes.signedmessage.from_bytes-rejects-own-encoding", format!("len {} ({})", len, other.class()), json!({"len":len})),
        }
        let (sg, ms) = sm.clone().into_parts();
        out.case("bytes.signed.from_bytes", &[b(&smb)], &Outcome::Ok(vec![b(sg.as_slice()), b(&ms)]), true);
        if let Some((a, c)) = both_formats(out, "SignedMessage", &sm, len) {
            if a.verify(&StackByteArray::<32>::from(&pks)).is_err() || c.verify(&StackByteArray::<32>::from(&pks)).is_err() { out.hit("serde.roundtrip-no-longer-verifies.SignedMessage", format!("len {}", len), json!({"len":len})); }
        }
        out.len_bucket("payload", len);
    }
    // short byte strings through every from_bytes parser (model: Err below the fixed overhead)
    for len in 0..=70usize {
        let bytes = rng.bytes(len);
        let r = guard(|| SecretVec::from_bytes(&bytes).map(|x| x.into_parts()));
        out.case("bytes.secretbox.from_bytes", &[b(&bytes)], &r.map(|(t, d)| vec![b(t.as_slice()), b(&d)]), len >= 16);
        let r = guard(|| BoxVec::from_sealed_bytes(&bytes).map(|x| x.into_parts()));
        out.case("bytes.box.from_sealed_bytes", &[b(&bytes)], &r.map(|(t, d, e)| vec![b(e.unwrap().as_slice()), b(t.as_slice()), b(&d)]), len >= 48);
        let r = guard(|| dryoc::sign::VecSignedMessage::from_bytes(&bytes).map(|x| x.into_parts()));
        out.case("bytes.signed.from_bytes", &[b(&bytes)], &r.map(|(s, m)| vec![b(s.as_slice()), b(&m)]), len >= 64);
    }
    // key pairs, sessions, kdf, pwhash objects
    {
        let bkp = dryoc::keypair::StackKeyPair::from_secret_key(StackByteArray::<32>::from(&ska));
        both_formats(out, "KeyPair", &bkp, 0);
        both_formats(out, "SigningKeyPair", &skp, 0);
        let ckp = dryoc::kx::KeyPair::from_secret_key(StackByteArray::<32>::from(&ska));
        let skp2 = dryoc::kx::KeyPair::from_secret_key(StackByteArray::<32>::from(&skb));
        if let Ok(sess) = dryoc::kx::Session::<StackByteArray<32>>::new_client(&ckp, &skp2.public_key) {
            both_formats(out, "Session", &sess, 0);
            // into_parts gives (rx, tx) as documented: = the accessors, = the serialised fields, = libsodium
            out.search_evaluations += 3;
            let (rxa, txa) = (sess.rx_as_slice().to_vec(), sess.tx_as_slice().to_vec());
            let jv = serde_json::to_value(&sess).unwrap();
            let field = |n: &str| -> Vec<u8> { jv.get(n).and_then(|x| x.as_array()).map(|a| a.iter().map(|y| y.as_u64().unwrap_or(999) as u8).collect()).unwrap_or_default() };
            let (rx, tx) = sess.into_parts();
            let rp = json!({"op":"kx.session.into_parts","client_sk":hx(&ska),"server_pk":hx(skp2.public_key.as_slice())});
            if rx.as_slice() != &rxa[..] || tx.as_slice() != &txa[..] { out.hit("parts.session.into_parts-differs-from-accessors", "into_parts() is not (rx, tx)".into(), rp.clone()); }
            if field("rx_key") != rxa || field("tx_key") != txa { out.hit("parts.session.serialised-fields-differ", "rx_key / tx_key fields".into(), rp.clone()); }
            if let Some((lrx, ltx)) = sodium::kx_client(ckp.public_key.as_array(), &ska, skp2.public_key.as_array()) {
                if rx.as_slice() != &lrx[..] || tx.as_slice() != &ltx[..] { out.hit("parts.session.into_parts-differs-from-libsodium", "client (rx, tx)".into(), rp.clone()); }
            }
        }
        let kdf = dryoc::kdf::StackKdf::from_parts(StackByteArray::<32>::from(&k), StackByteArray::<8>::from(&rng.arr::<8>()));
        { // into_parts / from_parts keep the order (key, context)
            out.search_evaluations += 1;
            let (kk, cc) = kdf.clone().into_parts();
            if kk.as_slice() != &k[..] || !same(&dryoc::kdf::StackKdf::from_parts(kk, cc), &kdf) { out.hit("parts.kdf.from_parts-differs", "kdf".into(), json!({})); }
        }
        if let Some((a, _)) = both_formats(out, "Kdf", &kdf, 0) { if a.derive_subkey_to_vec(7).ok() != kdf.derive_subkey_to_vec(7).ok() { out.hit("serde.roundtrip-changes-derivation.Kdf", "kdf".into(), json!({})); } }
        // a password-hash record whose costs do not fit 32 bits (legal: the memory limit goes up to about 4 TiB); nothing is hashed
        for mlim in [4294967295usize, 4294967296, 4294967297, 6 << 30, 1 << 40, 4398046510080] {
            for olim in [3u64, 4294967296, u64::MAX >> 1] {
                let cfg = dryoc::pwhash::Config::interactive().with_memlimit(mlim).with_opslimit(olim).with_salt_length(16).with_hash_length(32);
                let ph: dryoc::pwhash::VecPwHash = dryoc::pwhash::PwHash::from_parts(vec![7u8; 32], vec![9u8; 16], cfg.clone());
                out.search_evaluations += 3;
                let rp = json!({"op":"serde.PwHash.large-costs","memlimit":mlim.to_string(),"opslimit":olim.to_string()});
                let val = serde_json::to_value(&ph).ok();
                let got_m = val.as_ref().and_then(|v| v.get("config")).and_then(|c| c.get("memlimit")).and_then(|x| x.as_u64());
                let got_o = val.as_ref().and_then(|v| v.get("config")).and_then(|c| c.get("opslimit")).and_then(|x| x.as_u64());
                if got_m != Some(mlim as u64) || got_o != Some(olim) { out.hit("serde.json.field-differs.PwHash.config", format!("memlimit {} opslimit {} serialised as {:?} / {:?}", mlim, olim, got_m, got_o), rp.clone()); }
                if let Some((a, c)) = both_formats(out, "PwHash(large costs)", &ph, 0) {
                    if format!("{:?}", a) != format!("{:?}", ph) || format!("{:?}", c) != format!("{:?}", ph) { out.hit("serde.roundtrip-differs.PwHash.large-costs", format!("memlimit {} opslimit {}", mlim, olim), rp.clone()); }
                }
            }
        }
        let cfg = dryoc::pwhash::Config::interactive().with_opslimit(1).with_memlimit(8192).with_salt_length(19).with_hash_length(41);
        if let Ok(ph) = dryoc::pwhash::VecPwHash::hash_with_salt(&b"pw".to_vec(), rng.bytes(19), cfg) {
            { out.search_evaluations += 1;
              let (hh, ss, cc) = ph.clone().into_parts();
              if hh.len() != 41 || ss.len() != 19 || !same(&dryoc::pwhash::VecPwHash::from_parts(hh, ss, cc), &ph) { out.hit("parts.pwhash.from_parts-differs", "pwhash".into(), json!({})); } }
            if let Some((a, _)) = both_formats(out, "PwHash", &ph, 0) { if a.verify(&b"pw".to_vec()).is_err() { out.hit("serde.roundtrip-no-longer-verifies.PwHash", "pwhash".into(), json!({})); } }
        }
    }
    // a fixed-length field inside an object: tag / key arrays with one element dropped or added
    {
        let sb = SecretVec::encrypt_to_vecbox(b"payload", &StackByteArray::<24>::from(&n), &StackByteArray::<32>::from(&k));
        let v = serde_json::to_value(&sb).unwrap();
        for delta in [-1i32, 1, -16, 16] {
            let mut v2 = v.clone();
            if let Some(arr) = v2.get_mut("tag").and_then(|t| t.as_array_mut()) {
                if delta < 0 { for _ in 0..(-delta) { arr.pop(); } } else { for _ in 0..delta { arr.push(json!(7)); } }
            }
            out.search_evaluations += 1;
            let r = guard(|| serde_json::from_value::<SecretVec>(v2.clone()));
            if !r.is_err() { out.hit(&format!("serde.json.fixed-length.accepts-{}-sequence", if delta < 0 { "short" } else { "long" }), format!("DryocSecretBox.tag with {} elements", 16 + delta), json!({"op":"serde.json_decode.DryocSecretBox","json":v2.to_string()})); }
        }
        let bkp = dryoc::keypair::StackKeyPair::from_secret_key(StackByteArray::<32>::from(&ska));
        let v = serde_json::to_value(&bkp).unwrap();
        for (field, delta) in [("public_key", -1i32), ("public_key", 1), ("secret_key", -1), ("secret_key", 1)] {
            let mut v2 = v.clone();
            if let Some(arr) = v2.get_mut(field).and_then(|t| t.as_array_mut()) { if delta < 0 { arr.pop(); } else { arr.push(json!(0)); } }
            out.search_evaluations += 1;
            let r = guard(|| serde_json::from_value::<dryoc::keypair::StackKeyPair>(v2.clone()));
            if !r.is_err() { out.hit(&format!("serde.json.fixed-length.accepts-{}-sequence", if delta < 0 { "short" } else { "long" }), format!("KeyPair.{} with {} elements", field, 32 + delta), json!({"op":"serde.json_decode.KeyPair","json":v2.to_string()})); }
        }
        // bincode: a box whose tag byte string has length 15 / 17
        let enc = bincode::serialize(&sb).unwrap();
        for newlen in [15u64, 17u64] {
            // layout: tag = u64 len + bytes, data = u64 len + bytes
            let mut e2: Vec<u8> = newlen.to_le_bytes().to_vec();
            e2.extend(std::iter::repeat(9u8).take(newlen as usize));
            e2.extend_from_slice(&enc[8 + 16..]);
            out.search_evaluations += 1;
            let r = guard(|| bincode::deserialize::<SecretVec>(&e2));
            if !r.is_err() { out.hit(&format!("serde.bincode.fixed-length.accepts-{}-bytes", if newlen < 16 { "short" } else { "long" }), format!("DryocSecretBox.tag with {} bytes", newlen), json!({"op":"serde.bincode_decode.DryocSecretBox","bytes":hx(&e2)})); }
        }
    }
    { let mut rng2 = Rng::new(seed, "c16-extra"); crate::objapi::conversions(out, &mut rng2); }
    { let mut rng2 = Rng::new(seed, "c16-keys"); keypair_roundtrips(out, &mut rng2); }
    { let mut rng2 = Rng::new(seed, "c16-extra2"); crate::objapi::serde_field_lengths(out, &mut rng2); crate::objapi::argon2i_record(out, &mut rng2); }
}

/// key pairs written out as their key bytes and rebuilt from them (from the secret key alone, or from both slices) are the
/// same pair, in every container
fn keypair_roundtrips(out: &mut Out, rng: &mut Rng) {
    use dryoc::keypair::KeyPair;
    use dryoc::sign::SigningKeyPair;
    for r in 0..4 {
        let seed: [u8; 32] = rng.arr();
        let rp = json!({"op":"keypair.bytes-roundtrip","seed":hx(&seed),"round":r});
        let check = |out: &mut Out, name: &str, got: Outcome<Vec<u8>>, want: &[u8]| {
            out.search_evaluations += 1;
            match got { Outcome::Ok(g) if g == want => {}, Outcome::Ok(_) => out.hit(&format!("{}.roundtrip-differs", name), "another key pair came back".into(), rp.clone()),
                        o => out.hit(&format!("{}.roundtrip-fails", name), o.class().to_string(), rp.clone()) }
        };
        // signing pair
        let skp = SigningKeyPair::<StackByteArray<32>, StackByteArray<64>>::from_seed(&seed);
        let (pk, sk) = (skp.public_key.to_vec(), skp.secret_key.to_vec());
        let want = [pk.clone(), sk.clone()].concat();
        check(out, "sign.keypair.from_secret_key", guard_total(|| { let k = SigningKeyPair::<StackByteArray<32>, StackByteArray<64>>::from_secret_key(StackByteArray::<64>::try_from(&sk[..]).unwrap()); [k.public_key.to_vec(), k.secret_key.to_vec()].concat() }), &want);
        check(out, "sign.keypair.from_secret_key(vec)", guard_total(|| { let k = SigningKeyPair::<Vec<u8>, Vec<u8>>::from_secret_key(sk.clone()); [k.public_key.clone(), k.secret_key.clone()].concat() }), &want);
        check(out, "sign.keypair.from_slices", guard(|| SigningKeyPair::<StackByteArray<32>, StackByteArray<64>>::from_slices(&pk, &sk)).map(|k| [k.public_key.to_vec(), k.secret_key.to_vec()].concat()), &want);
        check(out, "sign.keypair.from_slices(vec)", guard(|| SigningKeyPair::<Vec<u8>, Vec<u8>>::from_slices(&pk, &sk)).map(|k| [k.public_key.clone(), k.secret_key.clone()].concat()), &want);
        // and the rebuilt pair signs what the original verifies
        { let m = rng.bytes(11);
          let k2 = SigningKeyPair::<StackByteArray<32>, StackByteArray<64>>::from_secret_key(StackByteArray::<64>::try_from(&sk[..]).unwrap());
          let ok = guard(|| { let sm: dryoc::sign::VecSignedMessage = k2.sign_with_defaults(m.clone())?; sm.verify(&skp.public_key) });
          if !ok.is_ok() { out.hit("sign.keypair.from_secret_key.signature-not-verified-by-original-key", ok.class().to_string(), rp.clone()); } }
        // box / key-exchange pair
        let bkp = dryoc::keypair::StackKeyPair::from_seed(&seed);
        let (bpk, bsk) = (bkp.public_key.to_vec(), bkp.secret_key.to_vec());
        let bwant = [bpk.clone(), bsk.clone()].concat();
        check(out, "keypair.from_secret_key", guard_total(|| { let k = dryoc::keypair::StackKeyPair::from_secret_key(StackByteArray::<32>::try_from(&bsk[..]).unwrap()); [k.public_key.to_vec(), k.secret_key.to_vec()].concat() }), &bwant);
        check(out, "keypair.from_secret_key(vec)", guard_total(|| { let k = KeyPair::<Vec<u8>, Vec<u8>>::from_secret_key(bsk.clone()); [k.public_key.clone(), k.secret_key.clone()].concat() }), &bwant);
        check(out, "keypair.from_slices", guard(|| dryoc::keypair::StackKeyPair::from_slices(&bpk, &bsk)).map(|k| [k.public_key.to_vec(), k.secret_key.to_vec()].concat()), &bwant);
        check(out, "keypair.from_slices(vec)", guard(|| KeyPair::<Vec<u8>, Vec<u8>>::from_slices(&bpk, &bsk)).map(|k| [k.public_key.clone(), k.secret_key.clone()].concat()), &bwant);
    }
}
